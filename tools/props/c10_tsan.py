"""C10, native part: the real ThreadSanitizer on a stress harness that uses every dispenso class within
its documented thread-safety contract (harness/native/c10_tsan.cpp).

run_tsan(ctx, replay, tie="tsan") builds libdispenso and the harness with clang++-14 -fsanitize=thread,
runs one process per scenario (so every report is attributed to exactly one scenario and a replay can
re-run just that one), splits the TSan logs into reports, de-duplicates them by the top non-runtime
frames of the two conflicting accesses and turns every distinct report into a violation:
    tsan:race:<frame>|<frame>      data race                        (a violation of C10)
    tsan:<kind>:<frame>|<frame>    any other ThreadSanitizer report (use-after-free, lock order, leak ...)
    c10:<scenario>:<oracle>        functional oracle of the harness (PFAIL line)
    crash:native/c10_tsan.cpp:...  abnormal termination / timeout
"""
import concurrent.futures
import glob
import os
import re

import vlib

HARNESS_NAME = "native/c10_tsan.cpp"
CXX = "clang++-14"
FLAGS = ["-O1", "-g", "-fsanitize=thread"]
TSAN_BASE_OPTIONS = "halt_on_error=0 exitcode=0 report_signal_unsafe=0 second_deadlock_stack=1 history_size=4"
QUICK_ROUNDS = 3
THOROUGH_ROUNDS = 30

_REPORT_START = re.compile(r"^WARNING: ThreadSanitizer: (.*?)(?: \(pid=\d+\))?\s*$")
_ACCESS_HDR = re.compile(r"^\s+(?:previous\s+)?(?:atomic\s+)?(?:read|write) of size \d+", re.I)
_FRAME = re.compile(r"^\s+#\d+ (.*)$")
_RUNTIME_PATH = ("/include/c++/", "/c++/v1/", "libstdc++", "compiler-rt", "/tsan/", "sanitizer_common",
                 "/lib/gcc/")
_RUNTIME_FUNC = ("__tsan", "__interceptor", "__sanitizer", "operator new", "operator delete")


def _kind_slug(title):
    t = title.strip().lower()
    t = t.split(" (")[0]
    if t == "data race":
        return "race"
    return re.sub(r"[^a-z0-9]+", "-", t).strip("-") or "report"


def _norm_loc(loc):
    """file:line with the column dropped and the tree prefix removed (stable across checkouts)"""
    m = re.match(r"^(.*?)(?::(\d+))?(?::\d+)?$", loc)
    path, line = os.path.normpath(m.group(1)), m.group(2)
    prefixes = [os.path.normpath(vlib.repo_path()), "/repo", os.path.join(vlib.VERIF, "harness"), vlib.VERIF]
    for pre in prefixes:
        if path.startswith(pre + os.sep):
            path = path[len(pre) + 1:]
            break
    else:
        k = path.find("/dispenso/")
        if k >= 0:
            path = path[k + 1:]
    return "%s:%s" % (path, line) if line else path


def _short_func(fn):
    fn = fn.replace("(anonymous namespace)::", "").replace("operator()", "operator_call")
    fn = re.sub(r"\$_\d+", "$lambda", fn)
    fn = re.sub(r"\{lambda[^}]*\}|'lambda\d*'", "lambda", fn)
    for _ in range(40):
        new = re.sub(r"<[^<>]*>", "", fn)
        if new == fn:
            break
        fn = new
    for _ in range(40):
        new = re.sub(r"\([^()]*\)", "", fn)
        if new == fn:
            break
        fn = new
    fn = re.sub(r"\s+const\b", "", fn).strip()
    # drop the leading return type that template instances / generic lambdas carry
    fn = re.sub(r"^(?:(?:auto|void|bool|char|short|int|long|unsigned|signed|float|double|const|volatile)\s+)+", "", fn)
    if " " in fn:
        toks = fn.split()
        fn = next((t for t in toks if "operator" in t), toks[-1])
    fn = re.sub(r"\s+", "", fn)
    return fn[-90:]


def _parse_frame(rest):
    """'<function> <file>:<line>:<col> (<module>+0x..) (BuildId: ..)' -> (function, location)"""
    rest = re.sub(r"\s+\(BuildId: [0-9a-f]+\)\s*$", "", rest)
    rest = re.sub(r"\s+\([^()\s]+\+0x[0-9a-f]+\)\s*$", "", rest)
    if " " not in rest:
        return rest, "<null>"
    fn, loc = rest.rsplit(" ", 1)
    return fn, loc


def _is_runtime(fn, loc):
    if loc == "<null>" or "/" not in loc:
        return True
    if any(p in loc for p in _RUNTIME_PATH):
        return True
    return any(fn.startswith(p) for p in _RUNTIME_FUNC)


def _top_frame(frames, scn=""):
    """first frame outside the sanitizer runtime / libstdc++ as 'function@file:line'; frames that lie in
    the harness itself (payload helpers shared by all scenarios) are qualified with the scenario name"""
    if not frames:
        return "?"
    user = [(fn, loc) for fn, loc in frames if not _is_runtime(fn, loc)]
    if not user:
        return "%s@<runtime>" % _short_func(frames[0][0])
    # prefer the innermost frame that carries a line number (inlined frames sometimes have none)
    pick = user[0]
    for fn, loc in user[:2]:
        if re.search(r":\d+", loc):
            pick = (fn, loc)
            break
    loc = _norm_loc(pick[1])
    pre = scn + "/" if scn and loc.startswith("native/") else ""
    return "%s%s@%s" % (pre, _short_func(pick[0]), loc)


def split_reports(text):
    """-> list of dict(kind, title, text, stanzas=[(header, [(func, loc)...])...])"""
    reports = []
    cur = None
    for line in text.split("\n"):
        m = _REPORT_START.match(line)
        if m:
            cur = {"title": m.group(1).strip(), "lines": [line]}
            continue
        if cur is None:
            continue
        cur["lines"].append(line)
        if line.startswith("SUMMARY: ThreadSanitizer:"):
            reports.append(cur)
            cur = None
    if cur is not None:  # truncated report (process died while printing)
        reports.append(cur)
    out = []
    for rep in reports:
        stanzas = []
        hdr = None
        frames = []
        for line in rep["lines"][1:]:
            fm = _FRAME.match(line)
            if fm and hdr is not None:
                frames.append(_parse_frame(fm.group(1)))
                continue
            if "[failed to restore the stack]" in line and hdr is not None:
                continue
            if line.startswith("  ") and not line.startswith("   ") and line.rstrip().endswith(":"):
                if hdr is not None:
                    stanzas.append((hdr, frames))
                hdr, frames = line.strip(), []
            elif not line.strip():
                if hdr is not None:
                    stanzas.append((hdr, frames))
                hdr, frames = None, []
        if hdr is not None:
            stanzas.append((hdr, frames))
        out.append({"kind": _kind_slug(rep["title"]), "title": rep["title"], "text": "\n".join(rep["lines"]),
                    "stanzas": stanzas})
    return out


def report_signature(rep, scn=""):
    acc = [s for s in rep["stanzas"] if _ACCESS_HDR.match("  " + s[0])]
    if len(acc) < 2:
        acc = (acc + [s for s in rep["stanzas"] if s not in acc and s[1]])[:2]
    tops = [_top_frame(s[1], scn) for s in acc[:2]]
    while len(tops) < 2:
        tops.append("?")
    if rep["kind"] == "race":
        tops.sort()
    return "tsan:%s:%s|%s" % (rep["kind"], tops[0], tops[1])


def compact_report(text, limit=6000):
    """the report with the module/BuildId tails dropped and over-long template names shortened, so that
    both access stacks fit into the replay file"""
    out = []
    for line in text.split("\n"):
        fm = _FRAME.match(line)
        if fm:
            fn, loc = _parse_frame(fm.group(1))
            if len(fn) > 200:
                fn = fn[:120] + " ... " + fn[-60:]
            line = "%s%s %s" % (line[:line.index("#")], line[line.index("#"):].split(" ", 1)[0], fn + " " + loc)
        elif len(line) > 400:
            line = line[:400] + " ..."
        out.append(line)
    res = "\n".join(out)
    return res if len(res) <= limit else res[:limit] + "\n[truncated]"


def _describe(rep, scn):
    acc = [s[0] for s in rep["stanzas"][:2]]
    return "ThreadSanitizer: %s in scenario %s (%s)" % (rep["title"], scn, " / ".join(a.rstrip(":") for a in acc))


def build(ctx):
    lib, log = vlib.build_lib(FLAGS, compiler=CXX, tag="tsanlib")
    if not lib:
        ctx.broken.append(("harness:libdispenso-tsan", "library does not compile with -fsanitize=thread: " + log[-1500:]))
        return None
    src = os.path.join(vlib.HARNESS, "native", "c10_tsan.cpp")
    exe, log = vlib.build_harness(src, FLAGS, compiler=CXX, lib=lib)
    if not exe:
        ctx.broken.append(("harness:c10_tsan", "does not compile against the current tree: " + log[-1500:]))
        return None
    return exe


def list_scenarios(exe, findings=False):
    rc, out, err = vlib.sh([exe, "--list-findings" if findings else "--list"], timeout=60)
    return [l.strip() for l in out.split("\n") if l.strip()] if rc == 0 else []


def _run_one(exe, seed, rounds, scn, timeout):
    logdir = os.path.join(vlib.BUILD, "tsan")
    os.makedirs(logdir, exist_ok=True)
    log_path = os.path.join(logdir, "c10_%d_%s" % (os.getpid(), scn))
    for old in glob.glob(log_path + ".*"):
        try:
            os.unlink(old)
        except OSError:
            pass
    env = dict(os.environ)
    env["TSAN_OPTIONS"] = TSAN_BASE_OPTIONS + " log_path=" + log_path
    rc, out, err = vlib.sh([exe, str(seed), str(rounds), scn], timeout=timeout, env=env)
    text = ""
    for p in sorted(glob.glob(log_path + ".*")):
        try:
            with open(p, errors="replace") as f:
                text += f.read() + "\n"
        except OSError:
            pass
        try:
            os.unlink(p)
        except OSError:
            pass
    # with log_path unset for some reason (or a fatal runtime error) the reports are on stderr
    if "ThreadSanitizer" in err:
        text += err
    return {"scn": scn, "rc": rc, "out": out, "err": err, "tsan": text}


def run_tsan(ctx, replay, tie="tsan", include_findings=True, jobs=None):
    """Runs the native TSan sweep and records violations in ctx.  Returns a summary dict (or None when
    the harness could not be built).  `include_findings` also runs the minimal reproducers of the races
    that were found on the unchanged tree (their signatures are meant for known_findings.json)."""
    ctx.checker_cmds.append(
        "%s %s harness/native/c10_tsan.cpp libdispenso.a(tsan) ; TSAN_OPTIONS='%s' c10_tsan <seed> <rounds> <scenario>"
        % (CXX, " ".join(FLAGS), TSAN_BASE_OPTIONS))
    exe = build(ctx)
    if not exe:
        return None
    quick = ctx.tier == "quick"
    seed, rounds, only = ctx.seed, (QUICK_ROUNDS if quick else THOROUGH_ROUNDS), None
    if replay and replay.get("args"):
        a = list(replay["args"])
        seed = int(a[0])
        if len(a) > 1 and a[1] is not None:
            rounds = int(a[1])
        if len(a) > 2 and a[2]:
            only = str(a[2])
    finding_scns = set(list_scenarios(exe, findings=True))
    if only:
        scns = [only]
    else:
        scns = list_scenarios(exe)
        if include_findings:
            scns += sorted(finding_scns)
        if not scns:
            ctx.broken.append(("harness:c10_tsan", "harness did not list any scenario"))
            return None
    if jobs is None:
        jobs = max(1, min(6, (os.cpu_count() or 2) // 2))
    timeout = 600 if quick else 3600
    with concurrent.futures.ThreadPoolExecutor(max_workers=jobs) as tp:
        results = list(tp.map(lambda s: _run_one(exe, seed, rounds, s, timeout), scns))

    stats, nts, distinct = {}, set(), {}
    total_reports = 0
    for res in results:
        scn = res["scn"]
        args = [str(seed), str(rounds), scn]
        for line in res["out"].split("\n"):
            if line.startswith("PFAIL "):
                sig, _, det = line[6:].partition(" | ")
                ctx.fail(sig.strip(), det.strip(),
                         {"kind": "input", "harness": HARNESS_NAME, "args": args, "detail": det.strip()})
                stats["pfails"] = stats.get("pfails", 0) + 1
            elif line.startswith("STAT "):
                p = line.split()
                if len(p) == 3:
                    try:
                        stats[p[1]] = stats.get(p[1], 0) + int(p[2])
                    except ValueError:
                        pass
            elif line.startswith("NT "):
                nts.add(line[3:].strip())
            elif line.startswith("SAMPLE "):
                ctx.add_samples([line[7:]])
        reps = split_reports(res["tsan"])
        total_reports += len(reps)
        if scn in finding_scns and reps:
            # a minimal reproducer of one reported defect: its many access pairs are one finding
            sub = sorted(set(report_signature(r, scn) for r in reps))
            sig = "tsan:finding:" + scn
            distinct[sig] = {"count": len(reps), "scenario": scn, "kind": reps[0]["kind"], "reports": sub}
            ctx.fail(sig, "ThreadSanitizer: %d report(s) from the reproducer scenario %s, e.g. %s"
                     % (len(reps), scn, sub[0]),
                     {"kind": "input", "harness": HARNESS_NAME, "args": args, "signatures": sub,
                      "report": compact_report(reps[0]["text"])})
            reps = []
        for rep in reps:
            sig = report_signature(rep, scn)
            if sig in distinct:
                distinct[sig]["count"] += 1
                continue
            distinct[sig] = {"count": 1, "scenario": scn, "kind": rep["kind"]}
            ctx.fail(sig, _describe(rep, scn),
                     {"kind": "input", "harness": HARNESS_NAME, "args": args, "report": compact_report(rep["text"])})
        # exitcode=0 makes even a fatal runtime error (CHECK failed, e.g. a thread joined twice) exit
        # with 0: a run is complete only if the harness printed its final STAT line
        complete = re.search(r"^STAT cases \d+", res["out"], re.M) is not None
        if res["rc"] != 0 or not complete:
            fatal = re.search(r"^.*(?:ThreadSanitizer: CHECK failed|FATAL: ThreadSanitizer|ERROR: ThreadSanitizer)[^\n]*",
                              res["tsan"], re.M)
            tail = res["out"][-1500:] + "\n" + res["err"][-3000:] + ("\n" + res["tsan"][fatal.start():][:3000] if fatal else "")
            m = re.search(r"(Assertion [^\n]*failed[^\n]*|FATAL: ThreadSanitizer[^\n]*|ThreadSanitizer: CHECK failed[^\n]*"
                          r"|terminate called[^\n]*|ERROR: \w+Sanitizer: [^\n]*)", tail)
            what = m.group(1) if m else ("timeout" if res["rc"] == 124 else
                                         "exit code %s%s" % (res["rc"], "" if complete else " before the final STAT line"))
            ctx.fail("crash:%s:%s:%s" % (HARNESS_NAME, scn, re.sub(r"0x[0-9a-f]+|\d+", "N", what)[:80]),
                     "harness %s scenario %s terminated abnormally: %s" % (HARNESS_NAME, scn, what),
                     {"kind": "input", "harness": HARNESS_NAME, "args": args, "log_tail": tail})
            stats["crashes"] = stats.get("crashes", 0) + 1
    stats["scenarios"] = len(scns)
    stats["tsan_reports"] = total_reports
    stats["tsan_distinct"] = len(distinct)
    ctx.cov["evaluations"] += stats.get("cases", 0)
    ctx.cov["distinct_nontrivial"] += len(nts)
    ctx.notes.setdefault("stats", {})
    for k, v in stats.items():
        ctx.notes["stats"][tie + "." + k] = ctx.notes["stats"].get(tie + "." + k, 0) + v
    ctx.notes.setdefault("tsan_signatures", {}).update(distinct)
    if len(ctx.cov["samples"]) < 6:
        ctx.add_samples(sorted(nts)[:2])
    return {"scenarios": scns, "seed": seed, "rounds": rounds, "stats": stats, "distinct": distinct,
            "ok": not distinct and not stats.get("pfails") and not stats.get("crashes")}
