"""Shared check logic of C27 / C28 / C29 (dispenso pipelines).

One dsched harness (harness/conc/c27_pipeline.cpp) runs real pipelines; its traces are replayed through
the Lean model (lean/Driver/Plug/Pipeline.lean -> Pipe.step) and its oracle verdicts are filtered by the
property that owns them.  The harness process ends at the first run that never returns (dsched cannot
unwind stuck threads), so the scenarios are run in chunks (separate processes)."""
import json
import os
import re

import vlib

HARNESS_REL = "conc/c27_pipeline.cpp"

# oracle signatures printed by the harness, by owning property
SIG = {
    "C27": [
        "pipeline item not delivered exactly once through every stage",
        "pipeline stage received a value that is not its predecessor's output",
        "pipeline stage ran after pipeline() returned",
        "pipeline copied an item holding a value",
    ],
    "C28": [
        "pipeline stage exceeded its concurrency limit",
        "pipeline generator exceeded its concurrency limit",
    ],
    "C29": [
        "pipeline stage processed an item twice",
        "pipeline swallowed a stage exception",
        "pipeline rethrew an exception that is not the one thrown",
        "pipeline threw although no stage threw",
        "pipeline item objects not released (constructed != destroyed)",
        "pool not usable after pipeline",
        "pipeline() never returns",
        "pipeline stage ran after pipeline() returned",
    ],
}

FIX_NAMES = ["skip", "dtor", "guard", "catch"]
FIX_TEXT = {
    "skip": "a canceled task set drops a queued stage closure (OnceFunction) without releasing it",
    "dtor": "~LimitGatedScheduler::Impl does not release closures left in the local queue",
    "guard": "the generator's completion guard lives in the closure body (a closure that is dropped unrun never signals)",
    "catch": "the generator closure does not catch exceptions (an inline run lets them escape from execute())",
}

# the four statements of dispenso::pipeline(ThreadPool&, Stages&&...) that the harness replicates
PIPELINE_BODY = ["ConcurrentTaskSet tasks(pool);",
                 "auto pipes = detail::makePipes(tasks, std::forward<Stages>(sIn)...);",
                 "pipes.execute();",
                 "pipes.wait();"]


def check_pipeline_body(ctx):
    """the harness replicates pipeline()'s body for the traced runs: make sure the original still is that body"""
    p = os.path.join(vlib.repo_path(), "dispenso", "pipeline.h")
    try:
        src = open(p).read()
    except OSError as e:
        ctx.broken.append(("tie:pipeline.h", "cannot read pipeline.h: %s" % e))
        return
    m = re.search(r"void pipeline\(ThreadPool& pool, Stages&&\.\.\. sIn\) \{(.*?)\n\}", src, re.S)
    body = [l.strip() for l in (m.group(1).split("\n") if m else []) if l.strip() and not l.strip().startswith("//")]
    if body != PIPELINE_BODY:
        ctx.broken.append(("tie:pipeline.h", "dispenso::pipeline() no longer consists of the four statements the harness "
                           "replicates for its white-box runs: %r" % body))


def run_chunk(ctx, tie, exe, args, timeout=1500):
    """run one harness process, replay its traces; returns dict like vlib.trace_validate plus variants"""
    rc, out, err = vlib.sh([exe] + [str(a) for a in args], timeout=timeout)
    reqs, idx, descs = [], [], {}
    traces, cur = 0, None
    pfails, stats, nts = [], {}, set()
    for line in out.split("\n"):
        if line.startswith("TRACE-BEGIN "):
            traces += 1
            cur = traces
            reqs.append("trace begin " + line[12:])
            idx.append((cur, line))
        elif line.startswith("TRACE-END"):
            descs[cur] = line[9:].strip()
            cur = None
        elif line.startswith("T ") and cur is not None:
            reqs.append(line)
            idx.append((cur, line))
        elif line.startswith("PFAIL "):
            sig, _, det = line[6:].partition(" | ")
            pfails.append((sig.strip(), det.strip()))
        elif line.startswith("STAT "):
            p = line.split()
            if len(p) == 3:
                try:
                    stats[p[1]] = stats.get(p[1], 0) + int(p[2])
                except ValueError:
                    pass
        elif line.startswith("SAMPLE "):
            ctx.add_samples([line[7:]])
        elif line.startswith("NT "):
            nts.add(line[3:].strip())
    mism, variants = [], []
    accepted = 0
    if reqs:
        rep = vlib.run_driver(reqs)
        if len(rep) != len(reqs):
            mism.append({"trace": 0, "line": "<driver>", "model": "reply count %d != %d" % (len(rep), len(reqs))})
        else:
            bad = set()
            for pos, ((tn, text), r) in enumerate(zip(idx, rep)):
                if r == "ok" or r == "skip":
                    continue
                if r.startswith("ok-variant "):
                    bits = r.split()[1]
                    variants.append({"trace": tn, "desc": descs.get(tn, ""), "bits": bits,
                                     "why": r.partition("repaired-model-says: ")[2][:300]})
                    continue
                if tn not in bad:
                    bad.add(tn)
                    if len(mism) < 3:
                        ctxl = [t for (n, t) in idx[:pos + 1] if n == tn]
                        mism.append({"trace": tn, "desc": descs.get(tn, ""), "line": text, "model": r[:900],
                                     "events": len(ctxl)})
            accepted = traces - len(bad)
    crashed = rc != 0
    tail = (out[-1500:] + "\n" + err[-3000:]) if crashed else ""
    ctx.cov["evaluations"] += stats.get("cases", 0)
    ctx.cov["distinct_nontrivial"] += 0
    ctx.cov["traces_validated_against_impl"] += accepted
    if traces and len(ctx.cov["samples"]) < 3:
        first = [t for (n, t) in idx if n == 1][:16]
        ctx.add_samples([{"trace": first, "desc": descs.get(1, "")}])
    for k, v in stats.items():
        ctx.notes.setdefault("stats", {})
        ctx.notes["stats"][tie + "." + k] = ctx.notes["stats"].get(tie + "." + k, 0) + v
    ctx.notes.setdefault("trace_events", 0)
    ctx.notes["trace_events"] += len(reqs) - traces
    return {"mismatches": mism, "pfails": pfails, "stats": stats, "rc": rc, "tail": tail, "crashed": crashed,
            "nreq": traces, "variants": variants, "nts": nts}


def run_pipe(ctx, pid, theorems, module, plan, replay, variant_is_violation):
    """plan: list of (mode, scenarios) for quick tier scaled by the caller for thorough"""
    ctx.assumptions += [
        "moodycamel::ConcurrentQueue is a linearizable MPMC bag (try_dequeue may fail spuriously while other operations are in "
        "flight, not when the queue is quiescent); the ThreadPool delivers every queued task to some thread (its wake/sleep "
        "machinery is the subject of C01-C09, not modelled here)",
        "sequentially consistent reading of the atomics (memory orders: C10)",
    ]
    if theorems:
        ctx.prove(module, theorems)
    else:
        vlib.lake_build(["dvdriver"])
    check_pipeline_body(ctx)
    src = os.path.join(vlib.HARNESS, "conc", "c27_pipeline.cpp")
    exe, log = vlib.build_dsched_harness(src, with_lib=True)
    if not exe:
        ctx.broken.append(("harness:c27_pipeline", "does not compile against the current tree: " + log[-1500:]))
        return
    own = set(SIG[pid])
    chunks = []
    if replay and replay.get("args"):
        chunks = [list(replay["args"])]
    else:
        first = 0
        for mode, n, per in plan:
            k = 0
            while k < n:
                m = min(per, n - k)
                chunks.append([ctx.seed, m, mode, first])
                first += m
                k += m
    foreign = {}
    allnts = set()
    variant_counts = {}
    for args in chunks:
        res = run_chunk(ctx, "pipe", exe, args)
        allnts |= res["nts"]
        for sig, det in res["pfails"]:
            # a run that never returns although no stage throws is everybody's failure
            hang_plain = sig == "pipeline() never returns" and "throw=" not in det
            if sig in own or hang_plain:
                # narrow the replay to the failing scenario: "it=<n>" in the detail
                m = re.search(r"\bit=(\d+)\b", det)
                rargs = [args[0], 1, args[2], int(m.group(1))] if m else args
                ctx.fail(sig, det, {"kind": "input", "harness": HARNESS_REL, "args": [str(a) for a in rargs], "detail": det})
            else:
                foreign[sig] = foreign.get(sig, 0) + 1
        if res["stats"].get("cases", 0) < int(args[1]) and not any(
                sg == "pipeline() never returns" for sg, _ in res["pfails"]):
            ctx.broken.append(("harness:c27_pipeline", "the harness ran %d of %s scenarios of chunk %s and reported no reason"
                               % (res["stats"].get("cases", 0), args[1], args)))
        if res["stats"].get("cases", 0) < int(args[1]):
            ctx.notes["scenarios_not_run_because_a_run_hung"] = ctx.notes.get("scenarios_not_run_because_a_run_hung", 0) + \
                int(args[1]) - res["stats"].get("cases", 0)
        if res["crashed"]:
            m = re.search(r"(ERROR: \w+Sanitizer: [^\n]*|runtime error: [^\n]*|Assertion [^\n]*failed[^\n]*)", res["tail"])
            what = m.group(1) if m else "exit code %s" % res["rc"]
            ctx.fail("crash:%s:%s" % (HARNESS_REL, re.sub(r"0x[0-9a-f]+|\d+", "N", what)[:80]),
                     "harness %s terminated abnormally: %s" % (HARNESS_REL, what),
                     {"kind": "input", "harness": HARNESS_REL, "args": [str(a) for a in args], "log_tail": res["tail"]})
        if res["mismatches"]:
            ctx.broken.append(("tie:pipe", "model and implementation disagree: " + json.dumps(res["mismatches"][:2])))
            mm = res["mismatches"][0]
            m = re.search(r"\bit=(\d+)\b", mm.get("desc", ""))
            rargs = [args[0], 1, args[2], int(m.group(1))] if m else args
            ctx.write_replay("tie_pipe", {"kind": "ops", "harness": HARNESS_REL, "args": [str(a) for a in rargs],
                                          "mismatches": res["mismatches"]})
        for v in res["variants"]:
            offs = [FIX_NAMES[i] for i, b in enumerate(v["bits"]) if b == "0"]
            for o in offs:
                variant_counts[o] = variant_counts.get(o, 0) + 1
            if variant_is_violation:
                m = re.search(r"\bit=(\d+)\b", v["desc"])
                rargs = [args[0], 1, args[2], int(m.group(1))] if m else args
                for o in offs:
                    ctx.fail("pipeline implementation follows the unrepaired model: " + o,
                             "the trace of the real code is only accepted by the model variant in which " + FIX_TEXT[o] +
                             " (%s; the repaired model says: %s)" % (v["desc"], v["why"]),
                             {"kind": "input", "harness": HARNESS_REL, "args": [str(a) for a in rargs], "detail": v["desc"]})
    ctx.cov["distinct_nontrivial"] += len(allnts)
    if foreign:
        ctx.notes["oracle_failures_owned_by_other_properties"] = foreign
    if variant_counts:
        ctx.notes["traces_needing_original_behaviour"] = variant_counts
