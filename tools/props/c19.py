import os
import vlib

THEOREMS = ["Dispenso.FutChain." + t for t in [
    "C19_dispatch_at_most_once", "C19_dispatch_only_when_ready", "C19_undispatched_has_owner",
    "C19_dispatch_exactly_once", "C19_single_owner"]] + ["Dispenso.WhenComb." + t for t in [
    "C19_when_all_ready_after_all_inputs", "C19_when_all_count", "C19_when_any_result_is_ready_input",
    "C19_when_any_winner"]]


def run(ctx, replay):
    ctx.cov["rule"] = ("traced chain scenarios: 1..5 continuations added by then() from 1..3 threads before / while / after a "
                       "dedicated thread or an inline waiter completes the antecedent, recording schedulables, random / PCT "
                       "schedules, virtual-time delays; status_/thenChain_/dispatch-counter events replayed through the Lean "
                       "model; oracle scenarios: then() through ImmediateInvoker / ThreadPool / NewThreadInvoker / TaskSet / "
                       "ConcurrentTaskSet (chains of depth 1..3, fan 1..3), when_all / when_any (vector, tuple, task-set "
                       "variants, empty ranges) over inputs completed in random order before / during construction, get() "
                       "racing; distinct = distinct scenario shapes")
    if THEOREMS:
        ctx.prove("DispensoVerif.Props.C19", THEOREMS)
    else:
        vlib.lake_build(["dvdriver"])
    src = os.path.join(vlib.HARNESS, "conc", "c19_chain.cpp")
    exe, log = vlib.build_dsched_harness(src, with_lib=True)
    if not exe:
        ctx.broken.append(("harness:c19_chain", "does not compile against the current tree: " + log[-1500:]))
        return
    q = ctx.tier == "quick"
    args = replay["args"] if replay and replay.get("args") else [ctx.seed, 250 if q else 4000, 150 if q else 2500,
                                                                   200 if q else 3000]
    res = vlib.trace_validate(ctx, "futchain", exe, args)
    vlib.standard_verdict(ctx, "futchain", res, args, "conc/c19_chain.cpp")
    if res["stats"].get("when_hooks_missing", 0):
        ctx.notes["when_all_when_any_tie"] = ("the tree under test has no fut.when_all / fut.when_any observation hooks "
                                             "(deliver/hooks_future_when_all_any.patch): these scenarios ran with the "
                                             "oracle only, their traces were not compared with the model")
