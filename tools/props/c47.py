from props import sched_common

THEOREMS = []
# (flavour, scenarios in the quick tier): 0 mixed, 1 without resize, 2 resize-heavy
FLAVOURS = [(1, 300), (0, 100)]


def run(ctx, replay):
    sched_common.run_sched(ctx, replay, "C47", "DispensoVerif.Props.C47", THEOREMS, FLAVOURS)
