from props import sched_common

THEOREMS = ["Dispenso.Sched." + t for t in ['C47_fq_never_begins_inline', 'C47_fq_blocks_inline_decisions', 'C47_inline0_needs_no_threads', 'C47_zeroPath_only_after_fq_cleared', 'C47_fq_cleared_only_without_threads', 'C47_fq_cleared_top']]
# (flavour, scenarios in the quick tier): 0 mixed, 1 without resize, 2 resize-heavy (incl. resize(0) held in join while a ring-routed bulk arrives), 3 overloaded pool + chains, 4 workers parked between submissions, 5 exception-heavy
FLAVOURS = [(1, 250), (0, 100), (3, 50)]


def run(ctx, replay):
    sched_common.run_sched(ctx, replay, "C47", "DispensoVerif.Props.C47", THEOREMS, FLAVOURS)
