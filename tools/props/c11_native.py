"""C11, native part: error / cancellation / shutdown paths of dispenso with real threads under
ASan + UBSan + LSan (harness/native/c11_paths.cpp).  Used by tools/props/c11.py:

    import c11_native
    c11_native.run_native(ctx, replay)

One process per scenario, so that a sanitizer abort in one scenario does not hide the others.  Every
report becomes ctx.fail(signature, description, replay) with
    signature = <kind>:<scenario>:<function>@<file>      (sanitizer reports; top frame under $VERIF_REPO/dispenso)
                <text printed by the harness>            (PFAIL records: ledgers, allocation balance)
                crash:native/c11_paths.cpp:<scenario>:<what>   (time-out, abnormal exit without a report)
No line numbers or addresses appear in a signature.
"""
import concurrent.futures
import os
import re

import vlib

HARNESS_REL = "native/c11_paths.cpp"
NPARTS = 6  # harness/native/c11_paths.cpp is compiled once per part (-DC11_PART=k) so the parts build in parallel
# link-time wrappers around the SmallBufferAllocator entry points (chunk ledger, see the harness header)
WRAP = [
    "-DC11_WRAP_SB=1",
    "-Wl,--wrap=_ZN8dispenso6detail20allocSmallBufferImplEm",
    "-Wl,--wrap=_ZN8dispenso6detail22deallocSmallBufferImplEmPv",
]
ASAN_OPTIONS = "detect_leaks=1:abort_on_error=0:allocator_may_return_null=1:detect_stack_use_after_return=1"
UBSAN_OPTIONS = "print_stacktrace=1:halt_on_error=1"
REPS = {"quick": 6, "thorough": 320}
TIMEOUT = {"quick": 600, "thorough": 3000}  # per scenario process


def lib_flags():
    return ["-O1", "-g"] + vlib.SAN_FLAGS


def build(ctx):
    """returns {scenario: exe} or None (then ctx.broken has the reason)"""
    flags = lib_flags()
    lib, log = vlib.build_lib(flags, tag="asan")
    if not lib:
        ctx.broken.append(("harness:libdispenso", "library does not compile: " + log[-1500:]))
        return None
    src = os.path.join(vlib.HARNESS, "native", "c11_paths.cpp")

    def one(k):
        return vlib.build_harness(src, flags + WRAP + ["-DC11_PART=%d" % k], name="c11_paths_p%d" % k, lib=lib)

    with concurrent.futures.ThreadPoolExecutor(max_workers=NPARTS) as ex:
        built = list(ex.map(one, range(NPARTS)))
    scen = {}
    for k, (exe, log) in enumerate(built):
        if not exe:
            ctx.broken.append(("harness:c11_paths", "part %d does not compile against the current tree: %s" % (k, log[-1500:])))
            return None
        rc, out, err = vlib.sh([exe, "--list"], timeout=60)
        if rc != 0:
            ctx.broken.append(("harness:c11_paths", "part %d: --list failed: %s" % (k, (out + err)[-500:])))
            return None
        for name in out.split():
            scen[name] = exe
    return scen


# ---------------------------------------------------------------- report parsing
_FRAME = re.compile(r"^\s*#\d+\s+0x[0-9a-f]+\s+(?:in\s+)?(.*)$")


def _strip_groups(s, open_c, close_c):
    out, depth = [], 0
    for ch in s:
        if ch == open_c:
            depth += 1
        elif ch == close_c and depth > 0:
            depth -= 1
        elif depth == 0:
            out.append(ch)
    return "".join(out)


def clean_function(fn):
    """'bool dispenso::detail::stripeClaim<int>(dispenso::detail::StripeState<int>&, ...)' -> 'dispenso::detail::stripeClaim'"""
    fn = fn.replace("operator()", "operator\x01").replace("(anonymous namespace)", "\x02")
    fn = re.sub(r"operator\s*(<<=|<<|<=|<|>>=|>>|>=|>|->)", lambda m: "operator\x03%d\x03" % len(m.group(1)), fn)
    fn = _strip_groups(fn, "<", ">")
    fn = _strip_groups(fn, "(", ")")
    fn = _strip_groups(fn, "[", "]")
    fn = re.sub(r"\s+(const|volatile|noexcept|mutable)\b", "", fn).strip()
    fn = fn.split()[-1] if fn.split() else fn
    fn = fn.replace("operator\x01", "operator()").replace("\x02", "(anonymous namespace)")
    fn = re.sub(r"operator\x03\d\x03", "operator<cmp>", fn)
    fn = re.sub(r"0x[0-9a-f]+", "", fn)
    fn = re.sub(r"::+$", "", fn)
    return fn or "?"


def parse_frame(line):
    """-> (function, file or None) for a sanitizer stack line, else None"""
    m = _FRAME.match(line)
    if not m:
        return None
    rest = m.group(1).strip()
    path = None
    toks = rest.rsplit(" ", 1)
    if len(toks) == 2 and toks[1].startswith("/"):
        rest, loc = toks
        path = re.sub(r"(:\d+)+$", "", loc)
    elif rest.endswith(")") and " (" in rest:  # "(module+0xoffset)": no debug location
        rest = rest[: rest.rfind(" (")]
    return rest, path


def top_dispenso_frame(lines, start):
    """first frame of the stack that begins at or after lines[start] whose file is under $VERIF_REPO/dispenso"""
    root = os.path.join(os.path.realpath(vlib.repo_path()), "dispenso") + os.sep
    root2 = os.path.join(vlib.repo_path(), "dispenso") + os.sep
    seen_frame = False
    first_any = None
    for line in lines[start:start + 120]:
        fr = parse_frame(line)
        if fr is None:
            if seen_frame and not line.strip():
                break
            continue
        seen_frame = True
        fn, path = fr
        if first_any is None and path and "/libsanitizer/" not in path:
            first_any = (fn, path)
        if path and (path.startswith(root) or path.startswith(root2)) and "/third-party/" not in path:
            return "%s@%s" % (clean_function(fn), os.path.basename(path))
    if first_any:
        return "%s@%s" % (clean_function(first_any[0]), os.path.basename(first_any[1]))
    return "?"


def sanitizer_reports(err):
    """-> list of (kind, where, headline) found in a process' stderr"""
    lines = err.split("\n")
    res = []
    for i, line in enumerate(lines):
        m = re.search(r"ERROR: AddressSanitizer: (.*)$", line)
        if m:
            head = m.group(1)
            kind = re.split(r" on address| on unknown address|: | \(|\s+0x", head)[0].strip()
            if kind.startswith("SEGV"):
                kind = "SEGV"
            kind = re.sub(r"[^A-Za-z\-]+", "-", kind).strip("-") or "asan"
            res.append((kind, top_dispenso_frame(lines, i + 1), "AddressSanitizer: " + head[:160]))
            continue
        m = re.search(r"(\S+?):\d+:\d+: runtime error: (.*)$", line)
        if m:
            msg = re.sub(r"0x[0-9a-f]+|\d+", "N", m.group(2))
            kind = "ubsan-" + re.sub(r"[^A-Za-z]+", "-", msg)[:50].strip("-")
            where = top_dispenso_frame(lines, i + 1)
            if where == "?":
                where = "@" + os.path.basename(m.group(1))
            res.append((kind, where, "UBSan: " + m.group(2)[:160]))
            continue
        if "ERROR: LeakSanitizer: detected memory leaks" in line:
            # the first leak block; frames of the allocation stack
            j = i + 1
            while j < len(lines) and "leak of" not in lines[j]:
                j += 1
            head = lines[j].strip() if j < len(lines) else "memory leak"
            head = re.sub(r"\d+", "N", head)
            res.append(("leak", top_dispenso_frame(lines, j + 1), "LeakSanitizer: " + head[:120]))
    return res


def run_scenario(exe, seed, reps, scenario, timeout):
    e = dict(os.environ)
    e["ASAN_OPTIONS"] = ASAN_OPTIONS
    e["UBSAN_OPTIONS"] = UBSAN_OPTIONS
    return vlib.sh([exe, str(seed), str(reps), scenario], timeout=timeout, env=e)


def digest(ctx, tie, scenario, args, rc, out, err):
    """turn one scenario process' output into violations; returns (cases, set of NT keys, stats)"""
    pfails, stats, nts = [], {}, set()
    for line in out.split("\n"):
        if line.startswith("PFAIL "):
            sig, _, det = line[6:].partition(" | ")
            pfails.append((sig.strip(), det.strip()))
        elif line.startswith("STAT "):
            p = line.split()
            if len(p) == 3:
                try:
                    stats[p[1]] = stats.get(p[1], 0) + int(p[2])
                except ValueError:
                    pass
        elif line.startswith("NT "):
            nts.add(line[3:].strip())
    tail = out[-1200:] + "\n" + err[-6000:]
    base = {"kind": "input", "harness": HARNESS_REL, "args": [str(a) for a in args]}
    for sig, det in pfails:
        ctx.fail(sig, det, dict(base, detail=det))
    reports = sanitizer_reports(err)
    seen = set()
    for kind, where, head in reports:
        sig = "%s:%s:%s" % (kind, scenario, where)
        if sig in seen:
            continue
        seen.add(sig)
        ctx.fail(sig, "%s in scenario %s (top dispenso frame %s)" % (head, scenario, where), dict(base, log_tail=tail))
    if rc != 0 and not reports:
        if rc == 124:
            what = "timeout"
        else:
            m = re.search(r"(terminate called[^\n]*|Assertion [^\n]*failed[^\n]*|[A-Za-z ]*[Ss]tack overflow[^\n]*)", err)
            what = re.sub(r"0x[0-9a-f]+|\d+", "N", m.group(1))[:80] if m else ("signal %d" % -rc if rc < 0 else "exit code %d" % rc)
        ctx.fail("crash:%s:%s:%s" % (HARNESS_REL, scenario, what),
                 "harness %s scenario %s terminated abnormally: %s" % (HARNESS_REL, scenario, what), dict(base, log_tail=tail))
    return stats.get("cases", 0), nts, stats


def run_native(ctx, replay, tie="c11native"):
    ctx.checker_cmds.append("harness/native/c11_paths.cpp under ASan+UBSan+LSan, one process per scenario (tools/props/c11_native.py)")
    scen = build(ctx)
    if scen is None:
        return
    if replay and replay.get("args") and replay.get("harness", HARNESS_REL) == HARNESS_REL:
        a = replay["args"]
        seed, reps = int(a[0]), int(a[1])
        todo = [a[2]] if len(a) > 2 and a[2] in scen else sorted(scen)
    else:
        seed, reps = ctx.seed, REPS.get(ctx.tier, REPS["quick"])
        todo = sorted(scen)
    timeout = TIMEOUT.get(ctx.tier, 600)
    jobs = int(os.environ.get("C11_JOBS", "4"))

    def work(name):
        return name, run_scenario(scen[name], seed, reps, name, timeout)

    with concurrent.futures.ThreadPoolExecutor(max_workers=max(1, jobs)) as ex:
        results = list(ex.map(work, todo))
    all_nts = set()
    for name, (rc, out, err) in results:
        cases, nts, stats = digest(ctx, tie, name, [seed, reps, name], rc, out, err)
        ctx.cov["evaluations"] += cases
        all_nts |= nts
        ctx.notes.setdefault("stats", {})
        for k, v in stats.items():
            ctx.notes["stats"][tie + "." + k] = ctx.notes["stats"].get(tie + "." + k, 0) + v
    ctx.cov["distinct_nontrivial"] += len(all_nts)
    ctx.notes.setdefault("stats", {})
    ctx.notes["stats"][tie + ".scenarios"] = ctx.notes["stats"].get(tie + ".scenarios", 0) + len(todo)
    for s in sorted(all_nts)[:3]:
        ctx.add_samples(["native " + s])
