import os
import vlib

THEOREMS = ["Dispenso.ThreadId." + t for t in ['C45_unique', 'C45_stable', 'C45_range', 'C45_counter_monotone']]


def build_blackbox():
    """main program (linked before thread_id.cpp, so its globals are constructed first) + a separately linked
    module built with hidden visibility"""
    nat = os.path.join(vlib.HARNESS, "native")
    src, plug = os.path.join(nat, "c45_blackbox.cpp"), os.path.join(nat, "c45_plugin.cpp")
    hh = vlib.file_hash([src, plug, os.path.join(vlib.HARNESS, "common.h")] + vlib.repo_sources(), "c45bb")
    d = os.path.join(vlib.BUILD, "bin")
    os.makedirs(d, exist_ok=True)
    exe, so = os.path.join(d, "c45_blackbox_" + hh), os.path.join(d, "libc45plugin_%s.so" % hh)
    with vlib.Lock("bin_c45bb" + hh):
        if os.path.exists(exe) and os.path.exists(so):
            return exe, ""
        for f in os.listdir(d):
            if f.startswith("c45_blackbox_") or f.startswith("libc45plugin_"):
                os.unlink(os.path.join(d, f))
        inc = vlib.repo_includes()
        rc, out, err = vlib.sh(["g++", "-std=c++17", "-O1", "-g", "-shared", "-fPIC", "-fvisibility=hidden", plug, "-o", so] + inc, timeout=600)
        if rc != 0:
            return None, (out + err)[-3000:]
        rc, out, err = vlib.sh(["g++", "-std=c++17", "-O1", "-g", src, os.path.join(vlib.repo_path(), "dispenso", "thread_id.cpp"),
                                "-rdynamic", "-o", exe, so, "-Wl,-rpath," + d, "-pthread", "-I" + vlib.HARNESS] + inc, timeout=600)
        if rc != 0:
            return None, (out + err)[-3000:]
        return exe, ""


def run(ctx, replay):
    ctx.cov["rule"] = ('1..8 (every tenth scenario up to 64) concurrently created threads each calling threadId() 1..4 times under the deterministic scheduler; every trace replayed through the Lean model; oracle: ids stable per thread and pairwise distinct; distinct = (threads, calls); black-box layer (native threads): ids of threads created during static initialization, of bursts of 1..64 threads released together, and as seen from a second module built with hidden visibility')
    if THEOREMS:
        ctx.prove("DispensoVerif.Props.C45", THEOREMS)
    else:
        vlib.lake_build(["dvdriver"])
    # black-box layer first: it does not depend on library internals, so it still searches for a failing input
    # when a rewrite makes the white-box harness below uncompilable
    if not (replay and replay.get("harness", "").startswith("conc/")):
        bb, log = build_blackbox()
        if not bb:
            ctx.broken.append(("harness:c45_blackbox", "does not compile against the current tree: " + log[-1500:]))
        else:
            a0 = replay["args"] if replay and replay.get("args") else [ctx.seed, 30 if ctx.tier == "quick" else 600]
            r0 = vlib.harness_diff(ctx, "threadid_bb", bb, a0)
            vlib.standard_verdict(ctx, "threadid_bb", r0, a0, "native/c45_blackbox.cpp")
        if replay:
            return
    src = os.path.join(vlib.HARNESS, "conc", "c45_threadid.cpp")
    exe, log = vlib.build_dsched_harness(src, repo_cpps=("tsan_annotations.cpp", "thread_id.cpp"))
    if not exe:
        ctx.broken.append(("harness:c45_threadid", "does not compile against the current tree: " + log[-1500:]))
        return
    args = replay["args"] if replay and replay.get("args") else [ctx.seed, 400 if ctx.tier == "quick" else 20000]
    res = vlib.trace_validate(ctx, "threadid", exe, args)
    vlib.standard_verdict(ctx, "threadid", res, args, "conc/c45_threadid.cpp")
