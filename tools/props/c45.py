import os
import vlib

THEOREMS = ["Dispenso.ThreadId." + t for t in ['C45_unique', 'C45_stable', 'C45_range', 'C45_counter_monotone']]


def run(ctx, replay):
    ctx.cov["rule"] = ('1..8 (every tenth scenario up to 64) concurrently created threads each calling threadId() 1..4 times under the deterministic scheduler; every trace replayed through the Lean model; oracle: ids stable per thread and pairwise distinct; distinct = (threads, calls)')
    if THEOREMS:
        ctx.prove("DispensoVerif.Props.C45", THEOREMS)
    else:
        vlib.lake_build(["dvdriver"])
    src = os.path.join(vlib.HARNESS, "conc", "c45_threadid.cpp")
    exe, log = vlib.build_dsched_harness(src, repo_cpps=("tsan_annotations.cpp", "thread_id.cpp"))
    if not exe:
        ctx.broken.append(("harness:c45_threadid", "does not compile against the current tree: " + log[-1500:]))
        return
    args = replay["args"] if replay and replay.get("args") else [ctx.seed, 400 if ctx.tier == "quick" else 20000]
    res = vlib.trace_validate(ctx, "threadid", exe, args)
    vlib.standard_verdict(ctx, "threadid", res, args, "conc/c45_threadid.cpp")
