from props import sched_common

THEOREMS = ["Dispenso.Sched." + t for t in ['C05_capture_state', 'C05_rethrows_le_captures', 'C05_captured_nodup', 'C05_capture_once', 'C05_rethrow_after_zero', 'C05_done_delivers']]
# (flavour, scenarios in the quick tier): 0 mixed, 1 without resize, 2 resize-heavy (incl. resize(0) held in join while a ring-routed bulk arrives), 3 overloaded pool + chains, 4 workers parked between submissions, 5 exception-heavy
FLAVOURS = [(5, 200), (1, 120), (0, 80)]


def run(ctx, replay):
    sched_common.run_sched(ctx, replay, "C05", "DispensoVerif.Props.C05", THEOREMS, FLAVOURS)
