import os
import vlib

THEOREMS = ["Dispenso.CpuSet." + t for t in ['C43_add', 'C43_remove', 'C43_addRange', 'C43_removeRange', 'C43_contains', 'C43_count', 'C43_out_of_range', 'C43_parse_grammar', 'C43_parse_single', 'C43_parse_range', 'C43_sortInts_perm', 'C43_groups_partition', 'C43_groups_nodup', 'C43_groups_keep_l2', 'C43_groups_size', 'C43_groups_single_l3', 'C43_groups_structure']]


def run(ctx, replay):
    ctx.cov["rule"] = ("set algebra: random add/addRange/remove/removeRange/contains sequences with ids biased to the "
                       "boundaries (-1, 1023, 1024, INT32_MIN/MAX, negative and huge) vs a std::set oracle and the Lean "
                       "model; parser: every string over {0,1,9,-,','} up to the length bound, random cpu-list grammar "
                       "strings with their denotation, and a malformed stream (spaces, '+', letters, 25-digit numbers), all "
                       "compared with the Lean transcription of the strchr/strtol logic; grouping: random synthetic "
                       "topologies (uneven L2 atoms, L3 unions, atoms without L3, empty groups) vs the model and the "
                       "partition / no-split / single-L3 / size oracle; distinct = distinct request lines")
    if THEOREMS:
        ctx.prove("DispensoVerif.Props.C43", THEOREMS)
    else:
        vlib.lake_build(["dvdriver"])
    flags = ["-O1", "-g"] + vlib.SAN_FLAGS
    lib, log = vlib.build_lib(flags, tag="asan")
    if not lib:
        ctx.broken.append(("harness:libdispenso", "library does not compile: " + log[-1500:]))
        return
    src = os.path.join(vlib.HARNESS, "seq", "c43_cpuset.cpp")
    exe, log = vlib.build_harness(src, flags, lib=lib)
    if not exe:
        ctx.broken.append(("harness:c43_cpuset", "does not compile against the current tree: " + log[-1500:]))
        return
    q = ctx.tier == "quick"
    args = replay["args"] if replay and replay.get("args") else [ctx.seed, 300 if q else 20000, 4 if q else 7]
    res = vlib.harness_diff(ctx, "cpuset", exe, args, timeout=3000, env={"ASAN_OPTIONS": "detect_leaks=0"})
    vlib.standard_verdict(ctx, "cpuset", res, args, "seq/c43_cpuset.cpp")
