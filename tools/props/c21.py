import os
import vlib

THEOREMS = ["Dispenso.Event." + t for t in [
    "C21_latch_no_lost_wakeup", "C21_latch_quiescent", "C21_latch_never_early", "C21_latch_zero_stable",
    "C21_event_no_lost_wakeup", "C21_event_quiescent", "C21_event_never_early", "C21_event_completed_stable",
    "C21_latch_no_lost_wakeup_any", "C21_old_count_down_loses_wakeup"]]


def run(ctx, replay):
    ctx.cov["rule"] = ("random Latch scenarios (count 1..6 split into count_down(n)/arrive_and_wait amounts, 0..3 waiters, "
                       "try_wait pollers) and CompletionEvent scenarios (wait/waitFor/completed vs notify) run under the "
                       "deterministic scheduler (random / PCT strategies, random futex-wake victim); every trace of "
                       "atomic+futex events is replayed through the Lean model; distinct = distinct scenario descriptions")
    if THEOREMS:
        ctx.prove("DispensoVerif.Props.C21", THEOREMS)
    else:
        rc, log = vlib.lake_build(["dvdriver"])
    src = os.path.join(vlib.HARNESS, "conc", "c21_event.cpp")
    exe, log = vlib.build_dsched_harness(src)
    if not exe:
        ctx.broken.append(("harness:c21_event", "does not compile against the current tree: " + log[-1500:]))
        return
    args = replay["args"] if replay and replay.get("args") else [ctx.seed, 300 if ctx.tier == "quick" else 6000,
                                                                   "dfs:3:40000" if ctx.tier == "thorough" else "dfs:2:1500"]
    res = vlib.trace_validate(ctx, "event", exe, args)
    vlib.standard_verdict(ctx, "event", res, args, "conc/c21_event.cpp")
