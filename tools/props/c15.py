import os
import vlib

THEOREMS = ["Dispenso.ForEach." + t for t in ['C15_partition', 'C15_exactly_once', 'C15_numThreads_pos', 'C15_serial', 'C15_tasks_bound']]


def run(ctx, replay):
    ctx.cov["rule"] = ("for_each_n on real pools: n in {0,1,2,3,4,5,7,8,9,16,31,64} x maxThreads in {0..6, INT32_MAX} x wait x "
                       "pool sizes 0..4, iterator category (random access / bidirectional / forward), TaskSet / "
                       "ConcurrentTaskSet and nesting chosen at random per case; chunks are recovered from the functor copy "
                       "that visited each element and compared with the Lean plan; oracle: every element visited exactly "
                       "once; distinct = distinct request lines")
    if THEOREMS:
        ctx.prove("DispensoVerif.Props.C15", THEOREMS)
    else:
        vlib.lake_build(["dvdriver"])
    src = os.path.join(vlib.HARNESS, "seq", "c15_foreach.cpp")
    flags = ["-O1", "-g"] + vlib.SAN_FLAGS
    lib, log = vlib.build_lib(flags, tag="asan")
    if not lib:
        ctx.broken.append(("harness:libdispenso", "library does not compile: " + log[-1500:]))
        return
    exe, log = vlib.build_harness(src, flags, lib=lib)
    if not exe:
        ctx.broken.append(("harness:c15_foreach", "does not compile against the current tree: " + log[-1500:]))
        return
    args = replay["args"] if replay and replay.get("args") else [ctx.seed, 1 if ctx.tier == "quick" else 20]
    res = vlib.harness_diff(ctx, "foreach", exe, args, timeout=3000, env={"ASAN_OPTIONS": "detect_leaks=0"})
    vlib.standard_verdict(ctx, "foreach", res, args, "seq/c15_foreach.cpp")
