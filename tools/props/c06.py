"""C06: nested waits never deadlock through pool starvation.

Proof side: Props/C06.lean (fork-join fragment proved, two negative witnesses proved).
Tie: harness/conc/c06_nested.cpp runs generated acyclic nested-wait programs on the real pool under the
deterministic scheduler; every completed run's scheduling history is replayed through the Lean model
(plug-in `nested`, may-poll relation of the unchanged code).  A run that got stuck is replayed too and the
model is asked whether its state is stuck and by which mechanism.
Oracle: stuck detection.  A stuck fork-join program is a violation; a stuck program with foreign waits is
the known finding of C06."""
import os
import re
import vlib

NS = "Dispenso.Nested."
THEOREMS = [NS + t for t in [
    "C06_forkjoin_partial", "C06_forkjoin_current_code", "C06_forkjoin_terminates_partial",
    "C06_buried_counterexample", "C06_steal_ring_counterexample"]]

SIG_FOREIGN = ("task waiting on a task set scheduled by another thread never returns "
               "(helping wait buried or starved the awaited task)")
SIG_FJ = "fork-join program of nested waits never terminates"


def run_once(ctx, exe, args, timeout=1800):
    """one harness process: completed runs as TRACE blocks, at most one stuck run as a STUCK block"""
    rc, out, err = vlib.sh([exe] + [str(a) for a in args], timeout=timeout)
    reqs, idx = [], []          # idx: (trace number, line) per request
    traces, cur, descs = 0, None, {}
    stuck_trace, stuck_desc = None, ""
    pfails, stats, nts, last_scn = [], {}, set(), None
    instuck = False
    for line in out.split("\n"):
        if line.startswith("TRACE-BEGIN "):
            traces += 1
            cur = traces
            reqs.append("trace begin " + line[12:])
            idx.append((cur, line))
        elif line.startswith("TRACE-END"):
            descs[cur] = line[9:].strip()
            cur = None
        elif line.startswith("STUCK-BEGIN "):
            instuck = True
            traces += 1
            cur = traces
            stuck_trace = cur
            reqs.append("trace begin " + line[12:])
            idx.append((cur, line))
        elif line.startswith("STUCK-END"):
            descs[cur] = "(stuck run) " + line[9:].strip()
            stuck_desc = line[9:].strip()
            reqs.append("nested stuckinfo")
            idx.append((cur, "<stuckinfo>"))
            instuck = False
            cur = None
        elif line.startswith("T ") and cur is not None:
            reqs.append(line)
            idx.append((cur, line))
        elif line.startswith("PFAIL "):
            sig, _, det = line[6:].partition(" | ")
            pfails.append((sig.strip(), det.strip()))
        elif line.startswith("STAT "):
            p = line.split()
            if len(p) == 3 and p[2].lstrip("-").isdigit():
                stats[p[1]] = stats.get(p[1], 0) + int(p[2])
        elif line.startswith("NT "):
            nts.add(line[3:].strip())
        elif line.startswith("SCN "):
            try:
                last_scn = int(line[4:])
            except ValueError:
                pass
    mism, stuckinfo, bad = [], None, set()
    if reqs:
        rep = vlib.run_driver(reqs)
        if len(rep) != len(reqs):
            mism.append({"trace": 0, "line": "<driver>", "model": "reply count %d != %d" % (len(rep), len(reqs))})
        else:
            for pos, ((tn, text), r) in enumerate(zip(idx, rep)):
                if text == "<stuckinfo>":
                    stuckinfo = r
                    continue
                if r not in ("ok", "skip") and tn not in bad:
                    bad.add(tn)
                    if len(mism) < 3:
                        ctxl = [t for (n, t) in idx[:pos + 1] if n == tn]
                        mism.append({"trace": tn, "desc": descs.get(tn, ""), "line": text, "model": r,
                                     "prefix": ctxl[-30:]})
    completed = traces - (1 if stuck_trace else 0)
    ctx.cov["evaluations"] += traces
    seen = ctx.notes.setdefault("_nts", set())
    ctx.cov["distinct_nontrivial"] += len(nts - seen)
    seen |= nts
    ctx.cov["traces_validated_against_impl"] += traces - len(bad)
    ctx.notes["trace_events"] = ctx.notes.get("trace_events", 0) + len(reqs) - traces
    if completed and len(ctx.cov["samples"]) < 3:
        ctx.add_samples([{"trace": [t for (n, t) in idx if n == 1][:16], "desc": descs.get(1, "")}])
    crashed = rc != 0
    return {"mismatches": mism, "pfails": pfails, "stats": stats, "rc": rc, "crashed": crashed,
            "tail": (out[-1500:] + "\n" + err[-3000:]) if crashed else "", "last_scn": last_scn,
            "completed": completed, "stuckinfo": stuckinfo, "stuck_desc": stuck_desc,
            "stuck_rejected": stuck_trace in bad if stuck_trace else False}


def run(ctx, replay):
    ctx.cov["rule"] = (
        "generated acyclic nested-wait programs (explicit task scripts: schedule into own TaskSet / light / heavy "
        "ConcurrentTaskSet singly, force-queued or in bulk, small load multipliers for the inline paths, two sets live "
        "at once, wait() or tryWait loops, waiting parallel_for, Future launch + wait, up to 3 levels of nesting; one "
        "third of the scenarios add waits on earlier shared sets scheduled by main) on the real ThreadPool of 0..4 "
        "threads, workers parked first in half of the scenarios so that placed scheduling uses the steal rings, under "
        "the deterministic scheduler (random and PCT schedules); every completed run's scheduling history (schedule "
        "brackets, push / take / inline hooks, sleep-mask claims, body begin / end, wait brackets) is replayed through "
        "the Lean model; stuck runs are replayed and classified by the model; distinct = (pool size, foreign waits, "
        "heavy, bulk, future, parallel_for, inline multiplier, task-count bucket)")
    ctx.assumptions += [
        "a stuck run is detected as no completion within 400 000 scheduler steps (completed runs need < 15 000; the "
        "workers' idle-sleep backstop is set to 2 ms of virtual time = 40 000 steps so that wake-up latency, C07, "
        "cannot make a run look stuck)",
        "ConcurrentTaskSet::wait() from a task body on a set that main has finished scheduling into is a legal use "
        "(nobody schedules concurrently)",
        "task-set outstanding count = number of scheduled, unfinished members (C02)",
    ]
    ctx.trusted += ["dsched deterministic scheduler (harness/dsched) as the source of interleavings and of the atomic-"
                    "operation trace on the worker sleep mask"]
    ctx.prove("DispensoVerif.Props.C06", THEOREMS)
    src = os.path.join(vlib.HARNESS, "conc", "c06_nested.cpp")
    exe, log = vlib.build_dsched_harness(src, with_lib=True)
    if not exe:
        ctx.broken.append(("harness:c06_nested", "does not compile against the current tree: " + log[-1500:]))
        return
    q = ctx.tier == "quick"
    if replay and replay.get("args"):
        a = [int(x) for x in replay["args"]]
        a += [a[1] - 1] if len(a) == 2 else []
        seed, total, start = a[0], a[1], a[2]
        single = True
    else:
        seed, total, start = ctx.seed, (400 if q else 4000), 0
        single = False
    mech = {}
    stuck_runs = 0
    guard = 0
    while start < total and guard < 2000:
        guard += 1
        # a stuck run ends the harness process: continue behind the stuck scenario
        args = [seed, total, start]   # a replay runs exactly the recorded batch (usually one scenario)
        res = run_once(ctx, exe, args)
        mine = {"pfails": [], "mismatches": res["mismatches"], "crashed": res["crashed"], "rc": res["rc"],
                "tail": res["tail"]}
        stuck = False
        for sig, det in res["pfails"]:
            if sig in (SIG_FOREIGN, SIG_FJ):
                stuck = True
                stuck_runs += 1
                info = res["stuckinfo"] or "no-history"
                key = " ".join(info.split()[:2])
                mech[key] = mech.get(key, 0) + 1
                det = det + " || model: " + info
                # replay of one scenario: seed, scenario + 1, scenario
                scn = res["last_scn"] if res["last_scn"] is not None else start
                ctx.fail(sig, det, {"kind": "input", "harness": "conc/c06_nested.cpp",
                                    "args": [str(seed), str(scn + 1), str(scn)], "detail": det})
                if sig == SIG_FOREIGN and len(ctx.notes.setdefault("known_finding_replays", [])) < 5:
                    ctx.notes["known_finding_replays"].append(
                        {"args": [seed, scn + 1, scn], "scenario": res["stuck_desc"], "model": info})
            else:
                mine["pfails"].append((sig, det))
        if mine["mismatches"]:
            # one broken-tie record per check run, the rest is counted
            ctx.notes["rejected_histories"] = ctx.notes.get("rejected_histories", 0) + len(mine["mismatches"])
            if any(n == "tie:nested" for n, _ in ctx.broken):
                mine["mismatches"] = []
        vlib.standard_verdict(ctx, "nested", mine, args, "conc/c06_nested.cpp")
        if res["crashed"] or single:
            break
        if not stuck or res["last_scn"] is None:
            break
        start = res["last_scn"] + 1
    ctx.notes.pop("_nts", None)
    ctx.notes["stuck_runs"] = stuck_runs
    ctx.notes["stuck_runs_by_model_verdict"] = mech
