import os
import vlib

THEOREMS = ["Dispenso.RWLock." + t for t in [
    "C22_exclusion", "C22_word", "C22_try_sound", "C22_failed_try_lock_restores", "C22_no_lost_wakeup", "C22_parked",
    "C22_no_deadlock", "C22_two_upgraders_stuck"]]


def run(ctx, replay):
    ctx.cov["rule"] = ("2..4 threads performing bounded random sequences of lock / try_lock / lock_shared / try_lock_shared "
                       "(+ lock_downgrade, and lock_upgrade in scenarios where one thread is the only writer, as the class "
                       "requires) under the deterministic scheduler; every trace replayed through the Lean model; oracle: "
                       "occupancy counters (writer exclusive, no reader with a writer), lock word zero at the end, deadlock / "
                       "livelock detector; distinct = distinct (threads, plan) descriptions")
    if THEOREMS:
        ctx.prove("DispensoVerif.Props.C22", THEOREMS)
    else:
        vlib.lake_build(["dvdriver"])
    src = os.path.join(vlib.HARNESS, "conc", "c22_rwlock.cpp")
    exe, log = vlib.build_dsched_harness(src)
    if not exe:
        ctx.broken.append(("harness:c22_rwlock", "does not compile against the current tree: " + log[-1500:]))
        return
    args = replay["args"] if replay and replay.get("args") else [ctx.seed, 400 if ctx.tier == "quick" else 20000]
    res = vlib.trace_validate(ctx, "rwlock", exe, args)
    vlib.standard_verdict(ctx, "rwlock", res, args, "conc/c22_rwlock.cpp")
