"""Shared check logic of the wake cluster (C07, C09).

Model: lean/DispensoVerif/Model/Wake.lean (wake protocol of PoolWakeState / EpochWaiter, the worker's park
sequence and the stop path, in the generic interleaving semantics).
Tie:   harness/conc/c09_wakestate.cpp runs the REAL PoolWakeState + EpochWaiter + PerThreadData::stop under
       the deterministic scheduler; every atomic / futex event is replayed through the model (plug-in `wake`).
Oracle: (a) the component harness' own verdicts, (b) harness/conc/c07_wake.cpp: the REAL ThreadPool under the
       deterministic scheduler with virtual time (mode 7: submissions to an all-parked pool, mode 9:
       destructor / resize / setSignalingWake at every worker state)."""
import os
import vlib

# oracle signature prefix -> property
ROUTE = [
    ("worker still parked after stop", "C09"),
    ("worker still running after stop", "C09"),
    ("pool destruction / resize / wake-mode switch", "C09"),
    ("pool shutdown / resize never returns", "C09"),
    ("claimAndWakeOne found no sleeper", "C07"),
    ("wake call on an all-parked wake state", "C07"),
    ("task pushed to the ring of a parked worker", "C07"),
    ("placed task pushed to a steal ring", "C07"),
    ("task left in the central queue", "C07"),
    ("work submitted to an idle pool", "C07"),
    ("submission to an idle pool never completes", "C07"),
]

COMPONENT = "conc/c09_wakestate.cpp"
POOL = "conc/c07_wake.cpp"

RULE = ("(1) component: random scenarios on the real PoolWakeState (1..5 threads, group sizes 1/2/3/8/N/64) with worker "
        "threads running the park sequence, 0..3 producer threads calling claimAndWakeOne / cascadeWake / wakeRange / "
        "cascadeWakeSeed / totalSleeping, EINTR injection, stop + wakeAll at random moments incl. 'all parked' and "
        "'claimed but not woken'; every trace replayed through the Lean model; (2) real ThreadPool (1..4 or 9..11 "
        "threads) under virtual time: 12 submission paths to an all-parked pool / destructor, resize, setSignalingWake "
        "with workers busy, spinning, parking, parked; distinct = (mode, threads, group, producers, path, operation, moment)")


def route(sig):
    for pre, pid in ROUTE:
        if sig.startswith(pre):
            return pid
    return None


def _note_other(ctx, pid, what):
    d = ctx.notes.setdefault("failures_routed_to_other_properties", {})
    k = "%s: %s" % (pid, what)
    d[k] = d.get(k, 0) + 1


def _filter(ctx, pid, res, mism_mine=True):
    mine = {"ok": True, "pfails": [], "mismatches": res["mismatches"] if mism_mine else [], "crashed": res["crashed"],
            "rc": res["rc"], "tail": res["tail"]}
    for sig, det in res["pfails"]:
        p = route(sig) or pid
        if p == pid:
            mine["pfails"].append((sig, det))
        else:
            _note_other(ctx, p, sig)
    return mine


def run_component(ctx, pid, mode, n_quick, n_thorough, replay_args=None):
    src = os.path.join(vlib.HARNESS, COMPONENT)
    exe, log = vlib.build_dsched_harness(src, with_lib=True)
    if not exe:
        ctx.broken.append(("harness:c09_wakestate", "does not compile against the current tree: " + log[-1500:]))
        return
    args = [int(a) for a in replay_args] if replay_args else [ctx.seed, n_quick if ctx.tier == "quick" else n_thorough, mode, 0]
    args = args + [0] * (4 - len(args))
    total = args[1]
    guard = 0
    while args[3] < total and guard < 20:
        guard += 1
        res = vlib.trace_validate(ctx, "wake", exe, args)
        vlib.standard_verdict(ctx, "wake", _filter(ctx, pid, res), args, COMPONENT)
        # a deadlocked scenario ends the process: continue behind it
        stuck = any("never leaves its loop" in s for s, _ in res["pfails"])
        if not stuck or res.get("last_scn") is None:
            break
        args = [args[0], total, args[2], res["last_scn"] + 1]


def run_pool(ctx, pid, mode, n_quick, n_thorough, replay_args=None, extra_runs=()):
    src = os.path.join(vlib.HARNESS, POOL)
    exe, log = vlib.build_dsched_harness(src, with_lib=True)
    if not exe:
        ctx.broken.append(("harness:c07_wake", "does not compile against the current tree: " + log[-1500:]))
        return
    if replay_args:
        runs = [[int(a) for a in replay_args]]
    else:
        runs = [[ctx.seed, n_quick if ctx.tier == "quick" else n_thorough, mode, 0]] + [list(r) for r in extra_runs]
    for args in runs:
        args = args + [0] * (4 - len(args))
        total = args[1]
        guard = 0
        while args[3] < total and guard < 40:
            guard += 1
            res = vlib.trace_validate(ctx, "pool", exe, args)
            vlib.standard_verdict(ctx, "pool", _filter(ctx, pid, res), args, POOL)
            stuck = any("never completes" in s or "never returns" in s for s, _ in res["pfails"])
            if not stuck or res.get("last_scn") is None:
                break
            args = [args[0], total, args[2], res["last_scn"] + 1]
    traced = ctx.notes.get("stats", {}).get("pool.pool_traces", 0)
    ctx.notes["real_pool_trace_tie"] = (
        "active: %d traces of the real ThreadPool (real worker loop, real stop path) replayed through the model" % traced
        if traced else
        "inactive: this dispenso tree has no wake.* observation hooks (deliver/0001-verif-hooks-wake.patch); the real pool "
        "serves as oracle only, the model is tied through the component harness")


def trusted(ctx):
    ctx.trusted += [
        "dsched (deterministic scheduler: futex model 'wake picks arbitrary waiters', virtual time) as the source of the "
        "validated traces and of the oracle's backstop counter",
        "the Linux futex contract as modelled in Core/Conc.lean (FUTEX_WAIT compares and blocks atomically; FUTEX_WAKE n "
        "releases min(n, waiters) waiters)",
        "the worker's park sequence (enterSleep / running re-check / waitFor / exitSleep, 8 lines of "
        "ThreadPool::threadLoopImpl) is replicated in harness/conc/c09_wakestate.cpp; the real loop runs in c07_wake.cpp, "
        "whose events are not replayed through the model",
    ]
    ctx.assumptions += ["sequentially consistent atomics (declared memory orders are checked against the model's "
                        "requirements, their sufficiency is C10's subject)",
                        "32-bit epoch counters do not wrap around between a worker's read and its wait; fewer than 2^31-1 threads"]
