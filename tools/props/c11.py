"""C11 — memory safe and leak free, including error paths (partial).

(a) theorems: Props/C11.lean (packageTask skip path / OnceFunction never invoked / no double
    destroy / no releasing destructor) plus the ledger and bounds theorems of the modelled
    components (C32, C34-C40, C42), re-checked and axiom-audited here as C11 obligations
(b) support: native ASan + UBSan (+ LSan where the sandbox allows) + allocation-count runs over the
    error paths the property names (harness/native/c11_paths.cpp, tools/props/c11_native.py)
"""
import vlib

OWN = ["Dispenso.OnceFn." + t for t in [
    "C11_packaged_task_destroyed_once", "C11_never_invoked_released_by_cleanup",
    "C11_no_double_destroy", "C11_unconsumed_is_not_released"]]

# ledgers (constructed = destroyed, blocks/slabs/buffers released once) and index-in-storage bounds
COLLECTED = (
    ["Dispenso.ConVec." + t for t in ["C32_ledger", "C32_all_destroyed", "C32_sub_lt_cap", "C32_buckets_tile"]]
    + ["Dispenso.Mpmc.C34_bounds", "Dispenso.Spsc.C35_indices_in_range", "Dispenso.ChaseLev.C36_bounds"]
    + ["Dispenso.Arena." + t for t in ["C37_buffers_ledger", "C37_seq_index_in_buffer", "C37_conc_index_in_buffer"]]
    + ["Dispenso.SmallVec." + t for t in ["C38_ledger", "C38_all_destroyed", "C38_capacity", "C38_elem_aligned"]]
    + ["Dispenso.OnceFn." + t for t in ["C39_exactly_once", "C39_blocks_ledger", "C39_invoke", "C39_cleanup"]]
    + ["Dispenso.OpResult." + t for t in ["C40_ledger", "C40_all_destroyed"]]
    + ["Dispenso.PoolAlloc." + t for t in ["C42_ledger", "C42_balance_any", "C42_chunks_valid", "C42_exclusive"]]
)
THEOREMS = OWN + COLLECTED


def run(ctx, replay):
    ctx.cov["rule"] = (
        "error-path programs against the real library compiled with ASan+UBSan: throwing task bodies (TaskSet / "
        "ConcurrentTaskSet, single / bulk / inline), cancellation with queued tasks (packageTask skip path), pool "
        "destruction and resize with queued work, OnceFunction never invoked, pipelines whose stages throw or filter, "
        "futures whose functor throws or is never run, TimedTask cancel / destruction, graph executors with "
        "exceptions, parallel_for / for_each bodies that throw; container copies / moves / assignments into grown destinations, "
        "small buffers freed on a thread that then exits; ledger-counted closures and elements, SmallBufferAllocator "
        "chunk balance per size class, allocation counting through the sanitizer malloc hooks as a leak cross-check; "
        "one process per scenario; distinct = scenario shapes")
    ctx.assumptions += ["each scenario stays inside the documented contract of the class it exercises "
                        "(what may throw, who must outlive whom at destruction)"]
    ctx.trusted.append("AddressSanitizer / UndefinedBehaviorSanitizer / LeakSanitizer runtimes; the harness's own ledger "
                       "and allocation counters; only the schedules that happen to run are observed")
    if not (replay and replay.get("harness", "").startswith("native/")):
        ctx.prove("DispensoVerif.Props.C11", THEOREMS)
    try:
        from props import c11_native
    except ImportError as e:  # pragma: no cover
        ctx.broken.append(("harness:c11_paths", "native sanitizer module missing: %s" % e))
        return
    c11_native.run_native(ctx, replay)
