import os
import vlib

THEOREMS = ["Dispenso.ResPool." + t for t in [
    "C25_conservation", "C25_at_most_size_held", "C25_exclusive", "C25_blocks_only_when_all_held",
    "C25_acquire_enabled", "C25_dtor_never_blocks", "C25_destroyed_once", "C25_no_destroy_before_dtor"]]


def run(ctx, replay):
    ctx.cov["rule"] = ("random scenarios under the deterministic scheduler: a ResourcePool of 1..4 resources, 1..4 worker "
                       "threads with three heap-allocated Resource handles each (acquire into a fresh handle, move "
                       "construction, move assignment over holding / empty / the same handle, destruction; handles acquired "
                       "by the main thread and handed over; occasional long holds so that waiting threads exhaust the "
                       "semaphore's spin budget and park), per-thread holding limits that exclude hold-and-wait deadlock; "
                       "the call/ret trace of every scenario is replayed through the Lean model; oracle: per-resource holder "
                       "counters, construction/destruction counters, every observation of an empty semaphore by an "
                       "acquiring thread checked against the resources certainly free; distinct = (size, threads, limits, "
                       "handed-over handles, waits, parks)")
    ctx.assumptions += ["all Resource handles are returned before the pool is destroyed and no call runs concurrently with "
                        "the pool's destructor (documented contract)", "a Resource handle is used by one thread at a time"]
    ctx.trusted += ["moodycamel::BlockingConcurrentQueue / LightweightSemaphore behave as a bag guarded by a counting "
                    "semaphore (third-party; exercised under dsched, not modelled below the handle level)"]
    if THEOREMS:
        ctx.prove("DispensoVerif.Props.C25", THEOREMS)
    else:
        vlib.lake_build(["dvdriver"])
    src = os.path.join(vlib.HARNESS, "conc", "c25_respool.cpp")
    # the library's own assert in ~ResourcePool stays enabled in the first build; the second build (thorough tier, or
    # C25_NDEBUG=1) disables it so that a miscount reaches the model and the oracle instead of aborting the harness
    variants = [()]
    if ctx.tier != "quick" or os.environ.get("C25_NDEBUG"):
        variants.append(("-DNDEBUG",))
    for extra in variants:
        exe, log = vlib.build_dsched_harness(src, extra_flags=extra)
        if not exe:
            ctx.broken.append(("harness:c25_respool", "does not compile against the current tree: " + log[-1500:]))
            return
        n = 200 if ctx.tier == "quick" else (5000 if not extra else 1500)
        args = replay["args"] if replay and replay.get("args") else [ctx.seed + (7 if extra else 0), n]
        res = vlib.trace_validate(ctx, "respool", exe, args)
        vlib.standard_verdict(ctx, "respool", res, args, "conc/c25_respool.cpp")
        if replay:
            break
