import os
import vlib

THEOREMS = ["Dispenso.ParInvoke." + t for t in ["C16_at_most_once", "C16_return", "C16_wait", "C16_flat"]]


def run(ctx, replay):
    ctx.cov["rule"] = ("random parallel_invoke programs on ConcurrentTaskSet: flat calls of 1..8 functors, binary divide-and-conquer "
                       "trees (depth <= 12), trees of random arities 1..8, deep chains with side branches (depth <= 30); pools of "
                       "0..3 threads, kHeavy / kLightweight task sets, optionally pre-loaded task sets (schedule() then takes its "
                       "inline branch); natively (up to 400 functors per program) and with the whole library under the "
                       "deterministic scheduler (up to 40 functors); oracle: per-functor invocation counters, thread ids and a "
                       "global event order; every run's event sequence is replayed through the Lean model; "
                       "distinct = (shape, functors, depth, pool, preloaded)")
    ctx.assumptions += ["the task set is not cancelled and no functor throws (both are outside C16)"]
    ctx.prove("DispensoVerif.Props.C16", THEOREMS)
    q = ctx.tier == "quick"
    which = replay.get("harness") if replay else None
    src = os.path.join(vlib.HARNESS, "conc", "c16_invoke.cpp")
    if which in (None, "conc/c16_invoke.cpp (native)"):
        flags = ["-O1", "-g"] + vlib.SAN_FLAGS
        lib, log = vlib.build_lib(flags, tag="asan")
        if not lib:
            ctx.broken.append(("harness:libdispenso", "library does not compile: " + log[-1500:]))
            return
        exe, log = vlib.build_harness(src, flags, name="c16_invoke_native", lib=lib)
        if not exe:
            ctx.broken.append(("harness:c16_invoke", "does not compile against the current tree: " + log[-1500:]))
            return
        args = replay["args"] if replay and replay.get("args") else [ctx.seed, 300 if q else 6000]
        res = vlib.trace_validate(ctx, "pinvoke", exe, args, timeout=3000)
        vlib.standard_verdict(ctx, "pinvoke", res, args, "conc/c16_invoke.cpp (native)")
    if which in (None, "conc/c16_invoke.cpp (dsched)"):
        exe2, log = vlib.build_dsched_harness(src, with_lib=True)
        if not exe2:
            ctx.broken.append(("harness:c16_invoke_dsched", "does not compile against the current tree: " + log[-1500:]))
            return
        a2 = replay["args"] if replay and replay.get("args") else [ctx.seed + 1000, 300 if q else 6000]
        res2 = vlib.trace_validate(ctx, "pinvoke_dsched", exe2, a2, timeout=3000)
        vlib.standard_verdict(ctx, "pinvoke_dsched", res2, a2, "conc/c16_invoke.cpp (dsched)")
