import os, sys
sys.path.insert(0, os.path.dirname(os.path.abspath(__file__)))
import parfor_common
import vlib

THEOREMS = ["Dispenso.ParForExec." + t for t in [
    "C14_exclusive", "C14_tail_alone", "C14_tail_once", "C14_until_wait", "C14_return_wait", "sysOf_wf",
    "C14_index_in_container", "C14_states_nonempty", "C14_states_bound", "C14_empty_range_untouched"]]

ORDER_SIG = ("parallel_for wait=false dynamic: granularity tail on states[0] is not ordered after the other workers' "
             "bodies (exit ticket fetch_add is relaxed)")


def run(ctx, replay):
    conc_only = bool(replay and replay.get("harness", "").startswith("conc/"))
    if not conc_only:
        # the bodies of C14 runs spin for a while inside each invocation (to widen overlaps), so the thorough tier visits
        # a stride of the 8-bit grid instead of every pair
        parfor_common.run_parfor(ctx, replay, "C14", THEOREMS, "DispensoVerif.Props.C14", known_probe=False,
                                 thorough_samples=2000, thorough_stride=5)
        if replay:
            return
    else:
        ctx.prove("DispensoVerif.Props.C14", THEOREMS)
    ctx.cov["rule"] += ("; concurrent layer: the same call on a real ThreadPool (1..3 threads + caller) under the deterministic "
                        "scheduler (whole library instrumented), ranges of 0..60 indices, all chunking modes, wait true/false, "
                        "granularity tails, reuseExistingState, pre-loaded task sets (inline workers), calls issued from a pool "
                        "thread; per-state in-use counters as oracle; the trace of body begins/ends (state index by pointer "
                        "identity) and of the fetch_add(1) operations on the shared chunk index is replayed through the Lean "
                        "execution model; distinct = (chunking, wait, pool, tail, invocations, tickets seen, max overlap)")
    src = os.path.join(vlib.HARNESS, "conc", "c14_parfor_conc.cpp")
    exe, log = vlib.build_dsched_harness(src, with_lib=True)
    if not exe:
        ctx.broken.append(("harness:c14_parfor_conc", "does not compile against the current tree: " + log[-1500:]))
        return
    args = replay["args"] if conc_only and replay.get("args") else [ctx.seed, 400 if ctx.tier == "quick" else 6000]
    res = vlib.trace_validate(ctx, "parforx", exe, args, timeout=3000, max_report=6)
    # a trace the model accepts step by step but whose exit tickets are drawn with too weak a memory order is a
    # finding about the code (reported with its own signature), not a broken correspondence
    order = [m for m in res["mismatches"] if str(m.get("model", "")).startswith("MISMATCH order:")]
    res["mismatches"] = [m for m in res["mismatches"] if m not in order]
    if order:
        m = order[0]
        ctx.fail(ORDER_SIG, "%s; scenario: %s" % (m["model"][len("MISMATCH "):], m.get("desc", "")),
                 {"kind": "schedule", "harness": "conc/c14_parfor_conc.cpp", "args": [str(a) for a in args],
                  "trace_tail": m.get("prefix", [])[-12:]})
    vlib.standard_verdict(ctx, "parforx", res, args, "conc/c14_parfor_conc.cpp")
