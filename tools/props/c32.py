import os
import vlib

THEOREMS = []


def run(ctx, replay):
    ctx.cov["rule"] = ("random operation sequences over pools of ConcurrentVector<Tracked,Traits> for the default traits and the "
                       "two test trait sets (inline/heap buffer table, fast/compact iterators, all three realloc strategies), "
                       "with a small first bucket so that short sequences cross bucket boundaries: all constructors, assign, "
                       "push/emplace, grow_by family, grow_to_at_least, insert (one, n, range), erase (one, range), resize, "
                       "reserve, pop_back, clear, shrink_to_fit, copy/move assignment, swap, comparisons; after every operation "
                       "size, returned position, contents and live-element count are compared with the Lean model, and "
                       "iteration / indexing / reverse iteration / iterator arithmetic with std::vector; plus the bucket index "
                       "functions vs the model; distinct = distinct request lines")
    if THEOREMS:
        ctx.prove("DispensoVerif.Props.C32", THEOREMS)
    else:
        vlib.lake_build(["dvdriver"])
    src = os.path.join(vlib.HARNESS, "seq", "c32_convec.cpp")
    exe, log = vlib.build_harness(src, ["-O1", "-g"] + vlib.SAN_FLAGS)
    if not exe:
        ctx.broken.append(("harness:c32_convec", "does not compile against the current tree: " + log[-1500:]))
        return
    q = ctx.tier == "quick"
    args = replay["args"] if replay and replay.get("args") else [ctx.seed, 300 if q else 10000, 16 if q else 40]
    if True:
        res = vlib.harness_diff(ctx, "convec", exe, args)
        vlib.standard_verdict(ctx, "convec", res, args, "seq/c32_convec.cpp")
