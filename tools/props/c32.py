import os
import vlib

THEOREMS = ["Dispenso.ConVec." + t for t in ['C32_sub_lt_cap', 'C32_index_decomp', 'C32_cap_eq', 'C32_bucket_inverse', 'C32_buckets_tile', 'C32_bucket_injective', 'C32_ledger', 'C32_all_destroyed', 'C32_wf_reachable', 'C32_sem_pushBack', 'C32_sem_growBy', 'C32_sem_growByVal', 'C32_sem_growByRange', 'C32_sem_growToAtLeast', 'C32_sem_insert1', 'C32_sem_insertN', 'C32_sem_insertRange', 'C32_sem_erase1', 'C32_sem_eraseRange', 'C32_sem_resize', 'C32_sem_resizeVal', 'C32_sem_popBack', 'C32_sem_clear', 'C32_sem_assign', 'C32_sem_assignRange', 'C32_sem_copyCtor', 'C32_sem_moveCtor', 'C32_sem_copyAssign', 'C32_sem_moveAssign', 'C32_sem_swap', 'C32_sem_reserve', 'C32_sem_shrinkToFit', 'C32_sem_destroy', 'C32_sem_frame']] + ["Dispenso.ConVecAlloc." + t for t in [
    'C32_alloc_inv_reachable', 'C32_alloc_never_hangs', 'C32_alloc_index_allocated', 'C32_alloc_ahead', 'C32_alloc_capacity',
    'C32_alloc_prefix', 'C32_alloc_reserve', 'C32_alloc_ledger', 'C32_alloc_destroy_balanced', 'C32_alloc_all_freed',
    'C32_alloc_growth_monotone', 'C32_alloc_range_targets']]


def run(ctx, replay):
    ctx.cov["rule"] = ("random operation sequences over pools of ConcurrentVector<Tracked,Traits> for the default traits and the "
                       "two test trait sets (inline/heap buffer table, fast/compact iterators, all three realloc strategies), "
                       "with a small first bucket so that short sequences cross bucket boundaries: all constructors, assign, "
                       "push/emplace, grow_by family, grow_to_at_least, insert (one, n, range), erase (one, range), resize, "
                       "reserve, pop_back, clear, shrink_to_fit, copy/move assignment, swap, comparisons; after every operation "
                       "size, returned position, contents and live-element count are compared with the Lean model, and "
                       "iteration / indexing / reverse iteration / iterator arithmetic with std::vector; plus the bucket index "
                       "functions vs the model; white-box after every operation: firstBucketShift_, capacity(), which buffers_[b] "
                       "are non-null, the shouldDealloc_ flags, which bucket pointers start a malloc block and the "
                       "malloc/free log (calls, element slots) vs the allocation model `cvalloc` (trait sets with first "
                       "buckets of 1, 4 and 32 elements, all three strategies, inline and heap tables); operations that set "
                       "the size or the buffers directly are often followed by growth across the next bucket boundaries; "
                       "distinct = distinct request lines")
    if THEOREMS:
        ctx.prove("DispensoVerif.Props.C32", THEOREMS)
    else:
        vlib.lake_build(["dvdriver"])
    src = os.path.join(vlib.HARNESS, "seq", "c32_convec.cpp")
    exe, log = vlib.build_harness(src, ["-O0", "-g"] + vlib.SAN_FLAGS)   # -O0: 10 trait instantiations compile 2-3x faster
    if not exe:
        ctx.broken.append(("harness:c32_convec", "does not compile against the current tree: " + log[-1500:]))
        return
    q = ctx.tier == "quick"
    args = replay["args"] if replay and replay.get("args") else [ctx.seed, 400 if q else 8000, 16 if q else 40]
    if True:
        res = vlib.harness_diff(ctx, "convec", exe, args)
        vlib.standard_verdict(ctx, "convec", res, args, "seq/c32_convec.cpp")
