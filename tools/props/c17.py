import os
import vlib

THEOREMS = [
    "Dispenso.Chunk.C17_transition_range", "Dispenso.Chunk.C17_sum", "Dispenso.Chunk.C17_sizes",
    "Dispenso.Chunk.C17_mapper_partition", "Dispenso.Chunk.mkMapper_wf",
    "Dispenso.Chunk.C17_static_chunks_partition", "Dispenso.Chunk.forEachOffset_eq",
    "Dispenso.Chunk.C17_no_overflow",
]


def run(ctx, replay):
    ctx.cov["rule"] = ("exhaustive (items,chunks) <= N^2 and (units,chunks,g) grids, random 64-bit values inside the "
                       "no-overflow domain, StaticChunkMapper for int8/uint8/int32/int64 ranges, for_each offsets; "
                       "a case is distinct by its request line; every request exercises the ceil/transition arithmetic")
    ctx.assumptions += ["ssize_t is 64-bit two's complement (checked by the harness build)",
                        "the mapper recipe in the harness mirrors parallel_for_staticImpl; the end-to-end tie is C12's"]
    ctx.prove("DispensoVerif.Props.C17", THEOREMS)
    src = os.path.join(vlib.HARNESS, "seq", "c17_chunk.cpp")
    exe, log = vlib.build_harness(src, ["-O1", "-g"] + vlib.SAN_FLAGS)
    if not exe:
        ctx.broken.append(("harness:c17_chunk", "does not compile against the current tree: " + log[-1500:]))
        return
    if replay and replay.get("args"):
        args = replay["args"]
    else:
        args = [ctx.seed, 60 if ctx.tier == "quick" else 300, 2000 if ctx.tier == "quick" else 200000]
    res = vlib.harness_diff(ctx, "chunk", exe, args)
    vlib.standard_verdict(ctx, "chunk", res, args, "seq/c17_chunk.cpp")
