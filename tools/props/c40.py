import os
import vlib

THEOREMS = ["Dispenso.OpResult." + t for t in ["C40_ledger", "C40_all_destroyed", "C40_wf_reachable", "C40_sem_mkVal", "C40_sem_copyCtor", "C40_sem_moveCtor", "C40_sem_copyAssign", "C40_sem_moveAssign", "C40_sem_copyAssign_self", "C40_sem_moveAssign_self", "C40_sem_emplace", "C40_sem_destroy", "C40_sem_frame", "C40_old_leaks"]]


def run(ctx, replay):
    ctx.cov["rule"] = ("random operation sequences (construct empty/from value, copy/move construct, copy/move assign incl. "
                       "self-assignment, emplace, destroy, query) over a pool of OpResult<Tracked> objects, each mirrored on "
                       "std::optional<Tracked> and on the Lean model; every sequence ends by destroying all objects; "
                       "distinct = distinct request lines")
    if THEOREMS:
        ctx.prove("DispensoVerif.Props.C40", THEOREMS)
    else:
        vlib.lake_build(["dvdriver"])
    src = os.path.join(vlib.HARNESS, "seq", "c40_opresult.cpp")
    exe, log = vlib.build_harness(src, ["-O1", "-g"] + vlib.SAN_FLAGS)
    if not exe:
        ctx.broken.append(("harness:c40_opresult", "does not compile against the current tree: " + log[-1500:]))
        return
    args = replay["args"] if replay and replay.get("args") else [ctx.seed, 400 if ctx.tier == "quick" else 20000, 14 if ctx.tier == "quick" else 40]
    res = vlib.harness_diff(ctx, "opres", exe, args)
    vlib.standard_verdict(ctx, "opres", res, args, "seq/c40_opresult.cpp")
