from props import wake_common
import vlib

THEOREMS = ["Dispenso.Wake." + t for t in [
    "C07_epoch_guard_partial", "C07_bump_makes_stale_partial", "C07_expected_le_epoch_partial",
    "C07_sleeper_state_partial", "C07_wake_releases_waiter_partial", "C07_mask_sound_partial",
    "C07_claim_targets_sleeper_partial",
    "C07_claimed_worker_stays_parked", "C07_range_wake_releases_wrong_member"]]

# stored reproductions of the two known findings on the real pool: (seed, last scenario + 1, mode, scenario)
KNOWN_REPRO = [(3, 10, 7, 9), (3, 230, 7, 229), (1, 14, 7, 13), (1, 319, 7, 318)]


def run(ctx, replay):
    ctx.cov["rule"] = wake_common.RULE
    wake_common.trusted(ctx)
    ctx.notes["c07_status"] = ("C07 does not hold on this tree (known findings); the theorems are the partial guarantees "
                               "of the wake protocol and the negative witnesses")
    ctx.prove("DispensoVerif.Props.C07", THEOREMS)
    rargs = replay.get("args") if replay else None
    rh = replay.get("harness") if replay else None
    if not rargs or rh == wake_common.COMPONENT:
        if rargs:
            wake_common.run_component(ctx, "C07", 0, 0, 0, rargs)
        else:
            wake_common.run_component(ctx, "C07", 7, 260, 2500)
    if not rargs or rh == wake_common.POOL:
        wake_common.run_pool(ctx, "C07", 7, 220, 800, rargs, extra_runs=KNOWN_REPRO)
