import os
import vlib

THEOREMS = ["Dispenso.OnceFn." + t for t in ['C39_plan_inline', 'C39_inline_aligned', 'C39_plan_spill', 'C39_spill_aligned', 'C39_getOrdinal', 'C39_inv_reachable', 'C39_exactly_once', 'C39_invoke', 'C39_cleanup', 'C39_move_transfers', 'C39_move_transfers_assign', 'C39_blocks_ledger', 'C39_rejects_reuse']]


def run(ctx, replay):
    ctx.cov["rule"] = ("a generated family of callables: sizes 8..320 across the inline/spill boundary (56 bytes) and all "
                       "small-buffer classes, alignments 1..256, each created, moved through a random chain of move "
                       "constructions / move assignments, then invoked or cleaned up; storage decision, alignment, call and "
                       "destruction counts compared with the Lean model after every step; distinct = distinct request lines")
    if THEOREMS:
        ctx.prove("DispensoVerif.Props.C39", THEOREMS)
    else:
        vlib.lake_build(["dvdriver"])
    src = os.path.join(vlib.HARNESS, "seq", "c39_oncefn.cpp")
    lib, log = vlib.build_lib(["-O1", "-g"] + vlib.SAN_FLAGS, tag="asan")
    if not lib:
        ctx.broken.append(("harness:libdispenso", "library does not compile: " + log[-1500:]))
        return
    exe, log = vlib.build_harness(src, ["-O1", "-g"] + vlib.SAN_FLAGS, lib=lib)
    if not exe:
        ctx.broken.append(("harness:c39_oncefn", "does not compile against the current tree: " + log[-1500:]))
        return
    args = replay["args"] if replay and replay.get("args") else [ctx.seed, 3 if ctx.tier == "quick" else 60]
    res = vlib.harness_diff(ctx, "oncefn", exe, args)
    vlib.standard_verdict(ctx, "oncefn", res, args, "seq/c39_oncefn.cpp")
