import Driver.Handlers

/-! dvdriver: line protocol.  One request per input line, one reply per output line.
    `<model> <op> <args…>`; stateful models keep their state in `Driver.St`. -/

partial def loop (h : IO.FS.Stream) (out : IO.FS.Stream) (st : Driver.St) : IO Unit := do
  let line ← h.getLine
  if line.isEmpty then return ()
  let toks := (line.trimAscii.toString.splitOn " ").filter (· ≠ "")
  let (st', reply) := Driver.dispatch st toks
  out.putStrLn reply
  loop h out st'

def main : IO Unit := do
  let stdin ← IO.getStdin
  let stdout ← IO.getStdout
  loop stdin stdout Driver.St.init
  stdout.flush
