import Driver.Plugin
import DispensoVerif.Model.Nested
/-! dvdriver plug-in `nested` (C06): replays the scheduling history of one run of the real pool
    (harness/conc/c06_nested.cpp) through the nested-wait model `Nested.step?` under the may-poll relation
    of the unchanged code (`cfgCode`).  The program is reconstructed from the history (the action a task
    performs next is put at the head of its script when the harness announces it), so what is checked is
    the machine part of every step: a task starts only after it was scheduled, exactly once, from the
    tier it was pushed to, by a thread whose role polls that tier (idle worker / thread inside a helping
    wait); a steal-ring push happens only after a worker was claimed whose stack was empty at the claim;
    a wait returns only when every member has finished; a body ends on top of its thread's stack.
    Tasks without identity (chunks of a waiting parallel_for) and dead closures of futures that were run
    by their waiter are tracked by count per tier. -/
namespace Driver.PlugNested
open Dispenso Dispenso.Nested

abbrev Map (α : Type) := List (Nat × α)
def Map.get? {α} (m : Map α) (k : Nat) : Option α := (m.find? (·.1 == k)).map (·.2)
def Map.set {α} (m : Map α) (k : Nat) (v : α) : Map α := (k, v) :: m.filter (·.1 != k)
def Map.del {α} (m : Map α) (k : Nat) : Map α := m.filter (·.1 != k)

structure PSt where
  cfg : Cfg := cfgCode 0
  s : St := init (cfgCode 0) { scripts := [], roots := [] }
  fj : Bool := false
  active : Bool := false
  failed : Bool := false
  role : Map Int := []                 -- dsched tid ↦ ring index (-1: external)
  ext : Map Nat := []                  -- dsched tid ↦ index among the external threads
  kids : Map (List (TaskId × SetId)) := []   -- tid ↦ announced children not yet placed (FIFO)
  bulkSet : Map SetId := []            -- tid ↦ set of the running bulk call
  ptake : Map Tier := []               -- tid ↦ tier of a pop whose task has not identified itself yet
  pfor : Map SetId := []               -- task ↦ set of its running parallel_for
  anon : List TaskId := []             -- tasks without identity
  nextAnon : Nat := 1000000
  ghosts : List (Tier × Nat) := []     -- dead closures per tier
  debt : List (Tier × Nat) := []       -- pops of a closure whose functor had just been claimed by its waiter but not yet reported
  bitOwner : Map Nat := []             -- sleep-mask bit ↦ tid of the worker
  spawner : Map TaskId := []           -- set ↦ task that schedules into it
  known : List TaskId := []
  dtor : Bool := false
  stats : Nat := 0

def tierStr : Tier → String
  | .central => "central" | .ring i => s!"ring{i}" | .steal j => s!"steal{j}"

def fail (p : PSt) (why : String) : PSt × String := ({ p with failed := true }, "MISMATCH " ++ why)

/-- model thread of a dsched thread -/
def thr (p : PSt) (tid : Nat) : Option ThreadId :=
  match p.role.get? tid with
  | some w => if w ≥ 0 then some w.toNat else (p.ext.get? tid).map (p.cfg.nWorkers + ·)
  | none => none

def top? (p : PSt) (th : ThreadId) : Option TaskId := (p.s.stack th).head?

def ghostCount (p : PSt) (T : Tier) : Nat := ((p.ghosts.find? (·.1 == T)).map (·.2)).getD 0
def setGhost (p : PSt) (T : Tier) (n : Nat) : PSt :=
  { p with ghosts := (T, n) :: p.ghosts.filter (·.1 != T) }

def pushAct (p : PSt) (t : TaskId) (a : Act) : PSt :=
  { p with s := { p.s with rem := upd p.s.rem t (a :: p.s.rem t) } }

def doStep (p : PSt) (e : Ev) (what : String) : Option PSt × String :=
  match step? p.cfg p.s e with
  | some s' => (some { p with s := s' }, "ok")
  | none => (none, s!"MISMATCH {what}: step {repr e} is not enabled in the model")

def debtCount (p : PSt) (T : Tier) : Nat := ((p.debt.find? (·.1 == T)).map (·.2)).getD 0
def setDebt (p : PSt) (T : Tier) (n : Nat) : PSt :=
  { p with debt := (T, n) :: p.debt.filter (·.1 != T) }

/-- a pop that was not followed by a task body: a dead future closure.  The waiter that claimed the functor
    reports it only when the body starts, so the pop of the dead closure can be logged first: it is then
    booked as a debt that the report must settle before the run ends. -/
def resolveTake (p : PSt) (tid : Nat) : Option PSt :=
  match p.ptake.get? tid with
  | none => some p
  | some T =>
    let n := ghostCount p T
    if n > 0 then some { setGhost p T (n - 1) with ptake := p.ptake.del tid }
    else some { setDebt p T (debtCount p T + 1) with ptake := p.ptake.del tid }

/-- the functor of a future queued in `T` was run by its waiter: its closure in `T` is dead -/
def addGhost (p : PSt) (T : Tier) : PSt :=
  let d := debtCount p T
  if d > 0 then setDebt p T (d - 1) else setGhost p T (ghostCount p T + 1)

def log2? (n : Nat) : Option Nat := (List.range 64).find? (fun b => 2 ^ b == n)

/-- place announced child `(c,S)` of the top task of `th` into non-claim tier `T` -/
def placeKid (p : PSt) (th : ThreadId) (c : TaskId) (S : SetId) (T : Tier) : Option PSt × String :=
  match top? p th with
  | none => (none, "MISMATCH schedule call outside a task")
  | some t =>
    match p.s.pend t with
    | some _ => doStep p (.push th T) s!"push to {tierStr T}"
    | none => doStep (pushAct p t (.spawn c S)) (.decide th c S T 0) s!"schedule {c} to {tierStr T}"

def noteSpawner (p : PSt) (t : TaskId) (S : SetId) : Option PSt :=
  match p.spawner.get? S with
  | none => some { p with spawner := p.spawner.set S t }
  | some t' => if t' == t || !p.fj then some p else none

/-- n tasks pushed to tier T by thread tid -/
partial def pushN (p : PSt) (tid : Nat) (th : ThreadId) (T : Tier) (n : Nat) : PSt × String :=
  if n == 0 then (p, "ok") else
  match top? p th with
  | none => fail p "push hook on a thread that runs no task"
  | some t =>
    -- a claimed placement of the top task is completed first
    match p.s.pend t with
    | some _ =>
      match doStep p (.push th T) s!"push to {tierStr T}" with
      | (some p', _) => pushN p' tid th T (n - 1)
      | (none, r) => ({ p with failed := true }, r)
    | none =>
      match (p.kids.get? tid).getD [] with
      | (c, S) :: rest =>
        if p.cfg.needsClaim T then fail p s!"task {c} pushed to {tierStr T} without a claimed idle worker" else
        match placeKid p th c S T with
        | (some p', _) => pushN { p' with kids := p'.kids.set tid rest } tid th T (n - 1)
        | (none, r) => ({ p with failed := true }, r)
      | [] =>
        match p.pfor.get? t with
        | some S =>
          if p.cfg.needsClaim T then fail p s!"parallel_for chunk pushed to {tierStr T} without a claimed idle worker" else
          let a := p.nextAnon
          let p1 := { p with nextAnon := a + 1, anon := a :: p.anon, known := a :: p.known }
          match placeKid p1 th a S T with
          | (some p', _) => pushN p' tid th T (n - 1)
          | (none, r) => ({ p with failed := true }, r)
        | none => fail p s!"push hook to {tierStr T} without an announced task"

def allDone (p : PSt) : Bool := p.known.all fun c => p.s.status c == .done

def onTake (p : PSt) (tid : Nat) (T : Tier) : PSt × String :=
  match resolveTake p tid with
  | none => fail p s!"a pop from {tierStr (((p.ptake.get? tid)).getD .central)} returned something the model does not hold there"
  | some p =>
    match thr p tid with
    | none => fail p "take by an unknown thread"
    | some th =>
      if p.dtor || mayTake p.cfg p.s th T then ({ p with ptake := p.ptake.set tid T, stats := p.stats + 1 }, "ok")
      else fail p s!"thread {tid} (model thread {th}, stack {p.s.stack th}) popped from {tierStr T}, which its role does not poll in the model"

/-- the steps that could be enabled in the present model state (over the threads and tasks of the run) -/
def candidates (p : PSt) : List Ev :=
  let ths := List.range (p.cfg.nWorkers + p.ext.length)
  ths.flatMap fun th =>
    let own : List Ev := match top? p th with
      | none => []
      | some t =>
        [.finish th, .waitRet th] ++
        (match p.s.pend t with | some pd => [.push th pd.T] | none => []) ++
        (match (p.s.rem t).head? with | some (.spawn c S) => [.inline th c S] | _ => [])
    own ++ p.known.flatMap fun c =>
      match p.s.status c with
      | .queued T => [.take th c T, .takeDirect th c]
      | _ => []

/-- after the history of a run that got stuck: is the model state stuck, and by which mechanism -/
def stuckInfo (p : PSt) : String :=
  if p.failed then "history-rejected" else
  match (candidates p).find? fun e => (step? p.cfg p.s e).isSome with
  | some e => s!"model-can-step {repr e}"
  | none =>
    match p.known.filterMap fun c => match p.s.status c with | .queued T => some (c, T) | _ => none with
    | (c, T) :: _ => s!"stuck starved task {c} queued in {tierStr T} which no thread able to run polls"
    | [] => if p.known.any fun c => p.s.status c == .running then "stuck buried every unfinished task is on a stack below a waiting task"
            else "not-stuck all tasks finished"

def step (p : PSt) (toks : List String) : PSt × String :=
  match toks with
  | ["stuckinfo"] => (p, stuckInfo p)
  | ["begin", n, fj] =>
    match n.toNat? with
    | some k => ({ cfg := cfgCode k, s := init (cfgCode k) { scripts := [], roots := [] }, fj := fj == "1", active := true }, "ok")
    | none => ({ p with failed := true }, "bad-params")
  | ["stats"] => (p, toString p.stats)
  | "T" :: _ :: "fence" :: _ => (p, if p.failed then "skip" else "ok")
  | "T" :: tidS :: rest =>
    if p.failed then (p, "skip") else
    if !p.active then fail p "no-session" else
    match tidS.toNat? with
    | none => fail p "unparsable thread id"
    | some tid =>
    match rest with
    | ["who", w] =>
      match w.toInt? with
      | none => fail p "unparsable who"
      | some w =>
        let p := { p with role := p.role.set tid w }
        if w < 0 then
          let p := if (p.ext.get? tid).isSome then p else { p with ext := p.ext.set tid p.ext.length }
          (p, "ok")
        else (p, "ok")
    | ["for", "sleep0", _, operand, _, _] =>
      match operand.toNat?.bind log2? with
      | some b => ({ p with bitOwner := p.bitOwner.set b tid, role := p.role.set tid (Int.ofNat b) }, "ok")
      | none => fail p "unparsable sleep-mask fetch_or"
    | ["fand", "sleep0", _, operand, result, _] =>
      -- operand = ~(1 << b) as a signed number
      match operand.toInt?, result.toNat? with
      | some o, some r =>
        match log2? ((-o - 1).toNat) with
        | none => fail p "unparsable sleep-mask fetch_and"
        | some b =>
          if (r / 2 ^ b) % 2 == 1 && p.bitOwner.get? b != some tid then
            -- worker b claimed by thread tid
            match (p.kids.get? tid).getD [], thr p tid with
            | (c, S) :: restKids, some th =>
              match top? p th with
              | none => fail p "claim by a thread that runs no task"
              | some t =>
                match doStep (pushAct p t (.spawn c S)) (.decide th c S (.steal (b / 8)) b)
                    s!"placed scheduling of {c} claimed worker {b}" with
                | (some p', _) => ({ p' with kids := p'.kids.set tid restKids }, "ok")
                | (none, r) => ({ p with failed := true }, r)
            | _, _ => (p, "ok")   -- a plain wake-up
          else (p, "ok")
      | _, _ => fail p "unparsable sleep-mask fetch_and"
    | _ :: "sleep0" :: _ => (p, "ok")
    | ["call", "spawn", c, S] =>
      match c.toNat?, S.toNat?, thr p tid with
      | some c, some S, some th =>
        match top? p th with
        | none => fail p "schedule call outside a task"
        | some t =>
          match noteSpawner p t S with
          | none => fail p "harness program declared fork-join schedules into a set of another task"
          | some p => ({ p with kids := p.kids.set tid [(c, S)], known := c :: p.known }, "ok")
      | _, _, _ => fail p "unparsable call spawn"
    | ["call", "bulk", S] =>
      match S.toNat?, thr p tid with
      | some S, some th =>
        match top? p th with
        | none => fail p "schedule call outside a task"
        | some t =>
          match noteSpawner p t S with
          | none => fail p "harness program declared fork-join schedules into a set of another task"
          | some p => ({ p with bulkSet := p.bulkSet.set tid S, kids := p.kids.set tid [] }, "ok")
      | _, _ => fail p "unparsable call bulk"
    | ["gen", c] =>
      match c.toNat?, p.bulkSet.get? tid with
      | some c, some S => ({ p with kids := p.kids.set tid ((p.kids.get? tid).getD [] ++ [(c, S)]), known := c :: p.known }, "ok")
      | _, _ => fail p "gen outside a bulk call"
    | "ret" :: k :: [] =>
      if k == "spawn" || k == "bulk" then
        match thr p tid with
        | none => fail p "unknown thread"
        | some th =>
          if ((p.kids.get? tid).getD []) != [] then fail p "a scheduled task was neither queued nor run inline" else
          match top? p th with
          | some t => if (p.s.pend t).isSome then fail p "claimed placement never pushed" else (p, "ok")
          | none => fail p "schedule call outside a task"
      else if k == "pooldtor" then
        match resolveTake p tid with
        | none => fail p "pool destructor popped something the model does not hold"
        | some p =>
          if p.debt.any (·.2 > 0) then fail p "a pop returned something the model never held" else
          if allDone p then (p, "ok") else fail p "run completed but the model has unfinished tasks"
      else fail p "unknown ret"
    | ["call", "pooldtor"] => ({ p with dtor := true }, "ok")
    | ["h", "pool.push.central", n] =>
      match n.toNat?, thr p tid with
      | some n, some th => pushN p tid th .central n
      | _, _ => fail p "unparsable push"
    | ["h", "pool.push.ring", n, r] =>
      match n.toNat?, r.toNat?, thr p tid with
      | some n, some r, some th => pushN p tid th (.ring r) n
      | _, _, _ => fail p "unparsable push"
    | ["h", "pool.push.steal", n, j] =>
      match n.toNat?, j.toNat?, thr p tid with
      | some n, some j, some th =>
        match top? p th with
        | some t =>
          if n == 1 && (p.s.pend t).isSome then pushN p tid th (.steal j) 1
          else fail p s!"steal-ring push without a claimed idle worker"
        | none => fail p "push hook on a thread that runs no task"
      | _, _, _ => fail p "unparsable push"
    | ["h", "pool.take.central", _] => onTake p tid .central
    | ["h", "pool.take.ring", _, r] =>
      match r.toNat? with | some r => onTake p tid (.ring r) | none => fail p "unparsable take"
    | ["h", "pool.take.steal", _, j] =>
      match j.toNat? with | some j => onTake p tid (.steal j) | none => fail p "unparsable take"
    | ["h", "pool.inline"] => (p, "ok")
    | ["h", "pool.inline0"] => (p, "ok")
    | ["h", "ts.inline"] => (p, "ok")
    | ["h", "ts.dec", "-1"] => (p, "ok")    -- the wrapper of a task body: its end was reported by the body
    | ["h", "ts.dec", S] =>
      -- a chunk of parallel_for `S` ran: it was popped (it has no identity: take and finish one of the
      -- chunks of that loop queued in the tier of the pop)
      match S.toNat?, p.ptake.get? tid, thr p tid with
      | some S, some T, some th =>
        match (p.s.live S).find? (fun a => p.anon.contains a && p.s.status a == .queued T) with
        | none => fail p s!"a chunk of parallel_for {S} was popped from {tierStr T}, where the model holds none"
        | some a =>
          match doStep p (.take th a T) "take of a parallel_for chunk" with
          | (some p1, _) =>
            match doStep p1 (.finish th) "finish of a parallel_for chunk" with
            | (some p2, _) => ({ p2 with ptake := p2.ptake.del tid }, "ok")
            | (none, r) => ({ p with failed := true }, r)
          | (none, r) => ({ p with failed := true }, r)
      | _, _, _ => fail p "a parallel_for chunk finished without having been popped"
    | ["begin", c] =>
      match c.toNat?, thr p tid with
      | some c, some th =>
        match p.ptake.get? tid with
        | some T =>
          match doStep p (.take th c T) s!"task {c} started after a pop from {tierStr T}" with
          | (some p', _) => ({ p' with ptake := p'.ptake.del tid }, "ok")
          | (none, r) => ({ p with failed := true }, r)
        | none =>
          match (p.kids.get? tid).getD [] with
          | (c', S) :: restKids =>
            if c' != c then fail p s!"task {c} started inside the schedule call of {c'}" else
            match top? p th with
            | none => fail p "inline start outside a task"
            | some t =>
              match doStep (pushAct p t (.spawn c S)) (.inline th c S) s!"task {c} run inline by its schedule call" with
              | (some p', _) => ({ p' with kids := p'.kids.set tid restKids }, "ok")
              | (none, r) => ({ p with failed := true }, r)
          | [] =>
            if p.s.stack th == [] && th ≥ p.cfg.nWorkers && p.known == [] then
              -- the root task of an external thread
              let s := p.s
              ({ p with known := [c], s := { s with status := upd s.status c .running, stack := upd s.stack th [c],
                                                      stamp := upd s.stamp c s.clock, clock := s.clock + 1 } }, "ok")
            else
              match p.s.status c with
              | .queued T =>
                match doStep p (.takeDirect th c) s!"task {c} started by a future wait" with
                | (some p', _) => (addGhost p' T, "ok")
                | (none, r) => ({ p with failed := true }, r)
              | _ => fail p s!"task {c} started without having been scheduled, popped or run inline"
      | _, _ => fail p "unparsable begin"
    | ["end", c] =>
      match c.toNat?, thr p tid with
      | some c, some th =>
        match resolveTake p tid with
        | none => fail p "a pop returned something the model does not hold"
        | some p =>
          if top? p th != some c then fail p s!"task {c} ended but is not on top of its thread's stack {p.s.stack th}" else
          match doStep p (.finish th) s!"end of task {c}" with
          | (some p', _) => (p', "ok")
          | (none, r) => ({ p with failed := true }, r)
      | _, _ => fail p "unparsable end"
    | ["call", "wait", S, h] =>
      match S.toNat?, thr p tid with
      | some S, some th =>
        match resolveTake p tid, top? p th with
        | some p, some t =>
          if p.fj && (p.spawner.get? S).isSome && p.spawner.get? S != some t then
            fail p "harness program declared fork-join waits on a set scheduled by another task"
          else (pushAct p t (.wait S (h == "1")), "ok")
        | _, _ => fail p "wait outside a task"
      | _, _ => fail p "unparsable call wait"
    | ["ret", "wait", S] =>
      match S.toNat?, thr p tid with
      | some S, some th =>
        match resolveTake p tid with
        | none => fail p "a pop returned something the model does not hold"
        | some p =>
          match top? p th with
          | none => fail p "wait outside a task"
          | some t =>
            match (p.s.rem t).head? with
            | some (.wait S' _) =>
              if S' != S then fail p "wait bracket mismatch" else
              match doStep p (.waitRet th) s!"wait on set {S} returned (unfinished members in the model: {p.s.live S})" with
              | (some p', _) => (p', "ok")
              | (none, r) => ({ p with failed := true }, r)
            | _ => fail p "wait bracket mismatch"
      | _, _ => fail p "unparsable ret wait"
    | ["call", "pfor", S] =>
      match S.toNat?, thr p tid with
      | some S, some th =>
        match top? p th with
        | some t => ({ pushAct p t (.wait S true) with pfor := p.pfor.set t S }, "ok")
        | none => fail p "parallel_for outside a task"
      | _, _ => fail p "unparsable call pfor"
    | ["ret", "pfor", S] =>
      match S.toNat?, thr p tid with
      | some S, some th =>
        match resolveTake p tid with
        | none => fail p "a pop returned something the model does not hold"
        | some p =>
          match top? p th with
          | none => fail p "parallel_for outside a task"
          | some t =>
            match doStep p (.waitRet th) s!"parallel_for {S} returned (unfinished chunks in the model: {p.s.live S})" with
            | (some p', _) => ({ p' with pfor := p'.pfor.del t }, "ok")
            | (none, r) => ({ p with failed := true }, r)
      | _, _ => fail p "unparsable ret pfor"
    | _ => fail p ("unknown event " ++ " ".intercalate rest)
  | _ => (p, "bad-op")

def plug : Plug := { σ := PSt, st := {}, step := step }

end Driver.PlugNested
