import Driver.Plugin
import DispensoVerif.Model.ConVecGrow
/-! `cvgrow` — trace acceptor for concurrent growth of ConcurrentVector (C33).
    `trace begin cvgrow <strategy 0|1|2> <shift> <n0> <fastIter 0|1> <allocated-bucket mask> <tag base>`
    (initial element `k < n0` holds `base + k`), then the `T` lines of a dsched trace:
    call/ret notes, atomic events on `size`, `buf+<b>`, `el+<k>`, and final-state checks
    `T <tid> chk <field> <value>` (pointers are compared for null / non-null only). -/
namespace Driver.PlugConVecGrow
open Dispenso Dispenso.Conc Dispenso.ConVecGrow

structure Sess where
  c : GCfg
  s : State (proto c)

structure PSt where
  sess : Option Sess := none
  failed : Bool := false

def fail (why : String) : PSt × String := ({ sess := none, failed := true }, "MISMATCH " ++ why)

def step (p : PSt) (toks : List String) : PSt × String :=
  match toks with
  | "begin" :: rest =>
    match rest.mapM String.toNat? with
    | some [st, s, n0, fast, mask, base] =>
      if st > 2 ∨ fast > 1 then ({ sess := none, failed := true }, "bad-params") else
      let c : GCfg := { st := if st = 0 then .full else if st = 1 then .half else .asNeeded, s := s, n0 := n0,
                        fastIter := decide (fast = 1) }
      ({ sess := some ⟨c, init c (fun b => (mask >>> b) % 2 = 1) (fun k => (base : Int) + k)⟩, failed := false }, "ok")
    | _ => ({ sess := none, failed := true }, "bad-params")
  | "T" :: line =>
    if p.failed then (p, "skip") else
    match p.sess with
    | none => (p, "no-session")
    | some ⟨c, s⟩ =>
      match line with
      | [_, "chk", fieldS, valS] =>
        match parseField fieldS, valS.toInt? with
        | some f, some v =>
          let m := s.mem f
          if f % 2 = 1 then
            if decide (v = 0) = decide (m = 0) then (p, "ok")
            else fail s!"final {fieldS}: impl {if v = 0 then "null" else "non-null"}, model {if m = 0 then "null" else "non-null"}"
          else if Trace.norm ((binding c).bits f) v = Trace.norm ((binding c).bits f) m then (p, "ok")
          else fail s!"final {fieldS}: impl {v}, model {m}"
        | _, _ => fail "bad chk line"
      | _ =>
        -- pointers: null / non-null must agree with the model before the generic acceptor runs
        let ptrBad : Option String :=
          match line with
          | [_, kind, fieldS, _, operandS, resultS, _] =>
            match parseField fieldS, operandS.toInt?, resultS.toInt? with
            | some f, some operand, some result =>
              if f % 2 = 1 then
                if kind = "load" then
                  -- the acceptor runs pending silent steps first; none exist in this protocol
                  if decide (result = 0) = decide (s.mem f = 0) then none
                  else some s!"load {fieldS}: impl saw {if result = 0 then "null" else "non-null"}, model has {if s.mem f = 0 then "null" else "non-null"}"
                else if kind = "store" then
                  if operand = 0 then some s!"store {fieldS}: null pointer published" else none
                else some s!"unexpected {kind} on {fieldS}"
              else none
            | _, _, _ => none
          | _ => none
        match ptrBad with
        | some why => fail why
        | none =>
          match Trace.acceptLine (binding c) s line with
          | .ok s' => ({ p with sess := some ⟨c, s'⟩ }, "ok")
          | .error e => fail e
  | _ => (p, "bad-op")

def plug : Plug := { σ := PSt, st := {}, step := step }

end Driver.PlugConVecGrow
