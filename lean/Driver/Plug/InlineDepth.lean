import Driver.Plugin
import DispensoVerif.Model.InlineDepth
/-! dvdriver plug-in `inlinedepth`: replays the inline decisions / body begin / end events of a pool
    trace (the same `T` lines the `sched` plug-in reads) through `InlineDepth.step`, per thread. -/
namespace Driver.PlugInlineDepth
open Dispenso Dispenso.InlineDepth

structure PSt where
  thr : List (Nat × Thr) := []
  failed : Bool := false
  maxDepth : Nat := 0

def get (p : PSt) (t : Nat) : Thr := (p.thr.find? (·.1 == t)).map (·.2) |>.getD {}
def set (p : PSt) (t : Nat) (s : Thr) : PSt :=
  { p with thr := (t, s) :: p.thr.filter (·.1 != t), maxDepth := max p.maxDepth (depth s.stack) }

def evOf (toks : List String) : Option (Option Ev) :=
  match toks with
  | "h" :: "pool.inline" :: _ => some (some .decideGuarded)
  | "h" :: "ts.inline" :: _ => some (some .decideGuarded)
  | "h" :: "pool.inline0" :: _ => some (some .decideUnguarded)
  | ["h", "ts.guard", _, "1", "0"] => some (some .skip)
  | "begin" :: _ => some (some .begin_)
  | "end" :: _ => some (some .end_)
  | _ => some none   -- not an inline-depth event

def step (p : PSt) (toks : List String) : PSt × String :=
  match toks with
  | "begin" :: _ => ({}, "ok")
  | ["maxdepth"] => (p, toString p.maxDepth)
  | "T" :: tid :: rest =>
    if p.failed then (p, "skip") else
    match tid.toNat?, evOf rest with
    | some t, some (some e) =>
      let s := get p t
      match InlineDepth.step s e with
      | some s' => (set p t s', "ok")
      | none => ({ p with failed := true },
          s!"MISMATCH inline decision not allowed by the depth guard model: thread {t} guarded depth {depth s.stack} pending={repr s.pending}")
    | some _, some none => (p, "ok")
    | _, _ => ({ p with failed := true }, "MISMATCH unparsable event")
  | _ => (p, "bad-op")

def plug : Plug := { σ := PSt, st := {}, step := step }

end Driver.PlugInlineDepth
