import Driver.Plugin
import DispensoVerif.Model.TimedTask
/-!
Trace acceptor for the TimedTask model (C26).  A trace is the projection of one dsched run onto one
`TimedTaskImpl`: the atomic operations on its four words, the plain accesses to `func`, the harness
markers (clock values returned by `getTime()`, submission / begin / end of a wrap, start and return
of the user function, API calls).  Every line must be the next operation of the corresponding model
participant and the value the code observed must be the model's value; the kick-off guard
(`next - cur < buf`) is checked by `Act.add` / `Act.pop` with the clock value the thread read.

    begin <n0> <first> <period> <steady> <inl> <buf> <fixed>
    T <tid> time <k>                     last getTime() of the thread (in ticks)
    T <tid> call|ret <add|cancel|detach|calls|dtor> [v]
    T <tid> submit <i> | wbegin <i> | wend <i> | fstart <i> <k> | fret <i> <0|1>
    T <tid> <kind> <ttr|flags|inprog|count|func> <mo> <operand> <result> <aux>
Core Lean only.
-/
namespace Driver.PlugTimedTask
open Dispenso Dispenso.TimedTask

structure PS where
  cfg : Cfg
  st : St
  live : Bool                      -- a session is open and has not failed
  lastTime : List (Nat × Nat)      -- tid ↦ last clock value read
  wrapOf : List (Nat × Nat)        -- stack of (tid, wrap id) being executed
  inCall : List (Nat × String)     -- tid ↦ API call in progress
  funcRun : List Nat               -- tids whose previous event was an access to `func`

def cfg0 : Cfg := { n0 := 0, first := 0, period := 0, steady := false, inl := false, buf := 0, fixed := false }

def PS.init : PS :=
  { cfg := cfg0, st := TimedTask.init cfg0, live := false, lastTime := [], wrapOf := [], inCall := [], funcRun := [] }

def lookup {α : Type} (l : List (Nat × α)) (t : Nat) : Option α := (l.find? (·.1 == t)).map (·.2)
def setKey {α : Type} (l : List (Nat × α)) (t : Nat) (v : α) : List (Nat × α) := (t, v) :: l.filter (·.1 != t)
def dropKey {α : Type} (l : List (Nat × α)) (t : Nat) : List (Nat × α) := l.filter (·.1 != t)

/-- unsigned value of a traced (sign-extended) operand -/
def uns (bits : Nat) (x : Int) : Nat := (x % (2 : Int) ^ bits).toNat

def showK (k : K) : String := reprStr k

abbrev R := Except String PS

def stepM (p : PS) (a : Act) (why : String) : R :=
  match TimedTask.step p.cfg p.st a with
  | some s' => .ok { p with st := s' }
  | none => .error s!"{why}: model action {reprStr a} not enabled (k={showK p.st.k} inQueue={p.st.inQueue} next={p.st.next} now={p.st.now} ttr={p.st.ttr} created={p.st.created})"

def expectNat (what : String) (impl model : Nat) : Except String Unit :=
  if impl = model then .ok () else .error s!"{what}: impl {impl} model {model}"

/-- declared memory orders the SC reading of the repaired protocol relies on (store-buffer pattern
    between announce/re-check and cancel/spin): seq_cst = 5 -/
def needSC (p : PS) (mo : Nat) (what : String) : Except String Unit :=
  if p.cfg.fixed && mo != 5 then .error s!"{what} must be seq_cst in the repaired protocol, declared order {mo}" else .ok ()

def atLeast (mo need : Nat) (what : String) : Except String Unit :=
  let ok := match need with
    | 2 => mo == 2 || mo == 4 || mo == 5
    | 3 => mo == 3 || mo == 4 || mo == 5
    | 4 => mo == 4 || mo == 5
    | _ => true
  if ok then .ok () else .error s!"{what}: declared memory order {mo} weaker than required {need}"

/-- finish the silent tail of a kick-off (push back / drop) -/
def finishKick (p : PS) : R :=
  match p.st.k with
  | .requeue _ _ => stepM p .kstep "requeue"
  | _ => .ok p

def topWrap (p : PS) (t : Nat) : Option Nat := lookup p.wrapOf t

/-- an atomic / plain event of thread `t` on `field` -/
def onEvent (p : PS) (t : Nat) (kind field : String) (mo : Nat) (operand result : Int) : R := do
  let isFunc := field == "func"
  -- consecutive accesses to `func` by one thread belong to one model step
  if isFunc && p.funcRun.contains t then return p
  let p := { p with funcRun := if isFunc then t :: p.funcRun.filter (· != t) else p.funcRun.filter (· != t) }
  let s := p.st
  match topWrap p t with
  | some i =>
    -- the thread is executing wrap i
    match s.wraps[i]?, kind, field with
    | some W.pending, "load", "flags" =>
      expectNat "wrap flag check" (uns 32 result) (flagsWord s)
      atLeast mo 2 "wrap flag check"
      stepM p (.wstep i) "wrap check"
    | some W.storeTtr, "store", "ttr" =>
      expectNat "timesToRun.store operand" (uns 64 operand) 0
      stepM p (.wstep i) "wrap store"
    | some W.setFlag, "for", "flags" =>
      expectNat "flags.fetch_or operand" (uns 32 operand) 2
      expectNat "flags.fetch_or previous" (uns 32 result) (flagsWord s)
      atLeast mo 3 "false-return flags.fetch_or"
      stepM p (.wstep i) "wrap setFlag"
    | some W.clear, _, "func" => stepM p (.wstep i) "wrap clear"
    | some W.count, "fadd", "count" =>
      expectNat "count.fetch_add previous" (uns 64 result) s.count
      stepM p (.wstep i) "wrap count"
    | some (W.decr _), "fsub", "inprog" =>
      expectNat "inProgress.fetch_sub previous" (uns 32 result) s.inProgress
      atLeast mo 3 "wrap inProgress.fetch_sub"
      stepM p (.wstep i) "wrap decr"
    | w, _, _ => .error s!"wrap {i} (thread {t}) did {kind} {field}, model wrap state {reprStr w}"
  | none =>
    match lookup p.inCall t with
    | some "cancel" =>
      match s.cl t, kind, field with
      | .cancel1, "store", "ttr" => stepM p (.cstep t) "cancel store"
      | .cancel2, "for", "flags" =>
        expectNat "cancel fetch_or operand" (uns 32 operand) 2
        expectNat "cancel fetch_or previous" (uns 32 result) (flagsWord s)
        needSC p mo "cancel()'s flags.fetch_or"
        atLeast mo 3 "cancel()'s flags.fetch_or"
        stepM p (.cstep t) "cancel fetch_or"
      | c, _, _ => .error s!"cancel() did {kind} {field}, model client state {reprStr c}"
    | some "detach" =>
      match s.cl t, kind, field with
      | .detach1, "for", "flags" =>
        expectNat "detach fetch_or operand" (uns 32 operand) 1
        expectNat "detach fetch_or previous" (uns 32 result) (flagsWord s)
        stepM p (.cstep t) "detach fetch_or"
      | c, _, _ => .error s!"detach() did {kind} {field}, model client state {reprStr c}"
    | some "calls" =>
      match s.cl t, kind, field with
      | .calls1, "load", "count" =>
        expectNat "calls() load" (uns 64 result) s.count
        stepM p (.cstep t) "calls load"
      | c, _, _ => .error s!"calls() did {kind} {field}, model client state {reprStr c}"
    | some "dtor" =>
      match s.d, kind, field with
      | .load, "load", "flags" =>
        expectNat "~TimedTask flags.load" (uns 32 result) (flagsWord s)
        stepM p .dstep "dtor load"
      | .cancel1, "store", "ttr" => stepM p .dstep "dtor store"
      | .cancel2, "for", "flags" =>
        expectNat "~TimedTask fetch_or operand" (uns 32 operand) 2
        expectNat "~TimedTask fetch_or previous" (uns 32 result) (flagsWord s)
        needSC p mo "~TimedTask's flags.fetch_or"
        stepM p .dstep "dtor fetch_or"
      | .spin, "load", "inprog" =>
        expectNat "~TimedTask inProgress.load" (uns 32 result) s.inProgress
        needSC p mo "~TimedTask's inProgress.load"
        atLeast mo 2 "~TimedTask's inProgress.load"
        stepM p .dstep "dtor spin"
      | .clear, _, "func" => stepM p .dstep "dtor clear"
      | d, _, _ => .error s!"~TimedTask did {kind} {field}, model destructor state {reprStr d}"
    | some "add" | none =>
      -- the thread runs kickOffTask
      match kind, field with
      | "fsub", "ttr" =>
        let p ← finishKick p
        let cur := (lookup p.lastTime t).getD 0
        let p ←
          if p.st.created then stepM p (.pop cur) "scheduler pop"
          else if lookup p.inCall t == some "add" then stepM p (.add cur) "addTimedTask"
          else
            -- the creator is still inside addTimedTask (it has pushed the entry and not yet returned)
            -- and the scheduler thread already pops it
            match p.inCall.find? (·.2 == "add") with
            | some (tc, _) => do
              let p ← stepM p (.add ((lookup p.lastTime tc).getD 0)) "addTimedTask (push)"
              match p.st.k with
              | .idle => stepM p (.pop cur) "scheduler pop"
              | k => .error s!"impl queued the task, model kicks off at once: k={showK k}"
            | none => .error "kick-off before addTimedTask"
        match p.st.k with
        | .fetch _ =>
          expectNat "timesToRun.fetch_sub previous" (uns 64 result) p.st.ttr
          expectNat "timesToRun.fetch_sub operand" (uns 64 operand) 1
          atLeast mo 4 "timesToRun.fetch_sub"
          stepM p .kstep "fetch"
        | k => .error s!"impl kicks off (clock {cur}), model does not: k={showK k} next={p.st.next} buf={p.cfg.buf}"
      | _, _ =>
        match s.k, kind, field with
        | .call _ _, _, "func" => stepM p .kstep "call func"
        | .check _ _, "load", "flags" =>
          expectNat "func's flags.load" (uns 32 result) (flagsWord s)
          stepM p .kstep "func check"
        | .incr _ _, "fadd", "inprog" =>
          expectNat "func's inProgress.fetch_add previous" (uns 32 result) s.inProgress
          stepM p .kstep "func incr"
        | .announce _ _, "fadd", "inprog" =>
          expectNat "kickOff's inProgress.fetch_add previous" (uns 32 result) s.inProgress
          needSC p mo "kickOff's inProgress.fetch_add"
          stepM p .kstep "announce"
        | .recheck _ _, "load", "flags" =>
          expectNat "kickOff's flags.load" (uns 32 result) (flagsWord s)
          needSC p mo "kickOff's flags.load"
          stepM p .kstep "recheck"
        | .retract, "fsub", "inprog" =>
          expectNat "kickOff's inProgress.fetch_sub previous" (uns 32 result) s.inProgress
          stepM p .kstep "retract"
        | k, _, _ => .error s!"thread {t} did {kind} {field} as kicker, model kicker state {showK k}"
    | some other => .error s!"unknown call {other}"

def tickTo (p : PS) (k : Nat) : PS :=
  if p.st.now < k then
    match TimedTask.step p.cfg p.st (.tick (k - p.st.now)) with
    | some s' => { p with st := s' }
    | none => p
  else p

def onLine (p : PS) (toks : List String) : R :=
  match toks with
  | tidS :: rest =>
    match tidS.toNat? with
    | none => .error "bad tid"
    | some t =>
      let clr (p : PS) : PS := { p with funcRun := p.funcRun.filter (· != t) }
      match rest with
      | ["time", kS] =>
        match kS.toNat? with
        | some k => .ok { tickTo p k with lastTime := setKey p.lastTime t k }
        | none => .error "bad time"
      | ["call", "add"] => .ok { clr p with inCall := setKey p.inCall t "add" }
      | ["ret", "add"] => do
        let p := clr p
        let p := { p with inCall := dropKey p.inCall t }
        if p.st.created then .ok p
        else
          let cur := (lookup p.lastTime t).getD 0
          let p ← stepM p (.add cur) "addTimedTask"
          match p.st.k with
          | .idle => .ok p
          | k => .error s!"impl queued the task (clock {cur}), model kicks off at once: k={showK k} first={p.cfg.first} buf={p.cfg.buf}"
      | ["call", name] =>
        let p := clr p
        if name == "dtor" then do
          let p ← stepM p .dstep "~TimedTask entry"
          .ok { p with inCall := setKey p.inCall t "dtor" }
        else
          let c : Option C := match name with
            | "cancel" => some .cancel1 | "detach" => some .detach1 | "calls" => some .calls1 | _ => none
          match c with
          | none => .error s!"unknown call {name}"
          | some c => do
            let p ← stepM p (.call t c) s!"{name} entry"
            .ok { p with inCall := setKey p.inCall t name }
      | "ret" :: name :: vals =>
        let p := clr p
        let p' := { p with inCall := dropKey p.inCall t }
        if name == "dtor" then
          match p.st.d with
          | .returned _ => .ok p'
          | d => .error s!"~TimedTask returned, model destructor state {reprStr d}"
        else
          match p.st.cl t, vals with
          | .returned v, [vS] => if vS.toNat? = some v then .ok p' else .error s!"{name} returned {vS}, model {v}"
          | .returned _, [] => .ok p'
          | c, _ => .error s!"{name} returned, model client state {reprStr c}"
      | ["submit", iS] =>
        match iS.toNat?, p.st.k with
        | some i, .submit _ _ =>
          if i = p.st.wraps.length then stepM (clr p) .kstep "submit" else .error s!"submit {i}: model has {p.st.wraps.length} wraps"
        | _, k => .error s!"impl submits a wrap, model kicker state {showK k}"
      | ["wbegin", iS] =>
        match iS.toNat? with
        | some i =>
          if p.st.wraps[i]? = some W.pending then .ok { clr p with wrapOf := (t, i) :: p.wrapOf }
          else .error s!"wrap {i} begins, model wrap state {reprStr p.st.wraps[i]?}"
        | none => .error "bad wbegin"
      | ["wend", iS] =>
        match iS.toNat? with
        | some i =>
          if topWrap p t = some i ∧ p.st.wraps[i]? = some W.done then
            .ok { clr p with wrapOf := p.wrapOf.eraseP (fun e => e.1 == t && e.2 == i) }
          else .error s!"wrap {i} ended on thread {t}, model wrap state {reprStr p.st.wraps[i]?}"
        | none => .error "bad wend"
      | ["fstart", iS, kS] =>
        match iS.toNat?, kS.toNat? with
        | some i, some k =>
          if p.st.wraps[i]? = some W.running ∧ topWrap p t = some i then .ok (tickTo (clr p) k)
          else .error s!"user function starts in wrap {i}, model wrap state {reprStr p.st.wraps[i]?}"
        | _, _ => .error "bad fstart"
      | ["fret", iS, rS] =>
        match iS.toNat?, rS.toNat? with
        | some i, some r =>
          if topWrap p t = some i then stepM (clr p) (.wret i (r != 0)) "function return" else .error "fret outside its wrap"
        | _, _ => .error "bad fret"
      | [kind, field, moS, operandS, resultS, _auxS] =>
        match moS.toNat?, operandS.toInt?, resultS.toInt? with
        | some mo, some operand, some result => onEvent p t kind field mo operand result
        | _, _, _ => .error "bad numbers"
      | _ => .error "bad event line"
  | [] => .error "short line"

def parseBool (s : String) : Option Bool := if s == "1" then some true else if s == "0" then some false else none

def step (p : PS) (toks : List String) : PS × String :=
  match toks with
  | ["begin", n0S, firstS, periodS, steadyS, inlS, bufS, fixedS] =>
    match n0S.toNat?, firstS.toNat?, periodS.toNat?, parseBool steadyS, parseBool inlS, bufS.toNat?, parseBool fixedS with
    | some n0, some first, some period, some steady, some inl, some buf, some fixed =>
      let c : Cfg := { n0 := n0, first := first, period := period, steady := steady, inl := inl, buf := buf, fixed := fixed }
      ({ PS.init with cfg := c, st := TimedTask.init c, live := true }, "ok")
    | _, _, _, _, _, _, _ => ({ p with live := false }, "bad-params")
  | "T" :: rest =>
    if !p.live then (p, "skip") else
    match onLine p rest with
    | .ok p' => (p', "ok")
    | .error e => ({ p with live := false }, "MISMATCH " ++ e)
  | _ => (p, "bad-op")

def plug : Plug := { σ := PS, st := PS.init, step := step }

end Driver.PlugTimedTask
