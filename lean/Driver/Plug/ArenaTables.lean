import Driver.Plugin
import DispensoVerif.Model.ArenaTables
/-! dvdriver plug-in `arenatbl`: the table ledger of ConcurrentObjectArena (C37).
    `arenatbl reset` | `arenatbl alloc` | `arenatbl load <r>` | `arenatbl index <r> <i>` | `arenatbl destroy` -/
namespace Driver.PlugArenaTables
open Dispenso.ArenaTables

def showOut : Out → String
  | .ok => "ok"
  | .table sz u r => s!"table {sz} {u} {r}"
  | .uaf => "uaf"
  | .rejected => "rejected"

def step (s : St) (toks : List String) : St × String :=
  let go (o : Op) : St × String := let (s', out) := Dispenso.ArenaTables.step s o; (s', showOut out)
  match toks with
  | ["reset"] => ({}, "ok")
  | ["alloc"] => go .alloc
  | ["load", r] => match r.toNat? with
    | some r => go (.load r)
    | none => (s, "bad-op")
  | ["index", r, i] => match r.toNat?, i.toNat? with
    | some r, some i => go (.index r i)
    | _, _ => (s, "bad-op")
  | ["destroy"] => go .destroy
  | _ => (s, "bad-op")

def plug : Plug := { σ := St, st := {}, step := step }

end Driver.PlugArenaTables
