import Driver.Plugin
import DispensoVerif.Model.Future
/-! Trace acceptor for the Future model (C18, C20): `Trace.acceptLine` over `Future.futProto` /
    `Future.evtProto`, plus the timed layer of `Future.texec` (deadline bookkeeping, `timeout`
    only when the deadline has passed) driven by the `clock <ns>` notes of the harness.
    Core Lean only. -/
namespace Driver.PlugFuture
open Dispenso Dispenso.Conc Dispenso.Future

/-- pseudo thread that makes time pass -/
def clockTid : TId := 1000

structure Sess (P : Proto) where
  st : State P
  dl : TId → Int

inductive St where
  | none
  | failed
  | fut (cfg : Cfg) (s : Sess (futProto cfg))
  | evt (s : Sess evtProto)

def boolOf (i : Int) : Bool := i ≠ 0

/-- advance the model clock to `now` (never backwards) by a `tick` of the pseudo thread -/
def syncClock {P : Proto} (mk : Int → P.L) (s : State P) (now : Int) : Except String (State P) :=
  let cur := s.mem 8
  if now < cur then .error s!"clock {now} is behind the model clock {cur} (a timed wait returned before its deadline?)"
  else if now = cur then .ok s
  else
    match exec s (.call clockTid (mk (now - cur))) with
    | none => .error "tick not enabled"
    | some s1 =>
      match exec s1 (.step clockTid) with
      | none => .error "tick step failed"
      | some s2 => .ok s2

def isAtomicKind (k : String) : Bool :=
  k = "load" || k = "store" || k = "xchg" || k = "fadd" || k = "fsub" || k = "cas_ok" || k = "cas_fail"
    || k = "futex_wait" || k = "futex_wake"

/-- one trace line through the generic acceptor, with the timed layer's bookkeeping -/
def lineGen {P : Proto} (B : Trace.Binding P) (pcOf : P.L → PC) (mk : Int → P.L)
    (implicitRun : P.L → Option P.L) (ss : Sess P) (toks : List String) : Except String (Sess P) :=
  match toks with
  | tidS :: kind :: rest =>
    match tidS.toNat? with
    | none => .error "bad tid"
    | some t =>
      let s := ss.st
      if kind = "clock" then
        match rest with
        | [nowS] =>
          match nowS.toInt? with
          | none => .error "bad clock"
          | some now =>
            match syncClock mk s now with
            | .error e => .error e
            | .ok s1 =>
              -- a pending clock read of this thread (`tfClock` / `wuClock`) happens now
              match P.op (s1.loc t) with
              | some (.load 8) =>
                match exec s1 (.step t) with
                | some s2 => .ok ⟨Trace.runSilent B s2 t 64, ss.dl⟩
                | none => .error "clock read failed"
              | _ => .ok ⟨s1, ss.dl⟩
        | _ => .error "bad clock line"
      else
      -- an unannounced thread touching the shared state is the pool / a new thread running the closure
      let s0 : Except String (State P) :=
        if isAtomicKind kind ∧ P.op (s.loc t) = none ∧ s.parked t = none then
          match implicitRun (s.loc t) with
          | some l =>
            match exec s (.call t l) with
            | some s' => .ok s'
            | none => .error s!"thread {t} touches the shared state outside any call and may not run the closure"
          | none => .ok s
        else .ok s
      match s0 with
      | .error e => .error e
      | .ok s =>
      if kind = "futex_wait_ret" ∧ rest.getD 3 "" = "110" then
        -- time-out: the model requires the deadline to have passed; time is at least the deadline now
        match s.parked t with
        | some (_, true) =>
          match syncClock mk s (max (s.mem 8) (ss.dl t)) with
          | .error e => .error e
          | .ok s1 =>
            if ss.dl t ≤ s1.mem 8 then
              match Trace.acceptLine B s1 toks with
              | .ok s2 => .ok ⟨s2, ss.dl⟩
              | .error e => .error e
            else .error "deadline not reached"
        | _ => .error s!"impl timed out but model thread {t} is not in a timed wait"
      else if kind = "futex_wait" then
        let pc := pcOf (s.loc t)
        let aux : Int := (rest.getD 4 "0").toInt?.getD 0
        let rel := relOf pc
        -- the timespec passed by the code is the requested time, up to the truncation of the
        -- `double` → `timespec` conversion (at most 1 ns short)
        let isTimed : Bool := match pc with | .wfWait _ _ _ => true | _ => false
        if isTimed && !(decide (rel - 1 ≤ aux) && decide (aux ≤ rel)) then
          .error s!"timed futex wait with timespec {aux} ns, the model expects {rel} ns"
        else
          match Trace.acceptLine B s toks with
          | .ok s2 =>
            let parkedNow := s.parked t = none ∧ s2.parked t ≠ none
            .ok ⟨s2, if parkedNow then (fun u => if u = t then s.mem 8 + aux else ss.dl u) else ss.dl⟩
          | .error e => .error e
      else
        match Trace.acceptLine B s toks with
        | .ok s2 => .ok ⟨s2, ss.dl⟩
        | .error e => .error e
  | _ => .error "short line"

def parseHs : List Int → List Nat := fun l => l.map Int.toNat

/-- run the closure to completion on thread `t` (ImmediateInvoker: it ran inside the constructor) -/
def ffRun {cfg : Cfg} (s : State (futProto cfg)) (t : TId) : Option (State (futProto cfg)) :=
  match exec s (.call t ⟨(s.loc t).h, .rnTake⟩) with
  | none => none
  | some s1 =>
    let rec go (fuel : Nat) (s : State (futProto cfg)) : Option (State (futProto cfg)) :=
      match fuel with
      | 0 => none
      | fuel + 1 =>
        match (futProto cfg).op (s.loc t) with
        | none => some s
        | some (.fwake _ _) =>
          match exec s (.wake t []) with
          | some s' => go fuel s'
          | none => none
        | some _ =>
          match exec s (.step t) with
          | some s' => go fuel s'
          | none => none
    go 40 s1

def step (isEvt : Bool) (st : St) (toks : List String) : St × String :=
  match toks with
  | "begin" :: rest =>
    if isEvt then
      match ints' rest with
      | some [now] => (.evt ⟨evtInit now, fun _ => 0⟩, "ok")
      | _ => (.failed, "bad-params")
    else
    match ints' rest with
    | some (val :: throws :: hasTsc :: allow :: now :: pre :: hs) =>
      let cfg : Cfg := { c := 2, val := val, throws := boolOf throws, hasTsc := boolOf hasTsc,
                         allowInline := boolOf allow }
      let s0 := futInit cfg (parseHs hs) now
      if pre = 0 then (.fut cfg ⟨s0, fun _ => 0⟩, "ok")
      else
        match ffRun s0 (pre - 1).toNat with
        | some s1 => (.fut cfg ⟨s1, fun _ => 0⟩, "ok")
        | none => (.failed, "bad-params")
    | _ => (.failed, "bad-params")
  | "T" :: rest =>
    match st with
    | .none => (.none, "no-session")
    | .failed => (.failed, "skip")
    | .fut cfg ss =>
      match lineGen (binding cfg) pcOfL (fun n => ⟨0, .tick n⟩)
          (fun l => if idleOrDone l.pc then some ⟨l.h, .rnTake⟩ else none) ss rest with
      | .ok ss' => (.fut cfg ss', "ok")
      | .error e => (.failed, "MISMATCH " ++ e)
    | .evt ss =>
      match lineGen evtBinding pcOfL (fun n => ⟨0, .tick n⟩) (fun _ => none) ss rest with
      | .ok ss' => (.evt ss', "ok")
      | .error e => (.failed, "MISMATCH " ++ e)
  | _ => (st, "bad-op")

def plug : Plug := { σ := St, st := .none, step := step false }
def plugEvt : Plug := { σ := St, st := .none, step := step true }

end Driver.PlugFuture
