import Driver.Plugin
import DispensoVerif.Model.Wake
/-! dvdriver plug-in `wake`: replays a dsched trace of the real PoolWakeState / EpochWaiter (plus the
    worker park sequence and the stop path) through `Conc.exec` of `Wake.proto N G`.
    `trace begin wake <N> <G>`. -/
namespace Driver.PlugWake
open Dispenso

/-- Wake-API calls made by a pool thread from inside a task body (a cascade-host lambda calling
`cascadeWake`, a task that schedules more work) are replayed as calls of a separate model thread
`tid + taskOffset`: the thread is sequential, so its own worker state does not change while the task body
runs, and the model's theorems hold for any number of threads. -/
def taskOffset : Nat := 100000

structure PSt where
  N : Nat := 1
  G : Nat := 1
  st : Option (Conc.State (Wake.proto N G)) := none
  failed : Bool := false
  inTask : List Nat := []

def step (p : PSt) (toks : List String) : PSt × String :=
  match toks with
  | ["begin", n, g] =>
    match n.toNat?, g.toNat? with
    | some N, some G =>
      if 1 ≤ N ∧ 1 ≤ G ∧ G ≤ 64 then ({ N := N, G := G, st := some (Wake.init N G), failed := false, inTask := [] }, "ok")
      else ({ p with failed := true }, "bad-params")
    | _, _ => ({ p with failed := true }, "bad-params")
  | "T" :: _ :: "fence" :: _ =>
    -- thread fences of the surrounding pool / task-set code are not operations of the wake protocol
    (p, if p.failed then "skip" else "ok")
  | "T" :: rest =>
    if p.failed then (p, "skip") else
    match p with
    | { N := N, G := G, st := some s, failed := _, inTask := it } =>
      -- remap wake-API calls issued from inside a task body to a separate model thread
      let (rest', it') : List String × List Nat :=
        match rest with
        | tidS :: kind :: name :: more =>
          match tidS.toNat? with
          | some t =>
            if it.contains t then
              (toString (t + taskOffset) :: kind :: name :: more,
                if kind = "ret" && Wake.isApiCall name then it.erase t else it)
            else if kind = "call" && Wake.isApiCall name && Wake.isWorkerBetween (s.loc t) then
              (toString (t + taskOffset) :: kind :: name :: more, t :: it)
            else (rest, it)
          | none => (rest, it)
        | _ => (rest, it)
      match Trace.acceptLine (Wake.binding N G) s rest' with
      | .ok s' => ({ N := N, G := G, st := some s', failed := false, inTask := it' }, "ok")
      | .error e => ({ N := N, G := G, st := some s, failed := true, inTask := it' }, "MISMATCH " ++ e)
    | _ => ({ p with failed := true }, "MISMATCH no-session")
  | _ => (p, "bad-op")

def plug : Plug := { σ := PSt, st := {}, step := step }

end Driver.PlugWake
