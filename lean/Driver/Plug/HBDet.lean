import Driver.Plugin
import DispensoVerif.Core.HB
/-! dvdriver plug-in `hbdet`: runs the happens-before race detector `HB.D` (proved sound:
    `HB.detector_sound`) over a dsched trace of the REAL code.  `trace begin hbdet <prefix>…`
    names the fields that are payload (treated as plain, non-atomic data even where the harness's
    element type wraps them in a relaxed atomic to make them visible); every other field is an
    atomic with the memory order the call site declares.  Events of thread 0 (the harness's main
    body, ordered with the worker threads by create/join, which the trace does not record) are
    skipped.  Reply `ok`, or `MISMATCH data race …` at the first access the detector rejects. -/
namespace Driver.PlugHBDet
open Dispenso Dispenso.HB

structure PSt where
  d : D := D.init
  names : List String := []
  plain : List String := []
  failed : Bool := false

def fieldIdx (p : PSt) (f : String) : PSt × Nat :=
  match p.names.findIdx? (· == f) with
  | some i => (p, i)
  | none => ({ p with names := p.names ++ [f] }, p.names.length)

def isPlainName (p : PSt) (f : String) : Bool := p.plain.any fun pre => f.startsWith pre

def atomicKind : String → Option Kind
  | "load" => some .load
  | "cas_fail" => some .load
  | "store" => some .store
  | "xchg" => some .rmw
  | "fadd" => some .rmw
  | "fsub" => some .rmw
  | "for" => some .rmw
  | "fand" => some .rmw
  | "cas_ok" => some .rmw
  | _ => none

def plainKind : String → Option Kind
  | "load" => some .pread
  | "pload" => some .pread
  | "cas_fail" => some .pread
  | "store" => some .pwrite
  | "pstore" => some .pwrite
  | "xchg" => some .pwrite
  | "fadd" => some .pwrite
  | "fsub" => some .pwrite
  | "for" => some .pwrite
  | "fand" => some .pwrite
  | "cas_ok" => some .pwrite
  | _ => none

def step (p : PSt) (toks : List String) : PSt × String :=
  match toks with
  | "begin" :: prefixes => ({ plain := prefixes }, "ok")
  | "T" :: tidS :: kind :: rest =>
    if p.failed then (p, "skip") else
    match tidS.toNat? with
    | none => ({ p with failed := true }, "MISMATCH bad tid")
    | some t =>
      if t = 0 then (p, "ok") else
      match rest with
      | [fieldS, moS, _, _, _] =>
        if kind = "fence" then (p, "ok") else
        let mo := moS.toNat?.getD 0
        let (p1, f) := fieldIdx p fieldS
        let k? := if isPlainName p fieldS then plainKind kind else atomicKind kind
        match k? with
        | none => (p1, "ok")     -- futex calls and other bookkeeping events
        | some k =>
          match p1.d.step ⟨t, k, f, mo⟩ with
          | some d' => ({ p1 with d := d' }, "ok")
          | none => ({ p1 with failed := true },
              s!"MISMATCH data race: thread {t} {kind} {fieldS} is not ordered (happens-before) after an earlier conflicting access of another thread")
      | _ => (p, "ok")           -- call / ret / note lines
  | _ => (p, "bad-op")

def plug : Plug := { σ := PSt, st := {}, step := step }

end Driver.PlugHBDet
