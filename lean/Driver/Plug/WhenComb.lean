import Driver.Plugin
import DispensoVerif.Model.WhenComb
/-! Trace acceptor for the when_all / when_any models (C19).  The threads that complete inputs, run
    continuations and the result's closure are library-internal: a thread outside any announced call
    that stores to an input's status is completing that input, one that loads it is probing it
    (`then()`'s checks, the wrapper's `copy.wait()`), and one that touches the shared counter /
    winner cell right after having seen input `i` ready is running the continuation of input `i`.
    Core Lean only. -/
namespace Driver.PlugWhenComb
open Dispenso Dispenso.Conc Dispenso.WhenComb

inductive St where
  | none
  | all (N : Nat) (s : State (All.proto N))
  | any (N : Nat) (s : State (Any.proto N))

def inputIdx (field : String) : Option Nat :=
  if field.startsWith "in" then (field.drop 2).toNat? else none

def implicitAll {N : Nat} (s : State (All.proto N)) (t : TId) (kind field : String) :
    Except String (State (All.proto N)) :=
  if (All.proto N).op (s.loc t) ≠ none ∨ s.parked t ≠ none then .ok s else
  let start (l : All.PC) : Except String (State (All.proto N)) :=
    match exec s (.call t l) with
    | some s' => .ok s'
    | none => .error s!"thread {t}: implicit call not allowed by the model's contract"
  match inputIdx field with
  | some i => if kind = "store" then start (.inStore i) else if kind = "load" then start (.pbLoad i) else .ok s
  | none =>
    if field = "cw" ∧ kind = "fsub" then
      match s.loc t with
      | .pbDone i => start (.ctTake i)
      | _ => .error s!"thread {t} decrements the count without having seen an input ready"
    else .ok s

def implicitAny {N : Nat} (s : State (Any.proto N)) (t : TId) (kind field : String) :
    Except String (State (Any.proto N)) :=
  if (Any.proto N).op (s.loc t) ≠ none ∨ s.parked t ≠ none then .ok s else
  let start (l : Any.PC) : Except String (State (Any.proto N)) :=
    match exec s (.call t l) with
    | some s' => .ok s'
    | none => .error s!"thread {t}: implicit call not allowed by the model's contract"
  match inputIdx field with
  | some i => if kind = "store" then start (.inStore i) else if kind = "load" then start (.pbLoad i) else .ok s
  | none =>
    if field = "cw" ∧ (kind = "cas_ok" ∨ kind = "cas_fail") then
      match s.loc t with
      | .pbDone i => start (.ctCas i)
      | _ => .error s!"thread {t} claims the winner without having seen an input ready"
    else .ok s

def step (isAny : Bool) (st : St) (toks : List String) : St × String :=
  match toks with
  | "begin" :: rest =>
    match nats' rest with
    | some [N] => if N = 0 then (.none, "bad-params") else
        if isAny then (.any N (Any.init N), "ok") else (.all N (All.init N), "ok")
    | _ => (.none, "bad-params")
  | "T" :: rest =>
    match st with
    | .none => (.none, "skip")
    | .all N s =>
      match rest with
      | tidS :: kind :: field :: _ =>
        match tidS.toNat? with
        | none => (.none, "MISMATCH bad tid")
        | some t =>
          if kind = "call" ∨ kind = "ret" ∨ kind = "note" then
            match Trace.acceptLine (All.binding N) s rest with
            | .ok s' => (.all N s', "ok")
            | .error e => (.none, "MISMATCH " ++ e)
          else
          match implicitAll s t kind field with
          | .error e => (.none, "MISMATCH " ++ e)
          | .ok s1 =>
            match Trace.acceptLine (All.binding N) s1 rest with
            | .ok s' => (.all N s', "ok")
            | .error e => (.none, "MISMATCH " ++ e)
      | _ => (.none, "MISMATCH short line")
    | .any N s =>
      match rest with
      | tidS :: kind :: field :: _ =>
        match tidS.toNat? with
        | none => (.none, "MISMATCH bad tid")
        | some t =>
          if kind = "call" ∨ kind = "ret" ∨ kind = "note" then
            match Trace.acceptLine (Any.binding N) s rest with
            | .ok s' => (.any N s', "ok")
            | .error e => (.none, "MISMATCH " ++ e)
          else
          match implicitAny s t kind field with
          | .error e => (.none, "MISMATCH " ++ e)
          | .ok s1 =>
            match Trace.acceptLine (Any.binding N) s1 rest with
            | .ok s' => (.any N s', "ok")
            | .error e => (.none, "MISMATCH " ++ e)
      | _ => (.none, "MISMATCH short line")
  | _ => (st, "bad-op")

def plugAll : Plug := { σ := St, st := .none, step := step false }
def plugAny : Plug := { σ := St, st := .none, step := step true }

end Driver.PlugWhenComb
