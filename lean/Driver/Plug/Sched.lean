import Driver.Plugin
import DispensoVerif.Model.Sched
/-! dvdriver plug-in `sched`: replays a pool / task-set event trace through `Sched.step`. -/
namespace Driver.PlugSched
open Dispenso Dispenso.Sched

def b? (s : String) : Option Bool := match s with | "0" => some false | "1" => some true | _ => none

def parseEv (toks : List String) : Option Ev :=
  match toks with
  | ["call", "sched", st, id, fq] => do some (.callSched (← st.toNat?) (← id.toNat?) (← b? fq))
  | ["ret", "sched"] => some .retSched
  | ["call", "bulk", st, fq] => do some (.callBulk (← st.toNat?) (← b? fq))
  | ["gen", id] => do some (.gen (← id.toNat?))
  | ["ret", "bulk"] => some .retBulk
  | ["begin", id] => do some (.begin_ (← id.toNat?))
  | ["end", id] => do some (.end_ (← id.toNat?))
  | ["call", "wait", st] => do some (.callWait (← st.toNat?))
  | ["ret", "wait", st, d, e] => do some (.retWait (← st.toNat?) (← b? d) (← b? e))
  | ["call", "cancel", st] => do some (.callCancel (← st.toNat?))
  | ["ret", "cancel", st] => do some (.retCancel (← st.toNat?))
  | ["call", "resize"] => some .callResize
  | ["ret", "resize"] => some .retResize
  | ["call", "pooldtor"] => some .callPoolDtor
  | ["ret", "pooldtor"] => some .retPoolDtor
  | ["quiesce", v] => do some (.quiesce (← v.toInt?))
  | ["h", "pool.inline0"] => some .inline0
  | ["h", "pool.inline"] => some .inlinePool
  | ["h", "pool.count", d] => do some (.count (← d.toInt?))
  | ["h", "pool.push.central", n] => do some (.push central (← n.toNat?))
  | ["h", "pool.push.ring", n, r] => do some (.push (ringCode (← r.toNat?)) (← n.toNat?))
  | ["h", "pool.push.steal", n, r] => do some (.push (stealCode (← r.toNat?)) (← n.toNat?))
  | ["h", "pool.take.central"] => some (.take central)
  | ["h", "pool.take.ring", r] => do some (.take (ringCode (← r.toNat?)))
  | ["h", "pool.take.steal", r] => do some (.take (stealCode (← r.toNat?)))
  | ["h", "pool.ctor", n] => do some (.ctor (← n.toNat?))
  | ["h", "pool.rings", n] => do some (.rings (← n.toNat?))
  | ["h", "pool.resize.begin"] => some .resizeBegin
  | ["h", "pool.resize.end", n] => do some (.resizeEnd (← n.toNat?))
  | ["h", "pool.dtor.begin"] => some .dtorBegin
  | ["h", "pool.dtor.end"] => some .dtorEnd
  | ["h", "ts.inc", st, n] => do some (.tsInc (← st.toNat?) (← n.toNat?))
  | ["h", "ts.dec", st] => do some (.tsDec (← st.toNat?))
  | ["h", "ts.guard", st, c, site] => do some (.tsGuard (← st.toNat?) (← b? c) (← site.toNat?))
  | ["h", "ts.inline", st] => do some (.tsInline (← st.toNat?))
  | ["h", "ts.cancel", st] => do some (.tsCancel (← st.toNat?))
  | ["h", "ts.zero", st] => do some (.tsZero (← st.toNat?))
  | ["h", "ts.capture", st] => do some (.tsCapture (← st.toNat?))
  | ["h", "ts.rethrow", st] => do some (.tsRethrow (← st.toNat?))
  | _ => none

structure PSt where
  st : Option St := none
  failed : Bool := false

def showFrame (f : Frame) : String :=
  s!"kind={repr f.kind} set={f.set} id={f.id} fq={f.fq} resv={f.resv} credit={f.credit} tsCredit={f.tsCredit} unacc={f.unacc} pend={repr f.pend} pendDec={f.pendDec} guardOK={f.guardOK} zeroSeen={f.zeroSeen}"

def step (p : PSt) (toks : List String) : PSt × String :=
  match toks with
  | ["begin", n] =>
    match n.toNat? with
    | some k => ({ st := some (St.init k), failed := false }, "ok")
    | none => ({ p with failed := true }, "bad-params")
  | "T" :: _ :: "fence" :: _ => (p, if p.failed then "skip" else "ok")   -- thread fences are not ledger events
  | "T" :: tid :: rest =>
    if p.failed then (p, "skip") else
    match p.st, tid.toNat?, parseEv rest with
    | some s, some t, some e =>
      match Sched.step s t e with
      | some s' => ({ p with st := some s' }, "ok")
      | none =>
        ({ p with failed := true },
          s!"MISMATCH event not enabled in the ledger model; top frame of thread {t}: {showFrame (s.top t)}; tiers={s.tierItems} queuedSets={s.queuedSets} pending={s.pending} nThreads={s.nThreads} nRings={s.nRings} resizing={s.resizing} cancelled={s.cancelled} captured={s.captured}")
    | none, _, _ => ({ p with failed := true }, "MISMATCH no-session")
    | _, _, _ => ({ p with failed := true }, "MISMATCH unparsable event")
  | _ => (p, "bad-op")

def plug : Plug := { σ := PSt, st := {}, step := step }

end Driver.PlugSched
