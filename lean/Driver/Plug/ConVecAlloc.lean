import Driver.Plugin
import DispensoVerif.Model.ConVecAlloc
/-! `cvalloc` — capacity / allocation model of ConcurrentVector (white-box layer of C32).
    `cvalloc reset <strategy 0 full|1 half|2 asNeeded> <minShift> <kMaxBuffers> <table 0|1>`;
    `cvalloc <op> <args…>` (the operation lines of `convec`) → for the vector the operation acted on
    `shift size capacity bufsMask flagsMask startsMask | allocs frees elems leaked badFree` (the
    counters are totals over the pool), `- | …` when there is nothing to observe, `HANG`, `reject`. -/
namespace Driver.PlugConVecAlloc
open Dispenso Dispenso.ConVecAlloc

structure PSt where
  cfg : Cfg
  st : St

def parseOp (opn : String) (ns : List Int) : Option ConVec.Op :=
  let n (i : Int) : Nat := i.toNat
  match opn, ns with
  | "mk", [] => some .mk
  | "mkSize", [k] => some (.mkSize (n k))
  | "mkSizeVal", [k, x] => some (.mkSizeVal (n k) x)
  | "mkRange", xs => some (.mkRange xs)
  | "copyCtor", [a] => some (.copyCtor (n a))
  | "moveCtor", [a] => some (.moveCtor (n a))
  | "assign", [o, k, x] => some (.assign (n o) (n k) x)
  | "assignRange", o :: xs => some (.assignRange (n o) xs)
  | "pushBack", [o, x] => some (.pushBack (n o) x)
  | "growBy", [o, k] => some (.growBy (n o) (n k))
  | "growByVal", [o, k, x] => some (.growByVal (n o) (n k) x)
  | "growByRange", o :: xs => some (.growByRange (n o) xs)
  | "growToAtLeast", [o, k] => some (.growToAtLeast (n o) (n k))
  | "growToAtLeastVal", [o, k, x] => some (.growToAtLeastVal (n o) (n k) x)
  | "insert1", [o, i, x] => some (.insert1 (n o) (n i) x)
  | "insertN", [o, i, k, x] => some (.insertN (n o) (n i) (n k) x)
  | "insertRange", o :: i :: xs => some (.insertRange (n o) (n i) xs)
  | "erase1", [o, i] => some (.erase1 (n o) (n i))
  | "eraseRange", [o, i, j] => some (.eraseRange (n o) (n i) (n j))
  | "resize", [o, k] => some (.resize (n o) (n k))
  | "resizeVal", [o, k, x] => some (.resizeVal (n o) (n k) x)
  | "reserve", [o, k] => some (.reserve (n o) (n k))
  | "popBack", [o] => some (.popBack (n o))
  | "clear", [o] => some (.clear (n o))
  | "shrinkToFit", [o] => some (.shrinkToFit (n o))
  | "copyAssign", [a, b] => some (.copyAssign (n a) (n b))
  | "moveAssign", [a, b] => some (.moveAssign (n a) (n b))
  | "swap", [a, b] => some (.swap (n a) (n b))
  | "destroy", [o] => some (.destroy (n o))
  | "query", [o] => some (.query (n o))
  | "cmp", [a, b] => some (.cmp (n a) (n b))
  | _, _ => none

def totals (s : St) : String :=
  s!"| {totalAlloc s} {totalFree s} {totalElems s} {totalLeaked s} {totalBadFree s}"

def step (p : PSt) (toks : List String) : PSt × String :=
  match toks with
  | ["reset", st, ms, mb, tb] =>
    match st.toNat?, ms.toNat?, mb.toNat?, tb.toNat? with
    | some st, some ms, some mb, some tb =>
      if st > 2 ∨ tb > 1 then (p, "bad-op") else
      ({ cfg := { strat := if st = 0 then .full else if st = 1 then .half else .asNeeded, minShift := ms, mb := mb,
                  table := decide (tb = 1) }, st := St.init }, "ok")
    | _, _, _, _ => (p, "bad-op")
  | opn :: rest =>
    match rest.mapM String.toInt? with
    | none => (p, "bad-op")
    | some ns =>
      if ns.any (· < 0) then (p, "bad-op") else
      match parseOp opn ns with
      | none => (p, "bad-op")
      | some op =>
        let (s', r, hung) := ConVecAlloc.step p.cfg p.st op
        if hung then ({ p with st := s' }, "HANG") else
        match r with
        | none => (p, "reject")
        | some none => ({ p with st := s' }, "- " ++ totals s')
        | some (some id) =>
          match get s' id with
          | none => (p, "reject")
          | some v =>
            ({ p with st := s' },
             s!"{v.shift} {v.size} {capacity p.cfg.mb v} {mask p.cfg.mb v.bufs} {mask p.cfg.mb v.flags} {mask p.cfg.mb v.starts} "
               ++ totals s')
  | _ => (p, "bad-op")

def plug : Plug :=
  { σ := PSt, st := { cfg := { strat := .asNeeded, minShift := 0, mb := 2, table := false }, st := St.init }, step := step }

end Driver.PlugConVecAlloc
