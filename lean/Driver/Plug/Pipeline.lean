import Driver.Plugin
import DispensoVerif.Model.Pipeline
/-!
Trace acceptor for the pipeline model (C27/C28/C29).

`trace begin pipe <n> <pool> <genLimit> <lim1..limn> <filt1..filtn>` (limit 0 = unlimited), then the
events of one run of the real code under dsched: atomic operations on the named words
(`res<s>`, `out<s>`, `otc`, `guard`, `canc`) and the notes of the harness's stage functions
(`gb`, `ge <tag|-1|-2 tag>`, `b <s> <i> <ok>`, `e <s> <i> <r>`, `drop <i>`, `fin`, `gone`), closed by `end`.
The lines are buffered; at `end` the whole trace is replayed through `Pipe.step`:
every visible event must be the pending step of that thread in the model with the same values; steps
of the model that leave no event (queue operations, inline-or-package decisions, pops) are inserted
by this file — producing steps (enqueue, signal) right after the thread's previous event, consuming
steps (dequeue, take, wait) right before its next event, their outcome read off that next event.
This file only *chooses labels*; acceptance is `Pipe.step … = some _` for every label.
Reply at `end`: `ok` (accepted by the repaired model), `ok-variant <skip><dtor><guard><catch>` (accepted
only with the named original behaviours), or `MISMATCH …`.  Core Lean only.
-/
namespace Driver.PlugPipe
open Dispenso Dispenso.Pipe

structure Ev where
  tid : Nat
  kind : String
  fld : String := ""
  a : Int := 0     -- operand / first note argument
  b : Int := 0     -- result / second
  c : Int := 0     -- aux / third
  deriving Inhabited

structure PS where
  params : List String := []
  evs : Array Ev := #[]
  bad : Option String := none

def atomicKinds : List String := ["load", "store", "xchg", "fadd", "fsub", "cas_ok", "cas_fail"]

def parseEv (toks : List String) : Option Ev :=
  match toks with
  | tidS :: kind :: rest =>
    match tidS.toNat? with
    | none => none
    | some t =>
      if atomicKinds.contains kind then
        match rest with
        | [f, _, o, r, x] =>
          match o.toInt?, r.toInt?, x.toInt? with
          | some o, some r, some x => some { tid := t, kind := kind, fld := f, a := o, b := r, c := x }
          | _, _, _ => none
        | _ => none
      else
        match rest.mapM String.toInt? with
        | some [] => some { tid := t, kind := kind }
        | some [a] => some { tid := t, kind := kind, a := a }
        | some [a, b] => some { tid := t, kind := kind, a := a, b := b }
        | some (a :: b :: c :: _) => some { tid := t, kind := kind, a := a, b := b, c := c }
        | none => none
  | _ => none

def mkCfg (params : List String) (fx : Fix) : Option Cfg :=
  match params.mapM String.toNat? with
  | some (n :: pool :: gl :: rest) =>
    if rest.length = 2 * n ∧ 0 < n then
      let lims := rest.take n
      let fl := rest.drop n
      let g := if gl = 0 then pool else gl
      some { n := n, pool := pool, genInst := max 1 (min pool g)
             lim := fun s => if s = 0 ∨ s > n then some 1 else
               match lims[s - 1]? with | some 0 => none | some l => some l | none => some 1
             filt := fun s => if s = 0 ∨ s > n then false else
               match fl[s - 1]? with | some 0 => false | some _ => true | none => false
             fix := fx }
    else none
  | _ => none

def fldIs (e : Ev) (pre : String) (s : Nat) : Bool := e.fld == pre ++ toString s
def isOp (e : Ev) (k f : String) : Bool := e.kind == k && e.fld == f

/-- the stage whose pending bag contains item `i` -/
def stageOf (c : Cfg) (sh : Sh) (i : Nat) : Option Nat :=
  (List.range (c.n + 1)).find? fun s => decide (i ∈ sh.pend s)

/-- stage the inlined scheduler of a frame works for, and its pc -/
def helperOf : Frame → Option (Nat × HPc)
  | .gen _ (.down _ h) => some (1, h)
  | .qr s _ (.down h) => some (s + 1, h)
  | .ur s _ _ (.down h) => some (s + 1, h)
  | _ => none

/-- a silent step that is performed as soon as the thread reaches it -/
def eagerChoice (c : Cfg) (st : St) (t : Nat) : Option Choice :=
  match st.thr t with
  | .cs _ true :: _ => some .go
  | .tmp _ false :: _ => some .go
  | .tmp .gen true :: _ => some .go
  | .tmp (.q _) true :: _ => if c.fix.skip then none else some .go
  | .pkg .gen .dtor :: _ => some .go
  | .pkg (.q _) .skipQ :: _ => if c.fix.skip then none else some .go
  | .gen _ .fin :: _ => some .go
  | .exc _ :: g :: _ =>
    match g with
    | .qr _ _ .fin => some .go
    | .gen _ .chk => some .go
    | .tmp _ false => some .go
    | .tmp .gen true => some .go
    | .pkg _ (.dec _) => some .go
    | _ => none
  | [.exc _] => if t = 0 then some .go else none
  | f :: _ =>
    match helperOf f with
    | some (_, .enq) => some .go
    | _ => none
  | [] => none

/-- kind of the pool task whose wrapper starts with the event `load canc = cv`; `fut`: the thread's later events -/
def taskKind (c : Cfg) (sh : Sh) (cv : Bool) (fut : List Ev) : Except String Task :=
  if !cv then
    match fut with
    | e2 :: rest =>
      if e2.kind == "b" then .ok (.q e2.a.toNat)
      else if isOp e2 "load" "guard" then
        match rest with
        | e3 :: _ =>
          if e3.kind == "gb" then .ok .gen
          else if e3.kind == "b" then .ok (.u e3.a.toNat)
          else if e3.kind == "fsub" && e3.fld.startsWith "out" then
            match (e3.fld.drop 3).toNat? with
            | some s => .ok (.u s)
            | none => .error "bad out field"
          else .ok .gen
        | [] => .ok .gen
      else .error s!"cannot tell which task starts here (next event {e2.kind} {e2.fld})"
    | [] => .error "trace ends inside a task"
  else
    let pick (i : Nat) (isQ : Bool) : Except String Task :=
      match stageOf c sh i with
      | some s => .ok (if isQ then .q s else .u s)
      | none => .error s!"released item {i} is not pending anywhere"
    match fut with
    | e2 :: rest =>
      if e2.kind == "drop" then pick e2.a.toNat true
      else match rest with
        | e3 :: _ =>
          if e3.kind == "drop" then pick e3.a.toNat false
          else
            if sh.pool.contains .gen then .ok .gen
            else match (List.range (c.n + 1)).find? fun s => sh.pool.contains (.q s) with
              | some s => if c.fix.skip then .ok .gen else .ok (.q s)
              | none => .ok .gen
        | [] =>
          if sh.pool.contains .gen then .ok .gen
          else match (List.range (c.n + 1)).find? fun s => sh.pool.contains (.q s) with
            | some s => if c.fix.skip then .ok .gen else .ok (.q s)
            | none => .ok .gen
    | [] => .error "trace ends inside a task"

/-- a silent step to perform before the thread's next event `ev` is matched (`none`: the pending step is visible) -/
def lazyChoice (c : Cfg) (st : St) (t : Nat) (ev : Ev) (fut : List Ev) : Except String (Option Choice) :=
  let takeOr (other : Option Choice) : Except String (Option Choice) :=
    if isOp ev "load" "canc" then
      match taskKind c st.sh (ev.b != 0) fut with
      | .ok k => .ok (some (.take k))
      | .error e => .error e
    else .ok other
  match st.thr t with
  | [] =>
    if t = 0 then
      match st.sh.mpc with
      | .exec _ => .ok (some .go)
      | .compl => .ok (some .go)
      | .w s .dr => .ok (some (if ev.kind == "fsub" && fldIs ev "out" s then .deq else .deqFail))
      | .w s .l2 => .ok (some (if ev.kind == "fsub" && fldIs ev "res" s then .deq else .deqFail))
      | .w _ .ex => takeOr (some .takeFail)
      | .w _ .aqE => takeOr (some .takeFail)
      | .cts _ .c1 _ => takeOr (some .takeFail)
      | .dt s _ =>
        if st.sh.qn s = 0 then .ok (some .deqFail)
        else if ev.kind == "drop" then .ok (some .deq)
        else .error s!"~Impl of stage {s}: the model still has {st.sh.qn s} queued closure(s) that the code does not release"
      | _ => .ok none
    else takeOr none
  | .cs _ false :: _ =>
    if isOp ev "fadd" "otc" || isOp ev "load" "otc" || isOp ev "load" "canc" then .ok none else .ok (some .inl)
  | .qr s _ (.cb _) :: _ => .ok (some (if ev.kind == "fadd" && fldIs ev "res" s then .deqFail else .deq))
  | f :: _ =>
    match helperOf f with
    | some (s, .deq) => .ok (some (if ev.kind == "fadd" && fldIs ev "res" s then .deqFail else .deq))
    | _ => .ok none

def need (b : Bool) (why : String) (ch : Choice) : Except String (Option Choice) :=
  if b then .ok (some ch) else .error why

def showTop (st : St) (t : Nat) : String :=
  match st.thr t with
  | [] => if t = 0 then s!"main at {reprStr st.sh.mpc}" else "idle"
  | f :: _ => reprStr f

/-- the label of the visible step that the event `ev` of thread `t` is (`none`: the event has no step) -/
def visChoice (c : Cfg) (st : St) (t : Nat) (ev : Ev) (fut : List Ev) : Except String (Option Choice) :=
  let sh := st.sh
  let bad : Except String (Option Choice) :=
    .error s!"event {ev.kind} {ev.fld} {ev.a} {ev.b} {ev.c} of thread {t} does not match the model ({showTop st t})"
  let outEv (k : String) (s : Nat) : Bool := ev.kind == k && fldIs ev "out" s && ev.b == sh.out s
  let resEv (k : String) (s : Nat) : Bool := ev.kind == k && fldIs ev "res" s && ev.b == sh.res s
  let guardLoad : Bool := isOp ev "load" "guard" && ev.b == sh.guard
  let otcEv (k : String) : Bool := isOp ev k "otc" && ev.b == sh.otc
  let cancLoad : Bool := isOp ev "load" "canc" && (ev.b != 0) == sh.canceled
  let helper (s : Nat) (h : HPc) : Except String (Option Choice) :=
    match h with
    | .add => need (outEv "fadd" s) "outstanding_ increment" .go
    | .acq => need (resEv "fsub" s) "resources_ acquire" .go
    | .giveR => need (resEv "fadd" s) "resources_ give-back" .go
    | .giveF => need (resEv "fadd" s) "resources_ give-back" .go
    | _ => bad
  let stageEnd (s i : Nat) : Except String (Option Choice) :=
    if ev.kind == "e" && ev.a == s && ev.b == i then
      (if ev.c == 1 then .ok (some .pass) else if ev.c == 0 then .ok (some .filt) else if ev.c == 2 then .ok (some .throw) else bad)
    else bad
  let stageBegin (s : Nat) : Except String (Option Choice) :=
    if ev.kind == "b" && ev.a == s then
      (if ev.c == 1 then .ok (some (.begin ev.b.toNat)) else .error s!"stage {s} received a wrong value for item {ev.b}")
    else bad
  let dropEv : Except String (Option Choice) := if ev.kind == "drop" then .ok (some (.rel ev.a.toNat)) else bad
  match st.thr t with
  | [] =>
    if t = 0 then
      match sh.mpc with
      | .w s .l0 => need (outEv "load" s) "wait: outstanding_" .go
      | .w _ .l1 => need guardLoad "wait: hasException" .go
      | .w s .drDec => need (outEv "fsub" s) "wait: discard" .go
      | .w _ .drRel => dropEv
      | .w s .aq => need (resEv "fsub" s) "wait: acquire" .go
      | .w s .aqB => need (resEv "fadd" s) "wait: acquire give-back" .go
      | .w _ .aqC => need guardLoad "wait: hasException" .go
      | .w s .aqD => need (outEv "fsub" s) "wait: discard" .go
      | .w _ .aqR => dropEv
      | .cts _ .c0 _ => need (otcEv "load") "task set wait: count" .go
      | .cts _ .c2 _ => need (otcEv "load") "task set wait: count" .go
      | .cts _ .t0 _ => need guardLoad "testAndResetException" .go
      | .cts _ .t1 _ => need (isOp ev "store" "guard" && ev.a == 0) "exception reset" .go
      | .cts _ .t2 _ => need cancLoad "canceled_" .go
      | .dtR _ _ => dropEv
      | _ => bad
    else bad
  | .exc _ :: .ur s _ _ .fin :: _ => need (outEv "fsub" s) "unwinding: outstanding_" .go
  | .exc _ :: .tmp (.u _) true :: _ => dropEv
  | .cs _ false :: _ =>
    if isOp ev "fadd" "otc" then need (otcEv "fadd") "package: count" .pkg
    else if isOp ev "load" "otc" then (if ev.b == sh.otc then .ok none else bad)
    else if isOp ev "load" "canc" then
      if !cancLoad then bad
      else if ev.b == 0 then .ok none
      else
        -- canceled: this load is the one after which schedule() drops the task unless the thread goes on to
        -- load it again or to package the task
        match fut with
        | e2 :: _ => if isOp e2 "load" "canc" || isOp e2 "fadd" "otc" then .ok none else .ok (some .drop)
        | [] => .ok (some .drop)
    else bad
  | .pkg _ .chk :: _ => need cancLoad "packaged task: canceled_" .go
  | .pkg (.q _) .skipQ :: _ => dropEv
  | .pkg _ (.dec _) :: _ => need (otcEv "fsub") "packaged task: count" .go
  | .pkg (.u _) .dtor :: _ => dropEv
  | .tmp (.u _) true :: _ => dropEv
  | .tmp (.q _) true :: _ => dropEv
  | .ts _ .cas :: _ =>
    if isOp ev "cas_ok" "guard" then need (sh.guard == 0) "exception guard CAS succeeded" .go
    else if isOp ev "cas_fail" "guard" then need (sh.guard != 0 && ev.b == sh.guard) "exception guard CAS failed" .go
    else bad
  | .ts _ .st :: _ => need (isOp ev "store" "guard" && ev.a == 2) "exception guard set" .go
  | .ts _ .cn :: _ => need (isOp ev "store" "canc" && ev.a != 0) "canceled_ set" .go
  | .gen _ .chk :: _ => need guardLoad "generator: hasException" .go
  | .gen _ .call :: _ => need (ev.kind == "gb") "generator call" .go
  | .gen _ .in_ :: _ =>
    if ev.kind == "ge" then
      (if ev.a ≥ 0 then .ok (some (.item ev.a.toNat)) else if ev.a == -1 then .ok (some .done) else .ok (some (.gthr ev.b.toNat)))
    else bad
  | .qi s :: _ => stageBegin s
  | .qr s i .in_ :: _ => stageEnd s i
  | .qr s _ (.rel _) :: _ => need (resEv "fadd" s) "completion: release" .go
  | .qr s _ .relA :: _ => need (resEv "fadd" s) "resource guard" .go
  | .qr s _ .fin :: _ => need (outEv "fsub" s) "outstanding guard" .go
  | .ui _ _ .chk :: _ => need guardLoad "unlimited stage: hasException" .go
  | .ui s _ .beg :: _ => stageBegin s
  | .ui s _ .skipFin :: _ => need (outEv "fsub" s) "outstanding guard" .go
  | .ur s i _ .in_ :: _ => stageEnd s i
  | .ur s _ _ .fin :: _ => need (outEv "fsub" s) "outstanding guard" .go
  | f :: _ =>
    match helperOf f with
    | some (s, h) => helper s h
    | none => bad

/-- replay state: the model state and the labels of the steps taken so far (latest first) -/
structure RS where
  st : St
  labs : List (Nat × Choice) := []

def doStep (c : Cfg) (rs : RS) (t : Nat) (ch : Choice) : Except String RS :=
  match step c rs.st t ch with
  | some st' => .ok { st := st', labs := (t, ch) :: rs.labs }
  | none => .error s!"model step {reprStr ch} of thread {t} is not enabled ({showTop rs.st t})"

def runEager (c : Cfg) (rs : RS) (t : Nat) : Nat → Except String RS
  | 0 => .ok rs
  | fuel + 1 =>
    match eagerChoice c rs.st t with
    | some ch => match doStep c rs t ch with
      | .ok rs' => runEager c rs' t fuel
      | .error e => .error e
    | none => .ok rs

def runLazy (c : Cfg) (rs : RS) (t : Nat) (ev : Ev) (fut : List Ev) : Nat → Except String RS
  | 0 => .error "too many silent steps"
  | fuel + 1 =>
    match runEager c rs t 64 with
    | .error e => .error e
    | .ok rs1 =>
      match lazyChoice c rs1.st t ev fut with
      | .error e => .error e
      | .ok none => .ok rs1
      | .ok (some ch) =>
        match doStep c rs1 t ch with
        | .ok rs2 => runLazy c rs2 t ev fut fuel
        | .error e => .error e

/-- later events of thread `t` (at most 3) -/
def future (evs : Array Ev) (p : Nat) (t : Nat) : List Ev :=
  let rec go (k : Nat) (fuel : Nat) (acc : List Ev) : List Ev :=
    match fuel with
    | 0 => acc.reverse
    | fuel + 1 =>
      if acc.length ≥ 3 then acc.reverse else
      match evs[k]? with
      | none => acc.reverse
      | some e => if e.tid = t then go (k + 1) fuel (e :: acc) else go (k + 1) fuel acc
  go (p + 1) (evs.size - p) []

def inDtor : MPc → Bool
  | .dt _ _ => true
  | .dtR _ _ => true
  | .cts true _ _ => true
  | _ => false

def finished : MPc → Bool
  | .done _ => true
  | .term => true
  | _ => false

def idleStack : List Frame → Bool
  | [] => true
  | [.pkg _ .dtor] => true
  | _ => false

def oneEvent (c : Cfg) (rs : RS) (evs : Array Ev) (p : Nat) (ev : Ev) : Except String RS :=
  let t := ev.tid
  if t > c.pool then .error s!"event of unknown thread {t}" else
  if ev.kind == "copy" then .error s!"item {ev.a} was copied" else
  if ev.kind == "fin" then
    match runEager c rs 0 64 with
    | .ok rs1 => if inDtor rs1.st.sh.mpc && (rs1.st.thr 0).isEmpty then .ok rs1
                 else .error s!"execute()/wait() returned but the model is at {showTop rs1.st 0}"
    | .error e => .error e
  else if ev.kind == "gone" then
    if finished rs.st.sh.mpc && (rs.st.thr 0).isEmpty then .ok rs
    else .error s!"pipeline() is over but the model is at {showTop rs.st 0}"
  else
    match runLazy c rs t ev (future evs p t) 200 with
    | .error e => .error e
    | .ok rs1 =>
      match visChoice c rs1.st t ev (future evs p t) with
      | .error e => .error e
      | .ok none => .ok rs1
      | .ok (some ch) =>
        match doStep c rs1 t ch with
        | .error e => .error e
        | .ok rs2 => runEager c rs2 t 64

def replay (c : Cfg) (evs : Array Ev) : Except String RS :=
  let rec go (rs : RS) (p : Nat) (fuel : Nat) : Except String RS :=
    match fuel with
    | 0 => .ok rs
    | fuel + 1 =>
      match evs[p]? with
      | none => .ok rs
      | some ev =>
        match oneEvent c rs evs p ev with
        | .ok rs' => go rs' (p + 1) fuel
        | .error e => .error s!"at event {p} (T {ev.tid} {ev.kind} {ev.fld} {ev.a} {ev.b} {ev.c}): {e}"
  go { st := St.init c } 0 (evs.size + 1)

/-- final check of an accepted trace: the model's run is complete -/
def finalCheck (c : Cfg) (st : St) : Except String Unit :=
  if !(finished st.sh.mpc) then .error s!"trace ended but the model is at {showTop st 0}" else
  match (List.range (c.pool + 1)).find? fun t => !(idleStack (st.thr t)) with
  | some t => .error s!"trace ended but thread {t} of the model is still at {showTop st t}"
  | none => .ok ()

def nOn (f : Fix) : Nat := f.skip.toNat + f.dtor.toNat + f.guard.toNat + f.catch_.toNat

/-- all sixteen variants, the repaired model first, then those with fewest original behaviours -/
def fixes : List Fix :=
  let bs := [true, false]
  let all := bs.flatMap fun a => bs.flatMap fun b => bs.flatMap fun g => bs.map fun d => (⟨a, b, g, d⟩ : Fix)
  [4, 3, 2, 1, 0].flatMap fun k => all.filter fun f => nOn f == k

def b01 (b : Bool) : String := if b then "1" else "0"

def evaluate (ps : PS) : String :=
  match ps.bad with
  | some e => "MISMATCH " ++ e
  | none =>
    let tryFix (fx : Fix) : Except String Unit :=
      match mkCfg ps.params fx with
      | none => .error "bad-params"
      | some c =>
        match replay c ps.evs with
        | .error e => .error e
        | .ok rs => finalCheck c rs.st
    match tryFix Fix.all with
    | .ok () => "ok"
    | .error e0 =>
      match fixes.tail.find? fun fx => match tryFix fx with | .ok () => true | .error _ => false with
      | some fx => s!"ok-variant {b01 fx.skip}{b01 fx.dtor}{b01 fx.guard}{b01 fx.catch_} repaired-model-says: {e0}"
      | none =>
        match tryFix Fix.none with
        | .error e1 => "MISMATCH " ++ e0 ++ " || original-model-says: " ++ e1
        | .ok () => "MISMATCH " ++ e0

def stepP (ps : PS) (toks : List String) : PS × String :=
  match toks with
  | "begin" :: params => ({ params := params, evs := #[], bad := none }, if (mkCfg params Fix.all).isSome then "ok" else "bad-params")
  | "T" :: rest =>
    match rest with
    | _ :: "end" :: _ => ({}, evaluate ps)
    | _ :: "endlabels" :: _ =>
      -- (for writing examples) the labels of the model run that the repaired model takes on this trace
      match mkCfg ps.params Fix.all with
      | none => ({}, "bad-params")
      | some c =>
        match replay c ps.evs with
        | .error e => ({}, "MISMATCH " ++ e)
        | .ok rs => ({}, "labels " ++ ", ".intercalate (rs.labs.reverse.map fun (t, ch) => s!"({t}, {reprStr ch})"))
    | _ =>
      match parseEv rest with
      | some e => ({ ps with evs := ps.evs.push e }, "ok")
      | none => ({ ps with bad := some ("unparsable event: " ++ " ".intercalate rest) }, "ok")
  | _ => (ps, "bad-op")

def plug : Plug := { σ := PS, st := {}, step := stepP }

end Driver.PlugPipe
