import Driver.Plugin
import DispensoVerif.Model.ParForExec
import DispensoVerif.Core.Trace
/-! dvdriver plug-in `parforx` (C14): the execution model of one `parallel_for` call with states.

  `parforx st <cfg: bits sg start stop chunk maxThreads wait minItems g pool recursive> <prev> <reuse>
              <n> (s e stateIdx)*n`
      the body invocations of one call (sorted by chunk) with the index of the states element each
      one used; reply `S <size of the container after the call> ok` or `S <size> bad <why>`.
  `trace begin parforx <cfg…> <prev> <reuse>` then
      `T <tid> ticket <actor> <value> <mo>`  a `fetch_add(1)` on the shared chunk index (dynamic path)
      `T <tid> B <stateIdx> <s> <e>` / `T <tid> E <stateIdx>`   a body invocation begins / returns
      `T <tid> ret`      parallel_for returned        `T <tid> waited`  the task set's wait() returned
      `T <tid> size <n>` size of the container        `T <tid> end`     end of the trace
      Every line must be an enabled action (sequence) of `ParForExec.step`; the hidden steps
      (`exitAction` of a worker that is not the last one, leaving a static / stripe loop, the barrier)
      are taken at the latest point the code can take them. -/
namespace Driver.PlugParForExec
open Dispenso Dispenso.ParFor Dispenso.ParForExec

structure PS where
  active : Bool := false
  failed : Bool := false
  sys : Sys := { kind := .serial, W := 0, numChunks := 0, wait := true, hasTail := false }
  st : ParForExec.St := ParForExec.St.init
  chunks : List (Int × Int) := []
  tail : Option (Int × Int) := none
  running : List (Nat × Option Nat) := []    -- tid ↦ actor (none: the caller's runTail)
  sizeAfter : Nat := 0
  orderBad : Option String := none

def mkCfg : List Int → Option Cfg
  | [bits, sg, start, stop, chunk, mt, wait, minItems, g, pool, recur] =>
    let ty : Ty := Ty.mk bits.toNat (decide (sg ≠ 0))
    let chunk' := if chunk = -1 then ty.maxVal else chunk
    some (Cfg.mk ty start stop chunk' mt.toNat (decide (wait ≠ 0)) minItems.toNat g.toNat pool.toNat (decide (recur ≠ 0)))
  | _ => none

def setup (c : Cfg) (prev : Nat) (reuse : Bool) : PS :=
  let S := sysOf c
  let all := (plan c).chunks
  { active := true, sys := S, st := ParForExec.St.init,
    chunks := all.take S.numChunks,
    tail := if S.hasTail then all.getLast? else none,
    sizeAfter := statesAfter c prev reuse }

def act (ps : PS) (a : Act) : Except String PS :=
  match ParForExec.step ps.sys ps.st a with
  | some s' => .ok { ps with st := s' }
  | none => .error s!"model cannot take {reprStr a} (pc of actor: {match a with
      | .pick b _ | .begin b | .end_ b | .leave b | .exitStep b | .endTail b => reprStr (ps.st.pc b)
      | _ => "-"}, caller {reprStr ps.st.caller}, index {ps.st.index})"

def acts (ps : PS) : List Act → Except String PS
  | [] => .ok ps
  | a :: as => match act ps a with
    | .ok ps' => acts ps' as
    | .error e => .error e

/-- actors that are between invocations leave their loop (static: after their chunk; stripes: once
every chunk is claimed) -/
def finalize (ps : PS) : Except String PS :=
  if ps.sys.kind = .dynamic then .ok ps else
  (List.range ps.sys.W).foldlM (fun (p : PS) a =>
    if p.st.pc a = .ready then acts p [.leave a, .exitStep a] else .ok p) ps

def findIdx (l : List (Int × Int)) (x : Int × Int) : Option Nat :=
  let i := l.findIdx (· == x)
  if i < l.length then some i else none

def line (ps : PS) (toks : List String) : Except String PS :=
  match toks with
  | [tidS, "ticket", aS, kS, moS] =>
    -- only the single-group dynamic path has a shared chunk index; elsewhere the harness's candidate
    -- (a fetch_add(1) that happened to precede the first invocation) is not part of the model's vocabulary
    if ps.sys.kind ≠ .dynamic then .ok ps else
    match tidS.toNat?, aS.toNat?, kS.toNat?, moS.toNat? with
    | some _, some a, some k, some mo =>
      if k ≠ ps.st.index then .error s!"ticket {k} but the model's index is {ps.st.index}" else
      if k < ps.sys.numChunks then act ps (.pick a k) else
      -- with a single worker the tail is sequenced after its bodies on one thread
      let need : Nat := if ps.sys.tailByWorker ∧ 2 ≤ ps.sys.W then (if k = ps.sys.lastExit then 4 else 3) else 0
      let ps := if Trace.orderOK need mo then ps else
        { ps with orderBad := some s!"exit ticket {k} drawn with memory order {mo}, the tail's exclusive use of states[0] needs {need}" }
      if ps.sys.tailByWorker ∧ k = ps.sys.lastExit then act ps (.leave a) else acts ps [.leave a, .exitStep a]
    | _, _, _, _ => .error "bad ticket line"
  | [tidS, "B", stS, sS, eS] =>
    match tidS.toNat?, stS.toNat?, sS.toInt?, eS.toInt? with
    | some tid, some sti, some s, some e =>
      if ps.running.any (·.1 == tid) then .error s!"thread {tid} starts a body inside a body" else
      if ps.tail = some (s, e) then
        if sti ≠ 0 then .error s!"tail invocation on states[{sti}]" else
        if ps.sys.tailByWorker then
          match (List.range ps.sys.W).find? (fun a => ps.st.pc a == .exited ps.sys.lastExit) with
          | some a => (act ps (.exitStep a)).map fun p => { p with running := (tid, some a) :: p.running }
          | none => .error "tail invocation but no worker holds the last exit ticket"
        else
          match finalize ps with
          | .error er => .error er
          | .ok ps =>
            let r := if ps.st.caller = .running then acts ps [.barrier, .cBeginTail] else act ps .cBeginTail
            r.map fun p => { p with running := (tid, none) :: p.running }
      else
        match findIdx ps.chunks (s, e) with
        | none => .error s!"invocation [{s},{e}) is not a chunk of the plan"
        | some k =>
          let r := if ps.sys.kind = .dynamic then act ps (.begin sti) else acts ps [.pick sti k, .begin sti]
          match r with
          | .error er => .error er
          | .ok p =>
            if p.st.pc sti ≠ .body k then .error s!"actor {sti} begins chunk {k} but the model has it at {reprStr (p.st.pc sti)}"
            else .ok { p with running := (tid, some sti) :: p.running }
    | _, _, _, _ => .error "bad B line"
  | [tidS, "E", stS] =>
    match tidS.toNat?, stS.toNat? with
    | some tid, some sti =>
      match ps.running.find? (·.1 == tid) with
      | none => .error s!"thread {tid} ends a body it did not begin"
      | some (_, who) =>
        let ps := { ps with running := ps.running.filter (·.1 != tid) }
        match who with
        | none => if sti ≠ 0 then .error "caller tail state" else act ps .cEndTail
        | some a =>
          match ps.st.pc a with
          | .body _ =>
            if sti ≠ a then .error s!"actor {a} used states[{sti}]" else
            if ps.sys.kind = .static_ ∨ ps.sys.kind = .serial then acts ps [.end_ a, .leave a, .exitStep a]
            else act ps (.end_ a)
          | .tail => if sti ≠ 0 then .error "worker tail state" else act ps (.endTail a)
          | p => .error s!"end of a body but the model has actor {a} at {reprStr p}"
    | _, _ => .error "bad E line"
  | [_, "ret"] =>
    if ps.sys.wait then
      match finalize ps with
      | .error er => .error er
      | .ok ps =>
        let r := if ps.st.caller = .running then act ps .barrier else .ok ps
        match r with
        | .error er => .error er
        | .ok p => if p.st.caller = .returned then .ok p
                   else .error s!"parallel_for returned but the model's caller is at {reprStr p.st.caller}"
    else act ps .ret
  | [_, "waited"] =>
    match finalize ps with
    | .error er => .error er
    | .ok ps => act ps .waitDone
  | [_, "size", nS] =>
    match nS.toNat? with
    | some n => if n = ps.sizeAfter then .ok ps else .error s!"container size {n}, model {ps.sizeAfter}"
    | none => .error "bad size line"
  | [_, "end"] =>
    if ¬ ps.st.waited then .error "trace ended before the task set's wait() returned in the model" else
    match ps.orderBad with
    | some w => .error ("order: " ++ w)
    | none => .ok ps
  | _ => .error "unknown trace line"

/-- D protocol: chunk ↦ state index of one finished call -/
def checkStates (c : Cfg) (prev : Nat) (reuse : Bool) (obs : List (Int × Int × Int)) : String :=
  let ps := setup c prev reuse
  let S := ps.sys
  let size := ps.sizeAfter
  let expect : List (Int × Int) := ps.chunks ++ (match ps.tail with | some t => [t] | none => [])
  let bad (w : String) := s!"S {size} bad {w}"
  if obs.map (fun x => (x.1, x.2.1)) ≠ expect then bad "chunks" else
  let par := obs.take S.numChunks
  let tl := obs.drop S.numChunks
  if ¬ tl.all (fun x => x.2.2 == 0) then bad "tail-not-on-state-0" else
  if ¬ par.all (fun x => decide (0 ≤ x.2.2 ∧ x.2.2 < (S.W : Int) ∧ x.2.2 < (size : Int))) then bad "state-index-out-of-range" else
  if (S.kind = .static_ ∨ S.kind = .serial) ∧ par.map (fun x => x.2.2) ≠ (List.range S.numChunks).map (fun (i : Nat) => (i : Int)) then
    bad "static-chunk-state-map"
  else s!"S {size} ok"

def triples : List Int → Option (List (Int × Int × Int))
  | [] => some []
  | a :: b :: c :: rest => (triples rest).map fun l => (a, b, c) :: l
  | _ => none

def step (ps : PS) (toks : List String) : PS × String :=
  match toks with
  | "st" :: rest =>
    match Driver.ints' rest with
    | some l =>
      if l.length < 14 then (ps, "bad-op") else
      match mkCfg (l.take 11), l.drop 11 with
      | some c, prev :: reuse :: n :: obs =>
        match triples obs with
        | some tr => if tr.length = n.toNat then (ps, checkStates c prev.toNat (decide (reuse ≠ 0)) tr) else (ps, "bad-op")
        | none => (ps, "bad-op")
      | _, _ => (ps, "bad-op")
    | none => (ps, "bad-op")
  | "begin" :: rest =>
    match Driver.ints' rest with
    | some l =>
      match mkCfg (l.take 11), l.drop 11 with
      | some c, [prev, reuse] =>
        let p := setup c prev.toNat (decide (reuse ≠ 0))
        if p.sys.kind = .dynamicMG then ({}, "unsupported-kind") else (p, "ok")
      | _, _ => ({}, "bad-params")
    | none => ({}, "bad-params")
  | "T" :: rest =>
    if ¬ ps.active then (ps, "no-trace") else
    if ps.failed then (ps, "skip") else
    match line ps rest with
    | .ok p => (p, "ok")
    | .error e => ({ ps with failed := true }, "MISMATCH " ++ e)
  | _ => (ps, "bad-op")

def plug : Plug := { σ := PS, st := {}, step := step }

end Driver.PlugParForExec
