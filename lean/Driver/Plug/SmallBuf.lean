import Driver.Plugin
import DispensoVerif.Model.SmallBuf
/-!
dvdriver plug-in `smallbuf` (C41): the `SmallBufferAllocator` model driven
 * by sequential request lines of `harness/seq/c41_smallbuf.cpp` (`begin`, `ord`, `alloc`, `dealloc`,
   `bytes`, `exit`), replying what the model's allocator returns, and
 * by dsched traces of `harness/conc/c41_smallbuf_conc.cpp` (`T <tid> call|ret …` and the atomic
   events on the `backingStoreLock` word).
Every line is mapped to `SmallBuf.exec` actions of the *repaired* allocator (`fixed := true`).  The
only freedom the model has — which blocks `try_dequeue_bulk` returned — is taken from the
implementation (the thread's cache right after the refill) and checked by `exec` (`deq`: a sub-bag of
the central store of at most `I` blocks).  Queue operations are not visible in a trace; an enqueue is
executed with the preceding visible event of its thread (the call / the winning `fetch_add`), a
dequeue with the following one (the `ret`), which is a legal linearisation of a correct run.
-/
namespace Driver.PlugSmallBuf
open Dispenso Dispenso.SmallBuf

structure PSt where
  n : Nat := 0              -- kChunkSize of the class
  cfg : Cfg := { I := 1, P := 4, fixed := true, exitResets := true }
  st : St := St.init
  dead : Bool := true       -- no session / a mismatch was reported

def mkCfg (n : Nat) : Cfg := { I := idealTL n, P := perMalloc n, fixed := true, exitResets := true }

def pcOf (s : St) (t : TId) : PC :=
  match findT s t with
  | some x => x.pc
  | none => .idle

def cacheOf (s : St) (t : TId) : List Blk :=
  match findT s t with
  | some x => x.cache
  | none => []

def showL (l : List Nat) : String := " ".intercalate (l.map toString)

/-- run a list of actions; `none` if one is not enabled -/
def runA (c : Cfg) (s : St) (as : List Act) : Option St := SmallBuf.run c s as

abbrev R := Except String St

def need (c : Cfg) (s : St) (as : List Act) (why : String) : R :=
  match runA c s as with
  | some s' => .ok s'
  | none => .error why

/-- the steps of a thread that has just won the lock: malloc, push_back, enqueue (up to `gUnlock`) -/
def winnerSteps (t : TId) : List Act := [.step t, .step t, .step t, .step t]

/-- finish an `alloc` whose thread is at `aPop`: returns the block -/
def popRet (c : Cfg) (s : St) (t : TId) : Except String (St × Blk) :=
  match SmallBuf.exec c s (.step t) with
  | some s1 =>
    match pcOf s1 t with
    | .aRet b =>
      match SmallBuf.exec c s1 (.ret t) with
      | some s2 => .ok (s2, b)
      | none => .error "ret not enabled"
    | _ => .error "model did not reach aRet"
  | none => .error "model: alloc cannot pop (cache empty)"

/-- `alloc` by thread `t` where the implementation's refill (if any) produced cache `ids` (in order,
the returned block last); `g < 0`: no refill.  Returns the block the model hands out. -/
def seqAlloc (c : Cfg) (s : St) (t : TId) (ids : List Nat) : Except String (St × Blk) := do
  let s1 ← need c s [.call t .alloc, .step t] "alloc not enabled"
  match pcOf s1 t with
  | .aPop =>
    if ids ≠ [] then .error "implementation refilled although the model's cache is not empty"
    else popRet c s1 t
  | .gDeq =>
    if ids ≠ [] then
      let s2 ← need c s1 [.deq t ids] s!"try_dequeue_bulk result {ids} is not a sub-bag (≤ I) of the model's central store {s1.sh.central}"
      popRet c s2 t
    else
      -- nothing dequeued: the thread takes the lock and carves a new slab
      let s2 ← need c s1 [.deq t [], .step t] "fetch_add not enabled"
      if pcOf s2 t ≠ .gMalloc then .error "model: lock is held in a sequential history" else
      let s3 ← need c s2 (winnerSteps t ++ [.step t, .step t]) "carve steps not enabled"
      popRet c s3 t
  | _ => .error "model: unexpected control point after call alloc"

def seqDealloc (c : Cfg) (s : St) (t : TId) (b : Blk) : R := do
  let s1 ← need c s [.call t (.dealloc b), .step t] s!"dealloc {b}: not a block the model has handed out"
  let s2 ← if pcOf s1 t = .dRecycle then need c s1 [.step t] "recycle not enabled" else pure s1
  need c s2 [.ret t] "dealloc ret not enabled"

def seqBytes (c : Cfg) (s : St) (t : TId) : Except String (St × Nat) := do
  let s1 ← need c s [.call t .bytes, .step t, .step t, .step t] "bytesAllocated not enabled"
  match pcOf s1 t with
  | .bRet v =>
    let s2 ← need c s1 [.ret t] "ret"
    pure (s2, v)
  | _ => .error "model: bytesAllocated did not finish (lock held)"

/-! ### trace events -/

def orderAtLeastAcquire (mo : Nat) : Bool := mo = 2 || mo = 4 || mo = 5
def orderAtLeastRelease (mo : Nat) : Bool := mo = 3 || mo = 4 || mo = 5

def isLock (f : String) : Bool := f = "lock" || f = "lock+0"

def traceLine (p : PSt) (toks : List String) : Except String St :=
  let c := p.cfg
  let s := p.st
  match toks with
  | tidS :: kind :: rest =>
    match tidS.toNat? with
    | none => .error "bad tid"
    | some t =>
      if kind = "thread_start" ∨ kind = "thread_end" ∨ kind = "note" ∨ kind = "yield" ∨ kind = "fence" then .ok s else
      if kind = "call" then
        match rest with
        | ["alloc"] => need c s [.call t .alloc, .step t] "call alloc not enabled (thread busy or exited)"
        | ["dealloc", bS] =>
          match bS.toNat? with
          | none => .error "bad block id"
          | some b => do
            let s1 ← need c s [.call t (.dealloc b), .step t] s!"dealloc {b}: not a block the model has handed out"
            if pcOf s1 t = .dRecycle then need c s1 [.step t] "recycle not enabled" else pure s1
        | ["bytes"] => need c s [.call t .bytes] "call bytes not enabled"
        | ["exit"] => need c s [.exit t] "thread exit not enabled (thread inside a call or already exited)"
        | _ => .error "unknown call"
      else if kind = "ret" then
        match rest with
        | "alloc" :: bS :: gS :: idsS =>
          match bS.toNat?, gS.toInt?, idsS.mapM String.toNat? with
          | some b, some g, some ids =>
            let fin (s1 : St) : Except String St :=
              match popRet c s1 t with
              | .ok (s2, b') => if b' = b then .ok s2 else .error s!"alloc returned block {b}, model {b'}"
              | .error e => .error e
            match pcOf s t with
            | .aPop =>
              if g ≥ 0 then .error "implementation refilled although the model's cache is not empty" else fin s
            | .gDeq =>
              if g < 1 ∨ ids.length ≠ g.toNat then .error "alloc returned without refill but the model's cache is empty" else
              match runA c s [.deq t ids] with
              | some s1 => fin s1
              | none => .error s!"try_dequeue_bulk result {ids} is not a sub-bag (≤ I) of the model's central store {s.sh.central}"
            | .gFill =>
              match runA c s [.step t] with
              | some s1 =>
                if cacheOf s1 t ≠ ids then .error s!"cache after carving: impl {ids} model {cacheOf s1 t}" else fin s1
              | none => .error "gFill not enabled"
            | pc => .error s!"alloc returned but the model is at {reprStr pc}"
          | _, _, _ => .error "bad ret alloc"
        | ["dealloc", nS] =>
          match nS.toNat? with
          | none => .error "bad ret dealloc"
          | some n =>
            if pcOf s t ≠ .dRet then .error s!"dealloc returned but the model is at {reprStr (pcOf s t)}" else
            if (cacheOf s t).length ≠ n then .error s!"tlCount after dealloc: impl {n} model {(cacheOf s t).length}" else
            need c s [.ret t] "ret"
        | ["bytes", vS] =>
          match vS.toNat? with
          | none => .error "bad ret bytes"
          | some v =>
            match pcOf s t with
            | .bRet k =>
              if v = k * mallocBytes p.n then need c s [.ret t] "ret"
              else .error s!"bytesAllocated: impl {v} model {k * mallocBytes p.n}"
            | pc => .error s!"bytesAllocated returned but the model is at {reprStr pc}"
        | _ => .error "unknown ret"
      else
        match rest with
        | [fieldS, moS, operandS, resultS, auxS] =>
          if ¬ isLock fieldS then .error s!"unknown field {fieldS}" else
          match moS.toNat?, operandS.toInt?, resultS.toInt?, auxS.toInt? with
          | some mo, some operand, some result, some aux =>
            let lockV : Int := s.sh.lock
            if kind = "fadd" then
              if operand ≠ 1 then .error "fetch_add operand" else
              if ¬ orderAtLeastAcquire mo then .error s!"lock fetch_add declared with memory order {mo}, acquire required" else
              -- the dequeue that preceded it returned nothing
              let s0 := if pcOf s t = .gDeq then (runA c s [.deq t []]).getD s else s
              if pcOf s0 t ≠ .gFaa then .error s!"impl fetch_add on the lock, model at {reprStr (pcOf s t)}" else
              if result ≠ lockV then .error s!"fetch_add observed {result}, model lock {lockV}" else
              match runA c s0 [.step t] with
              | some s1 =>
                if pcOf s1 t = .gMalloc then need c s1 (winnerSteps t) "carve steps not enabled" else .ok s1
              | none => .error "fetch_add step not enabled"
            else if kind = "load" then
              if pcOf s t ≠ .gSpin then .error s!"impl load of the lock, model at {reprStr (pcOf s t)}" else
              if result ≠ lockV then .error s!"load observed {result}, model lock {lockV}" else
              need c s [.step t] "spin step"
            else if kind = "store" then
              if operand ≠ 0 then .error "store operand" else
              if ¬ orderAtLeastRelease mo then .error s!"lock release declared with memory order {mo}, release required" else
              match pcOf s t with
              | .gUnlock => need c s [.step t] "unlock"
              | .bUnlock _ => need c s [.step t] "unlock"
              | pc => .error s!"impl releases the lock, model at {reprStr pc} (not inside the critical section)"
            else if kind = "cas_ok" ∨ kind = "cas_fail" then
              match pcOf s t with
              | .bCas e =>
                if operand ≠ 1 then .error "CAS desired value" else
                if aux ≠ (e : Int) then .error s!"bytesAllocated CAS expected value: impl {aux} model {e}" else
                if result ≠ lockV then .error s!"CAS observed {result}, model lock {lockV}" else
                if kind = "cas_ok" then
                  if ¬ orderAtLeastAcquire mo then .error s!"lock CAS declared with memory order {mo}, acquire required" else
                  if s.sh.lock ≠ e then .error "CAS succeeded, model CAS fails" else
                  need c s [.step t, .step t] "cas_ok steps"
                else if s.sh.lock = e then need c s [.spur t] "spurious failure"
                else need c s [.step t] "cas_fail step"
              | pc => .error s!"impl CAS on the lock, model at {reprStr pc}"
            else .error s!"unexpected operation {kind} on the lock"
          | _, _, _, _ => .error "bad numbers"
        | _ => .error "bad event line"
  | _ => .error "short line"

def step (p : PSt) (toks : List String) : PSt × String :=
  match toks with
  | [op, nS] =>
    if op = "begin" ∨ op = "init" then
      match nS.toNat? with
      | some n =>
        if n = 0 then ({ p with dead := true }, "bad-op") else
        let c := mkCfg n
        ({ n := n, cfg := c, st := St.init, dead := false },
         if op = "init" then s!"ok {c.I} {maxTL n} {c.P} {mallocBytes n}" else "ok")
      | none => ({ p with dead := true }, "bad-op")
    else if op = "ord" then
      match nS.toNat? with
      | some n => (p, s!"{getOrdinal n} {classSize (getOrdinal n)}")
      | none => (p, "bad-op")
    else if op = "bytes" then
      if p.dead then (p, "dead") else
      match nS.toNat? with
      | some t =>
        match seqBytes p.cfg p.st t with
        | .ok (s', v) => ({ p with st := s' }, s!"{v * mallocBytes p.n}")
        | .error e => ({ p with dead := true }, "reject " ++ e)
      | none => (p, "bad-op")
    else if op = "exit" then
      if p.dead then (p, "dead") else
      match nS.toNat? with
      | some t =>
        match SmallBuf.exec p.cfg p.st (.exit t) with
        | some s' => ({ p with st := s' }, s!"{s'.sh.central.length}")
        | none => ({ p with dead := true }, "reject exit not enabled")
      | none => (p, "bad-op")
    else if op = "alloc" then
      if p.dead then (p, "dead") else
      match nS.toNat? with
      | some t =>
        match seqAlloc p.cfg p.st t [] with
        | .ok (s', b) =>
          ({ p with st := s' }, s!"{b} {(cacheOf s' t).length} {s'.sh.backing.length} {s'.sh.central.length}")
        | .error e => ({ p with dead := true }, "reject " ++ e)
      | none => (p, "bad-op")
    else (p, "bad-op")
  | "T" :: rest =>
    if p.dead then (p, "skip") else
    match traceLine p rest with
    | .ok s' => ({ p with st := s' }, "ok")
    | .error e => ({ p with dead := true }, "MISMATCH " ++ e)
  | "alloc" :: tS :: idsS =>
    if p.dead then (p, "dead") else
    match tS.toNat?, idsS.mapM String.toNat? with
    | some t, some ids =>
      match seqAlloc p.cfg p.st t ids with
      | .ok (s', b) =>
        ({ p with st := s' }, s!"{b} {(cacheOf s' t).length} {s'.sh.backing.length} {s'.sh.central.length}")
      | .error e => ({ p with dead := true }, "reject " ++ e)
    | _, _ => (p, "bad-op")
  | ["dealloc", tS, bS] =>
    if p.dead then (p, "dead") else
    match tS.toNat?, bS.toNat? with
    | some t, some b =>
      match seqDealloc p.cfg p.st t b with
      | .ok s' => ({ p with st := s' }, s!"{(cacheOf s' t).length} {s'.sh.central.length}")
      | .error e => ({ p with dead := true }, "reject " ++ e)
    | _, _ => (p, "bad-op")
  | _ => (p, "bad-op")

def plug : Plug := { σ := PSt, st := {}, step := step }

end Driver.PlugSmallBuf
