import Driver.Plugin
import DispensoVerif.Model.ResPool
/-!
dvdriver plug-in `respool` (C25): accepts the call/ret-level traces that
`harness/conc/c25_respool.cpp` records from the real `dispenso::ResourcePool` under the
deterministic scheduler and maps them to `ResPool.exec` actions.

  T <tid> call ctor <size> / call ctorT <rid> … / ret ctor
  T <tid> call acquire <h> / ret acquire <h> <rid>
  T <tid> call movector <h> <src> / ret movector
  T <tid> call moveassign <h> <src> / ret moveassign
  T <tid> call destroy <h> / ret destroy
  T <tid> call chk <h> <rid|-1>              (what `resource_` of handle `h` points to)
  T <tid> call dtor / call dtorT <rid> … / ret dtor

The queue and semaphore operations inside a call are not visible at this level: the steps of a
releasing call (enqueue, signal) are executed at its `call` event, the steps of an acquiring call
(semaphore wait, dequeue of the resource the implementation reports) at its `ret` event — a legal
linearisation of any correct run; an acquire that returns a resource the model does not have in its
queue, or returns when the model's semaphore count is zero, is a mismatch.
-/
namespace Driver.PlugResPool
open Dispenso Dispenso.ResPool

structure PSt where
  st : St := St.init 0
  dead : Bool := true

def pcOf (s : St) (t : TId) : Option PC := (findT s t).map (·.pc)

def need (s : St) (as : List Act) (why : String) : Except String St :=
  match ResPool.run s as with
  | some s' => .ok s'
  | none => .error why

/-- run the steps of a handle operation until it is about to return -/
def finishHandleOp (s : St) (t : TId) : Nat → Except String St
  | 0 => .error "handle operation does not terminate in the model"
  | fuel + 1 =>
    match pcOf s t with
    | some .hRet => .ok s
    | some _ =>
      match ResPool.exec s (.step t) with
      | some s' => finishHandleOp s' t fuel
      | none => .error "handle operation: step not enabled"
    | none => .error "no call in progress"

def traceLine (s : St) (toks : List String) : Except String St :=
  match toks with
  | tidS :: kind :: rest =>
    match tidS.toNat? with
    | none => .error "bad tid"
    | some t =>
      if kind = "call" then
        match rest with
        | ["ctor", nS] =>
          match nS.toNat? with
          | some n => if n = s.sh.size then need s [.call t .ctor] "constructor call not enabled" else .error "size differs from begin"
          | none => .error "bad size"
        | ["ctorT", rS] =>
          match rS.toNat? with
          | some r =>
            if pcOf s t ≠ some .cLoop then .error "resource constructed outside the pool constructor" else
            if r ≠ s.sh.made then .error s!"constructed resource {r}, model expects {s.sh.made}" else
            if s.sh.made ≥ s.sh.size then .error "more resources constructed than size" else
            need s [.step t] "constructor step not enabled"
          | none => .error "bad rid"
        | ["acquire", hS] =>
          match hS.toNat? with
          | some h => need s [.call t (.acquire h)] "acquire not enabled (pool not alive or handle id in use)"
          | none => .error "bad handle"
        | ["movector", hS, srcS] =>
          match hS.toNat?, srcS.toNat? with
          | some h, some src => need s [.call t (.moveCtor h src)] "move construction not enabled"
          | _, _ => .error "bad handle"
        | ["moveassign", hS, srcS] =>
          match hS.toNat?, srcS.toNat? with
          | some h, some src =>
            match need s [.call t (.moveAssign h src)] "move assignment not enabled" with
            | .ok s1 => finishHandleOp s1 t 8
            | .error e => .error e
          | _, _ => .error "bad handle"
        | ["destroy", hS] =>
          match hS.toNat? with
          | some h =>
            match need s [.call t (.destroy h)] "handle destruction not enabled" with
            | .ok s1 => finishHandleOp s1 t 8
            | .error e => .error e
          | none => .error "bad handle"
        | ["chk", hS, rS] =>
          match hS.toNat?, rS.toInt? with
          | some h, some r =>
            let m : Int := match holds s.sh h with
              | some e => (e.2 : Int)
              | none => -1
            if h ∉ s.sh.liveH then .error s!"handle {h} is not live in the model" else
            if m = r then .ok s else .error s!"handle {h} points to resource {r}, model {m}"
          | _, _ => .error "bad chk"
        | ["dtor"] => need s [.call t .dtor] "pool destructor called while resources are held or calls are in progress (harness contract)"
        | ["dtorT", rS] =>
          match rS.toNat? with
          | some r =>
            match pcOf s t with
            | some (.dSem _) =>
              match ResPool.run s [.step t] with
              | some s1 =>
                match ResPool.exec s1 (.deq t r) with
                | some s2 => .ok s2
                | none => .error s!"destructor destroyed resource {r} which is not in the model's queue {s1.sh.queue}"
              | none => .error "destructor would block in the model (semaphore count 0)"
            | _ => .error s!"resource {r} destroyed outside the pool destructor"
          | none => .error "bad rid"
        | _ => .error "unknown call"
      else if kind = "ret" then
        match rest with
        | ["ctor"] =>
          if pcOf s t ≠ some .cLoop then .error "ret ctor: model not in the constructor" else
          if s.sh.made ≠ s.sh.size then .error s!"constructor returned after {s.sh.made} of {s.sh.size} resources" else
          need s [.step t, .ret t] "constructor return not enabled"
        | ["acquire", hS, rS] =>
          match hS.toNat?, rS.toNat? with
          | some h, some r =>
            if pcOf s t ≠ some (.acqSem h) then .error "ret acquire: no matching call" else
            match ResPool.exec s (.step t) with
            | none => .error s!"acquire returned resource {r} but the model's semaphore count is 0 (queue {s.sh.queue}, held {s.sh.held})"
            | some s1 =>
              match ResPool.exec s1 (.deq t r) with
              | none => .error s!"acquire returned resource {r} which is not in the model's queue {s1.sh.queue} (held {s1.sh.held})"
              | some s2 => need s2 [.ret t] "ret"
          | _, _ => .error "bad ret acquire"
        | ["movector"] => if pcOf s t = some .hRet then need s [.ret t] "ret" else .error "ret movector: no matching call"
        | ["moveassign"] => if pcOf s t = some .hRet then need s [.ret t] "ret" else .error "ret moveassign: no matching call"
        | ["destroy"] => if pcOf s t = some .hRet then need s [.ret t] "ret" else .error "ret destroy: no matching call"
        | ["dtor"] =>
          match pcOf s t with
          | some (.dSem left) =>
            if left ≠ 0 then .error s!"destructor returned with {left} resources not destroyed" else
            need s [.step t, .ret t] "destructor return not enabled"
          | _ => .error "ret dtor: model not in the destructor"
        | _ => .error "unknown ret"
      else .ok s   -- atomic / fence / yield events of the queue internals are not interpreted
  | _ => .error "short line"

def step (p : PSt) (toks : List String) : PSt × String :=
  match toks with
  | ["begin", nS] =>
    match nS.toNat? with
    | some n => ({ st := St.init n, dead := false }, "ok")
    | none => ({ p with dead := true }, "bad-op")
  | "T" :: rest =>
    if p.dead then (p, "skip") else
    match traceLine p.st rest with
    | .ok s' => ({ p with st := s' }, "ok")
    | .error e => ({ p with dead := true }, "MISMATCH " ++ e)
  | _ => (p, "bad-op")

def plug : Plug := { σ := PSt, st := {}, step := step }

end Driver.PlugResPool
