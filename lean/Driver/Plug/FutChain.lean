import Driver.Plugin
import DispensoVerif.Model.FutChain
/-! Trace acceptor for the then-chain model (C19).  Events on the chain head carry pointer values,
    which the model does not have (it stores the code of the whole list): for this field the kind of
    the operation and the success / failure of every CAS must agree with the model, values are not
    compared.  A successful CAS of the code on a head whose value has been recycled (ABA: a freed
    link's address reused by a new link) corresponds to a failed CAS immediately followed by a
    successful retry in the model.  Everything else goes through `Trace.acceptLine`.
    Core Lean only. -/
namespace Driver.PlugFutChain
open Dispenso Dispenso.Conc Dispenso.FutChain

abbrev St := Option (State proto)

def chainLine (s : State proto) (t : TId) (kind : String) (mo : Nat) : Except String (State proto) :=
  let s := Trace.runSilent binding s t 64 true
  if s.parked t ≠ none then .error s!"thread {t} is parked in the model" else
  let need : Nat := if kind = "cas_fail" then binding.reqFailOrder (s.loc t) else binding.reqOrder (s.loc t)
  if ¬ Trace.orderOK need mo then .error s!"declared memory order {mo} weaker than the required {need}" else
  let stepIt (s : State proto) : Except String (State proto) :=
    match exec s (.step t) with
    | some s' => .ok (Trace.runSilent binding s' t 64)
    | none => .error "model step not enabled"
  match kind, proto.op (s.loc t) with
  | "load", some (.load 1) => stepIt s
  | "cas_fail", some (.cas 1 e _) =>
    if s.mem 1 = e then .error "impl CAS on the chain failed, the model's succeeds" else stepIt s
  | "cas_ok", some (.cas 1 e _) =>
    if s.mem 1 = e then stepIt s
    else
      -- recycled head value: fail once (the expected value becomes the current head), then succeed
      match exec s (.step t) with
      | none => .error "model step not enabled"
      | some s1 =>
        match proto.op (s1.loc t) with
        | some (.cas 1 e1 _) =>
          if s1.mem 1 = e1 then stepIt s1 else .error "impl CAS on the chain succeeded, the model's cannot"
        | _ => .error "impl CAS on the chain succeeded, the model's thread has given up"
  | k, o => .error s!"impl {k} chain, model pending {Trace.showOp o}"

def step (st : St) (toks : List String) : St × String :=
  match toks with
  | "begin" :: _ => (some init, "ok")
  | "T" :: rest =>
    match st with
    | none => (none, "skip")
    | some s =>
      match rest with
      | tidS :: kind :: "chain" :: moS :: _ =>
        match tidS.toNat? with
        | none => (none, "MISMATCH bad tid")
        | some t =>
          match chainLine s t kind (moS.toNat?.getD 0) with
          | .ok s' => (some s', "ok")
          | .error e => (none, "MISMATCH " ++ e)
      | _ =>
        match Trace.acceptLine binding s rest with
        | .ok s' => (some s', "ok")
        | .error e => (none, "MISMATCH " ++ e)
  | _ => (st, "bad-op")

def plug : Plug := { σ := St, st := none, step := step }

end Driver.PlugFutChain
