import Driver.Plugin
import DispensoVerif.Model.ParInvoke
/-! dvdriver plug-in `pinvoke` (C16): trace acceptor for `parallel_invoke` programs.

  `trace begin pinvoke <n> (<path> <arity>)*n`   the nodes that call parallel_invoke (path `-` = the
        top-level call, otherwise child indices joined by `.`); every other node is a leaf functor
  `T <tid> B <path>` / `T <tid> E <path>`   functor `<path>` is invoked on / returns on thread `<tid>`
  `T <tid> ret`      the top-level parallel_invoke returned      `T <tid> waited`  tasks.wait() returned
  `T <tid> end`
  The `schedule` calls themselves are not visible in a trace; the acceptor takes a `queue` step for a
  functor at the latest point the code can have taken it (when a later functor of the same call is
  seen, or when the functor itself starts on another thread). -/
namespace Driver.PlugParInvoke
open Dispenso Dispenso.ParInvoke

structure PS where
  active : Bool := false
  failed : Bool := false
  prog : List (Path × Nat) := []
  st : ParInvoke.St := ParInvoke.St.init

def PS.P (ps : PS) : Path → Nat := fun p => match ps.prog.find? (·.1 == p) with
  | some (_, n) => n
  | none => 0

def parsePath (s : String) : Option Path :=
  if s = "-" then some [] else (s.splitOn ".").mapM String.toNat?

def act (ps : PS) (a : Act) : Except String PS :=
  match ParInvoke.step ps.P ps.st a with
  | some s' => .ok { ps with st := s' }
  | none => .error s!"model cannot take {reprStr a}"

/-- `schedule` calls of node `p` for the functors before index `upto` that the trace has not shown yet -/
def queueUpTo (ps : PS) (p : Path) (upto : Nat) : Nat → Except String PS
  | 0 => .ok ps
  | fuel + 1 =>
    if ps.st.k p < upto then
      match act ps (.queue p) with
      | .ok ps' => queueUpTo ps' p upto fuel
      | .error e => .error e
    else .ok ps

def line (ps : PS) (toks : List String) : Except String PS :=
  match toks with
  | [tidS, "B", pathS] =>
    match tidS.toNat?, parsePath pathS with
    | some tid, some c =>
      match c.getLast? with
      | none => .error "the top-level call site is not a functor"
      | some i =>
        let p := c.dropLast
        match ps.st.status c with
        | .queued => act ps (.take c tid)
        | .untouched =>
          if ps.st.status p ≠ .running then .error s!"functor {pathS} starts but its call site is not running" else
          if tid = ps.st.thr p then
            match queueUpTo ps p i (i + 1) with
            | .error e => .error e
            | .ok ps1 =>
              match act ps1 (.runInline p) with
              | .error e => .error e
              | .ok ps2 => if ps2.st.status c = .running then .ok ps2 else .error s!"functor {pathS} is not the next one of its call"
          else
            match queueUpTo ps p (i + 1) (i + 2) with
            | .error e => .error e
            | .ok ps1 => act ps1 (.take c tid)
        | _ => .error s!"functor {pathS} invoked again"
    | _, _ => .error "bad B line"
  | [tidS, "E", pathS] =>
    match tidS.toNat?, parsePath pathS with
    | some tid, some c =>
      if ps.st.status c ≠ .running then .error s!"functor {pathS} returns but is not running in the model" else
      if ps.st.thr c ≠ tid then .error s!"functor {pathS} returns on thread {tid}, began on {ps.st.thr c}" else
      if ps.st.asTask c then act ps (.finishTask c) else act ps (.finishInline c.dropLast)
    | _, _ => .error "bad E line"
  | [_, "ret"] => act ps (.finishTask [])
  | [_, "waited"] => act ps .waitDone
  | [_, "end"] => if ps.st.waited then .ok ps else .error "trace ended before wait() returned in the model"
  | _ => .error "unknown trace line"

def parseProg : List String → Option (List (Path × Nat))
  | [] => some []
  | ps :: n :: rest =>
    match parsePath ps, n.toNat?, parseProg rest with
    | some p, some k, some l => some ((p, k) :: l)
    | _, _, _ => none
  | _ => none

def step (ps : PS) (toks : List String) : PS × String :=
  match toks with
  | "begin" :: n :: rest =>
    match n.toNat?, parseProg rest with
    | some k, some l => if l.length = k then ({ active := true, prog := l }, "ok") else ({}, "bad-params")
    | _, _ => ({}, "bad-params")
  | "T" :: rest =>
    if ¬ ps.active then (ps, "no-trace") else
    if ps.failed then (ps, "skip") else
    match line ps rest with
    | .ok p => (p, "ok")
    | .error e => ({ ps with failed := true }, "MISMATCH " ++ e)
  | _ => (ps, "bad-op")

def plug : Plug := { σ := PS, st := {}, step := step }

end Driver.PlugParInvoke
