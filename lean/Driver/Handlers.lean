import DispensoVerif.Model.Chunk
import DispensoVerif.Model.Bits
import DispensoVerif.Model.Event
import DispensoVerif.Model.AsyncReq
import DispensoVerif.Model.Spsc
import DispensoVerif.Model.Mpmc
import DispensoVerif.Model.ChaseLev
import DispensoVerif.Model.RWLock
import DispensoVerif.Model.DistRWLock
import DispensoVerif.Model.ThreadId
import DispensoVerif.Model.OpResult
import DispensoVerif.Model.SmallVec
import DispensoVerif.Model.OnceFn
import DispensoVerif.Model.ConVec
import DispensoVerif.Model.Arena
import DispensoVerif.Model.ParFor
import DispensoVerif.Model.ForEach
import DispensoVerif.Model.PoolAlloc
import DispensoVerif.Model.CpuSet
import DispensoVerif.Model.Graph
import Driver.Plugins

/-! Handlers of the dvdriver line protocol. Core Lean only. -/
namespace Driver

open Dispenso

/-- a trace-validation session: the model state of the protocol being validated -/
inductive Sess where
  | none
  | failed
  | event (s : Conc.State Event.proto)
  | asyncreq (s : Conc.State AsyncReq.proto)
  | spsc (K : Nat) (s : Conc.State (Spsc.proto K))
  | mpmc (K : Nat) (s : Conc.State (Mpmc.proto K))
  | chaselev (C : Nat) (sb : Nat) (s : Conc.State (ChaseLev.proto C))
  | rwlock (s : Conc.State RWLock.proto)
  | threadid (s : Conc.State ThreadId.proto)
  | arena (B : Nat) (s : Conc.State (Arena.proto B))
  | palloc (s : Conc.State PoolAlloc.proto)
  | distrw (N : Nat) (s : Conc.State (DistRWLock.proto N))
  | plug (name : String)

structure St where
  sess : Sess := .none
  opres : OpResult.St := OpResult.St.init
  svec : SmallVec.St := SmallVec.St.init 4
  oncefn : OnceFn.St := OnceFn.St.init
  convec : ConVec.St := ConVec.St.init
  arena : Arena.Seq.St := Arena.Seq.St.init
  palloc : PoolAlloc.Seq.St := PoolAlloc.Seq.St.init 1
  cpuset : CpuSet.Set := []
  graph : Graph.G := Graph.G.init false
  plugs : List (String × Plug) := plugins

def St.init : St := {}

def ints (l : List String) : Option (List Int) := l.mapM String.toInt?
def nats (l : List String) : Option (List Nat) := l.mapM String.toNat?

def showInts (l : List Int) : String := " ".intercalate (l.map toString)

/-- C17 static chunking -/
def chunkH (args : List String) : String :=
  match args with
  | op :: rest =>
    match op, ints rest with
    | "scs", some [items, chunks] =>
      if chunks ≤ 0 then "reject" else
      let r := Chunk.staticChunkSize items chunks
      showInts [r.transitionTaskIndex, r.ceilChunkSize]
    | "scsg", some [items, chunks, g] =>
      if chunks ≤ 0 ∨ g < 1 then "reject" else
      let r := Chunk.staticChunkSizeGranular items chunks g
      showInts [r.transitionTaskIndex, r.ceilChunkSize]
    | "map", some [s, e, n, g, idx] =>
      let m := Chunk.mkMapper s e n g
      showInts [m.start idx, m.stop idx]
    | "feo", some [n, nt, idx] =>
      let r := Chunk.forEachOffset n nt idx
      showInts [r.1, r.2]
    | _, _ => "bad-op"
  | _ => "bad-op"

/-- C44 bit math -/
def bitsH (args : List String) : String :=
  match args with
  | op :: rest =>
    match op, nats rest with
    | "np2", some [v] => toString (Bits.nextPow2 (BitVec.ofNat 64 v)).toNat
    | "l2c64", some [v] => toString (Bits.log2const64 (BitVec.ofNat 64 v)).toNat
    | "l2c32", some [v] => toString (Bits.log2const32 (BitVec.ofNat 32 v)).toNat
    | "log2", some [v] => if v = 0 then "reject" else toString (Bits.log2Spec v)
    | "ctz", some [v] => if v = 0 then "reject" else toString (Bits.ctzSpec 64 v)
    | "pop", some [v] => toString (Bits.popcountSpec 64 v)
    | "a2c", some [v] => toString (Bits.alignToCacheLine (BitVec.ofNat 64 v)).toNat
    | "amal", some [b, a] =>
      let r := Bits.alignedMallocAddr (BitVec.ofNat 64 b) (BitVec.ofNat 64 a)
      s!"{r.1.toNat} {r.2.toNat}"
    | _, _ => "bad-op"
  | _ => "bad-op"

/-- C40 OpResult: `opres reset` | `opres <op> <args…>`; reply `engaged value live` or `reject` -/
def opresH (st : St) (args : List String) : St × String :=
  match args with
  | ["reset"] => ({ st with opres := OpResult.St.init }, "ok")
  | opn :: rest =>
    match nats rest with
    | none => (st, "bad-op")
    | some ns =>
      let op? : Option OpResult.Op := match opn, ns with
        | "mkEmpty", [] => some .mkEmpty
        | "mkVal", [v] => some (.mkVal v)
        | "copyCtor", [a] => some (.copyCtor a)
        | "moveCtor", [a] => some (.moveCtor a)
        | "copyAssign", [a, b] => some (.copyAssign a b)
        | "moveAssign", [a, b] => some (.moveAssign a b)
        | "emplace", [a, v] => some (.emplace a v)
        | "destroy", [a] => some (.destroy a)
        | "query", [a] => some (.query a)
        | _, _ => none
      match op? with
      | none => (st, "bad-op")
      | some op =>
        let (s', o) := OpResult.step st.opres op
        ({ st with opres := s' }, match o with
          | some (e, v, l) => s!"{e} {v} {l}"
          | none => "reject")
  | _ => (st, "bad-op")

/-- C38 SmallVector: `svec reset N` | `svec <op> <args…>`; reply `size cap live items…` or `reject` -/
def svecH (st : St) (args : List String) : St × String :=
  match args with
  | ["reset", n] => match n.toNat? with
    | some N => ({ st with svec := SmallVec.St.init N }, "ok")
    | none => (st, "bad-op")
  | opn :: rest =>
    match ints rest with
    | none => (st, "bad-op")
    | some ns =>
      let op? : Option SmallVec.Op := match opn, ns with
        | "mk", [] => some .mk
        | "mkCount", [n, x] => some (.mkCount n.toNat x)
        | "copyCtor", [a] => some (.copyCtor a.toNat)
        | "moveCtor", [a] => some (.moveCtor a.toNat)
        | "copyAssign", [a, b] => some (.copyAssign a.toNat b.toNat)
        | "moveAssign", [a, b] => some (.moveAssign a.toNat b.toNat)
        | "pushBack", [a, x] => some (.pushBack a.toNat x)
        | "popBack", [a] => some (.popBack a.toNat)
        | "resize", [a, n, x] => some (.resize a.toNat n.toNat x)
        | "reserve", [a, n] => some (.reserve a.toNat n.toNat)
        | "clear", [a] => some (.clear a.toNat)
        | "erase", [a, i] => some (.erase a.toNat i.toNat)
        | "destroy", [a] => some (.destroy a.toNat)
        | "query", [a] => some (.query a.toNat)
        | _, _ => none
      match op? with
      | none => (st, "bad-op")
      | some op =>
        let (s', o) := SmallVec.step st.svec op
        ({ st with svec := s' }, match o with
          | some r => s!"{r.size} {r.cap} {r.live}" ++ (r.items.foldl (fun acc x => acc ++ " " ++ toString x) "")
          | none => "reject")
  | _ => (st, "bad-op")

/-- C39 OnceFunction: `oncefn reset` | `oncefn <op> <args…>`;
    reply `inline allocSize called destroyed blocks` or `reject`; `oncefn ord <blockSize>` → ordinal -/
def oncefnH (st : St) (args : List String) : St × String :=
  match args with
  | ["reset"] => ({ st with oncefn := OnceFn.St.init }, "ok")
  | opn :: rest =>
    match nats rest with
    | none => (st, "bad-op")
    | some ns =>
      if opn = "ord" then
        match ns with
        | [b] => (st, toString (OnceFn.getOrdinal b))
        | _ => (st, "bad-op")
      else
      let op? : Option OnceFn.Op := match opn, ns with
        | "create", [sz, al] => some (.create sz al)
        | "mkEmpty", [] => some .mkEmpty
        | "moveCtor", [a] => some (.moveCtor a)
        | "moveAssign", [a, b] => some (.moveAssign a b)
        | "invoke", [a] => some (.invoke a)
        | "cleanup", [a] => some (.cleanup a)
        | "drop", [a] => some (.drop a)
        | _, _ => none
      match op? with
      | none => (st, "bad-op")
      | some op =>
        let (s', o) := OnceFn.step st.oncefn op
        ({ st with oncefn := s' }, match o with
          | some (i, a, c, d, b) => s!"{i} {a} {c} {d} {b}"
          | none => "reject")
  | _ => (st, "bad-op")

/-- C32 ConcurrentVector: `convec reset` | `convec <op> <args…>`; reply `size pos live items…`;
    `convec bidx s index` → `bucket bucketIndex bucketCapacity` -/
def convecH (st : St) (args : List String) : St × String :=
  match args with
  | ["reset"] => ({ st with convec := ConVec.St.init }, "ok")
  | opn :: rest =>
    match ints rest with
    | none => (st, "bad-op")
    | some ns =>
      if opn = "bidx" then
        match ns with
        | [s, i] => let b := ConVec.bucketAndSubIndex s.toNat i.toNat
                    (st, s!"{b.bucket} {b.bucketIndex} {b.bucketCapacity}")
        | _ => (st, "bad-op")
      else
      let n (i : Int) : Nat := i.toNat
      let op? : Option ConVec.Op := match opn, ns with
        | "mk", [] => some .mk
        | "mkSize", [k] => some (.mkSize (n k))
        | "mkSizeVal", [k, x] => some (.mkSizeVal (n k) x)
        | "mkRange", xs => some (.mkRange xs)
        | "copyCtor", [a] => some (.copyCtor (n a))
        | "moveCtor", [a] => some (.moveCtor (n a))
        | "assign", [o, k, x] => some (.assign (n o) (n k) x)
        | "assignRange", o :: xs => some (.assignRange (n o) xs)
        | "pushBack", [o, x] => some (.pushBack (n o) x)
        | "growBy", [o, k] => some (.growBy (n o) (n k))
        | "growByVal", [o, k, x] => some (.growByVal (n o) (n k) x)
        | "growByRange", o :: xs => some (.growByRange (n o) xs)
        | "growToAtLeast", [o, k] => some (.growToAtLeast (n o) (n k))
        | "growToAtLeastVal", [o, k, x] => some (.growToAtLeastVal (n o) (n k) x)
        | "insert1", [o, i, x] => some (.insert1 (n o) (n i) x)
        | "insertN", [o, i, k, x] => some (.insertN (n o) (n i) (n k) x)
        | "insertRange", o :: i :: xs => some (.insertRange (n o) (n i) xs)
        | "erase1", [o, i] => some (.erase1 (n o) (n i))
        | "eraseRange", [o, i, j] => some (.eraseRange (n o) (n i) (n j))
        | "resize", [o, k] => some (.resize (n o) (n k))
        | "resizeVal", [o, k, x] => some (.resizeVal (n o) (n k) x)
        | "reserve", [o, k] => some (.reserve (n o) (n k))
        | "popBack", [o] => some (.popBack (n o))
        | "clear", [o] => some (.clear (n o))
        | "shrinkToFit", [o] => some (.shrinkToFit (n o))
        | "copyAssign", [a, b] => some (.copyAssign (n a) (n b))
        | "moveAssign", [a, b] => some (.moveAssign (n a) (n b))
        | "swap", [a, b] => some (.swap (n a) (n b))
        | "destroy", [o] => some (.destroy (n o))
        | "query", [o] => some (.query (n o))
        | "cmp", [a, b] => some (.cmp (n a) (n b))
        | _, _ => none
      match op? with
      | none => (st, "bad-op")
      | some op =>
        let (s', o) := ConVec.step st.convec op
        ({ st with convec := s' }, match o with
          | some r => s!"{r.size} {r.pos} {r.live}" ++ (r.items.foldl (fun acc x => acc ++ " " ++ toString x) "")
          | none => "reject")
  | _ => (st, "bad-op")

/-- C37 arena (sequential layer): `arenaseq reset` | `arenaseq <op> <args…>`;
    reply `size cap nbuf ret lastBuf items…` -/
def arenaH (st : St) (args : List String) : St × String :=
  match args with
  | ["reset"] => ({ st with arena := Arena.Seq.St.init }, "ok")
  | opn :: rest =>
    match ints rest with
    | none => (st, "bad-op")
    | some ns =>
      let n (i : Int) : Nat := i.toNat
      let op? : Option Arena.Seq.Op := match opn, ns with
        | "mk", [m, i] => some (.mk (n m) (n i))
        | "growBy", [o, d] => some (.growBy (n o) (n d))
        | "set", [o, i, v] => some (.set (n o) (n i) v)
        | "copyCtor", [a] => some (.copyCtor (n a))
        | "moveCtor", [a] => some (.moveCtor (n a))
        | "copyAssign", [a, b] => some (.copyAssign (n a) (n b))
        | "moveAssign", [a, b] => some (.moveAssign (n a) (n b))
        | "swap", [a, b] => some (.swap (n a) (n b))
        | "destroy", [o] => some (.destroy (n o))
        | "query", [o] => some (.query (n o))
        | _, _ => none
      match op? with
      | none => (st, "bad-op")
      | some op =>
        let (s', o) := Arena.Seq.step st.arena op
        ({ st with arena := s' }, match o with
          | some r => s!"{r.size} {r.cap} {r.nbuf} {r.ret} {r.lastBuf}" ++ (r.items.foldl (fun acc x => acc ++ " " ++ toString x) "")
          | none => "reject")
  | _ => (st, "bad-op")

/-- C12/C13/C48 parallel_for plan:
    `parfor bits signed start stop chunk maxThreads wait minItems g pool recursive`
    reply: `T <n> s1 e1 … sn en` with the chunks sorted by (start, end);
    `parforplan …` (same arguments) replies `<mode> <tasks> <tailConcurrent>` -/
def sortChunks (l : List (Int × Int)) : List (Int × Int) :=
  (l.toArray.qsort fun a b => a.1 < b.1 ∨ (a.1 = b.1 ∧ a.2 < b.2)).toList

def parforH (args : List String) : String :=
  match ints args with
  | some [bits, sg, start, stop, chunk, mt, wait, minItems, g, pool, recur] =>
    let ty : ParFor.Ty := ParFor.Ty.mk bits.toNat (decide (sg ≠ 0))
    let chunk' := if chunk = -1 then ty.maxVal else chunk
    let c : ParFor.Cfg := ParFor.Cfg.mk ty start stop chunk' mt.toNat (decide (wait ≠ 0)) minItems.toNat g.toNat
      pool.toNat (decide (recur ≠ 0))
    let p := ParFor.plan c
    let cs := sortChunks p.chunks
    s!"T {cs.length}" ++
      (cs.foldl (fun acc x => acc ++ " " ++ toString x.1 ++ " " ++ toString x.2) "")
  | _ => "bad-op"

/-- C15 for_each plan: `foreach n maxThreads wait pool recursive` → `T k off1 size1 …` (non-empty chunks) -/
def foreachH (args : List String) : String :=
  match ints args with
  | some [n, mt, wait, pool, recur] =>
    let p := ForEach.plan n mt.toNat (decide (wait ≠ 0)) pool (decide (recur ≠ 0))
    let cs := p.chunks.filter fun c => decide (c.2 > 0)
    s!"T {cs.length}" ++ (cs.foldl (fun acc x => acc ++ " " ++ toString x.1 ++ " " ++ toString x.2) "")
  | _ => "bad-op"

/-- C42 PoolAllocator (sequential layer): `pallocseq reset k` | `pallocseq alloc|dealloc s i|clear|destroy`;
    reply `slab idx allocCalls deallocCalls capacity` -/
def pallocH (st : St) (args : List String) : St × String :=
  match args with
  | ["reset", k] => match k.toNat? with
    | some kk => ({ st with palloc := PoolAlloc.Seq.St.init kk }, "ok")
    | none => (st, "bad-op")
  | opn :: rest =>
    match nats rest with
    | none => (st, "bad-op")
    | some ns =>
      let op? : Option PoolAlloc.Seq.Op := match opn, ns with
        | "alloc", [] => some .alloc
        | "dealloc", [a, b] => some (.dealloc a b)
        | "clear", [] => some .clear
        | "destroy", [] => some .destroy
        | _, _ => none
      match op? with
      | none => (st, "bad-op")
      | some op =>
        let (s', o) := PoolAlloc.Seq.step st.palloc op
        ({ st with palloc := s' }, match o with
          | some r => s!"{r.slab} {r.idx} {r.allocCalls} {r.deallocCalls} {r.capacity}"
          | none => "reject")
  | _ => (st, "bad-op")

/-- split a list at every occurrence of `sep` -/
def splitAt (sep : Int) (l : List Int) : List (List Int) :=
  let r := l.foldl (fun (acc : List (List Int) × List Int) x =>
    if x = sep then (acc.1 ++ [acc.2], []) else (acc.1, acc.2 ++ [x])) ([], [])
  r.1 ++ [r.2]

/-- C43 CpuSet: `cpuset reset|add i|addRange a b|remove i|removeRange a b|contains i` → `count sum [contains]`;
    `cpuset parse c1 c2 …` (character codes) → `n id…`;
    `cpuset group max l2… -2 l3…` with -1 between groups → groups separated by -1 -/
def cpusetH (st : St) (args : List String) : St × String :=
  match args with
  | opn :: rest =>
    match ints rest with
    | none => (st, "bad-op")
    | some ns =>
      let summary (s : CpuSet.Set) : String := s!"{CpuSet.count s} {s.foldl (· + ·) 0}"
      match opn, ns with
      | "reset", [] => ({ st with cpuset := [] }, "ok")
      | "add", [i] => let s := CpuSet.add st.cpuset i; ({ st with cpuset := s }, summary s)
      | "addRange", [a, b] => let s := CpuSet.addRange st.cpuset a b; ({ st with cpuset := s }, summary s)
      | "remove", [i] => let s := CpuSet.remove st.cpuset i; ({ st with cpuset := s }, summary s)
      | "removeRange", [a, b] => let s := CpuSet.removeRange st.cpuset a b; ({ st with cpuset := s }, summary s)
      | "contains", [i] => (st, summary st.cpuset ++ (if CpuSet.contains st.cpuset i then " 1" else " 0"))
      | "parse", cs =>
        let s := CpuSet.parseLinuxCpuList (cs.map fun c => Char.ofNat c.toNat)
        (st, s!"{s.length}" ++ s.foldl (fun acc x => acc ++ " " ++ toString x) "")
      | "group", mx :: body =>
        match splitAt (-2) body with
        | [l2s, l3s] =>
          let l2 := (splitAt (-1) l2s).filter (· ≠ [])
          let l3 := (splitAt (-1) l3s).filter (· ≠ [])
          let gs := CpuSet.buildGroups l2 l3 mx
          (st, s!"{gs.length}" ++ gs.foldl (fun acc g => acc ++ " -1" ++ g.foldl (fun a x => a ++ " " ++ toString x) "") "")
        | _ => (st, "bad-op")
      | _, _ => (st, "bad-op")
  | _ => (st, "bad-op")

/-- C30/C31 graphs: `graph reset b|addSubgraph|addNode s|dep n p|bidep n p|clear s|setAll|setInc n|prop` → ok / id;
    `graph state` → `id numPred inc deps…;` per live node; `graph exec` → run order; `graph execset` → sorted run set -/
def graphH (st : St) (args : List String) : St × String :=
  match args with
  | opn :: rest =>
    match nats rest with
    | none => (st, "bad-op")
    | some ns =>
      let g := st.graph
      let showL (l : List Nat) : String := l.foldl (fun acc x => acc ++ " " ++ toString x) ""
      match opn, ns with
      | "reset", [b] => ({ st with graph := Graph.G.init (decide (b ≠ 0)) }, "ok")
      | "addSubgraph", [] => let (g', i) := Graph.addSubgraph g; ({ st with graph := g' }, toString i)
      | "addNode", [s] => let (g', i) := Graph.addNode g s; ({ st with graph := g' }, toString i)
      | "dep", [n, p] => ({ st with graph := Graph.dependsOn g n p }, "ok")
      | "bidep", [n, p] => ({ st with graph := Graph.biPropDependsOn g n p }, "ok")
      | "clear", [s] => ({ st with graph := Graph.clearSubgraph g s }, "ok")
      | "setAll", [] => ({ st with graph := Graph.setAllNodesIncomplete g }, "ok")
      | "setInc", [n] => ({ st with graph := Graph.setIncomplete g n }, "ok")
      | "prop", [] => ({ st with graph := Graph.forwardPropagate g }, "ok")
      | "state", [] =>
        (st, (Graph.allNodes g).foldl (fun acc id =>
          let n := g.node id
          acc ++ s!"{id} {n.numPred} {if Graph.completed n then "C" else toString n.inc}" ++ showL n.dependents ++ ";") "S ")
      | "exec", [] => let (g', log) := Graph.execute g; ({ st with graph := g' }, "R" ++ showL log)
      | "execset", [] =>
        let (g', log) := Graph.execute g
        ({ st with graph := g' }, "R" ++ showL (log.toArray.qsort (· < ·)).toList)
      | _, _ => (st, "bad-op")
  | _ => (st, "bad-op")

def parforPlanH (args : List String) : String :=
  match ints args with
  | some [bits, sg, start, stop, chunk, mt, wait, minItems, g, pool, recur] =>
    let ty : ParFor.Ty := ParFor.Ty.mk bits.toNat (decide (sg ≠ 0))
    let chunk' := if chunk = -1 then ty.maxVal else chunk
    let c : ParFor.Cfg := ParFor.Cfg.mk ty start stop chunk' mt.toNat (decide (wait ≠ 0)) minItems.toNat g.toNat
      pool.toNat (decide (recur ≠ 0))
    let p := ParFor.plan c
    s!"{reprStr p.mode} {p.tasks} {if p.tailConcurrent then 1 else 0}"
  | _ => "bad-op"

/-- `trace begin <protocol> <params…>` starts a session; `T <event…>` feeds one trace line -/
def traceBegin (args : List String) : Sess × String :=
  match args with
  | "event" :: rest =>
    match ints rest with
    | some [v] => (.event (Event.init v), "ok")
    | _ => (.failed, "bad-params")
  | "asyncreq" :: _ => (.asyncreq AsyncReq.init, "ok")
  | "rwlock" :: _ => (.rwlock RWLock.init, "ok")
  | "palloc" :: _ => (.palloc PoolAlloc.init, "ok")
  | "arena" :: rest =>
    match nats rest with
    | some [B] => (.arena B (Arena.init B), "ok")
    | _ => (.failed, "bad-params")
  | "threadid" :: rest =>
    match ints rest with
    | some [v] => (.threadid (ThreadId.init v), "ok")
    | _ => (.failed, "bad-params")
  | "distrw" :: rest =>
    match nats rest with
    | some [N] => (.distrw N (DistRWLock.init N), "ok")
    | _ => (.failed, "bad-params")
  | "chaselev" :: rest =>
    match nats rest with
    | some [C] => (.chaselev C 4 (ChaseLev.init C), "ok")
    | some [C, sb] => (.chaselev C sb (ChaseLev.init C), "ok")
    | _ => (.failed, "bad-params")
  | "mpmc" :: rest =>
    match nats rest with
    | some [K] => (.mpmc K (Mpmc.init K), "ok")
    | _ => (.failed, "bad-params")
  | "spsc" :: rest =>
    match nats rest with
    | some [K] => (.spsc K (Spsc.init K), "ok")
    | _ => (.failed, "bad-params")
  | _ => (.failed, "unknown-protocol")

def traceLine (sess : Sess) (toks : List String) : Sess × String :=
  match sess with
  | .none => (.none, "no-session")
  | .failed => (.failed, "skip")
  | .plug n => (.plug n, "no-session")
  | .event s =>
    match Trace.acceptLine Event.binding s toks with
    | .ok s' => (.event s', "ok")
    | .error e => (.failed, "MISMATCH " ++ e)
  | .distrw N s =>
    match Trace.acceptLine (DistRWLock.binding N) s toks with
    | .ok s' => (.distrw N s', "ok")
    | .error e => (.failed, "MISMATCH " ++ e)
  | .threadid s =>
    match Trace.acceptLine ThreadId.binding s toks with
    | .ok s' => (.threadid s', "ok")
    | .error e => (.failed, "MISMATCH " ++ e)
  | .arena B s =>
    match Trace.acceptLine (Arena.binding B) s toks with
    | .ok s' => (.arena B s', "ok")
    | .error e => (.failed, "MISMATCH " ++ e)
  | .palloc s =>
    match Trace.acceptLine PoolAlloc.binding s toks with
    | .ok s' => (.palloc s', "ok")
    | .error e => (.failed, "MISMATCH " ++ e)
  | .rwlock s =>
    match Trace.acceptLine RWLock.binding s toks with
    | .ok s' => (.rwlock s', "ok")
    | .error e => (.failed, "MISMATCH " ++ e)
  | .chaselev C sb s =>
    match Trace.acceptLine (ChaseLev.binding C sb) s toks with
    | .ok s' => (.chaselev C sb s', "ok")
    | .error e => (.failed, "MISMATCH " ++ e)
  | .mpmc K s =>
    match Trace.acceptLine (Mpmc.binding K) s toks with
    | .ok s' => (.mpmc K s', "ok")
    | .error e => (.failed, "MISMATCH " ++ e)
  | .spsc K s =>
    match Trace.acceptLine (Spsc.binding K) s toks with
    | .ok s' => (.spsc K s', "ok")
    | .error e => (.failed, "MISMATCH " ++ e)
  | .asyncreq s =>
    match Trace.acceptLine AsyncReq.binding s toks with
    | .ok s' => (.asyncreq s', "ok")
    | .error e => (.failed, "MISMATCH " ++ e)

/-- forward a request to the plug-in `name` and store its new state -/
def plugStep (st : St) (name : String) (toks : List String) : St × String :=
  match st.plugs.find? (·.1 == name) with
  | none => (st, "bad-op")
  | some (_, p) =>
    let (p', r) := p.run toks
    ({ st with plugs := st.plugs.map fun q => if q.1 == name then (name, p') else q }, r)

def dispatch (st : St) : List String → St × String
  | "chunk" :: rest => (st, chunkH rest)
  | "bits" :: rest => (st, bitsH rest)
  | "opres" :: rest => opresH st rest
  | "svec" :: rest => svecH st rest
  | "oncefn" :: rest => oncefnH st rest
  | "convec" :: rest => convecH st rest
  | "arenaseq" :: rest => arenaH st rest
  | "parfor" :: rest => (st, parforH rest)
  | "foreach" :: rest => (st, foreachH rest)
  | "pallocseq" :: rest => pallocH st rest
  | "cpuset" :: rest => cpusetH st rest
  | "graph" :: rest => graphH st rest
  | "parforplan" :: rest => (st, parforPlanH rest)
  | "trace" :: "begin" :: rest =>
    match rest with
    | name :: params =>
      match st.plugs.find? (·.1 == name) with
      | some _ =>
        let (st', r) := plugStep st name ("begin" :: params)
        ({ st' with sess := .plug name }, r)
      | none =>
        let (s, r) := traceBegin rest
        ({ st with sess := s }, r)
    | [] => ({ st with sess := .failed }, "unknown-protocol")
  | "T" :: rest =>
    match st.sess with
    | .plug name => plugStep st name ("T" :: rest)
    | _ =>
      let (s, r) := traceLine st.sess rest
      ({ st with sess := s }, r)
  | name :: rest =>
    match st.plugs.find? (·.1 == name) with
    | some _ => plugStep st name rest
    | none => (st, "bad-op")
  | _ => (st, "bad-op")

end Driver
