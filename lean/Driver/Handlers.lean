import DispensoVerif.Model.Chunk

/-! Handlers of the dvdriver line protocol. Core Lean only. -/
namespace Driver

open Dispenso

structure St where
  unit : Unit := ()

def St.init : St := {}

def ints (l : List String) : Option (List Int) := l.mapM String.toInt?

def showInts (l : List Int) : String := " ".intercalate (l.map toString)

/-- C17 static chunking -/
def chunkH (args : List String) : String :=
  match args with
  | op :: rest =>
    match op, ints rest with
    | "scs", some [items, chunks] =>
      if chunks ≤ 0 then "reject" else
      let r := Chunk.staticChunkSize items chunks
      showInts [r.transitionTaskIndex, r.ceilChunkSize]
    | "scsg", some [items, chunks, g] =>
      if chunks ≤ 0 ∨ g < 1 then "reject" else
      let r := Chunk.staticChunkSizeGranular items chunks g
      showInts [r.transitionTaskIndex, r.ceilChunkSize]
    | "map", some [s, e, n, g, idx] =>
      let m := Chunk.mkMapper s e n g
      showInts [m.start idx, m.stop idx]
    | "feo", some [n, nt, idx] =>
      let r := Chunk.forEachOffset n nt idx
      showInts [r.1, r.2]
    | _, _ => "bad-op"
  | _ => "bad-op"

def dispatch (st : St) : List String → St × String
  | "chunk" :: rest => (st, chunkH rest)
  | _ => (st, "bad-op")

end Driver
