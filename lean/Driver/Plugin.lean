/-! Driver plug-ins: a model that is added after the built-in handlers registers a `Plug`
    (its own state type and a step function over the tokens of a request line) in
    `Driver/Plugins.lean`; `dispatch` forwards `<name> …` request lines and, after
    `trace begin <name> …`, the `T …` lines of a trace to it.  Core Lean only. -/
namespace Driver

structure Plug where
  σ : Type
  st : σ
  /-- request tokens (without the plug-in name) ↦ new state and the one-line reply -/
  step : σ → List String → σ × String

def Plug.run (p : Plug) (toks : List String) : Plug × String :=
  let (s', r) := p.step p.st toks
  ({ p with st := s' }, r)

def ints' (l : List String) : Option (List Int) := l.mapM String.toInt?
def nats' (l : List String) : Option (List Nat) := l.mapM String.toNat?

end Driver
