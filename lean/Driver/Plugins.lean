import Driver.Plugin
import Driver.Plug.Sched
/-! The list of plug-in models (one import and one entry per model). -/
namespace Driver

def plugins : List (String × Plug) := [
  ("sched", Driver.PlugSched.plug)
]

end Driver
