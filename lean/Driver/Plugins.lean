import Driver.Plugin
/-! The list of plug-in models (one import and one entry per model). -/
namespace Driver

def plugins : List (String × Plug) := [
]

end Driver
