import Driver.Plugin
import Driver.Plug.Sched
import Driver.Plug.InlineDepth
import Driver.Plug.ConVecAlloc
import Driver.Plug.ConVecGrow
/-! The list of plug-in models (one import and one entry per model). -/
namespace Driver

def plugins : List (String × Plug) := [
  ("sched", Driver.PlugSched.plug),
  ("inlinedepth", Driver.PlugInlineDepth.plug),
  ("cvalloc", Driver.PlugConVecAlloc.plug),
  ("cvgrow", Driver.PlugConVecGrow.plug)
]

end Driver
