import Driver.Plugin
import Driver.Plug.Sched
import Driver.Plug.InlineDepth
import Driver.Plug.ConVecAlloc
import Driver.Plug.ConVecGrow
import Driver.Plug.ParForExec
import Driver.Plug.ParInvoke
import Driver.Plug.SmallBuf
import Driver.Plug.ResPool
import Driver.Plug.TimedTask
import Driver.Plug.Nested
import Driver.Plug.Future
import Driver.Plug.FutChain
import Driver.Plug.WhenComb
import Driver.Plug.Wake
import Driver.Plug.Pipeline
import Driver.Plug.HBDet
import Driver.Plug.ArenaTables
/-! The list of plug-in models (one import and one entry per model). -/
namespace Driver

def plugins : List (String × Plug) := [
  ("sched", Driver.PlugSched.plug),
  ("inlinedepth", Driver.PlugInlineDepth.plug),
  ("cvalloc", Driver.PlugConVecAlloc.plug),
  ("cvgrow", Driver.PlugConVecGrow.plug),
  ("parforx", Driver.PlugParForExec.plug),
  ("pinvoke", Driver.PlugParInvoke.plug),
  ("smallbuf", Driver.PlugSmallBuf.plug),
  ("respool", Driver.PlugResPool.plug),
  ("timedtask", Driver.PlugTimedTask.plug),
  ("nested", Driver.PlugNested.plug),
  ("future", Driver.PlugFuture.plug),
  ("futchain", Driver.PlugFutChain.plug),
  ("futevt", Driver.PlugFuture.plugEvt),
  ("whenall", Driver.PlugWhenComb.plugAll),
  ("whenany", Driver.PlugWhenComb.plugAny),
  ("wake", Driver.PlugWake.plug),
  ("pipe", Driver.PlugPipe.plug),
  ("hbdet", Driver.PlugHBDet.plug),
  ("arenatbl", Driver.PlugArenaTables.plug)
]

end Driver
