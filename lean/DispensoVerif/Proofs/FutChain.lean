import DispensoVerif.Model.FutChain
import DispensoVerif.Proofs.ConcLemmas
/-
Proofs for C19 (then-chain): `dec` is a left inverse of `enc`, and the ownership invariant of the
Treiber stack of continuation links: every continuation id that a `then()` call has claimed is in
exactly one place — held by its adder (before the successful push, or on the fast path), in the
chain, held by the one thread that detached it, or dispatched (counter = 1).
Core Lean only.
-/
namespace Dispenso.FutChain
open Dispenso.Conc Dispenso.ConcL

/-! ### `dec (enc l) = l` -/

theorem enc_pos (k : Nat) (l : List Nat) : 0 < enc (k :: l) := by
  simp only [enc]
  exact Nat.mul_pos (Nat.pow_pos (by decide)) (by omega)

theorem decF_enc : ∀ (l : List Nat) (f : Nat), enc l ≤ f → decF f (enc l) = l := by
  intro l
  induction l with
  | nil => intro f _; cases f <;> simp [decF, enc]
  | cons k l ih =>
    induction k with
    | zero =>
      intro f hf
      simp only [enc, Nat.pow_zero, Nat.one_mul] at hf ⊢
      cases f with
      | zero => omega
      | succ f =>
        have h1 : (2 * enc l + 1) % 2 = 1 := by omega
        have h2 : (2 * enc l + 1) / 2 = enc l := by omega
        simp only [decF, h1, h2]
        rw [ih f (by omega)]
        simp
    | succ k ihk =>
      intro f hf
      have hpos := enc_pos k l
      have he : enc ((k + 1) :: l) = 2 * enc (k :: l) := by
        simp only [enc, Nat.pow_succ]; ac_rfl
      rw [he] at hf ⊢
      cases f with
      | zero => omega
      | succ f =>
        have h0 : ¬ 2 * enc (k :: l) = 0 := by omega
        have h1 : (2 * enc (k :: l)) % 2 = 0 := by omega
        have h2 : (2 * enc (k :: l)) / 2 = enc (k :: l) := by omega
        simp only [decF, h0, h1, h2, if_true, if_false]
        rw [ihk f (by omega)]
        rfl

theorem dec_enc (l : List Nat) : dec ((enc l : Nat) : Int) = l := by
  simp only [dec, Int.toNat_natCast]
  exact decF_enc l _ (Nat.le_refl _)

theorem dec_zero : dec 0 = [] := by simp [dec, decF]

/-! ### the invariant -/

/-- `proto` as a reducible definition (`proto = CP` by `rfl`) -/
abbrev CP : Proto := { L := PC, op := op, cont := cont, entry := fun l l' => idleOrDone l && isEntry l' }
theorem proto_eq : proto = CP := rfl

/-- the continuation ids a thread holds: a walker the rest of its detached list, an adder its own
id until the push succeeded (or, on the fast path, until it dispatched) -/
def holdOf : PC → List Nat
  | .twInvoke cur rest => cur :: rest
  | .adLoad k | .adDisp k | .adNext k | .adCas k _ => [k]
  | _ => []

/-- what a control state implies about the status word -/
def LocC (m : Fld → Int) : PC → Prop
  | .cpStore => m 0 = 1
  | .cpWake | .teLoad | .teCas _ | .twInvoke _ _ | .adDisp _ => m 0 = 2
  | _ => True

/-- threads that are going to look at the chain (again) -/
def looker : PC → Bool
  | .cpWake | .teLoad | .teCas _ | .adRe _ => true
  | _ => false

theorem holdOf_walk (l : List Nat) : holdOf (walk l) = l := by cases l <;> rfl

theorem fld_ne (x y : Nat) : fDisp x ≠ 0 ∧ fDisp x ≠ 1 ∧ fTok x ≠ 0 ∧ fTok x ≠ 1 ∧ fDisp x ≠ fTok y ∧
    (fDisp x = fDisp y ↔ x = y) ∧ (fTok x = fTok y ↔ x = y) := by
  show (2 * x + 10 : Nat) ≠ 0 ∧ (2 * x + 10 : Nat) ≠ 1 ∧ (2 * x + 11 : Nat) ≠ 0 ∧ (2 * x + 11 : Nat) ≠ 1 ∧
    (2 * x + 10 : Nat) ≠ 2 * y + 11 ∧ ((2 * x + 10 : Nat) = 2 * y + 10 ↔ x = y) ∧
    ((2 * x + 11 : Nat) = 2 * y + 11 ↔ x = y)
  omega

/-- ownership part (depends on the chain cell, the counters, the tokens and what threads hold) -/
structure InvO (m : Fld → Int) (hold : TId → List Nat) : Prop where
  cn : (dec (m 1)).Nodup
  hn : ∀ t, (hold t).Nodup
  hc : ∀ t x, x ∈ hold t → x ∉ dec (m 1)
  hu : ∀ t u x, x ∈ hold t → x ∈ hold u → t = u
  ow : ∀ x, (x ∈ dec (m 1) ∨ ∃ t, x ∈ hold t) → m (fTok x) = 1 ∧ m (fDisp x) = 0
  ex : ∀ x, m (fTok x) = 1 → m (fDisp x) = 1 ∨ x ∈ dec (m 1) ∨ ∃ t, x ∈ hold t
  rg : ∀ x, (m (fDisp x) = 0 ∨ m (fDisp x) = 1) ∧ (m (fTok x) = 0 ∨ m (fTok x) = 1) ∧
    (m (fTok x) = 0 → m (fDisp x) = 0)

/-- status part -/
structure InvT (s : State CP) : Prop where
  st : s.mem 0 = 0 ∨ s.mem 0 = 1 ∨ s.mem 0 = 2
  lc : ∀ t, LocC s.mem (s.loc t)
  dr : ∀ x, s.mem (fDisp x) = 1 → s.mem 0 = 2
  cs : ∀ t u, s.loc t = .cpStore → s.loc u = .cpStore → t = u
  lk : s.mem 0 = 2 → s.mem 1 ≠ 0 → ∃ t, looker (s.loc t) = true
  pk : ∀ u f b, s.parked u = some (f, b) → ∃ cur, s.loc u = .evWait cur

structure Inv (s : State CP) : Prop where
  o : InvO s.mem (fun t => holdOf (s.loc t))
  t : InvT s

/-- ownership frame: the chain cell, the counters and the tokens are unchanged, threads hold the same -/
theorem invO_frame {m m' : Fld → Int} {hold hold' : TId → List Nat} (I : InvO m hold)
    (h1 : m' 1 = m 1) (hd : ∀ x, m' (fDisp x) = m (fDisp x)) (ht : ∀ x, m' (fTok x) = m (fTok x))
    (hh : ∀ t, hold' t = hold t) : InvO m' hold' := by
  have : hold' = hold := funext hh
  subst this
  exact ⟨by rw [h1]; exact I.cn, I.hn, by rw [h1]; exact I.hc, I.hu,
    fun x => by rw [h1, hd, ht]; exact I.ow x, fun x => by rw [h1, hd, ht]; exact I.ex x,
    fun x => by rw [hd, ht]; exact I.rg x⟩

/-- a thread dispatches the first id it holds -/
theorem invO_dispatch {m : Fld → Int} {hold : TId → List Nat} (I : InvO m hold) (t : TId) (k : Nat)
    (rest : List Nat) (hk : hold t = k :: rest) :
    InvO (upd m (fDisp k) (m (fDisp k) + 1)) (fun u => if u = t then rest else hold u) := by
  have hkt : k ∈ hold t := by rw [hk]; exact List.mem_cons_self
  obtain ⟨htok, hdisp⟩ := I.ow k (Or.inr ⟨t, hkt⟩)
  have hnd := I.hn t
  rw [hk] at hnd
  obtain ⟨hkr, hrn⟩ := List.nodup_cons.mp hnd
  have hm1 : upd m (fDisp k) (m (fDisp k) + 1) 1 = m 1 := upd_other _ _ _ _ (fld_ne k k).2.1.symm
  have hmt : ∀ x, upd m (fDisp k) (m (fDisp k) + 1) (fTok x) = m (fTok x) :=
    fun x => upd_other _ _ _ _ (fld_ne k x).2.2.2.2.1.symm
  have hmd : ∀ x, x ≠ k → upd m (fDisp k) (m (fDisp k) + 1) (fDisp x) = m (fDisp x) :=
    fun x hx => upd_other _ _ _ _ (fun h => hx ((fld_ne x k).2.2.2.2.2.1.mp h))
  have hmk : upd m (fDisp k) (m (fDisp k) + 1) (fDisp k) = 1 := by rw [upd_same, hdisp]; rfl
  have hsub : ∀ u x, x ∈ (if u = t then rest else hold u) → x ∈ hold u := by
    intro u x hx
    split at hx
    · rename_i hut; rw [hut, hk]; exact List.mem_cons_of_mem _ hx
    · exact hx
  have hnk : ∀ u, k ∉ (if u = t then rest else hold u) := by
    intro u hx
    split at hx
    · exact hkr hx
    · rename_i hut; exact hut (I.hu u t k hx hkt)
  refine ⟨by rw [hm1]; exact I.cn, fun u => ?_, fun u x hx => ?_, fun u v x hu hv => ?_, fun x hx => ?_,
    fun x hx => ?_, fun x => ?_⟩
  · split
    · exact hrn
    · exact I.hn u
  · rw [hm1]; exact I.hc u x (hsub u x hx)
  · exact I.hu u v x (hsub u x hu) (hsub v x hv)
  · have hxk : x ≠ k := by
      rintro rfl
      rcases hx with hx | ⟨u, hx⟩
      · rw [hm1] at hx; exact I.hc t x hkt hx
      · exact hnk u hx
    rw [hmt, hmd x hxk]
    refine I.ow x ?_
    rcases hx with hx | ⟨u, hx⟩
    · left; rw [hm1] at hx; exact hx
    · right; exact ⟨u, hsub u x hx⟩
  · rw [hmt] at hx
    by_cases hxk : x = k
    · subst hxk; left; exact hmk
    · rw [hmd x hxk, hm1]
      rcases I.ex x hx with h | h | ⟨u, h⟩
      · exact Or.inl h
      · exact Or.inr (Or.inl h)
      · refine Or.inr (Or.inr ⟨u, ?_⟩)
        by_cases hut : u = t
        · subst hut
          rw [if_pos rfl]
          rw [hk] at h
          rcases List.mem_cons.mp h with h | h
          · exact absurd h hxk
          · exact h
        · rw [if_neg hut]; exact h
  · rw [hmt]
    by_cases hxk : x = k
    · subst hxk
      rw [hmk]
      exact ⟨Or.inr rfl, Or.inr htok, fun h => by omega⟩
    · rw [hmd x hxk]; exact I.rg x

/-- `then()` claims the unused continuation id `k` -/
theorem invO_take {m : Fld → Int} {hold : TId → List Nat} (I : InvO m hold) (t : TId) (k : Nat)
    (ht : hold t = []) (hk : m (fTok k) = 0) :
    InvO (upd m (fTok k) 1) (fun u => if u = t then [k] else hold u) := by
  have hm1 : upd m (fTok k) 1 1 = m 1 := upd_other _ _ _ _ (fld_ne k k).2.2.2.1.symm
  have hmd : ∀ x, upd m (fTok k) 1 (fDisp x) = m (fDisp x) :=
    fun x => upd_other _ _ _ _ (fld_ne x k).2.2.2.2.1
  have hmt : ∀ x, x ≠ k → upd m (fTok k) 1 (fTok x) = m (fTok x) :=
    fun x hx => upd_other _ _ _ _ (fun h => hx ((fld_ne x k).2.2.2.2.2.2.mp h))
  have hmk : upd m (fTok k) 1 (fTok k) = 1 := upd_same _ _ _
  have hkc : k ∉ dec (m 1) := fun h => by have := (I.ow k (Or.inl h)).1; omega
  have hkh : ∀ u, k ∉ hold u := fun u h => by have := (I.ow k (Or.inr ⟨u, h⟩)).1; omega
  have hold' : ∀ u x, x ∈ (if u = t then [k] else hold u) → (u = t ∧ x = k) ∨ (u ≠ t ∧ x ∈ hold u) := by
    intro u x hx
    split at hx
    · rename_i hut; exact Or.inl ⟨hut, by simpa using hx⟩
    · rename_i hut; exact Or.inr ⟨hut, hx⟩
  refine ⟨by rw [hm1]; exact I.cn, fun u => ?_, fun u x hx => ?_, fun u v x hu hv => ?_, fun x hx => ?_,
    fun x hx => ?_, fun x => ?_⟩
  · split
    · simp
    · exact I.hn u
  · rw [hm1]
    rcases hold' u x hx with ⟨_, rfl⟩ | ⟨_, h⟩
    · exact hkc
    · exact I.hc u x h
  · rcases hold' u x hu with ⟨hut, rfl⟩ | ⟨hut, h⟩ <;> rcases hold' v x hv with ⟨hvt, hx⟩ | ⟨hvt, h'⟩
    · rw [hut, hvt]
    · exact absurd h' (hkh v)
    · subst hx; exact absurd h (hkh u)
    · exact I.hu u v x h h'
  · by_cases hxk : x = k
    · subst hxk
      rw [hmk, hmd]
      exact ⟨rfl, (I.rg x).2.2 hk⟩
    · rw [hmt x hxk, hmd]
      refine I.ow x ?_
      rcases hx with hx | ⟨u, hx⟩
      · left; rw [hm1] at hx; exact hx
      · rcases hold' u x hx with ⟨_, h⟩ | ⟨_, h⟩
        · exact absurd h hxk
        · exact Or.inr ⟨u, h⟩
  · by_cases hxk : x = k
    · subst hxk
      exact Or.inr (Or.inr ⟨t, by simp⟩)
    · rw [hmt x hxk] at hx
      rw [hmd, hm1]
      rcases I.ex x hx with h | h | ⟨u, h⟩
      · exact Or.inl h
      · exact Or.inr (Or.inl h)
      · refine Or.inr (Or.inr ⟨u, ?_⟩)
        have hut : u ≠ t := fun h' => by rw [h', ht] at h; cases h
        rw [if_neg hut]; exact h
  · rw [hmd]
    by_cases hxk : x = k
    · subst hxk
      rw [hmk]
      have := (I.rg x).2.2 hk
      exact ⟨Or.inl this, Or.inr rfl, fun h => by omega⟩
    · rw [hmt x hxk]; exact I.rg x

/-- the successful push: the adder's id moves from the adder to the chain -/
theorem invO_push {m : Fld → Int} {hold : TId → List Nat} (I : InvO m hold) (t : TId) (k : Nat)
    (ht : hold t = [k]) :
    InvO (upd m 1 (enc (k :: dec (m 1)))) (fun u => if u = t then [] else hold u) := by
  have hm1 : dec (upd m 1 (enc (k :: dec (m 1))) 1) = k :: dec (m 1) := by
    rw [upd_same]; exact dec_enc _
  have hmd : ∀ x, upd m 1 (enc (k :: dec (m 1))) (fDisp x) = m (fDisp x) :=
    fun x => upd_other _ _ _ _ (fld_ne x x).2.1
  have hmt : ∀ x, upd m 1 (enc (k :: dec (m 1))) (fTok x) = m (fTok x) :=
    fun x => upd_other _ _ _ _ (fld_ne x x).2.2.2.1
  have hkt : k ∈ hold t := by rw [ht]; exact List.mem_cons_self
  have hsub : ∀ u x, x ∈ (if u = t then [] else hold u) → u ≠ t ∧ x ∈ hold u := by
    intro u x hx
    split at hx
    · cases hx
    · rename_i hut; exact ⟨hut, hx⟩
  refine ⟨?_, fun u => ?_, fun u x hx => ?_, fun u v x hu hv => ?_, fun x hx => ?_,
    fun x hx => ?_, fun x => by rw [hmd, hmt]; exact I.rg x⟩
  · rw [hm1]; exact List.nodup_cons.mpr ⟨I.hc t k hkt, I.cn⟩
  · split
    · simp
    · exact I.hn u
  · rw [hm1]
    obtain ⟨hut, h⟩ := hsub u x hx
    intro hmem
    rcases List.mem_cons.mp hmem with rfl | hmem
    · exact hut (I.hu u t x h hkt)
    · exact I.hc u x h hmem
  · exact I.hu u v x (hsub u x hu).2 (hsub v x hv).2
  · rw [hmt, hmd]
    refine I.ow x ?_
    rcases hx with hx | ⟨u, hx⟩
    · rw [hm1] at hx
      rcases List.mem_cons.mp hx with rfl | hx
      · exact Or.inr ⟨t, hkt⟩
      · exact Or.inl hx
    · exact Or.inr ⟨u, (hsub u x hx).2⟩
  · rw [hmt] at hx
    rw [hmd, hm1]
    rcases I.ex x hx with h | h | ⟨u, h⟩
    · exact Or.inl h
    · exact Or.inr (Or.inl (List.mem_cons_of_mem _ h))
    · by_cases hut : u = t
      · subst hut
        rw [ht] at h
        have : x = k := by simpa using h
        subst this
        exact Or.inr (Or.inl List.mem_cons_self)
      · exact Or.inr (Or.inr ⟨u, by rw [if_neg hut]; exact h⟩)

/-- the successful detach-all: the whole chain moves to the detaching thread -/
theorem invO_detach {m : Fld → Int} {hold : TId → List Nat} (I : InvO m hold) (t : TId)
    (ht : hold t = []) :
    InvO (upd m 1 0) (fun u => if u = t then dec (m 1) else hold u) := by
  have hm1 : dec (upd m 1 0 1) = [] := by rw [upd_same]; exact dec_zero
  have hmd : ∀ x, upd m 1 0 (fDisp x) = m (fDisp x) := fun x => upd_other _ _ _ _ (fld_ne x x).2.1
  have hmt : ∀ x, upd m 1 0 (fTok x) = m (fTok x) := fun x => upd_other _ _ _ _ (fld_ne x x).2.2.2.1
  have hcase : ∀ u x, x ∈ (if u = t then dec (m 1) else hold u) →
      (u = t ∧ x ∈ dec (m 1)) ∨ (u ≠ t ∧ x ∈ hold u) := by
    intro u x hx
    split at hx
    · rename_i hut; exact Or.inl ⟨hut, hx⟩
    · rename_i hut; exact Or.inr ⟨hut, hx⟩
  refine ⟨by rw [hm1]; exact List.nodup_nil, fun u => ?_, fun u x _ => by rw [hm1]; simp,
    fun u v x hu hv => ?_, fun x hx => ?_, fun x hx => ?_, fun x => by rw [hmd, hmt]; exact I.rg x⟩
  · split
    · exact I.cn
    · exact I.hn u
  · rcases hcase u x hu with ⟨hut, h⟩ | ⟨hut, h⟩ <;> rcases hcase v x hv with ⟨hvt, h'⟩ | ⟨hvt, h'⟩
    · rw [hut, hvt]
    · exact absurd h (I.hc v x h')
    · exact absurd h' (I.hc u x h)
    · exact I.hu u v x h h'
  · rw [hmt, hmd]
    refine I.ow x ?_
    rcases hx with hx | ⟨u, hx⟩
    · rw [hm1] at hx; cases hx
    · rcases hcase u x hx with ⟨_, h⟩ | ⟨_, h⟩
      · exact Or.inl h
      · exact Or.inr ⟨u, h⟩
  · rw [hmt] at hx
    rw [hmd]
    rcases I.ex x hx with h | h | ⟨u, h⟩
    · exact Or.inl h
    · exact Or.inr (Or.inr ⟨t, by rw [if_pos rfl]; exact h⟩)
    · have hut : u ≠ t := fun h' => by rw [h', ht] at h; cases h
      exact Or.inr (Or.inr ⟨u, by rw [if_neg hut]; exact h⟩)

end Dispenso.FutChain
