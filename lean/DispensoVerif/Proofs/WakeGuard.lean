import DispensoVerif.Proofs.WakeStop
/-
C07, the part that holds: the epoch check.  A worker that holds an epoch value older than its
group's epoch word while it is not blocked can never block as long as it holds that value
(both loads of `EpochWaiter::waitFor` and the futex comparison see a different value).
-/
namespace Dispenso.Wake
open Dispenso.Conc

section
variable {N G : Nat}

/-- the actions of other threads leave a thread's local state alone or wake it -/
theorem loc_other_any {s s' : State (proto N G)} {a : Act (proto N G)} {u : TId}
    (h : exec s a = some s') (hu : actor a ≠ u) :
    (s'.loc u = s.loc u ∧ s'.parked u = s.parked u) ∨
    (s'.loc u = cont N G (s.loc u) rWoken ∧ s.parked u ≠ none ∧ s'.parked u = none) := by
  cases a with
  | step t =>
    have hut : u ≠ t := fun h' => hu h'.symm
    obtain ⟨_, o, _, hc⟩ := exec_step_gen h
    rcases hc with ⟨_, _, _, _, _, rfl⟩ | ⟨_, _, _, _, _, rfl⟩ | ⟨_, _, rfl⟩ | ⟨_, _, _, _, rfl⟩ <;>
      simp [hut]
  | wake t ws =>
    have hut : u ≠ t := fun h' => hu h'.symm
    obtain ⟨_, f, n, _, hnd, hsub, _, _, _, rfl⟩ := exec_wake_gen h
    by_cases huw : u ∈ ws
    · right
      obtain ⟨_, b, hb⟩ := (mem_parkedOn s f u).mp (hsub u huw)
      simp [hut, unparkAll_loc s ws hnd u, unparkAll_parked, huw, hb]
    · left
      simp [hut, unparkAll_loc s ws hnd u, unparkAll_parked, huw]
  | timeout t =>
    have hut : u ≠ t := fun h' => hu h'.symm
    obtain ⟨_, _, _, _, rfl⟩ := exec_unpark_gen (Or.inl h)
    simp [hut]
  | spurious t =>
    have hut : u ≠ t := fun h' => hu h'.symm
    obtain ⟨_, _, _, _, rfl⟩ := exec_unpark_gen (Or.inr h)
    simp [hut]
  | call t l =>
    have hut : u ≠ t := fun h' => hu h'.symm
    obtain ⟨_, _, _, _, hpk, hloc, _⟩ := exec_call_gen h
    rw [hloc, hpk, if_neg hut]
    exact Or.inl ⟨rfl, rfl⟩

/-- "holds the stale value `e` ⇒ is not blocked" is preserved by every action -/
theorem guard_step {s s' : State (proto N G)} {a : Act (proto N G)} {u : TId} {i : Nat} {e : Int}
    (h : exec s a = some s')
    (hlt : e < s.mem (fEpoch (i / G))) (hk : wE (s.loc u) = some (i, e) → s.parked u = none) :
    e < s'.mem (fEpoch (i / G)) ∧ (wE (s'.loc u) = some (i, e) → s'.parked u = none) := by
  refine ⟨Int.lt_of_lt_of_le hlt (epoch_mono h _), fun hw => ?_⟩
  by_cases ha : actor a = u
  · cases a with
    | step t =>
      have : t = u := ha
      subst this
      obtain ⟨hpt, o, ho, hc⟩ := exec_step_gen h
      replace ho : op N G (s.loc t) = some o := ho
      rcases hc with ⟨f, e', b, rfl, hm, rfl⟩ | ⟨_, _, _, _, _, rfl⟩ | ⟨_, _, rfl⟩ | ⟨_, _, _, _, rfl⟩
      · exfalso
        obtain ⟨j, hl, rfl, rfl⟩ := op_fwait ho
        simp only [setParked_loc] at hw
        rw [hl] at hw
        simp only [wE, Option.some.injEq, Prod.mk.injEq] at hw
        obtain ⟨rfl, rfl⟩ := hw
        omega
      · simpa using hpt
      · simpa using hpt
      · simpa using hpt
    | wake t ws =>
      have : t = u := ha
      subst this
      obtain ⟨hpt, f, n, _, hnd, _, _, _, htw, rfl⟩ := exec_wake_gen h
      simp [unparkAll_parked, htw, hpt]
    | timeout t =>
      have : t = u := ha
      subst this
      obtain ⟨_, _, _, _, rfl⟩ := exec_unpark_gen (Or.inl h)
      simp
    | spurious t =>
      have : t = u := ha
      subst this
      obtain ⟨_, _, _, _, rfl⟩ := exec_unpark_gen (Or.inr h)
      simp
    | call t l =>
      have : t = u := ha
      subst this
      obtain ⟨hpt, _, _, _, hpk, _, _⟩ := exec_call_gen h
      rw [hpk]; exact hpt
  · rcases loc_other_any h ha with ⟨h1, h2⟩ | ⟨h1, _, h3⟩
    · rw [h1] at hw; rw [h2]; exact hk hw
    · exact h3

theorem guard_run {s : State (proto N G)} {u : TId} {i : Nat} {e : Int}
    (as : List (Act (proto N G))) :
    ∀ {s'}, run s as = some s' → e < s.mem (fEpoch (i / G)) →
      (wE (s.loc u) = some (i, e) → s.parked u = none) →
      e < s'.mem (fEpoch (i / G)) ∧ (wE (s'.loc u) = some (i, e) → s'.parked u = none) := by
  induction as generalizing s with
  | nil =>
    intro s' hr hlt hk
    simp only [run, Option.some.injEq] at hr
    subst hr; exact ⟨hlt, hk⟩
  | cons a as ih =>
    intro s' hr hlt hk
    simp only [run] at hr
    split at hr
    · rename_i s1 he
      obtain ⟨h1, h2⟩ := guard_step he hlt hk
      exact ih hr h1 h2
    · cases hr

end
end Dispenso.Wake
