import DispensoVerif.Proofs.Event
/-
Protocol-independent inversion lemmas for `Conc.exec` (one per action kind) and counting lemmas
for per-thread quantities summed over the thread list.  Used by C23 (DistRWLock) and C45
(threadId).  The `@[simp]` projections of `setLoc`/`setMem`/`setParked`/`unparkAll` come from
`Proofs/Event.lean` (namespace `Dispenso.Conc`).
Core Lean only.
-/
namespace Dispenso.Conc
section
variable {P : Proto}

/-- inversion of a `step` action -/
theorem exec_step_gen {s s' : State P} {t : TId} (h : exec s (.step t) = some s') :
    s.parked t = none ∧ ∃ o, P.op (s.loc t) = some o ∧
      ((∃ f e b, o = .fwait f e b ∧ s.mem f = e ∧ s' = setParked s t (some (f, b))) ∨
       (∃ f e b, o = .fwait f e b ∧ s.mem f ≠ e ∧
          s' = setLoc s t (P.cont (s.loc t) rAgain)) ∨
       (∃ r, memEffect s.mem o = some (r, none) ∧ s' = setLoc s t (P.cont (s.loc t) r)) ∨
       (∃ r f v, memEffect s.mem o = some (r, some (f, v)) ∧
          s' = setLoc (setMem s f v) t (P.cont (s.loc t) r))) := by
  simp only [exec] at h
  split at h
  · contradiction
  · rename_i hp
    refine ⟨by simpa using hp, ?_⟩
    split at h
    · contradiction
    · contradiction
    · rename_i f e b ho
      refine ⟨_, ho, ?_⟩
      split at h <;> (injection h with h; subst h)
      · exact Or.inl ⟨f, e, b, rfl, by assumption, rfl⟩
      · exact Or.inr (Or.inl ⟨f, e, b, rfl, by assumption, rfl⟩)
    · rename_i o _ _ ho
      refine ⟨o, ho, ?_⟩
      split at h
      · contradiction
      · rename_i r hm
        injection h with h; subst h
        exact Or.inr (Or.inr (Or.inl ⟨r, hm, rfl⟩))
      · rename_i r f v hm
        injection h with h; subst h
        exact Or.inr (Or.inr (Or.inr ⟨r, f, v, hm, rfl⟩))

/-- a step whose operation writes memory -/
theorem exec_step_mem {s s' : State P} {t : TId} {o : AOp} {r : Int} {f : Fld} {v : Int}
    (h : exec s (.step t) = some s') (ho : P.op (s.loc t) = some o)
    (hm : memEffect s.mem o = some (r, some (f, v))) :
    s.parked t = none ∧ s' = setLoc (setMem s f v) t (P.cont (s.loc t) r) := by
  obtain ⟨hp, o', ho', hc⟩ := exec_step_gen h
  obtain rfl : o = o' := Option.some.inj (ho.symm.trans ho')
  refine ⟨hp, ?_⟩
  rcases hc with ⟨_, _, _, rfl, _⟩ | ⟨_, _, _, rfl, _⟩ | ⟨r', h', _⟩ | ⟨r', f', v', h', rfl⟩
  · simp [memEffect] at hm
  · simp [memEffect] at hm
  · rw [hm] at h'; simp at h'
  · rw [hm] at h'
    simp only [Option.some.injEq, Prod.mk.injEq] at h'
    obtain ⟨rfl, rfl, rfl⟩ := h'
    rfl

/-- a step whose operation does not write memory (and is not a futex operation) -/
theorem exec_step_nomem {s s' : State P} {t : TId} {o : AOp} {r : Int}
    (h : exec s (.step t) = some s') (ho : P.op (s.loc t) = some o)
    (hm : memEffect s.mem o = some (r, none)) :
    s.parked t = none ∧ s' = setLoc s t (P.cont (s.loc t) r) := by
  obtain ⟨hp, o', ho', hc⟩ := exec_step_gen h
  obtain rfl : o = o' := Option.some.inj (ho.symm.trans ho')
  refine ⟨hp, ?_⟩
  rcases hc with ⟨_, _, _, rfl, _⟩ | ⟨_, _, _, rfl, _⟩ | ⟨r', h', rfl⟩ | ⟨r', f', v', h', _⟩
  · simp [memEffect] at hm
  · simp [memEffect] at hm
  · rw [hm] at h'
    simp only [Option.some.injEq, Prod.mk.injEq, and_true] at h'
    subst h'
    rfl
  · rw [hm] at h'; simp at h'

/-- a step whose operation is a futex wait -/
theorem exec_step_fwait {s s' : State P} {t : TId} {f : Fld} {e : Int} {b : Bool}
    (h : exec s (.step t) = some s') (ho : P.op (s.loc t) = some (.fwait f e b)) :
    s.parked t = none ∧ ((s.mem f = e ∧ s' = setParked s t (some (f, b))) ∨
      (s.mem f ≠ e ∧ s' = setLoc s t (P.cont (s.loc t) rAgain))) := by
  obtain ⟨hp, o', ho', hc⟩ := exec_step_gen h
  obtain rfl : AOp.fwait f e b = o' := Option.some.inj (ho.symm.trans ho')
  refine ⟨hp, ?_⟩
  rcases hc with ⟨_, _, _, h1, h2, h3⟩ | ⟨_, _, _, h1, h2, h3⟩ | ⟨r', h', _⟩ | ⟨r', f', v', h', _⟩
  · injection h1 with a b c; subst a b c; exact Or.inl ⟨h2, h3⟩
  · injection h1 with a b c; subst a b c; exact Or.inr ⟨h2, h3⟩
  · simp [memEffect] at h'
  · simp [memEffect] at h'

/-- a futex wake is never executed by `step` (it is the `wake` action), nor is "no operation" -/
theorem exec_step_none {s s' : State P} {t : TId} (h : exec s (.step t) = some s')
    (ho : P.op (s.loc t) = none ∨ ∃ f n, P.op (s.loc t) = some (.fwake f n)) : False := by
  obtain ⟨hp, o', ho', hc⟩ := exec_step_gen h
  rcases ho with ho | ⟨f, n, ho⟩
  · rw [ho] at ho'; cases ho'
  · obtain rfl : AOp.fwake f n = o' := Option.some.inj (ho.symm.trans ho')
    rcases hc with ⟨_, _, _, h1, _⟩ | ⟨_, _, _, h1, _⟩ | ⟨r', h', _⟩ | ⟨r', f', v', h', _⟩
    · cases h1
    · cases h1
    · simp [memEffect] at h'
    · simp [memEffect] at h'

/-- inversion of a `wake` action -/
theorem exec_wake_gen {s s' : State P} {t : TId} {ws : List TId}
    (h : exec s (.wake t ws) = some s') :
    s.parked t = none ∧ ∃ f n, P.op (s.loc t) = some (.fwake f n) ∧ ws.Nodup ∧
      (∀ u ∈ ws, u ∈ parkedOn s f) ∧ ws.length ≤ n ∧
      (ws.length < n → ∀ u ∈ parkedOn s f, u ∈ ws) ∧ t ∉ ws ∧
      s' = setLoc (unparkAll s ws) t (P.cont (s.loc t) ws.length) := by
  simp only [exec] at h
  split at h
  · contradiction
  · rename_i hp
    have hp : s.parked t = none := by simpa using hp
    refine ⟨hp, ?_⟩
    split at h
    · rename_i f n ho
      split at h
      · rename_i hc
        obtain ⟨hnd, hsub, hle, hall⟩ := hc
        injection h with h
        have htw : t ∉ ws := by
          intro htw
          have := ((mem_parkedOn s f t).mp (hsub t htw)).2
          rw [hp] at this
          simp at this
        refine ⟨f, n, ho, hnd, hsub, hle, hall, htw, ?_⟩
        rw [← h, unparkAll_loc s ws hnd t, if_neg htw]
      · contradiction
    · contradiction

/-- inversion of `timeout` / `spurious` -/
theorem exec_unpark_gen {s s' : State P} {t : TId}
    (h : exec s (.timeout t) = some s' ∨ exec s (.spurious t) = some s') :
    ∃ f b r, s.parked t = some (f, b) ∧
      s' = setLoc (setParked s t none) t (P.cont (s.loc t) r) := by
  rcases h with h | h
  · simp only [exec] at h
    split at h
    · rename_i f hp
      injection h with h
      exact ⟨_, _, _, hp, h.symm⟩
    · contradiction
  · simp only [exec] at h
    split at h
    · rename_i p hp
      injection h with h
      exact ⟨p.1, p.2, _, hp, h.symm⟩
    · contradiction

/-- inversion of a `call` action -/
theorem exec_call_gen {s s' : State P} {t : TId} {l : P.L}
    (h : exec s (.call t l) = some s') :
    s.parked t = none ∧ P.op (s.loc t) = none ∧ P.entry (s.loc t) l = true ∧
      s'.mem = s.mem ∧ s'.parked = s.parked ∧ (∀ u, s'.loc u = if u = t then l else s.loc u) ∧
      s'.threads = (if t ∈ s.threads then s.threads else t :: s.threads) := by
  simp only [exec] at h
  split at h
  · rename_i hc
    obtain ⟨h1, h2, h3⟩ := hc
    injection h with h
    subst h
    exact ⟨h1, h2, h3, rfl, rfl, fun u => rfl, rfl⟩
  · contradiction

/-- the state after a `call` action -/
theorem exec_call_eq {s s' : State P} {t : TId} {l : P.L} (h : exec s (.call t l) = some s') :
    s' = setLoc { s with threads := if t ∈ s.threads then s.threads else t :: s.threads } t l := by
  simp only [exec] at h
  split at h
  · injection h with h
    subst h
    rfl
  · contradiction

theorem setMem_self (s : State P) (f : Fld) : setMem s f (s.mem f) = s := by
  cases s
  simp only [setMem, State.mk.injEq, and_true]
  funext g
  split
  · rename_i h; rw [h]
  · rfl

theorem setLoc_self (s : State P) (t : TId) : setLoc s t (s.loc t) = s := by
  cases s
  simp only [setLoc, State.mk.injEq, and_true, true_and]
  funext g
  split
  · rename_i h; rw [h]
  · rfl

end

/-! ### sums of a per-thread quantity over the thread list -/

/-- `Σ_{u ∈ ts} g (loc u)` -/
def cntL {α : Type} (g : α → Nat) (loc : TId → α) (ts : List TId) : Nat :=
  (ts.map fun u => g (loc u)).sum

section
variable {α : Type} (g : α → Nat) (loc : TId → α)

@[simp] theorem cntL_nil : cntL g loc [] = 0 := rfl
@[simp] theorem cntL_cons (u : TId) (ts : List TId) :
    cntL g loc (u :: ts) = g (loc u) + cntL g loc ts := by
  simp [cntL]

theorem cntL_congr {loc loc' : TId → α} {ts : List TId}
    (h : ∀ u ∈ ts, g (loc' u) = g (loc u)) : cntL g loc' ts = cntL g loc ts := by
  induction ts with
  | nil => rfl
  | cons u ts ih =>
    simp only [cntL_cons]
    rw [h u (List.mem_cons_self), ih fun v hv => h v (List.mem_cons_of_mem _ hv)]

theorem cntL_update_notin {ts : List TId} {t : TId} (ht : t ∉ ts) (l' : α) :
    cntL g (fun u => if u = t then l' else loc u) ts = cntL g loc ts := by
  apply cntL_congr
  intro u hu
  have : u ≠ t := fun h => ht (h ▸ hu)
  simp [this]

theorem cntL_update {ts : List TId} {t : TId} (hnd : ts.Nodup) (ht : t ∈ ts) (l' : α) :
    cntL g (fun u => if u = t then l' else loc u) ts + g (loc t) = cntL g loc ts + g l' := by
  induction ts with
  | nil => cases ht
  | cons u ts ih =>
    obtain ⟨hu, hnd'⟩ := List.nodup_cons.mp hnd
    simp only [cntL_cons]
    by_cases hut : u = t
    · subst hut
      rw [cntL_update_notin g loc hu]
      simp only [if_pos]
      omega
    · have ht' : t ∈ ts := by
        rcases List.mem_cons.mp ht with h | h
        · exact absurd h.symm hut
        · exact h
      have := ih hnd' ht'
      simp only [if_neg hut]
      omega

theorem cntL_mem_le {ts : List TId} {t : TId} (ht : t ∈ ts) : g (loc t) ≤ cntL g loc ts := by
  induction ts with
  | nil => cases ht
  | cons u ts ih =>
    simp only [cntL_cons]
    rcases List.mem_cons.mp ht with h | h
    · subst h; omega
    · have := ih h; omega

theorem cntL_two {ts : List TId} {t u : TId} (hnd : ts.Nodup) (ht : t ∈ ts) (hu : u ∈ ts)
    (hne : t ≠ u) : g (loc t) + g (loc u) ≤ cntL g loc ts := by
  induction ts with
  | nil => cases ht
  | cons v ts ih =>
    obtain ⟨hv, hnd'⟩ := List.nodup_cons.mp hnd
    simp only [cntL_cons]
    rcases List.mem_cons.mp ht with h1 | h1 <;> rcases List.mem_cons.mp hu with h2 | h2
    · exact absurd (h1.trans h2.symm) hne
    · subst h1; have := cntL_mem_le g loc h2; omega
    · subst h2; have := cntL_mem_le g loc h1; omega
    · have := ih hnd' h1 h2; omega

theorem cntL_pos {ts : List TId} (h : 0 < cntL g loc ts) : ∃ t ∈ ts, 0 < g (loc t) := by
  induction ts with
  | nil => simp at h
  | cons u ts ih =>
    simp only [cntL_cons] at h
    by_cases hu : 0 < g (loc u)
    · exact ⟨u, List.mem_cons_self, hu⟩
    · obtain ⟨t, ht, hg⟩ := ih (by omega)
      exact ⟨t, List.mem_cons_of_mem _ ht, hg⟩

theorem cntL_le_length {ts : List TId} (hg : ∀ a, g a ≤ 1) : cntL g loc ts ≤ ts.length := by
  induction ts with
  | nil => simp
  | cons u ts ih =>
    simp only [cntL_cons, List.length_cons]
    have := hg (loc u); omega

end
end Dispenso.Conc
