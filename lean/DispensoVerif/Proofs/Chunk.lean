import DispensoVerif.Model.Chunk
import DispensoVerif.Core.Partition
import Mathlib.Tactic.Ring
import Mathlib.Tactic.Linarith

/-! Helper lemmas for C17 (static chunking). -/
namespace Dispenso.Chunk

/-- ceil-division facts: for `a ≥ 0`, `n > 0`, `q = (a + n - 1) / n` satisfies
`a ≤ q*n ≤ a + n - 1`. -/
theorem ceil_div_bounds (a n : Int) (ha : 0 ≤ a) (hn : 0 < n) :
    a ≤ (a + n - 1).tdiv n * n ∧ (a + n - 1).tdiv n * n ≤ a + n - 1 ∧ 0 ≤ (a + n - 1).tdiv n := by
  have h1 : 0 ≤ a + n - 1 := by omega
  rw [Int.tdiv_eq_ediv_of_nonneg h1]
  have e := Int.emod_add_mul_ediv (a + n - 1) n
  have := Int.emod_nonneg (a + n - 1) (by omega : n ≠ 0)
  have := Int.emod_lt_of_pos (a + n - 1) hn
  have := Int.ediv_nonneg h1 (by omega : 0 ≤ n)
  rw [Int.mul_comm] at e
  refine ⟨by omega, by omega, by omega⟩

theorem static_t_range (items chunks : Int) (hi : 0 ≤ items) (hc : 0 < chunks) :
    0 < (staticChunkSize items chunks).transitionTaskIndex ∧
    (staticChunkSize items chunks).transitionTaskIndex ≤ chunks := by
  obtain ⟨h1, h2, _⟩ := ceil_div_bounds items chunks hi hc
  simp only [staticChunkSize]
  constructor <;> omega

theorem static_sum (items chunks : Int) :
    let r := staticChunkSize items chunks
    r.transitionTaskIndex * r.ceilChunkSize +
      (chunks - r.transitionTaskIndex) * (r.ceilChunkSize - 1) = items := by
  simp only [staticChunkSize]
  ring

theorem static_ceil_pos_of_imperfect (items chunks : Int) (hi : 0 ≤ items) (hc : 0 < chunks)
    (ht : (staticChunkSize items chunks).transitionTaskIndex < chunks) :
    1 ≤ (staticChunkSize items chunks).ceilChunkSize := by
  obtain ⟨h1, h2, h3⟩ := ceil_div_bounds items chunks hi hc
  simp only [staticChunkSize] at ht ⊢
  by_contra hne
  have h0 : (items + chunks - 1).tdiv chunks = 0 := by omega
  rw [h0] at ht h1
  omega

/-- No signed overflow in `staticChunkSize`: every intermediate lies in `[-(2^63), 2^63)`. -/
theorem static_no_overflow (items chunks : Int) (hi : 0 ≤ items) (hc : 0 < chunks)
    (hno : NoOverflow items chunks) :
    let c := (items + chunks - 1).tdiv chunks
    0 ≤ items + chunks - 1 ∧ items + chunks - 1 ≤ ssizeMax ∧
    0 ≤ c ∧ c ≤ ssizeMax ∧ 0 ≤ c * chunks ∧ c * chunks ≤ ssizeMax ∧
    0 ≤ c * chunks - items ∧ c * chunks - items < chunks := by
  obtain ⟨h1, h2, h3⟩ := ceil_div_bounds items chunks hi hc
  unfold NoOverflow at hno
  intro c
  have hcd : c = (items + chunks - 1).tdiv chunks := rfl
  rw [hcd]
  have hc1 : (items + chunks - 1).tdiv chunks ≤ (items + chunks - 1).tdiv chunks * chunks := by
    nlinarith
  refine ⟨by omega, by omega, h3, by omega, by omega, by omega, by omega, by omega⟩

/-! ### granular variant -/

theorem granular_eq_units (u chunks g : Int) (hg : 1 < g) (hu : 0 ≤ u) :
    staticChunkSizeGranular (g * u) chunks g =
      { transitionTaskIndex := (staticChunkSize u chunks).transitionTaskIndex,
        ceilChunkSize := (staticChunkSize u chunks).ceilChunkSize * g } := by
  have hdiv : (g * u).tdiv g = u := by
    rw [Int.tdiv_eq_ediv_of_nonneg (by nlinarith)]
    exact Int.mul_ediv_cancel_left u (by omega)
  simp only [staticChunkSizeGranular, staticChunkSize, hdiv]
  rw [if_neg (by omega)]

theorem granular_one (items chunks g : Int) (hg : g ≤ 1) :
    staticChunkSizeGranular items chunks g = staticChunkSize items chunks := by
  simp [staticChunkSizeGranular, hg]

end Dispenso.Chunk
