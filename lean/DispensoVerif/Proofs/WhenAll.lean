import DispensoVerif.Model.WhenComb
import DispensoVerif.Proofs.ConcLemmas
/-
Proofs for C19 (when_all): `shared->count` equals the number of inputs whose continuation has not
yet performed its decrement (token still there, or a thread is between the invocation of the
continuation and its `fetch_sub`); a continuation decrements only after its input is ready; the
`whenComplete` loop reaches the end only after every input is ready (it waited for it, or it saw the
count at 0); hence the result future becomes ready only after all inputs are.  Core Lean only.
-/
namespace Dispenso.WhenComb.All
open Dispenso.Conc Dispenso.ConcL Dispenso.WhenComb

abbrev AP (N : Nat) : Proto :=
  { L := PC, op := op, cont := cont N, entry := entry N }
theorem proto_eq (N : Nat) : proto N = AP N := rfl

/-- the input whose continuation a thread is executing (decrement still pending) -/
def ctOf : PC → Option Nat
  | .ctSub i => some i
  | _ => none

/-- the decrement of input `i`'s continuation is still outstanding -/
def hold {N : Nat} (s : State (AP N)) (i : Nat) : Prop :=
  s.mem (fTok i) = 1 ∨ ∃ t, ctOf (s.loc t) = some i

open Classical in
noncomputable def ind {N : Nat} (s : State (AP N)) (i : Nat) : Nat := if hold s i then 1 else 0

noncomputable def csum {N : Nat} (s : State (AP N)) : Nat := ((List.range N).map (ind s)).sum

def allBelow (m : Fld → Int) (i : Nat) : Prop := ∀ j, j < i → m (fIn j) = 2

def LocL (N : Nat) (m : Fld → Int) : PC → Prop
  | .pbLoad i => i < N
  | .pbDone i | .ctTake i | .ctSub i => i < N ∧ m (fIn i) = 2
  | .wA i | .wB i | .wC i _ => i < N ∧ allBelow m i
  | .wkCnt i => i < N ∧ allBelow m i
  | .rcStore | .rcWake => allBelow m N
  | _ => True

structure Inv (N : Nat) (s : State (AP N)) : Prop where
  pk : ∀ u f b, s.parked u = some (f, b) →
    (∃ i cur, s.loc u = .wC i cur) ∨ (∃ cur, s.loc u = .gwWait cur)
  tk : ∀ i, s.mem (fTok i) = 0 ∨ s.mem (fTok i) = 1
  tn : ∀ i, N ≤ i → s.mem (fTok i) = 0
  uq : ∀ t u i, ctOf (s.loc t) = some i → ctOf (s.loc u) = some i → t = u
  tx : ∀ i t, s.mem (fTok i) = 1 → ctOf (s.loc t) ≠ some i
  cnt : s.mem 0 = (csum s : Int)
  pp : ∀ i, i < N → hold s i ∨ s.mem (fIn i) = 2
  lc : ∀ t, LocL N s.mem (s.loc t)
  rs : s.mem 1 = 2 → allBelow s.mem N

theorem fld_ne (i j : Nat) : fIn i ≠ 0 ∧ fIn i ≠ 1 ∧ fTok i ≠ 0 ∧ fTok i ≠ 1 ∧ fIn i ≠ fTok j ∧
    (fIn i = fIn j ↔ i = j) ∧ (fTok i = fTok j ↔ i = j) := by
  show (2 * i + 10 : Nat) ≠ 0 ∧ (2 * i + 10 : Nat) ≠ 1 ∧ (2 * i + 11 : Nat) ≠ 0 ∧ (2 * i + 11 : Nat) ≠ 1 ∧
    (2 * i + 10 : Nat) ≠ 2 * j + 11 ∧ ((2 * i + 10 : Nat) = 2 * j + 10 ↔ i = j) ∧
    ((2 * i + 11 : Nat) = 2 * j + 11 ↔ i = j)
  omega

/-- local facts survive a memory change that keeps every "input ready" -/
theorem LocL_frame {N : Nat} {m m' : Fld → Int} {pc : PC} (h : LocL N m pc)
    (hi : ∀ i, m (fIn i) = 2 → m' (fIn i) = 2) : LocL N m' pc := by
  have hb : ∀ i, allBelow m i → allBelow m' i := fun i h j hj => hi j (h j hj)
  cases pc <;> simp only [LocL] at h ⊢
  case pbLoad i => exact h
  case pbDone i => exact ⟨h.1, hi i h.2⟩
  case ctTake i => exact ⟨h.1, hi i h.2⟩
  case wA i => exact ⟨h.1, hb _ h.2⟩
  case wB i => exact ⟨h.1, hb _ h.2⟩
  case wC i c => exact ⟨h.1, hb _ h.2⟩
  case ctSub i => exact ⟨h.1, hi i h.2⟩
  case wkCnt i => exact ⟨h.1, hb _ h.2⟩
  case rcStore => exact hb _ h
  case rcWake => exact hb _ h

/-- `hold` only depends on the tokens and on which continuation every thread is executing -/
theorem hold_congr {N : Nat} {s s' : State (AP N)} (ht : ∀ i, s'.mem (fTok i) = s.mem (fTok i))
    (hc : ∀ u, ctOf (s'.loc u) = ctOf (s.loc u)) (i : Nat) : hold s' i ↔ hold s i := by
  unfold hold
  rw [ht]
  constructor
  · rintro (h | ⟨t, h⟩)
    · exact Or.inl h
    · exact Or.inr ⟨t, by rw [← hc]; exact h⟩
  · rintro (h | ⟨t, h⟩)
    · exact Or.inl h
    · exact Or.inr ⟨t, by rw [hc]; exact h⟩

theorem ind_congr {N : Nat} {s s' : State (AP N)} {i : Nat} (h : hold s' i ↔ hold s i) :
    ind s' i = ind s i := by
  unfold ind
  by_cases hh : hold s i
  · simp [hh, h.mpr hh]
  · simp [hh, mt h.mp hh]

theorem csum_congr {N : Nat} {s s' : State (AP N)} (h : ∀ i, hold s' i ↔ hold s i) : csum s' = csum s := by
  unfold csum
  congr 1
  apply List.map_congr_left
  intro i _
  exact ind_congr (h i)

theorem csum_dec {N : Nat} {s s' : State (AP N)} {i : Nat} (hi : i < N) (h1 : hold s i) (h2 : ¬ hold s' i)
    (h : ∀ j, j ≠ i → (hold s' j ↔ hold s j)) : csum s' + 1 = csum s := by
  have := sum_update (ths := List.range N) List.nodup_range (List.mem_range.mpr hi) (ind s) (ind s')
    (fun j hj => ind_congr (h j hj))
  have e1 : ind s i = 1 := by unfold ind; simp [h1]
  have e2 : ind s' i = 0 := by unfold ind; simp [h2]
  unfold csum
  omega

theorem csum_zero {N : Nat} {s : State (AP N)} (h : csum s = 0) (i : Nat) (hi : i < N) : ¬ hold s i := by
  intro hh
  have h1 : ind s i ≤ csum s := le_sum (List.mem_range.mpr hi) (ind s)
  have e1 : ind s i = 1 := by unfold ind; simp [hh]
  omega

/-- frame lemma: the unparked thread `t` makes a step that keeps the count, the tokens, every
"input ready", and the continuation it is executing -/
theorem inv_neutral {N : Nat} {s : State (AP N)} (I : Inv N s) (t : TId) (hp : s.parked t = none)
    (m' : Fld → Int) (l' : PC) (h0 : m' 0 = s.mem 0) (htk : ∀ i, m' (fTok i) = s.mem (fTok i))
    (hin : ∀ i, s.mem (fIn i) = 2 → m' (fIn i) = 2) (hct : ctOf l' = ctOf (s.loc t))
    (hl : LocL N m' l') (hrs : m' 1 = 2 → allBelow m' N) :
    Inv N (setLoc { s with mem := m' } t l') := by
  have hc : ∀ u, ctOf ((setLoc { s with mem := m' } t l').loc u) = ctOf (s.loc u) := by
    intro u
    simp only [setLoc_loc]
    split
    · rename_i hut; rw [hut]; exact hct
    · rfl
  have hh := hold_congr (s := s) (s' := setLoc { s with mem := m' } t l') htk hc
  refine ⟨fun u f b hu => ?_, fun i => by show m' _ = 0 ∨ m' _ = 1; rw [htk]; exact I.tk i,
    fun i hi => by show m' _ = 0; rw [htk]; exact I.tn i hi, fun u v i hu hv => ?_, fun i u hi => ?_,
    ?_, fun i hi => ?_, fun u => ?_, hrs⟩
  · simp only [setLoc_parked] at hu
    have hut : u ≠ t := fun h' => by rw [h', hp] at hu; cases hu
    simpa [hut] using I.pk u f b hu
  · rw [hc] at hu hv; exact I.uq u v i hu hv
  · rw [hc]; exact I.tx i u (by rw [← htk]; exact hi)
  · show m' 0 = _
    rw [h0, csum_congr hh]; exact I.cnt
  · rcases I.pp i hi with h | h
    · exact Or.inl ((hh i).mpr h)
    · exact Or.inr (hin i h)
  · simp only [setLoc_loc]
    split
    · exact hl
    · exact LocL_frame (I.lc u) hin

set_option hygiene false in
macro "l_norm" : tactic => `(tactic| (
  simp only [op, effRes, Option.bind_some, Option.bind_none, reduceCtorEq] at h
  try split at h
  all_goals (try simp only [Option.some.injEq, Prod.mk.injEq, reduceCtorEq] at h)
  all_goals (try obtain ⟨rfl, rfl⟩ := h)
  all_goals (try contradiction)))

theorem allBelow_succ {m : Fld → Int} {i : Nat} (h : allBelow m i) (hi : m (fIn i) = 2) :
    allBelow m (i + 1) := by
  intro j hj
  by_cases hji : j = i
  · rw [hji]; exact hi
  · exact h j (by omega)

theorem LocL_next {N : Nat} {m : Fld → Int} {i : Nat} (hb : allBelow m i) (hi : m (fIn i) = 2) :
    LocL N m (next N i) := by
  simp only [next]
  split
  · rename_i h1; exact ⟨h1, allBelow_succ hb hi⟩
  · intro j hj
    exact allBelow_succ hb hi j (by omega)

theorem ctOf_next {N : Nat} (i : Nat) : ctOf (next N i) = none := by
  simp only [next]; split <;> rfl

theorem inv_step {N : Nat} (hN : 1 ≤ N) {s s' : State (AP N)} {t : TId} (I : Inv N s)
    (hx : exec s (.step t) = some s') : Inv N s' := by
  obtain ⟨hp, hcs⟩ := exec_step_eff hx
  rcases hcs with ⟨f, cur, b, ho, hm, rfl⟩ | ⟨r, m', h, rfl⟩
  · -- park
    refine ⟨fun u g b' hu => ?_, I.tk, I.tn, I.uq, I.tx, I.cnt, I.pp, I.lc, I.rs⟩
    simp only [setParked_parked] at hu
    split at hu
    · rename_i hut
      subst hut
      have ho' : op (s.loc u) = some (.fwait f cur b) := ho
      cases hpc : s.loc u <;> rw [hpc] at ho' <;> simp [op] at ho'
      · exact Or.inl ⟨_, _, hpc⟩
      · exact Or.inr ⟨_, hpc⟩
    · exact I.pk u g b' hu
  have hop : (AP N).op (s.loc t) = op (s.loc t) := rfl
  have hcont : ∀ r, (AP N).cont (s.loc t) r = cont N (s.loc t) r := fun _ => rfl
  rw [hop] at h
  rw [hcont]
  have hlc := I.lc t
  have hsame : ∀ l', ctOf l' = ctOf (s.loc t) → LocL N s.mem l' →
      Inv N (setLoc { s with mem := s.mem } t l') :=
    fun l' h1 h2 => inv_neutral I t hp s.mem l' rfl (fun _ => rfl) (fun _ h => h) h1 h2 I.rs
  cases hl : s.loc t <;> rw [hl] at h hlc
  case idle => simp [op] at h
  case done => simp [op] at h
  case bad => simp [op] at h
  case pbDone => simp [op] at h
  case inWake => simp [op, effRes] at h
  case rcWake => simp [op, effRes] at h
  case inStore i =>
    l_norm
    have hin : ∀ j, s.mem (fIn j) = 2 → upd s.mem (fIn i) 2 (fIn j) = 2 := by
      intro j hj
      by_cases hij : j = i
      · subst hij; simp
      · rw [upd_other _ _ _ _ (fun hh => hij ((fld_ne j i).2.2.2.2.2.1.mp hh))]; exact hj
    refine inv_neutral I t hp _ _ (upd_other _ _ _ _ (fld_ne i i).1.symm)
      (fun j => upd_other _ _ _ _ (fld_ne i j).2.2.2.2.1.symm) hin (by rw [hl]; rfl) (by simp [cont, LocL])
      (fun hr => ?_)
    rw [upd_other _ _ _ _ (fld_ne i i).2.1.symm] at hr
    exact fun j hj => hin j (I.rs hr j hj)
  case ctTake i =>
    obtain ⟨hiN, hir⟩ := hlc
    l_norm
    · -- the continuation of input `i` starts: the token goes to the thread
      rename_i htok
      have htk' : ∀ j, j ≠ i → upd s.mem (fTok i) 0 (fTok j) = s.mem (fTok j) :=
        fun j hj => upd_other _ _ _ _ (fun hh => hj ((fld_ne j i).2.2.2.2.2.2.mp hh))
      have hfi : ∀ j, upd s.mem (fTok i) 0 (fIn j) = s.mem (fIn j) :=
        fun j => upd_other _ _ _ _ (fld_ne j i).2.2.2.2.1
      have hnone : ∀ u, ctOf (s.loc u) ≠ some i := fun u => I.tx i u htok
      have hloc : ∀ u, ctOf ((setLoc { s with mem := upd s.mem (fTok i) 0 } t (cont N (.ctTake i) (s.mem (fTok i)))).loc u)
          = if u = t then some i else ctOf (s.loc u) := by
        intro u
        simp only [setLoc_loc]
        split
        · simp [cont, htok, ctOf]
        · rfl
      have hh : ∀ j, hold (setLoc { s with mem := upd s.mem (fTok i) 0 } t (cont N (.ctTake i) (s.mem (fTok i)))) j ↔ hold s j := by
        intro j
        unfold hold
        by_cases hji : j = i
        · subst hji
          constructor
          · intro _; exact Or.inl htok
          · intro _; exact Or.inr ⟨t, by rw [hloc]; simp⟩
        · show (upd s.mem (fTok i) 0 (fTok j) = 1 ∨ _) ↔ _
          rw [htk' j hji]
          constructor
          · rintro (h1 | ⟨u, h1⟩)
            · exact Or.inl h1
            · rw [hloc] at h1
              split at h1
              · exact absurd (Option.some.inj h1).symm hji
              · exact Or.inr ⟨u, h1⟩
          · rintro (h1 | ⟨u, h1⟩)
            · exact Or.inl h1
            · refine Or.inr ⟨u, ?_⟩
              rw [hloc]
              have hut : u ≠ t := fun h' => by rw [h', hl] at h1; cases h1
              rw [if_neg hut]; exact h1
      refine ⟨fun u f b hu => ?_, fun j => ?_, fun j hj => ?_, fun u v j hu hv => ?_, fun j u hj => ?_, ?_,
        fun j hj => ?_, fun u => ?_, fun hr => ?_⟩
      · simp only [setLoc_parked] at hu
        have hut : u ≠ t := fun h' => by rw [h', hp] at hu; cases hu
        simpa [hut] using I.pk u f b hu
      · show upd s.mem (fTok i) 0 (fTok j) = 0 ∨ upd s.mem (fTok i) 0 (fTok j) = 1
        by_cases hji : j = i
        · subst hji; left; simp
        · rw [htk' j hji]; exact I.tk j
      · show upd s.mem (fTok i) 0 (fTok j) = 0
        have hji : j ≠ i := by omega
        rw [htk' j hji]; exact I.tn j hj
      · rw [hloc] at hu hv
        split at hu <;> split at hv
        · rename_i h1 h2; rw [h1, h2]
        · rename_i h1 h2; exact absurd ((Option.some.inj hu) ▸ hv) (hnone v)
        · rename_i h1 h2; exact absurd ((Option.some.inj hv) ▸ hu) (hnone u)
        · exact I.uq u v j hu hv
      · have hj' : upd s.mem (fTok i) 0 (fTok j) = 1 := hj
        have hji : j ≠ i := fun hh => by subst hh; simp at hj'
        rw [htk' j hji] at hj'
        rw [hloc]
        split
        · exact fun hh => hji (Option.some.inj hh).symm
        · exact I.tx j u hj'
      · show upd s.mem (fTok i) 0 0 = _
        rw [upd_other _ _ _ _ (fld_ne i i).2.2.1.symm, csum_congr hh]; exact I.cnt
      · rcases I.pp j hj with h1 | h1
        · exact Or.inl ((hh j).mpr h1)
        · exact Or.inr (by show upd s.mem (fTok i) 0 (fIn j) = 2; rw [hfi]; exact h1)
      · simp only [setLoc_loc, setLoc_mem]
        split
        · simp only [cont, htok, if_true, LocL]; exact ⟨hiN, by rw [hfi]; exact hir⟩
        · exact LocL_frame (I.lc u) (fun j hj => by rw [hfi]; exact hj)
      · have hr' : upd s.mem (fTok i) 0 1 = 2 := hr
        rw [upd_other _ _ _ _ (fld_ne i i).2.2.2.1.symm] at hr'
        exact fun j hj => by show upd s.mem (fTok i) 0 (fIn j) = 2; rw [hfi]; exact I.rs hr' j hj
    · rename_i htok
      exact hsame _ (by rw [hl]; simp [cont, htok, ctOf]) (by simp [cont, htok, LocL])
  case pbLoad i =>
    l_norm
    refine hsame _ (by rw [hl]; simp only [cont]; split <;> rfl) ?_
    simp only [cont]
    split
    · rename_i hr; exact ⟨hlc, hr⟩
    · trivial
  case wA i =>
    l_norm
    refine hsame _ ?_ ?_
    · rw [hl]; simp only [cont]
      split
      · exact ctOf_next i
      · rfl
    · simp only [cont]
      split
      · rename_i hr; exact LocL_next hlc.2 hr
      · exact hlc
  case wB i =>
    l_norm
    refine hsame _ ?_ ?_
    · rw [hl]; simp only [cont]
      split
      · exact ctOf_next i
      · rfl
    · simp only [cont]
      split
      · rename_i hr; exact LocL_next hlc.2 hr
      · exact hlc
  case wC i c =>
    l_norm
    exact hsame _ (by rw [hl]; rfl) hlc
  case ctSub i =>
    l_norm
    obtain ⟨hiN, hir⟩ := hlc
    have htki : s.mem (fTok i) = 0 := by
      rcases I.tk i with h1 | h1
      · exact h1
      · exact absurd (by rw [hl]; rfl) (I.tx i t h1)
    have htk' : ∀ j, upd s.mem 0 (s.mem 0 - 1) (fTok j) = s.mem (fTok j) :=
      fun j => upd_other _ _ _ _ (fld_ne j j).2.2.1
    have hfi : ∀ j, upd s.mem 0 (s.mem 0 - 1) (fIn j) = s.mem (fIn j) :=
      fun j => upd_other _ _ _ _ (fld_ne j j).1
    have hnone : ctOf (cont N (.ctSub i) (s.mem 0)) = none := by
      simp only [cont]; split <;> rfl
    have hloc : ∀ u, ctOf ((setLoc { s with mem := upd s.mem 0 (s.mem 0 - 1) } t (cont N (.ctSub i) (s.mem 0))).loc u)
        = if u = t then none else ctOf (s.loc u) := by
      intro u
      simp only [setLoc_loc]
      split
      · exact hnone
      · rfl
    have hhi : ¬ hold (setLoc { s with mem := upd s.mem 0 (s.mem 0 - 1) } t (cont N (.ctSub i) (s.mem 0))) i := by
      unfold hold
      rintro (h1 | ⟨u, h1⟩)
      · have h1' : upd s.mem 0 (s.mem 0 - 1) (fTok i) = 1 := h1
        rw [htk'] at h1'; omega
      · rw [hloc] at h1
        split at h1
        · cases h1
        · rename_i hut; exact hut (I.uq u t i h1 (by rw [hl]; rfl))
    have hhj : ∀ j, j ≠ i → (hold (setLoc { s with mem := upd s.mem 0 (s.mem 0 - 1) } t (cont N (.ctSub i) (s.mem 0))) j ↔ hold s j) := by
      intro j hji
      unfold hold
      show (upd s.mem 0 (s.mem 0 - 1) (fTok j) = 1 ∨ _) ↔ _
      rw [htk']
      constructor
      · rintro (h1 | ⟨u, h1⟩)
        · exact Or.inl h1
        · rw [hloc] at h1
          split at h1
          · cases h1
          · exact Or.inr ⟨u, h1⟩
      · rintro (h1 | ⟨u, h1⟩)
        · exact Or.inl h1
        · refine Or.inr ⟨u, ?_⟩
          rw [hloc]
          have hut : u ≠ t := fun h' => by
            rw [h', hl] at h1; exact hji (Option.some.inj h1).symm
          rw [if_neg hut]; exact h1
    have hcs := csum_dec hiN (Or.inr ⟨t, by rw [hl]; rfl⟩) hhi hhj
    refine ⟨fun u f b hu => ?_, fun j => by simp only [setLoc_mem]; rw [htk']; exact I.tk j,
      fun j hj => by simp only [setLoc_mem]; rw [htk']; exact I.tn j hj, fun u v j hu hv => ?_,
      fun j u hj => ?_, ?_, fun j hj => ?_, fun u => ?_, fun hr => ?_⟩
    · simp only [setLoc_parked] at hu
      have hut : u ≠ t := fun h' => by rw [h', hp] at hu; cases hu
      simpa [hut] using I.pk u f b hu
    · rw [hloc] at hu hv
      split at hu
      · cases hu
      · split at hv
        · cases hv
        · exact I.uq u v j hu hv
    · have hj' : upd s.mem 0 (s.mem 0 - 1) (fTok j) = 1 := hj
      rw [htk'] at hj'
      rw [hloc]
      split
      · simp
      · exact I.tx j u hj'
    · show upd s.mem 0 (s.mem 0 - 1) 0 = _
      rw [upd_same]
      have := I.cnt
      omega
    · by_cases hji : j = i
      · subst hji; right; simp only [setLoc_mem]; rw [hfi]; exact hir
      · rcases I.pp j hj with h1 | h1
        · exact Or.inl ((hhj j hji).mpr h1)
        · right; simp only [setLoc_mem]; rw [hfi]; exact h1
    · simp only [setLoc_loc, setLoc_mem]
      split
      · simp only [cont]; split <;> simp [LocL]
      · exact LocL_frame (I.lc u) (fun j hj => by rw [hfi]; exact hj)
    · have hr' : upd s.mem 0 (s.mem 0 - 1) 1 = 2 := hr
      rw [upd_other _ _ _ _ (by decide)] at hr'
      exact fun j hj => by simp only [setLoc_mem]; rw [hfi]; exact I.rs hr' j hj
  case rcCas g =>
    l_norm
    · rename_i h0
      have hfi : ∀ j, upd s.mem 1 1 (fIn j) = s.mem (fIn j) := fun j => upd_other _ _ _ _ (fld_ne j j).2.1
      refine inv_neutral I t hp _ _ (upd_other _ _ _ _ (by decide))
        (fun j => upd_other _ _ _ _ (fld_ne j j).2.2.2.1) (fun j hj => by rw [hfi]; exact hj)
        (by rw [hl]; simp [cont, h0, ctOf]) ?_ (fun hr => by simp [upd] at hr)
      simp only [cont, h0, if_true, LocL]
      exact ⟨by omega, fun j hj => by omega⟩
    · rename_i h0
      refine hsame _ (by rw [hl]; simp only [cont, if_neg h0]; split <;> rfl) ?_
      simp only [cont, if_neg h0]; split <;> simp [LocL]
  case wkCnt i =>
    l_norm
    obtain ⟨hiN, hb⟩ := hlc
    refine hsame _ (by rw [hl]; simp only [cont]; split <;> rfl) ?_
    simp only [cont]
    split
    · rename_i h0
      have hz : csum s = 0 := by have := I.cnt; omega
      intro j hj
      rcases I.pp j hj with h1 | h1
      · exact absurd h1 (csum_zero hz j hj)
      · exact h1
    · exact ⟨hiN, hb⟩
  case rcStore =>
    l_norm
    have hfi : ∀ j, upd s.mem 1 2 (fIn j) = s.mem (fIn j) := fun j => upd_other _ _ _ _ (fld_ne j j).2.1
    have hall : allBelow (upd s.mem 1 2) N := fun j hj => by rw [hfi]; exact hlc j hj
    exact inv_neutral I t hp _ _ (upd_other _ _ _ _ (by decide))
      (fun j => upd_other _ _ _ _ (fld_ne j j).2.2.2.1) (fun j hj => by rw [hfi]; exact hj)
      (by rw [hl]; rfl) (by simp only [cont, LocL]; exact hall) (fun _ => hall)
  case gtLoad =>
    l_norm
    refine hsame _ (by rw [hl]; simp only [cont]; (repeat' split) <;> rfl) ?_
    simp only [cont]; (repeat' split) <;> simp [LocL]
  case gwLoad =>
    l_norm
    refine hsame _ (by rw [hl]; simp only [cont]; split <;> rfl) ?_
    simp only [cont]; split <;> simp [LocL]
  case gwWait c =>
    l_norm
    exact hsame _ (by rw [hl]; rfl) (by simp [cont, LocL])
  case irLoad =>
    l_norm
    exact hsame _ (by rw [hl]; rfl) (by simp [cont, LocL])

/-- frame lemma for the actions that leave the memory alone -/
theorem inv_relabel {N : Nat} {s s' : State (AP N)} (I : Inv N s) (hm : s'.mem = s.mem)
    (hloc : ∀ u, ctOf (s'.loc u) = ctOf (s.loc u) ∧ LocL N s.mem (s'.loc u))
    (hpk : ∀ u f b, s'.parked u = some (f, b) → s.parked u = some (f, b) ∧ s'.loc u = s.loc u) :
    Inv N s' := by
  have hh := hold_congr (s := s) (s' := s') (fun i => by rw [hm]) (fun u => (hloc u).1)
  refine ⟨fun u f b hu => ?_, by rw [hm]; exact I.tk, by rw [hm]; exact I.tn, fun u v i hu hv => ?_,
    fun i u hi => ?_, by rw [hm, csum_congr hh]; exact I.cnt, fun i hi => ?_, fun u => ?_,
    by rw [hm]; exact I.rs⟩
  · obtain ⟨h1, h2⟩ := hpk u f b hu
    rw [h2]; exact I.pk u f b h1
  · rw [(hloc u).1] at hu; rw [(hloc v).1] at hv; exact I.uq u v i hu hv
  · rw [(hloc u).1]; rw [hm] at hi; exact I.tx i u hi
  · rw [hm]
    rcases I.pp i hi with h | h
    · exact Or.inl ((hh i).mpr h)
    · exact Or.inr h
  · rw [hm]; exact (hloc u).2

theorem unpark_L {N : Nat} {m : Fld → Int} {pc : PC} (h : LocL N m pc)
    (hpc : (∃ i cur, pc = .wC i cur) ∨ (∃ cur, pc = .gwWait cur)) (r : Int) :
    ctOf (cont N pc r) = ctOf pc ∧ LocL N m (cont N pc r) := by
  rcases hpc with ⟨i, cur, rfl⟩ | ⟨cur, rfl⟩
  · exact ⟨rfl, h⟩
  · exact ⟨rfl, trivial⟩

theorem inv_exec {N : Nat} (hN : 1 ≤ N) {s s' : State (AP N)} (a : Act (AP N)) (I : Inv N s)
    (h : exec s a = some s') : Inv N s' := by
  cases a with
  | step t => exact inv_step hN I h
  | wake t ws =>
    obtain ⟨hp, f, n, ho, hnd, hsub, hall, htw, rfl⟩ := exec_wake_inv h
    have ho' : op (s.loc t) = some (.fwake f n) := ho
    refine inv_relabel I (by simp) (fun u => ?_) (fun u g b hu => ?_)
    · simp only [setLoc_loc, unparkAll_loc s ws hnd]
      by_cases hut : u = t
      · subst hut
        simp only [if_true, if_neg htw]
        show ctOf (cont N (s.loc u) _) = _ ∧ LocL N s.mem (cont N (s.loc u) _)
        cases hpc : s.loc u <;> rw [hpc] at ho' <;> simp [op] at ho' <;> exact ⟨rfl, trivial⟩
      · simp only [if_neg hut]
        by_cases huw : u ∈ ws
        · simp only [if_pos huw]
          obtain ⟨_, b, hb⟩ := (mem_parkedOn s f u).mp (hsub u huw)
          exact unpark_L (I.lc u) (I.pk u f b hb) _
        · simp only [if_neg huw]; exact ⟨trivial, I.lc u⟩
    · simp only [setLoc_parked, unparkAll_parked] at hu
      split at hu
      · cases hu
      · rename_i huw
        have hut : u ≠ t := fun h' => by rw [h', hp] at hu; cases hu
        exact ⟨hu, by simp [hut, huw, unparkAll_loc s ws hnd]⟩
  | timeout t =>
    obtain ⟨p, r, hp, rfl⟩ := exec_unpark_inv (Or.inl h)
    obtain ⟨f, b⟩ := p
    refine inv_relabel I (by simp) (fun u => ?_) (fun u g b' hu => ?_)
    · simp only [setLoc_loc, setParked_loc]
      split
      · rename_i hut; subst hut
        exact unpark_L (I.lc u) (I.pk u f b hp) _
      · exact ⟨rfl, I.lc u⟩
    · simp only [setLoc_parked, setParked_parked] at hu
      split at hu
      · cases hu
      · rename_i hut; exact ⟨hu, by simp [hut]⟩
  | spurious t =>
    obtain ⟨p, r, hp, rfl⟩ := exec_unpark_inv (Or.inr h)
    obtain ⟨f, b⟩ := p
    refine inv_relabel I (by simp) (fun u => ?_) (fun u g b' hu => ?_)
    · simp only [setLoc_loc, setParked_loc]
      split
      · rename_i hut; subst hut
        exact unpark_L (I.lc u) (I.pk u f b hp) _
      · exact ⟨rfl, I.lc u⟩
    · simp only [setLoc_parked, setParked_parked] at hu
      split at hu
      · cases hu
      · rename_i hut; exact ⟨hu, by simp [hut]⟩
  | call t l =>
    obtain ⟨hp, ho, he, hm, hpk, hloc, hth⟩ := exec_call_inv h
    refine inv_relabel I hm (fun u => ?_) (fun u g b hu => ?_)
    · rw [hloc]
      split
      · rename_i hut; subst hut
        have he' : entry N (s.loc u) l = true := he
        simp only [entry, Bool.or_eq_true, Bool.and_eq_true] at he'
        rcases he' with ⟨h1, h2⟩ | h2
        · have hidle : ctOf (s.loc u) = none := by
            generalize s.loc u = pc at h1
            cases pc <;> simp [idleOrDone] at h1 <;> rfl
          rw [hidle]
          cases l <;> simp [isEntry] at h2 <;> first | exact ⟨rfl, trivial⟩ | exact ⟨rfl, h2⟩
        · have hlt := I.lc u
          cases hpc : s.loc u <;> rw [hpc] at h2 hlt <;> cases l <;> simp at h2
          subst h2
          exact ⟨rfl, hlt⟩
      · exact ⟨rfl, I.lc u⟩
    · rw [hpk] at hu
      have hut : u ≠ t := fun h' => by rw [h', hp] at hu; cases hu
      exact ⟨hu, by rw [hloc, if_neg hut]⟩

theorem init_tok (N i : Nat) : (init N).mem (fTok i) = if i < N then 1 else 0 := by
  show (if fTok i = 0 then (N : Int) else if 10 ≤ fTok i ∧ fTok i < 10 + 2 * N then 1 else 0) = _
  have h0 : fTok i ≠ 0 := (fld_ne i i).2.2.1
  rw [if_neg h0]
  by_cases hi : i < N
  · rw [if_pos hi, if_pos]
    show 10 ≤ 2 * i + 11 ∧ 2 * i + 11 < 10 + 2 * N
    omega
  · rw [if_neg hi, if_neg]
    show ¬ (10 ≤ 2 * i + 11 ∧ 2 * i + 11 < 10 + 2 * N)
    omega

theorem csum_init (N : Nat) : csum (init N : State (AP N)) = N := by
  unfold csum
  have : ∀ i ∈ List.range N, ind (init N : State (AP N)) i = 1 := by
    intro i hi
    have hiN : i < N := List.mem_range.mp hi
    unfold ind
    have : hold (init N : State (AP N)) i := Or.inl (by rw [init_tok, if_pos hiN])
    simp [this]
  rw [List.map_congr_left this]
  clear this
  induction N with
  | zero => rfl
  | succ n ih => simp [List.range_succ, ih]

theorem inv_init (N : Nat) : Inv N (init N : State (AP N)) := by
  refine ⟨fun u f b h => (by cases h), fun i => ?_, fun i hi => ?_, fun t u i h => (by cases h),
    fun i t _ h => (by cases h), ?_, fun i hi => Or.inl (Or.inl ?_), fun _ => trivial, fun h => ?_⟩
  · rw [init_tok]; split <;> simp
  · rw [init_tok, if_neg (by omega)]
  · rw [csum_init]; rfl
  · rw [init_tok, if_pos hi]
  · simp [init, initState] at h

theorem inv_reachable {N : Nat} (hN : 1 ≤ N) {s : State (proto N)} (h : Reachable (init N) s) :
    Inv N (s : State (AP N)) :=
  invariant (P := AP N) (Inv N) (inv_init N) (fun _ a _ I he => inv_exec hN a I he) s h

end Dispenso.WhenComb.All
