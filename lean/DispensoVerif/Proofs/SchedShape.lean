import DispensoVerif.Proofs.SchedStep

/-!
The effect of a `Step` on the frame stack of the acting thread, classified into a few shapes
(push of a fresh frame, pop, in-place update of the top frame, begin of a body, end of a packaged
body), with what the history-dependent proofs (C04 trace theorem, C47 second theorem) need to know
about the updated top frame.
-/
namespace Dispenso.Sched

/-- obligation: the frame holds a passed cancel check of set `S` that no body has consumed yet —
the package wrapper of a taken / pool-inlined task passed the guard (`guarded`, `inlGuarded`), the
call passed a cancel check of its set (`guardOK`), or it decided after such a check to run the
reserved task unpackaged on the caller (`inlTs`).  Every `begin_` of the frame consumes it. -/
def Ob (f : Frame) (S : Nat) : Prop :=
  f.pend = .guarded S ∨ f.pend = .inlGuarded S ∨ (f.pend = .inlTs ∧ f.set = S) ∨
    (f.guardOK = true ∧ f.set = S)
/-- the event is a cancel check of `S` that read "not cancelled", accepted while `S` is not cancelled -/
def Fresh (s : St) (e : Ev) (S : Nat) : Prop := ∃ site, e = .tsGuard S false site ∧ S ∉ s.cancelled

inductive Shape (s : St) (t : Nat) (f0 : Frame) (rest : List Frame) (e : Ev) (s' : St) : Prop
  | same (h : s'.thr = s.thr) (hb : ∀ id, e ≠ .begin_ id)
  | push (F : Frame) (h : s'.thr = upd s.thr t (F :: f0 :: rest))
      (hF : F.pend = .none ∧ F.guardOK = false) (hb : ∀ id, e ≠ .begin_ id)
  | pop (h : s'.thr = upd s.thr t rest) (hk : f0.kind ≠ .base) (hb : ∀ id, e ≠ .begin_ id)
  | top (f0' : Frame) (h : s'.thr = upd s.thr t (f0' :: rest)) (hb : ∀ id, e ≠ .begin_ id)
      (hset : f0'.set = f0.set)
      (hfq : f0'.fq = f0.fq ∨
        (e = .inline0 ∧ (s.nThreads = 0 ∨ s.resizing = true ∨ f0.zeroPath = true)))
      (hO : ∀ S, Ob f0' S → Ob f0 S ∨ Fresh s e S)
  | begin (F f0' : Frame) (id : Nat) (he : e = .begin_ id)
      (h : s'.thr = upd s.thr t (F :: f0' :: rest)) (hF : F.pend = .none ∧ F.guardOK = false)
      (hp : f0'.pend = .none) (hg : f0'.guardOK = false) (hset : f0'.set = f0.set)
      (hfq : f0'.fq = f0.fq)
  | endPk (g : Frame) (rest' : List Frame) (g' : Frame) (hr : rest = g :: rest')
      (h : s'.thr = upd s.thr t (g' :: rest')) (hk : f0.kind ≠ .base) (hb : ∀ id, e ≠ .begin_ id)
      (hp : g'.pend = g.pend) (hg : g'.guardOK = g.guardOK) (hset : g'.set = g.set)
      (hfq : g'.fq = g.fq)
  | endNil (l : List Frame) (h : s'.thr = upd s.thr t l) (hr : rest = []) (hk : f0.kind = .run)

theorem Step.shape {s s' : St} {t : Nat} {f0 : Frame} {rest : List Frame} {e : Ev}
    (h : Step s t f0 rest e s') : Shape s t f0 rest e s' := by
  cases h
  case quiesce | rings | ctor | resizeBegin | resizeEnd | dtorBegin | dtorEnd | tsCancel |
      tsZeroOther | tsCapture =>
    exact Shape.same rfl (fun _ h => by cases h)
  case callSched | callBulk | callWait | callCancel | callResize | callPoolDtor =>
    exact Shape.push _ rfl ⟨rfl, rfl⟩ (fun _ h => by cases h)
  case retSched hk _ => exact Shape.pop rfl (by simp [hk]) (fun _ h => by cases h)
  case retBulk hk _ => exact Shape.pop rfl (by simp [hk]) (fun _ h => by cases h)
  case endPlain hk _ _ _ => exact Shape.pop rfl (by simp [hk]) (fun _ h => by cases h)
  case retWait hk _ _ _ _ _ => exact Shape.pop rfl (by simp [hk]) (fun _ h => by cases h)
  case retCancel hk _ _ => exact Shape.pop rfl (by simp [hk]) (fun _ h => by cases h)
  case retResize hk _ _ => exact Shape.pop rfl (by simp [hk]) (fun _ h => by cases h)
  case retPoolDtor hk _ _ => exact Shape.pop rfl (by simp [hk]) (fun _ h => by cases h)
  case beginTook | beginGuarded | beginInlPool | beginInlGuarded | beginInlTs =>
    exact Shape.begin _ _ _ rfl rfl ⟨rfl, rfl⟩ rfl rfl rfl rfl
  case endPkNil hk _ _ _ hr => exact Shape.endNil _ rfl hr hk
  case endPkCons g rest' hk _ _ _ hr _ =>
    exact Shape.endPk g rest' _ hr rfl (by simp [hk]) (fun _ h => by cases h) rfl rfl rfl rfl
  case inline0 hk hp hn =>
    refine Shape.top _ rfl (fun _ h => by cases h) rfl (Or.inr ⟨rfl, hn⟩) ?_
    intro S
    simp only [Ob, reduceCtorEq, false_and, false_or]
    exact fun h => Or.inl (Or.inr (Or.inr (Or.inr h)))
  case guardTookPass set hc hp h0 hq hpd =>
    refine Shape.top _ rfl (fun _ h => by cases h) rfl (Or.inl rfl) ?_
    intro S h
    simp only [Ob, Pend.guarded.injEq, reduceCtorEq, false_and, false_or] at h
    rcases h with h | h
    · subst h
      exact Or.inr ⟨0, rfl, hc⟩
    · exact Or.inl (Or.inr (Or.inr (Or.inr h)))
  case guardInlPass set id0 hc hp hr h0 htc hpd =>
    refine Shape.top _ rfl (fun _ h => by cases h) rfl (Or.inl rfl) ?_
    intro S h
    simp only [Ob, Pend.inlGuarded.injEq, reduceCtorEq, false_and, false_or] at h
    rcases h with h | h
    · subst h
      exact Or.inr ⟨0, rfl, hc⟩
    · exact Or.inl (Or.inr (Or.inr (Or.inr h)))
  case guardOk set site hc hs0 hk hset h0 hp =>
    refine Shape.top _ rfl (fun _ h => by cases h) rfl (Or.inl rfl) ?_
    intro S h
    simp only [Ob, hp, reduceCtorEq, false_and, false_or, true_and] at h
    rw [hset] at h
    subst h
    exact Or.inr ⟨site, rfl, hc⟩
  case tsInline set hk hset h0 hp hg hfq =>
    refine Shape.top _ rfl (fun _ h => by cases h) rfl (Or.inl rfl) ?_
    intro S h
    simp only [Ob, reduceCtorEq, false_and, false_or, or_false, true_and] at h
    exact Or.inl (Or.inr (Or.inr (Or.inr ⟨hg, h⟩)))
  all_goals
    refine Shape.top _ rfl (fun _ h => by cases h) rfl (Or.inl rfl) ?_ <;> intro S <;>
      simp_all [Ob, placed]


theorem Shape.thr_other {s s' : St} {t : Nat} {f0 : Frame} {rest : List Frame} {e : Ev}
    (h : Shape s t f0 rest e s') {t' : Nat} (ht : t' ≠ t) : s'.thr t' = s.thr t' := by
  cases h <;> simp [*]

/-! ## frames addressed by their depth (position from the bottom of the stack) -/

/-- the frame at depth `k` (0 = bottom) of a stack given innermost-first -/
def frameAt (l : List Frame) (k : Nat) : Option Frame := l.reverse[k]?

theorem frameAt_lt {l : List Frame} {k : Nat} {f : Frame} (h : frameAt l k = some f) :
    k < l.length := by
  unfold frameAt at h
  have := (List.getElem?_eq_some_iff.1 h).1
  simpa using this

theorem frameAt_cons_lt {l : List Frame} {k : Nat} (a : Frame) (h : k < l.length) :
    frameAt (a :: l) k = frameAt l k := by
  unfold frameAt
  rw [List.reverse_cons, List.getElem?_append_left (by simpa using h)]

theorem frameAt_cons_top (a : Frame) (l : List Frame) : frameAt (a :: l) l.length = some a := by
  unfold frameAt
  rw [List.reverse_cons, List.getElem?_append_right (by simp)]
  simp

/-- two stacks that differ only in their top frame: the frames at the same depth agree, except
the two top frames -/
theorem frameAt_top {a b : Frame} {l : List Frame} {k : Nat} {f f' : Frame}
    (h1 : frameAt (a :: l) k = some f) (h2 : frameAt (b :: l) k = some f') :
    f = f' ∨ (k = l.length ∧ f = a ∧ f' = b) := by
  have hk := frameAt_lt h1
  by_cases hlt : k < l.length
  · rw [frameAt_cons_lt _ hlt] at h1 h2
    rw [h1] at h2
    exact Or.inl (Option.some.inj h2)
  · have : k = l.length := by simp at hk; omega
    subst this
    rw [frameAt_cons_top] at h1 h2
    exact Or.inr ⟨rfl, (Option.some.inj h1).symm, (Option.some.inj h2).symm⟩

end Dispenso.Sched
