import DispensoVerif.Core.HB
import DispensoVerif.Proofs.Spsc
/-
C10 for `SPSCRingBuffer`: the element slots (fields ≥ 2) are plain data; `head_` (field 0) and
`tail_` (field 1) are the only synchronisation.  With the ghost positions of `Proofs/Spsc.lean`
(`hA` pops released, `tA` pushes published) the K slots of the window `[hA, hA + K)` are split into
taken / filled / free ranges; the invariant says which thread, and which index word's release
sequence, has every earlier access of a slot in its happens-before past.
-/
namespace Dispenso.Spsc
open Dispenso.Conc Dispenso.HB

/-- slots are plain data; `o` is the table of declared orders -/
def hbSpec (K : Nat) (o : L → Nat) : Spec (proto K) := { plain := fun f => decide (2 ≤ f), ord := o }

/-- the orders race freedom of the slots needs (a sub-table of `binding.reqOrder`) -/
def need : L → Nat
  | .pLoadH _ _ => 2 | .pPub _ => 3 | .cLoadT _ => 2 | .cPub _ _ => 3
  | .bLoadH _ _ => 2 | .bPub _ _ => 3 | .qLoadT _ _ => 2 | .qPub _ _ => 3
  | _ => 0

/-- the slot of absolute position `p` -/
def sl (K p : Nat) : Fld := 2 + p % K

theorem sl_add (K p : Nat) : sl K (p + K) = sl K p := by simp [sl]

theorem sl_ne {K a b : Nat} (h1 : a < b) (h2 : b < a + K) : sl K a ≠ sl K b := by
  have := @mod_ne_of_lt K a b h1 h2
  exact fun e => this (Nat.add_left_cancel e)

/-- `w` written-unpublished, `r` reserved by the producer; `k` taken-unreleased, `c` claimed by the
consumer -/
structure HJn (P C : TId) (K : Nat) (d : D) (hA tA w r k c : Nat) : Prop where
  pFill : ∀ p, hA + k ≤ p → p < tA + w → d.cA P (sl K p) = true
  mTail : ∀ p, hA + k ≤ p → p < tA → d.mA 1 (sl K p) = true
  cFree : ∀ p, tA + w ≤ p → p < hA + k + K → d.cA C (sl K p) = true
  mHead : ∀ p, tA + w ≤ p → p < hA + K → d.mA 0 (sl K p) = true
  pRes : ∀ p, tA + w ≤ p → p < tA + r → d.cA P (sl K p) = true
  cRes : ∀ p, hA + k ≤ p → p < hA + c → d.cA C (sl K p) = true

variable {P C : TId} {K : Nat} {d d' : D} {hA tA w r k c r' c' : Nat}

theorem HJn.mono (h : HJn P C K d hA tA w r k c)
    (hc : ∀ u y, d.cA u y = true → d'.cA u y = true)
    (hm : ∀ f y, d.mA f y = true → d'.mA f y = true) (hr : r' ≤ r) (hcc : c' ≤ c) :
    HJn P C K d' hA tA w r' k c' :=
  ⟨fun p a b => hc _ _ (h.pFill p a b), fun p a b => hm _ _ (h.mTail p a b),
   fun p a b => hc _ _ (h.cFree p a b), fun p a b => hm _ _ (h.mHead p a b),
   fun p a b => hc _ _ (h.pRes p a (by omega)), fun p a b => hc _ _ (h.cRes p a (by omega))⟩

/-- the producer acquires `head`: it may reserve any free slots -/
theorem HJn.acqP (h : HJn P C K d hA tA w r k c)
    (hc : ∀ u y, d.cA u y = true → d'.cA u y = true)
    (hm : ∀ f y, d.mA f y = true → d'.mA f y = true)
    (hacq : ∀ y, d.mA 0 y = true → d'.cA P y = true) (hr : tA + r' + 1 ≤ hA + K) :
    HJn P C K d' hA tA w r' k c :=
  ⟨fun p a b => hc _ _ (h.pFill p a b), fun p a b => hm _ _ (h.mTail p a b),
   fun p a b => hc _ _ (h.cFree p a b), fun p a b => hm _ _ (h.mHead p a b),
   fun p a b => hacq _ (h.mHead p a (by omega)), fun p a b => hc _ _ (h.cRes p a b)⟩

/-- the consumer acquires `tail`: it may claim any published slots -/
theorem HJn.acqC (h : HJn P C K d hA tA w r k c)
    (hc : ∀ u y, d.cA u y = true → d'.cA u y = true)
    (hm : ∀ f y, d.mA f y = true → d'.mA f y = true)
    (hacq : ∀ y, d.mA 1 y = true → d'.cA C y = true) (hcc : hA + c' ≤ tA) :
    HJn P C K d' hA tA w r k c' :=
  ⟨fun p a b => hc _ _ (h.pFill p a b), fun p a b => hm _ _ (h.mTail p a b),
   fun p a b => hc _ _ (h.cFree p a b), fun p a b => hm _ _ (h.mHead p a b),
   fun p a b => hc _ _ (h.pRes p a b), fun p a b => hacq _ (h.mTail p a (by omega))⟩

/-- the producer writes the next reserved slot -/
theorem HJn.write (hPC : P ≠ C) (h : HJn P C K d hA tA w r k c)
    (g1 : hA + k ≤ tA + w) (g2 : tA + r + 1 ≤ hA + K) (g3 : hA + c ≤ tA) (hw : w < r)
    (hr : r' ≤ r) :
    d.cA P (sl K (tA + w)) = true ∧
    HJn P C K (d.afterWrite P (sl K (tA + w))) hA tA (w + 1) r' k c := by
  have hCP : ¬ C = P := fun e => hPC e.symm
  refine ⟨h.pRes _ (Nat.le_refl _) (by omega), ?_, ?_, ?_, ?_, ?_, ?_⟩
  · intro p a b
    simp only [afterWrite_cA]
    split
    · simp
    · refine h.pFill p a ?_
      by_cases e : p = tA + w
      · subst e; rename_i hne; exact absurd rfl hne
      · omega
  · intro p a b
    simp only [afterWrite_mA]
    rw [if_neg (sl_ne (by omega) (by omega))]
    exact h.mTail p a b
  · intro p a b
    simp only [afterWrite_cA]
    rw [if_neg (fun e => sl_ne (a := tA + w) (b := p) (by omega) (by omega) e.symm)]
    exact h.cFree p (by omega) b
  · intro p a b
    simp only [afterWrite_mA]
    rw [if_neg (fun e => sl_ne (a := tA + w) (b := p) (by omega) (by omega) e.symm)]
    exact h.mHead p (by omega) b
  · intro p a b
    simp only [afterWrite_cA]
    split
    · simp
    · exact h.pRes p (by omega) (by omega)
  · intro p a b
    simp only [afterWrite_cA]
    rw [if_neg (sl_ne (by omega) (by omega))]
    exact h.cRes p a b

/-- the consumer takes the next claimed slot -/
theorem HJn.take (h : HJn P C K d hA tA w r k c)
    (g1 : hA + k ≤ tA + w) (g2 : tA + r + 1 ≤ hA + K) (g3 : hA + c ≤ tA) (g4 : w ≤ r)
    (hk : k < c) (hcc : c' ≤ c) :
    d.cA C (sl K (hA + k)) = true ∧
    HJn P C K (d.afterWrite C (sl K (hA + k))) hA tA w r (k + 1) c' := by
  refine ⟨h.cRes _ (Nat.le_refl _) (by omega), ?_, ?_, ?_, ?_, ?_, ?_⟩
  · intro p a b
    simp only [afterWrite_cA]
    rw [if_neg (fun e => sl_ne (a := hA + k) (b := p) (by omega) (by omega) e.symm)]
    exact h.pFill p (by omega) b
  · intro p a b
    simp only [afterWrite_mA]
    rw [if_neg (fun e => sl_ne (a := hA + k) (b := p) (by omega) (by omega) e.symm)]
    exact h.mTail p (by omega) b
  · intro p a b
    simp only [afterWrite_cA]
    split
    · simp
    · refine h.cFree p a ?_
      by_cases e : p = hA + k + K
      · subst e; rename_i hne; exact absurd (sl_add K (hA + k)) hne
      · omega
  · intro p a b
    simp only [afterWrite_mA]
    rw [if_neg (fun e => sl_ne (a := hA + k) (b := p) (by omega) (by omega) e.symm)]
    exact h.mHead p a b
  · intro p a b
    simp only [afterWrite_cA]
    rw [if_neg (fun e => sl_ne (a := hA + k) (b := p) (by omega) (by omega) e.symm)]
    exact h.pRes p a b
  · intro p a b
    simp only [afterWrite_cA]
    split
    · simp
    · exact h.cRes p (by omega) (by omega)

/-- the producer publishes what it wrote with a release store to `tail` -/
theorem HJn.pubT (h : HJn P C K d hA tA w r k c) {o : Nat} (ho : isRel o = true) :
    HJn P C K (d.afterStore P 1 o) hA (tA + w) 0 0 k c := by
  refine ⟨?_, ?_, ?_, ?_, ?_, ?_⟩
  · intro p a b; exact h.pFill p a (by omega)
  · intro p a b
    simp only [afterStore_mA, if_true, ho, Bool.true_and]
    exact h.pFill p a b
  · intro p a b; exact h.cFree p (by omega) b
  · intro p a b
    simp only [afterStore_mA]
    rw [if_neg (show ¬ ((0 : Fld) = 1) by decide)]
    exact h.mHead p (by omega) b
  · intro p a b; omega
  · intro p a b; exact h.cRes p a b

/-- the consumer releases what it took with a release store to `head` -/
theorem HJn.pubH (h : HJn P C K d hA tA w r k c) {o : Nat} (ho : isRel o = true) :
    HJn P C K (d.afterStore C 0 o) (hA + k) tA w r 0 0 := by
  refine ⟨?_, ?_, ?_, ?_, ?_, ?_⟩
  · intro p a b; exact h.pFill p (by omega) b
  · intro p a b
    simp only [afterStore_mA]
    rw [if_neg (show ¬ ((1 : Fld) = 0) by decide)]
    exact h.mTail p (by omega) b
  · intro p a b; exact h.cFree p a (by omega)
  · intro p a b
    simp only [afterStore_mA, if_true, ho, Bool.true_and]
    exact h.cFree p a (by omega)
  · intro p a b; exact h.pRes p a b
  · intro p a b; omega

end Dispenso.Spsc

namespace Dispenso.Spsc
open Dispenso.Conc Dispenso.HB

variable {P C : TId} {K : Nat} {s s' : State (proto K)} {d : D} {hA tA : Nat} {q q' : List Int}

/-- the invariant on (protocol state, detector state), relative to the ghost positions -/
def HJ (P C : TId) (K : Nat) (s : State (proto K)) (d : D) (hA tA : Nat) : Prop :=
  HJn P C K d hA tA (pW (s.loc P)) (pRes (s.loc P)) (cTk (s.loc C)) (cRes (s.loc C))

theorem hj_init : HJ P C K (init K) D.init 0 0 :=
  ⟨fun _ _ _ => rfl, fun _ _ _ => rfl, fun _ _ _ => rfl, fun _ _ _ => rfl, fun _ _ _ => rfl,
   fun _ _ _ => rfl⟩

theorem hev_load (o : L → Nat) (t : TId) (f : Nat) (hf : f < 2)
    (ho : op K (s.loc t) = some (.load f)) :
    hevl (hbSpec K o) s (.step t) = [⟨t, .load, f, o (s.loc t)⟩] := by
  have : ¬ 2 ≤ f := by omega
  have ho' : (proto K).op (s.loc t) = some (.load f) := ho
  simp [hevl, hevOf, ho', evOfOp, hbSpec, this]

theorem hev_store (o : L → Nat) (t : TId) (f : Nat) (v : Int) (hf : f < 2)
    (ho : op K (s.loc t) = some (.store f v)) :
    hevl (hbSpec K o) s (.step t) = [⟨t, .store, f, o (s.loc t)⟩] := by
  have : ¬ 2 ≤ f := by omega
  have ho' : (proto K).op (s.loc t) = some (.store f v) := ho
  simp [hevl, hevOf, ho', evOfOp, hbSpec, this]

theorem hev_write (o : L → Nat) (t : TId) (f : Nat) (v : Int) (hf : 2 ≤ f)
    (ho : op K (s.loc t) = some (.store f v)) :
    hevl (hbSpec K o) s (.step t) = [⟨t, .pwrite, f, 0⟩] := by
  have ho' : (proto K).op (s.loc t) = some (.store f v) := ho
  simp [hevl, hevOf, ho', evOfOp, hbSpec, hf]

theorem hev_xchg (o : L → Nat) (t : TId) (f : Nat) (v : Int) (hf : 2 ≤ f)
    (ho : op K (s.loc t) = some (.xchg f v)) :
    hevl (hbSpec K o) s (.step t) = [⟨t, .pwrite, f, 0⟩] := by
  have ho' : (proto K).op (s.loc t) = some (.xchg f v) := ho
  simp [hevl, hevOf, ho', evOfOp, hbSpec, hf]

/-- a load by the producer: either nothing is reserved anew, or it is the acquire load of `head` -/
theorem hj_loadP (hPC : P ≠ C) (o : L → Nat) (hj : HJ P C K s d hA tA) (f : Nat) (hf : f < 2)
    (ho : op K (s.loc P) = some (.load f)) (hp : s.parked P = none)
    (he : exec s (.step P) = some s')
    (inv' : Inv P C K s' (hA + dH K s (.step P)) (tA + dT K s (.step P)) q')
    (n1 : ∀ r, pW (cont K (s.loc P) r) = pW (s.loc P))
    (hacq : (∀ r, pRes (cont K (s.loc P) r) ≤ pRes (s.loc P)) ∨
      (f = 0 ∧ isAcq (o (s.loc P)) = true)) :
    ∃ d', d.run (hevl (hbSpec K o) s (.step P)) = some d' ∧
      HJ P C K s' d' (hA + dH K s (.step P)) (tA + dT K s (.step P)) := by
  have hCP : ¬ C = P := fun e => hPC e.symm
  obtain ⟨e1, _⟩ := exec_step_load s P f hp ho
  rw [e1] at he; cases he
  have g1 : dH K s (.step P) = 0 := by simp [dH, ho]
  have g2 : dT K s (.step P) = 0 := by simp [dT, ho]
  rw [g1, g2] at inv'
  rw [hev_load o P f hf ho, g1, g2, run_single, step_load]
  refine ⟨_, rfl, ?_⟩
  have pres' := inv'.pres
  simp only [HJ, setLoc_loc, if_true, if_neg hCP, Nat.add_zero] at pres' ⊢
  have n1' : pW ((proto K).cont (s.loc P) (s.mem f)) = pW (s.loc P) := n1 _
  rw [n1']
  rcases hacq with h | ⟨rfl, hacq⟩
  · exact hj.mono (fun u y h => afterLoad_cA_mono h) (fun _ _ h => h) (h _) (Nat.le_refl _)
  · refine hj.acqP (fun u y h => afterLoad_cA_mono h) (fun _ _ h => h) ?_ pres'
    intro y hy
    simp [hacq, hy]

/-- a load by the consumer -/
theorem hj_loadC (hPC : P ≠ C) (o : L → Nat) (hj : HJ P C K s d hA tA) (f : Nat) (hf : f < 2)
    (ho : op K (s.loc C) = some (.load f)) (hp : s.parked C = none)
    (he : exec s (.step C) = some s')
    (inv' : Inv P C K s' (hA + dH K s (.step C)) (tA + dT K s (.step C)) q')
    (n1 : ∀ r, cTk (cont K (s.loc C) r) = cTk (s.loc C))
    (hacq : (∀ r, cRes (cont K (s.loc C) r) ≤ cRes (s.loc C)) ∨
      (f = 1 ∧ isAcq (o (s.loc C)) = true)) :
    ∃ d', d.run (hevl (hbSpec K o) s (.step C)) = some d' ∧
      HJ P C K s' d' (hA + dH K s (.step C)) (tA + dT K s (.step C)) := by
  obtain ⟨e1, _⟩ := exec_step_load s C f hp ho
  rw [e1] at he; cases he
  have g1 : dH K s (.step C) = 0 := by simp [dH, ho]
  have g2 : dT K s (.step C) = 0 := by simp [dT, ho]
  rw [g1, g2] at inv'
  rw [hev_load o C f hf ho, g1, g2, run_single, step_load]
  refine ⟨_, rfl, ?_⟩
  have cres' := inv'.cres
  simp only [HJ, setLoc_loc, if_true, if_neg hPC, Nat.add_zero] at cres' ⊢
  have n1' : cTk ((proto K).cont (s.loc C) (s.mem f)) = cTk (s.loc C) := n1 _
  rw [n1']
  rcases hacq with h | ⟨rfl, hacq⟩
  · exact hj.mono (fun u y h => afterLoad_cA_mono h) (fun _ _ h => h) (Nat.le_refl _) (h _)
  · refine hj.acqC (fun u y h => afterLoad_cA_mono h) (fun _ _ h => h) ?_ cres'
    intro y hy
    simp [hacq, hy]

/-- a thread outside push and pop changes its local state to another such state -/
theorem hj_setLoc_neutral (hj : HJ P C K s d hA tA) (t : TId) (l' : (proto K).L)
    (hn : neutral (s.loc t) = true)
    (b1 : pW l' = 0) (b2 : pRes l' = 0) (b3 : cTk l' = 0) (b4 : cRes l' = 0) :
    HJ P C K (setLoc s t l') d hA tA := by
  obtain ⟨a1, a2, a3, a4, -, -, -, -⟩ := neutral_facts hn
  simp only [HJ, setLoc_loc]
  by_cases hP : P = t
  · by_cases hC : C = t
    · subst hP; subst hC
      simp only [if_true, b1, b2, b3, b4]
      simpa only [HJ, a1, a2, a3, a4] using hj
    · subst hP
      simp only [if_true, if_neg hC, b1, b2]
      simpa only [HJ, a1, a2] using hj
  · by_cases hC : C = t
    · subst hC
      simp only [if_true, if_neg hP, b3, b4]
      simpa only [HJ, a3, a4] using hj
    · simp only [if_neg hP, if_neg hC]; exact hj

/-- a load by a thread that is neither inside a push nor inside a pop -/
theorem hj_loadN (o : L → Nat) (hj : HJ P C K s d hA tA) (t : TId) (f : Nat) (hf : f < 2)
    (ho : op K (s.loc t) = some (.load f)) (hp : s.parked t = none)
    (he : exec s (.step t) = some s')
    (hn : neutral (s.loc t) = true) (hn' : ∀ r, neutral (cont K (s.loc t) r) = true) :
    ∃ d', d.run (hevl (hbSpec K o) s (.step t)) = some d' ∧
      HJ P C K s' d' (hA + dH K s (.step t)) (tA + dT K s (.step t)) := by
  obtain ⟨e1, _⟩ := exec_step_load s t f hp ho
  rw [e1] at he; cases he
  have g1 : dH K s (.step t) = 0 := by simp [dH, ho]
  have g2 : dT K s (.step t) = 0 := by simp [dT, ho]
  rw [hev_load o t f hf ho, g1, g2, run_single, step_load]
  refine ⟨_, rfl, ?_⟩
  obtain ⟨b1, b2, b3, b4, -, -, -, -⟩ := neutral_facts (hn' (s.mem f))
  have hj' := hj_setLoc_neutral hj t ((proto K).cont (s.loc t) (s.mem f)) hn b1 b2 b3 b4
  exact HJn.mono hj' (fun u y h => afterLoad_cA_mono h) (fun _ _ h => h) (Nat.le_refl _)
    (Nat.le_refl _)

theorem dH_store_slot (t : TId) (f : Nat) (v : Int) (hf : 2 ≤ f)
    (ho : op K (s.loc t) = some (.store f v)) : dH K s (.step t) = 0 := by
  simp only [dH, ho]; split <;> first | rfl | (rename_i h; cases h; omega)

theorem dT_store_slot (t : TId) (f : Nat) (v : Int) (hf : 2 ≤ f)
    (ho : op K (s.loc t) = some (.store f v)) : dT K s (.step t) = 0 := by
  simp only [dT, ho]; split <;> first | rfl | (rename_i h; cases h; omega)

/-- the producer writes the next reserved slot -/
theorem hj_write (hPC : P ≠ C) (o : L → Nat) (inv : Inv P C K s hA tA q)
    (hj : HJ P C K s d hA tA) (v : Int)
    (ho : op K (s.loc P) = some (.store (sl K (tA + pW (s.loc P))) v))
    (he : exec s (.step P) = some s')
    (hw : pW (s.loc P) < pRes (s.loc P))
    (n1 : pW (cont K (s.loc P) 0) = pW (s.loc P) + 1)
    (n2 : pRes (cont K (s.loc P) 0) ≤ pRes (s.loc P)) :
    ∃ d', d.run (hevl (hbSpec K o) s (.step P)) = some d' ∧
      HJ P C K s' d' (hA + dH K s (.step P)) (tA + dT K s (.step P)) := by
  have hCP : ¬ C = P := fun e => hPC e.symm
  obtain ⟨e1, _⟩ := exec_step_store s P _ v (inv.park P) ho
  rw [e1] at he; cases he
  have hf : 2 ≤ sl K (tA + pW (s.loc P)) := by simp [sl]
  have g1 : dH K s (.step P) = 0 := dH_store_slot P _ v hf ho
  have g2 : dT K s (.step P) = 0 := dT_store_slot P _ v hf ho
  have hc := inv.cnt
  obtain ⟨c1, c2⟩ := hj.write hPC (by omega) inv.pres inv.cres hw n2
  rw [hev_write o P _ v hf ho, g1, g2, run_single, step_pwrite _ _ _ _ c1]
  refine ⟨_, rfl, ?_⟩
  simp only [HJ, setLoc_loc, setMem_loc, if_true, if_neg hCP, Nat.add_zero]
  have n1' : pW ((proto K).cont (s.loc P) 0) = pW (s.loc P) + 1 := n1
  rw [n1']
  exact c2

/-- the consumer takes the next claimed slot -/
theorem hj_take (hPC : P ≠ C) (o : L → Nat) (inv : Inv P C K s hA tA q)
    (hj : HJ P C K s d hA tA) (v : Int)
    (ho : op K (s.loc C) = some (.xchg (sl K (hA + cTk (s.loc C))) v))
    (he : exec s (.step C) = some s')
    (hk : cTk (s.loc C) < cRes (s.loc C))
    (n1 : ∀ r, cTk (cont K (s.loc C) r) = cTk (s.loc C) + 1)
    (n2 : ∀ r, cRes (cont K (s.loc C) r) ≤ cRes (s.loc C)) :
    ∃ d', d.run (hevl (hbSpec K o) s (.step C)) = some d' ∧
      HJ P C K s' d' (hA + dH K s (.step C)) (tA + dT K s (.step C)) := by
  obtain ⟨e1, _⟩ := exec_step_xchg s C _ v (inv.park C) ho
  rw [e1] at he; cases he
  have hf : 2 ≤ sl K (hA + cTk (s.loc C)) := by simp [sl]
  have g1 : dH K s (.step C) = 0 := by simp [dH, ho]
  have g2 : dT K s (.step C) = 0 := by simp [dT, ho]
  have hc := inv.cnt
  obtain ⟨c1, c2⟩ := hj.take (by omega) inv.pres inv.cres inv.pw hk (n2 _)
  rw [hev_xchg o C _ v hf ho, g1, g2, run_single, step_pwrite _ _ _ _ c1]
  refine ⟨_, rfl, ?_⟩
  simp only [HJ, setLoc_loc, setMem_loc, if_true, if_neg hPC, Nat.add_zero]
  have n1' : ∀ r, cTk ((proto K).cont (s.loc C) r) = cTk (s.loc C) + 1 := n1
  rw [n1']
  exact c2

/-- the producer's release store to `tail` -/
theorem hj_pubT (hPC : P ≠ C) (o : L → Nat) (inv : Inv P C K s hA tA q)
    (hj : HJ P C K s d hA tA) (v : Int)
    (ho : op K (s.loc P) = some (.store 1 v)) (hrel : isRel (o (s.loc P)) = true)
    (he : exec s (.step P) = some s')
    (n1 : pW (cont K (s.loc P) 0) = 0) (n2 : pRes (cont K (s.loc P) 0) = 0) :
    ∃ d', d.run (hevl (hbSpec K o) s (.step P)) = some d' ∧
      HJ P C K s' d' (hA + dH K s (.step P)) (tA + dT K s (.step P)) := by
  have hCP : ¬ C = P := fun e => hPC e.symm
  obtain ⟨e1, _⟩ := exec_step_store s P 1 v (inv.park P) ho
  rw [e1] at he; cases he
  have g1 : dH K s (.step P) = 0 := by simp [dH, ho]
  have g2 : dT K s (.step P) = pW (s.loc P) := by simp [dT, ho]
  rw [hev_store o P 1 v (by omega) ho, g1, g2, run_single, step_store]
  refine ⟨_, rfl, ?_⟩
  simp only [HJ, setLoc_loc, setMem_loc, if_true, if_neg hCP, Nat.add_zero]
  have n1' : pW ((proto K).cont (s.loc P) 0) = 0 := n1
  have n2' : pRes ((proto K).cont (s.loc P) 0) = 0 := n2
  rw [n1', n2']
  exact hj.pubT hrel

/-- the consumer's release store to `head` -/
theorem hj_pubH (hPC : P ≠ C) (o : L → Nat) (inv : Inv P C K s hA tA q)
    (hj : HJ P C K s d hA tA) (v : Int)
    (ho : op K (s.loc C) = some (.store 0 v)) (hrel : isRel (o (s.loc C)) = true)
    (he : exec s (.step C) = some s')
    (n1 : cTk (cont K (s.loc C) 0) = 0) (n2 : cRes (cont K (s.loc C) 0) = 0) :
    ∃ d', d.run (hevl (hbSpec K o) s (.step C)) = some d' ∧
      HJ P C K s' d' (hA + dH K s (.step C)) (tA + dT K s (.step C)) := by
  obtain ⟨e1, _⟩ := exec_step_store s C 0 v (inv.park C) ho
  rw [e1] at he; cases he
  have g1 : dH K s (.step C) = cTk (s.loc C) := by simp [dH, ho]
  have g2 : dT K s (.step C) = 0 := by simp [dT, ho]
  rw [hev_store o C 0 v (by omega) ho, g1, g2, run_single, step_store]
  refine ⟨_, rfl, ?_⟩
  simp only [HJ, setLoc_loc, setMem_loc, if_true, if_neg hPC, Nat.add_zero]
  have n1' : cTk ((proto K).cont (s.loc C) 0) = 0 := n1
  have n2' : cRes ((proto K).cont (s.loc C) 0) = 0 := n2
  rw [n1', n2']
  exact hj.pubH hrel

/-- every role-respecting action preserves the invariant, and the detector accepts its event -/
theorem hj_step (hPC : P ≠ C) (o : L → Nat) (ho : ∀ l, ordGE (need l) (o l) = true)
    (inv : Inv P C K s hA tA q) (hj : HJ P C K s d hA tA) (a : Act (proto K))
    (hrole : RoleAct P C a) (he : exec s a = some s') :
    ∃ d', d.run (hevl (hbSpec K o) s a) = some d' ∧
      HJ P C K s' d' (hA + dH K s a) (tA + dT K s a) := by
  obtain ⟨q', inv', -, -⟩ := step_invG hPC inv a hrole s' he
  cases a with
  | call t l =>
    simp only [exec] at he
    split at he
    · rename_i hc
      obtain ⟨-, hop, hent⟩ := hc
      cases he
      have hn : neutral (s.loc t) = true := op_none hop
      have hent' : isEntry l = true := by
        have : (idleOrDone (s.loc t) && isEntry l) = true := hent
        simp at this; exact this.2
      obtain ⟨b1, b2, b3, b4, -, -, -, -⟩ := entry_facts hent' K hA tA
      exact ⟨d, by simp [hevl, hevOf], hj_setLoc_neutral hj t l hn b1 b2 b3 b4⟩
    · cases he
  | wake t ws =>
    simp only [exec] at he
    split at he
    · cases he
    · split at he
      · rename_i f n ho'
        exact absurd ho' (op_ne_fwake _ f n)
      · cases he
  | timeout t => simp [exec, inv.park t] at he
  | spurious t => simp [exec, inv.park t] at he
  | step t =>
    have hpush : isPushLoc (s.loc t) = true → t = P := by
      intro h; apply Classical.byContradiction; intro hne
      have := inv.roleP t hne; rw [h] at this; cases this
    have hpop : isPopLoc (s.loc t) = true → t = C := by
      intro h; apply Classical.byContradiction; intro hne
      have := inv.roleC t hne; rw [h] at this; cases this
    have pg := inv.pg
    have cg := inv.cg
    cases hl : s.loc t with
    | idle => simp [exec, hl, proto, op] at he
    | done r => simp [exec, hl, proto, op] at he
    | pLoadT v =>
      obtain rfl := hpush (by rw [hl]; rfl)
      exact hj_loadP hPC o hj 1 (by omega) (by rw [hl]; rfl) (inv.park _) he inv'
        (by intro r; rw [hl]; rfl) (Or.inl (by intro r; rw [hl]; exact Nat.le_refl _))
    | pLoadH v t0 =>
      obtain rfl := hpush (by rw [hl]; rfl)
      refine hj_loadP hPC o hj 0 (by omega) (by rw [hl]; rfl) (inv.park _) he inv' ?_
        (Or.inr ⟨rfl, by rw [hl]; exact isAcq_of_ordGE (ho _) rfl⟩)
      intro r; rw [hl]; simp only [cont]; split <;> rfl
    | pWrite v t0 =>
      obtain rfl := hpush (by rw [hl]; rfl)
      rw [hl] at pg; simp only [PGood] at pg
      have e : slot t0 = sl K (tA + pW (s.loc t)) := by rw [hl, pg.2, slot_cast]; rfl
      have ho1 : op K (s.loc t) = some (.store (slot t0) v) := by rw [hl]; rfl
      rw [e] at ho1
      exact hj_write hPC o inv hj v ho1 he (by rw [hl]; exact Nat.zero_lt_one) (by rw [hl]; rfl)
        (by rw [hl]; exact Nat.le_refl _)
    | pPub t0 =>
      obtain rfl := hpush (by rw [hl]; rfl)
      exact hj_pubT hPC o inv hj (inc K t0) (by rw [hl]; rfl)
        (by rw [hl]; exact isRel_of_ordGE (ho _) rfl) he (by rw [hl]; rfl) (by rw [hl]; rfl)
    | bLoadT vs =>
      obtain rfl := hpush (by rw [hl]; rfl)
      exact hj_loadP hPC o hj 1 (by omega) (by rw [hl]; rfl) (inv.park _) he inv'
        (by intro r; rw [hl]; rfl) (Or.inl (by intro r; rw [hl]; exact Nat.le_refl _))
    | bLoadH vs t0 =>
      obtain rfl := hpush (by rw [hl]; rfl)
      refine hj_loadP hPC o hj 0 (by omega) (by rw [hl]; rfl) (inv.park _) he inv' ?_
        (Or.inr ⟨rfl, by rw [hl]; exact isAcq_of_ordGE (ho _) rfl⟩)
      intro r; rw [hl]; simp only [cont]; split <;> rfl
    | bWrite vs pos c a =>
      obtain rfl := hpush (by rw [hl]; rfl)
      rw [hl] at pg; simp only [PGood] at pg
      obtain ⟨pg1, pg2, pg3, pg4⟩ := pg
      have e : slot pos = sl K (tA + pW (s.loc t)) := by rw [hl, pg3, slot_cast]; rfl
      have ho1 : op K (s.loc t) = some (.store (slot pos) (vs.headD 0)) := by rw [hl]; rfl
      rw [e] at ho1
      refine hj_write hPC o inv hj _ ho1 he (by rw [hl]; exact pg4) ?_ ?_
      · rw [hl]; simp only [cont]; split <;> rfl
      · rw [hl]; simp only [cont]; split
        · exact Nat.le_refl _
        · show c + 1 ≤ a; omega
    | bPub pos c =>
      obtain rfl := hpush (by rw [hl]; rfl)
      exact hj_pubT hPC o inv hj pos (by rw [hl]; rfl)
        (by rw [hl]; exact isRel_of_ordGE (ho _) rfl) he (by rw [hl]; rfl) (by rw [hl]; rfl)
    | cLoadH =>
      obtain rfl := hpop (by rw [hl]; rfl)
      exact hj_loadC hPC o hj 0 (by omega) (by rw [hl]; rfl) (inv.park _) he inv'
        (by intro r; rw [hl]; rfl) (Or.inl (by intro r; rw [hl]; exact Nat.le_refl _))
    | cLoadT h =>
      obtain rfl := hpop (by rw [hl]; rfl)
      refine hj_loadC hPC o hj 1 (by omega) (by rw [hl]; rfl) (inv.park _) he inv' ?_
        (Or.inr ⟨rfl, by rw [hl]; exact isAcq_of_ordGE (ho _) rfl⟩)
      intro r; rw [hl]; simp only [cont]; split <;> rfl
    | cTake h =>
      obtain rfl := hpop (by rw [hl]; rfl)
      rw [hl] at cg; simp only [CGood] at cg
      have e : slot h = sl K (hA + cTk (s.loc t)) := by rw [hl, cg, slot_cast]; rfl
      have ho1 : op K (s.loc t) = some (.xchg (slot h) movedFrom) := by rw [hl]; rfl
      rw [e] at ho1
      exact hj_take hPC o inv hj _ ho1 he (by rw [hl]; exact Nat.zero_lt_one)
        (by intro r; rw [hl]; rfl) (by intro r; rw [hl]; exact Nat.le_refl _)
    | cPub h v =>
      obtain rfl := hpop (by rw [hl]; rfl)
      exact hj_pubH hPC o inv hj (inc K h) (by rw [hl]; rfl)
        (by rw [hl]; exact isRel_of_ordGE (ho _) rfl) he (by rw [hl]; rfl) (by rw [hl]; rfl)
    | qLoadH m =>
      obtain rfl := hpop (by rw [hl]; rfl)
      exact hj_loadC hPC o hj 0 (by omega) (by rw [hl]; rfl) (inv.park _) he inv'
        (by intro r; rw [hl]; rfl) (Or.inl (by intro r; rw [hl]; exact Nat.le_refl _))
    | qLoadT m h =>
      obtain rfl := hpop (by rw [hl]; rfl)
      refine hj_loadC hPC o hj 1 (by omega) (by rw [hl]; rfl) (inv.park _) he inv' ?_
        (Or.inr ⟨rfl, by rw [hl]; exact isAcq_of_ordGE (ho _) rfl⟩)
      intro r; rw [hl]; simp only [cont]; split <;> rfl
    | qTake pos left acc =>
      obtain rfl := hpop (by rw [hl]; rfl)
      rw [hl] at cg; simp only [CGood] at cg
      obtain ⟨cg1, cg2⟩ := cg
      have e : slot pos = sl K (hA + cTk (s.loc t)) := by rw [hl, cg1, slot_cast]; rfl
      have ho1 : op K (s.loc t) = some (.xchg (slot pos) movedFrom) := by rw [hl]; rfl
      rw [e] at ho1
      refine hj_take hPC o inv hj _ ho1 he ?_ ?_ ?_
      · rw [hl]; show acc.length < acc.length + left; omega
      · intro r; rw [hl]; simp only [cont]; split <;> simp [cTk]
      · intro r; rw [hl]; simp only [cont]; split <;> simp [cRes] <;> omega
    | qPub pos acc =>
      obtain rfl := hpop (by rw [hl]; rfl)
      exact hj_pubH hPC o inv hj pos (by rw [hl]; rfl)
        (by rw [hl]; exact isRel_of_ordGE (ho _) rfl) he (by rw [hl]; rfl) (by rw [hl]; rfl)
    | eLoadH =>
      exact hj_loadN o hj t 0 (by omega) (by rw [hl]; rfl) (inv.park t) he (by rw [hl]; rfl)
        (by intro r; rw [hl]; rfl)
    | eLoadT h =>
      exact hj_loadN o hj t 1 (by omega) (by rw [hl]; rfl) (inv.park t) he (by rw [hl]; rfl)
        (by intro r; rw [hl]; rfl)
    | fLoadT =>
      exact hj_loadN o hj t 1 (by omega) (by rw [hl]; rfl) (inv.park t) he (by rw [hl]; rfl)
        (by intro r; rw [hl]; rfl)
    | fLoadH t0 =>
      exact hj_loadN o hj t 0 (by omega) (by rw [hl]; rfl) (inv.park t) he (by rw [hl]; rfl)
        (by intro r; rw [hl]; rfl)
    | sLoadH =>
      exact hj_loadN o hj t 0 (by omega) (by rw [hl]; rfl) (inv.park t) he (by rw [hl]; rfl)
        (by intro r; rw [hl]; rfl)
    | sLoadT h =>
      exact hj_loadN o hj t 1 (by omega) (by rw [hl]; rfl) (inv.park t) he (by rw [hl]; rfl)
        (by intro r; rw [hl]; rfl)
    | dLoadH =>
      exact hj_loadN o hj t 0 (by omega) (by rw [hl]; rfl) (inv.park t) he (by rw [hl]; rfl)
        (by intro r; rw [hl]; rfl)
    | dLoadT =>
      exact hj_loadN o hj t 1 (by omega) (by rw [hl]; rfl) (inv.park t) he (by rw [hl]; rfl)
        (by intro r; rw [hl]; rfl)

/-- the combined invariant, existentially over the ghost state -/
def J (P C : TId) (K : Nat) (s : State (proto K)) (d : D) : Prop :=
  ∃ hA tA q, Inv P C K s hA tA q ∧ HJ P C K s d hA tA

/-- every role-respecting execution of the SPSC model, with any declared orders at least `need`, is
free of data races on the element slots -/
theorem race_free (hK : 1 ≤ K) (hPC : P ≠ C) (o : L → Nat)
    (ho : ∀ l, ordGE (need l) (o l) = true) (acts : List (Act (proto K))) (hr : Roles P C acts)
    (s : State (proto K)) (tr : Trace) (hrun : runH (hbSpec K o) (init K) acts = some (s, tr)) :
    ¬ Race tr := by
  refine race_free_of_inv (hbSpec K o) (J P C K) (RoleAct P C) ?_ (init K)
    ⟨0, 0, [], Inv.init hK, hj_init⟩ acts (fun a ha t l e => hr a ha t l e) s tr hrun
  rintro s d a s' ⟨hA, tA, q, inv, hj⟩ hrole he
  obtain ⟨q', inv', -, -⟩ := step_invG hPC inv a hrole s' he
  obtain ⟨d', hd, hj'⟩ := hj_step hPC o ho inv hj a hrole he
  exact ⟨d', hd, _, _, q', inv', hj'⟩

end Dispenso.Spsc
