import DispensoVerif.Proofs.GraphBuild
/-
Bidirectional-propagation sets: `SetsOK`, its preservation by the construction operations and
`biPropDependsOn`; `biPropDependsOn` differs from `dependsOn` only in the set bookkeeping
(`SameCore`); the inductive family `Built` of constructed graphs.
-/
namespace Dispenso.Graph
open List

/-! ### list helpers -/

theorem getD_set_eq {α : Type} (l : List α) (i j : Nat) (x d : α) :
    (l.set i x).getD j d = if i = j ∧ i < l.length then x else l.getD j d := by
  simp only [List.getD_eq_getElem?_getD, List.getElem?_set]
  by_cases h : i = j
  · subst h
    by_cases h2 : i < l.length
    · simp [h2]
    · simp [h2]
  · simp [h]

theorem getD_snoc {α : Type} (l : List α) (x d : α) (j : Nat) :
    (l ++ [x]).getD j d = if j < l.length then l.getD j d else if j = l.length then x else d := by
  simp only [List.getD_eq_getElem?_getD, List.getElem?_append]
  by_cases h1 : j < l.length
  · simp [h1]
  · by_cases h2 : j = l.length
    · subst h2; simp
    · simp only [h1, if_false, h2]
      rw [List.getElem?_eq_none (by simp; omega)]
      rfl

theorem lt_of_mem_getD {l : List (List Nat)} {s i : Nat} (h : i ∈ l.getD s []) : s < l.length := by
  by_contra hc
  rw [List.getD_eq_getElem?_getD, List.getElem?_eq_none (Nat.le_of_not_lt hc)] at h
  cases h

theorem mem_insertSorted (x a : Nat) (l : List Nat) : x ∈ insertSorted a l ↔ (x = a ∨ x ∈ l) := by
  induction l with
  | nil => simp [insertSorted]
  | cons y ys ih =>
    unfold insertSorted
    split_ifs with h1 h2
    · simp
    · subst h2; simp
    · rw [List.mem_cons, ih, List.mem_cons]
      constructor
      · rintro (h | h | h)
        · exact Or.inr (Or.inl h)
        · exact Or.inl h
        · exact Or.inr (Or.inr h)
      · rintro (h | h | h)
        · exact Or.inr (Or.inl h)
        · exact Or.inl h
        · exact Or.inr (Or.inr h)

theorem mem_unionSorted (x : Nat) (a b : List Nat) : x ∈ unionSorted a b ↔ (x ∈ a ∨ x ∈ b) := by
  unfold unionSorted
  induction b generalizing a with
  | nil => simp
  | cons y ys ih =>
    rw [List.foldl_cons, ih, mem_insertSorted, List.mem_cons]
    constructor
    · rintro ((h | h) | h)
      · exact Or.inr (Or.inl h)
      · exact Or.inl h
      · exact Or.inr (Or.inr h)
    · rintro (h | h | h)
      · exact Or.inl (Or.inr h)
      · exact Or.inl (Or.inl h)
      · exact Or.inr h

/-! ### graphs that differ only in the set bookkeeping -/

structure SameCore (a b : G) : Prop where
  len : b.nodes.length = a.nodes.length
  subs : b.subs = a.subs
  biProp : b.biProp = a.biProp
  deps : ∀ i, (b.node i).dependents = (a.node i).dependents
  alive : ∀ i, (b.node i).alive = (a.node i).alive
  numPred : ∀ i, (b.node i).numPred = (a.node i).numPred
  inc : ∀ i, (b.node i).inc = (a.node i).inc

theorem SameCore.refl (g : G) : SameCore g g :=
  ⟨rfl, rfl, rfl, fun _ => rfl, fun _ => rfl, fun _ => rfl, fun _ => rfl⟩

theorem SameCore.trans {a b c : G} (h1 : SameCore a b) (h2 : SameCore b c) : SameCore a c :=
  ⟨h2.len.trans h1.len, h2.subs.trans h1.subs, h2.biProp.trans h1.biProp,
    fun i => (h2.deps i).trans (h1.deps i), fun i => (h2.alive i).trans (h1.alive i),
    fun i => (h2.numPred i).trans (h1.numPred i), fun i => (h2.inc i).trans (h1.inc i)⟩

theorem SameCore.edges {a b : G} (h : SameCore a b) : edges b = edges a := by
  unfold Dispenso.Graph.edges
  rw [h.len]
  apply List.flatMap_congr
  intro p _
  rw [h.alive p, h.deps p]

theorem Fresh.of_sameCore {a b : G} (h : SameCore a b) (hf : Fresh a) : Fresh b := by
  refine ⟨⟨?_, ?_, ?_⟩, ?_, ?_⟩
  · intro p d he
    rw [h.edges] at he
    rw [h.alive]; exact hf.wf.deps_live p d he
  · unfold allNodes; rw [h.subs]; exact hf.wf.nodup
  · intro i
    unfold allNodes; rw [h.subs, h.alive]; exact hf.wf.mem_all i
  · intro n hn
    rw [h.alive] at hn
    unfold indeg
    rw [h.numPred, h.edges]; exact hf.pred n hn
  · intro n hn
    rw [h.alive] at hn
    rw [h.inc, h.numPred]; exact hf.inc n hn

def setB (g : G) (i : Nat) (v : Option Nat) : G := g.setNode i { g.node i with biSet := v }
def withSets (g : G) (bs : List (List Nat)) : G := { g with biSets := bs }

theorem setB_core (g : G) (i : Nat) (v : Option Nat) : SameCore g (setB g i v) := by
  unfold setB
  refine ⟨by simp, rfl, rfl, ?_, ?_, ?_, ?_⟩ <;> intro j <;> rw [setNode_node] <;>
    split_ifs with h <;> first | rfl | (obtain ⟨rfl, _⟩ := h; rfl)

theorem setB_biSet (g : G) (i : Nat) (v : Option Nat) (j : Nat) :
    ((setB g i v).node j).biSet = if i = j ∧ i < g.nodes.length then v else (g.node j).biSet := by
  unfold setB
  rw [setNode_node]
  split_ifs <;> rfl

theorem setB_alive (g : G) (i : Nat) (v : Option Nat) (j : Nat) :
    ((setB g i v).node j).alive = (g.node j).alive := (setB_core g i v).alive j

theorem setB_biSets (g : G) (i : Nat) (v : Option Nat) : (setB g i v).biSets = g.biSets := rfl
theorem setB_length (g : G) (i : Nat) (v : Option Nat) :
    (setB g i v).nodes.length = g.nodes.length := (setB_core g i v).len

theorem withSets_node (g : G) (bs : List (List Nat)) (j : Nat) : (withSets g bs).node j = g.node j :=
  rfl
theorem withSets_core (g : G) (bs : List (List Nat)) : SameCore g (withSets g bs) :=
  ⟨rfl, rfl, rfl, fun _ => rfl, fun _ => rfl, fun _ => rfl, fun _ => rfl⟩

/-! ### SetsOK -/

/-- live nodes pointing to set `s` are exactly the members of `biSets[s]` -/
structure SetsOK (g : G) : Prop where
  mem_of : ∀ i s, (g.node i).alive = true → (g.node i).biSet = some s → i ∈ g.biSets.getD s []
  of_mem : ∀ s i, i ∈ g.biSets.getD s [] → (g.node i).alive = true ∧ (g.node i).biSet = some s

theorem SetsOK.init (b : Bool) : SetsOK (G.init b) := by
  refine ⟨?_, ?_⟩
  · intro i s h
    rw [node_of_ge (by simp [G.init])] at h; cases h
  · intro s i h
    simp [G.init] at h

theorem SetsOK.addSubgraph {g : G} (h : SetsOK g) : SetsOK (addSubgraph g).1 := ⟨h.mem_of, h.of_mem⟩

theorem SetsOK.addNode {g : G} (h : SetsOK g) (sub : Nat) : SetsOK (addNode g sub).1 := by
  have hbs : (Dispenso.Graph.addNode g sub).1.biSets = g.biSets := rfl
  refine ⟨?_, ?_⟩
  · intro i s hal hb
    rw [addNode_node] at hal hb
    rw [hbs]
    by_cases hi : i = g.nodes.length
    · rw [if_pos hi] at hb; cases hb
    · rw [if_neg hi] at hal hb; exact h.mem_of i s hal hb
  · intro s i hm
    rw [hbs] at hm
    have := h.of_mem s i hm
    rw [addNode_node_lt g sub i (lt_of_alive this.1)]
    exact this

theorem SetsOK.dependsOn {g : G} (h : SetsOK g) (n p : Nat) (hn : (g.node n).alive = true)
    (hp : (g.node p).alive = true) : SetsOK (dependsOn g n p) := by
  have hnode := fun j => dependsOn_node g n p j (lt_of_alive hn) (lt_of_alive hp)
  refine ⟨?_, ?_⟩
  · intro i s hal hb
    rw [hnode i] at hal hb
    exact h.mem_of i s hal hb
  · intro s i hm
    rw [hnode i]
    exact h.of_mem s i hm

/-! ### biPropDependsOn, case by case -/

theorem biProp_nn (g : G) (n p : Nat) (hn : ((dependsOn g n p).node n).biSet = none)
    (hp : ((dependsOn g n p).node p).biSet = none) :
    biPropDependsOn g n p =
      setB (setB (withSets (dependsOn g n p) ((dependsOn g n p).biSets ++
        [insertSorted p (insertSorted n [])])) n (some (dependsOn g n p).biSets.length)) p
        (some (dependsOn g n p).biSets.length) := by
  unfold biPropDependsOn
  simp only [hn, hp]
  rfl

theorem biProp_ns (g : G) (n p b : Nat) (hn : ((dependsOn g n p).node n).biSet = none)
    (hp : ((dependsOn g n p).node p).biSet = some b) :
    biPropDependsOn g n p =
      setB (withSets (dependsOn g n p) ((dependsOn g n p).biSets.set b
        (insertSorted n ((dependsOn g n p).biSets.getD b [])))) n (some b) := by
  unfold biPropDependsOn
  simp only [hn, hp]
  rfl

theorem biProp_sn (g : G) (n p a : Nat) (hn : ((dependsOn g n p).node n).biSet = some a)
    (hp : ((dependsOn g n p).node p).biSet = none) :
    biPropDependsOn g n p =
      setB (withSets (dependsOn g n p) ((dependsOn g n p).biSets.set a
        (insertSorted p ((dependsOn g n p).biSets.getD a [])))) p (some a) := by
  unfold biPropDependsOn
  simp only [hn, hp]
  rfl

theorem biProp_ss_eq (g : G) (n p a : Nat) (hn : ((dependsOn g n p).node n).biSet = some a)
    (hp : ((dependsOn g n p).node p).biSet = some a) :
    biPropDependsOn g n p = dependsOn g n p := by
  unfold biPropDependsOn
  simp only [hn, hp, if_true]

theorem biProp_ss (g : G) (n p a b : Nat) (hn : ((dependsOn g n p).node n).biSet = some a)
    (hp : ((dependsOn g n p).node p).biSet = some b) (hab : a ≠ b) :
    biPropDependsOn g n p =
      ((dependsOn g n p).biSets.getD b []).foldl
        (fun g m => g.setNode m ((fun x => { x with biSet := some a }) (g.node m)))
        (withSets (dependsOn g n p) (((dependsOn g n p).biSets.set a
          (unionSorted ((dependsOn g n p).biSets.getD a []) ((dependsOn g n p).biSets.getD b []))).set
            b [])) := by
  unfold biPropDependsOn
  simp only [hn, hp, hab, if_false]
  rfl

/-- the merged-set fold: node-level description -/
theorem repoint_facts (g : G) (members : List Nat) (a : Nat)
    (hm : ∀ i ∈ members, i < g.nodes.length) :
    let g' := members.foldl
      (fun g m => g.setNode m ((fun x => { x with biSet := some a }) (g.node m))) g
    SameCore g g' ∧ g'.biSets = g.biSets ∧
    ∀ j, (g'.node j).biSet = if j ∈ members then some a else (g.node j).biSet := by
  intro g'
  have h := foldl_setNode_node (fun x => { x with biSet := some a }) (fun _ => rfl) members g hm
  have hnode : ∀ j, g'.node j = if j ∈ members then { g.node j with biSet := some a }
      else g.node j := h.1
  refine ⟨⟨h.2.1, h.2.2.1, h.2.2.2.2, ?_, ?_, ?_, ?_⟩, h.2.2.2.1, ?_⟩ <;> intro j <;>
    rw [hnode j] <;> split_ifs <;> rfl

/-- what `biPropDependsOn` establishes -/
structure BiDepRes (g g2 : G) (n p : Nat) : Prop where
  core : SameCore (dependsOn g n p) g2
  sets : SetsOK g2
  same : ∃ s, (g2.node n).biSet = some s ∧ (g2.node p).biSet = some s ∧
    ∀ s0 i, ((g.node n).biSet = some s0 ∨ (g.node p).biSet = some s0) →
      i ∈ g.biSets.getD s0 [] → (g2.node i).biSet = some s

theorem biPropDependsOn_spec (g : G) (n p : Nat) (hs : SetsOK g)
    (hn : (g.node n).alive = true) (hp : (g.node p).alive = true) :
    BiDepRes g (biPropDependsOn g n p) n p := by
  have hnode := fun j => dependsOn_node g n p j (lt_of_alive hn) (lt_of_alive hp)
  have hs' : SetsOK (dependsOn g n p) := hs.dependsOn n p hn hp
  have hbs : (dependsOn g n p).biSets = g.biSets := rfl
  have hlen : (dependsOn g n p).nodes.length = g.nodes.length := dependsOn_length g n p
  have hbset : ∀ j, ((dependsOn g n p).node j).biSet = (g.node j).biSet := by
    intro j; rw [hnode j]
  have halive : ∀ j, ((dependsOn g n p).node j).alive = (g.node j).alive := by
    intro j; rw [hnode j]
  have hnl := lt_of_alive hn
  have hpl := lt_of_alive hp
  set g' := dependsOn g n p with hg'
  rcases hsn : (g'.node n).biSet with _ | a <;> rcases hsp : (g'.node p).biSet with _ | b
  · -- none, none: a fresh set {n, p}
    rw [biProp_nn g n p hsn hsp, ← hg']
    set id := g'.biSets.length with hid
    set S := insertSorted p (insertSorted n []) with hS
    set G1 := withSets g' (g'.biSets ++ [S]) with hG1
    have hB : ∀ j, ((setB (setB G1 n (some id)) p (some id)).node j).biSet =
        if p = j then some id else if n = j then some id else (g'.node j).biSet := by
      intro j
      rw [setB_biSet, setB_biSet, setB_length]
      have h1 : n < G1.nodes.length := by rw [hG1]; show n < g'.nodes.length; omega
      have h2 : p < G1.nodes.length := by rw [hG1]; show p < g'.nodes.length; omega
      simp only [h1, h2, and_true]
      rfl
    have hA : ∀ j, ((setB (setB G1 n (some id)) p (some id)).node j).alive = (g'.node j).alive := by
      intro j; rw [setB_alive, setB_alive]; rfl
    have hSets : ∀ s, (setB (setB G1 n (some id)) p (some id)).biSets.getD s [] =
        if s < id then g'.biSets.getD s [] else if s = id then S else [] := by
      intro s
      rw [setB_biSets, setB_biSets]
      show (g'.biSets ++ [S]).getD s [] = _
      rw [getD_snoc]
    have hnone : ∀ i s, (g'.node i).biSet = some s → i ≠ n ∧ i ≠ p := by
      intro i s hi
      constructor
      · rintro rfl; rw [hsn] at hi; cases hi
      · rintro rfl; rw [hsp] at hi; cases hi
    refine ⟨((withSets_core g' _).trans (setB_core _ _ _)).trans (setB_core _ _ _), ⟨?_, ?_⟩, ?_⟩
    · intro i s hal hb
      rw [hA] at hal
      rw [hB] at hb
      rw [hSets]
      by_cases h1 : p = i
      · rw [if_pos h1] at hb
        cases hb
        simp only [Nat.lt_irrefl, if_false, if_true]
        rw [hS, mem_insertSorted]; exact Or.inl h1.symm
      · rw [if_neg h1] at hb
        by_cases h2 : n = i
        · rw [if_pos h2] at hb
          cases hb
          simp only [Nat.lt_irrefl, if_false, if_true]
          rw [hS, mem_insertSorted, mem_insertSorted]; exact Or.inr (Or.inl h2.symm)
        · rw [if_neg h2] at hb
          have := hs'.mem_of i s hal hb
          rw [if_pos (lt_of_mem_getD this)]
          exact this
    · intro s i hm
      rw [hSets] at hm
      rw [hA, hB]
      by_cases h1 : s < id
      · rw [if_pos h1] at hm
        have := hs'.of_mem s i hm
        have hne := hnone i s this.2
        rw [if_neg (fun e => hne.2 e.symm), if_neg (fun e => hne.1 e.symm)]
        exact this
      · rw [if_neg h1] at hm
        by_cases h2 : s = id
        · rw [if_pos h2] at hm
          rw [hS, mem_insertSorted, mem_insertSorted] at hm
          rcases hm with rfl | rfl | hm
          · rw [halive]; exact ⟨hp, by simp [h2]⟩
          · rw [halive]
            refine ⟨hn, ?_⟩
            by_cases h3 : p = i
            · simp [h3, h2]
            · simp [h3, h2]
          · cases hm
        · rw [if_neg h2] at hm; cases hm
    · refine ⟨id, ?_, ?_, ?_⟩
      · rw [hB]; by_cases h3 : p = n <;> simp [h3]
      · rw [hB]; simp
      · intro s0 i h0 hi
        exfalso
        rw [← hbset n, ← hbset p, hsn, hsp] at h0
        rcases h0 with h0 | h0 <;> cases h0
  · -- none, some b: n joins p's set
    rw [biProp_ns g n p b hsn hsp, ← hg']
    have hpb : p ∈ g'.biSets.getD b [] := hs'.mem_of p b (by rw [halive]; exact hp) hsp
    have hbl := lt_of_mem_getD hpb
    set S := insertSorted n (g'.biSets.getD b []) with hS
    set G1 := withSets g' (g'.biSets.set b S) with hG1
    have hB : ∀ j, ((setB G1 n (some b)).node j).biSet =
        if n = j then some b else (g'.node j).biSet := by
      intro j
      rw [setB_biSet]
      have h1 : n < G1.nodes.length := by rw [hG1]; show n < g'.nodes.length; omega
      simp only [h1, and_true]
      rfl
    have hA : ∀ j, ((setB G1 n (some b)).node j).alive = (g'.node j).alive := by
      intro j; rw [setB_alive]; rfl
    have hSets : ∀ s, (setB G1 n (some b)).biSets.getD s [] =
        if b = s then S else g'.biSets.getD s [] := by
      intro s
      rw [setB_biSets]
      show (g'.biSets.set b S).getD s [] = _
      rw [getD_set_eq]
      simp only [hbl, and_true]
    refine ⟨(withSets_core g' _).trans (setB_core _ _ _), ⟨?_, ?_⟩, ?_⟩
    · intro i s hal hb
      rw [hA] at hal
      rw [hB] at hb
      rw [hSets]
      by_cases h1 : n = i
      · rw [if_pos h1] at hb
        cases hb
        rw [if_pos rfl, hS, mem_insertSorted]; exact Or.inl h1.symm
      · rw [if_neg h1] at hb
        have := hs'.mem_of i s hal hb
        by_cases h2 : b = s
        · subst h2
          rw [if_pos rfl, hS, mem_insertSorted]; exact Or.inr this
        · rw [if_neg h2]; exact this
    · intro s i hm
      rw [hSets] at hm
      rw [hA, hB]
      by_cases h2 : b = s
      · subst h2
        rw [if_pos rfl, hS, mem_insertSorted] at hm
        rcases hm with rfl | hm
        · rw [halive]; exact ⟨hn, by simp⟩
        · have := hs'.of_mem b i hm
          have hne : ¬ n = i := by
            rintro rfl; rw [hsn] at this; cases this.2
          rw [if_neg hne]; exact this
      · rw [if_neg h2] at hm
        have := hs'.of_mem s i hm
        have hne : ¬ n = i := by
          rintro rfl; rw [hsn] at this; cases this.2
        rw [if_neg hne]; exact this
    · refine ⟨b, ?_, ?_, ?_⟩
      · rw [hB]; simp
      · rw [hB]
        by_cases h3 : n = p
        · simp [h3]
        · simp [h3, hsp]
      · intro s0 i h0 hi
        rw [← hbset n, ← hbset p, hsn, hsp] at h0
        rcases h0 with h0 | h0
        · cases h0
        · cases h0
          rw [← hbs] at hi
          have := hs'.of_mem b i hi
          rw [hB]
          by_cases h3 : n = i
          · simp [h3]
          · simp [h3, this.2]
  · -- some a, none: p joins n's set
    rw [biProp_sn g n p a hsn hsp, ← hg']
    have hna : n ∈ g'.biSets.getD a [] := hs'.mem_of n a (by rw [halive]; exact hn) hsn
    have hal := lt_of_mem_getD hna
    set S := insertSorted p (g'.biSets.getD a []) with hS
    set G1 := withSets g' (g'.biSets.set a S) with hG1
    have hB : ∀ j, ((setB G1 p (some a)).node j).biSet =
        if p = j then some a else (g'.node j).biSet := by
      intro j
      rw [setB_biSet]
      have h1 : p < G1.nodes.length := by rw [hG1]; show p < g'.nodes.length; omega
      simp only [h1, and_true]
      rfl
    have hA : ∀ j, ((setB G1 p (some a)).node j).alive = (g'.node j).alive := by
      intro j; rw [setB_alive]; rfl
    have hSets : ∀ s, (setB G1 p (some a)).biSets.getD s [] =
        if a = s then S else g'.biSets.getD s [] := by
      intro s
      rw [setB_biSets]
      show (g'.biSets.set a S).getD s [] = _
      rw [getD_set_eq]
      simp only [hal, and_true]
    refine ⟨(withSets_core g' _).trans (setB_core _ _ _), ⟨?_, ?_⟩, ?_⟩
    · intro i s hal' hb
      rw [hA] at hal'
      rw [hB] at hb
      rw [hSets]
      by_cases h1 : p = i
      · rw [if_pos h1] at hb
        cases hb
        rw [if_pos rfl, hS, mem_insertSorted]; exact Or.inl h1.symm
      · rw [if_neg h1] at hb
        have := hs'.mem_of i s hal' hb
        by_cases h2 : a = s
        · subst h2
          rw [if_pos rfl, hS, mem_insertSorted]; exact Or.inr this
        · rw [if_neg h2]; exact this
    · intro s i hm
      rw [hSets] at hm
      rw [hA, hB]
      by_cases h2 : a = s
      · subst h2
        rw [if_pos rfl, hS, mem_insertSorted] at hm
        rcases hm with rfl | hm
        · rw [halive]; exact ⟨hp, by simp⟩
        · have := hs'.of_mem a i hm
          have hne : ¬ p = i := by
            rintro rfl; rw [hsp] at this; cases this.2
          rw [if_neg hne]; exact this
      · rw [if_neg h2] at hm
        have := hs'.of_mem s i hm
        have hne : ¬ p = i := by
          rintro rfl; rw [hsp] at this; cases this.2
        rw [if_neg hne]; exact this
    · refine ⟨a, ?_, ?_, ?_⟩
      · rw [hB]
        by_cases h3 : p = n
        · simp [h3]
        · simp [h3, hsn]
      · rw [hB]; simp
      · intro s0 i h0 hi
        rw [← hbset n, ← hbset p, hsn, hsp] at h0
        rcases h0 with h0 | h0
        · cases h0
          rw [← hbs] at hi
          have := hs'.of_mem a i hi
          rw [hB]
          by_cases h3 : p = i
          · simp [h3]
          · simp [h3, this.2]
        · cases h0
  · -- some a, some b
    by_cases hab : a = b
    · subst hab
      rw [biProp_ss_eq g n p a hsn hsp, ← hg']
      refine ⟨SameCore.refl _, hs', a, hsn, hsp, ?_⟩
      intro s0 i h0 hi
      rw [← hbset n, ← hbset p, hsn, hsp] at h0
      have hs0 : s0 = a := by
        rcases h0 with h0 | h0 <;> cases h0 <;> rfl
      subst hs0
      rw [← hbs] at hi
      exact (hs'.of_mem s0 i hi).2
    · rw [biProp_ss g n p a b hsn hsp hab, ← hg']
      have hna : n ∈ g'.biSets.getD a [] := hs'.mem_of n a (by rw [halive]; exact hn) hsn
      have hpb : p ∈ g'.biSets.getD b [] := hs'.mem_of p b (by rw [halive]; exact hp) hsp
      have hal := lt_of_mem_getD hna
      have hbl := lt_of_mem_getD hpb
      set members := g'.biSets.getD b [] with hmem
      set merged := unionSorted (g'.biSets.getD a []) members with hmerged
      set G1 := withSets g' ((g'.biSets.set a merged).set b []) with hG1
      have hrange : ∀ i ∈ members, i < G1.nodes.length := by
        intro i hi
        have := (hs'.of_mem b i hi).1
        exact lt_of_alive this
      obtain ⟨hcore, hsets2, hB⟩ := repoint_facts G1 members a hrange
      set G2 := members.foldl
        (fun g m => g.setNode m ((fun x => { x with biSet := some a }) (g.node m))) G1 with hG2
      have hB' : ∀ j, (G2.node j).biSet = if j ∈ members then some a else (g'.node j).biSet := hB
      have hA : ∀ j, (G2.node j).alive = (g'.node j).alive := fun j => hcore.alive j
      have hSets : ∀ s, G2.biSets.getD s [] =
          if b = s then [] else if a = s then merged else g'.biSets.getD s [] := by
        intro s
        rw [hsets2]
        show ((g'.biSets.set a merged).set b []).getD s [] = _
        rw [getD_set_eq, getD_set_eq]
        simp only [List.length_set, hbl, hal, and_true]
      refine ⟨(withSets_core g' _).trans hcore, ⟨?_, ?_⟩, ?_⟩
      · intro i s hal' hb
        rw [hA] at hal'
        rw [hB'] at hb
        rw [hSets]
        by_cases h1 : i ∈ members
        · rw [if_pos h1] at hb
          cases hb
          rw [if_neg (fun e => hab e.symm), if_pos rfl, hmerged, mem_unionSorted]
          exact Or.inr h1
        · rw [if_neg h1] at hb
          have hmem' := hs'.mem_of i s hal' hb
          have hbs' : ¬ b = s := by
            rintro rfl; exact h1 hmem'
          rw [if_neg hbs']
          by_cases h2 : a = s
          · subst h2
            rw [if_pos rfl, hmerged, mem_unionSorted]; exact Or.inl hmem'
          · rw [if_neg h2]; exact hmem'
      · intro s i hm
        rw [hSets] at hm
        rw [hA, hB']
        by_cases h1 : b = s
        · rw [if_pos h1] at hm; cases hm
        · rw [if_neg h1] at hm
          by_cases h2 : a = s
          · subst h2
            rw [if_pos rfl, hmerged, mem_unionSorted] at hm
            by_cases h3 : i ∈ members
            · rw [if_pos h3]
              exact ⟨(hs'.of_mem b i h3).1, rfl⟩
            · rw [if_neg h3]
              rcases hm with hm | hm
              · exact hs'.of_mem a i hm
              · exact absurd hm h3
          · rw [if_neg h2] at hm
            have := hs'.of_mem s i hm
            have h3 : i ∉ members := by
              intro h3
              have h4 := (hs'.of_mem b i h3).2
              rw [this.2] at h4
              cases h4; exact h1 rfl
            rw [if_neg h3]; exact this
      · refine ⟨a, ?_, ?_, ?_⟩
        · rw [hB']
          by_cases h3 : n ∈ members
          · rw [if_pos h3]
          · rw [if_neg h3, hsn]
        · rw [hB', if_pos hpb]
        · intro s0 i h0 hi
          rw [← hbset n, ← hbset p, hsn, hsp] at h0
          rw [← hbs] at hi
          rw [hB']
          rcases h0 with h0 | h0
          · cases h0
            by_cases h3 : i ∈ members
            · rw [if_pos h3]
            · rw [if_neg h3]; exact (hs'.of_mem a i hi).2
          · cases h0
            rw [if_pos hi]

/-! ### constructed graphs -/

/-- graphs built from `G.init b` by `addSubgraph`, `addNode`, `dependsOn`, `biPropDependsOn` -/
inductive Built (b : Bool) : G → Prop
  | init : Built b (G.init b)
  | addSubgraph {g : G} : Built b g → Built b (addSubgraph g).1
  | addNode {g : G} (sub : Nat) : Built b g → sub < g.subs.length → Built b (addNode g sub).1
  | dependsOn {g : G} (n p : Nat) : Built b g → (g.node n).alive = true →
      (g.node p).alive = true → Built b (dependsOn g n p)
  | biPropDependsOn {g : G} (n p : Nat) : Built b g → (g.node n).alive = true →
      (g.node p).alive = true → Built b (biPropDependsOn g n p)

theorem Built.setsOK {b : Bool} {g : G} (h : Built b g) : SetsOK g := by
  induction h with
  | init => exact SetsOK.init b
  | addSubgraph _ ih => exact ih.addSubgraph
  | addNode sub _ _ ih => exact ih.addNode sub
  | dependsOn n p _ hn hp ih => exact ih.dependsOn n p hn hp
  | biPropDependsOn n p _ hn hp ih => exact (biPropDependsOn_spec _ n p ih hn hp).sets

theorem Built.fresh {b : Bool} {g : G} (h : Built b g) : EdgeBound g → Fresh g := by
  induction h with
  | init => intro _; exact Fresh.init b
  | addSubgraph _ ih => intro hb; exact (ih hb).addSubgraph
  | addNode sub _ hs ih =>
    intro hb
    refine (ih ?_).addNode sub hs
    unfold EdgeBound at hb ⊢
    rwa [addNode_edges] at hb
  | dependsOn n p _ hn hp ih =>
    intro hb
    refine (ih ?_).dependsOn n p hn hp hb
    unfold EdgeBound at hb ⊢
    rw [edges_dependsOn_length _ n p hn hp] at hb
    omega
  | @biPropDependsOn g n p hbuilt hn hp ih =>
    intro hb
    have hcore := (biPropDependsOn_spec g n p hbuilt.setsOK hn hp).core
    have hb' : EdgeBound (Dispenso.Graph.dependsOn g n p) := by
      unfold EdgeBound at hb ⊢
      rwa [hcore.edges] at hb
    refine Fresh.of_sameCore hcore ((ih ?_).dependsOn n p hn hp hb')
    unfold EdgeBound at hb' ⊢
    rw [edges_dependsOn_length _ n p hn hp] at hb'
    omega

end Dispenso.Graph
