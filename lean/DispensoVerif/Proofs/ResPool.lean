import DispensoVerif.Model.ResPool
import Mathlib.Data.List.Perm.Basic
import Mathlib.Tactic.SplitIfs
/-
Helper lemmas for C25 (`ResourcePool`): the inductive invariant `Inv` of the handle-level model and
its preservation by every action.
-/
namespace Dispenso.ResPool
open List

macro "perm_count" : tactic =>
  `(tactic| (rw [List.perm_iff_count]; intro y;
             simp only [List.count_append, List.count_cons, List.count_nil]; omega))

theorem countP_put {α : Type} [DecidableEq α] (p : α → Bool) {x : α} (x' : α) {l : List α} (h : x ∈ l) :
    (x' :: l.erase x).countP p + (if p x = true then 1 else 0) = l.countP p + (if p x' = true then 1 else 0) := by
  have := (perm_cons_erase h).countP_eq p
  rw [this, countP_cons, countP_cons]; omega

theorem countP_erase' {α : Type} [DecidableEq α] (p : α → Bool) {x : α} {l : List α} (h : x ∈ l) :
    (l.erase x).countP p + (if p x = true then 1 else 0) = l.countP p := by
  have := (perm_cons_erase h).countP_eq p
  rw [this, countP_cons]

theorem findT_some {s : St} {t : TId} {x : Thr} (h : findT s t = some x) : x ∈ s.thr ∧ x.tid = t := by
  unfold findT at h
  exact ⟨mem_of_find?_eq_some h, by simpa using find?_some h⟩

theorem holds_mem {g : Sh} {h : HId} {e : HId × Rid} (hh : holds g h = some e) : e ∈ g.held :=
  mem_of_find?_eq_some hh

theorem heldRids_erase {g : Sh} {e : HId × Rid} (he : e ∈ g.held) :
    heldRids g ~ e.2 :: (g.held.erase e).map Prod.snd := by
  have := (perm_cons_erase he).map Prod.snd
  simpa [heldRids] using this

theorem moveRes_perm (g : Sh) (h src : HId) : (moveRes g h src).map Prod.snd ~ heldRids g := by
  unfold moveRes
  cases hh : holds g src with
  | none => exact Perm.refl _
  | some e => simpa using (heldRids_erase (holds_mem hh)).symm

theorem moveRes_nil (g : Sh) (h src : HId) (hg : g.held = []) : moveRes g h src = [] := by
  simp [moveRes, holds, hg]

/-- the inductive invariant -/
structure Inv (s : St) : Prop where
  perm : allRids s.sh ~ List.range s.sh.made
  semq : s.sh.queue.length = s.sh.sem + takers s + pending s
  made_le : s.sh.made ≤ s.sh.size
  ph_made : (s.sh.phase = .alive ∨ s.sh.phase = .dying ∨ s.sh.phase = .dead) → s.sh.made = s.sh.size
  early : (s.sh.phase = .unborn ∨ s.sh.phase = .ctor ∨ s.sh.phase = .alive) → s.sh.destroyed = []
  dying : s.sh.phase = .dying → s.sh.held = [] ∧ ∃ t left, s.sh.destroyed.length + left = s.sh.size ∧
            (s.thr = [⟨t, .dSem left⟩] ∨ (1 ≤ left ∧ s.thr = [⟨t, .dDeq left⟩]))
  dead : s.sh.phase = .dead → s.sh.held = [] ∧ s.sh.queue = []
  nodtor : s.sh.phase ≠ .dying → ∀ y ∈ s.thr, ∀ left, y.pc ≠ .dSem left ∧ y.pc ≠ .dDeq left

theorem init_inv (size : Nat) : Inv (St.init size) := by
  constructor <;> simp [St.init, allRids, heldRids, takers, pending]

theorem allRids_length {s : St} (I : Inv s) :
    s.sh.queue.length + s.sh.held.length + s.sh.destroyed.length = s.sh.made := by
  have := I.perm.length_eq
  simp [allRids, heldRids] at this
  omega

/-! ### calls -/

theorem call_inv {s s' : St} {t : TId} {c : Call} (I : Inv s) (h : exec s (.call t c) = some s') : Inv s' := by
  simp only [exec] at h
  cases hf : findT s t with
  | some x => simp [hf] at h
  | none =>
    simp only [hf, Option.map_eq_some_iff] at h
    obtain ⟨⟨g', pc'⟩, hr, rfl⟩ := h
    have tk0 : ∀ pc' : PC, takers { sh := g', thr := ⟨t, pc'⟩ :: s.thr } = takers s + (if isTaker pc' = true then 1 else 0) := by
      intro pc'; simp [takers, countP_cons]
    have pd0 : ∀ pc' : PC, pending { sh := g', thr := ⟨t, pc'⟩ :: s.thr } = pending s + (if isPend pc' = true then 1 else 0) := by
      intro pc'; simp [pending, countP_cons]
    cases c with
    | ctor =>
      simp only [tcall] at hr
      split_ifs at hr with hp
      obtain ⟨rfl, rfl⟩ := by simpa using hr
      refine ⟨I.perm, ?_, I.made_le, by simp, fun _ => I.early (Or.inl hp), by simp, by simp, ?_⟩
      · rw [tk0, pd0]; simpa [isTaker, isPend] using I.semq
      · intro _ y hy left
        simp only [mem_cons] at hy
        rcases hy with rfl | hy
        · simp
        · exact I.nodtor (by simp [hp]) y hy left
    | acquire hd =>
      simp only [tcall] at hr
      split_ifs at hr with hp
      obtain ⟨rfl, rfl⟩ := by simpa using hr
      refine ⟨I.perm, ?_, I.made_le, I.ph_made, I.early, by simp [hp.1], by simp [hp.1], ?_⟩
      · rw [tk0, pd0]; simpa [isTaker, isPend] using I.semq
      · intro hne y hy left
        simp only [mem_cons] at hy
        rcases hy with rfl | hy
        · simp
        · exact I.nodtor hne y hy left
    | moveCtor hd src =>
      simp only [tcall] at hr
      split_ifs at hr with hp
      obtain ⟨rfl, rfl⟩ := by simpa using hr
      have hph : s.sh.phase = .alive ∨ s.sh.phase = .dead := by
        have := hp.1; simpa [handlePhase] using this
      refine ⟨?_, ?_, I.made_le, I.ph_made, I.early, ?_, ?_, ?_⟩
      · have := moveRes_perm s.sh hd src
        refine Perm.trans ?_ I.perm
        simp only [allRids, heldRids]
        exact (this.append_left _).append_right _
      · rw [tk0, pd0]; simpa [isTaker, isPend] using I.semq
      · intro hd'; rcases hph with h1 | h1 <;> simp [h1] at hd'
      · intro hd'
        have := I.dead hd'
        exact ⟨moveRes_nil _ _ _ this.1, this.2⟩
      · intro hne y hy left
        simp only [mem_cons] at hy
        rcases hy with rfl | hy
        · simp
        · exact I.nodtor hne y hy left
    | moveAssign hd src =>
      simp only [tcall] at hr
      split_ifs at hr with hp he
      · obtain ⟨rfl, rfl⟩ := by simpa using hr
        have hph : s.sh.phase = .alive ∨ s.sh.phase = .dead := by
          have := hp.1; simpa [handlePhase] using this
        refine ⟨I.perm, ?_, I.made_le, I.ph_made, I.early, ?_, I.dead, ?_⟩
        · rw [tk0, pd0]; simpa [isTaker, isPend] using I.semq
        · intro hd'; rcases hph with h1 | h1 <;> simp [h1] at hd'
        · intro hne y hy left
          simp only [mem_cons] at hy
          rcases hy with rfl | hy
          · simp
          · exact I.nodtor hne y hy left
      · obtain ⟨rfl, rfl⟩ := by simpa using hr
        have hph : s.sh.phase = .alive ∨ s.sh.phase = .dead := by
          have := hp.1; simpa [handlePhase] using this
        refine ⟨I.perm, ?_, I.made_le, I.ph_made, I.early, ?_, I.dead, ?_⟩
        · rw [tk0, pd0]; simpa [isTaker, isPend] using I.semq
        · intro hd'; rcases hph with h1 | h1 <;> simp [h1] at hd'
        · intro hne y hy left
          simp only [mem_cons] at hy
          rcases hy with rfl | hy
          · simp
          · exact I.nodtor hne y hy left
    | destroy hd =>
      simp only [tcall] at hr
      split_ifs at hr with hp
      obtain ⟨rfl, rfl⟩ := by simpa using hr
      have hph : s.sh.phase = .alive ∨ s.sh.phase = .dead := by
        have := hp.1; simpa [handlePhase] using this
      refine ⟨I.perm, ?_, I.made_le, I.ph_made, I.early, ?_, I.dead, ?_⟩
      · rw [tk0, pd0]; simpa [isTaker, isPend] using I.semq
      · intro hd'; rcases hph with h1 | h1 <;> simp [h1] at hd'
      · intro hne y hy left
        simp only [mem_cons] at hy
        rcases hy with rfl | hy
        · simp
        · exact I.nodtor hne y hy left
    | dtor =>
      simp only [tcall] at hr
      split_ifs at hr with hp
      obtain ⟨rfl, rfl⟩ := by simpa using hr
      obtain ⟨hal, hheld, hthr⟩ := hp
      have hd0 := I.early (Or.inr (Or.inr hal))
      refine ⟨I.perm, ?_, I.made_le, fun _ => I.ph_made (Or.inl hal), by simp, ?_, by simp, by simp⟩
      · rw [tk0, pd0]; simpa [isTaker, isPend] using I.semq
      · intro _
        exact ⟨hheld, t, s.sh.size, by simp [hd0], Or.inl (by simp [hthr])⟩

/-! ### steps of a thread inside a call -/

def tk (pc : PC) : Nat := if isTaker pc = true then 1 else 0
def pd (pc : PC) : Nat := if isPend pc = true then 1 else 0
def isDtorPc : PC → Bool
  | .dSem _ | .dDeq _ => true
  | _ => false

theorem takers_put {s : St} {x : Thr} (hm : x ∈ s.thr) (g' : Sh) (t : TId) (pc' : PC) :
    takers { sh := g', thr := ⟨t, pc'⟩ :: s.thr.erase x } + tk x.pc = takers s + tk pc' := by
  unfold takers tk
  exact countP_put (fun y => isTaker y.pc) ⟨t, pc'⟩ hm

theorem pending_put {s : St} {x : Thr} (hm : x ∈ s.thr) (g' : Sh) (t : TId) (pc' : PC) :
    pending { sh := g', thr := ⟨t, pc'⟩ :: s.thr.erase x } + pd x.pc = pending s + pd pc' := by
  unfold pending pd
  exact countP_put (fun y => isPend y.pc) ⟨t, pc'⟩ hm

theorem dying_thr {s : St} (I : Inv s) (hd : s.sh.phase = .dying) {x : Thr} (hm : x ∈ s.thr) :
    s.thr = [x] ∧ s.sh.held = [] ∧ ∃ left, s.sh.destroyed.length + left = s.sh.size ∧
      (x.pc = .dSem left ∨ (1 ≤ left ∧ x.pc = .dDeq left)) := by
  obtain ⟨hh, t0, left, hl, hthr⟩ := I.dying hd
  rcases hthr with hthr | ⟨h1, hthr⟩
  · rw [hthr] at hm ⊢
    simp only [mem_singleton] at hm
    subst hm
    exact ⟨rfl, hh, left, hl, Or.inl rfl⟩
  · rw [hthr] at hm ⊢
    simp only [mem_singleton] at hm
    subst hm
    exact ⟨rfl, hh, left, hl, Or.inr ⟨h1, rfl⟩⟩

theorem not_dying_of_pc {s : St} (I : Inv s) {x : Thr} (hm : x ∈ s.thr) (hx : isDtorPc x.pc = false) :
    s.sh.phase ≠ .dying := by
  intro hd
  obtain ⟨_, _, left, _, hpc⟩ := dying_thr I hd hm
  rcases hpc with h | ⟨_, h⟩ <;> simp [h, isDtorPc] at hx

/-- a step of a thread that is not the pool's destructor and leaves phase / construction and
destruction ledgers alone -/
theorem step_frame {s : St} {x : Thr} (t : TId) {g' : Sh} {pc' : PC} (I : Inv s) (hm : x ∈ s.thr)
    (hx : isDtorPc x.pc = false) (hx' : isDtorPc pc' = false)
    (hph : g'.phase = s.sh.phase) (hmade : g'.made = s.sh.made) (hsize : g'.size = s.sh.size)
    (hdes : g'.destroyed = s.sh.destroyed)
    (hperm : allRids g' ~ allRids s.sh)
    (hsem : g'.queue.length + (tk x.pc + pd x.pc) + s.sh.sem = s.sh.queue.length + (tk pc' + pd pc') + g'.sem)
    (hdead : s.sh.phase = .dead → g'.held = [] ∧ g'.queue = []) :
    Inv { sh := g', thr := ⟨t, pc'⟩ :: s.thr.erase x } := by
  have hnd := not_dying_of_pc I hm hx
  have h1 := takers_put hm g' t pc'
  have h2 := pending_put hm g' t pc'
  have h3 := I.semq
  refine ⟨?_, ?_, ?_, ?_, ?_, ?_, ?_, ?_⟩
  · show allRids g' ~ List.range g'.made
    rw [hmade]; exact hperm.trans I.perm
  · show g'.queue.length = g'.sem + _ + _
    omega
  · show g'.made ≤ g'.size
    rw [hmade, hsize]; exact I.made_le
  · show _ → g'.made = g'.size
    rw [hph, hmade, hsize]; exact I.ph_made
  · show _ → g'.destroyed = []
    rw [hph, hdes]; exact I.early
  · show g'.phase = .dying → _
    rw [hph]; intro hd; exact absurd hd hnd
  · show g'.phase = .dead → _
    rw [hph]; exact hdead
  · show g'.phase ≠ .dying → _
    intro _ y hy left
    simp only [mem_cons] at hy
    rcases hy with rfl | hy
    · constructor <;> (intro hc; simp only at hc; rw [hc] at hx'; simp [isDtorPc] at hx')
    · exact I.nodtor hnd y (mem_of_mem_erase hy) left

theorem step_inv {s s' : St} {t : TId} (I : Inv s) (h : exec s (.step t) = some s') : Inv s' := by
  simp only [exec] at h
  cases hf : findT s t with
  | none => simp [hf] at h
  | some x =>
    simp only [hf, Option.map_eq_some_iff] at h
    obtain ⟨⟨g', pc'⟩, hr, rfl⟩ := h
    show Inv { sh := g', thr := ⟨t, pc'⟩ :: s.thr.erase x }
    have hm := (findT_some hf).1
    cases hp : x.pc <;> simp only [hp, tstep] at hr
    case cRet | acqDeq | acqRet | hRet | dDeq | dRet => simp at hr
    case cLoop =>
      split_ifs at hr with hc hlt
      · -- one more resource constructed and enqueued
        obtain ⟨rfl, rfl⟩ := by simpa using hr
        have hc' : s.sh.phase = .ctor := by simpa using hc
        have hnd : s.sh.phase ≠ .dying := by simp [hc']
        have h1 := takers_put hm { s.sh with made := s.sh.made + 1, queue := s.sh.queue ++ [s.sh.made], sem := s.sh.sem + 1 } t .cLoop
        have h2 := pending_put hm { s.sh with made := s.sh.made + 1, queue := s.sh.queue ++ [s.sh.made], sem := s.sh.sem + 1 } t .cLoop
        have h3 := I.semq
        simp [hp, tk, pd, isTaker, isPend] at h1 h2
        refine ⟨?_, ?_, ?_, ?_, ?_, ?_, ?_, ?_⟩
        · show allRids _ ~ List.range (s.sh.made + 1)
          rw [range_succ]
          have := I.perm.append_right [s.sh.made]
          refine Perm.trans ?_ this
          simp only [allRids, heldRids]
          perm_count
        · show (s.sh.queue ++ [s.sh.made]).length = _
          simp only [length_append, length_singleton]
          omega
        · show s.sh.made + 1 ≤ s.sh.size
          omega
        · intro hh; simp [hc'] at hh
        · intro _; exact I.early (Or.inr (Or.inl hc'))
        · intro hh; simp [hc'] at hh
        · intro hh; simp [hc'] at hh
        · intro _ y hy left
          simp only [mem_cons] at hy
          rcases hy with rfl | hy
          · simp
          · exact I.nodtor hnd y (mem_of_mem_erase hy) left
      · -- construction finished
        obtain ⟨rfl, rfl⟩ := by simpa using hr
        have hc' : s.sh.phase = .ctor := by simpa using hc
        have hnd : s.sh.phase ≠ .dying := by simp [hc']
        have h1 := takers_put hm { s.sh with phase := .alive } t .cRet
        have h2 := pending_put hm { s.sh with phase := .alive } t .cRet
        have h3 := I.semq
        have h4 := I.made_le
        simp [hp, tk, pd, isTaker, isPend] at h1 h2
        refine ⟨I.perm, ?_, I.made_le, ?_, ?_, by simp, by simp, ?_⟩
        · show s.sh.queue.length = s.sh.sem + takers _ + pending _
          omega
        · intro _; show s.sh.made = s.sh.size; omega
        · intro _; exact I.early (Or.inr (Or.inl hc'))
        · intro _ y hy left
          simp only [mem_cons] at hy
          rcases hy with rfl | hy
          · simp
          · exact I.nodtor hnd y (mem_of_mem_erase hy) left
    case acqSem hd =>
      split_ifs at hr with hs
      obtain ⟨rfl, rfl⟩ := by simpa using hr
      refine step_frame t I hm (by simp [hp, isDtorPc]) (by simp [isDtorPc]) rfl rfl rfl rfl (Perm.refl _) ?_ ?_
      · simp only [hp, tk, pd, isTaker, isPend]; simp; omega
      · intro hd'; exact I.dead hd'
    case rel k =>
      cases hh : holds s.sh k.handle with
      | none =>
        simp only [hh] at hr
        obtain ⟨rfl, rfl⟩ := by simpa using hr
        refine step_frame t I hm (by simp [hp, isDtorPc]) (by simp [isDtorPc]) rfl rfl rfl rfl (Perm.refl _) ?_ I.dead
        simp [hp, tk, pd, isTaker, isPend]
      | some e =>
        simp only [hh] at hr
        obtain ⟨rfl, rfl⟩ := by simpa using hr
        have he := holds_mem hh
        refine step_frame t I hm (by simp [hp, isDtorPc]) (by simp [isDtorPc]) rfl rfl rfl rfl ?_ ?_ ?_
        · have := heldRids_erase he
          simp only [allRids, heldRids] at this ⊢
          have h2 : s.sh.queue ++ map Prod.snd s.sh.held ++ s.sh.destroyed ~
              s.sh.queue ++ (e.2 :: map Prod.snd (s.sh.held.erase e)) ++ s.sh.destroyed :=
            (this.append_left _).append_right _
          refine Perm.trans ?_ h2.symm
          perm_count
        · simp [hp, tk, pd, isTaker, isPend]
        · intro hd'
          have := (I.dead hd').1
          rw [this] at he
          simp at he
    case relSig k =>
      obtain ⟨rfl, rfl⟩ := by simpa using hr
      refine step_frame t I hm (by simp [hp, isDtorPc]) (by simp [isDtorPc]) rfl rfl rfl rfl (Perm.refl _) ?_ I.dead
      simp only [hp, tk, pd, isTaker, isPend]; simp; omega
    case fin k =>
      cases k with
      | destroy hd =>
        simp only [tstep] at hr
        obtain ⟨rfl, rfl⟩ := by simpa using hr
        refine step_frame t I hm (by simp [hp, isDtorPc]) (by simp [isDtorPc]) rfl rfl rfl rfl (Perm.refl _) ?_ I.dead
        simp [hp, tk, pd, isTaker, isPend]
      | assign hd src =>
        simp only [tstep] at hr
        obtain ⟨rfl, rfl⟩ := by simpa using hr
        refine step_frame t I hm (by simp [hp, isDtorPc]) (by simp [isDtorPc]) rfl rfl rfl rfl ?_ ?_ ?_
        · have := moveRes_perm s.sh hd src
          simp only [allRids, heldRids]
          exact (this.append_left _).append_right _
        · simp [hp, tk, pd, isTaker, isPend]
        · intro hd'
          have := I.dead hd'
          exact ⟨moveRes_nil _ _ _ this.1, this.2⟩
    case dSem left =>
      have hdy : s.sh.phase = .dying := by
        by_contra hne
        exact (I.nodtor hne x hm left).1 hp
      obtain ⟨hthr, hheld, left', hl, hpc⟩ := dying_thr I hdy hm
      have hleft : left' = left := by
        rcases hpc with h | ⟨_, h⟩ <;> rw [hp] at h <;> simp at h <;> omega
      subst hleft
      have her : s.thr.erase x = [] := by rw [hthr]; simp
      have hlen := allRids_length I
      have hmade := I.ph_made (Or.inr (Or.inl hdy))
      have h3 := I.semq
      have htk : takers s = 0 := by simp [takers, hthr, hp, isTaker]
      have hpd : pending s = 0 := by simp [pending, hthr, hp, isPend]
      split_ifs at hr with h0 hs
      · -- the destructor is done
        obtain ⟨rfl, rfl⟩ := by simpa using hr
        subst h0
        have hq : s.sh.queue = [] := by
          have : s.sh.queue.length = 0 := by rw [hheld] at hlen; simp at hlen; omega
          exact length_eq_zero_iff.mp this
        refine ⟨I.perm, ?_, I.made_le, fun _ => hmade, by simp, by simp, fun _ => ⟨hheld, hq⟩, ?_⟩
        · show s.sh.queue.length = s.sh.sem + takers _ + pending _
          simp only [her, takers, pending, countP_cons, countP_nil, isTaker, isPend]
          simp; omega
        · intro _ y hy left
          simp only [her, mem_cons, not_mem_nil, or_false] at hy
          subst hy; simp
      · obtain ⟨rfl, rfl⟩ := by simpa using hr
        refine ⟨I.perm, ?_, I.made_le, fun _ => hmade, by simp [hdy], ?_, by simp [hdy], by simp [hdy]⟩
        · show s.sh.queue.length = s.sh.sem - 1 + takers _ + pending _
          simp only [her, takers, pending, countP_cons, countP_nil, isTaker, isPend]
          simp; omega
        · intro _
          exact ⟨hheld, t, left', hl, Or.inr ⟨by omega, by simp [her]⟩⟩

theorem deq_inv {s s' : St} {t : TId} {r : Rid} (I : Inv s) (h : exec s (.deq t r) = some s') : Inv s' := by
  simp only [exec] at h
  cases hf : findT s t with
  | none => simp [hf] at h
  | some x =>
    simp only [hf, Option.map_eq_some_iff] at h
    obtain ⟨⟨g', pc'⟩, hr, rfl⟩ := h
    show Inv { sh := g', thr := ⟨t, pc'⟩ :: s.thr.erase x }
    have hm := (findT_some hf).1
    cases hp : x.pc <;> simp only [hp, tdeq] at hr
    case cLoop | cRet | acqSem | acqRet | rel | relSig | fin | hRet | dSem | dRet => simp at hr
    case acqDeq hd =>
      split_ifs at hr with hq
      obtain ⟨rfl, rfl⟩ := by simpa using hr
      have hpe := perm_cons_erase hq
      refine step_frame t I hm (by simp [hp, isDtorPc]) (by simp [isDtorPc]) rfl rfl rfl rfl ?_ ?_ ?_
      · simp only [allRids, heldRids, map_cons]
        have h2 : s.sh.queue ++ map Prod.snd s.sh.held ++ s.sh.destroyed ~
            (r :: s.sh.queue.erase r) ++ map Prod.snd s.sh.held ++ s.sh.destroyed :=
          (hpe.append_right _).append_right _
        refine Perm.trans ?_ h2.symm
        perm_count
      · have := hpe.length_eq
        simp only [length_cons] at this
        simp only [hp, tk, pd, isTaker, isPend]; simp; omega
      · intro hd'
        have := (I.dead hd').2
        rw [this] at hq
        simp at hq
    case dDeq left =>
      have hdy : s.sh.phase = .dying := by
        by_contra hne
        exact (I.nodtor hne x hm left).2 hp
      obtain ⟨hthr, hheld, left', hl, hpc⟩ := dying_thr I hdy hm
      have hleft : left' = left ∧ 1 ≤ left := by
        rcases hpc with h | ⟨h1, h⟩ <;> rw [hp] at h <;> simp at h <;> omega
      obtain ⟨rfl, h1⟩ := hleft
      have her : s.thr.erase x = [] := by rw [hthr]; simp
      have hmade := I.ph_made (Or.inr (Or.inl hdy))
      have h3 := I.semq
      have htk : takers s = 1 := by simp [takers, hthr, hp, isTaker]
      have hpd : pending s = 0 := by simp [pending, hthr, hp, isPend]
      split_ifs at hr with hq
      obtain ⟨rfl, rfl⟩ := by simpa using hr
      have hpe := perm_cons_erase hq
      refine ⟨?_, ?_, I.made_le, fun _ => hmade, by simp [hdy], ?_, by simp [hdy], by simp [hdy]⟩
      · refine Perm.trans ?_ I.perm
        simp only [allRids, heldRids]
        have h2 : s.sh.queue ++ map Prod.snd s.sh.held ++ s.sh.destroyed ~
            (r :: s.sh.queue.erase r) ++ map Prod.snd s.sh.held ++ s.sh.destroyed :=
          (hpe.append_right _).append_right _
        refine Perm.trans ?_ h2.symm
        perm_count
      · have := hpe.length_eq
        simp only [length_cons] at this
        show (s.sh.queue.erase r).length = s.sh.sem + takers _ + pending _
        simp only [her, takers, pending, countP_cons, countP_nil, isTaker, isPend]
        simp; omega
      · intro _
        refine ⟨hheld, t, left' - 1, ?_, Or.inl (by simp [her])⟩
        show (s.sh.destroyed ++ [r]).length + (left' - 1) = s.sh.size
        simp only [length_append, length_singleton]; omega

theorem ret_inv {s s' : St} {t : TId} (I : Inv s) (h : exec s (.ret t) = some s') : Inv s' := by
  simp only [exec] at h
  cases hf : findT s t with
  | none => simp [hf] at h
  | some x =>
    simp only [hf] at h
    split_ifs at h with hr
    simp only [Option.some.injEq] at h
    subst h
    have hm := (findT_some hf).1
    have hx : isDtorPc x.pc = false := by
      cases hp : x.pc <;> simp [hp, isRet] at hr <;> simp [isDtorPc]
    have hnd := not_dying_of_pc I hm hx
    have h1 := countP_erase' (fun y : Thr => isTaker y.pc) hm
    have h2 := countP_erase' (fun y : Thr => isPend y.pc) hm
    have ht : isTaker x.pc = false := by cases hp : x.pc <;> simp [hp, isRet] at hr <;> simp [isTaker]
    have hq : isPend x.pc = false := by cases hp : x.pc <;> simp [hp, isRet] at hr <;> simp [isPend]
    simp only [ht, hq] at h1 h2
    refine ⟨I.perm, ?_, I.made_le, I.ph_made, I.early, fun hd => absurd hd hnd, I.dead, ?_⟩
    · have := I.semq
      simp only [takers, pending] at this ⊢
      simp at h1 h2
      omega
    · intro _ y hy left
      exact I.nodtor hnd y (mem_of_mem_erase hy) left

theorem exec_inv {s s' : St} {a : Act} (I : Inv s) (h : exec s a = some s') : Inv s' := by
  cases a with
  | call t c => exact call_inv I h
  | step t => exact step_inv I h
  | deq t r => exact deq_inv I h
  | ret t => exact ret_inv I h

theorem reachable_inv {size : Nat} {s : St} (h : Reachable size s) : Inv s := by
  induction h with
  | init => exact init_inv size
  | step a _ he ih => exact exec_inv ih he

theorem exec_size {s s' : St} {a : Act} (h : exec s a = some s') : s'.sh.size = s.sh.size := by
  cases a with
  | call t c =>
    simp only [exec] at h
    cases hf : findT s t with
    | some x => simp [hf] at h
    | none =>
      simp only [hf, Option.map_eq_some_iff] at h
      obtain ⟨⟨g', pc'⟩, hr, rfl⟩ := h
      cases c <;> simp only [tcall] at hr <;> split_ifs at hr <;>
        (obtain ⟨rfl, rfl⟩ := by simpa using hr) <;> rfl
  | step t =>
    simp only [exec] at h
    cases hf : findT s t with
    | none => simp [hf] at h
    | some x =>
      simp only [hf, Option.map_eq_some_iff] at h
      obtain ⟨⟨g', pc'⟩, hr, rfl⟩ := h
      cases hp : x.pc <;> simp only [hp, tstep] at hr
      case cRet | acqDeq | acqRet | hRet | dDeq | dRet => simp at hr
      case rel k =>
        cases hh : holds s.sh k.handle <;> simp only [hh] at hr <;>
          (obtain ⟨rfl, rfl⟩ := by simpa using hr) <;> rfl
      case fin k =>
        cases k <;> simp only [tstep] at hr <;> (obtain ⟨rfl, rfl⟩ := by simpa using hr) <;> rfl
      all_goals
        first
          | (obtain ⟨rfl, rfl⟩ := by simpa using hr
             rfl)
          | (split_ifs at hr <;> (obtain ⟨rfl, rfl⟩ := by simpa using hr) <;> rfl)
  | deq t r =>
    simp only [exec] at h
    cases hf : findT s t with
    | none => simp [hf] at h
    | some x =>
      simp only [hf, Option.map_eq_some_iff] at h
      obtain ⟨⟨g', pc'⟩, hr, rfl⟩ := h
      cases hp : x.pc <;> simp only [hp, tdeq] at hr
      case cLoop | cRet | acqSem | acqRet | rel | relSig | fin | hRet | dSem | dRet => simp at hr
      all_goals
        split_ifs at hr <;> (obtain ⟨rfl, rfl⟩ := by simpa using hr) <;> rfl
  | ret t =>
    simp only [exec] at h
    cases hf : findT s t with
    | none => simp [hf] at h
    | some x =>
      simp only [hf] at h
      split_ifs at h
      simp only [Option.some.injEq] at h
      subst h; rfl

theorem reachable_size {size : Nat} {s : St} (h : Reachable size s) : s.sh.size = size := by
  induction h with
  | init => rfl
  | step a _ he ih => rw [exec_size he, ih]

end Dispenso.ResPool
