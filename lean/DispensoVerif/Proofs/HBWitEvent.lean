import DispensoVerif.Proofs.HBEvent
/-
C10, CompletionEvent: every non-relaxed entry of the `needEv` table is necessary.  For each site
the declared-order table of the source (`binding.reqOrder`) with THAT site weakened to relaxed
admits a contract-respecting execution (notifier/writer thread 0, reader thread 1) with a data race
on the client data (decided by evaluation: `HB.raceAt`).
-/
namespace Dispenso.Event
open Dispenso.Conc Dispenso.HB

inductive Site where
  | ntStore | wLoad | wfLoad0 | wfLoad | cLoad
  deriving DecidableEq, Repr

def siteOf : L → Option Site
  | .ntStore _ => some .ntStore
  | .wLoad _ => some .wLoad
  | .wfLoad0 _ _ => some .wfLoad0
  | .wfLoad _ => some .wfLoad
  | .cLoad => some .cLoad
  | _ => none

/-- the source's table with site `c` weakened to `memory_order_relaxed` -/
def reqBut (c : Site) : L → Nat := fun l => if siteOf l = some c then 0 else binding.reqOrder l

def notifierB (N : TId) (as : List (Act evP)) : Bool :=
  as.all fun a => match a with
    | .call t c => (match c.acc with
        | some (w, _) => if w then t == N else (t == N || c.rd)
        | none => match c.l with
          | .ntStore _ => t == N
          | _ => true)
    | _ => true

theorem notifier_of_notifierB {N : TId} {as : List (Act evP)} (h : notifierB N as = true) :
    ∀ a ∈ as, Notifier N a := by
  intro a ha t c e
  have := List.all_eq_true.1 h a ha
  subst e
  simp only at this
  refine ⟨fun w x hx => ?_, fun hn v hv => ?_⟩
  · rw [hx] at this
    cases w <;> simp at this ⊢ <;> exact this
  · rw [hn, hv] at this
    simpa using this

/-- the writer writes location 1 and calls notify (the store; the wake is not needed) -/
def publish : List (Act evP) :=
  [.call 0 ⟨.idle, true, false, some (true, 1)⟩, .step 0,
   .call 0 ⟨.ntStore 1, false, false, none⟩, .step 0]

/-- a reader whose call `l` observes completion and then reads location 1 -/
def readAfter (l l' : L) : List (Act evP) :=
  [.call 1 ⟨l, true, false, none⟩, .step 1, .call 1 ⟨l', true, true, some (false, 1)⟩, .step 1]

abbrev Wit (c : Site) (acts : List (Act evP)) : Prop :=
  ∃ s tr, runH (cSpec false isEventEntry (reqBut c)) (cinit false isEventEntry 0) acts = some (s, tr) ∧ Race tr

def viaWait : List (Act evP) := publish ++ readAfter (.wLoad 1) (.done 0)
def viaWaitFor0 : List (Act evP) := publish ++ readAfter (.wfLoad0 1 false) (.done 1)
def viaCompleted : List (Act evP) := publish ++ readAfter .cLoad (.done 1)
/-- waitFor that first sees the event not completed, then (after the notify) completed -/
def viaWaitFor : List (Act evP) :=
  [.call 1 ⟨.wfLoad0 1 true, true, false, none⟩, .step 1] ++ publish ++
  [.step 1, .call 1 ⟨.done 1, true, true, some (false, 1)⟩, .step 1]

theorem needed_ntStore : Wit .ntStore viaWait := exists_race_of_runH (i := 0) (j := 3) (by decide)
theorem needed_wLoad : Wit .wLoad viaWait := exists_race_of_runH (i := 0) (j := 3) (by decide)
theorem needed_wfLoad0 : Wit .wfLoad0 viaWaitFor0 :=
  exists_race_of_runH (i := 0) (j := 3) (by decide)
theorem needed_cLoad : Wit .cLoad viaCompleted := exists_race_of_runH (i := 0) (j := 3) (by decide)
theorem needed_wfLoad : Wit .wfLoad viaWaitFor := exists_race_of_runH (i := 1) (j := 4) (by decide)

theorem wit_contract : notifierB 0 viaWait = true ∧ notifierB 0 viaWaitFor0 = true ∧
    notifierB 0 viaCompleted = true ∧ notifierB 0 viaWaitFor = true := by decide

/-- with the unweakened table the witness executions are accepted by the detector -/
example : (runH (cSpec false isEventEntry binding.reqOrder) (cinit false isEventEntry 0) viaWaitFor).map
    (fun p => (p.2.length, (D.init.run p.2).isSome)) = some (5, true) := by decide

end Dispenso.Event
