import Mathlib.Data.Fintype.Card
import Mathlib.Data.Fintype.EquivFin
/-!
Pigeonhole facts about a partial numbering `xt : Nat → Option Nat` of `W` actors by `0 … xc-1`
(the order in which workers leave a `parallel_for` loop).
-/
namespace Dispenso.Pigeon

/-- every number below `xc` has an owner among the `W` actors ⇒ at most `W` numbers are out -/
theorem le_of_own (W xc : Nat) (xt : Nat → Option Nat)
    (own : ∀ n, n < xc → ∃ a, a < W ∧ xt a = some n) : xc ≤ W := by
  classical
  have hch : ∀ n : Fin xc, ∃ a : Fin W, xt a.1 = some n.1 := by
    intro n
    obtain ⟨a, ha, h⟩ := own n.1 n.2
    exact ⟨⟨a, ha⟩, h⟩
  choose f hf using hch
  have inj : Function.Injective f := by
    intro n m h
    have h1 := hf n
    have h2 := hf m
    rw [h] at h1
    rw [h1] at h2
    exact Fin.ext (Option.some.inj h2)
  simpa using Fintype.card_le_of_injective f inj

/-- if at least `W` numbers are out, every actor owns one of `0 … W-1` -/
theorem all_own (W xc : Nat) (xt : Nat → Option Nat)
    (own : ∀ n, n < xc → ∃ a, a < W ∧ xt a = some n) (hW : W ≤ xc) :
    ∀ b, b < W → ∃ n, n < W ∧ xt b = some n := by
  classical
  have hch : ∀ n : Fin W, ∃ a : Fin W, xt a.1 = some n.1 := by
    intro n
    obtain ⟨a, ha, h⟩ := own n.1 (by omega)
    exact ⟨⟨a, ha⟩, h⟩
  choose f hf using hch
  have inj : Function.Injective f := by
    intro n m h
    have h1 := hf n
    have h2 := hf m
    rw [h] at h1
    rw [h1] at h2
    exact Fin.ext (Option.some.inj h2)
  have sur : Function.Surjective f := Finite.injective_iff_surjective.mp inj
  intro b hb
  obtain ⟨n, hn⟩ := sur ⟨b, hb⟩
  refine ⟨n.1, n.2, ?_⟩
  have := hf n
  rw [hn] at this
  exact this

/-- if every actor owns a number below `xc ≤ W` and owners are unique, every number below `W` is owned -/
theorem hit (W xc : Nat) (xt : Nat → Option Nat)
    (all : ∀ b, b < W → ∃ n, n < xc ∧ xt b = some n)
    (inj : ∀ a b n, xt a = some n → xt b = some n → a = b) (hle : xc ≤ W) :
    ∀ n, n < W → ∃ a, a < W ∧ xt a = some n := by
  classical
  have hch : ∀ b : Fin W, ∃ n : Fin W, xt b.1 = some n.1 := by
    intro b
    obtain ⟨n, hn, h⟩ := all b.1 b.2
    exact ⟨⟨n, by omega⟩, h⟩
  choose g hg using hch
  have ginj : Function.Injective g := by
    intro a b h
    have h1 := hg a
    have h2 := hg b
    rw [h] at h1
    exact Fin.ext (inj _ _ _ h1 h2)
  have sur : Function.Surjective g := Finite.injective_iff_surjective.mp ginj
  intro n hn
  obtain ⟨b, hb⟩ := sur ⟨n, hn⟩
  refine ⟨b.1, b.2, ?_⟩
  have := hg b
  rw [hb] at this
  exact this

end Dispenso.Pigeon
