import DispensoVerif.Proofs.HBMpmc
/-
C10, MPMC ring: every non-relaxed entry of the order table is necessary.  For each site the
declared-order table of the source (`binding.reqOrder`) with THAT site weakened to relaxed admits an
execution (buffer size 2) with a data race on a slot element (decided by evaluation: `HB.raceAt`).
-/
namespace Dispenso.Mpmc
open Dispenso.Conc Dispenso.HB

inductive Site where
  | eLoadSeq | ePub | oLoadSeq | oPub | bSeq | bPub
  deriving DecidableEq, Repr

def siteOf : L → Option Site
  | .eLoadSeq _ _ => some .eLoadSeq
  | .ePub _ => some .ePub
  | .oLoadSeq _ => some .oLoadSeq
  | .oPub _ _ => some .oPub
  | .bSeq _ _ _ => some .bSeq
  | .bPub _ _ _ _ => some .bPub
  | _ => none

/-- the source's table with site `c` weakened to `memory_order_relaxed` -/
def reqBut (K : Nat) (c : Site) : L → Nat :=
  fun l => if siteOf l = some c then 0 else (binding K).reqOrder l

def push (v : Int) : List (Act (proto 2)) :=
  [.call 0 (L.eLoadT v), .step 0, .step 0, .step 0, .step 0, .step 0]
def pushW (v : Int) : List (Act (proto 2)) :=
  [.call 0 (L.eLoadT v), .step 0, .step 0, .step 0, .step 0]
def pushB (v : Int) : List (Act (proto 2)) :=
  [.call 0 (L.bLoadT [v]), .step 0, .step 0, .step 0, .step 0, .step 0]
def pushBW (v : Int) : List (Act (proto 2)) :=
  [.call 0 (L.bLoadT [v]), .step 0, .step 0, .step 0, .step 0]
def pop : List (Act (proto 2)) :=
  [.call 1 L.oLoadH, .step 1, .step 1, .step 1, .step 1, .step 1, .step 1]
def popW : List (Act (proto 2)) :=
  [.call 1 L.oLoadH, .step 1, .step 1, .step 1, .step 1, .step 1]

abbrev Wit (c : Site) (acts : List (Act (proto 2))) : Prop :=
  ∃ s tr, runH (hbSpec 2 (reqBut 2 c)) (init 2) acts = some (s, tr) ∧ Race tr

theorem needed_ePub : Wit .ePub (push 7 ++ popW) :=
  exists_race_of_runH (i := 3) (j := 9) (by decide)
theorem needed_oLoadSeq : Wit .oLoadSeq (push 7 ++ popW) :=
  exists_race_of_runH (i := 3) (j := 9) (by decide)
theorem needed_oPub : Wit .oPub (push 7 ++ pop ++ push 8 ++ pushW 9) :=
  exists_race_of_runH (i := 9) (j := 19) (by decide)
theorem needed_eLoadSeq : Wit .eLoadSeq (push 7 ++ pop ++ push 8 ++ pushW 9) :=
  exists_race_of_runH (i := 9) (j := 19) (by decide)
theorem needed_bPub : Wit .bPub (pushB 7 ++ popW) :=
  exists_race_of_runH (i := 3) (j := 9) (by decide)
theorem needed_bSeq : Wit .bSeq (push 7 ++ pop ++ push 8 ++ pushBW 9) :=
  exists_race_of_runH (i := 9) (j := 19) (by decide)

/-- with the unweakened table the longest witness execution is accepted by the detector -/
example : (runH (hbSpec 2 (binding 2).reqOrder) (init 2) (push 7 ++ pop ++ push 8 ++ pushW 9)).map
    (fun p => (D.init.run p.2).isSome) = some true := by decide

end Dispenso.Mpmc
