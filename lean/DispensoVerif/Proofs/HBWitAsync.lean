import DispensoVerif.Proofs.HBAsyncReq
/-
C10, AsyncRequest: every non-relaxed entry of the `need` table is necessary.  For each site the
declared-order table of the source (`binding.reqOrder`) with THAT site weakened to relaxed admits an
execution with a data race on the stored object (decided by evaluation: `HB.raceAt`).
-/
namespace Dispenso.AsyncReq
open Dispenso.Conc Dispenso.HB

inductive Site where
  | teCas | tePublish | guCas | guReset
  deriving DecidableEq, Repr

def siteOf : L → Option Site
  | .teCas _ => some .teCas
  | .tePublish => some .tePublish
  | .guCas => some .guCas
  | .guReset _ => some .guReset
  | _ => none

/-- the source's table with site `c` weakened to `memory_order_relaxed` -/
def reqBut (c : Site) : L → Nat := fun l => if siteOf l = some c then 0 else binding.reqOrder l

/-- request, emplace 7, getUpdate up to the move-out -/
def round1 : List (Act proto) :=
  [.call 1 L.ruCas, .step 1, .call 2 (L.teCas 7), .step 2, .step 2, .step 2,
   .call 1 L.guCas, .step 1, .step 1]

/-- ... the consumer finishes, a third thread requests again, the producer emplaces again -/
def round2 : List (Act proto) :=
  round1 ++ [.step 1, .call 3 L.ruCas, .step 3, .call 2 (L.teCas 8), .step 2, .step 2]

theorem needed_tePublish : ∃ s tr, runH (hbSpec (reqBut .tePublish)) init round1 = some (s, tr) ∧
    Race tr := exists_race_of_runH (i := 2) (j := 5) (by decide)

theorem needed_guCas : ∃ s tr, runH (hbSpec (reqBut .guCas)) init round1 = some (s, tr) ∧
    Race tr := exists_race_of_runH (i := 2) (j := 5) (by decide)

theorem needed_guReset : ∃ s tr, runH (hbSpec (reqBut .guReset)) init round2 = some (s, tr) ∧
    Race tr := exists_race_of_runH (i := 5) (j := 9) (by decide)

theorem needed_teCas : ∃ s tr, runH (hbSpec (reqBut .teCas)) init round2 = some (s, tr) ∧
    Race tr := exists_race_of_runH (i := 5) (j := 9) (by decide)

/-- with the unweakened table the same executions have no race (sanity of the witnesses) -/
example : (runH (hbSpec binding.reqOrder) init round2).map (fun p => (D.init.run p.2).isSome) =
    some true := by decide

end Dispenso.AsyncReq
