import DispensoVerif.Proofs.TimedTaskD
import DispensoVerif.Proofs.TimedTaskE
import DispensoVerif.Proofs.TimedTaskF
import DispensoVerif.Proofs.TimedTaskG
import DispensoVerif.Proofs.TimedTaskH

/-! C26: the invariants hold in every reachable state -/
namespace Dispenso.TimedTask

structure Inv (c : Cfg) (s : St) : Prop where
  a : InvA c s
  b : InvB c s
  cc : InvC s
  d : InvD s
  e : InvE c s
  f : InvF c s
  h : InvH c s

theorem inv_reachable {c : Cfg} {s : St} (hr : Reachable c s) : Inv c s := by
  induction hr with
  | init => exact ⟨invA_init c, invB_init c, invC_init c, invD_init c, invE_init c, invF_init c, invH_init c⟩
  | step a _ hs ih =>
    exact ⟨invA_step ih.a hs, invB_step ih.a ih.b hs, invC_step ih.cc hs, invD_step ih.b ih.cc ih.d hs,
      invE_step ih.a ih.e hs, invF_step ih.a ih.f hs, invH_step ih.a ih.h hs⟩

theorem invG_reachable {c : Cfg} {s : St} (hf : c.fixed = true) (hr : Reachable c s) : InvG s := by
  induction hr with
  | init => exact invG_init c
  | step a hr' hs ih =>
    have hI := inv_reachable hr'
    exact invG_step hf hI.a hI.b hI.cc hI.d ih hs

theorem reachable_run {c : Cfg} {s s' : St} (hr : Reachable c s) (as : List Act)
    (h : run c s as = some s') : Reachable c s' := by
  induction as generalizing s with
  | nil => simp only [run, Option.some.injEq] at h; subst h; exact hr
  | cons a as ih =>
    simp only [run] at h
    split at h
    · rename_i s1 hs1; exact ih (.step a hr hs1) h
    · cases h

theorem reachable_of_run {c : Cfg} {s : St} (as : List Act) (h : run c (init c) as = some s) :
    Reachable c s := reachable_run .init as h

theorem cnt_eq_zero_iff (p : W → Bool) (l : List W) : cnt p l = 0 ↔ ∀ w ∈ l, p w = false := by
  unfold cnt
  rw [List.countP_eq_zero]
  constructor
  · intro h w hw; simpa using h w hw
  · intro h w hw; simp [h w hw]

/-- the ghost `dtorRet` is sticky -/
theorem dtorRet_step {c : Cfg} {s s' : St} {a : Act} (hs : step c s a = some s')
    (h : s.dtorRet = true) : s'.dtorRet = true := by
  cases a <;> step_split hs <;> simp_all [setCl, setWrap, useFunc, clearFunc]

theorem dtorRet_run {c : Cfg} {s s' : St} (as : List Act) (hs : run c s as = some s')
    (h : s.dtorRet = true) : s'.dtorRet = true := by
  induction as generalizing s with
  | nil => simp only [run, Option.some.injEq] at hs; subst hs; exact h
  | cons a as ih =>
    simp only [run] at hs
    split at hs
    · rename_i s1 hs1; exact ih hs (dtorRet_step hs1 h)
    · cases hs

/-- `started` grows by at most one per step, and only when a pending wrap passes its check while
    the task is not cancelled -/
theorem start_step {c : Cfg} {s s' : St} {a : Act} (hs : step c s a = some s') :
    s'.started = s.started ∨
      (s'.started = s.started + 1 ∧ s.cancelled = false ∧ ∃ i, a = .wstep i ∧ s.wraps[i]? = some W.pending) := by
  cases a with
  | wstep i =>
    simp only [step, wstepF] at hs
    cases hw : s.wraps[i]? with
    | none => simp [hw] at hs
    | some w =>
      simp only [hw] at hs
      cases w <;> simp only [] at hs <;> (repeat' (split at hs)) <;>
        (first | (simp at hs; done) | skip) <;>
        (try simp only [Option.some.injEq] at hs) <;> (try subst hs) <;>
        simp_all [setWrap, clearFunc]
  | _ => left; step_split hs <;> simp_all [setCl, setWrap, useFunc, clearFunc]

/-- the ghost `dtorRet` says exactly that `~TimedTask` returned on the waiting path -/
theorem dtorRet_iff {c : Cfg} {s : St} (hr : Reachable c s) : s.dtorRet = true ↔ s.d = .returned true := by
  induction hr with
  | init => simp [init]
  | step a _ hs ih =>
    cases a <;> step_split hs <;> simp_all [setCl, setWrap, useFunc, clearFunc]

end Dispenso.TimedTask
