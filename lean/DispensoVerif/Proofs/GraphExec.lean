import DispensoVerif.Proofs.Graph
/-
Wave executor (`execute`): micro-step invariant `GInv`, its preservation by "complete a node",
"decrement a dependent", the two folds of `runWave`, and `execLoop`; final characterisation.
-/
namespace Dispenso.Graph
open List

theorem wrap_sub_one (x : Nat) (h1 : 1 ≤ x) (h2 : x < kCompleted) :
    wrap ((x : Int) - 1) = x - 1 := by
  unfold wrap kCompleted at *; omega

theorem wrap_add_one (x : Nat) (h2 : x + 1 < kCompleted) : wrap (x + 1) = x + 1 := by
  unfold wrap kCompleted at *; omega

/-! ### the two micro steps -/

/-- `node->run()` bookkeeping: mark completed -/
def complete (g : G) (id : Nat) : G := g.setNode id { g.node id with inc := kCompleted }

theorem complete_shape (g : G) (id : Nat) : SameShape g (complete g id) := sameShape_setInc g id _

theorem complete_node_ne (g : G) (id j : Nat) (h : id ≠ j) : (complete g id).node j = g.node j :=
  setNode_node_ne g id _ j h

theorem complete_completed (g : G) (id j : Nat) (hid : id < g.nodes.length) :
    completed ((complete g id).node j) = true ↔ (j = id ∨ completed (g.node j) = true) := by
  unfold complete
  rw [setNode_node]
  by_cases h : id = j
  · subst h
    simp [hid, completed]
  · have h' : ¬ j = id := fun e => h e.symm
    simp [h, h']

theorem incPreds_complete (g : G) (id n : Nat) (hal : (g.node id).alive = true)
    (hnc : ¬ completed (g.node id) = true) :
    incPreds g n = incPreds (complete g id) n + (g.node id).dependents.count n := by
  unfold incPreds
  rw [(complete_shape g id).edges, ← countP_edges_src g id n hal]
  apply countP_split
  intro e _
  have hc := complete_completed g id e.1 (lt_of_alive hal)
  simp only [decide_eq_true_eq]
  constructor
  · constructor
    · rintro ⟨h1, h2⟩
      by_cases he : e.1 = id
      · exact Or.inr ⟨he, h1⟩
      · refine Or.inl ⟨h1, fun h => ?_⟩
        rcases hc.1 h with h | h
        · exact he h
        · exact h2 h
    · rintro (⟨h1, h2⟩ | ⟨h1, h2⟩)
      · exact ⟨h1, fun h => h2 (hc.2 (Or.inr h))⟩
      · exact ⟨h2, by rw [h1]; exact hnc⟩
  · rintro ⟨⟨_, h2⟩, h3, _⟩
    exact h2 (hc.2 (Or.inl h3))

/-- `decInc` on an incomplete node with `1 ≤ inc < kCompleted` -/
theorem decInc_incomplete (g : G) (d : Nat) (h : ¬ completed (g.node d) = true) :
    decInc g d = (g.setNode d { g.node d with inc := wrap (((g.node d).inc : Int) - 1) },
      decide ((g.node d).inc = 1)) := by
  unfold decInc
  simp [h]

theorem decInc_skip (g : G) (d : Nat) (hb : g.biProp = true) (h : completed (g.node d) = true) :
    decInc g d = (g, false) := by
  unfold decInc
  simp [h, hb]

/-- graphs with the same shape and the same completed nodes have the same `incPreds` -/
theorem incPreds_congr {g g' : G} (hs : SameShape g g')
    (hc : ∀ j, completed (g'.node j) = completed (g.node j)) (n : Nat) :
    incPreds g' n = incPreds g n := by
  unfold incPreds
  rw [hs.edges]
  apply List.countP_congr
  intro e _
  simp [hc]

/-! ### the invariant -/

structure GInv (g0 g : G) (D T pend : List Nat) : Prop where
  shape : SameShape g0 g
  mono : ∀ i, completed (g0.node i) = true → completed (g.node i) = true
  cnt : ∀ n, (g.node n).alive = true → ¬ completed (g.node n) = true →
    (g.node n).inc = incPreds g n + pend.count n
  bnd : ∀ n, (g.node n).alive = true → ¬ completed (g.node n) = true → (g.node n).inc < kCompleted
  memD : ∀ i, i ∈ D ↔ ((g.node i).alive = true ∧ ¬ completed (g0.node i) = true ∧
    completed (g.node i) = true)
  memT : ∀ i, i ∈ T ↔ ((g.node i).alive = true ∧ (g.node i).inc = 0)
  ndD : D.Nodup
  ndT : T.Nodup
  ord : ∀ p d, (p, d) ∈ edges g0 → p ∈ D ++ T → d ∈ D ++ T →
    idxOf p (D ++ T) < idxOf d (D ++ T)
  clos : ∀ p d, (p, d) ∈ edges g0 → ¬ completed (g.node p) = true →
    completed (g.node d) = true → g.biProp = true ∧ completed (g0.node d) = true
  pendc : ∀ d ∈ pend, (g.node d).alive = true ∧ (completed (g.node d) = true → g.biProp = true)

theorem zero_not_completed {n : NodeS} (h : n.inc = 0) : ¬ completed n = true := by
  rw [completed_iff, h]; unfold kCompleted; omega

theorem GInv.complete {g0 g : G} {D T : List Nat} {id : Nat} (hw : WF g0)
    (h : GInv g0 g D (id :: T) []) :
    GInv g0 (complete g id) (D ++ [id]) T (g.node id).dependents := by
  have hidT := (h.memT id).1 List.mem_cons_self
  have hal : (g.node id).alive = true := hidT.1
  have hinc : (g.node id).inc = 0 := hidT.2
  have hnc : ¬ completed (g.node id) = true := zero_not_completed hinc
  have hlt := lt_of_alive hal
  have hcc := fun j => complete_completed g id j hlt
  have hsh := complete_shape g id
  have hed : edges g = edges g0 := h.shape.edges
  have hnd := List.nodup_cons.1 h.ndT
  have hidD : id ∉ D := fun hm => hnc ((h.memD id).1 hm).2.2
  have hnopred : ∀ p, (p, id) ∈ edges g0 → completed (g.node p) = true := by
    intro p he
    by_contra hp
    have := incPreds_pos (hed ▸ he) hp
    have := h.cnt id hal hnc
    simp at this
    omega
  refine ⟨h.shape.trans hsh, ?_, ?_, ?_, ?_, ?_, ?_, hnd.2, ?_, ?_, ?_⟩
  · intro i hi
    exact (hcc i).2 (Or.inr (h.mono i hi))
  · intro n hal' hnc'
    have hne : n ≠ id := fun e => hnc' ((hcc n).2 (Or.inl e))
    have hnc2 : ¬ completed (g.node n) = true := fun e => hnc' ((hcc n).2 (Or.inr e))
    rw [complete_node_ne g id n (Ne.symm hne)] at hal' ⊢
    have := h.cnt n hal' hnc2
    rw [incPreds_complete g id n hal hnc] at this
    simpa using this
  · intro n hal' hnc'
    have hne : n ≠ id := fun e => hnc' ((hcc n).2 (Or.inl e))
    have hnc2 : ¬ completed (g.node n) = true := fun e => hnc' ((hcc n).2 (Or.inr e))
    rw [complete_node_ne g id n (Ne.symm hne)] at hal' ⊢
    exact h.bnd n hal' hnc2
  · intro i
    rw [List.mem_append, List.mem_singleton, h.memD i, hcc i, hsh.alive i]
    constructor
    · rintro (⟨h1, h2, h3⟩ | rfl)
      · exact ⟨h1, h2, Or.inr h3⟩
      · exact ⟨hal, fun e => hnc (h.mono _ e), Or.inl rfl⟩
    · rintro ⟨h1, h2, h3 | h3⟩
      · exact Or.inr h3
      · exact Or.inl ⟨h1, h2, h3⟩
  · intro i
    by_cases hi : i = id
    · subst hi
      constructor
      · intro hm; exact absurd hm hnd.1
      · rintro ⟨_, h2⟩
        have : completed ((Dispenso.Graph.complete g i).node i) = true := (hcc i).2 (Or.inl rfl)
        exact absurd this (zero_not_completed h2)
    · rw [complete_node_ne g id i (Ne.symm hi), ← h.memT i]
      simp [hi]
  · rw [List.nodup_append]
    refine ⟨h.ndD, List.nodup_singleton _, ?_⟩
    intro a ha b hb
    rw [List.mem_singleton] at hb
    subst hb
    exact fun e => hidD (e ▸ ha)
  · have : D ++ [id] ++ T = D ++ id :: T := by simp
    rw [this]; exact h.ord
  · intro p d he hp hd
    have hp2 : ¬ completed (g.node p) = true := fun e => hp ((hcc p).2 (Or.inr e))
    rcases (hcc d).1 hd with rfl | hd2
    · exact absurd (hnopred p he) hp2
    · exact h.clos p d he hp2 hd2
  · intro d hd
    have he : (id, d) ∈ edges g := mem_edges.2 ⟨hal, hd⟩
    have he0 : (id, d) ∈ edges g0 := hed ▸ he
    refine ⟨?_, ?_⟩
    · rw [(h.shape.trans hsh).alive]
      exact hw.deps_live id d he0
    · intro hcd
      rcases (hcc d).1 hcd with rfl | hd2
      · exact absurd (hnopred d he0) hnc
      · exact (h.clos id d he0 hnc hd2).1

theorem GInv.dec {g0 g : G} {D T pend : List Nat} {d : Nat}
    (h : GInv g0 g D T (d :: pend)) :
    GInv g0 (decInc g d).1 D (if (decInc g d).2 = true then T ++ [d] else T) pend := by
  have hpd := h.pendc d List.mem_cons_self
  have hed : edges g = edges g0 := h.shape.edges
  by_cases hcd : completed (g.node d) = true
  · rw [decInc_skip g d (hpd.2 hcd) hcd]
    simp only [Bool.false_eq_true, if_false]
    refine ⟨h.shape, h.mono, ?_, h.bnd, h.memD, h.memT, h.ndD, h.ndT, h.ord, h.clos, ?_⟩
    · intro n hal hnc
      have hne : d ≠ n := fun e => hnc (e ▸ hcd)
      have := h.cnt n hal hnc
      rw [List.count_cons] at this
      simpa [hne] using this
    · intro x hx; exact h.pendc x (List.mem_cons_of_mem _ hx)
  · rw [decInc_incomplete g d hcd]
    have hal := hpd.1
    have hlt := lt_of_alive hal
    have hcnt := h.cnt d hal hcd
    have hbnd := h.bnd d hal hcd
    rw [List.count_cons] at hcnt
    simp only [beq_self_eq_true, if_true] at hcnt
    have hw1 := wrap_sub_one (g.node d).inc (by omega) hbnd
    set g' := g.setNode d { g.node d with inc := wrap (((g.node d).inc : Int) - 1) } with hg'
    have hsh : SameShape g g' := sameShape_setInc g d _
    have hnode_ne : ∀ j, j ≠ d → g'.node j = g.node j :=
      fun j hj => setNode_node_ne g d _ j (Ne.symm hj)
    have hnode_d : (g'.node d).inc = (g.node d).inc - 1 := by
      rw [hg', setNode_node_self g d _ hlt]; exact hw1
    have hcomp : ∀ j, completed (g'.node j) = completed (g.node j) := by
      intro j
      by_cases hj : j = d
      · subst hj
        have h1 : ¬ completed (g'.node j) = true := by
          rw [completed_iff, hnode_d]; omega
        simp [h1, hcd]
      · rw [hnode_ne j hj]
    have hinc := fun n => incPreds_congr hsh hcomp n
    have hdT : d ∉ T := fun hm => by
      have := ((h.memT d).1 hm).2; omega
    have hdD : d ∉ D := fun hm => hcd ((h.memD d).1 hm).2.2
    simp only [decide_eq_true_eq]
    refine ⟨h.shape.trans hsh, ?_, ?_, ?_, ?_, ?_, h.ndD, ?_, ?_, ?_, ?_⟩
    · intro i hi; rw [hcomp]; exact h.mono i hi
    · intro n hal' hnc'
      rw [hcomp] at hnc'
      rw [hsh.alive] at hal'
      rw [hinc]
      by_cases hn : n = d
      · subst hn
        rw [hnode_d]; omega
      · rw [hnode_ne n hn]
        have := h.cnt n hal' hnc'
        rw [List.count_cons] at this
        have hne : ¬ d = n := fun e => hn e.symm
        simpa [hne] using this
    · intro n hal' hnc'
      rw [hcomp] at hnc'
      rw [hsh.alive] at hal'
      by_cases hn : n = d
      · subst hn
        rw [hnode_d]; omega
      · rw [hnode_ne n hn]; exact h.bnd n hal' hnc'
    · intro i
      rw [h.memD i, hcomp, hsh.alive]
    · intro i
      by_cases hi : i = d
      · subst hi
        rw [hnode_d, hsh.alive]
        split_ifs with h1
        · simp [hal, h1]
        · constructor
          · intro hm; exact absurd hm hdT
          · rintro ⟨_, h2⟩; omega
      · rw [hnode_ne i hi]
        split_ifs with h1
        · rw [List.mem_append, List.mem_singleton, h.memT i]; simp [hi]
        · exact h.memT i
    · split_ifs with h1
      · rw [List.nodup_append]
        refine ⟨h.ndT, List.nodup_singleton _, ?_⟩
        intro a ha b hb
        rw [List.mem_singleton] at hb
        subst hb
        exact fun e => hdT (e ▸ ha)
      · exact h.ndT
    · split_ifs with h1
      · have hS : d ∉ D ++ T := by
          rw [List.mem_append]; rintro (hm | hm)
          · exact hdD hm
          · exact hdT hm
        have happ : D ++ (T ++ [d]) = (D ++ T) ++ [d] := by simp
        rw [happ]
        have hidx_d : idxOf d ((D ++ T) ++ [d]) = (D ++ T).length := by
          rw [List.idxOf_append_of_notMem hS]; simp
        intro p x he hp hx
        rw [List.mem_append, List.mem_singleton] at hp hx
        rcases hx with hx | rfl
        · rcases hp with hp | rfl
          · rw [List.idxOf_append_of_mem hp, List.idxOf_append_of_mem hx]
            exact h.ord p x he hp hx
          · -- edge from `d` (incomplete, not scheduled) into a scheduled node: impossible
            exfalso
            rcases List.mem_append.1 hx with hxD | hxT
            · have hx3 := (h.memD x).1 hxD
              exact hx3.2.1 (h.clos p x he hcd hx3.2.2).2
            · have hx3 := (h.memT x).1 hxT
              have hxnc := zero_not_completed hx3.2
              have := h.cnt x hx3.1 hxnc
              have := incPreds_pos (hed ▸ he) hcd
              omega
        · rcases hp with hp | rfl
          · rw [List.idxOf_append_of_mem hp, hidx_d]
            exact List.idxOf_lt_length_iff.2 hp
          · exfalso
            have := incPreds_pos (hed ▸ he) hcd
            omega
      · exact h.ord
    · intro p x he hp hx
      rw [hcomp] at hp hx
      exact h.clos p x he hp hx
    · intro x hx
      have := h.pendc x (List.mem_cons_of_mem _ hx)
      rw [hcomp, hsh.alive]
      exact this

/-! ### the folds of `runWave` -/

def decStep (a : G × List Nat) (d : Nat) : G × List Nat :=
  ((decInc a.1 d).1, if (decInc a.1 d).2 then a.2 ++ [d] else a.2)

def waveStep (acc : G × List Nat) (id : Nat) : G × List Nat :=
  let g1 := acc.1.setNode id { acc.1.node id with inc := kCompleted }
  (g1.node id).dependents.foldl decStep (g1, acc.2)

theorem runWave_eq (g : G) (wave : List Nat) : runWave g wave = wave.foldl waveStep (g, []) := rfl

theorem complete_deps (g : G) (id : Nat) :
    ((complete g id).node id).dependents = (g.node id).dependents :=
  (complete_shape g id).deps id

theorem GInv.decFold {g0 : G} {D rem : List Nat} :
    ∀ (pend : List Nat) (g : G) (next : List Nat), GInv g0 g D (rem ++ next) pend →
      GInv g0 (pend.foldl decStep (g, next)).1 D (rem ++ (pend.foldl decStep (g, next)).2) [] := by
  intro pend
  induction pend with
  | nil => intro g next h; exact h
  | cons d pend ih =>
    intro g next h
    rw [List.foldl_cons]
    have h' := h.dec
    have : decStep (g, next) d = ((decInc g d).1, if (decInc g d).2 then next ++ [d] else next) := rfl
    rw [this]
    apply ih
    by_cases hr : (decInc g d).2 = true
    · rw [if_pos hr] at h' ⊢
      rw [← List.append_assoc]; exact h'
    · rw [if_neg hr] at h' ⊢
      exact h'

theorem GInv.waveFold {g0 : G} (hw : WF g0) :
    ∀ (rem : List Nat) (g : G) (D next : List Nat), GInv g0 g D (rem ++ next) [] →
      GInv g0 (rem.foldl waveStep (g, next)).1 (D ++ rem) (rem.foldl waveStep (g, next)).2 [] := by
  intro rem
  induction rem with
  | nil => intro g D next h; simpa using h
  | cons id rem ih =>
    intro g D next h
    rw [List.foldl_cons]
    have h1 : GInv g0 (Dispenso.Graph.complete g id) (D ++ [id]) (rem ++ next) (g.node id).dependents :=
      GInv.complete hw (by simpa using h)
    have h2 := GInv.decFold _ _ _ h1
    have hstep : waveStep (g, next) id =
        (g.node id).dependents.foldl decStep (Dispenso.Graph.complete g id, next) := by
      show ((Dispenso.Graph.complete g id).node id).dependents.foldl decStep
        (Dispenso.Graph.complete g id, next) = _
      rw [complete_deps g id]
    rw [hstep]
    have h3 := ih _ (D ++ [id]) _ h2
    have : D ++ [id] ++ rem = D ++ id :: rem := by simp
    rw [this] at h3
    exact h3

theorem GInv.runWave {g0 g : G} {D wave : List Nat} (hw : WF g0) (h : GInv g0 g D wave []) :
    GInv g0 (runWave g wave).1 (D ++ wave) (runWave g wave).2 [] := by
  rw [runWave_eq]
  exact GInv.waveFold hw wave g D [] (by simpa using h)

theorem GInv.D_length_le {g0 g : G} {D T pend : List Nat} (hw : WF g0) (h : GInv g0 g D T pend) :
    D.length ≤ (allNodes g0).length := by
  apply List.Nodup.length_le_of_subset h.ndD
  intro i hi
  rw [hw.mem_all, ← h.shape.alive]
  exact ((h.memD i).1 hi).1

theorem execLoop_inv {g0 : G} (hw : WF g0) :
    ∀ (fuel : Nat) (g : G) (wave log : List Nat), GInv g0 g log wave [] →
      (allNodes g0).length < fuel + log.length →
      GInv g0 (execLoop fuel g wave log).1 (execLoop fuel g wave log).2 [] [] := by
  intro fuel
  induction fuel with
  | zero =>
    intro g wave log h hf
    have := h.D_length_le hw
    omega
  | succ fuel ih =>
    intro g wave log h hf
    unfold execLoop
    by_cases hwv : wave = []
    · rw [if_pos hwv]; subst hwv; exact h
    · rw [if_neg hwv]
      have h1 := h.runWave hw
      have hlen : 0 < wave.length := List.length_pos_iff.2 hwv
      exact ih _ _ _ h1 (by rw [List.length_append]; omega)

/-! ### start and end -/

theorem GInv.start {g : G} (hc : Consistent g) (hcl : g.biProp = true ∨ Closed g) :
    GInv g g [] ((allNodes g).filter fun id => (g.node id).inc = 0) [] := by
  refine ⟨SameShape.refl g, fun _ h => h, ?_, ?_, ?_, ?_, List.nodup_nil,
    hc.wf.nodup.filter _, ?_, ?_, ?_⟩
  · intro n hal hnc
    simpa using (hc.inc_eq n hal hnc).1
  · intro n hal hnc
    have := hc.inc_eq n hal hnc
    omega
  · intro i
    simp only [List.not_mem_nil, false_iff]
    rintro ⟨_, h2, h3⟩
    exact h2 h3
  · intro i
    rw [List.mem_filter, hc.wf.mem_all]
    simp
  · intro p d he hp hd
    exfalso
    rw [List.nil_append, List.mem_filter, hc.wf.mem_all] at hp hd
    simp only [decide_eq_true_eq] at hp hd
    have hdnc := zero_not_completed hd.2
    have := (hc.inc_eq d hd.1 hdnc).1
    have := incPreds_pos he (zero_not_completed hp.2)
    omega
  · intro p d he hp hd
    rcases hcl with hb | hcl
    · exact ⟨hb, hd⟩
    · exact absurd hd (hcl p d he hp)
  · intro d hd; cases hd

theorem GInv.all_completed {g0 g : G} {D : List Nat} (ha : Acyclic g0) (h : GInv g0 g D [] []) :
    ∀ n, (g.node n).alive = true → completed (g.node n) = true := by
  obtain ⟨r, hr⟩ := ha
  have key : ∀ k n, r n = k → (g.node n).alive = true → completed (g.node n) = true := by
    intro k
    induction k using Nat.strongRecOn with
    | _ k ih =>
      intro n hn hal
      by_contra hnc
      have hcnt := h.cnt n hal hnc
      simp only [List.count_nil, Nat.add_zero] at hcnt
      have hne : (g.node n).inc ≠ 0 := fun e => by
        have := (h.memT n).2 ⟨hal, e⟩
        cases this
      obtain ⟨p, he, hp⟩ := exists_of_incPreds_pos (g := g) (n := n) (by omega)
      have hpal := (mem_edges.1 he).1
      rw [h.shape.edges] at he
      have := hr p n he
      exact hp (ih (r p) (by omega) p rfl hpal)
  intro n hal
  exact key (r n) n rfl hal

theorem execute_spec (g : G) (hc : Consistent g) (hcl : g.biProp = true ∨ Closed g)
    (ha : Acyclic g) :
    (∀ id, id ∈ (execute g).2 ↔ (id ∈ allNodes g ∧ ¬ completed (g.node id) = true)) ∧
    (execute g).2.Nodup ∧
    (∀ p d, (p, d) ∈ edges g → p ∈ (execute g).2 → d ∈ (execute g).2 →
      (execute g).2.idxOf p < (execute g).2.idxOf d) ∧
    (∀ id ∈ allNodes g, completed ((execute g).1.node id) = true) ∧
    SameShape g (execute g).1 := by
  have h0 := GInv.start hc hcl
  have h := execLoop_inv hc.wf ((allNodes g).length + 1) g _ [] h0 (by simp)
  have hall := h.all_completed ha
  change GInv g (execute g).1 (execute g).2 [] [] at h
  change ∀ n, ((execute g).1.node n).alive = true → completed ((execute g).1.node n) = true at hall
  refine ⟨?_, h.ndD, ?_, ?_, h.shape⟩
  · intro id
    rw [h.memD id, hc.wf.mem_all, h.shape.alive]
    constructor
    · rintro ⟨h1, h2, _⟩; exact ⟨h1, h2⟩
    · rintro ⟨h1, h2⟩
      exact ⟨h1, h2, hall id (by rw [h.shape.alive]; exact h1)⟩
  · intro p d he hp hd
    have := h.ord p d he (by simpa using hp) (by simpa using hd)
    simpa using this
  · intro id hid
    rw [hc.wf.mem_all] at hid
    exact hall id (by rw [h.shape.alive]; exact hid)

end Dispenso.Graph
