import DispensoVerif.Proofs.TimedTask

/-! C26: first-run time -/
namespace Dispenso.TimedTask
set_option linter.unusedSimpArgs false

structure InvF (c : Cfg) (s : St) : Prop where
  t1 : 0 < s.kicks → c.first < s.now + c.buf
  t1' : s.k ≠ .idle → c.first < s.now + c.buf
  t2 : s.kicks = 0 → s.next = c.first

theorem invF_init (c : Cfg) : InvF c (init c) := by
  constructor <;> simp [init]

set_option maxHeartbeats 1000000 in
theorem invF_step {c : Cfg} {s s' : St} {a : Act} (hA : InvA c s) (h : InvF c s)
    (hs : step c s a = some s') : InvF c s' := by
  obtain ⟨h1, h2, h3⟩ := h
  obtain ⟨a1, a2, a3, a4, a5, a6⟩ := hA
  tt_steps s a hs => (constructor <;> tt_close)

end Dispenso.TimedTask
