import DispensoVerif.Proofs.WakeStop
/-
C07, soundness of the sleep masks: under the usage contract "pool thread index `i` is run by one
thread" (`RReach`), a set bit `b` of group `g`'s sleep mask means that the worker of pool thread
`g * G + b` is inside its sleep window (after its own `fetch_or` in enterSleep, before its own
`fetch_and` in exitSleep).  Wakers only clear bits.
-/
namespace Dispenso.Wake
open Dispenso.Conc

theorem toNat_ofNat' (n : Nat) : (Int.ofNat n).toNat = n := rfl

theorem testBit_all64 (j : Nat) : all64.testBit j = decide (j < 64) := by
  unfold all64; exact Nat.testBit_two_pow_sub_one 64 j

theorem bor_testBit (a : Int) (b j : Nat) :
    (bor a (bitOf b)).toNat.testBit j = (a.toNat.testBit j || decide (b = j)) := by
  simp only [bor, bitOf, toNat_ofNat', Nat.testBit_or, Nat.testBit_two_pow]

theorem band_testBit (a : Int) (b j : Nat) (hb : b < 64) :
    (band a (clearOf b)).toNat.testBit j =
      (a.toNat.testBit j && (decide (j < 64) && !decide (b = j))) := by
  simp only [band, clearOf, toNat_ofNat', Nat.testBit_and, Nat.testBit_xor, testBit_all64,
    Nat.testBit_two_pow]
  by_cases h1 : b = j
  · subst h1; simp [hb]
  · simp [h1]

section
variable {N G : Nat}

/-- the worker of pool thread `i` is inside its sleep window -/
def inWin : L → Option Nat
  | .wInc i _ | .wRe i _ | .wXAnd i | .wE1 i _ | .wE2 i _ | .wWait i _ | .wE3 i | .wAnd i _ => some i
  | _ => none

theorem inWin_widx {l : L} {i : Nat} (h : inWin l = some i) : widx l = some i := by
  cases l <;> simp [inWin, widx] at h ⊢ <;> exact h

/-- the window is entered by the worker's own `fetch_or` only -/
theorem inWin_cont {l : L} {r : Int} {i : Nat} (h : inWin (cont N G l r) = some i) :
    inWin l = some i ∨ ∃ e, l = .wOr i e := by
  have hw := widx_cont (inWin_widx h)
  cases l <;> simp [widx] at hw <;> subst hw <;> simp only [cont] at h <;> (try split at h) <;>
    simp_all [inWin]

/-- … and left by the worker's own `fetch_and` only -/
theorem inWin_stay {l : L} {r : Int} {i : Nat} (h : inWin l = some i) :
    inWin (cont N G l r) = some i ∨ (∃ e, l = .wAnd i e) ∨ l = .wXAnd i := by
  cases l <;> simp [inWin] at h <;> subst h <;> simp only [cont] <;> (try split) <;> simp [inWin]

/-- what is written to a sleep mask, and by whom -/
theorem op_write_mask {l : L} {o : AOp} {mem : Fld → Int} {r : Int} {f : Fld} {v : Int} {g : Nat}
    (ho : op N G l = some o) (hm : memEffect mem o = some (r, some (f, v))) (hf : f = fMask g) :
    (∃ i e, l = .wOr i e ∧ i / G = g ∧ v = bor (mem f) (bitOf (i % G))) ∨
    (∃ i, ((∃ e, l = .wAnd i e) ∨ l = .wXAnd i) ∧ i / G = g ∧ v = band (mem f) (clearOf (i % G))) ∨
    (∃ g' gi m, l = .cClaim g' gi m ∧ (g' * G + ctz m) / G = g ∧ r = mem f ∧
      v = band (mem f) (clearOf ((g' * G + ctz m) % G))) := by
  subst hf
  cases l <;> simp [op] at ho <;> subst ho <;> simp [memEffect] at hm
  case wOr i e => obtain ⟨_, h1, rfl⟩ := hm; exact Or.inl ⟨i, e, rfl, fMask_inj.mp h1, by rw [h1]⟩
  case wXAnd i =>
    obtain ⟨_, h1, rfl⟩ := hm
    exact Or.inr (Or.inl ⟨i, Or.inr rfl, fMask_inj.mp h1, by rw [h1]⟩)
  case wAnd i e =>
    obtain ⟨_, h1, rfl⟩ := hm
    exact Or.inr (Or.inl ⟨i, Or.inl ⟨e, rfl⟩, fMask_inj.mp h1, by rw [h1]⟩)
  case cClaim g' gi m =>
    obtain ⟨h0, h1, rfl⟩ := hm
    exact Or.inr (Or.inr ⟨g', gi, m, rfl, fMask_inj.mp h1, by rw [← h0, h1], by rw [h1, Nat.add_comm (g' * G), Nat.add_mul_mod_self_right]⟩)

/-- client contract for worker identities: `wStart i` is called at most once per pool thread index -/
def RoleOK (s : State (proto N G)) : Act (proto N G) → Prop
  | .call _ (.wCur i) => ∀ u, widx (s.loc u) ≠ some i
  | _ => True

/-- states reachable when every pool thread index is run by one thread -/
inductive RReach : State (proto N G) → Prop where
  | init : RReach (Wake.init N G)
  | step {s s' : State (proto N G)} (a : Act (proto N G)) :
      RReach s → RoleOK s a → exec s a = some s' → RReach s'

theorem RReach.reachable {s : State (proto N G)} (h : RReach s) : Reachable (Wake.init N G) s := by
  induction h with
  | init => exact .init
  | step a _ _ he ih => exact .step a ih he

structure MInv (N G : Nat) (s : State (proto N G)) : Prop where
  uniq : ∀ u v i, widx (s.loc u) = some i → widx (s.loc v) = some i → u = v
  nonneg : ∀ g, 0 ≤ s.mem (fMask g)
  snd : ∀ g b, (s.mem (fMask g)).toNat.testBit b = true →
    b < G ∧ ∃ u, inWin (s.loc u) = some (g * G + b)

theorem initMem_mask (g : Nat) : initMem (fMask g) = 0 := by
  have : ¬ ((2 + 3 * g) % 3 = 1 ∧ 4 ≤ 2 + 3 * g) := by omega
  show (if (2 + 3 * g) % 3 = 1 ∧ 4 ≤ 2 + 3 * g then (1 : Int) else 0) = 0
  rw [if_neg this]

theorem MInv.init : MInv N G (init N G) := by
  refine ⟨?_, ?_, ?_⟩
  · intro u v i hu _
    simp [Wake.init, initState, widx] at hu
  · intro g
    show 0 ≤ initMem (fMask g)
    rw [initMem_mask]; exact Int.le_refl _
  · intro g b h
    have : (initMem (fMask g)).toNat.testBit b = true := h
    rw [initMem_mask] at this
    simp at this

theorem entry_widx {old : Bool} {l l' : L} {i : Nat} (h : entry N G old l l' = true)
    (hw : widx l' = some i) : widx l = some i ∨ l' = .wCur i := by
  unfold entry at h
  split at h
  · simp [widx] at hw; subst hw; exact Or.inr rfl
  · cases l' <;> simp [isEntry] at h <;> simp [widx] at hw
  · cases l' <;> simp [isEntry] at h <;> simp [widx] at hw
  · simp at h; obtain ⟨rfl, rfl⟩ := h; simp [widx] at hw ⊢; exact hw
  · simp at h; obtain ⟨rfl, rfl⟩ := h; simp [widx] at hw ⊢; exact hw
  · simp at h; obtain ⟨rfl, rfl⟩ := h; simp [widx] at hw ⊢; exact hw
  · simp at h

theorem entry_inWin {old : Bool} {l l' : L} (h : entry N G old l l' = true) :
    inWin l' = none ∧ inWin l = none := by
  unfold entry at h
  split at h
  · simp [inWin]
  · cases l' <;> simp [isEntry] at h <;> simp [inWin]
  · cases l' <;> simp [isEntry] at h <;> simp [inWin]
  · simp [inWin]
  · simp [inWin]
  · simp [inWin]
  · simp at h

theorem div_mod_idx {G g b : Nat} (hb : b < G) : (g * G + b) / G = g ∧ (g * G + b) % G = b := by
  have hG : 0 < G := by omega
  constructor
  · rw [Nat.mul_comm, Nat.mul_add_div hG, Nat.div_eq_of_lt hb, Nat.add_zero]
  · rw [Nat.mul_comm, Nat.mul_add_mod, Nat.mod_eq_of_lt hb]

/-- one thread executes an operation; the masks change as described -/
theorem MInv.upd {s : State (proto N G)} (M : MInv N G s) (hG : 1 ≤ G) (hG64 : G ≤ 64) {t : TId}
    {r : Int} {mem' : Fld → Int} {pk' : TId → Option (Fld × Bool)}
    (hmask : ∀ g, mem' (fMask g) = s.mem (fMask g) ∨
      (∃ i e, s.loc t = L.wOr i e ∧ i / G = g ∧
        mem' (fMask g) = bor (s.mem (fMask g)) (bitOf (i % G))) ∨
      (∃ i, ((∃ e, s.loc t = L.wAnd i e) ∨ s.loc t = L.wXAnd i) ∧ i / G = g ∧
        mem' (fMask g) = band (s.mem (fMask g)) (clearOf (i % G))) ∨
      (∃ c, c < 64 ∧ inWin (s.loc t) = none ∧ mem' (fMask g) = band (s.mem (fMask g)) (clearOf c)))
    (hown : ∀ i, ((∃ e, s.loc t = L.wAnd i e) ∨ s.loc t = L.wXAnd i) →
      mem' (fMask (i / G)) = band (s.mem (fMask (i / G))) (clearOf (i % G))) :
    MInv N G { mem := mem', loc := fun u => if u = t then cont N G (s.loc t) r else s.loc u,
               parked := pk', threads := s.threads } := by
  refine ⟨?_, ?_, ?_⟩
  · intro u v i hu hv
    have hu' : widx (s.loc u) = some i := by
      by_cases h : u = t
      · subst h; simp only [if_pos] at hu; exact widx_cont hu
      · simp only [if_neg h] at hu; exact hu
    have hv' : widx (s.loc v) = some i := by
      by_cases h : v = t
      · subst h; simp only [if_pos] at hv; exact widx_cont hv
      · simp only [if_neg h] at hv; exact hv
    exact M.uniq u v i hu' hv'
  · intro g
    show 0 ≤ mem' (fMask g)
    rcases hmask g with h | ⟨_, _, _, _, h⟩ | ⟨_, _, _, h⟩ | ⟨_, _, _, h⟩ <;> rw [h]
    · exact M.nonneg g
    · exact Int.natCast_nonneg _
    · exact Int.natCast_nonneg _
    · exact Int.natCast_nonneg _
  · intro g b hb
    have hb' : (mem' (fMask g)).toNat.testBit b = true := hb
    have other : ∀ u, u ≠ t → inWin (s.loc u) = some (g * G + b) →
        ∃ u, inWin (if u = t then cont N G (s.loc t) r else s.loc u) = some (g * G + b) :=
      fun u hut hu => ⟨u, by simp only [if_neg hut]; exact hu⟩
    have self : inWin (cont N G (s.loc t) r) = some (g * G + b) →
        ∃ u, inWin (if u = t then cont N G (s.loc t) r else s.loc u) = some (g * G + b) :=
      fun h => ⟨t, by simp only [if_pos]; exact h⟩
    rcases hmask g with h | ⟨i, e, hl, hg, h⟩ | ⟨i, hl, hg, h⟩ | ⟨c, hc, hl, h⟩
    · -- this mask is unchanged
      rw [h] at hb'
      obtain ⟨hbG, u, hu⟩ := M.snd g b hb'
      refine ⟨hbG, ?_⟩
      by_cases hut : u = t
      · subst hut
        rcases inWin_stay (N := N) (G := G) (r := r) hu with h1 | h1
        · exact self h1
        · exfalso
          have h2 := hown (g * G + b) h1
          rw [(div_mod_idx hbG).1, (div_mod_idx hbG).2] at h2
          rw [h] at h2
          rw [h2, band_testBit _ _ _ (by omega)] at hb'
          simp at hb'
      · exact other u hut hu
    · -- the worker's own fetch_or
      subst hg
      rw [h, bor_testBit] at hb'
      by_cases hbi : i % G = b
      · subst hbi
        refine ⟨Nat.mod_lt _ (by omega), self ?_⟩
        rw [hl]
        simp only [cont, inWin]
        rw [Nat.div_add_mod']
      · have hb2 : (s.mem (fMask (i / G))).toNat.testBit b = true := by simpa [hbi] using hb'
        obtain ⟨hbG, u, hu⟩ := M.snd _ b hb2
        refine ⟨hbG, other u ?_ hu⟩
        intro hut; subst hut; rw [hl] at hu; simp [inWin] at hu
    · -- the worker's own fetch_and
      subst hg
      have hi64 : i % G < 64 := Nat.lt_of_lt_of_le (Nat.mod_lt _ (by omega)) hG64
      rw [h, band_testBit _ _ _ hi64] at hb'
      simp only [Bool.and_eq_true, decide_eq_true_eq, Bool.not_eq_true', decide_eq_false_iff_not] at hb'
      obtain ⟨hb2, _, hne⟩ := hb'
      obtain ⟨hbG, u, hu⟩ := M.snd _ b hb2
      refine ⟨hbG, other u ?_ hu⟩
      intro hut; subst hut
      have : inWin (s.loc u) = some i := by
        rcases hl with ⟨e, hl⟩ | hl <;> rw [hl] <;> rfl
      rw [hu] at this
      have := Option.some.inj this
      apply hne
      rw [← this, (div_mod_idx hbG).2]
    · -- a waker clears a bit
      rw [h, band_testBit _ _ _ hc] at hb'
      simp only [Bool.and_eq_true] at hb'
      obtain ⟨hbG, u, hu⟩ := M.snd _ b hb'.1
      refine ⟨hbG, other u ?_ hu⟩
      intro hut; subst hut; rw [hl] at hu; cases hu

/-- local states change without any memory effect -/
theorem MInv.relocate {s s' : State (proto N G)} (M : MInv N G s) (hmem : s'.mem = s.mem)
    (hw : ∀ u i, widx (s'.loc u) = some i → widx (s.loc u) = some i ∨
      ((∀ v, widx (s.loc v) ≠ some i) ∧ ∀ v, v ≠ u → s'.loc v = s.loc v))
    (hi : ∀ u i, inWin (s.loc u) = some i → inWin (s'.loc u) = some i) :
    MInv N G s' := by
  refine ⟨?_, fun g => by rw [hmem]; exact M.nonneg g, ?_⟩
  · intro u v i hu hv
    rcases hw u i hu with h1 | ⟨h1, h2⟩
    · rcases hw v i hv with h3 | ⟨h3, _⟩
      · exact M.uniq u v i h1 h3
      · exact absurd h1 (h3 u)
    · apply Classical.byContradiction
      intro hne
      have : s'.loc v = s.loc v := h2 v (fun h => hne h.symm)
      rw [this] at hv
      exact h1 v hv
  · intro g b hb
    rw [hmem] at hb
    obtain ⟨hbG, u, hu⟩ := M.snd g b hb
    exact ⟨hbG, u, hi u _ hu⟩

theorem op_fwake_inWin {l : L} {f : Fld} {n : Nat} (h : op N G l = some (.fwake f n)) :
    inWin l = none := by
  cases l <;> simp [op] at h <;> rfl

theorem MInv.exec {s s' : State (proto N G)} (M : MInv N G s) (I : Inv N G s) (hG : 1 ≤ G)
    (hG64 : G ≤ 64) (a : Act (proto N G)) (hrole : RoleOK s a) (he : exec s a = some s') :
    MInv N G s' := by
  cases a with
  | step t =>
    obtain ⟨hpt, o, ho, hc⟩ := exec_step_gen he
    replace ho : op N G (s.loc t) = some o := ho
    rcases hc with ⟨f, e, b, rfl, hm, rfl⟩ | ⟨f, e, b, rfl, hm, rfl⟩ | ⟨r, hm, rfl⟩ | ⟨r, f, v, hm, rfl⟩
    · exact ⟨M.uniq, M.nonneg, M.snd⟩
    · exact M.upd hG hG64 (r := rAgain) (mem' := s.mem) (pk' := s.parked) (fun _ => Or.inl rfl)
        (fun i hl => by rcases hl with ⟨e', hl⟩ | hl <;> rw [hl] at ho <;> simp [op] at ho)
    · exact M.upd hG hG64 (r := r) (mem' := s.mem) (pk' := s.parked) (fun _ => Or.inl rfl)
        (fun i hl => by
          rcases hl with ⟨e', hl⟩ | hl <;> rw [hl] at ho <;> simp [op] at ho <;> subst ho <;>
            simp [memEffect] at hm)
    · refine M.upd hG hG64 (r := r) (mem' := fun g => if g = f then v else s.mem g) (pk' := s.parked)
        (fun g => ?_) (fun i hl => ?_)
      · by_cases hf : fMask g = f
        · simp only [if_pos hf]
          rcases op_write_mask ho hm hf.symm with ⟨i, e, h1, h2, h3⟩ | ⟨i, h1, h2, h3⟩ | ⟨g', gi, m, h1, h2, _, h3⟩
          · exact Or.inr (Or.inl ⟨i, e, h1, h2, by rw [h3, hf]⟩)
          · exact Or.inr (Or.inr (Or.inl ⟨i, h1, h2, by rw [h3, hf]⟩))
          · refine Or.inr (Or.inr (Or.inr ⟨_, ?_, by rw [h1]; rfl, by rw [h3, hf]⟩))
            exact Nat.lt_of_lt_of_le (Nat.mod_lt _ (by omega)) hG64
        · left
          show (if fMask g = f then v else s.mem (fMask g)) = s.mem (fMask g)
          rw [if_neg hf]
      · have hfv : f = fMask (i / G) ∧ v = band (s.mem f) (clearOf (i % G)) := by
          rcases hl with ⟨e', hl⟩ | hl <;> rw [hl] at ho <;> simp [op] at ho <;> subst ho <;>
            simp [memEffect] at hm <;> exact ⟨hm.2.1.symm, by rw [← hm.2.2, hm.2.1]⟩
        obtain ⟨rfl, rfl⟩ := hfv
        simp
  | wake t ws =>
    obtain ⟨hpt, f, n, ho, hnd, hsub, _, _, htw, rfl⟩ := exec_wake_gen he
    replace ho : op N G (s.loc t) = some (.fwake f n) := ho
    have hws : ∀ u ∈ ws, ∃ i e, s.loc u = L.wWait i e := fun u hu => by
      obtain ⟨_, b, hb⟩ := (mem_parkedOn s f u).mp (hsub u hu)
      obtain ⟨_, i, e, hl, _⟩ := I.pk u f b hb
      exact ⟨i, e, hl⟩
    have hloc : ∀ u, (setLoc (Conc.unparkAll s ws) t (cont N G (s.loc t) ws.length)).loc u =
        if u = t then cont N G (s.loc t) ws.length else
          if u ∈ ws then cont N G (s.loc u) rWoken else s.loc u := by
      intro u
      simp only [setLoc_loc]
      by_cases hut : u = t
      · subst hut; rw [if_pos rfl, if_pos rfl]
      · rw [if_neg hut, if_neg hut, unparkAll_loc s ws hnd u]
    refine M.relocate (by simp) (fun u i hw => Or.inl ?_) (fun u i hi => ?_)
    · rw [hloc] at hw
      by_cases hut : u = t
      · subst hut; rw [if_pos rfl] at hw; exact widx_cont hw
      · rw [if_neg hut] at hw
        by_cases huw : u ∈ ws
        · rw [if_pos huw] at hw; exact widx_cont hw
        · rw [if_neg huw] at hw; exact hw
    · rw [hloc]
      by_cases hut : u = t
      · subst hut; rw [op_fwake_inWin ho] at hi; cases hi
      · rw [if_neg hut]
        by_cases huw : u ∈ ws
        · rw [if_pos huw]
          obtain ⟨j, e, hl⟩ := hws u huw
          rw [hl] at hi ⊢
          exact hi
        · rw [if_neg huw]; exact hi
  | timeout t =>
    obtain ⟨f, b, r, hp, rfl⟩ := exec_unpark_gen (Or.inl he)
    obtain ⟨_, i, e, hl, _⟩ := I.pk t f b hp
    refine M.relocate (by simp) (fun u j hw => Or.inl ?_) (fun u j hi => ?_)
    · simp only [setLoc_loc, setParked_loc] at hw
      by_cases hut : u = t
      · subst hut; rw [if_pos rfl] at hw; exact widx_cont hw
      · rw [if_neg hut] at hw; exact hw
    · simp only [setLoc_loc, setParked_loc]
      by_cases hut : u = t
      · subst hut; rw [if_pos rfl]; rw [hl] at hi ⊢; exact hi
      · rw [if_neg hut]; exact hi
  | spurious t =>
    obtain ⟨f, b, r, hp, rfl⟩ := exec_unpark_gen (Or.inr he)
    obtain ⟨_, i, e, hl, _⟩ := I.pk t f b hp
    refine M.relocate (by simp) (fun u j hw => Or.inl ?_) (fun u j hi => ?_)
    · simp only [setLoc_loc, setParked_loc] at hw
      by_cases hut : u = t
      · subst hut; rw [if_pos rfl] at hw; exact widx_cont hw
      · rw [if_neg hut] at hw; exact hw
    · simp only [setLoc_loc, setParked_loc]
      by_cases hut : u = t
      · subst hut; rw [if_pos rfl]; rw [hl] at hi ⊢; exact hi
      · rw [if_neg hut]; exact hi
  | call t l =>
    have hs' := exec_call_eq he
    obtain ⟨_, _, hent, _⟩ := exec_call_gen he
    replace hent : entry N G false (s.loc t) l = true := hent
    subst hs'
    refine M.relocate (by simp) (fun u j hw => ?_) (fun u j hi => ?_)
    · simp only [setLoc_loc] at hw
      by_cases hut : u = t
      · subst hut
        rw [if_pos rfl] at hw
        rcases entry_widx hent hw with h1 | h1
        · exact Or.inl h1
        · subst h1
          exact Or.inr ⟨hrole, fun v hv => by simp only [setLoc_loc, if_neg hv]⟩
      · rw [if_neg hut] at hw; exact Or.inl hw
    · simp only [setLoc_loc]
      by_cases hut : u = t
      · subst hut; rw [(entry_inWin hent).2] at hi; cases hi
      · rw [if_neg hut]; exact hi

theorem minv_rreach {s : State (proto N G)} (hG : 1 ≤ G) (hG64 : G ≤ 64) (h : RReach s) :
    MInv N G s := by
  induction h with
  | init => exact MInv.init
  | step a hr hrole he ih => exact ih.exec (inv_reachable hr.reachable) hG hG64 a hrole he

/-! ### concrete schedules that respect the worker-identity contract -/

/-- decidable form of `RoleOK` (threads outside `s.threads` are idle in every reachable state) -/
def roleOKb (s : State (proto N G)) : Act (proto N G) → Bool
  | .call _ (.wCur i) => s.threads.all fun u => decide (widx (s.loc u) ≠ some i)
  | _ => true

def runR (s : State (proto N G)) : List (Act (proto N G)) → Option (State (proto N G))
  | [] => some s
  | a :: as => if roleOKb s a then
      match Conc.exec s a with
      | some s' => runR s' as
      | none => none
    else none

theorem roleOK_of_b {s : State (proto N G)} (I : Inv N G s) {a : Act (proto N G)}
    (h : roleOKb s a = true) : RoleOK s a := by
  cases a with
  | call t l =>
    cases l <;> try trivial
    rename_i i
    intro u hu
    simp only [roleOKb, List.all_eq_true, decide_eq_true_eq] at h
    by_cases hm : u ∈ s.threads
    · exact h u hm hu
    · rw [I.thr u hm] at hu; simp [widx] at hu
  | step t => trivial
  | wake t ws => trivial
  | timeout t => trivial
  | spurious t => trivial

theorem rreach_of_runR {s s' : State (proto N G)} (as : List (Act (proto N G))) (hs : RReach s)
    (h : runR s as = some s') : RReach s' := by
  induction as generalizing s with
  | nil => simp only [runR, Option.some.injEq] at h; subst h; exact hs
  | cons a as ih =>
    simp only [runR] at h
    split at h
    · rename_i hb
      split at h
      · rename_i s1 he
        exact ih (.step a hs (roleOK_of_b (inv_reachable hs.reachable) hb) he) h
      · cases h
    · cases h

theorem exists_of_runR_obs {α : Type} (obs : State (proto N G) → α)
    {as : List (Act (proto N G))} {v : α} (h : (runR (Wake.init N G) as).map obs = some v) :
    ∃ s, RReach s ∧ obs s = v := by
  cases hr : runR (Wake.init N G) as with
  | none => rw [hr] at h; cases h
  | some s =>
    rw [hr] at h
    exact ⟨s, rreach_of_runR as .init hr, Option.some.inj h⟩

end
end Dispenso.Wake
