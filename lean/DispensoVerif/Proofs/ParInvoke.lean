import DispensoVerif.Model.ParInvoke
import Mathlib.Tactic.SplitIfs
import Mathlib.Data.List.Induction
/-!
Inductive invariant of the `parallel_invoke` model (`Model/ParInvoke.lean`) — C16.
-/
namespace Dispenso.ParInvoke

theorem snoc_inj {p q : Path} {i j : Nat} (h : p ++ [i] = q ++ [j]) : p = q ∧ i = j := by
  have := List.append_inj' h rfl
  exact ⟨this.1, by simpa using this.2⟩

theorem snoc_ne_self (p : Path) (i : Nat) : p ++ [i] ≠ p := by
  intro h
  have := congrArg List.length h
  simp at this

theorem snoc_ne_nil (p : Path) (i : Nat) : p ++ [i] ≠ [] := by simp

theorem upd_same {α : Type} (f : Path → α) (p : Path) (v : α) : upd f p v p = v := by
  unfold upd; rw [if_pos rfl]

theorem upd_other {α : Type} (f : Path → α) {p q : Path} (v : α) (h : q ≠ p) : upd f p v q = f q := by
  unfold upd; rw [if_neg h]

structure Inv (P : Path → Nat) (s : St) : Prop where
  root : s.status [] = .running ∨ s.status [] = .finished
  rootT : s.asTask [] = false
  kle : ∀ p, s.k p ≤ P p
  kzero : ∀ p, (s.status p = .untouched ∨ s.status p = .queued) → s.k p = 0 ∧ s.inl p = none
  child : ∀ p i, i < s.k p ↔ s.status (p ++ [i]) ≠ .untouched
  fin : ∀ p, s.status p = .finished → s.k p = P p ∧ s.inl p = none
  cnt : ∀ p i, s.count (p ++ [i]) =
    if s.status (p ++ [i]) = .running ∨ s.status (p ++ [i]) = .finished then 1 else 0
  liv : ∀ c, c ∈ s.live ↔ (s.status c = .queued ∨ (s.status c = .running ∧ s.asTask c = true))
  tsk : ∀ c, s.asTask c = true → s.status c = .running ∨ s.status c = .finished
  qidx : ∀ p i, s.status (p ++ [i]) = .queued → i + 1 < P p
  inlp : ∀ p c, s.inl p = some c → s.status p = .running ∧ c = p ++ [s.k p - 1] ∧ 1 ≤ s.k p ∧
    s.status c = .running ∧ s.asTask c = false ∧ s.thr c = s.thr p
  inlc : ∀ p i, s.status (p ++ [i]) = .running → s.asTask (p ++ [i]) = false → s.inl p = some (p ++ [i])
  lastc : ∀ p, s.k p = P p → 1 ≤ P p →
    s.asTask (p ++ [P p - 1]) = false ∧ s.thr (p ++ [P p - 1]) = s.thr p
  wt : s.waited = true → ∀ q, s.status q ≠ .running ∧ s.status q ≠ .queued

theorem inv_init (P : Path → Nat) : Inv P St.init := by
  refine ⟨?_, rfl, ?_, ?_, ?_, ?_, ?_, ?_, ?_, ?_, ?_, ?_, ?_, ?_⟩
  · left; rfl
  · intro p; exact Nat.zero_le _
  · intro p _; exact ⟨rfl, rfl⟩
  · intro p i
    show i < 0 ↔ (if p ++ [i] = [] then Status.running else Status.untouched) ≠ .untouched
    rw [if_neg (snoc_ne_nil p i)]
    constructor
    · intro h; omega
    · intro h; exact absurd rfl h
  · intro p h
    have : (if p = [] then Status.running else Status.untouched) = .finished := h
    split_ifs at this
  · intro p i
    show 0 = if (if p ++ [i] = [] then Status.running else Status.untouched) = .running ∨
      (if p ++ [i] = [] then Status.running else Status.untouched) = .finished then 1 else 0
    rw [if_neg (snoc_ne_nil p i)]
    rw [if_neg (by rintro (h | h) <;> cases h)]
  · intro c
    show c ∈ ([] : List Path) ↔ _
    constructor
    · intro h; cases h
    · rintro (h | ⟨_, h⟩)
      · have : (if c = [] then Status.running else Status.untouched) = .queued := h
        split_ifs at this
      · cases h
  · intro c h; cases h
  · intro p i h
    have : (if p ++ [i] = [] then Status.running else Status.untouched) = .queued := h
    split_ifs at this
  · intro p c h; cases h
  · intro p i h
    have : (if p ++ [i] = [] then Status.running else Status.untouched) = .running := h
    rw [if_neg (snoc_ne_nil p i)] at this; cases this
  · intro p _ _; exact ⟨rfl, rfl⟩
  · intro h; cases h

/-- facts about the functor a node is about to deal with -/
theorem next_untouched {P : Path → Nat} {s : St} (h : Inv P s) (p : Path) :
    s.status (p ++ [s.k p]) = .untouched ∧ s.k (p ++ [s.k p]) = 0 ∧ s.inl (p ++ [s.k p]) = none ∧
    s.asTask (p ++ [s.k p]) = false ∧ s.count (p ++ [s.k p]) = 0 := by
  have hu : s.status (p ++ [s.k p]) = .untouched := by
    by_cases hu : s.status (p ++ [s.k p]) = .untouched
    · exact hu
    · have := (h.child p (s.k p)).mpr hu
      omega
  have hz := h.kzero _ (Or.inl hu)
  refine ⟨hu, hz.1, hz.2, ?_, ?_⟩
  · cases ht : s.asTask (p ++ [s.k p]) with
    | false => rfl
    | true => rcases h.tsk _ ht with h1 | h1 <;> rw [hu] at h1 <;> cases h1
  · rw [h.cnt p (s.k p), hu]
    rw [if_neg (by rintro (h1 | h1) <;> cases h1)]

theorem inv_queue {P : Path → Nat} {s s' : St} (h : Inv P s) (p : Path)
    (e : step P s (.queue p) = some s') : Inv P s' := by
  simp only [step] at e
  split_ifs at e with hg
  cases e
  obtain ⟨hrun, hinl, hk⟩ := hg
  obtain ⟨hu, hkc, hic, htc, hcc⟩ := next_untouched h p
  have hcp : p ++ [s.k p] ≠ p := snoc_ne_self p _
  have hpc : p ≠ p ++ [s.k p] := fun x => hcp x.symm
  refine ⟨?_, h.rootT, ?_, ?_, ?_, ?_, ?_, ?_, ?_, ?_, ?_, ?_, ?_, ?_⟩
  · show upd s.status (p ++ [s.k p]) .queued [] = .running ∨ upd s.status (p ++ [s.k p]) .queued [] = .finished
    rw [upd_other _ _ (fun x => snoc_ne_nil p _ x.symm)]; exact h.root
  · intro q
    show upd s.k p (s.k p + 1) q ≤ P q
    by_cases hq : q = p
    · rw [hq, upd_same]; omega
    · rw [upd_other _ _ hq]; exact h.kle q
  · intro q hq
    show upd s.k p (s.k p + 1) q = 0 ∧ s.inl q = none
    have hq : upd s.status (p ++ [s.k p]) .queued q = .untouched ∨ upd s.status (p ++ [s.k p]) .queued q = .queued := hq
    by_cases hqc : q = p ++ [s.k p]
    · rw [hqc, upd_other _ _ hcp]; exact ⟨hkc, hic⟩
    · rw [upd_other _ _ hqc] at hq
      have hqp : q ≠ p := by
        intro x; rw [x, hrun] at hq; rcases hq with h1 | h1 <;> cases h1
      rw [upd_other _ _ hqp]; exact h.kzero q hq
  · intro q i
    show i < upd s.k p (s.k p + 1) q ↔ upd s.status (p ++ [s.k p]) .queued (q ++ [i]) ≠ .untouched
    by_cases hqc : q ++ [i] = p ++ [s.k p]
    · obtain ⟨hq, hi⟩ := snoc_inj hqc
      rw [hqc, upd_same, hq, upd_same, hi]
      constructor
      · intro _ x; cases x
      · intro _; omega
    · rw [upd_other _ _ hqc]
      by_cases hq : q = p
      · rw [hq, upd_same]
        have hi : i ≠ s.k p := by intro x; apply hqc; rw [hq, x]
        rw [← h.child p i]
        constructor <;> intro <;> omega
      · rw [upd_other _ _ hq]; exact h.child q i
  · intro q hq
    have hq : upd s.status (p ++ [s.k p]) .queued q = .finished := hq
    show upd s.k p (s.k p + 1) q = P q ∧ s.inl q = none
    have hqc : q ≠ p ++ [s.k p] := by intro x; rw [x, upd_same] at hq; cases hq
    rw [upd_other _ _ hqc] at hq
    have hqp : q ≠ p := by intro x; rw [x, hrun] at hq; cases hq
    rw [upd_other _ _ hqp]; exact h.fin q hq
  · intro q i
    show s.count (q ++ [i]) = if upd s.status (p ++ [s.k p]) .queued (q ++ [i]) = .running ∨
      upd s.status (p ++ [s.k p]) .queued (q ++ [i]) = .finished then 1 else 0
    by_cases hqc : q ++ [i] = p ++ [s.k p]
    · rw [hqc, upd_same, hcc, if_neg (by rintro (h1 | h1) <;> cases h1)]
    · rw [upd_other _ _ hqc]; exact h.cnt q i
  · intro d
    show d ∈ (p ++ [s.k p]) :: s.live ↔ (upd s.status (p ++ [s.k p]) .queued d = .queued ∨
      (upd s.status (p ++ [s.k p]) .queued d = .running ∧ s.asTask d = true))
    by_cases hd : d = p ++ [s.k p]
    · rw [hd, upd_same]
      constructor
      · intro _; left; rfl
      · intro _; exact List.mem_cons_self
    · rw [upd_other _ _ hd, List.mem_cons]
      constructor
      · rintro (h1 | h1)
        · exact absurd h1 hd
        · exact (h.liv d).mp h1
      · intro h1; right; exact (h.liv d).mpr h1
  · intro d hd
    show upd s.status (p ++ [s.k p]) .queued d = .running ∨ upd s.status (p ++ [s.k p]) .queued d = .finished
    have hdc : d ≠ p ++ [s.k p] := by intro x; rw [x, htc] at hd; cases hd
    rw [upd_other _ _ hdc]; exact h.tsk d hd
  · intro q i hq
    have hq : upd s.status (p ++ [s.k p]) .queued (q ++ [i]) = .queued := hq
    by_cases hqc : q ++ [i] = p ++ [s.k p]
    · obtain ⟨hq', hi⟩ := snoc_inj hqc
      rw [hq', hi]; exact hk
    · rw [upd_other _ _ hqc] at hq; exact h.qidx q i hq
  · intro q d hq
    have hq : s.inl q = some d := hq
    obtain ⟨o1, o2, o3, o4, o5, o6⟩ := h.inlp q d hq
    have hqp : q ≠ p := by intro x; rw [x, hinl] at hq; cases hq
    have hqc : q ≠ p ++ [s.k p] := by intro x; rw [x, hic] at hq; cases hq
    have hdc : d ≠ p ++ [s.k p] := by intro x; rw [x, hu] at o4; cases o4
    show upd s.status (p ++ [s.k p]) .queued q = .running ∧ d = q ++ [upd s.k p (s.k p + 1) q - 1] ∧
      1 ≤ upd s.k p (s.k p + 1) q ∧ upd s.status (p ++ [s.k p]) .queued d = .running ∧ s.asTask d = false ∧
      s.thr d = s.thr q
    rw [upd_other _ _ hqc, upd_other _ _ hqp, upd_other _ _ hdc]
    exact ⟨o1, o2, o3, o4, o5, o6⟩
  · intro q i hq ht
    have hq : upd s.status (p ++ [s.k p]) .queued (q ++ [i]) = .running := hq
    have hqc : q ++ [i] ≠ p ++ [s.k p] := by intro x; rw [x, upd_same] at hq; cases hq
    rw [upd_other _ _ hqc] at hq
    exact h.inlc q i hq ht
  · intro q hq hP
    have hq : upd s.k p (s.k p + 1) q = P q := hq
    have hqp : q ≠ p := by intro x; rw [x, upd_same] at hq; omega
    rw [upd_other _ _ hqp] at hq
    exact h.lastc q hq hP
  · intro hw
    exact absurd hrun (h.wt hw p).1

theorem inv_runInline {P : Path → Nat} {s s' : St} (h : Inv P s) (p : Path)
    (e : step P s (.runInline p) = some s') : Inv P s' := by
  simp only [step] at e
  split_ifs at e with hg
  cases e
  obtain ⟨hrun, hinl, hk⟩ := hg
  obtain ⟨hu, hkc, hic, htc, hcc⟩ := next_untouched h p
  have hcp : p ++ [s.k p] ≠ p := snoc_ne_self p _
  have hpc : p ≠ p ++ [s.k p] := fun x => hcp x.symm
  refine ⟨?_, h.rootT, ?_, ?_, ?_, ?_, ?_, ?_, ?_, ?_, ?_, ?_, ?_, ?_⟩
  · show upd s.status (p ++ [s.k p]) .running [] = .running ∨ upd s.status (p ++ [s.k p]) .running [] = .finished
    rw [upd_other _ _ (fun x => snoc_ne_nil p _ x.symm)]; exact h.root
  · intro q
    show upd s.k p (s.k p + 1) q ≤ P q
    by_cases hq : q = p
    · rw [hq, upd_same]; omega
    · rw [upd_other _ _ hq]; exact h.kle q
  · intro q hq
    have hq : upd s.status (p ++ [s.k p]) .running q = .untouched ∨ upd s.status (p ++ [s.k p]) .running q = .queued := hq
    show upd s.k p (s.k p + 1) q = 0 ∧ upd s.inl p (some (p ++ [s.k p])) q = none
    have hqc : q ≠ p ++ [s.k p] := by
      intro x; rw [x, upd_same] at hq; rcases hq with h1 | h1 <;> cases h1
    rw [upd_other _ _ hqc] at hq
    have hqp : q ≠ p := by
      intro x; rw [x, hrun] at hq; rcases hq with h1 | h1 <;> cases h1
    rw [upd_other _ _ hqp, upd_other _ _ hqp]; exact h.kzero q hq
  · intro q i
    show i < upd s.k p (s.k p + 1) q ↔ upd s.status (p ++ [s.k p]) .running (q ++ [i]) ≠ .untouched
    by_cases hqc : q ++ [i] = p ++ [s.k p]
    · obtain ⟨hq, hi⟩ := snoc_inj hqc
      rw [hqc, upd_same, hq, upd_same, hi]
      constructor
      · intro _ x; cases x
      · intro _; omega
    · rw [upd_other _ _ hqc]
      by_cases hq : q = p
      · rw [hq, upd_same]
        have hi : i ≠ s.k p := by intro x; apply hqc; rw [hq, x]
        rw [← h.child p i]
        constructor <;> intro <;> omega
      · rw [upd_other _ _ hq]; exact h.child q i
  · intro q hq
    have hq : upd s.status (p ++ [s.k p]) .running q = .finished := hq
    show upd s.k p (s.k p + 1) q = P q ∧ upd s.inl p (some (p ++ [s.k p])) q = none
    have hqc : q ≠ p ++ [s.k p] := by intro x; rw [x, upd_same] at hq; cases hq
    rw [upd_other _ _ hqc] at hq
    have hqp : q ≠ p := by intro x; rw [x, hrun] at hq; cases hq
    rw [upd_other _ _ hqp, upd_other _ _ hqp]; exact h.fin q hq
  · intro q i
    show upd s.count (p ++ [s.k p]) (s.count (p ++ [s.k p]) + 1) (q ++ [i]) =
      if upd s.status (p ++ [s.k p]) .running (q ++ [i]) = .running ∨
        upd s.status (p ++ [s.k p]) .running (q ++ [i]) = .finished then 1 else 0
    by_cases hqc : q ++ [i] = p ++ [s.k p]
    · rw [hqc, upd_same, upd_same, hcc, if_pos (Or.inl rfl)]
    · rw [upd_other _ _ hqc, upd_other _ _ hqc]; exact h.cnt q i
  · intro d
    show d ∈ s.live ↔ (upd s.status (p ++ [s.k p]) .running d = .queued ∨
      (upd s.status (p ++ [s.k p]) .running d = .running ∧ s.asTask d = true))
    by_cases hd : d = p ++ [s.k p]
    · rw [hd, upd_same, (h.liv _), hu, htc]
      constructor
      · rintro (h1 | ⟨h1, _⟩) <;> cases h1
      · rintro (h1 | ⟨_, h1⟩) <;> cases h1
    · rw [upd_other _ _ hd]; exact h.liv d
  · intro d hd
    show upd s.status (p ++ [s.k p]) .running d = .running ∨ upd s.status (p ++ [s.k p]) .running d = .finished
    by_cases hdc : d = p ++ [s.k p]
    · rw [hdc, upd_same]; left; rfl
    · rw [upd_other _ _ hdc]; exact h.tsk d hd
  · intro q i hq
    have hq : upd s.status (p ++ [s.k p]) .running (q ++ [i]) = .queued := hq
    have hqc : q ++ [i] ≠ p ++ [s.k p] := by intro x; rw [x, upd_same] at hq; cases hq
    rw [upd_other _ _ hqc] at hq; exact h.qidx q i hq
  · intro q d hq
    have hq : upd s.inl p (some (p ++ [s.k p])) q = some d := hq
    show upd s.status (p ++ [s.k p]) .running q = .running ∧ d = q ++ [upd s.k p (s.k p + 1) q - 1] ∧
      1 ≤ upd s.k p (s.k p + 1) q ∧ upd s.status (p ++ [s.k p]) .running d = .running ∧ s.asTask d = false ∧
      upd s.thr (p ++ [s.k p]) (s.thr p) d = upd s.thr (p ++ [s.k p]) (s.thr p) q
    by_cases hqp : q = p
    · rw [hqp, upd_same] at hq
      cases hq
      rw [hqp, upd_other _ _ hpc, upd_same, upd_same, upd_same, upd_other _ _ hpc]
      exact ⟨hrun, by rw [Nat.add_sub_cancel], by omega, rfl, htc, rfl⟩
    · rw [upd_other _ _ hqp] at hq
      obtain ⟨o1, o2, o3, o4, o5, o6⟩ := h.inlp q d hq
      have hqc : q ≠ p ++ [s.k p] := by intro x; rw [x, hic] at hq; cases hq
      have hdc : d ≠ p ++ [s.k p] := by intro x; rw [x, hu] at o4; cases o4
      rw [upd_other _ _ hqc, upd_other _ _ hqp, upd_other _ _ hdc, upd_other _ _ hdc, upd_other _ _ hqc]
      exact ⟨o1, o2, o3, o4, o5, o6⟩
  · intro q i hq ht
    have hq : upd s.status (p ++ [s.k p]) .running (q ++ [i]) = .running := hq
    have ht : s.asTask (q ++ [i]) = false := ht
    show upd s.inl p (some (p ++ [s.k p])) q = some (q ++ [i])
    by_cases hqc : q ++ [i] = p ++ [s.k p]
    · obtain ⟨hq', hi'⟩ := snoc_inj hqc
      rw [hq', hi', upd_same]
    · rw [upd_other _ _ hqc] at hq
      have := h.inlc q i hq ht
      have hqp : q ≠ p := by intro x; rw [x, hinl] at this; cases this
      rw [upd_other _ _ hqp]; exact this
  · intro q hq hP
    have hq : upd s.k p (s.k p + 1) q = P q := hq
    show s.asTask (q ++ [P q - 1]) = false ∧
      upd s.thr (p ++ [s.k p]) (s.thr p) (q ++ [P q - 1]) = upd s.thr (p ++ [s.k p]) (s.thr p) q
    by_cases hqp : q = p
    · rw [hqp, upd_same] at hq
      have e1 : P p - 1 = s.k p := by omega
      rw [hqp, e1, upd_same, upd_other _ _ hpc]
      exact ⟨htc, rfl⟩
    · rw [upd_other _ _ hqp] at hq
      obtain ⟨l1, l2⟩ := h.lastc q hq hP
      have hlc : q ++ [P q - 1] ≠ p ++ [s.k p] := by
        intro x; exact hqp (snoc_inj x).1
      have hqc : q ≠ p ++ [s.k p] := by
        intro x; subst x; rw [hkc] at hq; omega
      rw [upd_other _ _ hlc, upd_other _ _ hqc]
      exact ⟨l1, l2⟩
  · intro hw
    exact absurd hrun (h.wt hw p).1

theorem inv_finishInline {P : Path → Nat} {s s' : St} (h : Inv P s) (p : Path)
    (e : step P s (.finishInline p) = some s') : Inv P s' := by
  simp only [step] at e
  split at e
  · rename_i c hin
    split_ifs at e with hg
    cases e
    obtain ⟨hrc, hic, hkc⟩ := hg
    obtain ⟨hrun, hc, hk1, _, htc, hthr⟩ := h.inlp p c hin
    have hcp : c ≠ p := by rw [hc]; exact snoc_ne_self p _
    have hcn : c ≠ [] := by rw [hc]; exact snoc_ne_nil p _
    have st_ne : ∀ q, upd s.status c .finished q ≠ .untouched ↔ s.status q ≠ .untouched := by
      intro q
      by_cases hq : q = c
      · rw [hq, upd_same, hrc]
        constructor <;> intro _ x <;> cases x
      · rw [upd_other _ _ hq]
    refine ⟨?_, h.rootT, h.kle, ?_, ?_, ?_, ?_, ?_, ?_, ?_, ?_, ?_, h.lastc, ?_⟩
    · show upd s.status c .finished [] = .running ∨ upd s.status c .finished [] = .finished
      rw [upd_other _ _ (fun x => hcn x.symm)]; exact h.root
    · intro q hq
      have hq : upd s.status c .finished q = .untouched ∨ upd s.status c .finished q = .queued := hq
      show s.k q = 0 ∧ upd s.inl p none q = none
      have hqc : q ≠ c := by intro x; rw [x, upd_same] at hq; rcases hq with h1 | h1 <;> cases h1
      rw [upd_other _ _ hqc] at hq
      obtain ⟨z1, z2⟩ := h.kzero q hq
      refine ⟨z1, ?_⟩
      by_cases hqp : q = p
      · rw [hqp, upd_same]
      · rw [upd_other _ _ hqp]; exact z2
    · intro q i
      show i < s.k q ↔ upd s.status c .finished (q ++ [i]) ≠ .untouched
      rw [st_ne]; exact h.child q i
    · intro q hq
      have hq : upd s.status c .finished q = .finished := hq
      show s.k q = P q ∧ upd s.inl p none q = none
      by_cases hqc : q = c
      · rw [hqc, upd_other _ _ hcp]; exact ⟨hkc, hic⟩
      · rw [upd_other _ _ hqc] at hq
        obtain ⟨f1, f2⟩ := h.fin q hq
        refine ⟨f1, ?_⟩
        by_cases hqp : q = p
        · rw [hqp, upd_same]
        · rw [upd_other _ _ hqp]; exact f2
    · intro q i
      show s.count (q ++ [i]) = if upd s.status c .finished (q ++ [i]) = .running ∨
        upd s.status c .finished (q ++ [i]) = .finished then 1 else 0
      by_cases hqc : q ++ [i] = c
      · rw [hqc, upd_same, if_pos (Or.inr rfl)]
        have := h.cnt q i
        rw [hqc, hrc, if_pos (Or.inl rfl)] at this
        exact this
      · rw [upd_other _ _ hqc]; exact h.cnt q i
    · intro d
      show d ∈ s.live ↔ (upd s.status c .finished d = .queued ∨
        (upd s.status c .finished d = .running ∧ s.asTask d = true))
      by_cases hd : d = c
      · rw [hd, upd_same, h.liv c, hrc, htc]
        constructor
        · rintro (h1 | ⟨_, h1⟩) <;> cases h1
        · rintro (h1 | ⟨h1, _⟩) <;> cases h1
      · rw [upd_other _ _ hd]; exact h.liv d
    · intro d hd
      show upd s.status c .finished d = .running ∨ upd s.status c .finished d = .finished
      by_cases hdc : d = c
      · rw [hdc, upd_same]; right; rfl
      · rw [upd_other _ _ hdc]; exact h.tsk d hd
    · intro q i hq
      have hq : upd s.status c .finished (q ++ [i]) = .queued := hq
      have hqc : q ++ [i] ≠ c := by intro x; rw [x, upd_same] at hq; cases hq
      rw [upd_other _ _ hqc] at hq; exact h.qidx q i hq
    · intro q d hq
      have hq : upd s.inl p none q = some d := hq
      have hqp : q ≠ p := by intro x; rw [x, upd_same] at hq; cases hq
      rw [upd_other _ _ hqp] at hq
      obtain ⟨o1, o2, o3, o4, o5, o6⟩ := h.inlp q d hq
      have hqc : q ≠ c := by intro x; rw [x, hic] at hq; cases hq
      have hdc : d ≠ c := by
        intro x
        apply hqp
        have e1 : q ++ [s.k q - 1] = p ++ [s.k p - 1] := by rw [← o2, ← hc, x]
        exact (snoc_inj e1).1
      show upd s.status c .finished q = .running ∧ d = q ++ [s.k q - 1] ∧ 1 ≤ s.k q ∧
        upd s.status c .finished d = .running ∧ s.asTask d = false ∧ s.thr d = s.thr q
      rw [upd_other _ _ hqc, upd_other _ _ hdc]
      exact ⟨o1, o2, o3, o4, o5, o6⟩
    · intro q i hq ht
      have hq : upd s.status c .finished (q ++ [i]) = .running := hq
      have hqc : q ++ [i] ≠ c := by intro x; rw [x, upd_same] at hq; cases hq
      rw [upd_other _ _ hqc] at hq
      have := h.inlc q i hq ht
      show upd s.inl p none q = some (q ++ [i])
      have hqp : q ≠ p := by
        intro x; subst x; rw [hin] at this
        exact hqc (Option.some.inj this).symm
      rw [upd_other _ _ hqp]; exact this
    · intro hw
      exact absurd hrc (h.wt hw c).1
  · cases e

theorem inv_finishTask {P : Path → Nat} {s s' : St} (h : Inv P s) (c : Path)
    (e : step P s (.finishTask c) = some s') : Inv P s' := by
  simp only [step] at e
  split_ifs at e with hg
  cases e
  obtain ⟨hrc, htc, hic, hkc⟩ := hg
  have st_ne : ∀ q, upd s.status c .finished q ≠ .untouched ↔ s.status q ≠ .untouched := by
    intro q
    by_cases hq : q = c
    · rw [hq, upd_same, hrc]
      constructor <;> intro _ x <;> cases x
    · rw [upd_other _ _ hq]
  refine ⟨?_, h.rootT, h.kle, ?_, ?_, ?_, ?_, ?_, ?_, ?_, ?_, ?_, h.lastc, ?_⟩
  · show upd s.status c .finished [] = .running ∨ upd s.status c .finished [] = .finished
    by_cases hc : [] = c
    · rw [← hc, upd_same]; right; rfl
    · rw [upd_other _ _ hc]; exact h.root
  · intro q hq
    have hq : upd s.status c .finished q = .untouched ∨ upd s.status c .finished q = .queued := hq
    have hqc : q ≠ c := by intro x; rw [x, upd_same] at hq; rcases hq with h1 | h1 <;> cases h1
    rw [upd_other _ _ hqc] at hq
    exact h.kzero q hq
  · intro q i
    show i < s.k q ↔ upd s.status c .finished (q ++ [i]) ≠ .untouched
    rw [st_ne]; exact h.child q i
  · intro q hq
    have hq : upd s.status c .finished q = .finished := hq
    by_cases hqc : q = c
    · rw [hqc]; exact ⟨hkc, hic⟩
    · rw [upd_other _ _ hqc] at hq; exact h.fin q hq
  · intro q i
    show s.count (q ++ [i]) = if upd s.status c .finished (q ++ [i]) = .running ∨
      upd s.status c .finished (q ++ [i]) = .finished then 1 else 0
    by_cases hqc : q ++ [i] = c
    · rw [hqc, upd_same, if_pos (Or.inr rfl)]
      have := h.cnt q i
      rw [hqc, hrc, if_pos (Or.inl rfl)] at this
      exact this
    · rw [upd_other _ _ hqc]; exact h.cnt q i
  · intro d
    show d ∈ s.live.filter (· ≠ c) ↔ (upd s.status c .finished d = .queued ∨
      (upd s.status c .finished d = .running ∧ s.asTask d = true))
    rw [List.mem_filter]
    by_cases hd : d = c
    · rw [hd, upd_same]
      constructor
      · rintro ⟨_, h1⟩; simp at h1
      · rintro (h1 | ⟨h1, _⟩) <;> cases h1
    · rw [upd_other _ _ hd, h.liv d]
      constructor
      · rintro ⟨h1, _⟩; exact h1
      · intro h1; exact ⟨h1, by simpa using hd⟩
  · intro d hd
    show upd s.status c .finished d = .running ∨ upd s.status c .finished d = .finished
    by_cases hdc : d = c
    · rw [hdc, upd_same]; right; rfl
    · rw [upd_other _ _ hdc]; exact h.tsk d hd
  · intro q i hq
    have hq : upd s.status c .finished (q ++ [i]) = .queued := hq
    have hqc : q ++ [i] ≠ c := by intro x; rw [x, upd_same] at hq; cases hq
    rw [upd_other _ _ hqc] at hq; exact h.qidx q i hq
  · intro q d hq
    have hq : s.inl q = some d := hq
    obtain ⟨o1, o2, o3, o4, o5, o6⟩ := h.inlp q d hq
    have hqc : q ≠ c := by intro x; rw [x, hic] at hq; cases hq
    have hdc : d ≠ c := by
      intro x
      rcases htc with h1 | h1
      · rw [x, h1] at o5; cases o5
      · rw [x, h1] at o2; exact snoc_ne_nil _ _ o2.symm
    show upd s.status c .finished q = .running ∧ d = q ++ [s.k q - 1] ∧ 1 ≤ s.k q ∧
      upd s.status c .finished d = .running ∧ s.asTask d = false ∧ s.thr d = s.thr q
    rw [upd_other _ _ hqc, upd_other _ _ hdc]
    exact ⟨o1, o2, o3, o4, o5, o6⟩
  · intro q i hq ht
    have hq : upd s.status c .finished (q ++ [i]) = .running := hq
    have hqc : q ++ [i] ≠ c := by intro x; rw [x, upd_same] at hq; cases hq
    rw [upd_other _ _ hqc] at hq
    exact h.inlc q i hq ht
  · intro hw
    exact absurd hrc (h.wt hw c).1

theorem inv_take {P : Path → Nat} {s s' : St} (h : Inv P s) (c : Path) (t : Nat)
    (e : step P s (.take c t) = some s') : Inv P s' := by
  simp only [step] at e
  split_ifs at e with hq
  cases e
  have hcn : c ≠ [] := by
    intro x; rw [x] at hq; rcases h.root with h1 | h1 <;> rw [hq] at h1 <;> cases h1
  obtain ⟨hkc, hic⟩ := h.kzero c (Or.inr hq)
  have st_ne : ∀ q, upd s.status c .running q ≠ .untouched ↔ s.status q ≠ .untouched := by
    intro q
    by_cases hqc : q = c
    · rw [hqc, upd_same, hq]
      constructor <;> intro _ x <;> cases x
    · rw [upd_other _ _ hqc]
  refine ⟨?_, ?_, h.kle, ?_, ?_, ?_, ?_, ?_, ?_, ?_, ?_, ?_, ?_, ?_⟩
  · show upd s.status c .running [] = .running ∨ upd s.status c .running [] = .finished
    rw [upd_other _ _ (fun x => hcn x.symm)]; exact h.root
  · show upd s.asTask c true [] = false
    rw [upd_other _ _ (fun x => hcn x.symm)]; exact h.rootT
  · intro q hqq
    have hqq : upd s.status c .running q = .untouched ∨ upd s.status c .running q = .queued := hqq
    have hqc : q ≠ c := by intro x; rw [x, upd_same] at hqq; rcases hqq with h1 | h1 <;> cases h1
    rw [upd_other _ _ hqc] at hqq
    exact h.kzero q hqq
  · intro q i
    show i < s.k q ↔ upd s.status c .running (q ++ [i]) ≠ .untouched
    rw [st_ne]; exact h.child q i
  · intro q hqq
    have hqq : upd s.status c .running q = .finished := hqq
    have hqc : q ≠ c := by intro x; rw [x, upd_same] at hqq; cases hqq
    rw [upd_other _ _ hqc] at hqq; exact h.fin q hqq
  · intro q i
    show upd s.count c (s.count c + 1) (q ++ [i]) = if upd s.status c .running (q ++ [i]) = .running ∨
      upd s.status c .running (q ++ [i]) = .finished then 1 else 0
    by_cases hqc : q ++ [i] = c
    · rw [hqc, upd_same, upd_same, if_pos (Or.inl rfl)]
      have := h.cnt q i
      rw [hqc, hq, if_neg (by rintro (h1 | h1) <;> cases h1)] at this
      rw [this]
    · rw [upd_other _ _ hqc, upd_other _ _ hqc]; exact h.cnt q i
  · intro d
    show d ∈ s.live ↔ (upd s.status c .running d = .queued ∨
      (upd s.status c .running d = .running ∧ upd s.asTask c true d = true))
    by_cases hd : d = c
    · rw [hd, upd_same, upd_same, h.liv c, hq]
      constructor
      · intro _; right; exact ⟨rfl, rfl⟩
      · intro _; left; rfl
    · rw [upd_other _ _ hd, upd_other _ _ hd]; exact h.liv d
  · intro d hd
    have hd : upd s.asTask c true d = true := hd
    show upd s.status c .running d = .running ∨ upd s.status c .running d = .finished
    by_cases hdc : d = c
    · rw [hdc, upd_same]; left; rfl
    · rw [upd_other _ _ hdc] at hd ⊢; exact h.tsk d hd
  · intro q i hqq
    have hqq : upd s.status c .running (q ++ [i]) = .queued := hqq
    have hqc : q ++ [i] ≠ c := by intro x; rw [x, upd_same] at hqq; cases hqq
    rw [upd_other _ _ hqc] at hqq; exact h.qidx q i hqq
  · intro q d hin
    have hin : s.inl q = some d := hin
    obtain ⟨o1, o2, o3, o4, o5, o6⟩ := h.inlp q d hin
    have hqc : q ≠ c := by intro x; rw [x, hic] at hin; cases hin
    have hdc : d ≠ c := by intro x; rw [x, hq] at o4; cases o4
    show upd s.status c .running q = .running ∧ d = q ++ [s.k q - 1] ∧ 1 ≤ s.k q ∧
      upd s.status c .running d = .running ∧ upd s.asTask c true d = false ∧
      upd s.thr c t d = upd s.thr c t q
    rw [upd_other _ _ hqc, upd_other _ _ hdc, upd_other _ _ hdc, upd_other _ _ hdc, upd_other _ _ hqc]
    exact ⟨o1, o2, o3, o4, o5, o6⟩
  · intro q i hqq ht
    have hqq : upd s.status c .running (q ++ [i]) = .running := hqq
    have ht : upd s.asTask c true (q ++ [i]) = false := ht
    have hqc : q ++ [i] ≠ c := by intro x; rw [x, upd_same] at ht; cases ht
    rw [upd_other _ _ hqc] at hqq ht
    exact h.inlc q i hqq ht
  · intro q hkq hP
    have hkq : s.k q = P q := hkq
    obtain ⟨l1, l2⟩ := h.lastc q hkq hP
    have hlc : q ++ [P q - 1] ≠ c := by
      intro x
      have := h.qidx q (P q - 1) (by rw [x]; exact hq)
      omega
    have hqc : q ≠ c := by intro x; subst x; rw [hkc] at hkq; omega
    show upd s.asTask c true (q ++ [P q - 1]) = false ∧ upd s.thr c t (q ++ [P q - 1]) = upd s.thr c t q
    rw [upd_other _ _ hlc, upd_other _ _ hlc, upd_other _ _ hqc]
    exact ⟨l1, l2⟩
  · intro hw
    exact absurd hq (h.wt hw c).2

theorem inv_waitDone {P : Path → Nat} {s s' : St} (h : Inv P s)
    (e : step P s .waitDone = some s') : Inv P s' := by
  simp only [step] at e
  split_ifs at e with hg
  cases e
  obtain ⟨hroot, hlive, _⟩ := hg
  refine ⟨h.root, h.rootT, h.kle, h.kzero, h.child, h.fin, h.cnt, h.liv, h.tsk, h.qidx, h.inlp, h.inlc,
    h.lastc, ?_⟩
  intro _ q
  induction q using List.reverseRec with
  | nil => rw [hroot]; exact ⟨(by intro x; cases x), (by intro x; cases x)⟩
  | append_singleton r i ih =>
    have hnl : r ++ [i] ∉ s.live := by rw [hlive]; exact List.not_mem_nil
    have hl := (h.liv (r ++ [i])).not.mp hnl
    constructor
    · intro hr
      cases ht : s.asTask (r ++ [i]) with
      | true => exact hl (Or.inr ⟨hr, ht⟩)
      | false =>
        have := h.inlc r i hr ht
        exact ih.1 (h.inlp r _ this).1
    · intro hq; exact hl (Or.inl hq)

theorem inv_step {P : Path → Nat} {s s' : St} (h : Inv P s) (a : Act) (e : step P s a = some s') :
    Inv P s' := by
  cases a with
  | queue p => exact inv_queue h p e
  | runInline p => exact inv_runInline h p e
  | finishInline p => exact inv_finishInline h p e
  | finishTask c => exact inv_finishTask h c e
  | take c t => exact inv_take h c t e
  | waitDone => exact inv_waitDone h e

theorem inv_reachable {P : Path → Nat} {s : St} (r : Reachable P s) : Inv P s := by
  induction r with
  | init => exact inv_init P
  | step a _ e ih => exact inv_step ih a e

end Dispenso.ParInvoke
