import DispensoVerif.Core.HB
import DispensoVerif.Proofs.Mpmc
/-
C10 for `MpmcRingBuffer`: the slot elements (`dataF`) are plain data; the per-slot sequence
numbers (`seqF`) are the synchronisation, `head_`/`tail_` only arbitrate (relaxed).  Invariant on
(protocol state, detector state): the owner of a position (between its winning CAS and its
publishing store) has every earlier access of the slot's element in its happens-before past; while
a slot has no owner, the release sequence on its sequence number carries every earlier access of
its element; a thread whose pending CAS would still succeed already has them (it read the sequence
number with acquire).
-/
namespace Dispenso.Mpmc
open Dispenso.Conc Dispenso.HB

/-- slot elements are plain data; `o` is the table of declared orders -/
def hbSpec (K : Nat) (o : L → Nat) : Spec (proto K) := { plain := isData, ord := o }

/-- the orders race freedom of the elements needs (= the non-relaxed part of `binding.reqOrder`) -/
def need : L → Nat
  | .eLoadSeq _ _ => 2 | .ePub _ => 3 | .oLoadSeq _ => 2 | .oPub _ _ => 3
  | .bSeq _ _ _ => 2 | .bPub _ _ _ _ => 3
  | _ => 0

def owns (l : L) (p : Int) : Prop := ownsPush l p ∨ ownsPop l p

/-- positions a thread's pending CAS would claim if the counter still has the value it read -/
def claims (mem : Fld → Int) : L → Int → Prop
  | .eCas _ t, p => mem 1 = t ∧ p = t
  | .oCas h, p => mem 0 = h ∧ p = h
  | .bCas _ t n, p => mem 1 = t ∧ t ≤ p ∧ p < t + n
  | .bSeq _ t i, p => mem 1 = t ∧ t ≤ p ∧ p < t + i
  | _, _ => False

structure MJ (K : Nat) (mem : Fld → Int) (loc : TId → L) (d : D) : Prop where
  own : ∀ t p, owns (loc t) p → d.cA t (dataF K p) = true
  msg : ∀ p, (∀ t q, owns (loc t) q → wrapIdx K q ≠ wrapIdx K p) →
    d.mA (seqF K p) (dataF K p) = true
  clm : ∀ t p, claims mem (loc t) p → d.cA t (dataF K p) = true

variable {K : Nat} {mem mem' : Fld → Int} {loc loc' : TId → L} {d d' : D}

theorem mj_init : MJ K (init K).mem (init K).loc D.init :=
  ⟨fun _ _ _ => rfl, fun _ _ => rfl, fun _ _ _ => rfl⟩

/-- the slot of a position a pending CAS could claim has no owner -/
theorem claim_free (hK : 2 ≤ K) (hI : Inv K mem loc) {u : TId} {p : Int}
    (hc : claims mem (loc u) p) : ∀ t q, owns (loc t) q → wrapIdx K q ≠ wrapIdx K p := by
  have c := hI.1
  have li := hI.2 u
  cases hl : loc u <;> rw [hl] at hc li <;> simp only [claims] at hc
  case eCas v t0 =>
    obtain ⟨h1, rfl⟩ := hc
    obtain ⟨_, _, h3⟩ := li
    exact (c.ready_ahead hK (by omega) (by omega) (h3 h1)).2
  case oCas h0 =>
    obtain ⟨h1, rfl⟩ := hc
    obtain ⟨_, h3⟩ := li
    have := (c.full_head hK (by rw [h1]; exact h3 h1)).2.2
    rw [h1] at this; exact this
  case bCas vs t0 n =>
    obtain ⟨h1, h2, h3⟩ := hc
    obtain ⟨a, _, b', _, dd⟩ := li
    have := a.2.2
    exact (c.ready_ahead hK (by omega) (by omega) (dd h1 p h2 h3)).2
  case bSeq vs t0 i =>
    obtain ⟨h1, h2, h3⟩ := hc
    obtain ⟨a, b, _, dd⟩ := li
    have := a.2.2
    exact (c.ready_ahead hK (by omega) (by omega) (dd h1 p h2 h3)).2

theorem claims_congr {m m' : Fld → Int} {l : L} {q : Int} (h0 : m' 0 = m 0) (h1 : m' 1 = m 1)
    (hc : claims m' l q) : claims m l q := by
  cases l <;> simp only [claims] at hc ⊢ <;>
    first | exact hc | (rw [← h0]; exact hc) | (rw [← h1]; exact hc)

/-- after `tail` advanced, the stale tail-CASes claim nothing -/
theorem claims_tail_adv {m m' : Fld → Int} {l : L} {q : Int} (hl : locInv K m l)
    (h0 : m' 0 = m 0) (h1 : m 1 < m' 1) (hc : claims m' l q) : claims m l q := by
  cases l <;> simp only [claims, locInv] at hc hl ⊢
  case eCas v t0 => omega
  case oCas h => rw [← h0]; exact hc
  case bCas vs t0 n => omega
  case bSeq vs t0 i => omega

/-- after `head` advanced, the stale head-CASes claim nothing -/
theorem claims_head_adv {m m' : Fld → Int} {l : L} {q : Int} (hl : locInv K m l)
    (h1 : m' 1 = m 1) (h0 : m 0 < m' 0) (hc : claims m' l q) : claims m l q := by
  cases l <;> simp only [claims, locInv] at hc hl ⊢
  case eCas v t0 => rw [← h1]; exact hc
  case oCas h => omega
  case bCas vs t0 n => rw [← h1]; exact hc
  case bSeq vs t0 i => rw [← h1]; exact hc

/-- steps that neither write an element nor publish a slot -/
theorem MJ.frame (h : MJ K mem loc d)
    (hc : ∀ u y, d.cA u y = true → d'.cA u y = true)
    (hm : ∀ p, d.mA (seqF K p) (dataF K p) = true → d'.mA (seqF K p) (dataF K p) = true)
    (ho1 : ∀ u p, owns (loc' u) p → owns (loc u) p ∨ claims mem (loc u) p)
    (ho2 : ∀ u p, owns (loc u) p → owns (loc' u) p)
    (hcl : ∀ u p, claims mem' (loc' u) p →
      claims mem (loc u) p ∨ d'.cA u (dataF K p) = true) : MJ K mem' loc' d' := by
  refine ⟨?_, ?_, ?_⟩
  · intro u p ho
    rcases ho1 u p ho with ho | ho
    · exact hc _ _ (h.own u p ho)
    · exact hc _ _ (h.clm u p ho)
  · intro p hfree
    exact hm p (h.msg p fun t q hq => hfree t q (ho2 t q hq))
  · intro u p hcl'
    rcases hcl u p hcl' with hcl' | hcl'
    · exact hc _ _ (h.clm u p hcl')
    · exact hcl'

/-- thread `t` moves between local states that own nothing; memory unchanged -/
theorem MJ.plain (h : MJ K mem loc d) (t : TId) (l' : L)
    (hc : ∀ u y, d.cA u y = true → d'.cA u y = true)
    (hm : ∀ p, d.mA (seqF K p) (dataF K p) = true → d'.mA (seqF K p) (dataF K p) = true)
    (h0 : ∀ p, ¬ owns (loc t) p) (h1 : ∀ p, ¬ owns l' p)
    (hcl : ∀ p, claims mem l' p → claims mem (loc t) p ∨ d'.cA t (dataF K p) = true) :
    MJ K mem (updL loc t l') d' := by
  refine h.frame hc hm ?_ ?_ ?_
  · intro u p ho
    by_cases e : u = t
    · subst e; rw [updL_same] at ho; exact absurd ho (h1 p)
    · rw [updL_ne e] at ho; exact Or.inl ho
  · intro u p ho
    by_cases e : u = t
    · subst e; exact absurd ho (h0 p)
    · rw [updL_ne e]; exact ho
  · intro u p hc'
    by_cases e : u = t
    · subst e; rw [updL_same] at hc'; exact hcl p hc'
    · rw [updL_ne e] at hc'; exact Or.inl hc'

/-- a successful CAS on `tail`: the thread becomes the owner of what its CAS claimed -/
theorem MJ.casTail (hI : Inv K mem loc) (h : MJ K mem loc d) (t : TId) (l' : L) (v : Int)
    (ord : Nat) (hv : mem 1 < v)
    (h0 : ∀ q, ¬ owns (loc t) q) (hown : ∀ q, owns l' q → claims mem (loc t) q)
    (hncl : ∀ m q, ¬ claims m l' q) :
    MJ K (updM mem 1 v) (updL loc t l') (d.afterRmw t 1 ord) := by
  refine h.frame (fun _ _ h => afterRmw_cA_mono h) (fun q h => afterRmw_mA_mono h) ?_ ?_ ?_
  · intro u q hq
    by_cases e : u = t
    · subst e; rw [updL_same] at hq; exact Or.inr (hown q hq)
    · rw [updL_ne e] at hq; exact Or.inl hq
  · intro u q hq
    by_cases e : u = t
    · subst e; exact absurd hq (h0 q)
    · rw [updL_ne e]; exact hq
  · intro u q hq
    by_cases e : u = t
    · subst e; rw [updL_same] at hq; exact absurd hq (hncl _ q)
    · rw [updL_ne e] at hq
      exact Or.inl (claims_tail_adv (hI.2 u) (by simp [updM]) (by simpa [updM] using hv) hq)

/-- a successful CAS on `head` -/
theorem MJ.casHead (hI : Inv K mem loc) (h : MJ K mem loc d) (t : TId) (l' : L) (v : Int)
    (ord : Nat) (hv : mem 0 < v)
    (h0 : ∀ q, ¬ owns (loc t) q) (hown : ∀ q, owns l' q → claims mem (loc t) q)
    (hncl : ∀ m q, ¬ claims m l' q) :
    MJ K (updM mem 0 v) (updL loc t l') (d.afterRmw t 0 ord) := by
  refine h.frame (fun _ _ h => afterRmw_cA_mono h) (fun q h => afterRmw_mA_mono h) ?_ ?_ ?_
  · intro u q hq
    by_cases e : u = t
    · subst e; rw [updL_same] at hq; exact Or.inr (hown q hq)
    · rw [updL_ne e] at hq; exact Or.inl hq
  · intro u q hq
    by_cases e : u = t
    · subst e; exact absurd hq (h0 q)
    · rw [updL_ne e]; exact hq
  · intro u q hq
    by_cases e : u = t
    · subst e; rw [updL_same] at hq; exact absurd hq (hncl _ q)
    · rw [updL_ne e] at hq
      exact Or.inl (claims_head_adv (hI.2 u) (by simp [updM]) (by simpa [updM] using hv) hq)

/-- the owner of `p0` writes (or moves out) the element of its slot -/
theorem MJ.write (hK : 2 ≤ K) (hI : Inv K mem loc) (h : MJ K mem loc d) (t : TId) (p0 v : Int)
    (l' : L) (hown : owns (loc t) p0) (hsame : ∀ q, owns l' q ↔ owns (loc t) q)
    (hncl : ∀ m q, ¬ claims m l' q) :
    d.cA t (dataF K p0) = true ∧
      MJ K (updM mem (dataF K p0) v) (updL loc t l') (d.afterWrite t (dataF K p0)) := by
  have c := hI.1
  have hloc : ∀ u p, owns (updL loc t l' u) p ↔ owns (loc u) p := by
    intro u p
    by_cases e : u = t
    · subst e; rw [updL_same]; exact hsame p
    · rw [updL_ne e]
  have hcl : ∀ u p, claims (updM mem (dataF K p0) v) (updL loc t l' u) p → claims mem (loc u) p := by
    intro u p hq
    by_cases e : u = t
    · subst e; rw [updL_same] at hq; exact absurd hq (hncl _ p)
    · rw [updL_ne e] at hq
      exact claims_congr (by simp [updM]) (by simp [updM]) hq
  refine ⟨h.own t p0 hown, ?_, ?_, ?_⟩
  · intro u p ho
    have ho := (hloc u p).1 ho
    simp only [afterWrite_cA]
    split
    · rename_i e
      have := c.own_slot_unique (by omega) ho hown ((dataF_eq_iff K p p0).1 e)
      simp [this.2]
    · exact h.own u p ho
  · intro p hfree
    have hne : wrapIdx K p0 ≠ wrapIdx K p := hfree t p0 ((hloc t p0).2 hown)
    simp only [afterWrite_mA]
    rw [if_neg (fun e => hne ((dataF_eq_iff K p p0).1 e).symm)]
    exact h.msg p fun t q hq => hfree t q ((hloc t q).2 hq)
  · intro u p hc
    have hc := hcl u p hc
    have hne := claim_free hK hI hc t p0 hown
    simp only [afterWrite_cA]
    rw [if_neg (fun e => hne ((dataF_eq_iff K p p0).1 e).symm)]
    exact h.clm u p hc

/-- the owner of `p0` publishes the slot with a release store of its sequence number -/
theorem MJ.publish (h : MJ K mem loc d) (t : TId) (p0 v : Int) (l' : L) (ord : Nat)
    (hrel : isRel ord = true) (hown : owns (loc t) p0)
    (hless : ∀ q, owns l' q ↔ owns (loc t) q ∧ q ≠ p0) (hncl : ∀ m q, ¬ claims m l' q) :
    MJ K (updM mem (seqF K p0) v) (updL loc t l') (d.afterStore t (seqF K p0) ord) := by
  have hloc : ∀ u p, owns (updL loc t l' u) p ↔ owns (loc u) p ∧ ¬ (u = t ∧ p = p0) := by
    intro u p
    by_cases e : u = t
    · subst e; rw [updL_same, hless p]; simp
    · rw [updL_ne e]; simp [e]
  have hcl : ∀ u p, claims (updM mem (seqF K p0) v) (updL loc t l' u) p → claims mem (loc u) p := by
    intro u p hq
    by_cases e : u = t
    · subst e; rw [updL_same] at hq; exact absurd hq (hncl _ p)
    · rw [updL_ne e] at hq
      exact claims_congr (by simp [updM]) (by simp [updM]) hq
  refine ⟨?_, ?_, ?_⟩
  · intro u p ho
    exact h.own u p ((hloc u p).1 ho).1
  · intro p hfree
    simp only [afterStore_mA]
    by_cases e : wrapIdx K p = wrapIdx K p0
    · rw [if_pos ((seqF_eq_iff K p p0).2 e), hrel, Bool.true_and, (dataF_eq_iff K p p0).2 e]
      exact h.own t p0 hown
    · rw [if_neg (fun e' => e ((seqF_eq_iff K p p0).1 e'))]
      refine h.msg p fun u q hq => ?_
      by_cases e2 : u = t ∧ q = p0
      · rw [e2.2]; exact fun e' => e e'.symm
      · exact hfree u q ((hloc u q).2 ⟨hq, e2⟩)
  · intro u p hc
    exact h.clm u p (hcl u p hc)

end Dispenso.Mpmc

namespace Dispenso.Mpmc
open Dispenso.Conc Dispenso.HB

variable {K : Nat} {s s' : State (proto K)} {d : D}

theorem isData_zero : isData 0 = false := by decide
theorem isData_one : isData 1 = false := by decide

theorem no_owns {l : L} (h1 : ∀ p, ¬ ownsPush l p) (h2 : ∀ p, ¬ ownsPop l p) : ∀ p, ¬ owns l p :=
  fun p h => h.elim (h1 p) (h2 p)

/-- every action preserves the invariant, and the detector accepts its event -/
theorem mj_step (hK : 2 ≤ K) (o : L → Nat) (ho : ∀ l, ordGE (need l) (o l) = true)
    (hs : SInv K s) (h : MJ K s.mem s.loc d) (a : Act (proto K)) (he : exec s a = some s') :
    ∃ d', d.run (hevl (hbSpec K o) s a) = some d' ∧ MJ K s'.mem s'.loc d' := by
  have hI := hs.2
  have c := hs.2.1
  cases a with
  | call t l =>
    simp only [exec] at he
    split at he
    · rename_i hc
      obtain ⟨_, h2, h3⟩ := hc
      cases he
      have h3' : isEntry K l = true := by
        simp [proto] at h3; exact h3.2
      have hidle : ∀ p, ¬ owns (s.loc t) p := by
        intro p
        cases hl : s.loc t <;> simp [proto, op, hl] at h2 <;> simp [owns, ownsPush, ownsPop]
      refine ⟨d, by simp [hevl, hevOf], ?_⟩
      refine h.plain t l (fun _ _ h => h) (fun _ h => h) hidle ?_ ?_
      · intro p; cases l <;> simp [isEntry] at h3' <;> simp [owns, ownsPush, ownsPop]
      · intro p; cases l <;> simp [isEntry] at h3' <;> simp [claims]
    · contradiction
  | wake t ws =>
    exfalso
    have hp := hs.1 t
    cases hl : s.loc t <;> simp [exec, hp, proto, op, hl] at he
  | timeout t => simp [exec, hs.1 t] at he
  | spurious t => simp [exec, hs.1 t] at he
  | step t =>
    have hp := hs.1 t
    have li := hs.2.2 t
    cases hl : s.loc t <;> simp [exec, hp, proto, op, cont, memEffect, hl] at he
    case eLoadT v =>
      cases he
      refine ⟨d.afterLoad t 1 (o (.eLoadT v)),
        by simp [hevl, hevOf, proto, hl, op, evOfOp, hbSpec, isData_one, step_load], ?_⟩
      exact h.plain t _ (fun _ _ h => afterLoad_cA_mono h) (fun _ h => h)
        (by rw [hl]; simp [owns, ownsPush, ownsPop]) (by simp [owns, ownsPush, ownsPop])
        (by simp [claims])
    case eLoadSeq v p =>
      cases he
      rw [hl] at li
      have hacq : isAcq (o (.eLoadSeq v p)) = true := isAcq_of_ordGE (ho _) rfl
      refine ⟨d.afterLoad t (seqF K p) (o (.eLoadSeq v p)),
        by simp [hevl, hevOf, proto, hl, op, evOfOp, hbSpec, step_load], ?_⟩
      refine h.plain t _ (fun _ _ h => afterLoad_cA_mono h) (fun _ h => h)
        (by rw [hl]; simp [owns, ownsPush, ownsPop]) ?_ ?_
      · intro q; split <;> simp [owns, ownsPush, ownsPop]
      · intro q hq
        split at hq
        · rename_i hcond
          simp only [claims] at hq
          obtain ⟨h1, rfl⟩ := hq
          right
          have hfree := (c.ready_ahead hK (p := q) (by omega) (by omega) (by omega)).2
          simp [hacq, h.msg q hfree]
        · simp [claims] at hq
    case eCas v p =>
      rw [hl] at li
      by_cases hc : s.mem 1 = p
      · simp [hc] at he; cases he
        refine ⟨d.afterRmw t 1 (o (.eCas v p)),
          by simp [hevl, hevOf, proto, hl, op, evOfOp, hbSpec, isData_one, hc, step_rmw], ?_⟩
        exact h.casTail hI t (.eWrite v p) (p + 1) _ (by omega)
          (by rw [hl]; simp [owns, ownsPush, ownsPop])
          (by intro q hq; rw [hl]; simp only [owns, ownsPush, ownsPop, or_false] at hq
              exact ⟨hc, hq⟩)
          (by simp [claims])
      · simp [hc] at he; cases he
        refine ⟨d.afterLoad t 1 0,
          by simp [hevl, hevOf, proto, hl, op, evOfOp, hbSpec, isData_one, hc, step_load], ?_⟩
        exact h.plain t _ (fun _ _ h => afterLoad_cA_mono h) (fun _ h => h)
          (by rw [hl]; simp [owns, ownsPush, ownsPop]) (by simp [owns, ownsPush, ownsPop])
          (by simp [claims])
    case eWrite v p =>
      cases he
      obtain ⟨c1, c2⟩ := h.write hK hI t p v (.ePub p) (by rw [hl]; simp [owns, ownsPush])
        (by intro q; rw [hl]; simp [owns, ownsPush, ownsPop]) (by simp [claims])
      exact ⟨_, by simp [hevl, hevOf, proto, hl, op, evOfOp, hbSpec, step_pwrite, c1], c2⟩
    case ePub p =>
      cases he
      have hrel : isRel (o (.ePub p)) = true := isRel_of_ordGE (ho _) rfl
      refine ⟨d.afterStore t (seqF K p) (o (.ePub p)),
        by simp [hevl, hevOf, proto, hl, op, evOfOp, hbSpec, step_store], ?_⟩
      exact h.publish t p _ (.done [1]) _ hrel (by rw [hl]; simp [owns, ownsPush])
        (by intro q; rw [hl]; simp [owns, ownsPush, ownsPop]) (by simp [claims])
    case oLoadH =>
      cases he
      refine ⟨d.afterLoad t 0 (o .oLoadH),
        by simp [hevl, hevOf, proto, hl, op, evOfOp, hbSpec, isData_zero, step_load], ?_⟩
      exact h.plain t _ (fun _ _ h => afterLoad_cA_mono h) (fun _ h => h)
        (by rw [hl]; simp [owns, ownsPush, ownsPop]) (by simp [owns, ownsPush, ownsPop])
        (by simp [claims])
    case oLoadT x =>
      cases he
      refine ⟨d.afterLoad t 1 (o (.oLoadT x)),
        by simp [hevl, hevOf, proto, hl, op, evOfOp, hbSpec, isData_one, step_load], ?_⟩
      refine h.plain t _ (fun _ _ h => afterLoad_cA_mono h) (fun _ h => h)
        (by rw [hl]; simp [owns, ownsPush, ownsPop]) ?_ ?_
      · intro q; split <;> simp [owns, ownsPush, ownsPop]
      · intro q hq; split at hq <;> simp [claims] at hq
    case oLoadSeq x =>
      cases he
      rw [hl] at li
      have hacq : isAcq (o (.oLoadSeq x)) = true := isAcq_of_ordGE (ho _) rfl
      refine ⟨d.afterLoad t (seqF K x) (o (.oLoadSeq x)),
        by simp [hevl, hevOf, proto, hl, op, evOfOp, hbSpec, step_load], ?_⟩
      refine h.plain t _ (fun _ _ h => afterLoad_cA_mono h) (fun _ h => h)
        (by rw [hl]; simp [owns, ownsPush, ownsPop]) ?_ ?_
      · intro q; split <;> simp [owns, ownsPush, ownsPop]
      · intro q hq
        split at hq
        · rename_i hcond
          simp only [claims] at hq
          obtain ⟨h1, rfl⟩ := hq
          right
          have hfree := (c.full_head hK (by rw [h1]; omega)).2.2
          rw [h1] at hfree
          simp [hacq, h.msg q hfree]
        · simp [claims] at hq
    case oCas x =>
      rw [hl] at li
      by_cases hc : s.mem 0 = x
      · simp [hc] at he; cases he
        refine ⟨d.afterRmw t 0 (o (.oCas x)),
          by simp [hevl, hevOf, proto, hl, op, evOfOp, hbSpec, isData_zero, hc, step_rmw], ?_⟩
        exact h.casHead hI t (.oTake x) (x + 1) _ (by omega)
          (by rw [hl]; simp [owns, ownsPush, ownsPop])
          (by intro q hq; rw [hl]; simp only [owns, ownsPush, ownsPop, false_or] at hq
              exact ⟨hc, hq⟩)
          (by simp [claims])
      · simp [hc] at he; cases he
        refine ⟨d.afterLoad t 0 0,
          by simp [hevl, hevOf, proto, hl, op, evOfOp, hbSpec, isData_zero, hc, step_load], ?_⟩
        exact h.plain t _ (fun _ _ h => afterLoad_cA_mono h) (fun _ h => h)
          (by rw [hl]; simp [owns, ownsPush, ownsPop]) (by simp [owns, ownsPush, ownsPop])
          (by simp [claims])
    case oTake x =>
      cases he
      obtain ⟨c1, c2⟩ := h.write hK hI t x movedFrom (.oPub x (s.mem (dataF K x)))
        (by rw [hl]; simp [owns, ownsPop])
        (by intro q; rw [hl]; simp [owns, ownsPush, ownsPop]) (by simp [claims])
      exact ⟨_, by simp [hevl, hevOf, proto, hl, op, evOfOp, hbSpec, step_pwrite, c1], c2⟩
    case oPub x v =>
      cases he
      have hrel : isRel (o (.oPub x v)) = true := isRel_of_ordGE (ho _) rfl
      refine ⟨d.afterStore t (seqF K x) (o (.oPub x v)),
        by simp [hevl, hevOf, proto, hl, op, evOfOp, hbSpec, step_store], ?_⟩
      exact h.publish t x _ (.done [1, v]) _ hrel (by rw [hl]; simp [owns, ownsPop])
        (by intro q; rw [hl]; simp [owns, ownsPush, ownsPop]) (by simp [claims])
    case bLoadT vs =>
      cases he
      refine ⟨d.afterLoad t 1 (o (.bLoadT vs)),
        by simp [hevl, hevOf, proto, hl, op, evOfOp, hbSpec, isData_one, step_load], ?_⟩
      refine h.plain t _ (fun _ _ h => afterLoad_cA_mono h) (fun _ h => h)
        (by rw [hl]; simp [owns, ownsPush, ownsPop]) (by simp [owns, ownsPush, ownsPop]) ?_
      intro q hq; simp only [claims] at hq; omega
    case bSeq vs p i =>
      cases he
      rw [hl] at li
      obtain ⟨la, lb, lc, ld⟩ := li
      have hlen := la.2.2
      have hacq : isAcq (o (.bSeq vs p i)) = true := isAcq_of_ordGE (ho _) rfl
      refine ⟨d.afterLoad t (seqF K (p + i)) (o (.bSeq vs p i)),
        by simp [hevl, hevOf, proto, hl, op, evOfOp, hbSpec, step_load], ?_⟩
      have key : s.mem (seqF K (p + i)) - (p + i) = 0 → ∀ q, s.mem 1 = p → p ≤ q →
          q < p + ((i + 1 : Nat) : Int) →
          claims s.mem (s.loc t) q ∨
            (d.afterLoad t (seqF K (p + i)) (o (.bSeq vs p i))).cA t (dataF K q) = true := by
        intro hcond q h1 h2 h3
        by_cases hq : q < p + i
        · left; rw [hl]; exact ⟨h1, h2, hq⟩
        · right
          have e : q = p + i := by omega
          subst e
          have hfree := (c.ready_ahead hK (p := p + i) (by omega) (by omega) (by omega)).2
          simp [hacq, h.msg _ hfree]
      refine h.plain t _ (fun _ _ h => afterLoad_cA_mono h) (fun _ h => h)
        (by rw [hl]; simp [owns, ownsPush, ownsPop]) ?_ ?_
      · intro q; split <;> (try split) <;> simp [owns, ownsPush, ownsPop]
      · intro q hq
        split at hq
        · rename_i hcond
          split at hq
          · simp only [claims] at hq
            exact key hcond q hq.1 hq.2.1 (by omega)
          · simp only [claims] at hq
            exact key hcond q hq.1 hq.2.1 (by omega)
        · split at hq
          · simp [claims] at hq
          · simp only [claims] at hq
            left; rw [hl]; exact hq
    case bCas vs p n =>
      rw [hl] at li
      obtain ⟨la, lb, lc, ld, le⟩ := li
      by_cases hc : s.mem 1 = p
      · simp [hc] at he; cases he
        refine ⟨d.afterRmw t 1 (o (.bCas vs p n)),
          by simp [hevl, hevOf, proto, hl, op, evOfOp, hbSpec, isData_one, hc, step_rmw], ?_⟩
        exact h.casTail hI t (.bWrite vs p 0 n) (p + n) _ (by omega)
          (by rw [hl]; simp [owns, ownsPush, ownsPop])
          (by intro q hq; rw [hl]; simp only [owns, ownsPush, ownsPop, or_false] at hq
              exact ⟨hc, by omega, hq.2⟩)
          (by simp [claims])
      · simp [hc] at he; cases he
        refine ⟨d.afterLoad t 1 0,
          by simp [hevl, hevOf, proto, hl, op, evOfOp, hbSpec, isData_one, hc, step_load], ?_⟩
        exact h.plain t _ (fun _ _ h => afterLoad_cA_mono h) (fun _ h => h)
          (by rw [hl]; simp [owns, ownsPush, ownsPop]) (by simp [owns, ownsPush, ownsPop])
          (by simp [claims])
    case bWrite vs p i n =>
      cases he
      rw [hl] at li
      obtain ⟨la, lb, lc⟩ := li
      obtain ⟨c1, c2⟩ := h.write hK hI t (p + i) (vs.getD i 0) (.bPub vs p i n)
        (by rw [hl]; left; simp only [ownsPush]; omega)
        (by intro q; rw [hl]; simp [owns, ownsPush, ownsPop]) (by simp [claims])
      exact ⟨_, by simp [hevl, hevOf, proto, hl, op, evOfOp, hbSpec, step_pwrite, c1], c2⟩
    case bPub vs p i n =>
      cases he
      rw [hl] at li
      obtain ⟨la, lb, lc, ld⟩ := li
      have hrel : isRel (o (.bPub vs p i n)) = true := isRel_of_ordGE (ho _) rfl
      refine ⟨d.afterStore t (seqF K (p + i)) (o (.bPub vs p i n)),
        by simp [hevl, hevOf, proto, hl, op, evOfOp, hbSpec, step_store], ?_⟩
      refine h.publish t (p + i) _ _ _ hrel (by rw [hl]; left; simp only [ownsPush]; omega) ?_ ?_
      · intro q; rw [hl]
        split
        · simp only [owns, ownsPush, ownsPop, or_false]; omega
        · simp only [owns, ownsPush, ownsPop, or_false]
          constructor
          · intro hf; exact hf.elim
          · rintro ⟨⟨h1, h2⟩, h3⟩; omega
      · intro m q; split <;> simp [claims]
    case qLoadH w =>
      cases he
      refine ⟨d.afterLoad t 0 (o (.qLoadH w)),
        by simp [hevl, hevOf, proto, hl, op, evOfOp, hbSpec, isData_zero, step_load], ?_⟩
      exact h.plain t _ (fun _ _ h => afterLoad_cA_mono h) (fun _ h => h)
        (by rw [hl]; simp [owns, ownsPush, ownsPop]) (by simp [owns, ownsPush, ownsPop])
        (by simp [claims])
    case qLoadT w x =>
      cases he
      refine ⟨d.afterLoad t 1 (o (.qLoadT w x)),
        by simp [hevl, hevOf, proto, hl, op, evOfOp, hbSpec, isData_one, step_load], ?_⟩
      refine h.plain t _ (fun _ _ h => afterLoad_cA_mono h) (fun _ h => h)
        (by rw [hl]; simp [owns, ownsPush, ownsPop]) ?_ ?_
      · intro q; split <;> simp [owns, ownsPush, ownsPop]
      · intro q hq; split at hq <;> simp [claims] at hq

/-- every execution of the MPMC ring model (any number of producers and consumers), with any
declared orders at least `need`, is free of data races on the slot elements -/
theorem race_free (hK : 2 ≤ K) (o : L → Nat) (ho : ∀ l, ordGE (need l) (o l) = true)
    (acts : List (Act (proto K))) (s : State (proto K)) (tr : Trace)
    (hrun : runH (hbSpec K o) (init K) acts = some (s, tr)) : ¬ Race tr := by
  refine race_free_of_inv (hbSpec K o) (fun s d => SInv K s ∧ MJ K s.mem s.loc d) (fun _ => True)
    ?_ (init K) ⟨SInv.init K, mj_init⟩ acts (fun _ _ => trivial) s tr hrun
  rintro s d a s' ⟨hs, hj⟩ - he
  obtain ⟨d', hd, hj'⟩ := mj_step hK o ho hs hj a he
  exact ⟨d', hd, hs.step hK he, hj'⟩

end Dispenso.Mpmc
