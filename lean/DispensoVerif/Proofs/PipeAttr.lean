import Lean
/-! simp sets used by the proofs about the pipeline model -/
register_simp_attr pipeStep
register_simp_attr pipeLeaf
register_simp_attr pipeInv
