import DispensoVerif.Model.ConVecAlloc
import DispensoVerif.Proofs.ConVec
/-!
Helper lemmas for the allocation model of `ConcurrentVector` (`Model/ConVecAlloc.lean`):
bucket arithmetic (which bucket an index falls into), the trigger index of a bucket, the
effect of `assignAll` / `allocRange` / `allocSingle` / `shrinkLoop` / `capLoop`, and the
invariant `Inv` with its preservation by every operation.  Core Lean only.
-/
namespace Dispenso.ConVecAlloc
open Dispenso.ConVec

/-! ### bucket arithmetic -/

/-- bucket of an index -/
def bk (s i : Nat) : Nat := (bucketAndSubIndex s i).bucket

theorem bucketStart_zero (s : Nat) : bucketStart s 0 = 0 := by simp [bucketStart]
theorem bucketStart_succ (s b : Nat) : bucketStart s (b + 1) = 2 ^ (s + b) := by
  simp [bucketStart]
theorem bucketCap_zero (s : Nat) : bucketCap s 0 = 2 ^ s := by simp [bucketCap]
theorem bucketCap_succ (s b : Nat) : bucketCap s (b + 1) = 2 ^ (s + b) := by
  simp [bucketCap]

theorem bucketCap_pos (s b : Nat) : 0 < bucketCap s b := by
  cases b with
  | zero => rw [bucketCap_zero]; exact Nat.pow_pos (by decide)
  | succ b => rw [bucketCap_succ]; exact Nat.pow_pos (by decide)

theorem bucketStart_lt_succ (s b : Nat) : bucketStart s b < bucketStart s (b + 1) := by
  rw [buckets_tile]; have := bucketCap_pos s b; omega

theorem bucketStart_mono (s : Nat) {a b : Nat} (h : a ≤ b) : bucketStart s a ≤ bucketStart s b := by
  induction b with
  | zero => have : a = 0 := by omega
            subst this; exact Nat.le_refl _
  | succ b ih =>
    by_cases e : a = b + 1
    · subst e; exact Nat.le_refl _
    · have := ih (by omega); have := bucketStart_lt_succ s b; omega

theorem bk_start_le (s i : Nat) : bucketStart s (bk s i) ≤ i := by
  have := index_decomp s i; unfold bk; omega

theorem bk_lt_next (s i : Nat) : i < bucketStart s (bk s i + 1) := by
  have h1 := index_decomp s i
  have h2 := sub_lt_cap s i
  have h3 := cap_eq s i
  rw [buckets_tile]; unfold bk; omega

theorem bk_le_of_lt {s i b : Nat} (h : i < bucketStart s (b + 1)) : bk s i ≤ b := by
  by_cases hc : bk s i ≤ b
  · exact hc
  · have := bucketStart_mono s (show b + 1 ≤ bk s i by omega)
    have := bk_start_le s i; omega

theorem le_bk_of_le {s i b : Nat} (h : bucketStart s b ≤ i) : b ≤ bk s i := by
  by_cases hc : b ≤ bk s i
  · exact hc
  · have := bucketStart_mono s (show bk s i + 1 ≤ b by omega)
    have := bk_lt_next s i; omega

theorem bk_mono (s : Nat) {i j : Nat} (h : i ≤ j) : bk s i ≤ bk s j :=
  le_bk_of_le (Nat.le_trans (bk_start_le s i) h)

theorem bk_eq {s i b : Nat} (h1 : bucketStart s b ≤ i) (h2 : i < bucketStart s (b + 1)) : bk s i = b :=
  Nat.le_antisymm (bk_le_of_lt h2) (le_bk_of_le h1)

/-- the sub-index of `i` is `i - bucketStart (bucket i)` -/
theorem bidx_eq (s i : Nat) : (bucketAndSubIndex s i).bucketIndex = i - bucketStart s (bk s i) := by
  have := index_decomp s i; unfold bk; omega

theorem bcap_eq (s i : Nat) : (bucketAndSubIndex s i).bucketCapacity = bucketCap s (bk s i) := cap_eq s i

theorem allocCheck_lt (st : Strat) {c : Nat} (h : 0 < c) : allocCheckIndex st c < c := by
  cases st <;> simp only [allocCheckIndex]
  · exact h
  · exact Nat.div_lt_self h (by decide)
  · omega

/-- the index whose reservation triggers the allocation of bucket `b + 1` -/
def trigAbs (st : Strat) (s b : Nat) : Nat := bucketStart s b + allocCheckIndex st (bucketCap s b)

theorem trigAbs_ge (st : Strat) (s b : Nat) : bucketStart s b ≤ trigAbs st s b := by
  unfold trigAbs; omega

theorem trigAbs_lt (st : Strat) (s b : Nat) : trigAbs st s b < bucketStart s (b + 1) := by
  unfold trigAbs; rw [buckets_tile]
  have := allocCheck_lt st (bucketCap_pos s b); omega

theorem bk_trigAbs (st : Strat) (s b : Nat) : bk s (trigAbs st s b) = b :=
  bk_eq (trigAbs_ge st s b) (trigAbs_lt st s b)

/-! ### `setB` -/

@[simp] theorem setB_self (f : Nat → Bool) (b : Nat) (x : Bool) : setB f b x b = x := by simp [setB]
theorem setB_ne (f : Nat → Bool) {b k : Nat} (x : Bool) (h : k ≠ b) : setB f b x k = f k := by
  simp [setB, h]
theorem setB_apply (f : Nat → Bool) (b k : Nat) (x : Bool) : setB f b x k = if k = b then x else f k := rfl

/-! ### counting set bits below a bound -/

def cnt : Nat → (Nat → Bool) → Nat
  | 0, _ => 0
  | n + 1, f => cnt n f + (if f n then 1 else 0)

theorem cnt_setB (n : Nat) (f : Nat → Bool) (b : Nat) (x : Bool) :
    cnt n (setB f b x) + (if b < n ∧ f b = true then 1 else 0)
      = cnt n f + (if b < n ∧ x = true then 1 else 0) := by
  induction n with
  | zero => simp [cnt]
  | succ n ih =>
    simp only [cnt]
    by_cases e : n = b
    · subst e
      have h1 : ¬ (n < n) := Nat.lt_irrefl n
      simp only [h1, false_and, if_false, Nat.add_zero] at ih
      simp only [setB_self, Nat.lt_succ_self, true_and]
      rw [ih]
      cases x <;> cases f n <;> simp
    · rw [setB_ne f x e]
      have hb : (b < n + 1) ↔ (b < n) := by
        constructor <;> intro h <;> omega
      simp only [hb]; omega

theorem cnt_congr (n : Nat) (f g : Nat → Bool) (h : ∀ k, k < n → f k = g k) : cnt n f = cnt n g := by
  induction n with
  | zero => rfl
  | succ n ih =>
    simp only [cnt]
    rw [ih (fun k hk => h k (by omega)), h n (by omega)]

theorem cnt_false (n : Nat) : cnt n (fun _ => false) = 0 := by
  induction n with
  | zero => rfl
  | succ n ih => simp [cnt, ih]

/-! ### the structural invariant (everything but the trigger condition and the table bound) -/

structure Base (v : VA) : Prop where
  b0 : v.bufs 0 = true
  b1 : v.bufs 1 = true
  pre : ∀ b, v.bufs (b + 1) = true → v.bufs b = true
  st_sub : ∀ b, v.starts b = true → v.bufs b = true
  st0 : v.starts 0 = false
  st1 : v.starts 1 = false
  fl : ∀ b, 2 ≤ b → v.bufs b = true → v.flags b = v.starts b
  leaked0 : v.leaked = 0
  bad0 : v.badFree = 0

theorem pre_down {f : Nat → Bool} (pre : ∀ b, f (b + 1) = true → f b = true) {a b : Nat} (h : a ≤ b)
    (hb : f b = true) : f a = true := by
  induction b with
  | zero => have : a = 0 := by omega
            subst this; exact hb
  | succ b ih =>
    by_cases e : a = b + 1
    · subst e; exact hb
    · exact ih (by omega) (pre b hb)

theorem pre_up_false {f : Nat → Bool} (pre : ∀ b, f (b + 1) = true → f b = true) {a b : Nat} (h : a ≤ b)
    (ha : f a = false) : f b = false := by
  cases hb : f b with
  | false => rfl
  | true => have := pre_down pre h hb; rw [ha] at this; cases this

/-! ### `assignAll` -/

theorem assignAll_noop (h : Bool) (v : VA) (T : List (Nat × Nat)) (fa : Bool)
    (hall : ∀ p ∈ T, v.bufs p.1 = true) : assignAll h v T fa = (v, fa) := by
  induction T with
  | nil => rfl
  | cons p r ih =>
    obtain ⟨b, c⟩ := p
    have hb : v.bufs b = true := hall (b, c) (List.mem_cons_self)
    simp only [assignAll, hb, if_true]
    exact ih (fun q hq => hall q (List.mem_cons_of_mem _ hq))

/-- what `assignAll` leaves unchanged -/
theorem assignAll_frame (h : Bool) (T : List (Nat × Nat)) : ∀ (v : VA) (fa : Bool),
    let r := (assignAll h v T fa).1
    r.shift = v.shift ∧ r.size = v.size ∧ r.nalloc = v.nalloc ∧ r.nfree = v.nfree ∧ r.elems = v.elems ∧
      r.leaked = v.leaked ∧ r.badFree = v.badFree := by
  induction T with
  | nil => intro v fa; simp [assignAll]
  | cons p r ih =>
    intro v fa
    obtain ⟨b, c⟩ := p
    simp only [assignAll]
    split
    · exact ih v fa
    · exact ih _ true

theorem assignAll_bufs (h : Bool) (T : List (Nat × Nat)) : ∀ (v : VA) (fa : Bool) (k : Nat),
    (assignAll h v T fa).1.bufs k = (v.bufs k || T.any (fun p => decide (p.1 = k))) := by
  induction T with
  | nil => intro v fa k; simp [assignAll]
  | cons p r ih =>
    intro v fa k
    obtain ⟨b, c⟩ := p
    simp only [assignAll, List.any_cons]
    split
    · rename_i hb
      rw [ih v fa k]
      by_cases e : b = k
      · subst e; simp [hb]
      · simp [e]
    · rw [ih _ true k]
      by_cases e : b = k
      · subst e; simp
      · have e' : k ≠ b := fun x => e x.symm
        simp [e, setB_ne _ _ e']

/-- once `firstAccounted` is set it stays set -/
theorem assignAll_fa_true (h : Bool) (T : List (Nat × Nat)) : ∀ (v : VA),
    (assignAll h v T true).2 = true := by
  induction T with
  | nil => intro v; rfl
  | cons p r ih =>
    intro v
    obtain ⟨b, c⟩ := p
    simp only [assignAll]
    split
    · exact ih v
    · exact ih _

theorem assignAll_fa (h : Bool) (T : List (Nat × Nat)) : ∀ (v : VA) (fa : Bool),
    (∃ p ∈ T, v.bufs p.1 = false) → (assignAll h v T fa).2 = true := by
  induction T with
  | nil => intro v fa ⟨p, hp, _⟩; cases hp
  | cons p r ih =>
    intro v fa ⟨q, hq, hqn⟩
    obtain ⟨b, c⟩ := p
    simp only [assignAll]
    split
    · rename_i hb
      apply ih v fa
      rcases List.mem_cons.1 hq with e | hq'
      · subst e; rw [hb] at hqn; cases hqn
      · exact ⟨q, hq', hqn⟩
    · exact assignAll_fa_true h r _

/-- flags and ghost starts stay in step on the allocated buckets, ghost starts stay inside the
    allocated set, nothing below bucket 2 is touched -/
theorem assignAll_base (T : List (Nat × Nat)) : ∀ (v : VA) (fa : Bool),
    (∀ b, 2 ≤ b → v.bufs b = true → v.flags b = v.starts b) →
    (∀ b, v.starts b = true → v.bufs b = true) →
    v.bufs 0 = true → v.bufs 1 = true →
    let r := (assignAll true v T fa).1
    (∀ b, 2 ≤ b → r.bufs b = true → r.flags b = r.starts b) ∧
    (∀ b, r.starts b = true → r.bufs b = true) ∧ r.starts 0 = v.starts 0 ∧ r.starts 1 = v.starts 1 := by
  induction T with
  | nil => intro v fa h1 h2 _ _; exact ⟨h1, h2, rfl, rfl⟩
  | cons p r ih =>
    intro v fa h1 h2 h0 h01
    obtain ⟨b, c⟩ := p
    simp only [assignAll]
    split
    · exact ih v fa h1 h2 h0 h01
    · rename_i hb
      have hb' : v.bufs b = false := by cases hx : v.bufs b <;> simp_all
      have hne0 : (0 : Nat) ≠ b := by intro e; subst e; rw [h0] at hb'; cases hb'
      have hne1 : (1 : Nat) ≠ b := by intro e; subst e; rw [h01] at hb'; cases hb'
      have := ih { v with bufs := setB v.bufs b true, flags := setB v.flags b (!fa),
                          starts := setB v.starts b (!fa && true) } true
        (by
          intro k hk hkb
          simp only [setB_apply] at hkb ⊢
          by_cases e : k = b
          · simp [e]
          · simp only [e, if_false] at hkb ⊢; exact h1 k hk hkb)
        (by
          intro k hk
          simp only [setB_apply] at hk ⊢
          by_cases e : k = b
          · simp [e]
          · simp only [e, if_false] at hk ⊢; exact h2 k hk)
        (by simp only [setB_apply, hne0, if_false]; exact h0)
        (by simp only [setB_apply, hne1, if_false]; exact h01)
      refine ⟨this.1, this.2.1, ?_, ?_⟩
      · rw [this.2.2.1]; simp only [setB_apply, hne0, if_false]
      · rw [this.2.2.2]; simp only [setB_apply, hne1, if_false]

/-- number of ghost block starts below `n` after `assignAll`: one more iff a block was allocated
    and some visited bucket was still null -/
theorem assignAll_cnt (n : Nat) (T : List (Nat × Nat)) : ∀ (v : VA) (fa : Bool),
    (∀ p ∈ T, v.bufs p.1 = false → p.1 < n) →
    (∀ b, v.starts b = true → v.bufs b = true) →
    cnt n (assignAll true v T fa).1.starts
      = cnt n v.starts + (if fa = false ∧ (∃ p ∈ T, v.bufs p.1 = false) then 1 else 0) := by
  induction T with
  | nil => intro v fa _ _; simp [assignAll]
  | cons p r ih =>
    intro v fa hlt hsub
    obtain ⟨b, c⟩ := p
    simp only [assignAll]
    split
    · rename_i hb
      rw [ih v fa (fun q hq => hlt q (List.mem_cons_of_mem _ hq)) hsub]
      have : (∃ q ∈ (b, c) :: r, v.bufs q.1 = false) ↔ (∃ q ∈ r, v.bufs q.1 = false) := by
        constructor
        · rintro ⟨q, hq, hqn⟩
          rcases List.mem_cons.1 hq with e | hq'
          · subst e; rw [hb] at hqn; cases hqn
          · exact ⟨q, hq', hqn⟩
        · rintro ⟨q, hq, hqn⟩; exact ⟨q, List.mem_cons_of_mem _ hq, hqn⟩
      simp only [this]
    · rename_i hb
      have hb' : v.bufs b = false := by cases hx : v.bufs b <;> simp_all
      have hbn : b < n := hlt (b, c) List.mem_cons_self hb'
      have hsb : v.starts b = false := by
        cases hx : v.starts b with
        | false => rfl
        | true => have := hsub b hx; rw [hb'] at this; cases this
      rw [ih _ true
        (by
          intro q hq hqn
          apply hlt q (List.mem_cons_of_mem _ hq)
          simp only [setB_apply] at hqn
          by_cases e : q.1 = b
          · simp [e] at hqn
          · simpa [e] using hqn)
        (by
          intro k hk
          simp only [setB_apply] at hk ⊢
          by_cases e : k = b
          · simp [e]
          · simp only [e, if_false] at hk ⊢; exact hsub k hk)]
      have hex : ∃ q ∈ (b, c) :: r, v.bufs q.1 = false := ⟨(b, c), List.mem_cons_self, hb'⟩
      cases fa
      · have hc := cnt_setB n v.starts b true
        simp [hbn, hsb] at hc
        have h1 : (false = false ∧ ∃ q ∈ (b, c) :: r, v.bufs q.1 = false) := ⟨rfl, hex⟩
        have h2 : ¬ (true = false ∧ ∃ q ∈ r, (setB v.bufs b true) q.1 = false) := by simp
        rw [if_pos h1, if_neg h2]
        simpa using hc
      · have hc := cnt_setB n v.starts b false
        simp [hbn, hsb] at hc
        have h1 : ¬ (true = false ∧ ∃ q ∈ (b, c) :: r, v.bufs q.1 = false) := by simp
        have h2 : ¬ (true = false ∧ ∃ q ∈ r, (setB v.bufs b true) q.1 = false) := by simp
        rw [if_neg h1, if_neg h2]
        simpa using hc

/-! ### the buckets visited by the range variant -/

def curP (st : Strat) (bi : BucketInfo) (n : Nat) : Prop :=
  bi.bucketIndex ≤ allocCheckIndex st bi.bucketCapacity ∧ allocCheckIndex st bi.bucketCapacity < bi.bucketIndex + n

instance (st : Strat) (bi : BucketInfo) (n : Nat) : Decidable (curP st bi n) := by unfold curP; infer_instance

/-- first bucket visited -/
def firstT (st : Strat) (bi : BucketInfo) (n : Nat) : Nat := bi.bucket + 1 + (if curP st bi n then 0 else 1)

theorem any_iff (T : List (Nat × Nat)) (k : Nat) :
    T.any (fun p => decide (p.1 = k)) = true ↔ ∃ p ∈ T, p.1 = k := by
  simp [List.any_eq_true]

theorem rangeTargets_mem (st : Strat) (bi bend : BucketInfo) (n k c : Nat) :
    (k, c) ∈ rangeTargets st bi n bend ↔
      (curP st bi n ∨ bi.bucket < bend.bucket) ∧
      ((firstT st bi n ≤ k ∧ k ≤ bend.bucket ∨
        (allocCheckIndex st bend.bucketCapacity < bend.bucketIndex ∧
          k = firstT st bi n + (bend.bucket + 1 - firstT st bi n))) ∧
       c = bi.bucketCapacity * 2 ^ ((if bi.bucket = 0 then 0 else 1) + (if curP st bi n then 0 else 1))
             * 2 ^ (k - firstT st bi n)) := by
  unfold rangeTargets firstT curP
  by_cases hc : bi.bucketIndex ≤ allocCheckIndex st bi.bucketCapacity ∧
      allocCheckIndex st bi.bucketCapacity < bi.bucketIndex + n
  · obtain ⟨h1, h2⟩ := hc
    simp only [h1, h2, decide_true, Bool.and_self, Bool.true_or, if_true, and_self, true_or, true_and,
      Nat.add_zero, List.mem_append, List.mem_map, List.mem_range]
    constructor
    · rintro (⟨i, hi, he⟩ | hm)
      · cases he
        refine ⟨Or.inl ⟨by omega, by omega⟩, ?_⟩
        have : bi.bucket + 1 + i - (bi.bucket + 1) = i := by omega
        rw [this]
      · split at hm
        · rename_i hx
          simp only [List.mem_singleton, Prod.mk.injEq] at hm
          obtain ⟨e1, e2⟩ := hm
          refine ⟨Or.inr ⟨hx, e1⟩, ?_⟩
          rw [e2, e1]
          have : bi.bucket + 1 + (bend.bucket + 1 - (bi.bucket + 1)) - (bi.bucket + 1)
              = bend.bucket + 1 - (bi.bucket + 1) := by omega
          rw [this]
        · cases hm
    · rintro ⟨(⟨h3, h4⟩ | ⟨hx, e1⟩), e2⟩
      · left
        refine ⟨k - (bi.bucket + 1), by omega, ?_⟩
        rw [e2]
        have : bi.bucket + 1 + (k - (bi.bucket + 1)) = k := by omega
        rw [this]
      · right
        rw [if_pos hx]
        simp only [List.mem_singleton, Prod.mk.injEq]
        refine ⟨e1, ?_⟩
        rw [e2, e1]
        have : bi.bucket + 1 + (bend.bucket + 1 - (bi.bucket + 1)) - (bi.bucket + 1)
              = bend.bucket + 1 - (bi.bucket + 1) := by omega
        rw [this]
  · have hd : (decide (bi.bucketIndex ≤ allocCheckIndex st bi.bucketCapacity) &&
        decide (allocCheckIndex st bi.bucketCapacity < bi.bucketIndex + n)) = false := by
      rw [Bool.and_eq_false_iff]
      by_cases h1 : bi.bucketIndex ≤ allocCheckIndex st bi.bucketCapacity
      · right; exact decide_eq_false (fun h2 => hc ⟨h1, h2⟩)
      · left; exact decide_eq_false h1
    simp only [hd, hc, Bool.false_or, if_false, false_or, Bool.false_eq_true]
    by_cases hlt : bi.bucket < bend.bucket
    · simp only [hlt, decide_true, if_true, true_and, List.mem_append, List.mem_map, List.mem_range]
      constructor
      · rintro (⟨i, hi, he⟩ | hm)
        · cases he
          refine ⟨Or.inl ⟨by omega, by omega⟩, ?_⟩
          have : bi.bucket + 1 + 1 + i - (bi.bucket + 1 + 1) = i := by omega
          rw [this]
        · split at hm
          · rename_i hx
            simp only [List.mem_singleton, Prod.mk.injEq] at hm
            obtain ⟨e1, e2⟩ := hm
            refine ⟨Or.inr ⟨hx, e1⟩, ?_⟩
            rw [e2, e1]
            have : bi.bucket + 1 + 1 + (bend.bucket + 1 - (bi.bucket + 1 + 1)) - (bi.bucket + 1 + 1)
                = bend.bucket + 1 - (bi.bucket + 1 + 1) := by omega
            rw [this]
          · cases hm
      · rintro ⟨(⟨h3, h4⟩ | ⟨hx, e1⟩), e2⟩
        · left
          refine ⟨k - (bi.bucket + 1 + 1), by omega, ?_⟩
          rw [e2]
          have : bi.bucket + 1 + 1 + (k - (bi.bucket + 1 + 1)) = k := by omega
          rw [this]
        · right
          rw [if_pos hx]
          simp only [List.mem_singleton, Prod.mk.injEq]
          refine ⟨e1, ?_⟩
          rw [e2, e1]
          have : bi.bucket + 1 + 1 + (bend.bucket + 1 - (bi.bucket + 1 + 1)) - (bi.bucket + 1 + 1)
                = bend.bucket + 1 - (bi.bucket + 1 + 1) := by omega
          rw [this]
    · simp [hlt]

/-! ### the visited buckets when the range is `[i0, i0 + n)` of a vector with first-bucket shift `s` -/

theorem curP_iff (st : Strat) (s i0 n : Nat) :
    curP st (bucketAndSubIndex s i0) n ↔
      i0 ≤ trigAbs st s (bk s i0) ∧ trigAbs st s (bk s i0) < i0 + n := by
  unfold curP trigAbs
  rw [bidx_eq, bcap_eq]
  have := bk_start_le s i0
  omega

theorem endchk_iff (st : Strat) (s j : Nat) :
    allocCheckIndex st (bucketAndSubIndex s j).bucketCapacity < (bucketAndSubIndex s j).bucketIndex ↔
      trigAbs st s (bk s j) < j := by
  unfold trigAbs
  rw [bidx_eq, bcap_eq]
  have := bk_start_le s j
  omega

def inT (st : Strat) (s i0 n k : Nat) : Prop :=
  ∃ c, (k, c) ∈ rangeTargets st (bucketAndSubIndex s i0) n (bucketAndSubIndex s (i0 + n))

/-- not "current" but the range reaches the next bucket: the trigger index lies before the range -/
theorem trig_before (st : Strat) (s i0 n : Nat) (hlt : bk s i0 < bk s (i0 + n))
    (hc : ¬ (i0 ≤ trigAbs st s (bk s i0) ∧ trigAbs st s (bk s i0) < i0 + n)) :
    trigAbs st s (bk s i0) < i0 := by
  have h1 := trigAbs_lt st s (bk s i0)
  have h2 := bucketStart_mono s (show bk s i0 + 1 ≤ bk s (i0 + n) by omega)
  have h3 := bk_start_le s (i0 + n)
  omega

theorem inT_iff (st : Strat) (s i0 n k : Nat) :
    inT st s i0 n k ↔
      ((i0 ≤ trigAbs st s (bk s i0) ∧ trigAbs st s (bk s i0) < i0 + n) ∨ bk s i0 < bk s (i0 + n)) ∧
      ((bk s i0 + 1 + (if i0 ≤ trigAbs st s (bk s i0) ∧ trigAbs st s (bk s i0) < i0 + n then 0 else 1) ≤ k
          ∧ k ≤ bk s (i0 + n)) ∨
        (trigAbs st s (bk s (i0 + n)) < i0 + n ∧ k = bk s (i0 + n) + 1)) := by
  have hBE : bk s i0 ≤ bk s (i0 + n) := bk_mono s (by omega)
  have hb1 : (bucketAndSubIndex s i0).bucket = bk s i0 := rfl
  have hb2 : (bucketAndSubIndex s (i0 + n)).bucket = bk s (i0 + n) := rfl
  unfold inT
  constructor
  · rintro ⟨c, hm⟩
    rw [rangeTargets_mem] at hm
    obtain ⟨h1, h2, _⟩ := hm
    unfold firstT at h2
    simp only [curP_iff, endchk_iff, hb1, hb2] at h1 h2
    refine ⟨h1, ?_⟩
    by_cases hc : i0 ≤ trigAbs st s (bk s i0) ∧ trigAbs st s (bk s i0) < i0 + n
    · simp only [hc, and_self, if_true] at h2 ⊢
      rcases h2 with h2 | h2
      · left; omega
      · right; omega
    · simp only [hc, if_false] at h2 ⊢
      have hlt : bk s i0 < bk s (i0 + n) := by rcases h1 with h1 | h1; exact absurd h1 hc; exact h1
      rcases h2 with h2 | h2
      · left; omega
      · right; omega
  · rintro ⟨h1, h2⟩
    refine ⟨_, (rangeTargets_mem st _ _ n k _).2 ⟨?_, ?_, rfl⟩⟩
    · rw [curP_iff]; exact h1
    · unfold firstT
      simp only [curP_iff, endchk_iff, hb1, hb2]
      by_cases hc : i0 ≤ trigAbs st s (bk s i0) ∧ trigAbs st s (bk s i0) < i0 + n
      · simp only [hc, and_self, if_true] at h2 ⊢
        rcases h2 with h2 | h2
        · left; omega
        · right; omega
      · simp only [hc, if_false] at h2 ⊢
        have hlt : bk s i0 < bk s (i0 + n) := by rcases h1 with h1 | h1; exact absurd h1 hc; exact h1
        rcases h2 with h2 | h2
        · left; omega
        · right; omega

theorem inT_ge (st : Strat) (s i0 n k : Nat) (h : inT st s i0 n k) : bk s i0 + 1 ≤ k := by
  have hBE : bk s i0 ≤ bk s (i0 + n) := bk_mono s (by omega)
  rw [inT_iff] at h
  obtain ⟨h1, h2⟩ := h
  rcases h2 with h2 | h2
  · split at h2 <;> omega
  · by_cases hc : i0 ≤ trigAbs st s (bk s i0) ∧ trigAbs st s (bk s i0) < i0 + n
    · omega
    · have : bk s i0 < bk s (i0 + n) := by rcases h1 with h1 | h1; exact absurd h1 hc; exact h1
      omega

/-- every bucket whose trigger index lies in the range is visited (A.8 of the design) -/
theorem inT_of_trig (st : Strat) (s i0 n b : Nat) (h1 : i0 ≤ trigAbs st s b) (h2 : trigAbs st s b < i0 + n) :
    inT st s i0 n (b + 1) := by
  have hB : bk s i0 ≤ b := by
    have := bk_mono s h1; rw [bk_trigAbs] at this; exact this
  have hE : b ≤ bk s (i0 + n) := by
    have := bk_mono s (Nat.le_of_lt h2); rw [bk_trigAbs] at this; exact this
  rw [inT_iff]
  by_cases e : b = bk s i0
  · subst e
    have hc : i0 ≤ trigAbs st s (bk s i0) ∧ trigAbs st s (bk s i0) < i0 + n := ⟨h1, h2⟩
    refine ⟨Or.inl hc, ?_⟩
    simp only [hc, and_self, if_true]
    by_cases e2 : bk s i0 = bk s (i0 + n)
    · right; rw [← e2]; exact ⟨h2, rfl⟩
    · left; omega
  · have hlt : bk s i0 < bk s (i0 + n) := by omega
    refine ⟨Or.inr hlt, ?_⟩
    by_cases e2 : b = bk s (i0 + n)
    · right; subst e2; exact ⟨h2, rfl⟩
    · left; split <;> omega

/-- buckets strictly inside `(bucket i0, bucket (i0+n)]` are visited, except `bucket i0 + 1` when its
    trigger index was reserved before the range -/
theorem inT_mid (st : Strat) (s i0 n k : Nat) (h1 : bk s i0 < k) (h2 : k ≤ bk s (i0 + n)) :
    inT st s i0 n k ∨ (k = bk s i0 + 1 ∧ trigAbs st s (bk s i0) < i0) := by
  have hlt : bk s i0 < bk s (i0 + n) := by omega
  by_cases hc : i0 ≤ trigAbs st s (bk s i0) ∧ trigAbs st s (bk s i0) < i0 + n
  · left; rw [inT_iff]; refine ⟨Or.inl hc, Or.inl ?_⟩
    simp only [hc, and_self, if_true]; omega
  · by_cases e : k = bk s i0 + 1
    · right; exact ⟨e, trig_before st s i0 n hlt hc⟩
    · left; rw [inT_iff]; refine ⟨Or.inr hlt, Or.inl ?_⟩
      simp only [hc, if_false]; omega

/-- the visited set is an interval that starts right above an allocated bucket -/
theorem inT_pred (st : Strat) (s i0 n k : Nat) (h : inT st s i0 n (k + 1)) :
    inT st s i0 n k ∨ k = bk s i0 ∨ (k = bk s i0 + 1 ∧ trigAbs st s (bk s i0) < i0) := by
  have hBE : bk s i0 ≤ bk s (i0 + n) := bk_mono s (by omega)
  have h' := h
  rw [inT_iff] at h
  obtain ⟨h1, h2⟩ := h
  by_cases hc : i0 ≤ trigAbs st s (bk s i0) ∧ trigAbs st s (bk s i0) < i0 + n
  · simp only [hc, and_self, if_true] at h2
    by_cases e : k = bk s i0
    · right; left; exact e
    · left; rw [inT_iff]; refine ⟨h1, Or.inl ?_⟩
      simp only [hc, and_self, if_true]; omega
  · simp only [hc, if_false] at h2
    have hlt : bk s i0 < bk s (i0 + n) := by rcases h1 with h1 | h1; exact absurd h1 hc; exact h1
    by_cases e : k = bk s i0 + 1
    · right; right; exact ⟨e, trig_before st s i0 n hlt hc⟩
    · left; rw [inT_iff]; refine ⟨h1, Or.inl ?_⟩
      simp only [hc, if_false]; omega

theorem inT_le (st : Strat) (s i0 n k : Nat) (h : inT st s i0 n k) : k ≤ bk s (i0 + n) + 1 := by
  rw [inT_iff] at h
  obtain ⟨_, h2⟩ := h
  omega

/-- the capacity the code computes for a visited bucket is that bucket's capacity -/
theorem target_cap (st : Strat) (s i0 n k c : Nat)
    (h : (k, c) ∈ rangeTargets st (bucketAndSubIndex s i0) n (bucketAndSubIndex s (i0 + n))) :
    c = bucketCap s k := by
  have hk : bk s i0 + 1 ≤ k := inT_ge st s i0 n k ⟨c, h⟩
  have hk2 : firstT st (bucketAndSubIndex s i0) n ≤ k := by
    have hin : inT st s i0 n k := ⟨c, h⟩
    rw [inT_iff] at hin
    obtain ⟨h1, h2⟩ := hin
    have hBE : bk s i0 ≤ bk s (i0 + n) := bk_mono s (by omega)
    unfold firstT; simp only [curP_iff]
    change bk s i0 + 1 + _ ≤ k
    by_cases hc : i0 ≤ trigAbs st s (bk s i0) ∧ trigAbs st s (bk s i0) < i0 + n
    · simp only [hc, and_self, if_true] at h2 ⊢; omega
    · simp only [hc, if_false] at h2 ⊢
      have hlt : bk s i0 < bk s (i0 + n) := by rcases h1 with h1 | h1; exact absurd h1 hc; exact h1
      omega
  rw [rangeTargets_mem] at h
  obtain ⟨_, _, hc⟩ := h
  rw [hc, bcap_eq]
  unfold firstT at hk2 ⊢
  have hb1 : (bucketAndSubIndex s i0).bucket = bk s i0 := rfl
  rw [hb1] at hk2 ⊢
  obtain ⟨k', rfl⟩ : ∃ k', k = k' + 1 := ⟨k - 1, by omega⟩
  rw [bucketCap_succ]
  cases hB : bk s i0 with
  | zero =>
    rw [hB] at hk2
    rw [bucketCap_zero]
    simp only [if_true, ← Nat.pow_add]
    congr 1
    split at hk2 <;> rename_i hx <;> simp only [hx, if_true, if_false] <;> omega
  | succ B' =>
    rw [hB] at hk2
    rw [bucketCap_succ]
    have : (B' + 1 = 0) = False := by simp
    simp only [this, if_false, ← Nat.pow_add]
    congr 1
    split at hk2 <;> rename_i hx <;> simp only [hx, if_true, if_false] <;> omega

theorem target_cap_pos (st : Strat) (s i0 n : Nat) :
    ∀ p ∈ rangeTargets st (bucketAndSubIndex s i0) n (bucketAndSubIndex s (i0 + n)), 0 < p.2 := by
  intro p hp
  obtain ⟨k, c⟩ := p
  rw [target_cap st s i0 n k c hp]
  exact bucketCap_pos s k

theorem sum_pos_iff (l : List Nat) (hpos : ∀ x ∈ l, 0 < x) : l.sum ≠ 0 ↔ l ≠ [] := by
  cases l with
  | nil => simp
  | cons a r =>
    have := hpos a List.mem_cons_self
    simp only [List.sum_cons, ne_eq, reduceCtorEq, not_false_eq_true, iff_true]
    omega

/-! ### `allocRange` -/

/-- the state after the allocation part of the range variant (before the wait loops) -/
def rangeResult (st : Strat) (v : VA) (bi : BucketInfo) (n : Nat) (bend : BucketInfo) : VA :=
  let T := rangeTargets st bi n bend
  let S : Nat := ((T.filter fun p => !v.bufs p.1).map (·.2)).sum
  let v2 := if S ≠ 0 then { v with nalloc := v.nalloc + 1, elems := v.elems + S } else v
  let r := assignAll (decide (S ≠ 0)) v2 T false
  if S ≠ 0 ∧ r.2 = false then { r.1 with leaked := r.1.leaked + 1 } else r.1

theorem allocRange_def (st : Strat) (v : VA) (bi : BucketInfo) (n : Nat) (bend : BucketInfo) :
    allocRange st v bi n bend =
      if (List.range (bend.bucket + 1 - bi.bucket)).all
          (fun i => (rangeResult st v bi n bend).bufs (bi.bucket + i)) then
        some (rangeResult st v bi n bend) else none := rfl

structure RangeSpec (st : Strat) (v v' : VA) (i0 n : Nat) : Prop where
  base : Base v'
  shift : v'.shift = v.shift
  size : v'.size = v.size
  nfree : v'.nfree = v.nfree
  bufs : ∀ k, v'.bufs k = true ↔ (v.bufs k = true ∨ inT st v.shift i0 n k)
  count : ∀ m, (∀ k, v'.bufs k = true → k < m) → v'.nalloc + cnt m v.starts = v.nalloc + cnt m v'.starts

theorem rangeResult_spec (st : Strat) (v : VA) (i0 n : Nat) (hB : Base v)
    (hcur : v.bufs (bk v.shift i0) = true)
    (hnext : trigAbs st v.shift (bk v.shift i0) < i0 → v.bufs (bk v.shift i0 + 1) = true) :
    RangeSpec st v (rangeResult st v (bucketAndSubIndex v.shift i0) n (bucketAndSubIndex v.shift (i0 + n))) i0 n := by
  unfold rangeResult
  generalize hT : rangeTargets st (bucketAndSubIndex v.shift i0) n (bucketAndSubIndex v.shift (i0 + n)) = T
  have hTin : ∀ k, (∃ p ∈ T, p.1 = k) ↔ inT st v.shift i0 n k := by
    intro k; unfold inT; rw [hT]
    constructor
    · rintro ⟨⟨a, c⟩, hp, rfl⟩; exact ⟨c, hp⟩
    · rintro ⟨c, hp⟩; exact ⟨(k, c), hp, rfl⟩
  have hpos : ∀ p ∈ T, 0 < p.2 := by rw [← hT]; exact target_cap_pos st v.shift i0 n
  have hge2 : ∀ k, inT st v.shift i0 n k → v.bufs k = false → 2 ≤ k := by
    intro k hk hn
    have := inT_ge st v.shift i0 n k hk
    by_cases e : k = 1
    · subst e; rw [hB.b1] at hn; cases hn
    · omega
  -- prefix closure of the new allocated set
  have hpre : ∀ k, (v.bufs (k + 1) = true ∨ inT st v.shift i0 n (k + 1)) →
      (v.bufs k = true ∨ inT st v.shift i0 n k) := by
    intro k h
    rcases h with h | h
    · exact Or.inl (hB.pre k h)
    · rcases inT_pred st v.shift i0 n k h with h | h | ⟨h, ht⟩
      · exact Or.inr h
      · subst h; exact Or.inl hcur
      · subst h; exact Or.inl (hnext ht)
  simp only []
  generalize hS : ((T.filter fun p => !v.bufs p.1).map (·.2)).sum = S
  by_cases hS0 : S = 0
  · -- nothing to allocate: every visited bucket is already non-null
    have hall : ∀ p ∈ T, v.bufs p.1 = true := by
      intro p hp
      cases hx : v.bufs p.1 with
      | true => rfl
      | false =>
        exfalso
        have hm : p.2 ∈ (T.filter fun p => !v.bufs p.1).map (·.2) :=
          List.mem_map.2 ⟨p, List.mem_filter.2 ⟨hp, by simp [hx]⟩, rfl⟩
        have hne : ((T.filter fun p => !v.bufs p.1).map (·.2)).sum ≠ 0 := by
          rw [sum_pos_iff _ (by
            intro x hx'
            obtain ⟨q, hq, rfl⟩ := List.mem_map.1 hx'
            exact hpos q (List.mem_filter.1 hq).1)]
          intro e; rw [e] at hm; cases hm
        exact hne (hS.trans hS0)
    simp only [hS0, ne_eq, not_true_eq_false, if_false, decide_false, false_and]
    rw [assignAll_noop false v T false hall]
    refine ⟨hB, rfl, rfl, rfl, ?_, ?_⟩
    · intro k
      constructor
      · exact Or.inl
      · rintro (h | h)
        · exact h
        · obtain ⟨p, hp, rfl⟩ := (hTin k).2 h; exact hall p hp
    · intro m _; rfl
  · have hex : ∃ p ∈ T, v.bufs p.1 = false := by
      have hne : (T.filter fun p => !v.bufs p.1) ≠ [] := by
        intro e; rw [e] at hS; simp at hS; exact hS0 hS.symm
      obtain ⟨p, hp⟩ := List.exists_mem_of_ne_nil _ hne
      have := List.mem_filter.1 hp
      exact ⟨p, this.1, by simpa using this.2⟩
    simp only [hS0, ne_eq, not_false_eq_true, if_true, decide_true, true_and]
    generalize hv2 : ({ v with nalloc := v.nalloc + 1, elems := v.elems + S } : VA) = v2
    have e2b : v2.bufs = v.bufs := by rw [← hv2]
    have e2s : v2.starts = v.starts := by rw [← hv2]
    have e2f : v2.flags = v.flags := by rw [← hv2]
    have hfa : (assignAll true v2 T false).2 = true :=
      assignAll_fa true T v2 false (by rw [e2b]; exact hex)
    rw [hfa]
    simp only [Bool.true_eq_false, if_false]
    have hfr := assignAll_frame true T v2 false
    have hbf := assignAll_bufs true T v2 false
    have hbs := assignAll_base T v2 false (by rw [e2b, e2f, e2s]; exact hB.fl) (by rw [e2b, e2s]; exact hB.st_sub)
      (by rw [e2b]; exact hB.b0) (by rw [e2b]; exact hB.b1)
    generalize hr : (assignAll true v2 T false).1 = r at hfr hbf hbs
    simp only [] at hfr hbs
    have hbufs : ∀ k, r.bufs k = true ↔ (v.bufs k = true ∨ inT st v.shift i0 n k) := by
      intro k
      rw [hbf k, e2b, Bool.or_eq_true, any_iff, hTin]
    refine ⟨⟨?_, ?_, ?_, hbs.2.1, ?_, ?_, hbs.1, ?_, ?_⟩, ?_, ?_, ?_, hbufs, ?_⟩
    · exact (hbufs 0).2 (Or.inl hB.b0)
    · exact (hbufs 1).2 (Or.inl hB.b1)
    · intro k hk; exact (hbufs k).2 (hpre k ((hbufs (k + 1)).1 hk))
    · rw [hbs.2.2.1, e2s]; exact hB.st0
    · rw [hbs.2.2.2, e2s]; exact hB.st1
    · rw [hfr.2.2.2.2.2.1, ← hv2]; exact hB.leaked0
    · rw [hfr.2.2.2.2.2.2, ← hv2]; exact hB.bad0
    · rw [hfr.1, ← hv2]
    · rw [hfr.2.1, ← hv2]
    · rw [hfr.2.2.2.1, ← hv2]
    · intro m hm
      have hc := assignAll_cnt m T v2 false
        (by
          intro p hp hpn
          apply hm
          exact (hbufs p.1).2 (Or.inr ((hTin p.1).1 ⟨p, hp, rfl⟩)))
        (by rw [e2b, e2s]; exact hB.st_sub)
      rw [hr] at hc
      have hex2 : (false = false ∧ ∃ p ∈ T, v2.bufs p.1 = false) := ⟨rfl, by rw [e2b]; exact hex⟩
      rw [if_pos hex2, e2s] at hc
      rw [hfr.2.2.1, ← hv2]
      simp only []
      omega

/-- the wait loops of the range variant end: every bucket of the range is allocated afterwards -/
theorem allocRange_ok (st : Strat) (v : VA) (i0 n : Nat) (hB : Base v)
    (hcur : v.bufs (bk v.shift i0) = true)
    (hnext : trigAbs st v.shift (bk v.shift i0) < i0 → v.bufs (bk v.shift i0 + 1) = true) :
    allocRange st v (bucketAndSubIndex v.shift i0) n (bucketAndSubIndex v.shift (i0 + n))
      = some (rangeResult st v (bucketAndSubIndex v.shift i0) n (bucketAndSubIndex v.shift (i0 + n))) := by
  have hsp := rangeResult_spec st v i0 n hB hcur hnext
  rw [allocRange_def, if_pos]
  rw [List.all_eq_true]
  intro i hi
  have hi' := List.mem_range.1 hi
  have hi'' : i < bk v.shift (i0 + n) + 1 - bk v.shift i0 := hi'
  show (rangeResult st v (bucketAndSubIndex v.shift i0) n (bucketAndSubIndex v.shift (i0 + n))).bufs
    (bk v.shift i0 + i) = true
  rw [hsp.bufs]
  by_cases e : i = 0
  · subst e; exact Or.inl hcur
  · rcases inT_mid st v.shift i0 n (bk v.shift i0 + i) (by omega) (by omega) with h | ⟨h1, h2⟩
    · exact Or.inr h
    · rw [h1]; exact Or.inl (hnext h2)

theorem RangeSpec.mono {st : Strat} {v v' : VA} {i0 n : Nat} (h : RangeSpec st v v' i0 n) (k : Nat)
    (hk : v.bufs k = true) : v'.bufs k = true := (h.bufs k).2 (Or.inl hk)

theorem RangeSpec.trig {st : Strat} {v v' : VA} {i0 n : Nat} (h : RangeSpec st v v' i0 n) (b : Nat)
    (h1 : i0 ≤ trigAbs st v.shift b) (h2 : trigAbs st v.shift b < i0 + n) : v'.bufs (b + 1) = true :=
  (h.bufs (b + 1)).2 (Or.inr (inT_of_trig st v.shift i0 n b h1 h2))

/-! ### `shrinkLoop`, `capLoop` -/

theorem shrinkLoop_spec (m : Nat) : ∀ (fuel b : Nat) (v : VA), 2 ≤ b →
    (∀ k, b ≤ k → v.bufs k = true → v.flags k = v.starts k) →
    (∀ k, b ≤ k → v.bufs (k + 1) = true → v.bufs k = true) →
    v.bufs (b + fuel) = false →
    (∀ k, v.starts k = true → v.bufs k = true) →
    (∀ k, v.starts k = true → k < m) →
    let r := shrinkLoop fuel b v
    (∀ k, k < b → r.bufs k = v.bufs k ∧ r.starts k = v.starts k) ∧
    (∀ k, b ≤ k → r.bufs k = false ∧ r.starts k = false) ∧
    r.flags = v.flags ∧ r.shift = v.shift ∧ r.size = v.size ∧ r.leaked = v.leaked ∧ r.badFree = v.badFree ∧
    r.nalloc = v.nalloc ∧ r.elems = v.elems ∧ r.nfree + cnt m r.starts = v.nfree + cnt m v.starts := by
  intro fuel
  induction fuel with
  | zero =>
    intro b v _ _ hpre hnull hsub _
    show (∀ k, k < b → v.bufs k = v.bufs k ∧ v.starts k = v.starts k) ∧
      (∀ k, b ≤ k → v.bufs k = false ∧ v.starts k = false) ∧ v.flags = v.flags ∧ v.shift = v.shift ∧
      v.size = v.size ∧ v.leaked = v.leaked ∧ v.badFree = v.badFree ∧ v.nalloc = v.nalloc ∧ v.elems = v.elems ∧
      v.nfree + cnt m v.starts = v.nfree + cnt m v.starts
    refine ⟨fun k _ => ⟨rfl, rfl⟩, ?_, rfl, rfl, rfl, rfl, rfl, rfl, rfl, rfl⟩
    intro k hk
    have hbk : v.bufs k = false := by
      have : ∀ d, v.bufs (b + d) = false := by
        intro d
        induction d with
        | zero => exact hnull
        | succ d ih =>
          cases hx : v.bufs (b + (d + 1)) with
          | false => rfl
          | true => have := hpre (b + d) (by omega) hx; rw [ih] at this; cases this
      have := this (k - b)
      rwa [show b + (k - b) = k by omega] at this
    refine ⟨hbk, ?_⟩
    cases hx : v.starts k with
    | false => rfl
    | true => have := hsub k hx; rw [hbk] at this; cases this
  | succ fuel ih =>
    intro b v hb2 hfl hpre hnull hsub hm
    simp only [shrinkLoop]
    by_cases hbb : v.bufs b = true
    · simp only [hbb, if_true]
      have hfs := hfl b (Nat.le_refl b) hbb
      -- the state after the free decision
      generalize hv1 : (if v.flags b = true then
          (if v.starts b = true then { v with nfree := v.nfree + 1 } else { v with badFree := v.badFree + 1 })
          else (if v.starts b = true then { v with leaked := v.leaked + 1 } else v)) = v1
      have h1 : v1.bufs = v.bufs ∧ v1.starts = v.starts ∧ v1.flags = v.flags ∧ v1.shift = v.shift ∧
          v1.size = v.size ∧ v1.leaked = v.leaked ∧ v1.badFree = v.badFree ∧ v1.nalloc = v.nalloc ∧
          v1.elems = v.elems ∧ v1.nfree = v.nfree + (if v.starts b = true then 1 else 0) := by
        rw [← hv1, hfs]
        cases v.starts b <;> simp
      obtain ⟨e1, e2, e3, e4, e5, e6, e7, e8, e9, e10⟩ := h1
      have := ih (b + 1) { v1 with bufs := setB v1.bufs b false, starts := setB v1.starts b false } (by omega)
        (by
          intro k hk hkb
          have hne : k ≠ b := by omega
          simp only [setB_ne _ _ hne, e1, e2, e3] at hkb ⊢
          exact hfl k (by omega) hkb)
        (by
          intro k hk hkb
          have hne : k ≠ b := by omega
          have hne' : k + 1 ≠ b := by omega
          simp only [setB_ne _ _ hne, setB_ne _ _ hne', e1] at hkb ⊢
          exact hpre k (by omega) hkb)
        (by
          have hne : b + 1 + fuel ≠ b := by omega
          simp only [setB_ne _ _ hne, e1]
          rw [show b + 1 + fuel = b + (fuel + 1) by omega]; exact hnull)
        (by
          intro k hk
          simp only [setB_apply, e1, e2] at hk ⊢
          by_cases e : k = b
          · simp [e] at hk
          · simp only [e, if_false] at hk ⊢; exact hsub k hk)
        (by
          intro k hk
          simp only [setB_apply, e2] at hk
          by_cases e : k = b
          · simp [e] at hk
          · simp only [e, if_false] at hk; exact hm k hk)
      simp only [] at this
      obtain ⟨r1, r2, r3, r4, r5, r6, r7, r8, r9, r10⟩ := this
      refine ⟨?_, ?_, ?_, ?_, ?_, ?_, ?_, ?_, ?_, ?_⟩
      · intro k hk
        have hne : k ≠ b := by omega
        exact ⟨(r1 k (by omega)).1.trans (by simp only [setB_ne _ _ hne, e1]),
          (r1 k (by omega)).2.trans (by simp only [setB_ne _ _ hne, e2])⟩
      · intro k hk
        by_cases e : k = b
        · subst e
          have := r1 k (by omega)
          simpa using this
        · exact r2 k (by omega)
      · rw [r3]; exact e3
      · rw [r4]; exact e4
      · rw [r5]; exact e5
      · rw [r6]; exact e6
      · rw [r7]; exact e7
      · rw [r8]; exact e8
      · rw [r9]; exact e9
      · rw [r10]
        simp only [e10, e2]
        have hc := cnt_setB m v.starts b false
        by_cases hsb : v.starts b = true
        · have hbm := hm b hsb
          simp only [hbm, hsb, true_and, if_true] at hc ⊢
          simp at hc
          omega
        · have hsb' : v.starts b = false := by cases hx : v.starts b <;> simp_all
          simp only [hsb', Bool.false_eq_true, and_false, if_false] at hc ⊢
          omega
    · have hbb' : v.bufs b = false := by cases hx : v.bufs b <;> simp_all
      simp only [hbb', Bool.false_eq_true, if_false]
      refine ⟨by simp, ?_, by simp⟩
      intro k hk
      have hbk : v.bufs k = false := by
        have : ∀ d, v.bufs (b + d) = false := by
          intro d
          induction d with
          | zero => exact hbb'
          | succ d ih2 =>
            cases hx : v.bufs (b + (d + 1)) with
            | false => rfl
            | true => have := hpre (b + d) (by omega) hx; rw [ih2] at this; cases this
        have := this (k - b)
        rwa [show b + (k - b) = k by omega] at this
      refine ⟨hbk, ?_⟩
      cases hx : v.starts k with
      | false => rfl
      | true => have := hsub k hx; rw [hbk] at this; cases this

theorem capLoop_spec (s : Nat) (f : Nat → Bool) (pre : ∀ b, f (b + 1) = true → f b = true) :
    ∀ (fuel b : Nat), 1 ≤ b → f (b + fuel) = false → (∀ k, k < b → f k = true) →
    ∃ K, b ≤ K ∧ f K = false ∧ (∀ k, k < K → f k = true) ∧
      capLoop fuel b f (bucketStart s b) = bucketStart s K := by
  intro fuel
  induction fuel with
  | zero => intro b _ hn hlt; exact ⟨b, Nat.le_refl b, hn, hlt, rfl⟩
  | succ fuel ih =>
    intro b hb hn hlt
    simp only [capLoop]
    by_cases hfb : f b = true
    · simp only [hfb, if_true]
      have hstep : bucketStart s b * 2 = bucketStart s (b + 1) := by
        obtain ⟨b', rfl⟩ : ∃ b', b = b' + 1 := ⟨b - 1, by omega⟩
        rw [bucketStart_succ, bucketStart_succ, show s + (b' + 1) = (s + b') + 1 by omega, Nat.pow_succ]
      rw [hstep]
      obtain ⟨K, h1, h2, h3, h4⟩ := ih (b + 1) (by omega) (by rw [show b + 1 + fuel = b + (fuel + 1) by omega]; exact hn)
        (by
          intro k hk
          by_cases e : k = b
          · subst e; exact hfb
          · exact hlt k (by omega))
      exact ⟨K, by omega, h2, h3, h4⟩
    · have hfb' : f b = false := by cases hx : f b <;> simp_all
      simp only [hfb', Bool.false_eq_true, if_false]
      exact ⟨b, Nat.le_refl b, hfb', hlt, rfl⟩

/-! ### the invariant of one vector -/

structure Inv (c : Cfg) (v : VA) : Prop where
  base : Base v
  /-- allocate-ahead: once the trigger index of bucket `b` is reserved, bucket `b + 1` exists -/
  trig : ∀ b, trigAbs c.strat v.shift b < v.size → v.bufs (b + 1) = true
  bnd : v.bufs c.mb = false
  count : v.nalloc = v.nfree + 1 + (if c.table then 1 else 0) + cnt c.mb v.starts

theorem Base.congr {v v' : VA} (h : Base v) (e1 : v'.bufs = v.bufs) (e2 : v'.starts = v.starts)
    (e3 : v'.flags = v.flags) (e4 : v'.leaked = v.leaked) (e5 : v'.badFree = v.badFree) : Base v' :=
  ⟨by rw [e1]; exact h.b0, by rw [e1]; exact h.b1, by rw [e1]; exact h.pre, by rw [e1, e2]; exact h.st_sub,
   by rw [e2]; exact h.st0, by rw [e2]; exact h.st1, by rw [e1, e2, e3]; exact h.fl, by rw [e4]; exact h.leaked0,
   by rw [e5]; exact h.bad0⟩

theorem lt_of_bufs {f : Nat → Bool} (pre : ∀ b, f (b + 1) = true → f b = true) {mb k : Nat}
    (hb : f mb = false) (hk : f k = true) : k < mb := by
  by_cases h : k < mb
  · exact h
  · have := pre_up_false pre (show mb ≤ k by omega) hb; rw [hk] at this; cases this

theorem Inv.lt_mb {c : Cfg} {v : VA} (h : Inv c v) {k : Nat} (hk : v.bufs k = true) : k < c.mb :=
  lt_of_bufs h.base.pre h.bnd hk

/-- every index up to the size lies in an allocated bucket -/
theorem alloc_of_le {st : Strat} {v : VA} {sz : Nat} (hB : Base v)
    (htr : ∀ b, trigAbs st v.shift b < sz → v.bufs (b + 1) = true) {i : Nat} (hi : i ≤ sz) :
    v.bufs (bk v.shift i) = true := by
  cases hb : bk v.shift i with
  | zero => exact hB.b0
  | succ b =>
    apply htr b
    have h1 := trigAbs_lt st v.shift b
    have h2 := bk_start_le v.shift i
    rw [hb] at h2
    omega

theorem RangeSpec.upto {st : Strat} {v v' : VA} {i0 n : Nat} (h : RangeSpec st v v' i0 n)
    (hcur : v.bufs (bk v.shift i0) = true)
    (hnext : trigAbs st v.shift (bk v.shift i0) < i0 → v.bufs (bk v.shift i0 + 1) = true)
    (k : Nat) (hk : k ≤ bk v.shift (i0 + n)) : v'.bufs k = true := by
  by_cases h1 : k ≤ bk v.shift i0
  · exact pre_down h.base.pre h1 (h.mono _ hcur)
  · rcases inT_mid st v.shift i0 n k (by omega) hk with h2 | ⟨h2, h3⟩
    · exact (h.bufs k).2 (Or.inr h2)
    · rw [h2]; exact h.mono _ (hnext h3)

theorem growRange_inv (c : Cfg) (v : VA) (n : Nat) (h : Inv c v) :
    ∃ v', growRange c.strat v n = some v' ∧ (v'.bufs c.mb = false → Inv c v') ∧
      v'.size = v.size + n ∧ v'.shift = v.shift ∧ (∀ k, v.bufs k = true → v'.bufs k = true) := by
  have hcur := alloc_of_le h.base h.trig (Nat.le_refl v.size)
  have hnext := h.trig (bk v.shift v.size)
  have hsp := rangeResult_spec c.strat v v.size n h.base hcur hnext
  have hok := allocRange_ok c.strat v v.size n h.base hcur hnext
  generalize rangeResult c.strat v (bucketAndSubIndex v.shift v.size) n (bucketAndSubIndex v.shift (v.size + n)) = r at hsp hok
  refine ⟨{ r with size := v.size + n }, by unfold growRange; rw [hok]; rfl, ?_, rfl, hsp.shift, hsp.mono⟩
  intro hb
  refine ⟨hsp.base.congr rfl rfl rfl rfl rfl, ?_, hb, ?_⟩
  · intro b hbt
    show r.bufs (b + 1) = true
    have hbt' : trigAbs c.strat v.shift b < v.size + n := by rw [← hsp.shift]; exact hbt
    by_cases h1 : trigAbs c.strat v.shift b < v.size
    · exact hsp.mono _ (h.trig b h1)
    · exact hsp.trig b (by omega) hbt'
  · show r.nalloc = r.nfree + 1 + (if c.table then 1 else 0) + cnt c.mb r.starts
    have := hsp.count c.mb (fun k hk => lt_of_bufs hsp.base.pre hb hk)
    have := h.count
    rw [hsp.nfree]; omega

theorem bAS_zero (s : Nat) : bucketAndSubIndex s 0 = ⟨0, 0, 2 ^ s⟩ := by
  unfold bucketAndSubIndex
  simp [Nat.pow_pos]

theorem bk_zero (s : Nat) : bk s 0 = 0 := by unfold bk; rw [bAS_zero]

theorem reserve_spec (c : Cfg) (v : VA) (n : Nat) (hB : Base v) :
    ∃ v', reserve c.strat v n = some v' ∧ RangeSpec c.strat v v' 0 n ∧
      (∀ k, k ≤ bk v.shift n → v'.bufs k = true) := by
  have hcur : v.bufs (bk v.shift 0) = true := by rw [bk_zero]; exact hB.b0
  have hnext : trigAbs c.strat v.shift (bk v.shift 0) < 0 → v.bufs (bk v.shift 0 + 1) = true := by
    intro h; omega
  have hsp := rangeResult_spec c.strat v 0 n hB hcur hnext
  have hok := allocRange_ok c.strat v 0 n hB hcur hnext
  rw [bAS_zero, Nat.zero_add] at hok hsp
  refine ⟨_, hok, hsp, ?_⟩
  intro k hk
  have := hsp.upto hcur hnext k (by rw [Nat.zero_add]; exact hk)
  exact this

theorem reserve_inv (c : Cfg) (v : VA) (n : Nat) (h : Inv c v) :
    ∃ v', reserve c.strat v n = some v' ∧ (v'.bufs c.mb = false → Inv c v') ∧ v'.size = v.size ∧
      v'.shift = v.shift ∧ (∀ i, i < n → v'.bufs (bk v.shift i) = true) := by
  obtain ⟨r, hr, hsp, hup⟩ := reserve_spec c v n h.base
  refine ⟨r, hr, ?_, hsp.size, hsp.shift, fun i hi => hup _ (bk_mono _ (Nat.le_of_lt hi))⟩
  intro hb
  refine ⟨hsp.base, ?_, hb, ?_⟩
  · intro b hbt
    rw [hsp.shift, hsp.size] at hbt
    exact hsp.mono _ (h.trig b hbt)
  · have := hsp.count c.mb (fun k hk => lt_of_bufs hsp.base.pre hb hk)
    have := h.count
    rw [hsp.nfree]; omega

theorem Inv.size_le {c : Cfg} {v : VA} (h : Inv c v) (n : Nat) (hn : n ≤ v.size) : Inv c { v with size := n } :=
  ⟨h.base.congr rfl rfl rfl rfl rfl, fun b hb => h.trig b (Nat.lt_of_lt_of_le hb hn), h.bnd, h.count⟩

theorem assignN_inv (c : Cfg) (v : VA) (n : Nat) (h : Inv c v) :
    ∃ v', assignN c.strat v n = some v' ∧ (v'.bufs c.mb = false → Inv c v') ∧ v'.size = n := by
  have h0 : Inv c { v with size := 0 } := h.size_le 0 (Nat.zero_le _)
  obtain ⟨r, hr, hsp, _⟩ := reserve_spec c { v with size := 0 } n h0.base
  refine ⟨{ r with size := n }, by unfold assignN; rw [hr]; rfl, ?_, rfl⟩
  intro hb
  refine ⟨hsp.base.congr rfl rfl rfl rfl rfl, ?_, hb, ?_⟩
  · intro b hbt
    have hbt' : trigAbs c.strat v.shift b < 0 + n := by
      have e : r.shift = v.shift := hsp.shift
      rw [Nat.zero_add, ← e]; exact hbt
    exact hsp.trig b (Nat.zero_le _) hbt'
  · show r.nalloc = r.nfree + 1 + (if c.table then 1 else 0) + cnt c.mb r.starts
    have := hsp.count c.mb (fun k hk => lt_of_bufs hsp.base.pre hb hk)
    have := h0.count
    rw [hsp.nfree]
    simp only [] at *
    omega

theorem pushOne_inv (c : Cfg) (v : VA) (h : Inv c v) :
    ∃ v', pushOne c.strat v = some v' ∧ (v'.bufs c.mb = false → Inv c v') ∧ v'.size = v.size + 1 := by
  have hcur := alloc_of_le h.base h.trig (Nat.le_refl v.size)
  have hb1 : (bucketAndSubIndex v.shift v.size).bucket = bk v.shift v.size := rfl
  have htrig : (bucketAndSubIndex v.shift v.size).bucketIndex
      = allocCheckIndex c.strat (bucketAndSubIndex v.shift v.size).bucketCapacity ↔
      v.size = trigAbs c.strat v.shift (bk v.shift v.size) := by
    unfold trigAbs; rw [bidx_eq, bcap_eq]
    have := bk_start_le v.shift v.size; omega
  unfold pushOne allocSingle
  by_cases hcond : (bucketAndSubIndex v.shift v.size).bucketIndex
      = allocCheckIndex c.strat (bucketAndSubIndex v.shift v.size).bucketCapacity ∧
      v.bufs ((bucketAndSubIndex v.shift v.size).bucket + 1) = false
  · simp only [hcond, and_self, if_true]
    obtain ⟨hc1, hc2⟩ := hcond
    rw [hb1] at hc2 ⊢
    have hne : bk v.shift v.size ≠ bk v.shift v.size + 1 := by omega
    simp only [setB_ne _ _ hne, hcur, if_true, Option.map_some]
    refine ⟨_, rfl, ?_, rfl⟩
    intro hb
    simp only [] at hb
    have hsB : v.starts (bk v.shift v.size + 1) = false := by
      cases hx : v.starts (bk v.shift v.size + 1) with
      | false => rfl
      | true => have := h.base.st_sub _ hx; rw [hc2] at this; cases this
    have hge2 : 2 ≤ bk v.shift v.size + 1 := by
      by_cases e : bk v.shift v.size = 0
      · rw [e] at hc2; rw [h.base.b1] at hc2; cases hc2
      · omega
    have hmb : bk v.shift v.size + 1 < c.mb := by
      by_cases e : bk v.shift v.size + 1 = c.mb
      · rw [← e] at hb; simp at hb
      · have hb' : v.bufs c.mb = false := h.bnd
        by_cases hlt : bk v.shift v.size + 1 < c.mb
        · exact hlt
        · exfalso
          have := pre_up_false h.base.pre (show c.mb ≤ bk v.shift v.size by omega) hb'
          rw [hcur] at this; cases this
    refine ⟨⟨?_, ?_, ?_, ?_, ?_, ?_, ?_, h.base.leaked0, h.base.bad0⟩, ?_, hb, ?_⟩
    · show setB v.bufs (bk v.shift v.size + 1) true 0 = true
      rw [setB_ne _ _ (by omega)]; exact h.base.b0
    · show setB v.bufs (bk v.shift v.size + 1) true 1 = true
      rw [setB_ne _ _ (by omega)]; exact h.base.b1
    · intro k hk
      show setB v.bufs (bk v.shift v.size + 1) true k = true
      have hk' : setB v.bufs (bk v.shift v.size + 1) true (k + 1) = true := hk
      simp only [setB_apply] at hk' ⊢
      by_cases e : k = bk v.shift v.size + 1
      · simp [e]
      · simp only [e, if_false]
        by_cases e2 : k + 1 = bk v.shift v.size + 1
        · have : k = bk v.shift v.size := by omega
          rw [this]; exact hcur
        · simp only [e2, if_false] at hk'; exact h.base.pre k hk'
    · intro k hk
      have hk' : setB v.starts (bk v.shift v.size + 1) true k = true := hk
      show setB v.bufs (bk v.shift v.size + 1) true k = true
      simp only [setB_apply] at hk' ⊢
      by_cases e : k = bk v.shift v.size + 1
      · simp [e]
      · simp only [e, if_false] at hk' ⊢; exact h.base.st_sub k hk'
    · show setB v.starts (bk v.shift v.size + 1) true 0 = false
      rw [setB_ne _ _ (by omega)]; exact h.base.st0
    · show setB v.starts (bk v.shift v.size + 1) true 1 = false
      rw [setB_ne _ _ (by omega)]; exact h.base.st1
    · intro k hk hkb
      have hkb' : setB v.bufs (bk v.shift v.size + 1) true k = true := hkb
      show setB v.flags (bk v.shift v.size + 1) true k = setB v.starts (bk v.shift v.size + 1) true k
      simp only [setB_apply] at hkb' ⊢
      by_cases e : k = bk v.shift v.size + 1
      · simp [e]
      · simp only [e, if_false] at hkb' ⊢; exact h.base.fl k hk hkb'
    · intro b hbt
      have hbt' : trigAbs c.strat v.shift b < v.size + 1 := hbt
      show setB v.bufs (bk v.shift v.size + 1) true (b + 1) = true
      simp only [setB_apply]
      by_cases e : b + 1 = bk v.shift v.size + 1
      · simp [e]
      · simp only [e, if_false]
        by_cases h1 : trigAbs c.strat v.shift b < v.size
        · exact h.trig b h1
        · exfalso
          have : trigAbs c.strat v.shift b = v.size := by omega
          have hbk := bk_trigAbs c.strat v.shift b
          rw [this] at hbk
          omega
    · show v.nalloc + 1 = v.nfree + 1 + (if c.table then 1 else 0) + cnt c.mb (setB v.starts (bk v.shift v.size + 1) true)
      have hc := cnt_setB c.mb v.starts (bk v.shift v.size + 1) true
      simp only [hmb, hsB, true_and, Bool.false_eq_true, if_false, if_true, Nat.add_zero] at hc
      have := h.count
      omega
  · simp only [if_neg hcond]
    simp only [hb1, hcur, if_true, Option.map_some]
    refine ⟨_, rfl, ?_, rfl⟩
    intro _
    refine ⟨h.base.congr rfl rfl rfl rfl rfl, ?_, h.bnd, h.count⟩
    intro b hbt
    have hbt' : trigAbs c.strat v.shift b < v.size + 1 := hbt
    show v.bufs (b + 1) = true
    by_cases h1 : trigAbs c.strat v.shift b < v.size
    · exact h.trig b h1
    · have e : trigAbs c.strat v.shift b = v.size := by omega
      have hbk := bk_trigAbs c.strat v.shift b
      rw [e] at hbk
      have h2 := htrig.2 (by rw [hbk]; exact e.symm)
      cases hx : v.bufs (b + 1) with
      | true => rfl
      | false =>
        exfalso; apply hcond
        refine ⟨h2, ?_⟩
        rw [hb1, hbk]; exact hx

/-- what `shrink_to_fit` does to a vector satisfying the invariant -/
theorem shrink_spec (c : Cfg) (v : VA) (h : Inv c v) :
    let r := shrinkToFit c.mb v
    let start := max 2 (bk v.shift v.size + 2)
    (∀ k, k < start → r.bufs k = v.bufs k ∧ r.starts k = v.starts k) ∧
    (∀ k, start ≤ k → r.bufs k = false ∧ r.starts k = false) ∧
    r.flags = v.flags ∧ r.shift = v.shift ∧ r.size = v.size ∧ r.leaked = v.leaked ∧ r.badFree = v.badFree ∧
    r.nalloc = v.nalloc ∧ r.elems = v.elems ∧ r.nfree + cnt c.mb r.starts = v.nfree + cnt c.mb v.starts := by
  unfold shrinkToFit
  have hb1 : (bucketAndSubIndex v.shift v.size).bucket = bk v.shift v.size := rfl
  rw [hb1]
  apply shrinkLoop_spec c.mb (c.mb - max 2 (bk v.shift v.size + 2)) (max 2 (bk v.shift v.size + 2)) v
    (Nat.le_max_left _ _) (fun k hk hkb => h.base.fl k (by have := Nat.le_max_left 2 (bk v.shift v.size + 2); omega) hkb)
    (fun k _ hkb => h.base.pre k hkb)
  · by_cases hle : max 2 (bk v.shift v.size + 2) ≤ c.mb
    · rw [show max 2 (bk v.shift v.size + 2) + (c.mb - max 2 (bk v.shift v.size + 2)) = c.mb by omega]
      exact h.bnd
    · exact pre_up_false h.base.pre (by omega) h.bnd
  · exact h.base.st_sub
  · exact fun k hk => h.lt_mb (h.base.st_sub k hk)

theorem shrink_inv (c : Cfg) (v : VA) (h : Inv c v) : Inv c (shrinkToFit c.mb v) := by
  have hs := shrink_spec c v h
  simp only [] at hs
  obtain ⟨r1, r2, r3, r4, r5, r6, r7, r8, r9, r10⟩ := hs
  generalize shrinkToFit c.mb v = r at *
  have hst : 2 ≤ max 2 (bk v.shift v.size + 2) := Nat.le_max_left _ _
  have hst2 : bk v.shift v.size + 2 ≤ max 2 (bk v.shift v.size + 2) := Nat.le_max_right _ _
  have hsub : ∀ k, r.bufs k = true → v.bufs k = true ∧ k < max 2 (bk v.shift v.size + 2) := by
    intro k hk
    by_cases hlt : k < max 2 (bk v.shift v.size + 2)
    · rw [(r1 k hlt).1] at hk; exact ⟨hk, hlt⟩
    · rw [(r2 k (by omega)).1] at hk; cases hk
  refine ⟨⟨?_, ?_, ?_, ?_, ?_, ?_, ?_, by rw [r6]; exact h.base.leaked0, by rw [r7]; exact h.base.bad0⟩, ?_, ?_, ?_⟩
  · rw [(r1 0 (by omega)).1]; exact h.base.b0
  · rw [(r1 1 (by omega)).1]; exact h.base.b1
  · intro k hk
    obtain ⟨h1, h2⟩ := hsub _ hk
    rw [(r1 k (by omega)).1]; exact h.base.pre k h1
  · intro k hk
    by_cases hlt : k < max 2 (bk v.shift v.size + 2)
    · rw [(r1 k hlt).2] at hk; rw [(r1 k hlt).1]; exact h.base.st_sub k hk
    · rw [(r2 k (by omega)).2] at hk; cases hk
  · rw [(r1 0 (by omega)).2]; exact h.base.st0
  · rw [(r1 1 (by omega)).2]; exact h.base.st1
  · intro k hk hkb
    obtain ⟨h1, h2⟩ := hsub _ hkb
    rw [r3, (r1 k h2).2]; exact h.base.fl k hk h1
  · intro b hbt
    rw [r4, r5] at hbt
    have hbk : b ≤ bk v.shift v.size := by
      have := bk_mono v.shift (Nat.le_of_lt hbt); rw [bk_trigAbs] at this; exact this
    rw [(r1 (b + 1) (by omega)).1]; exact h.trig b hbt
  · by_cases hlt : c.mb < max 2 (bk v.shift v.size + 2)
    · rw [(r1 _ hlt).1]; exact h.bnd
    · exact (r2 _ (by omega)).1
  · have := h.count; omega

/-- `capacity()` is exactly the number of indices that lie in allocated buckets -/
theorem capacity_iff (c : Cfg) (v : VA) (h : Inv c v) (hmb : 2 ≤ c.mb) (i : Nat) :
    i < capacity c.mb v ↔ v.bufs (bk v.shift i) = true := by
  unfold capacity
  have e : 2 * 2 ^ v.shift = bucketStart v.shift 2 := by
    have := bucketStart_succ v.shift 1
    rw [Nat.pow_succ] at this
    rw [show (2 : Nat) = 1 + 1 from rfl] at *
    omega
  rw [e]
  obtain ⟨K, h1, h2, h3, h4⟩ := capLoop_spec v.shift v.bufs h.base.pre (c.mb - 2) 2 (by omega)
    (by rw [show 2 + (c.mb - 2) = c.mb by omega]; exact h.bnd)
    (by
      intro k hk
      by_cases e : k = 0
      · subst e; exact h.base.b0
      · have : k = 1 := by omega
        subst this; exact h.base.b1)
  rw [h4]
  obtain ⟨K', rfl⟩ : ∃ K', K = K' + 1 := ⟨K - 1, by omega⟩
  constructor
  · intro hi
    exact h3 _ (by have := bk_le_of_lt hi; omega)
  · intro hb
    have hlt : bk v.shift i < K' + 1 := by
      by_cases hx : bk v.shift i < K' + 1
      · exact hx
      · have := pre_up_false h.base.pre (show K' + 1 ≤ bk v.shift i by omega) h2
        rw [hb] at this; cases this
    have h5 := bk_lt_next v.shift i
    have h6 := bucketStart_mono v.shift (show bk v.shift i + 1 ≤ K' + 1 by omega)
    omega

theorem clog2_spec (m : Nat) : m ≤ 2 ^ clog2 m := by
  unfold clog2
  by_cases h : m ≤ 1
  · simp only [h, if_true]
  · simp only [h, if_false]
    have := @Nat.lt_log2_self (m - 1)
    omega

theorem fresh_inv (c : Cfg) (hmb : 2 ≤ c.mb) (shift n : Nat) (hn : n ≤ 2 ^ shift) :
    Inv c { VA.fresh shift c.table with size := n } := by
  refine ⟨⟨rfl, rfl, ?_, ?_, rfl, rfl, ?_, rfl, rfl⟩, ?_, ?_, ?_⟩
  · intro b hb
    have hb' : decide (b + 1 < 2) = true := hb
    show decide (b < 2) = true
    simp only [decide_eq_true_eq] at hb' ⊢; omega
  · intro k hk; cases hk
  · intro b _ _; rfl
  · intro b hbt
    have hbt' : trigAbs c.strat shift b < n := hbt
    have h1 : trigAbs c.strat shift b < bucketStart shift 1 := by
      rw [show (1 : Nat) = 0 + 1 from rfl, bucketStart_succ]; simpa using Nat.lt_of_lt_of_le hbt' hn
    have := bk_le_of_lt h1
    rw [bk_trigAbs] at this
    have : b = 0 := by omega
    subst this; rfl
  · show decide (c.mb < 2) = false
    simp only [decide_eq_false_iff_not]; omega
  · show 1 + (if c.table then 1 else 0) = 0 + 1 + (if c.table then 1 else 0) + cnt c.mb (fun _ => false)
    rw [cnt_false]; omega

theorem construct_inv (c : Cfg) (hmb : 2 ≤ c.mb) (n : Nat) : Inv c (construct c n) := by
  unfold construct
  apply fresh_inv c hmb
  unfold ctorShift
  exact Nat.le_trans (Nat.le_max_left _ _) (clog2_spec _)

/-- the destructor frees every block: as many frees as allocations, nothing leaked or freed twice -/
theorem destroy_balanced (c : Cfg) (v : VA) (h : Inv c v) :
    (destroyVA c v).nalloc = (destroyVA c v).nfree ∧ (destroyVA c v).leaked = 0 ∧
      (destroyVA c v).badFree = 0 ∧ ∀ k, (destroyVA c v).starts k = false := by
  have h0 : Inv c { v with size := 0 } := h.size_le 0 (Nat.zero_le _)
  have hs := shrink_spec c _ h0
  simp only [] at hs
  obtain ⟨r1, r2, r3, r4, r5, r6, r7, r8, r9, r10⟩ := hs
  have hst : max 2 (bk v.shift 0 + 2) = 2 := by rw [bk_zero]; rfl
  rw [hst] at r1 r2
  unfold destroyVA
  generalize shrinkToFit c.mb { v with size := 0 } = r at *
  have hall : ∀ k, r.starts k = false := by
    intro k
    by_cases hk : k < 2
    · rw [(r1 k hk).2]
      by_cases e : k = 0
      · subst e; exact h.base.st0
      · have : k = 1 := by omega
        subst this; exact h.base.st1
    · exact (r2 k (by omega)).2
  refine ⟨?_, ?_, ?_, hall⟩
  · show r.nalloc = r.nfree + 1 + (if c.table then 1 else 0)
    have hc : cnt c.mb r.starts = 0 := by
      rw [cnt_congr c.mb r.starts (fun _ => false) (fun k _ => hall k), cnt_false]
    have := h0.count
    simp only [] at this r8 r10
    omega
  · show r.leaked = 0
    rw [r6]; exact h.base.leaked0
  · show r.badFree = 0
    rw [r7]; exact h.base.bad0

/-! ### every operation keeps the invariant and never hangs -/

/-- an outcome is good: not a hang, and a resulting vector satisfies the invariant -/
def Res.good (c : Cfg) : Res → Prop
  | .ok v => Inv c v
  | .hang => False
  | .reject => True

theorem bound_ok (c : Cfg) (w : VA) : bound c (.ok w) = if w.bufs c.mb then .reject else .ok w := rfl
theorem bound_reject (c : Cfg) : bound c .reject = .reject := rfl
theorem bound_hang (c : Cfg) : bound c .hang = .hang := rfl

theorem good_bound_ok (c : Cfg) (w : VA) (h : Inv c w) : Res.good c (bound c (.ok w)) := by
  rw [bound_ok, h.bnd]; exact h

theorem good_bound_opt (c : Cfg) (x : Option VA) (w : VA) (hx : x = some w)
    (hinv : w.bufs c.mb = false → Inv c w) : Res.good c (bound c (ofOpt x)) := by
  subst hx
  show Res.good c (bound c (.ok w))
  rw [bound_ok]
  cases hb : w.bufs c.mb with
  | true => exact True.intro
  | false => exact hinv hb

theorem good_grow (c : Cfg) (v : VA) (n : Nat) (h : Inv c v) :
    Res.good c (bound c (ofOpt (growRange c.strat v n))) := by
  obtain ⟨w, hw, hinv, _⟩ := growRange_inv c v n h
  exact good_bound_opt c _ w hw hinv

theorem good_push (c : Cfg) (v : VA) (h : Inv c v) : Res.good c (bound c (ofOpt (pushOne c.strat v))) := by
  obtain ⟨w, hw, hinv, _⟩ := pushOne_inv c v h
  exact good_bound_opt c _ w hw hinv

theorem good_assign (c : Cfg) (v : VA) (n : Nat) (h : Inv c v) :
    Res.good c (bound c (ofOpt (assignN c.strat v n))) := by
  obtain ⟨w, hw, hinv, _⟩ := assignN_inv c v n h
  exact good_bound_opt c _ w hw hinv

theorem good_reserve (c : Cfg) (v : VA) (n : Nat) (h : Inv c v) :
    Res.good c (bound c (ofOpt (reserve c.strat v n))) := by
  obtain ⟨w, hw, hinv, _⟩ := reserve_inv c v n h
  exact good_bound_opt c _ w hw hinv

theorem good_reject (c : Cfg) : Res.good c (bound c .reject) := True.intro

theorem vaOp_good (c : Cfg) (v : VA) (op : Op) (h : Inv c v) : Res.good c (vaOp c v op) := by
  unfold vaOp
  cases op with
  | mk => exact good_reject c
  | mkSize n => exact good_reject c
  | mkSizeVal n x => exact good_reject c
  | mkRange xs => exact good_reject c
  | copyCtor src => exact good_reject c
  | moveCtor src => exact good_reject c
  | assign o n x => exact good_assign c v n h
  | assignRange o xs => exact good_assign c v _ h
  | pushBack o x => exact good_push c v h
  | growBy o n => exact good_grow c v n h
  | growByVal o n x => exact good_grow c v n h
  | growByRange o xs => exact good_grow c v _ h
  | growToAtLeast o n =>
    simp only [vaOp0]
    split
    · exact good_grow c v _ h
    · split
      · exact good_reject c
      · exact good_bound_ok c v h
  | growToAtLeastVal o n x =>
    simp only [vaOp0]
    split
    · exact good_grow c v _ h
    · split
      · exact good_reject c
      · exact good_bound_ok c v h
  | insert1 o idx x =>
    simp only [vaOp0]
    split
    · exact good_push c v h
    · exact good_reject c
  | insertN o idx n x =>
    simp only [vaOp0]
    split
    · exact good_grow c v _ h
    · exact good_reject c
  | insertRange o idx xs =>
    simp only [vaOp0]
    split
    · exact good_grow c v _ h
    · exact good_reject c
  | erase1 o idx =>
    simp only [vaOp0]
    split
    · exact good_bound_ok c _ (h.size_le _ (by omega))
    · split
      · exact good_bound_ok c v h
      · exact good_reject c
  | eraseRange o i j =>
    simp only [vaOp0]
    split
    · exact good_bound_ok c _ (h.size_le _ (by omega))
    · exact good_reject c
  | resize o n =>
    simp only [vaOp0]
    split
    · exact good_grow c v _ h
    · exact good_bound_ok c _ (h.size_le _ (by omega))
  | resizeVal o n x =>
    simp only [vaOp0]
    split
    · exact good_grow c v _ h
    · exact good_bound_ok c _ (h.size_le _ (by omega))
  | reserve o n => exact good_reserve c v n h
  | popBack o =>
    simp only [vaOp0]
    split
    · exact good_reject c
    · exact good_bound_ok c _ (h.size_le _ (by omega))
  | clear o => exact good_bound_ok c _ (h.size_le 0 (Nat.zero_le _))
  | shrinkToFit o => exact good_bound_ok c _ (shrink_inv c v h)
  | copyAssign dst src => exact good_reject c
  | moveAssign dst src => exact good_reject c
  | swap a b => exact good_reject c
  | destroy o => exact good_reject c
  | query o => exact good_bound_ok c v h
  | cmp a b => exact good_reject c

/-! ### the pool -/

def PInv (c : Cfg) (s : St) : Prop :=
  (∀ p ∈ s.vecs, Inv c p.2) ∧ s.gAlloc = s.gFree ∧ s.gLeaked = 0 ∧ s.gBadFree = 0

theorem get_mem {s : St} {o : Nat} {v : VA} (h : get s o = some v) : ∃ p ∈ s.vecs, p.2 = v := by
  unfold get at h
  obtain ⟨p, hp, rfl⟩ := Option.map_eq_some_iff.1 h
  exact ⟨p, List.mem_of_find?_eq_some hp, rfl⟩

theorem PInv.get {c : Cfg} {s : St} (h : PInv c s) {o : Nat} {v : VA} (hg : get s o = some v) : Inv c v := by
  obtain ⟨p, hp, rfl⟩ := get_mem hg
  exact h.1 p hp

theorem PInv.put {c : Cfg} {s : St} (h : PInv c s) (o : Nat) {v : VA} (hv : Inv c v) : PInv c (put s o v) := by
  refine ⟨?_, h.2⟩
  intro p hp
  unfold ConVecAlloc.put at hp
  obtain ⟨q, hq, rfl⟩ := List.mem_map.1 hp
  by_cases e : q.1 = o
  · simp only [e, if_true]; exact hv
  · simp only [e, if_false]; exact h.1 q hq

theorem PInv.add {c : Cfg} {s : St} (h : PInv c s) {v : VA} (hv : Inv c v) : PInv c (add s v) := by
  refine ⟨?_, h.2⟩
  intro p hp
  unfold ConVecAlloc.add at hp
  rcases List.mem_append.1 hp with hp | hp
  · exact h.1 p hp
  · rw [List.mem_singleton] at hp; subst hp; exact hv

theorem PInv.init (c : Cfg) : PInv c St.init := by
  refine ⟨?_, rfl, rfl, rfl⟩
  intro p hp
  exact absurd hp List.not_mem_nil

theorem copyAssign_good (c : Cfg) (d : VA) (n : Nat) (h : Inv c d) : Res.good c (copyAssignVA c d n) :=
  good_assign c d n h

theorem step_inv (c : Cfg) (hmb : 2 ≤ c.mb) (s : St) (op : Op) (h : PInv c s) :
    PInv c (step c s op).1 ∧ (step c s op).2.2 = false := by
  unfold step
  split
  · rename_i o _
    split
    · exact ⟨h, rfl⟩
    · rename_i v hg
      have hv := h.get hg
      have hgood := vaOp_good c v op hv
      split
      · rename_i v' hv'
        rw [hv'] at hgood
        exact ⟨h.put o hgood, rfl⟩
      · rename_i hv'
        rw [hv'] at hgood; exact absurd hgood id
      · exact ⟨h, rfl⟩
  · split
    · exact ⟨h.add (construct_inv c hmb 0), rfl⟩
    · exact ⟨h.add (construct_inv c hmb _), rfl⟩
    · exact ⟨h.add (construct_inv c hmb _), rfl⟩
    · exact ⟨h.add (construct_inv c hmb _), rfl⟩
    · split
      · exact ⟨h.add (construct_inv c hmb _), rfl⟩
      · exact ⟨h, rfl⟩
    · split
      · rename_i v hg
        refine ⟨PInv.add (PInv.put h _ ?_) (h.get hg), rfl⟩
        exact fresh_inv c hmb v.shift 0 (Nat.zero_le _)
      · exact ⟨h, rfl⟩
    · split
      · rename_i d v hd hv
        split
        · exact ⟨h, rfl⟩
        · have hgood := copyAssign_good c d v.size (h.get hd)
          split
          · rename_i d' hd'
            rw [hd'] at hgood
            exact ⟨h.put _ hgood, rfl⟩
          · rename_i hd'
            rw [hd'] at hgood; exact absurd hgood id
          · exact ⟨h, rfl⟩
      · exact ⟨h, rfl⟩
    · split
      · rename_i d v hd hv
        split
        · exact ⟨h, rfl⟩
        · exact ⟨PInv.put (h.put _ (h.get hv)) _ ((h.get hd).size_le 0 (Nat.zero_le _)), rfl⟩
      · exact ⟨h, rfl⟩
    · split
      · rename_i va vb ha hb
        split
        · exact ⟨h, rfl⟩
        · exact ⟨PInv.put (h.put _ (h.get hb)) _ (h.get ha), rfl⟩
      · exact ⟨h, rfl⟩
    · split
      · rename_i v hg
        have hd := destroy_balanced c v (h.get hg)
        refine ⟨⟨?_, ?_, ?_, ?_⟩, rfl⟩
        · intro p hp
          exact h.1 p (List.mem_filter.1 hp).1
        · show s.gAlloc + _ = s.gFree + _
          rw [h.2.1, hd.1]
        · show s.gLeaked + _ = 0
          rw [h.2.2.1, hd.2.1]
        · show s.gBadFree + _ = 0
          rw [h.2.2.2, hd.2.2.1]
      · exact ⟨h, rfl⟩
    · split
      · exact ⟨h, rfl⟩
      · exact ⟨h, rfl⟩
    · exact ⟨h, rfl⟩

theorem runOps_inv (c : Cfg) (hmb : 2 ≤ c.mb) (ops : List Op) : ∀ s, PInv c s → PInv c (runOps c s ops) := by
  induction ops with
  | nil => intro s h; exact h
  | cons o os ih => intro s h; exact ih _ (step_inv c hmb s o h).1

end Dispenso.ConVecAlloc
