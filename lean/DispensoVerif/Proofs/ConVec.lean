import DispensoVerif.Model.ConVec

/-! Helper lemmas for C32 (`ConcurrentVector`, used sequentially): the bucket layout arithmetic,
association-list facts about `get`/`put`/`add`, the sum of the sizes over the pool, a projection
form `stepSt` of the state component of `step`, the id invariant `WF` and the ledger invariant
`Led` with their preservation. -/
namespace Dispenso.ConVec

/-! ### bucket layout -/

theorem two_pow_succ (n : Nat) : 2 ^ (n + 1) = 2 ^ n + 2 ^ n := by
  rw [Nat.pow_succ]; omega

theorem log2_add (m j : Nat) (hj : j < 2 ^ m) : Nat.log2 (2 ^ m + j) = m := by
  have hpos : 0 < 2 ^ m := Nat.pow_pos (by decide)
  rw [Nat.log2_eq_iff (by omega)]
  rw [two_pow_succ]
  omega

/-- facts about `log2 index` for an index outside the first bucket -/
theorem log2_facts (s index : Nat) (h : ¬ index < 2 ^ s) :
    s ≤ Nat.log2 index ∧ 2 ^ Nat.log2 index ≤ index ∧
      index < 2 ^ Nat.log2 index + 2 ^ Nat.log2 index := by
  have hpos : 0 < 2 ^ s := Nat.pow_pos (by decide)
  have h0 : index ≠ 0 := by omega
  refine ⟨(Nat.le_log2 h0).2 (by omega), Nat.log2_self_le h0, ?_⟩
  have := @Nat.lt_log2_self index
  rw [two_pow_succ] at this
  exact this

theorem sub_lt_cap (s index : Nat) :
    (bucketAndSubIndex s index).bucketIndex < (bucketAndSubIndex s index).bucketCapacity := by
  unfold bucketAndSubIndex
  by_cases h : index < 2 ^ s
  · simp only [h, if_true]
  · simp only [h, if_false]
    obtain ⟨_, h2, h3⟩ := log2_facts s index h
    omega

theorem index_decomp (s index : Nat) :
    bucketStart s (bucketAndSubIndex s index).bucket + (bucketAndSubIndex s index).bucketIndex
      = index := by
  unfold bucketAndSubIndex bucketStart
  by_cases h : index < 2 ^ s
  · simp only [h, if_true]; omega
  · simp only [h, if_false]
    obtain ⟨h1, h2, h3⟩ := log2_facts s index h
    have e : s + (Nat.log2 index + 1 - s) - 1 = Nat.log2 index := by omega
    rw [if_neg (by omega), e]
    omega

theorem cap_eq (s index : Nat) :
    (bucketAndSubIndex s index).bucketCapacity = bucketCap s (bucketAndSubIndex s index).bucket := by
  unfold bucketAndSubIndex bucketCap
  by_cases h : index < 2 ^ s
  · simp only [h, if_true]
  · simp only [h, if_false]
    obtain ⟨h1, h2, h3⟩ := log2_facts s index h
    have e : s + (Nat.log2 index + 1 - s) - 1 = Nat.log2 index := by omega
    rw [if_neg (by omega), e]

theorem bucket_inverse (s k j : Nat) (hj : j < bucketCap s k) :
    bucketAndSubIndex s (bucketStart s k + j) = ⟨k, j, bucketCap s k⟩ := by
  unfold bucketCap at hj ⊢
  unfold bucketStart bucketAndSubIndex
  by_cases hk : k = 0
  · subst hk
    simp only [if_true] at hj ⊢
    simp only [Nat.zero_add, hj, if_true]
  · simp only [hk, if_false] at hj ⊢
    have hle : 2 ^ s ≤ 2 ^ (s + k - 1) := Nat.pow_le_pow_right (by decide) (by omega)
    have hnot : ¬ 2 ^ (s + k - 1) + j < 2 ^ s := by omega
    simp only [hnot, if_false]
    rw [log2_add _ _ hj]
    have e : s + k - 1 + 1 - s = k := by omega
    rw [e, Nat.add_sub_cancel_left]

theorem buckets_tile (s k : Nat) : bucketStart s (k + 1) = bucketStart s k + bucketCap s k := by
  unfold bucketStart bucketCap
  by_cases hk : k = 0
  · subst hk; simp
  · simp only [hk, if_false, Nat.add_one_ne_zero]
    have e : s + (k + 1) - 1 = (s + k - 1) + 1 := by omega
    rw [e, two_pow_succ]

/-! ### raw pool lemmas -/

abbrev Pool := List (Nat × List Int)

/-- lookup in a raw pool -/
def lk (l : Pool) (o : Nat) : Option (List Int) := (l.find? (·.1 = o)).map (·.2)

/-- overwrite in a raw pool -/
def pupd (l : Pool) (o : Nat) (v : List Int) : Pool := l.map fun p => if p.1 = o then (p.1, v) else p

/-- sum of the sizes over a raw pool -/
def wsum (l : Pool) : Int := (l.map fun p => (p.2.length : Int)).sum

theorem get_eq (s : St) (o : Nat) : get s o = lk s.vecs o := rfl
@[simp] theorem put_vecs (s : St) (o : Nat) (v : List Int) : (put s o v).vecs = pupd s.vecs o v := rfl
@[simp] theorem put_live (s : St) (o : Nat) (v : List Int) : (put s o v).live = s.live := rfl
@[simp] theorem put_next (s : St) (o : Nat) (v : List Int) : (put s o v).next = s.next := rfl
@[simp] theorem add_vecs (s : St) (v : List Int) : (add s v).vecs = s.vecs ++ [(s.next, v)] := rfl
@[simp] theorem add_live (s : St) (v : List Int) : (add s v).live = s.live := rfl
@[simp] theorem add_next (s : St) (v : List Int) : (add s v).next = s.next + 1 := rfl

@[simp] theorem lk_nil (o : Nat) : lk [] o = none := rfl
theorem lk_cons (p : Nat × List Int) (t : Pool) (o : Nat) :
    lk (p :: t) o = if p.1 = o then some p.2 else lk t o := by
  unfold lk
  by_cases h : p.1 = o <;> simp [h]

@[simp] theorem pupd_nil (o : Nat) (c : List Int) : pupd [] o c = [] := rfl
theorem pupd_cons (p : Nat × List Int) (t : Pool) (o : Nat) (c : List Int) :
    pupd (p :: t) o c = (if p.1 = o then (p.1, c) else p) :: pupd t o c := rfl

@[simp] theorem wsum_nil : wsum [] = 0 := rfl
theorem wsum_cons (p : Nat × List Int) (t : Pool) :
    wsum (p :: t) = (p.2.length : Int) + wsum t := by
  unfold wsum; simp

theorem wsum_append (l₁ l₂ : Pool) : wsum (l₁ ++ l₂) = wsum l₁ + wsum l₂ := by
  induction l₁ with
  | nil => simp
  | cons p t ih => rw [List.cons_append, wsum_cons, wsum_cons, ih]; omega

theorem wsum_single (n : Nat) (v : List Int) : wsum [(n, v)] = (v.length : Int) := by
  rw [wsum_cons]; simp

theorem pupd_ids (l : Pool) (o : Nat) (c : List Int) :
    (pupd l o c).map Prod.fst = l.map Prod.fst := by
  induction l with
  | nil => rfl
  | cons p t ih =>
    rw [pupd_cons, List.map_cons, List.map_cons, ih]
    by_cases h : p.1 = o <;> simp [h]

theorem lk_none_iff (l : Pool) (o : Nat) : lk l o = none ↔ o ∉ l.map Prod.fst := by
  induction l with
  | nil => simp
  | cons p t ih =>
    rw [lk_cons]
    by_cases h : p.1 = o
    · simp [h]
    · simp only [h, if_false, ih, List.map_cons, List.mem_cons, not_or]
      exact ⟨fun h' => ⟨fun e => h e.symm, h'⟩, fun h' => h'.2⟩

theorem pupd_of_not_mem (l : Pool) (o : Nat) (c : List Int) (h : o ∉ l.map Prod.fst) :
    pupd l o c = l := by
  induction l with
  | nil => rfl
  | cons p t ih =>
    simp only [List.map_cons, List.mem_cons, not_or] at h
    rw [pupd_cons, ih h.2, if_neg (fun e => h.1 e.symm)]

theorem lk_pupd_self (l : Pool) (o : Nat) (c : List Int) :
    lk (pupd l o c) o = (lk l o).map fun _ => c := by
  induction l with
  | nil => rfl
  | cons p t ih =>
    rw [pupd_cons, lk_cons, lk_cons]
    by_cases h : p.1 = o <;> simp [h, ih]

theorem lk_pupd_ne (l : Pool) (o o' : Nat) (c : List Int) (hne : o' ≠ o) :
    lk (pupd l o c) o' = lk l o' := by
  induction l with
  | nil => rfl
  | cons p t ih =>
    rw [pupd_cons, lk_cons, lk_cons, ih]
    by_cases h : p.1 = o
    · simp [h, Ne.symm hne]
    · simp [h]

theorem lk_append (l₁ l₂ : Pool) (o : Nat) :
    lk (l₁ ++ l₂) o = (lk l₁ o).or (lk l₂ o) := by
  induction l₁ with
  | nil => simp
  | cons p t ih =>
    rw [List.cons_append, lk_cons, lk_cons, ih]
    by_cases h : p.1 = o <;> simp [h]

theorem lk_filter (l : Pool) (o o' : Nat) :
    lk (l.filter (·.1 ≠ o)) o' = if o' = o then none else lk l o' := by
  induction l with
  | nil => simp
  | cons p t ih =>
    by_cases h : p.1 = o
    · rw [List.filter_cons_of_neg (by simp [h]), ih, lk_cons]
      by_cases h' : o' = o
      · simp [h']
      · have : ¬ p.1 = o' := fun e => h' (e.symm.trans h)
        simp [h', this]
    · rw [List.filter_cons_of_pos (by simp [h]), lk_cons, lk_cons, ih]
      by_cases h' : o' = o
      · simp [h', h]
      · simp [h']

theorem filter_of_not_mem (l : Pool) (o : Nat) (h : o ∉ l.map Prod.fst) :
    l.filter (·.1 ≠ o) = l := by
  induction l with
  | nil => rfl
  | cons p t ih =>
    simp only [List.map_cons, List.mem_cons, not_or] at h
    rw [List.filter_cons_of_pos (by simpa using fun e => h.1 e.symm), ih h.2]

/-- effect of overwriting the (unique) vector `o` on the sum of the sizes -/
theorem wsum_pupd (l : Pool) (o : Nat) (c d : List Int)
    (hn : (l.map Prod.fst).Nodup) (hd : lk l o = some d) :
    wsum (pupd l o c) = wsum l - (d.length : Int) + (c.length : Int) := by
  induction l with
  | nil => simp at hd
  | cons p t ih =>
    rw [List.map_cons, List.nodup_cons] at hn
    rw [lk_cons] at hd
    rw [pupd_cons, wsum_cons, wsum_cons]
    by_cases h : p.1 = o
    · simp only [h, if_true, Option.some.injEq] at hd
      rw [pupd_of_not_mem t o c (h ▸ hn.1), if_pos h, hd]
      simp only
      omega
    · simp only [h, if_false] at hd
      rw [ih hn.2 hd, if_neg h]
      omega

/-- effect of removing the (unique) vector `o` on the sum of the sizes -/
theorem wsum_filter (l : Pool) (o : Nat) (d : List Int)
    (hn : (l.map Prod.fst).Nodup) (hd : lk l o = some d) :
    wsum (l.filter (·.1 ≠ o)) = wsum l - (d.length : Int) := by
  induction l with
  | nil => simp at hd
  | cons p t ih =>
    rw [List.map_cons, List.nodup_cons] at hn
    rw [lk_cons] at hd
    by_cases h : p.1 = o
    · simp only [h, if_true, Option.some.injEq] at hd
      rw [List.filter_cons_of_neg (by simp [h]), filter_of_not_mem t o (h ▸ hn.1), wsum_cons, hd]
      omega
    · simp only [h, if_false] at hd
      rw [List.filter_cons_of_pos (by simp [h]), wsum_cons, wsum_cons, ih hn.2 hd]
      omega

theorem totalItems_eq (s : St) : totalItems s = wsum s.vecs := rfl

/-! ### the state component of `step`, in projection form -/

/-- the state after `upd` -/
def updSt (s : St) (o : Nat) (old v : List Int) : St :=
  put { s with live := s.live - old.length + v.length } o v

theorem upd_fst (s : St) (o : Nat) (old v : List Int) (pos : Int) :
    (upd s o old v pos).1 = updSt s o old v := rfl

theorem upd_snd (s : St) (o : Nat) (old v : List Int) (pos : Int) :
    (upd s o old v pos).2 = outOf (updSt s o old v) v pos := rfl

/-- a single-vector operation: the new contents as a function of the old ones (`none`: no change) -/
def one (s : St) (o : Nat) (f : List Int → Option (List Int)) : St :=
  match get s o with
  | some old =>
    match f old with
    | some v => updSt s o old v
    | none => s
  | none => s

def stepSt (s : St) : Op → St
  | .mk => add s []
  | .mkSize n => add { s with live := s.live + n } (List.replicate n 0)
  | .mkSizeVal n x => add { s with live := s.live + n } (List.replicate n x)
  | .mkRange xs => add { s with live := s.live + xs.length } xs
  | .copyCtor src =>
    match get s src with
    | some v => add { s with live := s.live + v.length } v
    | none => s
  | .moveCtor src =>
    match get s src with
    | some v => add (put s src []) v
    | none => s
  | .assign o n x => one s o fun _ => some (List.replicate n x)
  | .assignRange o xs => one s o fun _ => some xs
  | .pushBack o x => one s o fun old => some (old ++ [x])
  | .growBy o n => one s o fun old => some (old ++ List.replicate n 0)
  | .growByVal o n x => one s o fun old => some (old ++ List.replicate n x)
  | .growByRange o xs => one s o fun old => some (old ++ xs)
  | .growToAtLeast o n => one s o fun old =>
      if old.length < n then some (old ++ List.replicate (n - old.length) 0) else none
  | .growToAtLeastVal o n x => one s o fun old =>
      if old.length < n then some (old ++ List.replicate (n - old.length) x) else none
  | .insert1 o idx x => one s o fun old =>
      if idx ≤ old.length then some (old.take idx ++ [x] ++ old.drop idx) else none
  | .insertN o idx n x => one s o fun old =>
      if idx ≤ old.length then some (old.take idx ++ List.replicate n x ++ old.drop idx) else none
  | .insertRange o idx xs => one s o fun old =>
      if idx ≤ old.length then some (old.take idx ++ xs ++ old.drop idx) else none
  | .erase1 o idx => one s o fun old =>
      if idx < old.length then some (old.eraseIdx idx) else none
  | .eraseRange o i j => one s o fun old =>
      if i ≤ j ∧ j ≤ old.length then some (old.take i ++ old.drop j) else none
  | .resize o n => one s o fun old =>
      if old.length < n then some (old ++ List.replicate (n - old.length) 0) else some (old.take n)
  | .resizeVal o n x => one s o fun old =>
      if old.length < n then some (old ++ List.replicate (n - old.length) x) else some (old.take n)
  | .reserve _ _ => s
  | .popBack o => one s o fun old => if old = [] then none else some old.dropLast
  | .clear o => one s o fun _ => some []
  | .shrinkToFit _ => s
  | .copyAssign dst src =>
    match get s dst, get s src with
    | some d, some v => if dst = src then s else updSt s dst d v
    | _, _ => s
  | .moveAssign dst src =>
    match get s dst, get s src with
    | some d, some v =>
      if dst = src then s else put (put { s with live := s.live - d.length } dst v) src []
    | _, _ => s
  | .swap a b =>
    match get s a, get s b with
    | some va, some vb => if a = b then s else put (put s a vb) b va
    | _, _ => s
  | .destroy o =>
    match get s o with
    | some old => { s with vecs := s.vecs.filter (·.1 ≠ o), live := s.live - old.length }
    | none => s
  | .query _ => s
  | .cmp _ _ => s

theorem step_fst (s : St) (op : Op) : (step s op).1 = stepSt s op := by
  cases op with
  | mk => rfl
  | mkSize n => rfl
  | mkSizeVal n x => rfl
  | mkRange xs => rfl
  | copyAssign dst src =>
    simp only [step, stepSt]
    cases get s dst <;> cases get s src <;> (try rfl)
    simp only []; split <;> rfl
  | moveAssign dst src =>
    simp only [step, stepSt]
    cases get s dst <;> cases get s src <;> (try rfl)
    simp only []; split <;> rfl
  | swap a b =>
    simp only [step, stepSt]
    cases get s a <;> cases get s b <;> (try rfl)
    simp only []; split <;> rfl
  | cmp a b =>
    simp only [step, stepSt]
    cases get s a <;> cases get s b <;> rfl
  | copyCtor src => simp only [step, stepSt]; cases get s src <;> rfl
  | moveCtor src => simp only [step, stepSt]; cases get s src <;> rfl
  | destroy o => simp only [step, stepSt]; cases get s o <;> rfl
  | query o => simp only [step, stepSt]; cases get s o <;> rfl
  | reserve o n => simp only [step, stepSt]; cases get s o <;> rfl
  | shrinkToFit o => simp only [step, stepSt]; cases get s o <;> rfl
  | _ =>
    simp only [step, stepSt, one]
    cases get s _ <;> (try rfl)
    all_goals simp only []
    all_goals repeat' split
    all_goals first | rfl | (subst_vars; rfl) | (simp_all [upd_fst]; done)

theorem runOps_cons (s : St) (o : Op) (os : List Op) :
    runOps s (o :: os) = runOps (stepSt s o) os := by
  rw [runOps, step_fst]

/-! ### id-uniqueness invariant -/

structure WFp (l : Pool) (n : Nat) : Prop where
  nodup : (l.map Prod.fst).Nodup
  lt : ∀ p ∈ l, p.1 < n

/-- ids are unique and below `next` -/
@[reducible] def WF (s : St) : Prop := WFp s.vecs s.next

theorem WFp.not_mem {l : Pool} {n : Nat} (h : WFp l n) : n ∉ l.map Prod.fst := by
  intro hm
  obtain ⟨p, hp, e⟩ := List.mem_map.1 hm
  have := h.lt p hp
  omega

theorem WFp.pres_upd {l : Pool} {n : Nat} (h : WFp l n) (o : Nat) (v : List Int) :
    WFp (pupd l o v) n := by
  constructor
  · rw [pupd_ids]; exact h.nodup
  · intro p hp
    have : p.1 ∈ (pupd l o v).map Prod.fst := List.mem_map.2 ⟨p, hp, rfl⟩
    rw [pupd_ids] at this
    obtain ⟨q, hq, e⟩ := List.mem_map.1 this
    rw [← e]; exact h.lt q hq

theorem WFp.pres_app {l : Pool} {n : Nat} (h : WFp l n) (v : List Int) :
    WFp (l ++ [(n, v)]) (n + 1) := by
  constructor
  · simp only [List.map_append, List.map_cons, List.map_nil]
    rw [List.nodup_append]
    refine ⟨h.nodup, by simp, ?_⟩
    intro a ha b hb e
    simp only [List.mem_singleton] at hb
    subst hb; subst e
    exact h.not_mem ha
  · intro p hp
    simp only [List.mem_append, List.mem_singleton] at hp
    rcases hp with hp | hp
    · have := h.lt p hp; omega
    · subst hp; simp

theorem WFp.pres_filter {l : Pool} {n : Nat} (h : WFp l n) (o : Nat) :
    WFp (l.filter (·.1 ≠ o)) n := by
  constructor
  · exact (List.filter_sublist.map Prod.fst).nodup h.nodup
  · intro p hp
    exact h.lt p (List.mem_filter.1 hp).1

theorem WF.init : WF St.init := ⟨by simp [St.init], by simp [St.init]⟩

theorem WF.get_next {s : St} (h : WF s) : get s s.next = none :=
  (lk_none_iff _ _).2 h.not_mem

theorem WF.pres_one {s : St} (h : WF s) (o : Nat) (f : List Int → Option (List Int)) :
    WF (one s o f) := by
  unfold one
  split
  · split
    · exact h.pres_upd _ _
    · exact h
  · exact h

theorem WF.pres_stepSt {s : St} (h : WF s) (op : Op) : WF (stepSt s op) := by
  cases op <;> simp only [stepSt] <;> (try split) <;> (try split) <;>
    first
    | exact h
    | exact h.pres_one _ _
    | exact h.pres_upd _ _
    | exact h.pres_app _
    | exact (h.pres_upd _ _).pres_app _
    | exact (h.pres_upd _ _).pres_upd _ _
    | exact h.pres_filter _

theorem WF.pres_runOps {s : St} (h : WF s) (ops : List Op) : WF (runOps s ops) := by
  induction ops generalizing s with
  | nil => exact h
  | cons o os ih => rw [runOps_cons]; exact ih (h.pres_stepSt o)

/-! ### `get` after the primitive updates -/

theorem get_put_self (s : St) (o : Nat) (v : List Int) :
    get (put s o v) o = (get s o).map fun _ => v := by
  rw [get_eq, put_vecs, lk_pupd_self, get_eq]

theorem get_put_ne (s : St) (o o' : Nat) (v : List Int) (h : o' ≠ o) :
    get (put s o v) o' = get s o' := by
  rw [get_eq, put_vecs, lk_pupd_ne _ _ _ _ h, get_eq]

theorem get_add (s : St) (v : List Int) (o : Nat) :
    get (add s v) o = (get s o).or (if s.next = o then some v else none) := by
  rw [get_eq, get_eq, add_vecs, lk_append, lk_cons, lk_nil]

theorem get_add_next {s : St} (h : WF s) (v : List Int) : get (add s v) s.next = some v := by
  rw [get_add, h.get_next]; simp

theorem get_add_ne (s : St) (v : List Int) (o : Nat) (h : o ≠ s.next) :
    get (add s v) o = get s o := by
  rw [get_add, if_neg (Ne.symm h)]; simp

theorem get_congr {s s' : St} (h : s'.vecs = s.vecs) (o : Nat) : get s' o = get s o := by
  rw [get_eq, get_eq, h]

theorem get_updSt_self (s : St) (o : Nat) (old v : List Int) (h : get s o = some old) :
    get (updSt s o old v) o = some v := by
  unfold updSt
  rw [get_put_self]
  show Option.map (fun _ => v) (get s o) = some v
  rw [h]; rfl

theorem get_updSt_ne (s : St) (o o' : Nat) (old v : List Int) (h : o' ≠ o) :
    get (updSt s o old v) o' = get s o' := by
  unfold updSt
  rw [get_put_ne _ _ _ _ h]; rfl

theorem get_one_ne (s : St) (o o' : Nat) (f : List Int → Option (List Int)) (h : o' ≠ o) :
    get (one s o f) o' = get s o' := by
  unfold one
  split
  · split
    · exact get_updSt_ne _ _ _ _ _ h
    · rfl
  · rfl

/-! ### ledger invariant -/

/-- element objects alive = sum of the sizes -/
def Led (s : St) : Prop := s.live = wsum s.vecs

theorem Led.init : Led St.init := rfl

theorem Led.of_upd {s s' : St} (hw' : WF s) (hl : Led s) {o : Nat} {v v' : List Int}
    (hg : get s o = some v) (hv : s'.vecs = pupd s.vecs o v')
    (hL : s'.live = s.live - (v.length : Int) + (v'.length : Int)) : Led s' := by
  unfold Led
  rw [hv, wsum_pupd _ _ _ _ hw'.nodup hg, hL, hl]

theorem Led.of_app {s s' : St} (hl : Led s) {n : Nat} {v : List Int}
    (hv : s'.vecs = s.vecs ++ [(n, v)]) (hL : s'.live = s.live + (v.length : Int)) : Led s' := by
  unfold Led
  rw [hv, wsum_append, wsum_single, hL, hl]

theorem Led.of_filter {s s' : St} (hw' : WF s) (hl : Led s) {o : Nat} {v : List Int}
    (hg : get s o = some v) (hv : s'.vecs = s.vecs.filter (·.1 ≠ o))
    (hL : s'.live = s.live - (v.length : Int)) : Led s' := by
  unfold Led
  rw [hv, wsum_filter _ _ _ hw'.nodup hg, hL, hl]

theorem Led.updSt {s : St} (hw' : WF s) (hl : Led s) {o : Nat} {old : List Int}
    (hg : get s o = some old) (v : List Int) : Led (updSt s o old v) :=
  Led.of_upd hw' hl hg rfl rfl

theorem Led.pres_one {s : St} (hw' : WF s) (hl : Led s) (o : Nat)
    (f : List Int → Option (List Int)) : Led (one s o f) := by
  unfold one
  split
  · next old hg =>
    split
    · exact hl.updSt hw' hg _
    · exact hl
  · exact hl

theorem Led.pres_stepSt {s : St} (hw' : WF s) (hl : Led s) (op : Op) : Led (stepSt s op) := by
  cases op with
  | mk => exact Led.of_app hl (v := []) rfl (by simp [stepSt])
  | mkSize n =>
    exact Led.of_app hl (v := List.replicate n 0) rfl (by simp [stepSt])
  | mkSizeVal n x =>
    exact Led.of_app hl (v := List.replicate n x) rfl (by simp [stepSt])
  | mkRange xs => exact Led.of_app hl (v := xs) rfl (by simp [stepSt])
  | copyCtor src =>
    simp only [stepSt]
    split
    · next v hv => exact Led.of_app hl (v := v) rfl rfl
    · exact hl
  | moveCtor src =>
    simp only [stepSt]
    split
    · next v hv =>
      have h1 : Led ⟨pupd s.vecs src [], s.live - (v.length : Int), s.next⟩ :=
        Led.of_upd hw' hl hv rfl (by simp)
      exact Led.of_app h1 (v := v) rfl (by simp)
    · exact hl
  | copyAssign dst src =>
    simp only [stepSt]
    split
    · next d v hd hv =>
      split
      · exact hl
      · exact hl.updSt hw' hd _
    · exact hl
  | moveAssign dst src =>
    simp only [stepSt]
    split
    · next d v hd hv =>
      split
      · exact hl
      · next hne =>
        have h1 : Led ⟨pupd s.vecs dst v, s.live - (d.length : Int) + (v.length : Int), s.next⟩ :=
          Led.of_upd hw' hl hd rfl rfl
        have hw1 : WF ⟨pupd s.vecs dst v, s.live - (d.length : Int) + (v.length : Int), s.next⟩ :=
          hw'.pres_upd _ _
        have hg : get ⟨pupd s.vecs dst v, s.live - (d.length : Int) + (v.length : Int), s.next⟩ src
            = some v := by
          rw [get_eq]; simp only []
          rw [lk_pupd_ne _ _ _ _ (Ne.symm hne)]; exact hv
        refine Led.of_upd hw1 h1 hg rfl ?_
        show s.live - (d.length : Int) = _
        simp only [List.length_nil]; omega
    · exact hl
  | swap a b =>
    simp only [stepSt]
    split
    · next va vb ha hb =>
      split
      · exact hl
      · next hne =>
        have h1 : Led ⟨pupd s.vecs a vb, s.live - (va.length : Int) + (vb.length : Int), s.next⟩ :=
          Led.of_upd hw' hl ha rfl rfl
        have hw1 : WF ⟨pupd s.vecs a vb, s.live - (va.length : Int) + (vb.length : Int), s.next⟩ :=
          hw'.pres_upd _ _
        have hg : get ⟨pupd s.vecs a vb, s.live - (va.length : Int) + (vb.length : Int), s.next⟩ b
            = some vb := by
          rw [get_eq]; simp only []
          rw [lk_pupd_ne _ _ _ _ (Ne.symm hne)]; exact hb
        refine Led.of_upd hw1 h1 hg rfl ?_
        show s.live = _
        simp only []; omega
    · exact hl
  | destroy o =>
    simp only [stepSt]
    split
    · next v hv => exact Led.of_filter hw' hl hv rfl rfl
    · exact hl
  | reserve o n => exact hl
  | shrinkToFit o => exact hl
  | query o => exact hl
  | cmp a b => exact hl
  | _ => exact hl.pres_one hw' _ _

theorem Led.pres_runOps {s : St} (hw' : WF s) (hl : Led s) (ops : List Op) :
    Led (runOps s ops) := by
  induction ops generalizing s with
  | nil => exact hl
  | cons o os ih => rw [runOps_cons]; exact ih (hw'.pres_stepSt o) (hl.pres_stepSt hw' o)

end Dispenso.ConVec
