import DispensoVerif.Proofs.GraphFwd
import DispensoVerif.Proofs.GraphSets
/-
`forwardPropagate` for BiProp graphs: `propagateIncompleteStateBidirectionally`
(`biMark`: every completed member of a touched set becomes incomplete; `biCount`: the newly
incomplete nodes are counted as incomplete predecessors of their incomplete dependents).
-/
namespace Dispenso.Graph
open List

theorem srcCount_mono (g : G) {S S' : List Nat} (h : ∀ x ∈ S, x ∈ S') (n : Nat) :
    srcCount g S n ≤ srcCount g S' n := by
  unfold srcCount
  apply List.countP_mono_left
  intro e _ he
  simp only [decide_eq_true_eq] at he ⊢
  exact ⟨he.1, h _ he.2⟩

theorem srcCount_append (g : G) (A B : List Nat) (hd : ∀ x ∈ A, x ∉ B) (n : Nat) :
    srcCount g (A ++ B) n = srcCount g A n + srcCount g B n := by
  unfold srcCount
  apply countP_split
  intro e _
  simp only [decide_eq_true_eq, List.mem_append]
  constructor
  · constructor
    · rintro ⟨h1, h2 | h2⟩
      · exact Or.inl ⟨h1, h2⟩
      · exact Or.inr ⟨h1, h2⟩
    · rintro (⟨h1, h2⟩ | ⟨h1, h2⟩)
      · exact ⟨h1, Or.inl h2⟩
      · exact ⟨h1, Or.inr h2⟩
  · rintro ⟨⟨_, h2⟩, _, h3⟩
    exact hd _ h2 h3

theorem srcCount_eq_zero {g : G} {S : List Nat} {n : Nat}
    (h : ∀ p, (p, n) ∈ edges g → p ∉ S) : srcCount g S n = 0 := by
  unfold srcCount
  rw [List.countP_eq_zero]
  rintro ⟨p, d⟩ he
  simp only [decide_eq_true_eq]
  rintro ⟨rfl, h2⟩
  exact h p he h2

/-! ### biMark -/

def markStep (acc : G × List Nat) (id : Nat) : G × List Nat :=
  if completed (acc.1.node id) then (setIncomplete acc.1 id, acc.2 ++ [id]) else acc

theorem markStep_pos (gc : G) (newly : List Nat) (id : Nat) (hc : completed (gc.node id) = true) :
    markStep (gc, newly) id = (setIncomplete gc id, newly ++ [id]) := by
  unfold markStep; simp [hc]

theorem markStep_neg (gc : G) (newly : List Nat) (id : Nat) (hc : ¬ completed (gc.node id) = true) :
    markStep (gc, newly) id = (gc, newly) := by
  unfold markStep; simp [hc]

theorem biMark_eq (g1 : G) (members : List Nat) :
    biMark g1 members = members.foldl markStep (g1, []) := rfl

structure MarkInv (g1 gc : G) (newly l : List Nat) : Prop where
  node : ∀ i, gc.node i = if i ∈ l ∧ completed (g1.node i) = true
    then { g1.node i with inc := 0 } else g1.node i
  nd : newly.Nodup
  mem : ∀ i, i ∈ newly ↔ (i ∈ l ∧ completed (g1.node i) = true)
  len : gc.nodes.length = g1.nodes.length
  subs : gc.subs = g1.subs
  biSets : gc.biSets = g1.biSets
  biProp : gc.biProp = g1.biProp

theorem zero_rec_not_completed (x : NodeS) : ¬ completed { x with inc := 0 } = true := by
  rw [completed_iff]
  show (0 : Nat) ≠ kCompleted
  unfold kCompleted; omega

theorem MarkInv.step {g1 gc : G} {newly l : List Nat} {id : Nat} (h : MarkInv g1 gc newly l)
    (hid : id < g1.nodes.length) :
    MarkInv g1 (markStep (gc, newly) id).1 (markStep (gc, newly) id).2 (l ++ [id]) := by
  by_cases hc : completed (gc.node id) = true
  · -- still completed: it was not handled before
    rw [markStep_pos gc newly id hc]
    have hnode := h.node id
    have hnot : ¬ (id ∈ l ∧ completed (g1.node id) = true) := by
      intro hh
      rw [if_pos hh] at hnode
      rw [hnode] at hc
      exact zero_rec_not_completed _ hc
    rw [if_neg hnot] at hnode
    have hc1 : completed (g1.node id) = true := by rw [← hnode]; exact hc
    have hidl : id ∉ l := fun hm => hnot ⟨hm, hc1⟩
    have hset : setIncomplete gc id = gc.setNode id { g1.node id with inc := 0 } := by
      unfold setIncomplete
      simp only [hc, if_true]
      rw [hnode]
    rw [hset]
    refine ⟨?_, ?_, ?_, by rw [setNode_length, h.len], h.subs, h.biSets, h.biProp⟩
    · intro i
      rw [setNode_node, h.len]
      by_cases hi : id = i
      · subst hi
        simp [hid, hc1]
      · have hi' : ¬ i = id := fun e => hi e.symm
        simp only [hi, false_and, if_false, List.mem_append, List.mem_singleton, hi', or_false]
        exact h.node i
    · rw [List.nodup_append]
      refine ⟨h.nd, List.nodup_singleton _, ?_⟩
      intro a ha b hb
      rw [List.mem_singleton] at hb
      subst hb
      rintro rfl
      exact hidl ((h.mem a).1 ha).1
    · intro i
      rw [List.mem_append, List.mem_singleton, h.mem i, List.mem_append, List.mem_singleton]
      constructor
      · rintro (⟨h1, h2⟩ | rfl)
        · exact ⟨Or.inl h1, h2⟩
        · exact ⟨Or.inr rfl, hc1⟩
      · rintro ⟨h1 | rfl, h2⟩
        · exact Or.inl ⟨h1, h2⟩
        · exact Or.inr rfl
  · rw [markStep_neg gc newly id hc]
    have hnode := h.node id
    have hkey : completed (g1.node id) = true → id ∈ l := by
      intro hc1
      by_contra hm
      rw [if_neg (fun hh => hm hh.1)] at hnode
      rw [hnode] at hc
      exact hc hc1
    refine ⟨?_, h.nd, ?_, h.len, h.subs, h.biSets, h.biProp⟩
    · intro i
      rw [h.node i]
      by_cases hi : i = id
      · subst hi
        by_cases hc1 : completed (g1.node i) = true
        · simp [hc1, hkey hc1]
        · simp [hc1]
      · simp [hi]
    · intro i
      rw [h.mem i, List.mem_append, List.mem_singleton]
      constructor
      · rintro ⟨h1, h2⟩; exact ⟨Or.inl h1, h2⟩
      · rintro ⟨h1 | rfl, h2⟩
        · exact ⟨h1, h2⟩
        · exact ⟨hkey h2, h2⟩

theorem MarkInv.fold {g1 : G} :
    ∀ (rest : List Nat) (gc : G) (newly l : List Nat), MarkInv g1 gc newly l →
      (∀ i ∈ rest, i < g1.nodes.length) →
      MarkInv g1 (rest.foldl markStep (gc, newly)).1 (rest.foldl markStep (gc, newly)).2
        (l ++ rest) := by
  intro rest
  induction rest with
  | nil => intro gc newly l h _; simpa using h
  | cons id rest ih =>
    intro gc newly l h hr
    rw [List.foldl_cons]
    have h1 := h.step (hr id List.mem_cons_self)
    have h2 := ih _ _ _ h1 (fun i hi => hr i (List.mem_cons_of_mem _ hi))
    have : l ++ [id] ++ rest = l ++ id :: rest := by simp
    rw [this] at h2
    exact h2

theorem biMark_spec (g1 : G) (members : List Nat) (hr : ∀ i ∈ members, i < g1.nodes.length) :
    (∀ i, (biMark g1 members).1.node i = if i ∈ members ∧ completed (g1.node i) = true
      then { g1.node i with inc := 0 } else g1.node i) ∧
    (biMark g1 members).2.Nodup ∧
    (∀ i, i ∈ (biMark g1 members).2 ↔ (i ∈ members ∧ completed (g1.node i) = true)) ∧
    SameShape g1 (biMark g1 members).1 := by
  have h0 : MarkInv g1 g1 [] [] := by
    refine ⟨fun i => by simp, List.nodup_nil, fun i => by simp, rfl, rfl, rfl, rfl⟩
  have h := MarkInv.fold members g1 [] [] h0 hr
  rw [← biMark_eq, List.nil_append] at h
  refine ⟨h.node, h.nd, h.mem, h.len, h.subs, h.biProp, h.biSets, ?_, ?_, ?_, ?_⟩ <;> intro i <;>
    rw [h.node i] <;> split_ifs <;> rfl

/-! ### biCount -/

def cntVisit (g : G) (d : Nat) : G :=
  let n := g.node d
  if ¬ completed n then g.setNode d { n with inc := wrap (n.inc + 1) } else g

def cntNode (g : G) (id : Nat) : G := (g.node id).dependents.foldl cntVisit g

theorem cntVisit_done (g : G) (d : Nat) (hcd : completed (g.node d) = true) : cntVisit g d = g := by
  unfold cntVisit; simp [hcd]

theorem cntVisit_inc (g : G) (d : Nat) (hcd : ¬ completed (g.node d) = true) :
    cntVisit g d = g.setNode d { g.node d with inc := wrap ((g.node d).inc + 1) } := by
  unfold cntVisit; simp [hcd]

theorem biCount_eq (g2 : G) (newly : List Nat) : biCount g2 newly = newly.foldl cntNode g2 := rfl

structure CInv (g2 g : G) (base : Nat → Nat) (newly Dn pend : List Nat) : Prop where
  shape : SameShape g2 g
  comp : ∀ j, completed (g.node j) = completed (g2.node j)
  cnt : ∀ n, (g.node n).alive = true → ¬ completed (g.node n) = true →
    (g.node n).inc + pend.count n = base n + srcCount g2 Dn n
  sub : ∀ x ∈ Dn, x ∈ newly
  pendl : ∀ d ∈ pend, (g.node d).alive = true

theorem CInv.pop {g2 g : G} {base : Nat → Nat} {newly Dn : List Nat} {c : Nat} (hw : WF g2)
    (h : CInv g2 g base newly Dn []) (hc : (g2.node c).alive = true) (hcD : c ∉ Dn)
    (hcn : c ∈ newly) :
    CInv g2 g base newly (Dn ++ [c]) (g.node c).dependents := by
  refine ⟨h.shape, h.comp, ?_, ?_, ?_⟩
  · intro n hal hnc
    have := h.cnt n hal hnc
    rw [srcCount_snoc g2 Dn c n hc hcD, ← h.shape.deps c]
    simp at this
    omega
  · intro x hx
    rw [List.mem_append, List.mem_singleton] at hx
    rcases hx with hx | rfl
    · exact h.sub x hx
    · exact hcn
  · intro d hd
    rw [h.shape.deps] at hd
    rw [h.shape.alive]
    exact hw.deps_live c d (mem_edges.2 ⟨hc, hd⟩)

theorem CInv.visit {g2 g : G} {base : Nat → Nat} {newly Dn pend : List Nat} {d : Nat}
    (hbound : ∀ n, base n + srcCount g2 newly n < kCompleted)
    (h : CInv g2 g base newly Dn (d :: pend)) :
    CInv g2 (cntVisit g d) base newly Dn pend := by
  by_cases hcd : completed (g.node d) = true
  · rw [cntVisit_done g d hcd]
    refine ⟨h.shape, h.comp, ?_, h.sub, fun x hx => h.pendl x (List.mem_cons_of_mem _ hx)⟩
    intro n hal hnc
    have hne : ¬ d = n := fun e => hnc (e ▸ hcd)
    have := h.cnt n hal hnc
    rw [List.count_cons] at this
    simpa [hne] using this
  · rw [cntVisit_inc g d hcd]
    have hal := h.pendl d List.mem_cons_self
    have hlt := lt_of_alive hal
    have hcnt := h.cnt d hal hcd
    rw [List.count_cons] at hcnt
    simp only [beq_self_eq_true, if_true] at hcnt
    have hb := hbound d
    have hmono := srcCount_mono g2 h.sub d
    have hw1 := wrap_add_one' (g.node d).inc (by omega)
    set g' := g.setNode d { g.node d with inc := wrap ((g.node d).inc + 1) } with hg'
    have hsh : SameShape g g' := sameShape_setInc g d _
    have hnode_ne : ∀ j, j ≠ d → g'.node j = g.node j :=
      fun j hj => setNode_node_ne g d _ j (Ne.symm hj)
    have hnode_d : (g'.node d).inc = (g.node d).inc + 1 := by
      rw [hg', setNode_node_self g d _ hlt]; exact hw1
    have hcomp : ∀ j, completed (g'.node j) = completed (g.node j) := by
      intro j
      by_cases hj : j = d
      · subst hj
        have h1 : ¬ completed (g'.node j) = true := by
          rw [completed_iff, hnode_d]; omega
        simp [h1, hcd]
      · rw [hnode_ne j hj]
    refine ⟨h.shape.trans hsh, fun j => (hcomp j).trans (h.comp j), ?_, h.sub, ?_⟩
    · intro n hal' hnc'
      rw [hcomp] at hnc'
      rw [hsh.alive] at hal'
      by_cases hn : n = d
      · subst hn; rw [hnode_d]; omega
      · rw [hnode_ne n hn]
        have := h.cnt n hal' hnc'
        rw [List.count_cons] at this
        have hne : ¬ d = n := fun e => hn e.symm
        simpa [hne] using this
    · intro x hx
      rw [hsh.alive]
      exact h.pendl x (List.mem_cons_of_mem _ hx)

theorem CInv.visitFold {g2 : G} {base : Nat → Nat} {newly Dn : List Nat}
    (hbound : ∀ n, base n + srcCount g2 newly n < kCompleted) :
    ∀ (pend : List Nat) (g : G), CInv g2 g base newly Dn pend →
      CInv g2 (pend.foldl cntVisit g) base newly Dn [] := by
  intro pend
  induction pend with
  | nil => intro g h; exact h
  | cons d pend ih =>
    intro g h
    rw [List.foldl_cons]
    exact ih _ (h.visit hbound)

theorem CInv.nodeFold {g2 : G} {base : Nat → Nat} {newly : List Nat} (hw : WF g2)
    (hbound : ∀ n, base n + srcCount g2 newly n < kCompleted) :
    ∀ (rest : List Nat) (g : G) (Dn : List Nat), CInv g2 g base newly Dn [] →
      (Dn ++ rest).Nodup → (∀ x ∈ rest, x ∈ newly ∧ (g2.node x).alive = true) →
      CInv g2 (rest.foldl cntNode g) base newly (Dn ++ rest) [] := by
  intro rest
  induction rest with
  | nil => intro g Dn h _ _; simpa using h
  | cons c rest ih =>
    intro g Dn h hnd hr
    rw [List.foldl_cons]
    have hc := hr c List.mem_cons_self
    have hcD : c ∉ Dn := by
      intro hm
      rw [List.nodup_append] at hnd
      exact hnd.2.2 c hm c List.mem_cons_self rfl
    have h1 := h.pop hw hc.2 hcD hc.1
    have h2 := CInv.visitFold hbound _ _ h1
    have heq : Dn ++ [c] ++ rest = Dn ++ c :: rest := by simp
    have h3 := ih (cntNode g c) (Dn ++ [c]) h2 (by rw [heq]; exact hnd)
      (fun x hx => hr x (List.mem_cons_of_mem _ hx))
    rw [heq] at h3
    exact h3

theorem biCount_spec (g2 : G) (newly : List Nat) (base : Nat → Nat) (hw : WF g2)
    (hnd : newly.Nodup) (hlive : ∀ x ∈ newly, (g2.node x).alive = true)
    (hbase : ∀ n, (g2.node n).alive = true → ¬ completed (g2.node n) = true →
      (g2.node n).inc = base n)
    (hbound : ∀ n, base n + srcCount g2 newly n < kCompleted) :
    SameShape g2 (biCount g2 newly) ∧
    (∀ j, completed ((biCount g2 newly).node j) = completed (g2.node j)) ∧
    (∀ n, (g2.node n).alive = true → ¬ completed (g2.node n) = true →
      ((biCount g2 newly).node n).inc = base n + srcCount g2 newly n) := by
  have h0 : CInv g2 g2 base newly [] [] := by
    refine ⟨SameShape.refl g2, fun _ => rfl, ?_, fun x hx => (by cases hx), fun x hx => (by cases hx)⟩
    intro n hal hnc
    rw [srcCount_nil, hbase n hal hnc]; simp
  have h := CInv.nodeFold hw hbound newly g2 [] h0 (by simpa using hnd)
    (fun x hx => ⟨hx, hlive x hx⟩)
  rw [← biCount_eq, List.nil_append] at h
  refine ⟨h.shape, h.comp, ?_⟩
  intro n hal hnc
  have := h.cnt n (by rw [h.shape.alive]; exact hal) (by rw [h.comp]; exact hnc)
  simpa using this

/-! ### the BiProp specification -/

theorem SetsOK.of_sameShape {g g' : G} (hs : SameShape g g') (h : SetsOK g) : SetsOK g' := by
  refine ⟨?_, ?_⟩
  · intro i s hal hb
    rw [hs.alive] at hal
    rw [hs.biSet] at hb
    rw [hs.biSets]; exact h.mem_of i s hal hb
  · intro s i hm
    rw [hs.biSets] at hm
    rw [hs.alive, hs.biSet]; exact h.of_mem s i hm

theorem mem_biMembers (g1 : G) (V : List Nat) (i : Nat) :
    i ∈ biMembers g1 V ↔ ∃ s, (∃ v ∈ V, (g1.node v).biSet = some s) ∧ i ∈ g1.biSets.getD s [] := by
  unfold biMembers
  simp only [List.mem_flatten, List.mem_map, List.mem_eraseDups, List.mem_filterMap]
  constructor
  · rintro ⟨l, ⟨s, ⟨v, hv, hs⟩, rfl⟩, hi⟩
    exact ⟨s, ⟨v, hv, hs⟩, hi⟩
  · rintro ⟨s, ⟨v, hv, hs⟩, hi⟩
    exact ⟨_, ⟨s, ⟨v, hv, hs⟩, rfl⟩, hi⟩

/-- member of a bidirectional-propagation set that intersects the forward closure -/
def SetTouched (g : G) (id : Nat) : Prop :=
  ∃ s, (g.node id).biSet = some s ∧ ∃ m, Reach g m ∧ (g.node m).biSet = some s

theorem forwardPropagate_biprop (g : G) (hw : WF g) (hb : EdgeBound g) (hs : SetsOK g)
    (hbp : g.biProp = true) :
    (∀ id ∈ allNodes g,
      (¬ completed ((forwardPropagate g).node id) = true ↔ (Reach g id ∨ SetTouched g id))) ∧
    Consistent (forwardPropagate g) ∧
    (∀ p d, (p, d) ∈ edges g → Reach g p → ¬ completed ((forwardPropagate g).node d) = true) ∧
    SameShape g (forwardPropagate g) := by
  have h1 := phase1_spec g hw hb
  have hc1 := h1.consistent hw hb
  set g1 := (propPhase1 g).1 with hg1
  set V := (propPhase1 g).2 with hV
  have heq : forwardPropagate g = biPhase g1 V := by
    rw [forwardPropagate_eq, if_neg (by simp [hbp])]
  rw [heq]
  unfold biPhase
  have hs1 : SetsOK g1 := hs.of_sameShape h1.shape
  have hw1 : WF g1 := WF.of_sameShape h1.shape hw
  set members := biMembers g1 V with hmembers
  have hmem_live : ∀ i ∈ members, (g1.node i).alive = true := by
    intro i hi
    obtain ⟨s, _, hi⟩ := (mem_biMembers g1 V i).1 hi
    exact (hs1.of_mem s i hi).1
  obtain ⟨m1, m2, m3, m4⟩ := biMark_spec g1 members (fun i hi => lt_of_alive (hmem_live i hi))
  set g2 := (biMark g1 members).1 with hg2
  set newly := (biMark g1 members).2 with hnewly
  have hw2 : WF g2 := WF.of_sameShape m4 hw1
  have hed2 : edges g2 = edges g := by rw [m4.edges, h1.shape.edges]
  have hal2 : ∀ i, (g2.node i).alive = (g.node i).alive := fun i =>
    (m4.alive i).trans (h1.shape.alive i)
  -- completed in g2 ↔ completed in g1 and not newly
  have hcomp2 : ∀ i, (¬ completed (g2.node i) = true ↔
      (¬ completed (g1.node i) = true ∨ i ∈ newly)) := by
    intro i
    rw [m1 i, m3 i]
    by_cases hh : i ∈ members ∧ completed (g1.node i) = true
    · rw [if_pos hh]
      constructor
      · intro _; exact Or.inr hh
      · intro _; exact zero_rec_not_completed _
    · rw [if_neg hh]
      constructor
      · intro h; exact Or.inl h
      · rintro (h | h)
        · exact h
        · exact absurd h hh
  have hVnew : ∀ x ∈ V, x ∉ newly := by
    intro x hx hn
    have := (m3 x).1 hn
    exact (h1.inc_iff x (h1.liveV x hx)).2 hx this.2
  have hsrcV : ∀ n, srcCount g2 V n = srcCount g V n := by
    intro n; unfold srcCount; rw [hed2]
  have hbase : ∀ n, (g2.node n).alive = true → ¬ completed (g2.node n) = true →
      (g2.node n).inc = srcCount g V n := by
    intro n hal hnc
    rw [hal2] at hal
    rw [m1 n] at hnc ⊢
    by_cases hh : n ∈ members ∧ completed (g1.node n) = true
    · rw [if_pos hh]
      show 0 = srcCount g V n
      symm
      apply srcCount_eq_zero
      intro p he hp
      have hpnc := (h1.inc_iff p (h1.liveV p hp)).2 hp
      exact hc1.2 p n (h1.shape.edges ▸ he) hpnc hh.2
    · rw [if_neg hh] at hnc ⊢
      exact h1.inc_eq n hal hnc
  have hbound : ∀ n, srcCount g V n + srcCount g2 newly n < kCompleted := by
    intro n
    have h3 := srcCount_append g2 V newly hVnew n
    have h4 := srcCount_le_length g2 (V ++ newly) n
    rw [hed2] at h4
    rw [hsrcV] at h3
    unfold EdgeBound at hb
    omega
  obtain ⟨c1, c2, c3⟩ := biCount_spec g2 newly (fun n => srcCount g V n) hw2 m2
    (fun x hx => by rw [m4.alive]; exact hmem_live x ((m3 x).1 hx).1) hbase hbound
  set g3 := biCount g2 newly with hg3
  have hshape : SameShape g g3 := (h1.shape.trans m4).trans c1
  have hiff : ∀ i, (g.node i).alive = true →
      (¬ completed (g3.node i) = true ↔ i ∈ V ++ newly) := by
    intro i hal
    rw [c2 i, hcomp2 i, h1.inc_iff i hal, List.mem_append]
  have hinc : ∀ n, (g.node n).alive = true → ¬ completed (g3.node n) = true →
      (g3.node n).inc = srcCount g (V ++ newly) n := by
    intro n hal hnc
    rw [c2 n] at hnc
    rw [c3 n (by rw [hal2]; exact hal) hnc]
    have := srcCount_append g2 V newly hVnew n
    rw [hsrcV] at this
    have h5 : srcCount g2 (V ++ newly) n = srcCount g (V ++ newly) n := by
      unfold srcCount; rw [hed2]
    omega
  -- membership in `newly`, in terms of `g`
  have hnew_iff : ∀ i, (g.node i).alive = true →
      (i ∈ V ++ newly ↔ (Reach g i ∨ SetTouched g i)) := by
    intro i hal
    rw [List.mem_append, h1.memV i, m3 i, mem_biMembers]
    constructor
    · rintro (h | ⟨⟨s, ⟨v, hv, hvs⟩, hi⟩, _⟩)
      · exact Or.inl h
      · right
        have := hs1.of_mem s i hi
        refine ⟨s, ?_, v, (h1.memV v).1 hv, ?_⟩
        · rw [← h1.shape.biSet]; exact this.2
        · rw [← h1.shape.biSet]; exact hvs
    · rintro (h | ⟨s, his, m, hm, hms⟩)
      · exact Or.inl h
      · by_cases hr : Reach g i
        · exact Or.inl hr
        · right
          refine ⟨⟨s, ⟨m, (h1.memV m).2 hm, by rw [h1.shape.biSet]; exact hms⟩, ?_⟩, ?_⟩
          · exact hs1.mem_of i s (by rw [h1.shape.alive]; exact hal)
              (by rw [h1.shape.biSet]; exact his)
          · by_contra hnc
            exact hr ((h1.memV i).1 ((h1.inc_iff i hal).1 hnc))
  refine ⟨?_, consistent_of_srcCount hshape hw hb hiff hinc, ?_, hshape⟩
  · intro id hid
    rw [hw.mem_all] at hid
    rw [hiff id hid, hnew_iff id hid]
  · intro p d he hp
    have hdl := hw.deps_live p d he
    rw [hiff d hdl, List.mem_append]
    left
    exact (h1.memV d).2 (Reach.step p d hp he)

end Dispenso.Graph
