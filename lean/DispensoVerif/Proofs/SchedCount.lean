import DispensoVerif.Proofs.SchedReach
import Mathlib.Data.List.Nodup
import Mathlib.Data.List.Perm.Subperm

/-!
Counting lemmas for C01: from equal counts to membership (pigeonhole), `ended` has no duplicates.
-/
namespace Dispenso.Sched

/-- ids of set `S` that were submitted and begun are all the submitted ids of `S`, once the
counts agree -/
theorem all_begun_of_count {sub : List (Nat × Nat)} {begun : List Nat} {S : Nat}
    (hb : begun.Nodup)
    (hc : (sub.filter (fun p => p.2 = S)).length = (begun.filter (fun id => (id, S) ∈ sub)).length)
    {id : Nat} (hid : (id, S) ∈ sub) : id ∈ begun := by
  let L1 := begun.filter (fun id => (id, S) ∈ sub)
  let L2 := (sub.filter (fun p => p.2 = S)).map Prod.fst
  have h1 : L1.Nodup := hb.filter _
  have hsub : L1 ⊆ L2 := by
    intro i hi
    have := (List.mem_filter.1 hi).2
    simp only [decide_eq_true_eq] at this
    exact List.mem_map.2 ⟨(i, S), List.mem_filter.2 ⟨this, by simp⟩, rfl⟩
  have hlen : L2.length ≤ L1.length := by simp [L1, L2, hc]
  have hp := (List.subperm_of_subset h1 hsub).perm_of_length_le hlen
  have : id ∈ L2 := List.mem_map.2 ⟨(id, S), List.mem_filter.2 ⟨hid, by simp⟩, rfl⟩
  exact (List.mem_filter.1 (hp.mem_iff.2 this)).1

theorem nodup_of_count_le {l m : List Nat} (hm : m.Nodup)
    (h : ∀ i, l.count i ≤ m.count i) : l.Nodup :=
  List.nodup_iff_count_le_one.2 fun i => Nat.le_trans (h i) (List.nodup_iff_count_le_one.1 hm i)


/-- at a quiescent point, for every set `S` (0 = the pool): every submitted task has begun, or
was skipped by the package wrapper / dropped by `schedule` on a cancelled set -/
theorem Inv.quiescent_count {s : St} (hI : Inv s) (hq : s.quiescent = true) (S : Nat) :
    (s.sub.filter (fun p => p.2 = S)).length
      = (s.begun.filter (fun id => (id, S) ∈ s.sub)).length + s.skipped S + s.dropped S := by
  obtain ⟨h1, h2⟩ := (quiescent_iff s).1 hq
  have hset := fun f hf => (settled_iff f).1 (h2 f hf).1
  have hr : tot (mResv S) s = 0 := (tot_eq_zero _ s).2 fun f hf => by
    simp [mResv, (hset f hf).1]
  have hg : tot (mGuarded S) s = 0 := (tot_eq_zero _ s).2 fun f hf => by
    simp [mGuarded, (hset f hf).2.2.2.2.1]
  have ht : tot mTook s = 0 := (tot_eq_zero _ s).2 fun f hf => by
    simp [mTook, (hset f hf).2.2.2.2.1]
  have hque := hI.que
  have hc := hI.cons S
  have hql : s.queuedSets = [] := by
    rw [h1, ht] at hque
    exact List.length_eq_zero_iff.1 (by simpa using hque)
  rw [hr, hg, hql] at hc
  simp only [subOf, begunOf, List.count_nil] at hc
  omega

/-- at a quiescent point every task handed to the pool directly has begun and ended -/
theorem Inv.quiescent_all_ran {s : St} (hI : Inv s) (hq : s.quiescent = true) (id : Nat)
    (hid : (id, 0) ∈ s.sub) : id ∈ s.begun ∧ id ∈ s.ended := by
  have hc := hI.quiescent_count hq 0
  rw [hI.skip0, hI.drop0] at hc
  have hb : id ∈ s.begun := all_begun_of_count hI.begNd hc hid
  refine ⟨hb, ?_⟩
  obtain ⟨_, h2⟩ := (quiescent_iff s).1 hq
  have hr : tot (mRun id) s = 0 := (tot_eq_zero _ s).2 fun f hf => by
    simp [mRun, (h2 f hf).2]
  have := hI.runs id
  have := List.count_pos_iff.2 hb
  exact List.count_pos_iff.1 (by omega)

/-- what holds once the pool is destroyed -/
def AllRan (s : St) : Prop :=
  s.destroyed = true → ∀ id, (id, 0) ∈ s.sub → id ∈ s.begun ∧ id ∈ s.ended

/-- `dtorEnd` establishes `AllRan` (quiescence); afterwards no submission is accepted
(`callSched` and `gen` require `¬ destroyed`) and `begun` / `ended` only grow -/
theorem AllRan.step {s s' : St} {t : Nat} {f : Frame} {rest : List Frame} {e : Ev}
    (hI : Inv s) (ha : AllRan s) (h : Step s t f rest e s') : AllRan s' := by
  have grow : ∀ {b' e' : List Nat}, (∀ i ∈ s.begun, i ∈ b') → (∀ i ∈ s.ended, i ∈ e') →
      s.destroyed = true → ∀ id, (id, 0) ∈ s.sub → id ∈ b' ∧ id ∈ e' :=
    fun hb he hd id hid => ⟨hb _ (ha hd id hid).1, he _ (ha hd id hid).2⟩
  have mc : ∀ (x : Nat) (l : List Nat), ∀ i ∈ l, i ∈ x :: l := fun x l i hi => List.mem_cons_of_mem _ hi
  have mi : ∀ (l : List Nat), ∀ i ∈ l, i ∈ l := fun _ _ hi => hi
  cases h
  case callSched set id fq hd hid hp =>
    intro hd'
    have hd'' : s.destroyed = true := hd'
    rw [hd] at hd''
    cases hd''
  case gen id hk hd hid =>
    intro hd'
    have hd'' : s.destroyed = true := hd'
    rw [hd] at hd''
    cases hd''
  case dtorEnd hk hq => exact fun _ id hid => hI.quiescent_all_ran hq id hid
  case beginTook | beginGuarded | beginInlPool | beginInlGuarded | beginInlTs =>
    exact grow (mc _ _) (mi _)
  case endPlain | endPkNil | endPkCons => exact grow (mi _) (mc _ _)
  all_goals exact ha

theorem AllRan.reach {s : St} (h : Reach s) : AllRan s := by
  refine Reach.induct (P := AllRan) ?_ ?_ s h
  · intro hd; cases hd
  · intro s t e s' hr ha hs
    obtain ⟨f, rest, _, hst⟩ := step_inv' hs
    exact AllRan.step (Inv.reach hr) ha hst

end Dispenso.Sched
