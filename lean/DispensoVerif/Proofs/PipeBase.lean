import DispensoVerif.Model.Pipeline
import DispensoVerif.Proofs.PipeAttr
import Mathlib.Tactic.SplitIfs
import Mathlib.Tactic.CasesM
/-!
Framework for the invariants of the pipeline model (C27–C29): sums of per-frame weights over all
stacks, and the reduction of `Pipe.step` to a local rewrite of one thread's stack.
-/
namespace Dispenso.Pipe

/-- sum of a weight over the frames of one stack -/
def sumL (w : Frame → Int) : List Frame → Int
  | [] => 0
  | f :: l => w f + sumL w l

@[simp] theorem sumL_nil (w : Frame → Int) : sumL w [] = 0 := rfl
@[simp] theorem sumL_cons (w : Frame → Int) (f : Frame) (l : List Frame) : sumL w (f :: l) = w f + sumL w l := rfl

theorem sumL_append (w : Frame → Int) (a b : List Frame) : sumL w (a ++ b) = sumL w a + sumL w b := by
  induction a with
  | nil => simp
  | cons f l ih => simp [ih]; omega

/-- sum over the stacks of threads `0..n` -/
def sumT (w : Frame → Int) (thr : Nat → List Frame) : Nat → Int
  | 0 => sumL w (thr 0)
  | n + 1 => sumT w thr n + sumL w (thr (n + 1))

theorem sumT_set_gt (w : Frame → Int) (thr : Nat → List Frame) (t : Nat) (stk : List Frame) (n : Nat)
    (h : n < t) : sumT w (fun u => if u = t then stk else thr u) n = sumT w thr n := by
  induction n with
  | zero =>
    have : ¬ (0 = t) := by omega
    simp [sumT, this]
  | succ n ih =>
    simp only [sumT]
    rw [ih (by omega)]
    have : ¬ (n + 1 = t) := by omega
    simp [this]

theorem sumT_set (w : Frame → Int) (thr : Nat → List Frame) (t : Nat) (stk : List Frame) (n : Nat)
    (h : t ≤ n) :
    sumT w (fun u => if u = t then stk else thr u) n = sumT w thr n - sumL w (thr t) + sumL w stk := by
  induction n with
  | zero =>
    have : t = 0 := by omega
    subst this
    simp [sumT]
  | succ n ih =>
    simp only [sumT]
    by_cases ht : t = n + 1
    · subst ht
      rw [sumT_set_gt w thr (n + 1) stk n (by omega)]
      simp only [if_true]
      omega
    · rw [ih (by omega)]
      have : ¬ (n + 1 = t) := fun h => ht h.symm
      simp only [this, if_false]
      omega

theorem sumL_nonneg (w : Frame → Int) (hw : ∀ f, 0 ≤ w f) (l : List Frame) : 0 ≤ sumL w l := by
  induction l with
  | nil => simp
  | cons f l ih => simp; have := hw f; omega

theorem sumT_nonneg (w : Frame → Int) (hw : ∀ f, 0 ≤ w f) (thr : Nat → List Frame) (n : Nat) :
    0 ≤ sumT w thr n := by
  induction n with
  | zero => exact sumL_nonneg w hw _
  | succ n ih => simp only [sumT]; have := sumL_nonneg w hw (thr (n + 1)); omega

theorem sumL_le (w v : Frame → Int) (h : ∀ f, w f ≤ v f) (l : List Frame) : sumL w l ≤ sumL v l := by
  induction l with
  | nil => simp
  | cons f l ih => simp; have := h f; omega

theorem sumT_le (w v : Frame → Int) (h : ∀ f, w f ≤ v f) (thr : Nat → List Frame) (n : Nat) :
    sumT w thr n ≤ sumT v thr n := by
  induction n with
  | zero => exact sumL_le w v h _
  | succ n ih => simp only [sumT]; have := sumL_le w v h (thr (n + 1)); omega

theorem sumL_mem_le (w : Frame → Int) (hw : ∀ f, 0 ≤ w f) (l : List Frame) (f : Frame) (hf : f ∈ l) :
    w f ≤ sumL w l := by
  induction l with
  | nil => cases hf
  | cons g l ih =>
    simp
    cases hf with
    | head => have := sumL_nonneg w hw l; omega
    | tail _ h => have := ih h; have := hw g; omega

theorem sumT_mem_le (w : Frame → Int) (hw : ∀ f, 0 ≤ w f) (thr : Nat → List Frame) (n t : Nat) (ht : t ≤ n)
    (f : Frame) (hf : f ∈ thr t) : w f ≤ sumT w thr n := by
  induction n with
  | zero =>
    have : t = 0 := by omega
    subst this
    exact sumL_mem_le w hw _ f hf
  | succ n ih =>
    simp only [sumT]
    by_cases h : t = n + 1
    · subst h
      have := sumL_mem_le w hw _ f hf
      have := sumT_nonneg w hw thr n
      omega
    · have := ih (by omega)
      have := sumL_nonneg w hw (thr (n + 1))
      omega

theorem sumL_zero_cons {w : Frame → Int} (hw : ∀ f, 0 ≤ w f) (f : Frame) (l : List Frame) :
    sumL w (f :: l) = 0 ↔ w f = 0 ∧ sumL w l = 0 := by
  have h1 := hw f
  have h2 := sumL_nonneg w hw l
  simp only [sumL_cons]
  constructor
  · intro h; constructor <;> omega
  · intro ⟨a, b⟩; omega

theorem sumT_zero {w : Frame → Int} (hw : ∀ f, 0 ≤ w f) (thr : Nat → List Frame) (n t : Nat) (ht : t ≤ n)
    (h : sumT w thr n = 0) : sumL w (thr t) = 0 := by
  induction n with
  | zero =>
    have : t = 0 := by omega
    subst this
    exact h
  | succ n ih =>
    simp only [sumT] at h
    have h1 := sumT_nonneg w hw thr n
    have h2 := sumL_nonneg w hw (thr (n + 1))
    by_cases hh : t = n + 1
    · subst hh; omega
    · exact ih (by omega) (by omega)

/-- total weight of a state -/
def SW (w : Frame → Int) (c : Cfg) (st : St) : Int := sumT w st.thr c.pool

/-- the local effect of a step: one thread's stack `stk` becomes `stk'`, the shared state `sh` becomes `sh'` -/
inductive Loc (c : Cfg) : Sh → List Frame → Sh → List Frame → Prop where
  | top {sh sh' : Sh} {stk stk' : List Frame} (ch : Choice) :
      stepTop c sh stk ch = some (sh', stk') → Loc c sh stk sh' stk'
  | main {sh sh' : Sh} {stk' : List Frame} (ch : Choice) :
      stepMain c sh sh.mpc ch = some (sh', stk') → Loc c sh [] sh' stk'
  | esc {sh : Sh} (e : Exc) (k : Nat) : sh.mpc = .exec k →
      Loc c sh [.exc e] { sh with mpc := startDtor c (some e), handling := sh.handling - 1,
                                  stuckC := sh.stuckC + (c.genInst - k) } []
  | take {sh sh' : Sh} (k : Task) : takeTask sh k = some sh' → Loc c sh [] sh' [.pkg k .chk]

theorem step_loc {c : Cfg} {st st' : St} {t : Nat} {ch : Choice} (h : step c st t ch = some st') :
    t ≤ c.pool ∧ Loc c st.sh (st.thr t) st'.sh (st'.thr t) ∧ ∀ u, u ≠ t → st'.thr u = st.thr u := by
  unfold step at h
  split at h
  · rename_i ht
    subst ht
    refine ⟨Nat.zero_le _, ?_⟩
    split at h
    · rename_i hs
      split at h
      · rename_i sh' stk hm
        simp only [Option.some.injEq] at h
        subst h
        rw [hs]
        refine ⟨?_, ?_⟩
        · simpa [setThr] using Loc.main ch hm
        · intro u hu; simp [setThr, hu]
      · cases h
    · rename_i e hs
      split at h
      · split at h
        · rename_i k hk
          simp only [Option.some.injEq] at h
          subst h
          rw [hs]
          refine ⟨?_, ?_⟩
          · simpa [setThr] using Loc.esc (c := c) e k hk
          · intro u hu; simp [setThr, hu]
        · cases h
      · cases h
    · split at h
      · rename_i sh' stk' hm
        simp only [Option.some.injEq] at h
        subst h
        refine ⟨?_, ?_⟩
        · simpa [setThr] using Loc.top ch hm
        · intro u hu; simp [setThr, hu]
      · cases h
  · split at h
    · rename_i ht0 ht
      refine ⟨ht, ?_⟩
      split at h
      · rename_i hs
        split at h
        · rename_i k
          split at h
          · rename_i sh' hk
            simp only [Option.some.injEq] at h
            subst h
            rw [hs]
            refine ⟨?_, ?_⟩
            · simpa [setThr] using Loc.take (c := c) k hk
            · intro u hu; simp [setThr, hu]
          · cases h
        · cases h
      · split at h
        · rename_i sh' stk' hm
          simp only [Option.some.injEq] at h
          subst h
          refine ⟨?_, ?_⟩
          · simpa [setThr] using Loc.top ch hm
          · intro u hu; simp [setThr, hu]
        · cases h
    · cases h

/-- a state function of the form "total weight = function of the shared state" is invariant if every
    local step changes both sides equally -/
theorem sum_invariant {c : Cfg} (w : Frame → Int) (G : Sh → Int)
    (h0 : G (Sh.init c) = 0)
    (hloc : ∀ sh stk sh' stk', Loc c sh stk sh' stk' → G sh' - G sh = sumL w stk' - sumL w stk)
    {st : St} (hr : Reach c st) : SW w c st = G st.sh := by
  induction hr with
  | init =>
    have : ∀ n, sumT w (fun _ => ([] : List Frame)) n = 0 := by
      intro n
      induction n with
      | zero => simp [sumT]
      | succ n ih => simp [sumT, ih]
    simp [SW, St.init, this, h0]
  | @step st st' t ch _ hs ih =>
    obtain ⟨ht, hl, hu⟩ := step_loc hs
    have heq : st'.thr = fun u => if u = t then st'.thr t else st.thr u := by
      funext u
      by_cases h : u = t
      · simp [h]
      · simp [h, hu u h]
    have := hloc _ _ _ _ hl
    unfold SW at ih ⊢
    rw [heq, sumT_set w st.thr t (st'.thr t) c.pool ht]
    omega

/-- "no frame of positive weight exists, and Ψ holds of the shared state" is invariant if every local
    step preserves it -/
theorem zero_invariant {c : Cfg} (w : Frame → Int) (hw : ∀ f, 0 ≤ w f) (Ψ : Sh → Prop) (h0 : Ψ (Sh.init c))
    (hloc : ∀ sh stk sh' stk', Loc c sh stk sh' stk' → sumL w stk = 0 → Ψ sh → sumL w stk' = 0 ∧ Ψ sh')
    {st : St} (hr : Reach c st) : SW w c st = 0 ∧ Ψ st.sh := by
  induction hr with
  | init =>
    have : ∀ n, sumT w (fun _ => ([] : List Frame)) n = 0 := by
      intro n
      induction n with
      | zero => simp [sumT]
      | succ n ih => simp [sumT, ih]
    exact ⟨by simp [SW, St.init, this], h0⟩
  | @step st st' t ch _ hs ih =>
    obtain ⟨ht, hl, hu⟩ := step_loc hs
    obtain ⟨ihw, ihp⟩ := ih
    have hz := sumT_zero hw st.thr c.pool t ht ihw
    obtain ⟨h1, h2⟩ := hloc _ _ _ _ hl hz ihp
    refine ⟨?_, h2⟩
    have heq : st'.thr = fun u => if u = t then st'.thr t else st.thr u := by
      funext u
      by_cases h : u = t
      · simp [h]
      · simp [h, hu u h]
    unfold SW at ihw ⊢
    rw [heq, sumT_set w st.thr t (st'.thr t) c.pool ht]
    omega

/-- a property of the shared state alone that every local step preserves -/
theorem sh_invariant {c : Cfg} (I : Sh → Prop) (h0 : I (Sh.init c))
    (hloc : ∀ sh stk sh' stk', Loc c sh stk sh' stk' → I sh → I sh')
    {st : St} (hr : Reach c st) : I st.sh := by
  induction hr with
  | init => exact h0
  | @step st st' t ch _ hs ih =>
    obtain ⟨_, hl, _⟩ := step_loc hs
    exact hloc _ _ _ _ hl ih

/-! ### case analysis of the step functions -/

attribute [pipeStep] stepTs afterPc afterSh stepGen stepQr stepUr stepUi stepCs stepPkg stepTmp
  stepUnwind stepTop stepMain stepWaitL stepWaitU stepCtsW startDtor nextWait wrapH
attribute [pipeLeaf] stepH destroyOwned

theorem release_some {sh sh' : Sh} {s i : Nat} : release sh s i = some sh' ↔
    i ∈ sh.pend s ∧ { sh with pend := upd sh.pend s ((sh.pend s).erase i), rel := bump sh.rel s i } = sh' := by
  unfold release; split <;> simp_all

theorem beginStage_some {sh sh' : Sh} {s i : Nat} : beginStage sh s i = some sh' ↔
    i ∈ sh.pend s ∧ { sh with pend := upd sh.pend s ((sh.pend s).erase i), ran := bump sh.ran s i } = sh' := by
  unfold beginStage; split <;> simp_all

theorem takeTask_some {sh sh' : Sh} {k : Task} : takeTask sh k = some sh' ↔
    k ∈ sh.pool ∧ { sh with pool := sh.pool.erase k } = sh' := by
  unfold takeTask; split <;> simp_all

theorem stepDown_some {c : Cfg} {sh sh' : Sh} {s i : Nat} {h : HPc} {ch : Choice} {mk : HPc → Frame}
    {fin : Frame} {rest stk' : List Frame}
    (hd : stepDown c sh s i h ch mk fin rest = some (sh', stk')) :
    ∃ r, stepH c sh s i h ch = some (sh', r) ∧ stk' = wrapH mk fin rest r := by
  unfold stepDown at hd
  split at hd
  · rename_i sh1 r hH
    simp only [Option.some.injEq, Prod.mk.injEq] at hd
    obtain ⟨rfl, rfl⟩ := hd
    exact ⟨r, hH, rfl⟩
  · cases hd

theorem erase_len {α : Type} [DecidableEq α] {a : α} {l : List α} (h : a ∈ l) :
    ((l.erase a).length : Int) = (l.length : Int) - 1 := by
  have := List.length_erase_of_mem h
  have := List.length_pos_of_mem h
  omega

theorem erase_count_self {α : Type} [DecidableEq α] {a : α} {l : List α} (h : a ∈ l) :
    ((l.erase a).count a : Int) = (l.count a : Int) - 1 := by
  have := List.count_erase_self (a := a) (l := l)
  have := List.count_pos_iff.mpr h
  omega

theorem erase_count_ne {α : Type} [DecidableEq α] {a b : α} {l : List α} (h : a ≠ b) :
    (l.erase a).count b = l.count b := by
  rw [List.count_erase_of_ne (Ne.symm h)]

theorem erase_count {α : Type} [DecidableEq α] {a : α} (b : α) {l : List α} (h : a ∈ l) :
    ((l.erase a).count b : Int) = (l.count b : Int) - (if a = b then 1 else 0) := by
  by_cases hab : a = b
  · subst hab
    rw [erase_count_self h]
    simp
  · rw [erase_count_ne hab]
    simp [hab]

theorem not_mem_erase {α : Type} [DecidableEq α] {a b : α} {l : List α} (h : a ∉ l) : a ∉ l.erase b :=
  fun hm => h (List.mem_of_mem_erase hm)

theorem destroyOwned_some {c : Cfg} {sh sh' : Sh} {k : Task} {ch : Choice} :
    destroyOwned c sh k ch = some sh' ↔
      (k = .gen ∧ ch = .go ∧ { sh with compl := sh.compl - 1 } = sh') ∨
      (∃ s i, k = .u s ∧ ch = .rel i ∧ i ∈ sh.pend s ∧
        { sh with pend := upd sh.pend s ((sh.pend s).erase i), rel := bump sh.rel s i } = sh') ∨
      (∃ s i, k = .q s ∧ ch = .rel i ∧ c.fix.skip = true ∧ i ∈ sh.pend s ∧
        { sh with lost := upd sh.lost s (sh.lost s + 1), stuck := upd sh.stuck s (sh.stuck s + 1),
                  pend := upd sh.pend s ((sh.pend s).erase i), rel := bump sh.rel s i } = sh') ∨
      (∃ s, k = .q s ∧ ch = .go ∧ c.fix.skip = false ∧
        { sh with lost := upd sh.lost s (sh.lost s + 1), stuck := upd sh.stuck s (sh.stuck s + 1),
                  leaked := upd sh.leaked s (sh.leaked s + 1) } = sh') := by
  fun_cases destroyOwned c sh k ch <;> simp_all [destroyOwned, release_some]

/-- after `fun_cases F …` with `h : F … = some _`: compute the branch of a leaf function -/
macro "leaves" h:ident : tactic => `(tactic| (
  all_goals (try simp only [pipeLeaf, reduceCtorEq, ↓reduceIte, and_self, and_true, true_and, if_true, if_false, *] at $h:ident)
  all_goals (try simp only [Option.some.injEq, Prod.mk.injEq, reduceCtorEq] at $h:ident)
  all_goals (try simp only [release_some, beginStage_some, takeTask_some] at *)
  all_goals (try casesm* _ ∧ _)
  all_goals (try subst_vars)))

/-- after `fun_cases F …` with `h : F … = some (sh', stk')`: compute every branch and substitute -/
macro "branches" h:ident : tactic => `(tactic| (
  all_goals (try simp only [pipeStep, reduceCtorEq, ↓reduceIte, and_self, and_true, true_and, if_true, if_false, *] at $h:ident)
  all_goals (try simp only [Option.some.injEq, Prod.mk.injEq, reduceCtorEq] at $h:ident)
  all_goals (try simp only [release_some, beginStage_some, takeTask_some] at *)
  all_goals (try casesm* _ ∧ _)
  all_goals (try subst_vars)))

/-- like `branches`, and also expands the facts about `destroyOwned` -/
macro "branches'" h:ident : tactic => `(tactic| (
  all_goals (try simp only [pipeStep, reduceCtorEq, ↓reduceIte, and_self, and_true, true_and, if_true, if_false, *] at $h:ident)
  all_goals (try simp only [Option.some.injEq, Prod.mk.injEq, reduceCtorEq] at $h:ident)
  all_goals (try simp only [release_some, beginStage_some, takeTask_some, destroyOwned_some] at *)
  all_goals (try casesm* _ ∧ _, _ ∨ _, ∃ _, _)
  all_goals (try subst_vars)))

end Dispenso.Pipe
