import DispensoVerif.Model.ConVecGrow
import DispensoVerif.Proofs.ConVecAlloc
/-!
Helper lemmas for C33 (concurrent growth of `ConcurrentVector`): inversion of `Conc.exec` for the
growth protocol, the reservation / ownership functions on thread-local states, the per-location
facts `LocOk`, the inductive invariant `Inv` and its preservation by every action, and the
history lemma about the `fetch_add`s on `size_`.  Core Lean only.
-/
namespace Dispenso.ConVecGrow
open Dispenso.Conc Dispenso.ConVec Dispenso.ConVecAlloc

/-! ### projections of the state updates -/

@[simp] theorem setLoc_loc {P : Proto} (s : State P) (t u : TId) (l : P.L) :
    (setLoc s t l).loc u = if u = t then l else s.loc u := rfl
@[simp] theorem setLoc_mem {P : Proto} (s : State P) (t : TId) (l : P.L) :
    (setLoc s t l).mem = s.mem := rfl
@[simp] theorem setLoc_parked {P : Proto} (s : State P) (t : TId) (l : P.L) :
    (setLoc s t l).parked = s.parked := rfl
@[simp] theorem setMem_loc {P : Proto} (s : State P) (f : Fld) (v : Int) :
    (setMem s f v).loc = s.loc := rfl
@[simp] theorem setMem_mem {P : Proto} (s : State P) (f g : Fld) (v : Int) :
    (setMem s f v).mem g = if g = f then v else s.mem g := rfl
@[simp] theorem setMem_parked {P : Proto} (s : State P) (f : Fld) (v : Int) :
    (setMem s f v).parked = s.parked := rfl

/-- memory after writing `v` to field `f` -/
def upd (m : Fld → Int) (f : Fld) (v : Int) : Fld → Int := fun g => if g = f then v else m g

@[simp] theorem upd_self (m : Fld → Int) (f : Fld) (v : Int) : upd m f v f = v := by simp [upd]
theorem upd_ne (m : Fld → Int) {f g : Fld} (v : Int) (h : g ≠ f) : upd m f v g = m g := by simp [upd, h]

theorem fBuf_ne_size (b : Nat) : fBuf b ≠ fSize := by
  show (2 * b + 1 : Nat) ≠ 0; omega
theorem fEl_ne_size (k : Nat) : fEl k ≠ fSize := by
  show (2 * k + 2 : Nat) ≠ 0; omega
theorem fBuf_ne_fEl (b k : Nat) : fBuf b ≠ fEl k := by
  show (2 * b + 1 : Nat) ≠ 2 * k + 2; omega
theorem fEl_ne_fBuf (b k : Nat) : fEl k ≠ fBuf b := by
  show (2 * k + 2 : Nat) ≠ 2 * b + 1; omega
theorem fBuf_inj {a b : Nat} (h : fBuf a = fBuf b) : a = b := by
  have h' : (2 * a + 1 : Nat) = 2 * b + 1 := h; omega
theorem fEl_inj {a b : Nat} (h : fEl a = fEl b) : a = b := by
  have h' : (2 * a + 2 : Nat) = 2 * b + 2 := h; omega
theorem tok_ne (i : Nat) : tok i ≠ 0 := by unfold tok; omega

/-! ### inversion of `exec` -/

/-- the three kinds of atomic operations the protocol performs -/
inductive Eff (m : Fld → Int) : AOp → Int → (Fld → Int) → Prop where
  | load f : Eff m (.load f) (m f) m
  | store f v : Eff m (.store f v) 0 (upd m f v)
  | fadd f v : Eff m (.fadd f v) (m f) (upd m f (m f + v))

theorem op_kind (c : GCfg) (l : L) (o : AOp) (h : op c l = some o) :
    (∃ f, o = .load f) ∨ (∃ f v, o = .store f v) ∨ (∃ f v, o = .fadd f v) := by
  cases l <;> simp only [op, Option.some.injEq, reduceCtorEq] at h <;> subst h <;> simp

/-- Every enabled action of the protocol in a state without parked threads is a client call or one
atomic operation of some thread. -/
theorem exec_inv (c : GCfg) {s s' : State (proto c)} {a : Act (proto c)} (hnp : ∀ t, s.parked t = none)
    (he : exec s a = some s') :
    (∃ t l, a = .call t l ∧ isIdle (s.loc t) = true ∧ isEntry c l = true ∧
        s'.mem = s.mem ∧ s'.parked = s.parked ∧
        s'.loc = fun u => if u = t then l else s.loc u) ∨
    (∃ t o r, a = .step t ∧ op c (s.loc t) = some o ∧ Eff s.mem o r s'.mem ∧ s'.parked = s.parked ∧
        s'.loc = fun u => if u = t then cont c (s.loc t) r else s.loc u) := by
  cases a with
  | call t l =>
    left
    simp only [exec] at he
    split at he
    · rename_i hc
      obtain ⟨_, hop, hentry⟩ := hc
      have hentry' : (isIdle (s.loc t) && isEntry c l) = true := hentry
      simp only [Bool.and_eq_true] at hentry'
      cases he
      exact ⟨t, l, rfl, hentry'.1, hentry'.2, rfl, rfl, rfl⟩
    · cases he
  | step t =>
    right
    simp only [exec, hnp, ne_eq, not_true_eq_false, ↓reduceIte] at he
    have hop : (proto c).op (s.loc t) = op c (s.loc t) := rfl
    have hcont : ∀ r, (proto c).cont (s.loc t) r = cont c (s.loc t) r := fun _ => rfl
    rw [hop] at he
    cases ho : op c (s.loc t) with
    | none => rw [ho] at he; cases he
    | some o =>
      rw [ho] at he
      rcases op_kind c _ o ho with ⟨f, rfl⟩ | ⟨f, v, rfl⟩ | ⟨f, v, rfl⟩
      · simp only [memEffect, hcont] at he
        cases he
        exact ⟨t, _, _, rfl, ho, .load f, rfl, rfl⟩
      · simp only [memEffect, hcont] at he
        cases he
        exact ⟨t, _, _, rfl, ho, .store f v, rfl, rfl⟩
      · simp only [memEffect, hcont] at he
        cases he
        exact ⟨t, _, _, rfl, ho, .fadd f v, rfl, rfl⟩
  | wake t ws =>
    exfalso
    simp only [exec, hnp, ne_eq, not_true_eq_false, ↓reduceIte] at he
    have hop : (proto c).op (s.loc t) = op c (s.loc t) := rfl
    rw [hop] at he
    cases ho : op c (s.loc t) with
    | none => rw [ho] at he; cases he
    | some o =>
      rw [ho] at he
      rcases op_kind c _ o ho with ⟨f, rfl⟩ | ⟨f, v, rfl⟩ | ⟨f, v, rfl⟩ <;> cases he
  | timeout t => simp [exec, hnp] at he
  | spurious t => simp [exec, hnp] at he

/-! ### a visited bucket is one whose trigger index lies in the reserved range -/

theorem inT_trig (st : Strat) (s i d k : Nat) (h : inT st s i d k) :
    1 ≤ k ∧ i ≤ trigAbs st s (k - 1) ∧ trigAbs st s (k - 1) < i + d := by
  have hge := inT_ge st s i d k h
  have hBE : bk s i ≤ bk s (i + d) := bk_mono s (by omega)
  obtain ⟨k', rfl⟩ : ∃ k', k = k' + 1 := ⟨k - 1, by omega⟩
  simp only [Nat.add_sub_cancel]
  refine ⟨by omega, ?_⟩
  rw [inT_iff] at h
  obtain ⟨h1, h2⟩ := h
  have hlow : bk s i < k' → i ≤ trigAbs st s k' := by
    intro hlt
    have a1 := bk_lt_next s i
    have a2 := bucketStart_mono s (show bk s i + 1 ≤ k' by omega)
    have a3 := trigAbs_ge st s k'
    omega
  have hhigh : k' < bk s (i + d) → trigAbs st s k' < i + d := by
    intro hlt
    have a1 := trigAbs_lt st s k'
    have a2 := bucketStart_mono s (show k' + 1 ≤ bk s (i + d) by omega)
    have a3 := bk_start_le s (i + d)
    omega
  by_cases hc : i ≤ trigAbs st s (bk s i) ∧ trigAbs st s (bk s i) < i + d
  · simp only [hc, and_self, if_true] at h2
    by_cases e : k' = bk s i
    · rw [e]; exact hc
    · rcases h2 with h2 | h2
      · exact ⟨hlow (by omega), hhigh (by omega)⟩
      · have hk : k' = bk s (i + d) := by omega
        have hl := hlow (by omega)
        rw [hk] at hl ⊢
        exact ⟨hl, h2.1⟩
  · simp only [hc, if_false] at h2
    have hlt : bk s i < bk s (i + d) := by rcases h1 with h1 | h1; exact absurd h1 hc; exact h1
    rcases h2 with h2 | h2
    · exact ⟨hlow (by omega), hhigh (by omega)⟩
    · have hk : k' = bk s (i + d) := by omega
      have hl := hlow (by omega)
      rw [hk] at hl ⊢
      exact ⟨hl, h2.1⟩

/-! ### reservations, ownership and per-location facts -/

/-- the reservation `[i, i+d)` a call holds from its `fetch_add` until the thread's next call -/
def rangeOf : L → Option (Nat × Nat)
  | .done i d _ _ => some (i, d)
  | .eLoadNext i _ => some (i, 1)
  | .eStoreNext i _ => some (i, 1)
  | .eWait i _ => some (i, 1)
  | .eIter i _ => some (i, 1)
  | .eWrite i _ => some (i, 1)
  | .gCount i d _ _ _ _ _ _ => some (i, d)
  | .gAssign i d _ _ _ _ _ => some (i, d)
  | .gStore i d _ _ _ _ _ => some (i, d)
  | .gWait i d _ _ _ => some (i, d)
  | .gIter i d _ _ => some (i, d)
  | .gWrite i d _ _ _ => some (i, d)
  | _ => none

/-- reserved indices that are not constructed yet -/
def unwr : L → Nat → Prop
  | .eLoadNext i _, x => x = i
  | .eStoreNext i _, x => x = i
  | .eWait i _, x => x = i
  | .eIter i _, x => x = i
  | .eWrite i _, x => x = i
  | .gCount i d _ _ _ _ _ _, x => i ≤ x ∧ x < i + d
  | .gAssign i d _ _ _ _ _, x => i ≤ x ∧ x < i + d
  | .gStore i d _ _ _ _ _, x => i ≤ x ∧ x < i + d
  | .gWait i d _ _ _, x => i ≤ x ∧ x < i + d
  | .gIter i d _ _, x => i ≤ x ∧ x < i + d
  | .gWrite i d _ _ j, x => i + j ≤ x ∧ x < i + d
  | _, _ => False

/-- the bucket whose pointer the thread is about to store -/
def pstore (c : GCfg) : L → Option Nat
  | .eStoreNext i _ => some (bkt c i + 1)
  | .gStore _ _ _ _ b _ _ => some b
  | _ => none

/-- element tags are non-zero -/
def valOk (v stp : Int) : Prop := (0 < v ∧ 0 ≤ stp) ∨ (v < 0 ∧ stp = 0)

theorem valOk_ne {v stp : Int} (h : valOk v stp) (j : Nat) : v + stp * j ≠ 0 := by
  rcases h with ⟨h1, h2⟩ | ⟨h1, h2⟩
  · have : 0 ≤ stp * (j : Int) := Int.mul_nonneg h2 (Int.natCast_nonneg j)
    omega
  · subst h2; simp; omega

/-- buckets `[bucket i, b)` are allocated -/
def waited (c : GCfg) (m : Fld → Int) (i b : Nat) : Prop :=
  ∀ b', bkt c i ≤ b' → b' < b → m (fBuf b') ≠ 0

/-- what is known when a thread is at a given location -/
def LocOk (c : GCfg) (m : Fld → Int) : L → Prop
  | .done i d v stp => valOk v stp ∧ ∀ j, j < d → m (fEl (i + j)) = v + stp * j
  | .eAdd v => 0 < v
  | .eLoadNext i v => 0 < v ∧ i = trigAbs c.st c.s (bkt c i)
  | .eStoreNext i v => 0 < v ∧ i = trigAbs c.st c.s (bkt c i) ∧ m (fBuf (bkt c i + 1)) = 0
  | .eWait _ v => 0 < v
  | .eIter i v => 0 < v ∧ m (fBuf (bkt c i)) ≠ 0
  | .eWrite i v => 0 < v ∧ m (fBuf (bkt c i)) ≠ 0
  | .tLoad n v => 1 ≤ n ∧ v ≠ 0
  | .gAdd _ v stp => valOk v stp
  | .gCount i d v stp b cap rest _ => valOk v stp ∧ ∃ pre, pre ++ (b, cap) :: rest = targets c i d
  | .gAssign i d v stp b rest _ => valOk v stp ∧ ∃ pre cap, pre ++ (b, cap) :: rest = targets c i d
  | .gStore i d v stp b rest _ =>
    valOk v stp ∧ (∃ pre cap, pre ++ (b, cap) :: rest = targets c i d) ∧ m (fBuf b) = 0
  | .gWait i d v stp b => valOk v stp ∧ bkt c i ≤ b ∧ b ≤ bkt c (i + d) ∧ waited c m i b
  | .gIter i d v stp => valOk v stp ∧ waited c m i (bkt c (i + d) + 1)
  | .gWrite i d v stp j =>
    valOk v stp ∧ j < d ∧ waited c m i (bkt c (i + d) + 1) ∧ ∀ j', j' < j → m (fEl (i + j')) = v + stp * j'
  | .rRead k => k < c.n0
  | _ => True

theorem unwr_range {l : L} {x : Nat} (h : unwr l x) : ∃ i d, rangeOf l = some (i, d) ∧ i ≤ x ∧ x < i + d := by
  cases l <;> simp only [unwr] at h <;> first | exact absurd h id | skip
  all_goals simp only [rangeOf, Option.some.injEq, Prod.mk.injEq]
  all_goals first
    | exact ⟨_, _, ⟨rfl, rfl⟩, by omega, by omega⟩

/-- a pending pointer store is for a bucket whose trigger index lies in the thread's reservation -/
theorem own_of_pstore (c : GCfg) {m : Fld → Int} {l : L} {k : Nat} (hk : LocOk c m l) (hp : pstore c l = some k) :
    ∃ i d, rangeOf l = some (i, d) ∧ 1 ≤ k ∧ i ≤ trigAbs c.st c.s (k - 1) ∧ trigAbs c.st c.s (k - 1) < i + d ∧
      m (fBuf k) = 0 := by
  cases l <;> simp only [pstore, Option.some.injEq, reduceCtorEq] at hp
  case eStoreNext i v =>
    subst hp
    obtain ⟨_, h2, h3⟩ := hk
    refine ⟨i, 1, rfl, by omega, ?_, ?_, h3⟩
    · simp only [Nat.add_sub_cancel]; omega
    · simp only [Nat.add_sub_cancel]; omega
  case gStore i d v stp b rest hv =>
    subst hp
    obtain ⟨_, ⟨pre, cap, h2⟩, h3⟩ := hk
    have hin : inT c.st c.s i d b := ⟨cap, by
      show (b, cap) ∈ targets c i d
      rw [← h2]; simp⟩
    obtain ⟨a1, a2, a3⟩ := inT_trig c.st c.s i d b hin
    exact ⟨i, d, rfl, a1, a2, a3, h3⟩

/-! ### frame lemmas: what another thread's write leaves intact -/

theorem waited_upd_buf {c : GCfg} {m : Fld → Int} {i b : Nat} (h : waited c m i b) (k : Nat) {v : Int}
    (hv : v ≠ 0) : waited c (upd m (fBuf k) v) i b := by
  intro b' h1 h2
  by_cases e : b' = k
  · subst e; rw [upd_self]; exact hv
  · rw [upd_ne _ _ (fun x => e (fBuf_inj x))]; exact h b' h1 h2

theorem waited_upd_el {c : GCfg} {m : Fld → Int} {i b : Nat} (h : waited c m i b) (x : Nat) (v : Int) :
    waited c (upd m (fEl x) v) i b := by
  intro b' h1 h2
  rw [upd_ne _ _ (fBuf_ne_fEl b' x)]; exact h b' h1 h2

theorem waited_upd_size {c : GCfg} {m : Fld → Int} {i b : Nat} (h : waited c m i b) (v : Int) :
    waited c (upd m fSize v) i b := by
  intro b' h1 h2
  rw [upd_ne _ _ (fBuf_ne_size b')]; exact h b' h1 h2

theorem frame_size (c : GCfg) (m : Fld → Int) (l : L) (v : Int) (h : LocOk c m l) :
    LocOk c (upd m fSize v) l := by
  cases l <;> simp only [LocOk] at h ⊢ <;>
    (try simp only [upd_ne _ _ (fBuf_ne_size _), upd_ne _ _ (fEl_ne_size _)]) <;>
    first
    | exact h
    | exact ⟨h.1, h.2.1, h.2.2.1, waited_upd_size h.2.2.2 v⟩
    | exact ⟨h.1, waited_upd_size h.2 v⟩
    | exact ⟨h.1, h.2.1, waited_upd_size h.2.2.1 v, h.2.2.2⟩

theorem frame_buf (c : GCfg) (m : Fld → Int) (l : L) (k : Nat) (v : Int) (hv : v ≠ 0)
    (hps : pstore c l ≠ some k) (h : LocOk c m l) : LocOk c (upd m (fBuf k) v) l := by
  cases l <;> simp only [LocOk] at h ⊢ <;>
    (try simp only [upd_ne _ _ (fEl_ne_fBuf _ _)]) <;>
    first
    | exact h
    | skip
  case eStoreNext i v' =>
    have : bkt c i + 1 ≠ k := by
      intro e; apply hps; simp only [pstore, e]
    rw [upd_ne _ _ (fun x => this (fBuf_inj x))]; exact h
  case eIter i v' =>
    refine ⟨h.1, ?_⟩
    by_cases e : bkt c i = k
    · rw [e, upd_self]; exact hv
    · rw [upd_ne _ _ (fun x => e (fBuf_inj x))]; exact h.2
  case eWrite i v' =>
    refine ⟨h.1, ?_⟩
    by_cases e : bkt c i = k
    · rw [e, upd_self]; exact hv
    · rw [upd_ne _ _ (fun x => e (fBuf_inj x))]; exact h.2
  case gStore i d v' stp b rest hv' =>
    have : b ≠ k := by
      intro e; apply hps; simp only [pstore, e]
    rw [upd_ne _ _ (fun x => this (fBuf_inj x))]; exact h
  case gWait i d v' stp b => exact ⟨h.1, h.2.1, h.2.2.1, waited_upd_buf h.2.2.2 k hv⟩
  case gIter i d v' stp => exact ⟨h.1, waited_upd_buf h.2 k hv⟩
  case gWrite i d v' stp j => exact ⟨h.1, h.2.1, waited_upd_buf h.2.2.1 k hv, h.2.2.2⟩

theorem frame_el (c : GCfg) (m : Fld → Int) (l : L) (x : Nat) (v : Int)
    (hx : ∀ i d, rangeOf l = some (i, d) → ¬ (i ≤ x ∧ x < i + d)) (h : LocOk c m l) :
    LocOk c (upd m (fEl x) v) l := by
  cases l <;> simp only [LocOk] at h ⊢ <;>
    (try simp only [upd_ne _ _ (fBuf_ne_fEl _ _)]) <;>
    first
    | exact h
    | skip
  case done i d v' stp =>
    refine ⟨h.1, fun j hj => ?_⟩
    have : i + j ≠ x := by
      intro e; exact hx i d rfl ⟨by omega, by omega⟩
    rw [upd_ne _ _ (fun y => this (fEl_inj y))]; exact h.2 j hj
  case gWait i d v' stp b => exact ⟨h.1, h.2.1, h.2.2.1, waited_upd_el h.2.2.2 x v⟩
  case gIter i d v' stp => exact ⟨h.1, waited_upd_el h.2 x v⟩
  case gWrite i d v' stp j =>
    refine ⟨h.1, h.2.1, waited_upd_el h.2.2.1 x v, fun j' hj' => ?_⟩
    have : i + j' ≠ x := by
      intro e; exact hx i d rfl ⟨by omega, by omega⟩
    rw [upd_ne _ _ (fun y => this (fEl_inj y))]; exact h.2.2.2 j' hj'

/-! ### the inductive invariant -/

def szN {c : GCfg} (s : State (proto c)) : Nat := (s.mem fSize).toNat

structure Inv (c : GCfg) (el0 : Nat → Int) (s : State (proto c)) : Prop where
  np : ∀ t, s.parked t = none
  szeq : s.mem fSize = (szN s : Int)
  n0le : c.n0 ≤ szN s
  /-- reservations lie inside `[n0, size)` -/
  rng : ∀ t i d, rangeOf (s.loc t) = some (i, d) → c.n0 ≤ i ∧ i + d ≤ szN s
  /-- reservations of different threads are disjoint -/
  disj : ∀ t u i d i' d', t ≠ u → rangeOf (s.loc t) = some (i, d) → rangeOf (s.loc u) = some (i', d') →
    i + d ≤ i' ∨ i' + d' ≤ i
  /-- nothing is constructed at or above `size`, nor at a reserved index not yet reached -/
  el0z : ∀ x, szN s ≤ x → s.mem (fEl x) = 0
  unw : ∀ t x, unwr (s.loc t) x → s.mem (fEl x) = 0
  /-- every index in `[n0, size)` is constructed or still owned by a running call -/
  wr : ∀ x, c.n0 ≤ x → x < szN s → s.mem (fEl x) ≠ 0 ∨ ∃ t, unwr (s.loc t) x
  old : ∀ x, x < c.n0 → s.mem (fEl x) = el0 x
  locOk : ∀ t, LocOk c s.mem (s.loc t)

theorem szN_upd_size {c : GCfg} (s s' : State (proto c)) (d : Nat)
    (hm : s'.mem = upd s.mem fSize (s.mem fSize + d)) (hz : s.mem fSize = (szN s : Int)) :
    szN s' = szN s + d ∧ s'.mem fSize = (szN s' : Int) := by
  unfold szN at *
  rw [hm, upd_self]
  omega

theorem szN_same {c : GCfg} (s s' : State (proto c)) (h : s'.mem fSize = s.mem fSize) : szN s' = szN s := by
  unfold szN; rw [h]

section steps
variable {c : GCfg} {el0 : Nat → Int} {s s' : State (proto c)}

/-- a step of thread `t` that does not write memory and keeps its reservation -/
theorem inv_load (hI : Inv c el0 s) (t : TId) (l' : L)
    (hm : s'.mem = s.mem) (hp : s'.parked = s.parked)
    (hloc : s'.loc = fun u => if u = t then l' else s.loc u)
    (hr : rangeOf l' = rangeOf (s.loc t)) (hu : ∀ x, unwr l' x ↔ unwr (s.loc t) x)
    (hk : LocOk c s.mem l') : Inv c el0 s' := by
  have hN : szN s' = szN s := szN_same s s' (by rw [hm])
  have hR : ∀ u, rangeOf (s'.loc u) = rangeOf (s.loc u) := by
    intro u; rw [hloc]; by_cases e : u = t
    · simp only [e, ↓reduceIte]; exact hr
    · simp only [e, ↓reduceIte]
  have hU : ∀ u x, unwr (s'.loc u) x ↔ unwr (s.loc u) x := by
    intro u x; rw [hloc]; by_cases e : u = t
    · simp only [e, ↓reduceIte]; exact hu x
    · simp only [e, ↓reduceIte]
  refine ⟨by rw [hp]; exact hI.np, by rw [hm, hN]; exact hI.szeq, by rw [hN]; exact hI.n0le, ?_, ?_, ?_, ?_, ?_, ?_, ?_⟩
  · intro u i d h; rw [hR] at h; rw [hN]; exact hI.rng u i d h
  · intro u w i d i' d' hne h1 h2; rw [hR] at h1 h2; exact hI.disj u w i d i' d' hne h1 h2
  · intro x hx; rw [hN] at hx; rw [hm]; exact hI.el0z x hx
  · intro u x hx; rw [hU] at hx; rw [hm]; exact hI.unw u x hx
  · intro x h1 h2; rw [hN] at h2; rw [hm]
    rcases hI.wr x h1 h2 with h | ⟨u, h⟩
    · exact Or.inl h
    · exact Or.inr ⟨u, (hU u x).2 h⟩
  · intro x hx; rw [hm]; exact hI.old x hx
  · intro u; rw [hm, hloc]; by_cases e : u = t
    · simp only [e, ↓reduceIte]; exact hk
    · simp only [e, ↓reduceIte]; exact hI.locOk u

/-- thread `t` publishes the pointer of bucket `k` -/
theorem inv_bufstore (hI : Inv c el0 s) (t : TId) (l' : L) (k : Nat) (v : Int) (hv : v ≠ 0)
    (hps : pstore c (s.loc t) = some k)
    (hm : s'.mem = upd s.mem (fBuf k) v) (hp : s'.parked = s.parked)
    (hloc : s'.loc = fun u => if u = t then l' else s.loc u)
    (hr : rangeOf l' = rangeOf (s.loc t)) (hu : ∀ x, unwr l' x ↔ unwr (s.loc t) x)
    (hk : LocOk c s'.mem l') : Inv c el0 s' := by
  have hsz : s'.mem fSize = s.mem fSize := by rw [hm, upd_ne _ _ (fun e => fBuf_ne_size k e.symm)]
  have hel : ∀ x, s'.mem (fEl x) = s.mem (fEl x) := by intro x; rw [hm, upd_ne _ _ (fEl_ne_fBuf k x)]
  have hN : szN s' = szN s := szN_same s s' hsz
  have hR : ∀ u, rangeOf (s'.loc u) = rangeOf (s.loc u) := by
    intro u; rw [hloc]; by_cases e : u = t
    · simp only [e, ↓reduceIte]; exact hr
    · simp only [e, ↓reduceIte]
  have hU : ∀ u x, unwr (s'.loc u) x ↔ unwr (s.loc u) x := by
    intro u x; rw [hloc]; by_cases e : u = t
    · simp only [e, ↓reduceIte]; exact hu x
    · simp only [e, ↓reduceIte]
  refine ⟨by rw [hp]; exact hI.np, by rw [hsz, hN]; exact hI.szeq, by rw [hN]; exact hI.n0le, ?_, ?_, ?_, ?_, ?_, ?_, ?_⟩
  · intro u i d h; rw [hR] at h; rw [hN]; exact hI.rng u i d h
  · intro u w i d i' d' hne h1 h2; rw [hR] at h1 h2; exact hI.disj u w i d i' d' hne h1 h2
  · intro x hx; rw [hN] at hx; rw [hel]; exact hI.el0z x hx
  · intro u x hx; rw [hU] at hx; rw [hel]; exact hI.unw u x hx
  · intro x h1 h2; rw [hN] at h2; rw [hel]
    rcases hI.wr x h1 h2 with h | ⟨u, h⟩
    · exact Or.inl h
    · exact Or.inr ⟨u, (hU u x).2 h⟩
  · intro x hx; rw [hel]; exact hI.old x hx
  · intro u; rw [hloc]; by_cases e : u = t
    · simp only [e, ↓reduceIte]; exact hk
    · simp only [e, ↓reduceIte]; rw [hm]
      apply frame_buf c s.mem (s.loc u) k v hv _ (hI.locOk u)
      intro hpu
      obtain ⟨i, d, r1, _, a2, a3, _⟩ := own_of_pstore c (hI.locOk t) hps
      obtain ⟨i', d', r2, _, b2, b3, _⟩ := own_of_pstore c (hI.locOk u) hpu
      have := hI.disj u t i' d' i d e r2 r1
      omega

/-- thread `t` constructs the element at index `x` -/
theorem inv_elstore (hI : Inv c el0 s) (t : TId) (l' : L) (x : Nat) (v : Int) (hv : v ≠ 0)
    (hx : unwr (s.loc t) x)
    (hm : s'.mem = upd s.mem (fEl x) v) (hp : s'.parked = s.parked)
    (hloc : s'.loc = fun u => if u = t then l' else s.loc u)
    (hr : rangeOf l' = rangeOf (s.loc t)) (hu : ∀ y, unwr l' y ↔ (unwr (s.loc t) y ∧ y ≠ x))
    (hk : LocOk c s'.mem l') : Inv c el0 s' := by
  obtain ⟨i, d, hrt, hx1, hx2⟩ := unwr_range hx
  have hrg := hI.rng t i d hrt
  have hsz : s'.mem fSize = s.mem fSize := by rw [hm, upd_ne _ _ (fun e => fEl_ne_size x e.symm)]
  have hN : szN s' = szN s := szN_same s s' hsz
  have hR : ∀ u, rangeOf (s'.loc u) = rangeOf (s.loc u) := by
    intro u; rw [hloc]; by_cases e : u = t
    · simp only [e, ↓reduceIte]; exact hr
    · simp only [e, ↓reduceIte]
  have hother : ∀ u, u ≠ t → ∀ i' d', rangeOf (s.loc u) = some (i', d') → ¬ (i' ≤ x ∧ x < i' + d') := by
    intro u hne i' d' h
    have := hI.disj u t i' d' i d hne h hrt
    omega
  have hne_el : ∀ y, y ≠ x → s'.mem (fEl y) = s.mem (fEl y) := by
    intro y hy; rw [hm, upd_ne _ _ (fun e => hy (fEl_inj e))]
  refine ⟨by rw [hp]; exact hI.np, by rw [hsz, hN]; exact hI.szeq, by rw [hN]; exact hI.n0le, ?_, ?_, ?_, ?_, ?_, ?_, ?_⟩
  · intro u i' d' h; rw [hR] at h; rw [hN]; exact hI.rng u i' d' h
  · intro u w i1 d1 i2 d2 hne h1 h2; rw [hR] at h1 h2; exact hI.disj u w i1 d1 i2 d2 hne h1 h2
  · intro y hy; rw [hN] at hy; rw [hne_el y (by omega)]; exact hI.el0z y hy
  · intro u y hy
    rw [hloc] at hy
    by_cases e : u = t
    · simp only [e, ↓reduceIte] at hy
      obtain ⟨h1, h2⟩ := (hu y).1 hy
      rw [hne_el y h2]; exact hI.unw t y h1
    · simp only [e, ↓reduceIte] at hy
      obtain ⟨i', d', r2, y1, y2⟩ := unwr_range hy
      have := hother u e i' d' r2
      rw [hne_el y (by omega)]; exact hI.unw u y hy
  · intro y h1 h2; rw [hN] at h2
    by_cases ey : y = x
    · left; rw [ey, hm, upd_self]; exact hv
    · rw [hne_el y ey]
      rcases hI.wr y h1 h2 with h | ⟨u, h⟩
      · exact Or.inl h
      · right
        refine ⟨u, ?_⟩
        rw [hloc]
        by_cases e : u = t
        · simp only [e, ↓reduceIte]; rw [e] at h; exact (hu y).2 ⟨h, ey⟩
        · simp only [e, ↓reduceIte]; exact h
  · intro y hy; rw [hne_el y (by omega)]; exact hI.old y hy
  · intro u; rw [hloc]; by_cases e : u = t
    · simp only [e, ↓reduceIte]; exact hk
    · simp only [e, ↓reduceIte]; rw [hm]
      exact frame_el c s.mem (s.loc u) x v (hother u e) (hI.locOk u)

/-- thread `t` reserves `[size, size + d)` -/
theorem inv_fadd (hI : Inv c el0 s) (t : TId) (l' : L) (d : Nat)
    (hnone : rangeOf (s.loc t) = none)
    (hm : s'.mem = upd s.mem fSize (s.mem fSize + d)) (hp : s'.parked = s.parked)
    (hloc : s'.loc = fun u => if u = t then l' else s.loc u)
    (hr : rangeOf l' = some (szN s, d)) (hu : ∀ x, unwr l' x ↔ (szN s ≤ x ∧ x < szN s + d))
    (hk : LocOk c s'.mem l') : Inv c el0 s' := by
  obtain ⟨hN, hsz⟩ := szN_upd_size s s' d hm hI.szeq
  have hel : ∀ x, s'.mem (fEl x) = s.mem (fEl x) := by intro x; rw [hm, upd_ne _ _ (fEl_ne_size x)]
  have hnu : ∀ x, ¬ unwr (s.loc t) x := by
    intro x hx
    obtain ⟨i, d', h, _⟩ := unwr_range hx
    rw [hnone] at h; cases h
  refine ⟨by rw [hp]; exact hI.np, hsz, by rw [hN]; have := hI.n0le; omega, ?_, ?_, ?_, ?_, ?_, ?_, ?_⟩
  · intro u i d' h
    rw [hloc] at h
    by_cases e : u = t
    · simp only [e, ↓reduceIte] at h; rw [hr] at h; cases h
      have := hI.n0le; omega
    · simp only [e, ↓reduceIte] at h
      have := hI.rng u i d' h; omega
  · intro u w i1 d1 i2 d2 hne h1 h2
    rw [hloc] at h1 h2
    by_cases e1 : u = t
    · simp only [e1, ↓reduceIte] at h1; rw [hr] at h1; cases h1
      have e2 : w ≠ t := fun x => hne (e1.trans x.symm)
      simp only [e2, ↓reduceIte] at h2
      have := hI.rng w i2 d2 h2; omega
    · simp only [e1, ↓reduceIte] at h1
      by_cases e2 : w = t
      · simp only [e2, ↓reduceIte] at h2; rw [hr] at h2; cases h2
        have := hI.rng u i1 d1 h1; omega
      · simp only [e2, ↓reduceIte] at h2
        exact hI.disj u w i1 d1 i2 d2 hne h1 h2
  · intro x hx; rw [hel]; exact hI.el0z x (by omega)
  · intro u x hx
    rw [hloc] at hx; rw [hel]
    by_cases e : u = t
    · simp only [e, ↓reduceIte] at hx
      exact hI.el0z x ((hu x).1 hx).1
    · simp only [e, ↓reduceIte] at hx; exact hI.unw u x hx
  · intro x h1 h2; rw [hel]
    by_cases hlt : x < szN s
    · rcases hI.wr x h1 hlt with h | ⟨u, h⟩
      · exact Or.inl h
      · right; refine ⟨u, ?_⟩
        have e : u ≠ t := by intro e; rw [e] at h; exact hnu x h
        rw [hloc]; simp only [e, ↓reduceIte]; exact h
    · right; refine ⟨t, ?_⟩
      rw [hloc]; simp only [↓reduceIte]; exact (hu x).2 ⟨by omega, by omega⟩
  · intro x hx; rw [hel]; exact hI.old x hx
  · intro u; rw [hloc]; by_cases e : u = t
    · simp only [e, ↓reduceIte]; exact hk
    · simp only [e, ↓reduceIte]; rw [hm]; exact frame_size c s.mem (s.loc u) _ (hI.locOk u)

theorem idle_no_unwr {l : L} (h : isIdle l = true) (x : Nat) : ¬ unwr l x := by
  cases l <;> simp [isIdle, unwr] at h ⊢

theorem entry_facts (c : GCfg) (m : Fld → Int) {l : L} (h : isEntry c l = true) :
    rangeOf l = none ∧ (∀ x, ¬ unwr l x) ∧ LocOk c m l := by
  cases l <;> simp only [isEntry, Bool.false_eq_true] at h
  case eAdd v => exact ⟨rfl, fun _ h => h, by simpa [LocOk] using h⟩
  case gAdd d v stp =>
    refine ⟨rfl, fun _ h => h, ?_⟩
    simp only [Bool.or_eq_true, Bool.and_eq_true, decide_eq_true_eq] at h
    exact h
  case tLoad n v =>
    refine ⟨rfl, fun _ h => h, ?_⟩
    simp only [Bool.and_eq_true, decide_eq_true_eq] at h
    exact h
  case rRead k => exact ⟨rfl, fun _ h => h, by simpa [LocOk] using h⟩

theorem inv_call (hI : Inv c el0 s) (t : TId) (l' : L)
    (hidle : isIdle (s.loc t) = true) (hent : isEntry c l' = true)
    (hm : s'.mem = s.mem) (hp : s'.parked = s.parked)
    (hloc : s'.loc = fun u => if u = t then l' else s.loc u) : Inv c el0 s' := by
  obtain ⟨e1, e2, e3⟩ := entry_facts c s.mem hent
  have hN : szN s' = szN s := szN_same s s' (by rw [hm])
  refine ⟨by rw [hp]; exact hI.np, by rw [hm, hN]; exact hI.szeq, by rw [hN]; exact hI.n0le, ?_, ?_, ?_, ?_, ?_, ?_, ?_⟩
  · intro u i d h
    rw [hloc] at h; rw [hN]
    by_cases e : u = t
    · simp only [e, ↓reduceIte] at h; rw [e1] at h; cases h
    · simp only [e, ↓reduceIte] at h; exact hI.rng u i d h
  · intro u w i1 d1 i2 d2 hne h1 h2
    rw [hloc] at h1 h2
    by_cases e : u = t
    · simp only [e, ↓reduceIte] at h1; rw [e1] at h1; cases h1
    · simp only [e, ↓reduceIte] at h1
      by_cases e' : w = t
      · simp only [e', ↓reduceIte] at h2; rw [e1] at h2; cases h2
      · simp only [e', ↓reduceIte] at h2; exact hI.disj u w i1 d1 i2 d2 hne h1 h2
  · intro x hx; rw [hN] at hx; rw [hm]; exact hI.el0z x hx
  · intro u x hx
    rw [hloc] at hx; rw [hm]
    by_cases e : u = t
    · simp only [e, ↓reduceIte] at hx; exact absurd hx (e2 x)
    · simp only [e, ↓reduceIte] at hx; exact hI.unw u x hx
  · intro x h1 h2; rw [hN] at h2; rw [hm]
    rcases hI.wr x h1 h2 with h | ⟨u, h⟩
    · exact Or.inl h
    · right; refine ⟨u, ?_⟩
      have e : u ≠ t := by intro e; rw [e] at h; exact idle_no_unwr hidle x h
      rw [hloc]; simp only [e, ↓reduceIte]; exact h
  · intro x hx; rw [hm]; exact hI.old x hx
  · intro u; rw [hm, hloc]; by_cases e : u = t
    · simp only [e, ↓reduceIte]; exact e3
    · simp only [e, ↓reduceIte]; exact hI.locOk u

/-! ### facts about the continuation helpers -/

theorem bkt_mono (c : GCfg) {i j : Nat} (h : i ≤ j) : bkt c i ≤ bkt c j := bk_mono c.s h

theorem startWrite_facts (m : Fld → Int) (i d : Nat) (v stp : Int) (hv : valOk v stp)
    (hw : waited c m i (bkt c (i + d) + 1)) :
    rangeOf (startWrite i d v stp) = some (i, d) ∧
      (∀ x, unwr (startWrite i d v stp) x ↔ (i ≤ x ∧ x < i + d)) ∧ LocOk c m (startWrite i d v stp) := by
  unfold startWrite
  by_cases hd : d = 0
  · subst hd
    simp only [if_true]
    refine ⟨rfl, fun x => ?_, hv, fun j hj => absurd hj (Nat.not_lt_zero j)⟩
    simp only [unwr]
    exact ⟨fun h => absurd h id, fun h => by omega⟩
  · simp only [hd, if_false]
    refine ⟨rfl, fun x => ?_, hv, by omega, hw, fun j hj => absurd hj (Nat.not_lt_zero j)⟩
    simp only [unwr, Nat.add_zero]

theorem afterWait_facts (m : Fld → Int) (i d : Nat) (v stp : Int) (hv : valOk v stp)
    (hw : waited c m i (bkt c (i + d) + 1)) :
    rangeOf (afterWait c i d v stp) = some (i, d) ∧
      (∀ x, unwr (afterWait c i d v stp) x ↔ (i ≤ x ∧ x < i + d)) ∧ LocOk c m (afterWait c i d v stp) := by
  unfold afterWait
  cases c.fastIter
  · simp only [Bool.false_eq_true, if_false]; exact startWrite_facts m i d v stp hv hw
  · simp only [if_true]; exact ⟨rfl, fun x => Iff.rfl, hv, hw⟩

theorem waited_nil (m : Fld → Int) (i : Nat) : waited c m i (bkt c i) := by
  intro b h1 h2; omega

theorem nextAssign_facts (m : Fld → Int) (i d : Nat) (v stp : Int) (hv : Bool) (rest : List (Nat × Nat))
    (hval : valOk v stp) (hsuf : ∃ pre, pre ++ rest = targets c i d) :
    rangeOf (nextAssign c i d v stp hv rest) = some (i, d) ∧
      (∀ x, unwr (nextAssign c i d v stp hv rest) x ↔ (i ≤ x ∧ x < i + d)) ∧
      LocOk c m (nextAssign c i d v stp hv rest) := by
  cases rest with
  | nil =>
    exact ⟨rfl, fun x => Iff.rfl, hval, Nat.le_refl _, bkt_mono c (by omega), waited_nil m i⟩
  | cons p r =>
    obtain ⟨b, cap⟩ := p
    obtain ⟨pre, hp⟩ := hsuf
    exact ⟨rfl, fun x => Iff.rfl, hval, pre, cap, hp⟩

/-! ### one atomic operation of a thread keeps the invariant -/

theorem step_eAdd (hI : Inv c el0 s) (t : TId) (v : Int) (hl : s.loc t = L.eAdd v)
    (hm : s'.mem = upd s.mem fSize (s.mem fSize + 1)) (hp : s'.parked = s.parked)
    (hloc : s'.loc = fun u => if u = t then cont c (L.eAdd v) (s.mem fSize) else s.loc u) :
    Inv c el0 s' := by
  have hlk := hI.locOk t
  rw [hl] at hlk
  have hv : 0 < v := hlk
  have hr : (s.mem fSize).toNat = szN s := rfl
  apply inv_fadd hI t _ 1 (by rw [hl]; rfl) (by rw [hm]; rfl) hp hloc
  · simp only [cont, hr]; split <;> rfl
  · intro x
    simp only [cont, hr]
    split <;> simp only [unwr] <;> omega
  · simp only [cont, hr]
    split
    · rename_i htr
      refine ⟨hv, ?_⟩
      have h1 := bidx_eq c.s (szN s)
      have h2 := bcap_eq c.s (szN s)
      have h3 := bk_start_le c.s (szN s)
      unfold trigAbs
      show szN s = bucketStart c.s (bk c.s (szN s)) + allocCheckIndex c.st (bucketCap c.s (bk c.s (szN s)))
      rw [← h2, ← htr, h1]; omega
    · exact hv

theorem step_eLoadNext (hI : Inv c el0 s) (t : TId) (i : Nat) (v : Int) (hl : s.loc t = L.eLoadNext i v)
    (hm : s'.mem = s.mem) (hp : s'.parked = s.parked)
    (hloc : s'.loc = fun u => if u = t then cont c (L.eLoadNext i v) (s.mem (fBuf (bkt c i + 1))) else s.loc u) :
    Inv c el0 s' := by
  have hlk := hI.locOk t
  rw [hl] at hlk
  apply inv_load hI t _ hm hp hloc
  · rw [hl]; simp only [cont]; split <;> rfl
  · intro x; rw [hl]; simp only [cont]; split <;> exact Iff.rfl
  · simp only [cont]; split
    · rename_i h0; exact ⟨hlk.1, hlk.2, h0⟩
    · exact hlk.1

theorem step_eStoreNext (hI : Inv c el0 s) (t : TId) (i : Nat) (v : Int) (hl : s.loc t = L.eStoreNext i v)
    (hm : s'.mem = upd s.mem (fBuf (bkt c i + 1)) (tok i)) (hp : s'.parked = s.parked)
    (hloc : s'.loc = fun u => if u = t then cont c (L.eStoreNext i v) 0 else s.loc u) :
    Inv c el0 s' := by
  have hlk := hI.locOk t
  rw [hl] at hlk
  apply inv_bufstore hI t _ (bkt c i + 1) (tok i) (tok_ne i) (by rw [hl]; rfl) hm hp hloc
  · rw [hl]; rfl
  · intro x; rw [hl]; exact Iff.rfl
  · exact hlk.1

theorem step_eWait (hI : Inv c el0 s) (t : TId) (i : Nat) (v : Int) (hl : s.loc t = L.eWait i v)
    (hm : s'.mem = s.mem) (hp : s'.parked = s.parked)
    (hloc : s'.loc = fun u => if u = t then cont c (L.eWait i v) (s.mem (fBuf (bkt c i))) else s.loc u) :
    Inv c el0 s' := by
  have hlk := hI.locOk t
  rw [hl] at hlk
  apply inv_load hI t _ hm hp hloc
  · rw [hl]; simp only [cont]; split <;> rfl
  · intro x; rw [hl]; simp only [cont]; split <;> exact Iff.rfl
  · simp only [cont]; split
    · exact hlk
    · rename_i h0; exact ⟨hlk, h0⟩

theorem step_eIter (hI : Inv c el0 s) (t : TId) (i : Nat) (v : Int) (hl : s.loc t = L.eIter i v) (r : Int)
    (hm : s'.mem = s.mem) (hp : s'.parked = s.parked)
    (hloc : s'.loc = fun u => if u = t then cont c (L.eIter i v) r else s.loc u) :
    Inv c el0 s' := by
  have hlk := hI.locOk t
  rw [hl] at hlk
  apply inv_load hI t _ hm hp hloc
  · rw [hl]; rfl
  · intro x; rw [hl]; exact Iff.rfl
  · exact hlk

theorem step_eWrite (hI : Inv c el0 s) (t : TId) (i : Nat) (v : Int) (hl : s.loc t = L.eWrite i v)
    (hm : s'.mem = upd s.mem (fEl i) v) (hp : s'.parked = s.parked)
    (hloc : s'.loc = fun u => if u = t then cont c (L.eWrite i v) 0 else s.loc u) :
    Inv c el0 s' := by
  have hlk := hI.locOk t
  rw [hl] at hlk
  have hv : v ≠ 0 := by have := hlk.1; omega
  apply inv_elstore hI t _ i v hv (by rw [hl]; rfl) hm hp hloc
  · rw [hl]; rfl
  · intro y; rw [hl]; simp only [cont, unwr]
    exact ⟨fun h => absurd h id, fun h => absurd h.1 h.2⟩
  · simp only [cont]
    refine ⟨Or.inl ⟨hlk.1, Int.le_refl 0⟩, fun j hj => ?_⟩
    have : j = 0 := by omega
    subst this
    rw [hm]; simp

theorem step_tLoad (hI : Inv c el0 s) (t : TId) (n : Nat) (v : Int) (hl : s.loc t = L.tLoad n v)
    (hm : s'.mem = s.mem) (hp : s'.parked = s.parked)
    (hloc : s'.loc = fun u => if u = t then cont c (L.tLoad n v) (s.mem fSize) else s.loc u) :
    Inv c el0 s' := by
  have hlk := hI.locOk t
  rw [hl] at hlk
  apply inv_load hI t _ hm hp hloc
  · rw [hl]; simp only [cont]; split
    · rfl
    · split <;> rfl
  · intro x; rw [hl]; simp only [cont]; split
    · exact Iff.rfl
    · split <;> exact Iff.rfl
  · simp only [cont]; split
    · have : v ≠ 0 := hlk.2
      show valOk v 0
      by_cases h : 0 < v
      · exact Or.inl ⟨h, Int.le_refl 0⟩
      · exact Or.inr ⟨by omega, rfl⟩
    · split <;> trivial

theorem step_trivial_load (hI : Inv c el0 s) (t : TId) (l' : L)
    (hn : rangeOf (s.loc t) = none) (hn' : rangeOf l' = none) (hk : ∀ m, LocOk c m l')
    (hm : s'.mem = s.mem) (hp : s'.parked = s.parked)
    (hloc : s'.loc = fun u => if u = t then l' else s.loc u) : Inv c el0 s' := by
  apply inv_load hI t l' hm hp hloc (by rw [hn, hn'])
  · intro x
    constructor
    · intro h; obtain ⟨i, d, h1, _⟩ := unwr_range h; rw [hn'] at h1; cases h1
    · intro h; obtain ⟨i, d, h1, _⟩ := unwr_range h; rw [hn] at h1; cases h1
  · exact hk _

theorem step_gAdd (hI : Inv c el0 s) (t : TId) (d : Nat) (v stp : Int) (hl : s.loc t = L.gAdd d v stp)
    (hm : s'.mem = upd s.mem fSize (s.mem fSize + d)) (hp : s'.parked = s.parked)
    (hloc : s'.loc = fun u => if u = t then cont c (L.gAdd d v stp) (s.mem fSize) else s.loc u) :
    Inv c el0 s' := by
  have hlk := hI.locOk t
  rw [hl] at hlk
  have hval : valOk v stp := hlk
  have hr : (s.mem fSize).toNat = szN s := rfl
  apply inv_fadd hI t _ d (by rw [hl]; rfl) hm hp hloc
  · simp only [cont, hr]; split <;> rfl
  · intro x; simp only [cont, hr]; split <;> exact Iff.rfl
  · simp only [cont, hr]; split
    · exact ⟨hval, Nat.le_refl _, bkt_mono c (by omega), waited_nil _ _⟩
    · rename_i b cap rest htg
      exact ⟨hval, [], by rw [htg]; rfl⟩

theorem step_gCount (hI : Inv c el0 s) (t : TId) (i d : Nat) (v stp : Int) (b cap : Nat)
    (rest : List (Nat × Nat)) (acc : Nat) (hl : s.loc t = L.gCount i d v stp b cap rest acc) (r : Int)
    (hm : s'.mem = s.mem) (hp : s'.parked = s.parked)
    (hloc : s'.loc = fun u => if u = t then cont c (L.gCount i d v stp b cap rest acc) r else s.loc u) :
    Inv c el0 s' := by
  have hlk := hI.locOk t
  rw [hl] at hlk
  obtain ⟨hval, pre, hpre⟩ := hlk
  cases rest with
  | nil =>
    have hf := nextAssign_facts (c := c) s.mem i d v stp (decide ((if r = 0 then acc + cap else acc) ≠ 0))
      (targets c i d) hval ⟨[], rfl⟩
    apply inv_load hI t _ hm hp hloc
    · rw [hl]; exact hf.1
    · intro x; rw [hl]; exact hf.2.1 x
    · exact hf.2.2
  | cons p rest' =>
    obtain ⟨b', cap'⟩ := p
    apply inv_load hI t _ hm hp hloc
    · rw [hl]; rfl
    · intro x; rw [hl]; exact Iff.rfl
    · exact ⟨hval, pre ++ [(b, cap)], by rw [← hpre]; simp⟩

theorem step_gAssign (hI : Inv c el0 s) (t : TId) (i d : Nat) (v stp : Int) (b : Nat)
    (rest : List (Nat × Nat)) (hv : Bool) (hl : s.loc t = L.gAssign i d v stp b rest hv)
    (hm : s'.mem = s.mem) (hp : s'.parked = s.parked)
    (hloc : s'.loc = fun u => if u = t then cont c (L.gAssign i d v stp b rest hv) (s.mem (fBuf b)) else s.loc u) :
    Inv c el0 s' := by
  have hlk := hI.locOk t
  rw [hl] at hlk
  obtain ⟨hval, pre, cap, hpre⟩ := hlk
  by_cases h0 : s.mem (fBuf b) = 0
  · apply inv_load hI t _ hm hp hloc
    · rw [hl]; simp only [cont, h0, if_true]; rfl
    · intro x; rw [hl]; simp only [cont, h0, if_true]; exact Iff.rfl
    · simp only [cont, h0, if_true]; exact ⟨hval, ⟨pre, cap, hpre⟩, h0⟩
  · have hf := nextAssign_facts (c := c) s.mem i d v stp hv rest hval
      ⟨pre ++ [(b, cap)], by rw [← hpre]; simp⟩
    apply inv_load hI t _ hm hp hloc
    · rw [hl]; simp only [cont, h0, if_false]; exact hf.1
    · intro x; rw [hl]; simp only [cont, h0, if_false]; exact hf.2.1 x
    · simp only [cont, h0, if_false]; exact hf.2.2

theorem step_gStore (hI : Inv c el0 s) (t : TId) (i d : Nat) (v stp : Int) (b : Nat)
    (rest : List (Nat × Nat)) (hv : Bool) (hl : s.loc t = L.gStore i d v stp b rest hv)
    (hm : s'.mem = upd s.mem (fBuf b) (tok i)) (hp : s'.parked = s.parked)
    (hloc : s'.loc = fun u => if u = t then cont c (L.gStore i d v stp b rest hv) 0 else s.loc u) :
    Inv c el0 s' := by
  have hlk := hI.locOk t
  rw [hl] at hlk
  obtain ⟨hval, ⟨pre, cap, hpre⟩, _⟩ := hlk
  have hf := nextAssign_facts (c := c) s'.mem i d v stp hv rest hval
    ⟨pre ++ [(b, cap)], by rw [← hpre]; simp⟩
  apply inv_bufstore hI t _ b (tok i) (tok_ne i) (by rw [hl]; rfl) hm hp hloc
  · rw [hl]; exact hf.1
  · intro x; rw [hl]; exact hf.2.1 x
  · exact hf.2.2

theorem step_gWait (hI : Inv c el0 s) (t : TId) (i d : Nat) (v stp : Int) (b : Nat)
    (hl : s.loc t = L.gWait i d v stp b)
    (hm : s'.mem = s.mem) (hp : s'.parked = s.parked)
    (hloc : s'.loc = fun u => if u = t then cont c (L.gWait i d v stp b) (s.mem (fBuf b)) else s.loc u) :
    Inv c el0 s' := by
  have hlk := hI.locOk t
  rw [hl] at hlk
  obtain ⟨hval, h1, h2, hw⟩ := hlk
  by_cases h0 : s.mem (fBuf b) = 0
  · apply inv_load hI t _ hm hp hloc
    · rw [hl]; simp only [cont, h0, if_true]
    · intro x; rw [hl]; simp only [cont, h0, if_true]
    · simp only [cont, h0, if_true]; exact ⟨hval, h1, h2, hw⟩
  · have hw' : waited c s.mem i (b + 1) := by
      intro b' a1 a2
      by_cases e : b' = b
      · subst e; exact h0
      · exact hw b' a1 (by omega)
    by_cases hlt : b < bkt c (i + d)
    · apply inv_load hI t _ hm hp hloc
      · rw [hl]; simp only [cont, h0, if_false, hlt, if_true]; rfl
      · intro x; rw [hl]; simp only [cont, h0, if_false, hlt, if_true]; exact Iff.rfl
      · simp only [cont, h0, if_false, hlt, if_true]; exact ⟨hval, by omega, by omega, hw'⟩
    · have hb : b = bkt c (i + d) := by omega
      rw [hb] at hw'
      have hf := afterWait_facts (c := c) s.mem i d v stp hval hw'
      apply inv_load hI t _ hm hp hloc
      · rw [hl]; simp only [cont, h0, if_false, hlt]; exact hf.1
      · intro x; rw [hl]; simp only [cont, h0, if_false, hlt]; exact hf.2.1 x
      · simp only [cont, h0, if_false, hlt]; exact hf.2.2

theorem step_gIter (hI : Inv c el0 s) (t : TId) (i d : Nat) (v stp : Int)
    (hl : s.loc t = L.gIter i d v stp) (r : Int)
    (hm : s'.mem = s.mem) (hp : s'.parked = s.parked)
    (hloc : s'.loc = fun u => if u = t then cont c (L.gIter i d v stp) r else s.loc u) :
    Inv c el0 s' := by
  have hlk := hI.locOk t
  rw [hl] at hlk
  have hf := startWrite_facts (c := c) s.mem i d v stp hlk.1 hlk.2
  apply inv_load hI t _ hm hp hloc
  · rw [hl]; exact hf.1
  · intro x; rw [hl]; exact hf.2.1 x
  · exact hf.2.2

theorem step_gWrite (hI : Inv c el0 s) (t : TId) (i d : Nat) (v stp : Int) (j : Nat)
    (hl : s.loc t = L.gWrite i d v stp j)
    (hm : s'.mem = upd s.mem (fEl (i + j)) (v + stp * j)) (hp : s'.parked = s.parked)
    (hloc : s'.loc = fun u => if u = t then cont c (L.gWrite i d v stp j) 0 else s.loc u) :
    Inv c el0 s' := by
  have hlk := hI.locOk t
  rw [hl] at hlk
  obtain ⟨hval, hj, hw, hpre⟩ := hlk
  have hvals : ∀ j', j' < j + 1 → s'.mem (fEl (i + j')) = v + stp * j' := by
    intro j' hj'
    rw [hm]
    by_cases e : j' = j
    · subst e; simp
    · rw [upd_ne _ _ (fun y => e (by have := fEl_inj y; omega))]; exact hpre j' (by omega)
  apply inv_elstore hI t _ (i + j) _ (valOk_ne hval j) (by rw [hl]; simp only [unwr]; omega) hm hp hloc
  · rw [hl]; simp only [cont]; split <;> rfl
  · intro y; rw [hl]; simp only [cont]
    split
    · simp only [unwr]; omega
    · simp only [unwr]
      exact ⟨fun h => absurd h id, fun h => by omega⟩
  · simp only [cont]
    split
    · exact ⟨hval, by omega, by rw [hm]; exact waited_upd_el hw _ _, hvals⟩
    · refine ⟨hval, fun j' hj' => hvals j' (by omega)⟩

theorem inv_step {a : Act (proto c)} (hI : Inv c el0 s) (he : exec s a = some s') : Inv c el0 s' := by
  rcases exec_inv c hI.np he with ⟨t, l, rfl, hidle, hent, hm, hp, hloc⟩ | ⟨t, o, r, rfl, hop, heff, hp, hloc⟩
  · exact inv_call hI t l hidle hent hm hp hloc
  · generalize hm : s'.mem = m' at heff
    cases hl : (s.loc t : L) with
    | idle => rw [hl] at hop; cases hop
    | done i d v stp => rw [hl] at hop; cases hop
    | rdone r => rw [hl] at hop; cases hop
    | tdone n => rw [hl] at hop; cases hop
    | eAdd v =>
      rw [hl] at hop hloc; simp only [op, Option.some.injEq] at hop; subst hop; cases heff
      exact step_eAdd hI t v hl hm hp hloc
    | eLoadNext i v =>
      rw [hl] at hop hloc; simp only [op, Option.some.injEq] at hop; subst hop; cases heff
      exact step_eLoadNext hI t i v hl hm hp hloc
    | eStoreNext i v =>
      rw [hl] at hop hloc; simp only [op, Option.some.injEq] at hop; subst hop; cases heff
      exact step_eStoreNext hI t i v hl hm hp hloc
    | eWait i v =>
      rw [hl] at hop hloc; simp only [op, Option.some.injEq] at hop; subst hop; cases heff
      exact step_eWait hI t i v hl hm hp hloc
    | eIter i v =>
      rw [hl] at hop hloc; simp only [op, Option.some.injEq] at hop; subst hop; cases heff
      exact step_eIter hI t i v hl _ hm hp hloc
    | eWrite i v =>
      rw [hl] at hop hloc; simp only [op, Option.some.injEq] at hop; subst hop; cases heff
      exact step_eWrite hI t i v hl hm hp hloc
    | tLoad n v =>
      rw [hl] at hop hloc; simp only [op, Option.some.injEq] at hop; subst hop; cases heff
      exact step_tLoad hI t n v hl hm hp hloc
    | tIter n =>
      rw [hl] at hop hloc; simp only [op, Option.some.injEq] at hop; subst hop; cases heff
      exact step_trivial_load hI t _ (by rw [hl]; rfl) rfl (fun _ => by simp only [cont, LocOk]) hm hp hloc
    | gAdd d v stp =>
      rw [hl] at hop hloc; simp only [op, Option.some.injEq] at hop; subst hop; cases heff
      exact step_gAdd hI t d v stp hl hm hp hloc
    | gCount i d v stp b cap rest acc =>
      rw [hl] at hop hloc; simp only [op, Option.some.injEq] at hop; subst hop; cases heff
      exact step_gCount hI t i d v stp b cap rest acc hl _ hm hp hloc
    | gAssign i d v stp b rest hv =>
      rw [hl] at hop hloc; simp only [op, Option.some.injEq] at hop; subst hop; cases heff
      exact step_gAssign hI t i d v stp b rest hv hl hm hp hloc
    | gStore i d v stp b rest hv =>
      rw [hl] at hop hloc; simp only [op, Option.some.injEq] at hop; subst hop; cases heff
      exact step_gStore hI t i d v stp b rest hv hl hm hp hloc
    | gWait i d v stp b =>
      rw [hl] at hop hloc; simp only [op, Option.some.injEq] at hop; subst hop; cases heff
      exact step_gWait hI t i d v stp b hl hm hp hloc
    | gIter i d v stp =>
      rw [hl] at hop hloc; simp only [op, Option.some.injEq] at hop; subst hop; cases heff
      exact step_gIter hI t i d v stp hl _ hm hp hloc
    | gWrite i d v stp j =>
      rw [hl] at hop hloc; simp only [op, Option.some.injEq] at hop; subst hop; cases heff
      exact step_gWrite hI t i d v stp j hl hm hp hloc
    | rRead k =>
      rw [hl] at hop hloc; simp only [op, Option.some.injEq] at hop; subst hop; cases heff
      exact step_trivial_load hI t _ (by rw [hl]; rfl) rfl (fun _ => by simp only [cont, LocOk]) hm hp hloc

end steps

/-! ### the initial state -/

theorem initMem_size (c : GCfg) (pre : Nat → Bool) (el0 : Nat → Int) : initMem c pre el0 fSize = c.n0 := rfl

theorem initMem_el (c : GCfg) (pre : Nat → Bool) (el0 : Nat → Int) (x : Nat) :
    initMem c pre el0 (fEl x) = if x < c.n0 then el0 x else 0 := by
  unfold initMem fEl
  have h1 : ¬ (2 * x + 2 = 0) := by omega
  have h2 : ¬ ((2 * x + 2) % 2 = 1) := by omega
  have h3 : (2 * x + 2 - 2) / 2 = x := by omega
  simp only [h1, h2, h3, if_false]

theorem initMem_buf (c : GCfg) (pre : Nat → Bool) (el0 : Nat → Int) (b : Nat) :
    initMem c pre el0 (fBuf b) = if pre b then -(b : Int) - 1 else 0 := by
  unfold initMem fBuf
  have h1 : ¬ (2 * b + 1 = 0) := by omega
  have h2 : (2 * b + 1) % 2 = 1 := by omega
  have h3 : (2 * b + 1 - 1) / 2 = b := by omega
  simp only [h1, h2, h3, if_false, if_true]

theorem inv_init (c : GCfg) (pre : Nat → Bool) (el0 : Nat → Int) : Inv c el0 (init c pre el0) := by
  have hN : szN (init c pre el0) = c.n0 := by
    unfold szN init initState; simp only [initMem_size]; omega
  refine ⟨fun _ => rfl, ?_, by rw [hN]; exact Nat.le_refl _, ?_, ?_, ?_, ?_, ?_, ?_, fun _ => trivial⟩
  · rw [hN]; rfl
  · intro t i d h; cases h
  · intro t u i d i' d' _ h; cases h
  · intro x hx; rw [hN] at hx
    show initMem c pre el0 (fEl x) = 0
    rw [initMem_el, if_neg (by omega)]
  · intro t x h; exact absurd h id
  · intro x h1 h2; rw [hN] at h2; omega
  · intro x hx
    show initMem c pre el0 (fEl x) = el0 x
    rw [initMem_el, if_pos hx]

theorem inv_reachable {c : GCfg} {pre : Nat → Bool} {el0 : Nat → Int} {s : State (proto c)}
    (h : Reachable (init c pre el0) s) : Inv c el0 s :=
  invariant (Inv c el0) (inv_init c pre el0) (fun _ _ _ hI he => inv_step hI he) s h

/-! ### history of the `fetch_add`s on `size_` -/

/-- (returned index, delta) of the `fetch_add`s on `size_`, in history order -/
def adds (evs : List Ev) : List (Int × Int) :=
  evs.filterMap fun e => match e.op with
    | .fadd 0 v => some (e.res, v)
    | _ => none

/-- every reservation starts where the previous one ended -/
def Chain : Int → List (Int × Int) → Int → Prop
  | a, [], b => a = b
  | a, (r, v) :: l, b => r = a ∧ 0 ≤ v ∧ Chain (a + v) l b

def evl {c : GCfg} (s : State (proto c)) (a : Act (proto c)) : List Ev :=
  match evOf s a with
  | some e => [e]
  | none => []

theorem adds_append (a b : List Ev) : adds (a ++ b) = adds a ++ adds b := by
  simp [adds, List.filterMap_append]

theorem op_fadd_size (c : GCfg) (l : L) (f : Fld) (v : Int) (h : op c l = some (.fadd f v)) :
    f = fSize ∧ 0 ≤ v := by
  cases l <;> simp only [op, Option.some.injEq, reduceCtorEq, AOp.fadd.injEq] at h
  · obtain ⟨rfl, rfl⟩ := h; exact ⟨rfl, by omega⟩
  · obtain ⟨rfl, rfl⟩ := h; exact ⟨rfl, by omega⟩

theorem op_store_not_size (c : GCfg) (l : L) (f : Fld) (v : Int) (h : op c l = some (.store f v)) :
    f ≠ fSize := by
  cases l <;> simp only [op, Option.some.injEq, reduceCtorEq, AOp.store.injEq] at h <;>
    obtain ⟨rfl, _⟩ := h <;> first | exact fBuf_ne_size _ | exact fEl_ne_size _

/-- one action either leaves `size_` alone and contributes no reservation, or is a `fetch_add(d)`
    that returns the current size and adds `d` -/
theorem step_adds {c : GCfg} {s s' : State (proto c)} {a : Act (proto c)} (hnp : ∀ t, s.parked t = none)
    (he : exec s a = some s') :
    (adds (evl s a) = [] ∧ s'.mem fSize = s.mem fSize) ∨
    (∃ v, 0 ≤ v ∧ adds (evl s a) = [(s.mem fSize, v)] ∧ s'.mem fSize = s.mem fSize + v) := by
  rcases exec_inv c hnp he with ⟨t, l, rfl, hidle, _, hm, _, _⟩ | ⟨t, o, r, rfl, hop, heff, _, _⟩
  · left
    have : (proto c).op (s.loc t) = none := by
      show op c (s.loc t) = none
      cases hl : (s.loc t : L) <;> simp_all [isIdle, op]
    simp [evl, evOf, adds, hm]
  · have hop' : (proto c).op (s.loc t) = some o := hop
    generalize hm : s'.mem = m' at heff
    cases heff with
    | load f =>
      left
      simp [evl, evOf, hop', memEffect, adds]
    | store f v =>
      left
      have hne := op_store_not_size c _ f v hop
      refine ⟨?_, by rw [upd_ne _ _ (fun e => hne e.symm)]⟩
      simp [evl, evOf, hop', memEffect, adds]
    | fadd f v =>
      right
      obtain ⟨rfl, hv⟩ := op_fadd_size c _ f v hop
      refine ⟨v, hv, ?_, by simp⟩
      simp [evl, evOf, hop', memEffect, adds, fSize]

theorem chain_run {c : GCfg} (as : List (Act (proto c))) : ∀ (s sf : State (proto c)) (evs : List Ev),
    (∀ t, s.parked t = none) → runEvs s as = some (sf, evs) → Chain (s.mem fSize) (adds evs) (sf.mem fSize) := by
  induction as with
  | nil =>
    intro s sf evs _ h
    simp only [runEvs, Option.some.injEq, Prod.mk.injEq] at h
    obtain ⟨rfl, rfl⟩ := h
    simp [adds, Chain]
  | cons a as ih =>
    intro s sf evs hnp h
    simp only [runEvs] at h
    split at h
    · rename_i s' he
      split at h
      · rename_i sf' evs' hr
        simp only [Option.some.injEq, Prod.mk.injEq] at h
        obtain ⟨rfl, rfl⟩ := h
        have hnp' : ∀ t, s'.parked t = none := by
          rcases exec_inv c hnp he with ⟨_, _, _, _, _, _, hp, _⟩ | ⟨_, _, _, _, _, _, hp, _⟩ <;>
            (intro t; rw [hp]; exact hnp t)
        have hrec := ih s' sf' evs' hnp' hr
        show Chain _ (adds (evl s a ++ evs')) _
        rw [adds_append]
        rcases step_adds hnp he with ⟨h1, h2⟩ | ⟨v, hv, h1, h2⟩
        · rw [h1, List.nil_append, ← h2]; exact hrec
        · rw [h1]
          rw [h2] at hrec
          exact ⟨rfl, hv, hrec⟩
      · cases h
    · cases h

/-! ### every awaited bucket has an owner that publishes it before waiting itself -/

/-- buckets the thread will still publish, if they are null when it gets there, before it waits -/
def willStore (c : GCfg) : L → Nat → Prop
  | .eLoadNext i _, k => k = bkt c i + 1
  | .eStoreNext i _, k => k = bkt c i + 1
  | .gCount i d _ _ _ _ _ _, k => ∃ cap, (k, cap) ∈ targets c i d
  | .gAssign _ _ _ _ b rest _, k => k = b ∨ ∃ cap, (k, cap) ∈ rest
  | .gStore _ _ _ _ b rest _, k => k = b ∨ ∃ cap, (k, cap) ∈ rest
  | _, _ => False

/-- the thread spins on a bucket pointer -/
def isWaiting : L → Bool
  | .eWait _ _ => true
  | .gWait _ _ _ _ _ => true
  | _ => false

/-- allocate-ahead, concurrent form: bucket 0 exists, and once the trigger index of bucket `k` is
    reserved, bucket `k + 1` exists or a running call is on its way to publish it -/
def Own (c : GCfg) (s : State (proto c)) : Prop :=
  s.mem (fBuf 0) ≠ 0 ∧
  ∀ k, (trigAbs c.st c.s k : Int) < s.mem fSize → s.mem (fBuf (k + 1)) ≠ 0 ∨ ∃ u, willStore c (s.loc u) (k + 1)

theorem willStore_not_waiting (c : GCfg) {l : L} {k : Nat} (h : willStore c l k) : isWaiting l = false := by
  cases l <;> simp only [willStore] at h <;> first | exact absurd h id | rfl

theorem willStore_nextAssign (c : GCfg) (i d : Nat) (v stp : Int) (hv : Bool) (rest : List (Nat × Nat)) (k : Nat)
    (h : ∃ cap, (k, cap) ∈ rest) : willStore c (nextAssign c i d v stp hv rest) k := by
  cases rest with
  | nil => obtain ⟨cap, hc⟩ := h; cases hc
  | cons p r =>
    obtain ⟨b, cb⟩ := p
    obtain ⟨cap, hc⟩ := h
    show k = b ∨ ∃ cap, (k, cap) ∈ r
    rcases List.mem_cons.1 hc with e | e
    · left; cases e; rfl
    · right; exact ⟨cap, e⟩

section own
variable {c : GCfg} {s s' : State (proto c)}

theorem own_keep (hO : Own c s) (t : TId) (l' : L) (hsize : s'.mem fSize = s.mem fSize)
    (hbuf : ∀ b, s.mem (fBuf b) ≠ 0 → s'.mem (fBuf b) ≠ 0)
    (hloc : s'.loc = fun u => if u = t then l' else s.loc u)
    (hw : ∀ k, willStore c (s.loc t) k → willStore c l' k ∨ s'.mem (fBuf k) ≠ 0) : Own c s' := by
  refine ⟨hbuf 0 hO.1, fun k hk => ?_⟩
  rw [hsize] at hk
  rcases hO.2 k hk with h | ⟨u, h⟩
  · exact Or.inl (hbuf _ h)
  · by_cases e : u = t
    · rw [e] at h
      rcases hw _ h with h' | h'
      · right; refine ⟨t, ?_⟩; rw [hloc]; simp only [↓reduceIte]; exact h'
      · exact Or.inl h'
    · right; refine ⟨u, ?_⟩; rw [hloc]; simp only [e, ↓reduceIte]; exact h

theorem own_fadd (hO : Own c s) (t : TId) (l' : L) (N d : Nat) (hN : s.mem fSize = (N : Int))
    (hm : s'.mem = upd s.mem fSize (s.mem fSize + d))
    (hloc : s'.loc = fun u => if u = t then l' else s.loc u)
    (hold : ∀ k, ¬ willStore c (s.loc t) k)
    (hw : ∀ k, N ≤ trigAbs c.st c.s k → trigAbs c.st c.s k < N + d → willStore c l' (k + 1)) : Own c s' := by
  have hb : ∀ b, s'.mem (fBuf b) = s.mem (fBuf b) := by intro b; rw [hm, upd_ne _ _ (fBuf_ne_size b)]
  refine ⟨by rw [hb]; exact hO.1, fun k hk => ?_⟩
  rw [hm, upd_self, hN] at hk
  rw [hb]
  by_cases hlt : (trigAbs c.st c.s k : Int) < s.mem fSize
  · rcases hO.2 k hlt with h | ⟨u, h⟩
    · exact Or.inl h
    · right; refine ⟨u, ?_⟩
      have e : u ≠ t := by intro e; rw [e] at h; exact hold _ h
      rw [hloc]; simp only [e, ↓reduceIte]; exact h
  · right; refine ⟨t, ?_⟩
    rw [hloc]; simp only [↓reduceIte]
    rw [hN] at hlt
    exact hw k (by omega) (by omega)

theorem eAdd_trigger (c : GCfg) (N k : Nat) (h : trigAbs c.st c.s k = N) :
    (bucketAndSubIndex c.s N).bucketIndex = allocCheckIndex c.st (bucketAndSubIndex c.s N).bucketCapacity ∧
      bkt c N = k := by
  have hb : bk c.s N = k := by rw [← h]; exact bk_trigAbs c.st c.s k
  refine ⟨?_, hb⟩
  rw [bidx_eq, bcap_eq, hb]
  unfold trigAbs at h
  omega

theorem own_step {el0 : Nat → Int} {a : Act (proto c)} (hI : Inv c el0 s) (hO : Own c s)
    (he : exec s a = some s') : Own c s' := by
  rcases exec_inv c hI.np he with ⟨t, l, rfl, hidle, hent, hm, hp, hloc⟩ | ⟨t, o, r, rfl, hop, heff, hp, hloc⟩
  · apply own_keep hO t l (by rw [hm]) (by intro b h; rw [hm]; exact h) hloc
    intro k hk
    exfalso
    cases hl : (s.loc t : L) <;> rw [hl] at hidle hk <;> simp [isIdle, willStore] at hidle hk
  · generalize hm : s'.mem = m' at heff
    have keepLoad : ∀ l', m' = s.mem → (s'.loc = fun u => if u = t then l' else s.loc u) →
        (∀ k, willStore c (s.loc t) k → willStore c l' k ∨ s.mem (fBuf k) ≠ 0) → Own c s' := by
      intro l' e hl hw
      apply own_keep hO t l' (by rw [hm, e]) (by intro b h; rw [hm, e]; exact h) hl
      intro k hk; rw [hm, e]; exact hw k hk
    have keepStore : ∀ l' f v, f ≠ fSize → (∀ b, f = fBuf b → v ≠ 0) → m' = upd s.mem f v →
        (s'.loc = fun u => if u = t then l' else s.loc u) →
        (∀ k, willStore c (s.loc t) k → willStore c l' k ∨ f = fBuf k) → Own c s' := by
      intro l' f v hf hv e hl hw
      have hbuf : ∀ b, s.mem (fBuf b) ≠ 0 → s'.mem (fBuf b) ≠ 0 := by
        intro b h
        rw [hm, e]
        by_cases eb : fBuf b = f
        · rw [eb, upd_self]; exact hv b eb.symm
        · rw [upd_ne _ _ eb]; exact h
      apply own_keep hO t l' (by rw [hm, e, upd_ne _ _ (fun x => hf x.symm)]) hbuf hl
      intro k hk
      rcases hw k hk with h | h
      · exact Or.inl h
      · right; rw [hm, e, h, upd_self]; exact hv k h
    cases hl : (s.loc t : L) with
    | idle => rw [hl] at hop; cases hop
    | done i d v stp => rw [hl] at hop; cases hop
    | rdone r => rw [hl] at hop; cases hop
    | tdone n => rw [hl] at hop; cases hop
    | eAdd v =>
      rw [hl] at hop hloc; simp only [op, Option.some.injEq] at hop; subst hop; cases heff
      apply own_fadd hO t _ (szN s) 1 hI.szeq (by rw [hm]; rfl) hloc (by intro k hk; rw [hl] at hk; exact hk)
      intro k h1 h2
      have hr : (s.mem fSize).toNat = szN s := rfl
      obtain ⟨e1, e2⟩ := eAdd_trigger c (szN s) k (by omega)
      simp only [cont, hr, e1, if_true]
      show k + 1 = bkt c (szN s) + 1
      rw [e2]
    | eLoadNext i v =>
      rw [hl] at hop hloc; simp only [op, Option.some.injEq] at hop; subst hop; cases heff
      apply keepLoad _ rfl hloc
      intro k hk
      rw [hl] at hk
      have hk' : k = bkt c i + 1 := hk
      subst hk'
      by_cases h0 : s.mem (fBuf (bkt c i + 1)) = 0
      · left; simp only [cont, h0, if_true]; rfl
      · exact Or.inr h0
    | eStoreNext i v =>
      rw [hl] at hop hloc; simp only [op, Option.some.injEq] at hop; subst hop; cases heff
      apply keepStore _ _ _ (fBuf_ne_size _) (fun _ _ => tok_ne i) rfl hloc
      intro k hk
      rw [hl] at hk
      have hk' : k = bkt c i + 1 := hk
      right; rw [hk']
    | eWait i v =>
      rw [hl] at hop hloc; simp only [op, Option.some.injEq] at hop; subst hop; cases heff
      exact keepLoad _ rfl hloc (by intro k hk; rw [hl] at hk; exact absurd hk id)
    | eIter i v =>
      rw [hl] at hop hloc; simp only [op, Option.some.injEq] at hop; subst hop; cases heff
      exact keepLoad _ rfl hloc (by intro k hk; rw [hl] at hk; exact absurd hk id)
    | eWrite i v =>
      rw [hl] at hop hloc; simp only [op, Option.some.injEq] at hop; subst hop; cases heff
      exact keepStore _ _ _ (fEl_ne_size _) (fun b e => absurd e (fEl_ne_fBuf _ _)) rfl hloc
        (by intro k hk; rw [hl] at hk; exact absurd hk id)
    | tLoad n v =>
      rw [hl] at hop hloc; simp only [op, Option.some.injEq] at hop; subst hop; cases heff
      exact keepLoad _ rfl hloc (by intro k hk; rw [hl] at hk; exact absurd hk id)
    | tIter n =>
      rw [hl] at hop hloc; simp only [op, Option.some.injEq] at hop; subst hop; cases heff
      exact keepLoad _ rfl hloc (by intro k hk; rw [hl] at hk; exact absurd hk id)
    | gAdd d v stp =>
      rw [hl] at hop hloc; simp only [op, Option.some.injEq] at hop; subst hop; cases heff
      apply own_fadd hO t _ (szN s) d hI.szeq (by rw [hm]) hloc (by intro k hk; rw [hl] at hk; exact hk)
      intro k h1 h2
      have hr : (s.mem fSize).toNat = szN s := rfl
      obtain ⟨cap, hin⟩ := inT_of_trig c.st c.s (szN s) d k h1 h2
      have hin' : (k + 1, cap) ∈ targets c (szN s) d := hin
      simp only [cont, hr]
      split
      · rename_i htg; rw [htg] at hin'; cases hin'
      · exact ⟨cap, hin'⟩
    | gCount i d v stp b cap rest acc =>
      rw [hl] at hop hloc; simp only [op, Option.some.injEq] at hop; subst hop; cases heff
      apply keepLoad _ rfl hloc
      intro k hk
      rw [hl] at hk
      left
      cases rest with
      | nil => exact willStore_nextAssign c i d v stp _ (targets c i d) k hk
      | cons p rest' => obtain ⟨b', cap'⟩ := p; exact hk
    | gAssign i d v stp b rest hv =>
      rw [hl] at hop hloc; simp only [op, Option.some.injEq] at hop; subst hop; cases heff
      apply keepLoad _ rfl hloc
      intro k hk
      rw [hl] at hk
      by_cases h0 : s.mem (fBuf b) = 0
      · left; simp only [cont, h0, if_true]; exact hk
      · rcases hk with hk | hk
        · right; rw [hk]; exact h0
        · left; simp only [cont, h0, if_false]; exact willStore_nextAssign c i d v stp hv rest k hk
    | gStore i d v stp b rest hv =>
      rw [hl] at hop hloc; simp only [op, Option.some.injEq] at hop; subst hop; cases heff
      apply keepStore _ _ _ (fBuf_ne_size _) (fun _ _ => tok_ne i) rfl hloc
      intro k hk
      rw [hl] at hk
      rcases hk with hk | hk
      · right; rw [hk]
      · left; exact willStore_nextAssign c i d v stp hv rest k hk
    | gWait i d v stp b =>
      rw [hl] at hop hloc; simp only [op, Option.some.injEq] at hop; subst hop; cases heff
      exact keepLoad _ rfl hloc (by intro k hk; rw [hl] at hk; exact absurd hk id)
    | gIter i d v stp =>
      rw [hl] at hop hloc; simp only [op, Option.some.injEq] at hop; subst hop; cases heff
      exact keepLoad _ rfl hloc (by intro k hk; rw [hl] at hk; exact absurd hk id)
    | gWrite i d v stp j =>
      rw [hl] at hop hloc; simp only [op, Option.some.injEq] at hop; subst hop; cases heff
      exact keepStore _ _ _ (fEl_ne_size _) (fun b e => absurd e (fEl_ne_fBuf _ _)) rfl hloc
        (by intro k hk; rw [hl] at hk; exact absurd hk id)
    | rRead k =>
      rw [hl] at hop hloc; simp only [op, Option.some.injEq] at hop; subst hop; cases heff
      exact keepLoad _ rfl hloc (by intro k hk; rw [hl] at hk; exact absurd hk id)

end own

/-- the sequential allocate-ahead invariant of the initial state (see `C32_alloc_ahead`) -/
def PreOk (c : GCfg) (pre : Nat → Bool) : Prop :=
  pre 0 = true ∧ ∀ k, trigAbs c.st c.s k < c.n0 → pre (k + 1) = true

theorem own_init (c : GCfg) (pre : Nat → Bool) (el0 : Nat → Int) (hp : PreOk c pre) : Own c (init c pre el0) := by
  refine ⟨?_, fun k hk => Or.inl ?_⟩
  · show initMem c pre el0 (fBuf 0) ≠ 0
    rw [initMem_buf, hp.1]; simp
  · have hk' : (trigAbs c.st c.s k : Int) < (c.n0 : Int) := hk
    show initMem c pre el0 (fBuf (k + 1)) ≠ 0
    rw [initMem_buf, hp.2 k (by omega)]; simp only [if_true]; omega

theorem own_reachable {c : GCfg} {pre : Nat → Bool} {el0 : Nat → Int} (hp : PreOk c pre) {s : State (proto c)}
    (h : Reachable (init c pre el0) s) : Inv c el0 s ∧ Own c s := by
  induction h with
  | init => exact ⟨inv_init c pre el0, own_init c pre el0 hp⟩
  | step a _ he ih => exact ⟨inv_step ih.1 he, own_step ih.1 ih.2 he⟩

end Dispenso.ConVecGrow
