import DispensoVerif.Proofs.FutChain
/-
Proofs for C19 (then-chain): the invariant `Inv` of `Proofs/FutChain.lean` is preserved by every
action of the interleaving semantics, hence holds in every reachable state.  Core Lean only.
-/
namespace Dispenso.FutChain
open Dispenso.Conc Dispenso.ConcL

theorem hold_setLoc (s : State CP) (m' : Fld → Int) (t : TId) (l' : PC) :
    (fun u => holdOf ((setLoc { s with mem := m' } t l').loc u)) =
      fun u => if u = t then holdOf l' else holdOf (s.loc u) := by
  funext u
  simp only [setLoc_loc]
  split <;> rfl

/-- status frame: thread `t` (unparked) moves to `l'`; the status word is unchanged -/
theorem invT_frame {s : State CP} (I : InvT s) (t : TId) (hp : s.parked t = none)
    (m' : Fld → Int) (l' : PC) (h0 : m' 0 = s.mem 0)
    (hdr : ∀ x, m' (fDisp x) = 1 → s.mem (fDisp x) = 1 ∨ s.mem 0 = 2)
    (hl : LocC m' l') (hcs : l' ≠ .cpStore)
    (hlk : s.mem 0 = 2 → m' 1 ≠ 0 → looker l' = true ∨ (looker (s.loc t) = false ∧ s.mem 1 ≠ 0)) :
    InvT (setLoc { s with mem := m' } t l') := by
  have hlo : ∀ pc, LocC s.mem pc → LocC m' pc := by
    intro pc h; cases pc <;> simp only [LocC] at h ⊢ <;> omega
  refine ⟨by show m' 0 = 0 ∨ m' 0 = 1 ∨ m' 0 = 2; rw [h0]; exact I.st, fun u => ?_, fun x hx => ?_, fun u v hu hv => ?_,
    fun h2 h1 => ?_, fun u f b hu => ?_⟩
  · simp only [setLoc_loc]
    split
    · exact hl
    · exact hlo _ (I.lc u)
  · show m' 0 = 2
    rw [h0]
    rcases hdr x hx with h | h
    · exact I.dr x h
    · exact h
  · simp only [setLoc_loc] at hu hv
    split at hu
    · exact absurd hu hcs
    · split at hv
      · exact absurd hv hcs
      · exact I.cs u v hu hv
  · have h2' : s.mem 0 = 2 := by rw [← h0]; exact h2
    rcases hlk h2' h1 with h | ⟨hn, hm⟩
    · exact ⟨t, by simpa using h⟩
    · obtain ⟨u, hu⟩ := I.lk h2' hm
      have hut : u ≠ t := fun h' => by rw [h', hn] at hu; cases hu
      exact ⟨u, by simpa [hut] using hu⟩
  · simp only [setLoc_parked] at hu
    have hut : u ≠ t := fun h' => by rw [h', hp] at hu; cases hu
    simpa [hut] using I.pk u f b hu

theorem LocC_of_ne2 {m m' : Fld → Int} {pc : PC} (h : LocC m pc) (h2 : m 0 ≠ 2) (hc : pc ≠ .cpStore) :
    LocC m' pc := by
  cases pc <;> simp only [LocC] at h ⊢ <;> first | trivial | omega | (exact absurd rfl hc)

theorem inv_mk {s : State CP} (m' : Fld → Int) (t : TId) (l' : PC)
    (hO : InvO m' (fun u => if u = t then holdOf l' else holdOf (s.loc u)))
    (hT : InvT (setLoc { s with mem := m' } t l')) : Inv (setLoc { s with mem := m' } t l') :=
  ⟨by rw [hold_setLoc]; exact hO, hT⟩

/-- ownership is untouched: neither the chain cell, nor a counter, nor a token changes, and the
moving thread holds the same ids -/
theorem invO_same {s : State CP} (I : InvO s.mem (fun u => holdOf (s.loc u))) (m' : Fld → Int)
    (t : TId) (l' : PC) (h1 : m' 1 = s.mem 1) (hd : ∀ x, m' (fDisp x) = s.mem (fDisp x))
    (ht : ∀ x, m' (fTok x) = s.mem (fTok x)) (hh : holdOf l' = holdOf (s.loc t)) :
    InvO m' (fun u => if u = t then holdOf l' else holdOf (s.loc u)) := by
  refine invO_frame I h1 hd ht (fun u => ?_)
  split
  · rename_i hut; rw [hut, hh]
  · rfl

set_option hygiene false in
/-- normalise `h : (op pc).bind (effRes m) = some (r, m')` for a concrete `pc` -/
macro "c_norm" : tactic => `(tactic| (
  simp only [op, effRes, Option.bind_some, Option.bind_none, reduceCtorEq] at h
  try split at h
  all_goals (try simp only [Option.some.injEq, Prod.mk.injEq, reduceCtorEq] at h)
  all_goals (try obtain ⟨rfl, rfl⟩ := h)
  all_goals (try contradiction)))

theorem inv_step {s s' : State CP} {t : TId} (I : Inv s) (hx : exec s (.step t) = some s') :
    Inv s' := by
  obtain ⟨hp, hcs⟩ := exec_step_eff hx
  rcases hcs with ⟨f, cur, b, ho, hm, rfl⟩ | ⟨r, m', h, rfl⟩
  · -- park
    have hl : s.loc t = .evWait cur := by
      have ho' : op (s.loc t) = some (.fwait f cur b) := ho
      generalize s.loc t = pc at ho'
      cases pc <;> simp [op] at ho'
      obtain ⟨_, rfl, _⟩ := ho'; rfl
    refine ⟨I.o, I.t.st, I.t.lc, I.t.dr, I.t.cs, I.t.lk, fun u g b' hu => ?_⟩
    simp only [setParked_parked] at hu
    split at hu
    · rename_i hut; subst hut; exact ⟨cur, hl⟩
    · exact I.t.pk u g b' hu
  have hop : (CP.op (s.loc t)) = op (s.loc t) := rfl
  have hcont : ∀ r, CP.cont (s.loc t) r = cont (s.loc t) r := fun _ => rfl
  rw [hop] at h
  rw [hcont]
  have hlc := I.t.lc t
  -- the ubiquitous case: nothing the ownership part looks at changes
  have hsame : ∀ (l' : PC), holdOf l' = holdOf (s.loc t) →
      InvO s.mem (fun u => if u = t then holdOf l' else holdOf (s.loc u)) :=
    fun l' hh => invO_same I.o s.mem t l' rfl (fun _ => rfl) (fun _ => rfl) hh
  have hnl : ∀ pc, s.loc t = pc → looker pc = false → looker (s.loc t) = false :=
    fun pc h1 h2 => by rw [h1]; exact h2
  cases hl : s.loc t <;> rw [hl] at h hlc
  case idle => simp [op] at h
  case done => simp [op] at h
  case bad => simp [op] at h
  case cpWake => simp [op, effRes] at h
  case cpCas =>
    c_norm
    · -- the winning CAS
      rename_i h0
      refine inv_mk _ t _ (invO_same I.o _ t _ (upd_other _ _ _ _ (by decide))
        (fun x => upd_other _ _ _ _ (fld_ne x x).1) (fun x => upd_other _ _ _ _ (fld_ne x x).2.2.1)
        (by rw [hl]; simp [cont, h0, holdOf])) ?_
      have hne : ∀ u, u ≠ t → LocC (upd s.mem 0 1) (s.loc u) ∧ s.loc u ≠ .cpStore := by
        intro u _
        have hu := I.t.lc u
        have hcs : s.loc u ≠ .cpStore := fun hc => by rw [hc] at hu; simp only [LocC] at hu; omega
        exact ⟨LocC_of_ne2 hu (by omega) hcs, hcs⟩
      refine ⟨by show upd s.mem 0 1 0 = 0 ∨ _ ∨ _; simp [upd], fun u => ?_, fun x hx => ?_,
        fun u v hu hv => ?_, fun h2 => ?_, fun u g b hu => ?_⟩
      · simp only [setLoc_loc, setLoc_mem]
        split
        · simp [cont, h0, LocC, upd]
        · rename_i hut; exact (hne u hut).1
      · have hx' : upd s.mem 0 1 (fDisp x) = 1 := hx
        rw [upd_other _ _ _ _ (fld_ne x x).1] at hx'
        have := I.t.dr x hx'; omega
      · simp only [setLoc_loc] at hu hv
        split at hu <;> split at hv
        · rename_i h1 h2; rw [h1, h2]
        · rename_i h1 h2; exact absurd hv (hne v h2).2
        · rename_i h1 h2; exact absurd hu (hne u h1).2
        · exact I.t.cs u v hu hv
      · have h2' : upd s.mem 0 1 0 = 2 := h2
        simp [upd] at h2'
      · simp only [setLoc_parked] at hu
        have hut : u ≠ t := fun h' => by rw [h', hp] at hu; cases hu
        simpa [hut] using I.t.pk u g b hu
    · rename_i h0
      refine inv_mk _ t _ (hsame _ (by rw [hl]; simp [cont, h0, holdOf])) ?_
      exact invT_frame I.t t hp _ _ rfl (fun x hx => Or.inl hx) (by simp [cont, LocC, h0])
        (by simp [cont, h0]) (fun _ h1 => Or.inr ⟨hnl _ hl rfl, h1⟩)
  case wcCas =>
    c_norm
    · -- the winning CAS
      rename_i h0
      refine inv_mk _ t _ (invO_same I.o _ t _ (upd_other _ _ _ _ (by decide))
        (fun x => upd_other _ _ _ _ (fld_ne x x).1) (fun x => upd_other _ _ _ _ (fld_ne x x).2.2.1)
        (by rw [hl]; simp [cont, h0, holdOf])) ?_
      have hne : ∀ u, u ≠ t → LocC (upd s.mem 0 1) (s.loc u) ∧ s.loc u ≠ .cpStore := by
        intro u _
        have hu := I.t.lc u
        have hcs : s.loc u ≠ .cpStore := fun hc => by rw [hc] at hu; simp only [LocC] at hu; omega
        exact ⟨LocC_of_ne2 hu (by omega) hcs, hcs⟩
      refine ⟨by show upd s.mem 0 1 0 = 0 ∨ _ ∨ _; simp [upd], fun u => ?_, fun x hx => ?_,
        fun u v hu hv => ?_, fun h2 => ?_, fun u g b hu => ?_⟩
      · simp only [setLoc_loc, setLoc_mem]
        split
        · simp [cont, h0, LocC, upd]
        · rename_i hut; exact (hne u hut).1
      · have hx' : upd s.mem 0 1 (fDisp x) = 1 := hx
        rw [upd_other _ _ _ _ (fld_ne x x).1] at hx'
        have := I.t.dr x hx'; omega
      · simp only [setLoc_loc] at hu hv
        split at hu <;> split at hv
        · rename_i h1 h2; rw [h1, h2]
        · rename_i h1 h2; exact absurd hv (hne v h2).2
        · rename_i h1 h2; exact absurd hu (hne u h1).2
        · exact I.t.cs u v hu hv
      · have h2' : upd s.mem 0 1 0 = 2 := h2
        simp [upd] at h2'
      · simp only [setLoc_parked] at hu
        have hut : u ≠ t := fun h' => by rw [h', hp] at hu; cases hu
        simpa [hut] using I.t.pk u g b hu
    · rename_i h0
      refine inv_mk _ t _ (hsame _ (by rw [hl]; simp [cont, h0, holdOf])) ?_
      exact invT_frame I.t t hp _ _ rfl (fun x hx => Or.inl hx) (by simp [cont, LocC, h0])
        (by simp [cont, h0]) (fun _ h1 => Or.inr ⟨hnl _ hl rfl, h1⟩)
  case cpStore =>
    c_norm
    have h1 : s.mem 0 = 1 := hlc
    refine inv_mk _ t _ (invO_same I.o _ t _ (upd_other _ _ _ _ (by decide))
      (fun x => upd_other _ _ _ _ (fld_ne x x).1) (fun x => upd_other _ _ _ _ (fld_ne x x).2.2.1)
      (by rw [hl]; simp [cont, holdOf])) ?_
    have hne : ∀ u, u ≠ t → LocC (upd s.mem 0 2) (s.loc u) ∧ s.loc u ≠ .cpStore := by
      intro u hut
      have hcs : s.loc u ≠ .cpStore := fun hc => hut (I.t.cs u t hc hl)
      exact ⟨LocC_of_ne2 (I.t.lc u) (by omega) hcs, hcs⟩
    refine ⟨by show upd s.mem 0 2 0 = 0 ∨ _ ∨ _; simp [upd], fun u => ?_,
      fun x _ => by show upd s.mem 0 2 0 = 2; simp [upd], fun u v hu hv => ?_, fun _ _ => ?_,
      fun u g b hu => ?_⟩
    · simp only [setLoc_loc, setLoc_mem]
      split
      · simp [cont, LocC, upd]
      · rename_i hut; exact (hne u hut).1
    · simp only [setLoc_loc] at hu hv
      split at hu
      · simp [cont] at hu
      · rename_i h1'; exact absurd hu (hne u h1').2
    · exact ⟨t, by simp [cont, looker]⟩
    · simp only [setLoc_parked] at hu
      have hut : u ≠ t := fun h' => by rw [h', hp] at hu; cases hu
      simpa [hut] using I.t.pk u g b hu
  case teLoad =>
    c_norm
    have h2 : s.mem 0 = 2 := hlc
    refine inv_mk _ t _ (hsame _ (by rw [hl]; simp only [cont]; split <;> rfl)) ?_
    refine invT_frame I.t t hp _ _ rfl (fun x hx => Or.inl hx) ?_ (by simp only [cont]; split <;> simp)
      (fun _ h1 => Or.inl ?_)
    · simp only [cont]; split <;> simp [LocC, h2]
    · simp only [cont]; rw [if_neg h1]; rfl
  case teCas hd =>
    c_norm
    · -- detach-all succeeded
      rename_i heq
      subst heq
      have h2 : s.mem 0 = 2 := hlc
      have hO := invO_detach I.o t (by show holdOf (s.loc t) = []; rw [hl]; rfl)
      refine inv_mk _ t _ (by simpa only [cont, if_true, holdOf_walk] using hO) ?_
      refine invT_frame I.t t hp _ _ (upd_other _ _ _ _ (by decide))
        (fun x hx => Or.inl (by rwa [upd_other _ _ _ _ (fld_ne x x).2.1] at hx)) ?_ ?_
        (fun _ h1 => by simp [upd] at h1)
      · simp only [cont, if_true]
        cases hw : dec (s.mem 1) <;> simp [walk, LocC, upd, h2]
      · simp only [cont, if_true]
        cases hw : dec (s.mem 1) <;> simp [walk]
    · rename_i hne
      have h2 : s.mem 0 = 2 := hlc
      refine inv_mk _ t _ (hsame _ (by rw [hl]; simp only [cont, if_neg hne]; split <;> rfl)) ?_
      refine invT_frame I.t t hp _ _ rfl (fun x hx => Or.inl hx) ?_
        (by simp only [cont, if_neg hne]; split <;> simp) (fun _ h1 => Or.inl ?_)
      · simp only [cont, if_neg hne]; split <;> simp [LocC, h2]
      · simp only [cont, if_neg hne, if_neg h1]; rfl
  case twInvoke cur rest =>
    c_norm
    have h2 : s.mem 0 = 2 := hlc
    have hO := invO_dispatch I.o t cur rest (by show holdOf (s.loc t) = _; rw [hl]; rfl)
    refine inv_mk _ t _ (by simpa only [cont, holdOf_walk] using hO) ?_
    refine invT_frame I.t t hp _ _ (upd_other _ _ _ _ (fld_ne cur cur).1.symm) (fun _ _ => Or.inr h2) ?_ ?_
      (fun _ h1 => Or.inr ⟨hnl _ hl rfl, by rwa [upd_other _ _ _ _ (fld_ne cur cur).2.1.symm] at h1⟩)
    · simp only [cont]
      cases rest <;> simp [walk, LocC, upd_other _ _ _ _ (fld_ne cur cur).1.symm, h2]
    · simp only [cont]; cases rest <;> simp [walk]
  case wcLoad =>
    c_norm
    refine inv_mk _ t _ (hsame _ (by rw [hl]; simp only [cont]; (repeat' split) <;> rfl)) ?_
    exact invT_frame I.t t hp _ _ rfl (fun x hx => Or.inl hx)
      (by simp only [cont]; (repeat' split) <;> simp [LocC])
      (by simp only [cont]; (repeat' split) <;> simp) (fun _ h1 => Or.inr ⟨hnl _ hl rfl, h1⟩)
  case evLoad =>
    c_norm
    refine inv_mk _ t _ (hsame _ (by rw [hl]; simp only [cont]; split <;> rfl)) ?_
    exact invT_frame I.t t hp _ _ rfl (fun x hx => Or.inl hx)
      (by simp only [cont]; split <;> simp [LocC])
      (by simp only [cont]; split <;> simp) (fun _ h1 => Or.inr ⟨hnl _ hl rfl, h1⟩)
  case evWait c =>
    c_norm
    refine inv_mk _ t _ (hsame _ (by rw [hl]; rfl)) ?_
    exact invT_frame I.t t hp _ _ rfl (fun x hx => Or.inl hx) (by simp [cont, LocC]) (by simp [cont])
      (fun _ h1 => Or.inr ⟨hnl _ hl rfl, h1⟩)
  case adTake k =>
    c_norm
    · rename_i hk
      have hO := invO_take I.o t k (by show holdOf (s.loc t) = []; rw [hl]; rfl) hk
      refine inv_mk _ t _ (by simpa only [cont, hk, if_true, holdOf] using hO) ?_
      exact invT_frame I.t t hp _ _ (upd_other _ _ _ _ (fld_ne k k).2.2.1.symm)
        (fun x hx => Or.inl (by rwa [upd_other _ _ _ _ (fld_ne x k).2.2.2.2.1] at hx))
        (by simp [cont, hk, LocC]) (by simp [cont, hk])
        (fun _ h1 => Or.inr ⟨hnl _ hl rfl, by rwa [upd_other _ _ _ _ (fld_ne k k).2.2.2.1.symm] at h1⟩)
    · rename_i hk
      refine inv_mk _ t _ (hsame _ (by rw [hl]; simp [cont, hk, holdOf])) ?_
      exact invT_frame I.t t hp _ _ rfl (fun x hx => Or.inl hx) (by simp [cont, hk, LocC])
        (by simp [cont, hk]) (fun _ h1 => Or.inr ⟨hnl _ hl rfl, h1⟩)
  case adLoad k =>
    c_norm
    refine inv_mk _ t _ (hsame _ (by rw [hl]; simp only [cont]; split <;> rfl)) ?_
    refine invT_frame I.t t hp _ _ rfl (fun x hx => Or.inl hx) ?_ (by simp only [cont]; split <;> simp)
      (fun _ h1 => Or.inr ⟨hnl _ hl rfl, h1⟩)
    simp only [cont]; split <;> simp_all [LocC]
  case adDisp k =>
    c_norm
    have h2 : s.mem 0 = 2 := hlc
    have hO := invO_dispatch I.o t k [] (by show holdOf (s.loc t) = _; rw [hl]; rfl)
    refine inv_mk _ t _ (by simpa only [cont, holdOf] using hO) ?_
    exact invT_frame I.t t hp _ _ (upd_other _ _ _ _ (fld_ne k k).1.symm) (fun _ _ => Or.inr h2)
      (by simp [cont, LocC]) (by simp [cont])
      (fun _ h1 => Or.inr ⟨hnl _ hl rfl, by rwa [upd_other _ _ _ _ (fld_ne k k).2.1.symm] at h1⟩)
  case adNext k =>
    c_norm
    refine inv_mk _ t _ (hsame _ (by rw [hl]; rfl)) ?_
    exact invT_frame I.t t hp _ _ rfl (fun x hx => Or.inl hx) (by simp [cont, LocC]) (by simp [cont])
      (fun _ h1 => Or.inr ⟨hnl _ hl rfl, h1⟩)
  case adCas k hd =>
    c_norm
    · -- the push succeeded
      rename_i heq
      subst heq
      have hO := invO_push I.o t k (by show holdOf (s.loc t) = [k]; rw [hl]; rfl)
      refine inv_mk _ t _ (by simpa only [cont, if_true, holdOf] using hO) ?_
      exact invT_frame I.t t hp _ _ (upd_other _ _ _ _ (by decide))
        (fun x hx => Or.inl (by rwa [upd_other _ _ _ _ (fld_ne x x).2.1] at hx))
        (by simp [cont, LocC]) (by simp [cont]) (fun _ _ => Or.inl (by simp [cont, looker]))
    · rename_i hne
      refine inv_mk _ t _ (hsame _ (by rw [hl]; simp [cont, hne, holdOf])) ?_
      exact invT_frame I.t t hp _ _ rfl (fun x hx => Or.inl hx) (by simp [cont, hne, LocC])
        (by simp [cont, hne]) (fun _ h1 => Or.inr ⟨hnl _ hl rfl, h1⟩)
  case adRe k =>
    c_norm
    refine inv_mk _ t _ (hsame _ (by rw [hl]; simp only [cont]; split <;> rfl)) ?_
    refine invT_frame I.t t hp _ _ rfl (fun x hx => Or.inl hx) ?_ (by simp only [cont]; split <;> simp)
      (fun h2 _ => Or.inl ?_)
    · simp only [cont]; split <;> simp_all [LocC]
    · simp only [cont, h2, if_true]; rfl

/-- frame lemma for the actions that leave the memory alone: some threads move between control
states that hold no ids, carry no new status facts, and stay lookers if they were -/
theorem inv_relabel {s s' : State CP} (I : Inv s) (hm : s'.mem = s.mem)
    (hloc : ∀ u, s'.loc u = s.loc u ∨ (holdOf (s'.loc u) = [] ∧ holdOf (s.loc u) = [] ∧
      LocC s.mem (s'.loc u) ∧ s'.loc u ≠ .cpStore ∧ (looker (s.loc u) = true → looker (s'.loc u) = true)))
    (hpk : ∀ u f b, s'.parked u = some (f, b) → s.parked u = some (f, b) ∧ s'.loc u = s.loc u) :
    Inv s' := by
  have hh : ∀ u, holdOf (s'.loc u) = holdOf (s.loc u) := by
    intro u
    rcases hloc u with h | ⟨h1, h2, _⟩
    · rw [h]
    · rw [h1, h2]
  refine ⟨invO_frame I.o (by rw [hm]) (fun _ => by rw [hm]) (fun _ => by rw [hm]) hh,
    by rw [hm]; exact I.t.st, fun u => ?_, fun x hx => by rw [hm] at hx ⊢; exact I.t.dr x hx,
    fun u v hu hv => ?_, fun h2 h1 => ?_, fun u f b hu => ?_⟩
  · rw [hm]
    rcases hloc u with h | ⟨_, _, h, _⟩
    · rw [h]; exact I.t.lc u
    · exact h
  · have hu' : s.loc u = .cpStore := by
      rcases hloc u with h | ⟨_, _, _, h, _⟩
      · rw [← h]; exact hu
      · exact absurd hu h
    have hv' : s.loc v = .cpStore := by
      rcases hloc v with h | ⟨_, _, _, h, _⟩
      · rw [← h]; exact hv
      · exact absurd hv h
    exact I.t.cs u v hu' hv'
  · rw [hm] at h2 h1
    obtain ⟨u, hu⟩ := I.t.lk h2 h1
    refine ⟨u, ?_⟩
    rcases hloc u with h | ⟨_, _, _, _, h⟩
    · rw [h]; exact hu
    · exact h hu
  · obtain ⟨h1, h2⟩ := hpk u f b hu
    rw [h2]; exact I.t.pk u f b h1

theorem inv_exec {s s' : State CP} (a : Act CP) (I : Inv s) (h : exec s a = some s') : Inv s' := by
  cases a with
  | step t => exact inv_step I h
  | wake t ws =>
    obtain ⟨hp, f, n, ho, hnd, hsub, hall, htw, rfl⟩ := exec_wake_inv h
    have ho' : op (s.loc t) = some (.fwake f n) := ho
    have hlt : s.loc t = .cpWake := by
      generalize s.loc t = pc at ho'
      cases pc <;> simp [op] at ho' <;> rfl
    have h2 : s.mem 0 = 2 := by have := I.t.lc t; rw [hlt] at this; exact this
    refine inv_relabel I (by simp) (fun u => ?_) (fun u g b hu => ?_)
    · simp only [setLoc_loc, unparkAll_loc s ws hnd]
      by_cases hut : u = t
      · subst hut
        right
        simp only [if_true, if_neg htw]
        rw [hlt]
        exact ⟨rfl, rfl, h2, by simp [cont], fun _ => rfl⟩
      · simp only [if_neg hut]
        by_cases huw : u ∈ ws
        · simp only [if_pos huw]
          obtain ⟨_, b, hb⟩ := (mem_parkedOn s f u).mp (hsub u huw)
          obtain ⟨cur, hcur⟩ := I.t.pk u f b hb
          right
          rw [hcur]
          exact ⟨rfl, rfl, trivial, by simp [cont], fun hx => by simp [looker] at hx⟩
        · simp only [if_neg huw]; exact Or.inl trivial
    · simp only [setLoc_parked, unparkAll_parked] at hu
      split at hu
      · cases hu
      · rename_i huw
        have hut : u ≠ t := fun h' => by rw [h', hp] at hu; cases hu
        exact ⟨hu, by simp [hut, huw, unparkAll_loc s ws hnd]⟩
  | timeout t =>
    obtain ⟨p, r, hp, rfl⟩ := exec_unpark_inv (Or.inl h)
    obtain ⟨f, b⟩ := p
    obtain ⟨cur, hcur⟩ := I.t.pk t f b hp
    refine inv_relabel I (by simp) (fun u => ?_) (fun u g b' hu => ?_)
    · simp only [setLoc_loc, setParked_loc]
      split
      · rename_i hut; subst hut
        right
        rw [hcur]
        exact ⟨rfl, rfl, trivial, by simp [cont], fun hx => by simp [looker] at hx⟩
      · exact Or.inl rfl
    · simp only [setLoc_parked, setParked_parked] at hu
      split at hu
      · cases hu
      · rename_i hut; exact ⟨hu, by simp [hut]⟩
  | spurious t =>
    obtain ⟨p, r, hp, rfl⟩ := exec_unpark_inv (Or.inr h)
    obtain ⟨f, b⟩ := p
    obtain ⟨cur, hcur⟩ := I.t.pk t f b hp
    refine inv_relabel I (by simp) (fun u => ?_) (fun u g b' hu => ?_)
    · simp only [setLoc_loc, setParked_loc]
      split
      · rename_i hut; subst hut
        right
        rw [hcur]
        exact ⟨rfl, rfl, trivial, by simp [cont], fun hx => by simp [looker] at hx⟩
      · exact Or.inl rfl
    · simp only [setLoc_parked, setParked_parked] at hu
      split at hu
      · cases hu
      · rename_i hut; exact ⟨hu, by simp [hut]⟩
  | call t l =>
    obtain ⟨hp, ho, he, hm, hpk, hloc, hth⟩ := exec_call_inv h
    refine inv_relabel I hm (fun u => ?_) (fun u g b hu => ?_)
    · rw [hloc]
      split
      · rename_i hut; subst hut
        right
        have he' : (idleOrDone (s.loc u) && isEntry l) = true := he
        simp only [Bool.and_eq_true] at he'
        obtain ⟨h1, h2⟩ := he'
        have hidle : holdOf (s.loc u) = [] ∧ looker (s.loc u) = false := by
          generalize s.loc u = pc at h1
          cases pc <;> simp [idleOrDone] at h1 <;> exact ⟨rfl, rfl⟩
        have hent : holdOf l = [] ∧ (∀ m, LocC m l) ∧ l ≠ .cpStore := by
          cases l <;> simp [isEntry] at h2 <;> exact ⟨rfl, fun _ => trivial, by simp⟩
        exact ⟨hent.1, hidle.1, hent.2.1 _, hent.2.2, fun hx => by rw [hidle.2] at hx; cases hx⟩
      · exact Or.inl rfl
    · rw [hpk] at hu
      have hut : u ≠ t := fun h' => by rw [h', hp] at hu; cases hu
      exact ⟨hu, by rw [hloc, if_neg hut]⟩

theorem inv_init : Inv (init : State CP) := by
  refine ⟨⟨by simp [init, initState, dec_zero], fun _ => List.nodup_nil, fun t x h => (by cases h),
    fun t u x h => (by cases h), fun x hx => ?_, fun x hx => ?_, fun x => ?_⟩,
    Or.inl rfl, fun _ => trivial, fun x hx => ?_, fun t u h => (by cases h), fun h => (by cases h),
    fun u f b h => (by cases h)⟩
  · rcases hx with hx | ⟨t, hx⟩
    · simp [init, initState, dec_zero] at hx
    · cases hx
  · simp [init, initState] at hx
  · simp [init, initState]
  · simp [init, initState] at hx

theorem inv_reachable {s : State proto} (h : Reachable init s) : Inv (s : State CP) :=
  invariant (P := CP) Inv inv_init (fun _ a _ I he => inv_exec a I he) s h

end Dispenso.FutChain
