import DispensoVerif.Model.Arena
import DispensoVerif.Proofs.ExecInv
import DispensoVerif.Core.Partition
/-
Helper lemmas for C37 (`ConcurrentObjectArena`).
 * sequential layer: specification of `allocateBuffer`/`growAlloc`/`growBy`/`mk` (the fuel of the
   allocation loop suffices), association-list facts about the pool, projection form `stepSt` of
   `step`, id-uniqueness, the buffer ledger and the per-arena invariant;
 * concurrent layer: a functional description `stepL` of one atomic step of `proto B`, the
   inductive invariant `MInv` (resize-mutex mutual exclusion, table bookkeeping, `pos < allocated`)
   and the history lemma (successful position claims tile `[pos₀, pos)`).
Core Lean only.
-/
namespace Dispenso.Arena
namespace Seq

/-! ### the arena as a value -/

/-- the arena invariant: the allocated size is `bufSize` times the number of buffers, the position
    is strictly inside the allocated range, the table holds all buffers, one value per element -/
def AInv (a : Arena) : Prop :=
  a.allocated = a.bufSize * a.buffersPos ∧ a.pos < a.allocated ∧ a.buffersPos ≤ a.buffersSize ∧
    a.items.length = a.pos

/-- the buffer-table part of the invariant (also holds in the middle of construction) -/
def TInv (a : Arena) : Prop :=
  a.allocated = a.bufSize * a.buffersPos ∧ a.buffersPos ≤ a.buffersSize

theorem allocateBuffer_spec (a : Arena) :
    (allocateBuffer a).buffersPos = a.buffersPos + 1 ∧ (allocateBuffer a).bufSize = a.bufSize ∧
    (allocateBuffer a).pos = a.pos ∧ (allocateBuffer a).allocated = a.allocated ∧
    (allocateBuffer a).items = a.items ∧
    (a.buffersPos ≤ a.buffersSize →
      (allocateBuffer a).buffersPos ≤ (allocateBuffer a).buffersSize) := by
  unfold allocateBuffer
  split
  · simp; omega
  · simp; split <;> omega

/-- one iteration of the allocation loop -/
def growOne (a : Arena) : Arena := { allocateBuffer a with allocated := a.allocated + a.bufSize }

theorem growOne_spec (a : Arena) :
    (growOne a).buffersPos = a.buffersPos + 1 ∧ (growOne a).bufSize = a.bufSize ∧
    (growOne a).pos = a.pos ∧ (growOne a).allocated = a.allocated + a.bufSize ∧
    (growOne a).items = a.items ∧ (TInv a → TInv (growOne a)) := by
  obtain ⟨h1, h2, h3, h4, h5, h6⟩ := allocateBuffer_spec a
  refine ⟨h1, h2, h3, rfl, h5, ?_⟩
  intro ⟨t1, t2⟩
  refine ⟨?_, h6 t2⟩
  show a.allocated + a.bufSize = (allocateBuffer a).bufSize * (allocateBuffer a).buffersPos
  rw [h1, h2, Nat.mul_succ, t1]

theorem growAlloc_succ (a : Arena) (target fuel : Nat) :
    growAlloc a target (fuel + 1)
      = if target ≥ a.allocated then growAlloc (growOne a) target fuel else a := rfl

/-- facts about the allocation loop that hold for any fuel -/
theorem growAlloc_frame (target : Nat) : ∀ (fuel : Nat) (a : Arena),
    (growAlloc a target fuel).pos = a.pos ∧ (growAlloc a target fuel).items = a.items ∧
    (growAlloc a target fuel).bufSize = a.bufSize ∧
    a.buffersPos ≤ (growAlloc a target fuel).buffersPos ∧
    (TInv a → TInv (growAlloc a target fuel))
  | 0, a => ⟨rfl, rfl, rfl, Nat.le_refl _, id⟩
  | fuel + 1, a => by
    rw [growAlloc_succ]
    split
    · obtain ⟨i1, i2, i3, i4, i5⟩ := growAlloc_frame target fuel (growOne a)
      obtain ⟨g1, g2, g3, _, g5, g6⟩ := growOne_spec a
      exact ⟨i1.trans g3, i2.trans g5, i3.trans g2, by omega, fun h => i5 (g6 h)⟩
    · exact ⟨rfl, rfl, rfl, Nat.le_refl _, id⟩

/-- the fuel suffices: every iteration adds `bufSize ≥ 1` to the allocated size, so
    `target + 1 - allocated` iterations are enough to pass `target` -/
theorem growAlloc_reaches (target : Nat) : ∀ (fuel : Nat) (a : Arena), 0 < a.bufSize →
    target + 1 ≤ a.allocated + fuel → target < (growAlloc a target fuel).allocated
  | 0, a, _, _ => by simp only [growAlloc]; omega
  | fuel + 1, a, hB, h => by
    rw [growAlloc_succ]
    split
    · obtain ⟨_, g2, _, g4, _, _⟩ := growOne_spec a
      exact growAlloc_reaches target fuel (growOne a) (by omega) (by omega)
    · omega

theorem growBy_fst (a : Arena) (delta : Nat) :
    (growBy a delta).1 =
      { growAlloc a (a.pos + delta) (a.pos + delta + 2) with
        pos := (growAlloc a (a.pos + delta) (a.pos + delta + 2)).pos + delta,
        items := (growAlloc a (a.pos + delta) (a.pos + delta + 2)).items
          ++ List.replicate delta defaultElem } := rfl

theorem growBy_snd (a : Arena) (delta : Nat) : (growBy a delta).2 = a.pos := rfl

/-- facts about `grow_by` that need no invariant -/
theorem growBy_frame (a : Arena) (delta : Nat) :
    (growBy a delta).1.pos = a.pos + delta ∧
    (growBy a delta).1.items = a.items ++ List.replicate delta defaultElem ∧
    (growBy a delta).1.bufSize = a.bufSize ∧ a.buffersPos ≤ (growBy a delta).1.buffersPos := by
  obtain ⟨i1, i2, i3, i4, _⟩ := growAlloc_frame (a.pos + delta) (a.pos + delta + 2) a
  rw [growBy_fst]
  exact ⟨by simp only [i1], by simp only [i2], i3, i4⟩

theorem growBy_spec (a : Arena) (hB : 0 < a.bufSize) (ht : TInv a)
    (hlen : a.items.length = a.pos) (delta : Nat) :
    (growBy a delta).2 = a.pos ∧ (growBy a delta).1.pos = a.pos + delta ∧
    (growBy a delta).1.items = a.items ++ List.replicate delta defaultElem ∧
    AInv (growBy a delta).1 := by
  obtain ⟨f1, f2, f3, f4⟩ := growBy_frame a delta
  obtain ⟨i1, i2, i3, i4, i5⟩ := growAlloc_frame (a.pos + delta) (a.pos + delta + 2) a
  have hr := growAlloc_reaches (a.pos + delta) (a.pos + delta + 2) a hB (by omega)
  refine ⟨rfl, f1, f2, ?_⟩
  obtain ⟨t1, t2⟩ := i5 ht
  refine ⟨t1, ?_, t2, ?_⟩
  · show (growAlloc a (a.pos + delta) (a.pos + delta + 2)).pos + delta < _
    rw [i1]; exact hr
  · rw [f2, f1, List.length_append, List.length_replicate, hlen]

theorem AInv.tinv {a : Arena} (h : AInv a) : TInv a := ⟨h.1, h.2.2.1⟩

theorem ceilLog2_spec (n : Nat) : n ≤ 2 ^ ceilLog2 n := by
  unfold ceilLog2
  split
  · next e => rw [e]; exact Nat.le_refl _
  · exact Nat.le_of_lt Nat.lt_log2_self

/-- the arena right after the constructor allocated the first buffer -/
def mk1 (minBuf : Nat) : Arena :=
  { bufSize := 2 ^ ceilLog2 minBuf, pos := 0, allocated := 2 ^ ceilLog2 minBuf, buffersPos := 1,
    buffersSize := 2, items := [] }

theorem mk_eq (minBuf initial : Nat) :
    mk minBuf initial = if initial > 0 then (growBy (mk1 minBuf) initial).1 else mk1 minBuf := rfl

theorem mk1_inv (minBuf : Nat) : AInv (mk1 minBuf) := by
  refine ⟨by simp [mk1], ?_, by simp [mk1], rfl⟩
  show 0 < 2 ^ ceilLog2 minBuf
  exact Nat.pow_pos (by omega)

theorem mk_spec (minBuf initial : Nat) :
    AInv (mk minBuf initial) ∧ (mk minBuf initial).pos = initial ∧
    (mk minBuf initial).bufSize = 2 ^ ceilLog2 minBuf ∧
    (mk minBuf initial).items = List.replicate initial defaultElem := by
  have hB : 0 < (mk1 minBuf).bufSize := Nat.pow_pos (by omega)
  rw [mk_eq]
  split
  · obtain ⟨_, g2, g3, g4⟩ := growBy_spec (mk1 minBuf) hB (mk1_inv minBuf).tinv rfl initial
    obtain ⟨_, _, f3, _⟩ := growBy_frame (mk1 minBuf) initial
    refine ⟨g4, ?_, f3, ?_⟩
    · rw [g2]; simp [mk1]
    · rw [g3]; simp [mk1]
  · next h =>
    have : initial = 0 := by omega
    subst this
    exact ⟨mk1_inv minBuf, rfl, rfl, rfl⟩

/-! ### the pool: association-list facts (as for C38) -/

abbrev Pool := List (Nat × Arena)

/-- lookup in a raw pool -/
def lk (l : Pool) (o : Nat) : Option Arena := (l.find? (·.1 = o)).map (·.2)

/-- overwrite in a raw pool -/
def upd (l : Pool) (o : Nat) (v : Arena) : Pool := l.map fun p => if p.1 = o then (p.1, v) else p

/-- weighted sum over a raw pool -/
def wsum (w : Arena → Int) (l : Pool) : Int := (l.map fun p => w p.2).sum

/-! ### raw pool lemmas -/

@[simp] theorem lk_nil (o : Nat) : lk [] o = none := rfl
theorem lk_cons (p : Nat × Arena) (t : Pool) (o : Nat) :
    lk (p :: t) o = if p.1 = o then some p.2 else lk t o := by
  unfold lk
  by_cases h : p.1 = o <;> simp [h]

@[simp] theorem upd_nil (o : Nat) (c : Arena) : upd [] o c = [] := rfl
theorem upd_cons (p : Nat × Arena) (t : Pool) (o : Nat) (c : Arena) :
    upd (p :: t) o c = (if p.1 = o then (p.1, c) else p) :: upd t o c := rfl

@[simp] theorem wsum_nil (w : Arena → Int) : wsum w [] = 0 := rfl
theorem wsum_cons (w : Arena → Int) (p : Nat × Arena) (t : Pool) :
    wsum w (p :: t) = w p.2 + wsum w t := by
  unfold wsum; simp

theorem wsum_append (w : Arena → Int) (l₁ l₂ : Pool) :
    wsum w (l₁ ++ l₂) = wsum w l₁ + wsum w l₂ := by
  induction l₁ with
  | nil => simp
  | cons p t ih => rw [List.cons_append, wsum_cons, wsum_cons, ih]; omega

theorem wsum_single (w : Arena → Int) (n : Nat) (v : Arena) : wsum w [(n, v)] = w v := by
  rw [wsum_cons]; simp

theorem upd_ids (l : Pool) (o : Nat) (c : Arena) : (upd l o c).map Prod.fst = l.map Prod.fst := by
  induction l with
  | nil => rfl
  | cons p t ih =>
    rw [upd_cons, List.map_cons, List.map_cons, ih]
    by_cases h : p.1 = o <;> simp [h]

theorem lk_none_iff (l : Pool) (o : Nat) : lk l o = none ↔ o ∉ l.map Prod.fst := by
  induction l with
  | nil => simp
  | cons p t ih =>
    rw [lk_cons]
    by_cases h : p.1 = o
    · simp [h]
    · simp only [h, if_false, ih, List.map_cons, List.mem_cons, not_or]
      exact ⟨fun h' => ⟨fun e => h e.symm, h'⟩, fun h' => h'.2⟩

theorem lk_mem {l : Pool} {o : Nat} {v : Arena} (h : lk l o = some v) : (o, v) ∈ l := by
  induction l with
  | nil => simp at h
  | cons p t ih =>
    rw [lk_cons] at h
    by_cases hp : p.1 = o
    · simp only [hp, if_true, Option.some.injEq] at h
      have : p = (o, v) := by rw [← hp, ← h]
      rw [this]; exact List.mem_cons_self
    · simp only [hp, if_false] at h
      exact List.mem_cons_of_mem _ (ih h)

theorem upd_of_not_mem (l : Pool) (o : Nat) (c : Arena) (h : o ∉ l.map Prod.fst) :
    upd l o c = l := by
  induction l with
  | nil => rfl
  | cons p t ih =>
    simp only [List.map_cons, List.mem_cons, not_or] at h
    rw [upd_cons, ih h.2, if_neg (fun e => h.1 e.symm)]

theorem lk_upd_self (l : Pool) (o : Nat) (c : Arena) :
    lk (upd l o c) o = (lk l o).map fun _ => c := by
  induction l with
  | nil => rfl
  | cons p t ih =>
    rw [upd_cons, lk_cons, lk_cons]
    by_cases h : p.1 = o <;> simp [h, ih]

theorem lk_upd_ne (l : Pool) (o o' : Nat) (c : Arena) (hne : o' ≠ o) :
    lk (upd l o c) o' = lk l o' := by
  induction l with
  | nil => rfl
  | cons p t ih =>
    rw [upd_cons, lk_cons, lk_cons, ih]
    by_cases h : p.1 = o
    · simp [h, Ne.symm hne]
    · simp [h]

theorem lk_append (l₁ l₂ : Pool) (o : Nat) :
    lk (l₁ ++ l₂) o = (lk l₁ o).or (lk l₂ o) := by
  induction l₁ with
  | nil => simp
  | cons p t ih =>
    rw [List.cons_append, lk_cons, lk_cons, ih]
    by_cases h : p.1 = o <;> simp [h]

theorem lk_filter (l : Pool) (o o' : Nat) :
    lk (l.filter (·.1 ≠ o)) o' = if o' = o then none else lk l o' := by
  induction l with
  | nil => simp
  | cons p t ih =>
    by_cases h : p.1 = o
    · rw [List.filter_cons_of_neg (by simp [h]), ih, lk_cons]
      by_cases h' : o' = o
      · simp [h']
      · have : ¬ p.1 = o' := fun e => h' (e.symm.trans h)
        simp [h', this]
    · rw [List.filter_cons_of_pos (by simp [h]), lk_cons, lk_cons, ih]
      by_cases h' : o' = o
      · simp [h', h]
      · simp [h']

theorem filter_of_not_mem (l : Pool) (o : Nat) (h : o ∉ l.map Prod.fst) :
    l.filter (·.1 ≠ o) = l := by
  induction l with
  | nil => rfl
  | cons p t ih =>
    simp only [List.map_cons, List.mem_cons, not_or] at h
    rw [List.filter_cons_of_pos (by simpa using fun e => h.1 e.symm), ih h.2]

/-- effect of overwriting the (unique) arena `o` on a weighted sum -/
theorem wsum_upd (w : Arena → Int) (l : Pool) (o : Nat) (c d : Arena)
    (hn : (l.map Prod.fst).Nodup) (hd : lk l o = some d) :
    wsum w (upd l o c) = wsum w l - w d + w c := by
  induction l with
  | nil => simp at hd
  | cons p t ih =>
    rw [List.map_cons, List.nodup_cons] at hn
    rw [lk_cons] at hd
    rw [upd_cons, wsum_cons, wsum_cons]
    by_cases h : p.1 = o
    · simp only [h, if_true, Option.some.injEq] at hd
      rw [upd_of_not_mem t o c (h ▸ hn.1), if_pos h, hd]
      simp only
      omega
    · simp only [h, if_false] at hd
      rw [ih hn.2 hd, if_neg h]
      omega

/-- effect of removing the (unique) arena `o` on a weighted sum -/
theorem wsum_filter (w : Arena → Int) (l : Pool) (o : Nat) (d : Arena)
    (hn : (l.map Prod.fst).Nodup) (hd : lk l o = some d) :
    wsum w (l.filter (·.1 ≠ o)) = wsum w l - w d := by
  induction l with
  | nil => simp at hd
  | cons p t ih =>
    rw [List.map_cons, List.nodup_cons] at hn
    rw [lk_cons] at hd
    by_cases h : p.1 = o
    · simp only [h, if_true, Option.some.injEq] at hd
      rw [List.filter_cons_of_neg (by simp [h]), filter_of_not_mem t o (h ▸ hn.1), wsum_cons, hd]
      omega
    · simp only [h, if_false] at hd
      rw [List.filter_cons_of_pos (by simp [h]), wsum_cons, wsum_cons, ih hn.2 hd]
      omega

/-! ### projections of the pool updates -/

theorem get_eq (s : St) (o : Nat) : get s o = lk s.arenas o := rfl
@[simp] theorem put_arenas (s : St) (o : Nat) (a : Arena) :
    (put s o a).arenas = upd s.arenas o a := rfl
@[simp] theorem put_live (s : St) (o : Nat) (a : Arena) :
    (put s o a).buffersLive = s.buffersLive := rfl
@[simp] theorem put_next (s : St) (o : Nat) (a : Arena) : (put s o a).next = s.next := rfl
@[simp] theorem add_arenas (s : St) (a : Arena) :
    (add s a).arenas = s.arenas ++ [(s.next, a)] := rfl
@[simp] theorem add_live (s : St) (a : Arena) : (add s a).buffersLive = s.buffersLive := rfl
@[simp] theorem add_next (s : St) (a : Arena) : (add s a).next = s.next + 1 := rfl

/-! ### the state component of `step`, in projection form -/

def stepSt (s : St) : Op → St
  | .mk minBuf initial =>
    if minBuf = 0 then s else
    add { s with buffersLive := s.buffersLive + (mk minBuf initial).buffersPos } (mk minBuf initial)
  | .growBy o delta =>
    match get s o with
    | some a =>
      if a.bufSize = 0 then s else
      put { s with buffersLive :=
              s.buffersLive + ((growBy a delta).1.buffersPos - a.buffersPos : Nat) }
        o (growBy a delta).1
    | none => s
  | .set o idx v =>
    match get s o with
    | some a => if idx < a.pos then put s o { a with items := a.items.set idx v } else s
    | none => s
  | .copyCtor src =>
    match get s src with
    | some a => add { s with buffersLive := s.buffersLive + a.buffersPos } a
    | none => s
  | .moveCtor src =>
    match get s src with
    | some a => add (put s src emptyShell) a
    | none => s
  | .copyAssign dst src =>
    match get s dst, get s src with
    | some d, some a =>
      put { s with buffersLive := s.buffersLive + a.buffersPos - d.buffersPos } dst a
    | _, _ => s
  | .moveAssign dst src =>
    match get s dst, get s src with
    | some d, some a => if dst = src then s else put (put s dst a) src d
    | _, _ => s
  | .swap x y =>
    match get s x, get s y with
    | some a, some b => if x = y then s else put (put s x b) y a
    | _, _ => s
  | .destroy o =>
    match get s o with
    | some a =>
      { s with arenas := s.arenas.filter (·.1 ≠ o), buffersLive := s.buffersLive - a.buffersPos }
    | none => s
  | .query _ => s

theorem step_fst (s : St) (op : Op) : (step s op).1 = stepSt s op := by
  cases op with
  | mk minBuf initial => simp only [step, stepSt]; split <;> rfl
  | growBy o delta =>
    simp only [step, stepSt]
    cases get s o <;> (try rfl)
    simp only []; split <;> rfl
  | set o idx v =>
    simp only [step, stepSt]
    cases get s o <;> (try rfl)
    simp only []; split <;> rfl
  | copyAssign dst src =>
    simp only [step, stepSt]
    cases get s dst <;> cases get s src <;> rfl
  | moveAssign dst src =>
    simp only [step, stepSt]
    cases get s dst <;> cases get s src <;> (try rfl)
    simp only []; split <;> rfl
  | swap x y =>
    simp only [step, stepSt]
    cases get s x <;> cases get s y <;> (try rfl)
    simp only []; split <;> rfl
  | query o => simp only [step, stepSt]; cases get s o <;> rfl
  | _ => simp only [step, stepSt]; cases get s _ <;> rfl

theorem runOps_cons (s : St) (o : Op) (os : List Op) :
    runOps s (o :: os) = runOps (stepSt s o) os := by
  rw [runOps, step_fst]

/-! ### id-uniqueness invariant -/

structure WFp (l : Pool) (n : Nat) : Prop where
  nodup : (l.map Prod.fst).Nodup
  lt : ∀ p ∈ l, p.1 < n

/-- ids are unique and below `next` -/
@[reducible] def WF (s : St) : Prop := WFp s.arenas s.next

theorem WFp.not_mem {l : Pool} {n : Nat} (h : WFp l n) : n ∉ l.map Prod.fst := by
  intro hm
  obtain ⟨p, hp, e⟩ := List.mem_map.1 hm
  have := h.lt p hp
  omega

theorem WFp.pres_upd {l : Pool} {n : Nat} (h : WFp l n) (o : Nat) (v : Arena) :
    WFp (upd l o v) n := by
  constructor
  · rw [upd_ids]; exact h.nodup
  · intro p hp
    have : p.1 ∈ (upd l o v).map Prod.fst := List.mem_map.2 ⟨p, hp, rfl⟩
    rw [upd_ids] at this
    obtain ⟨q, hq, e⟩ := List.mem_map.1 this
    rw [← e]; exact h.lt q hq

theorem WFp.pres_app {l : Pool} {n : Nat} (h : WFp l n) (v : Arena) :
    WFp (l ++ [(n, v)]) (n + 1) := by
  constructor
  · simp only [List.map_append, List.map_cons, List.map_nil]
    rw [List.nodup_append]
    refine ⟨h.nodup, by simp, ?_⟩
    intro a ha b hb e
    simp only [List.mem_singleton] at hb
    subst hb; subst e
    exact h.not_mem ha
  · intro p hp
    simp only [List.mem_append, List.mem_singleton] at hp
    rcases hp with hp | hp
    · have := h.lt p hp; omega
    · subst hp; simp

theorem WFp.pres_filter {l : Pool} {n : Nat} (h : WFp l n) (o : Nat) :
    WFp (l.filter (·.1 ≠ o)) n := by
  constructor
  · exact (List.filter_sublist.map Prod.fst).nodup h.nodup
  · intro p hp
    exact h.lt p (List.mem_filter.1 hp).1

theorem WF.init : WF St.init := ⟨by simp [St.init], by simp [St.init]⟩

theorem WF.get_next {s : St} (h : WF s) : get s s.next = none :=
  (lk_none_iff _ _).2 h.not_mem

theorem WF.pres_stepSt {s : St} (h : WF s) (op : Op) : WF (stepSt s op) := by
  cases op <;> simp only [stepSt] <;> (try split) <;> (try split) <;>
    first
    | exact h
    | exact h.pres_upd _ _
    | exact h.pres_app _
    | exact (h.pres_upd _ _).pres_app _
    | exact (h.pres_upd _ _).pres_upd _ _
    | exact h.pres_filter _

theorem WF.pres_runOps {s : St} (h : WF s) (ops : List Op) : WF (runOps s ops) := by
  induction ops generalizing s with
  | nil => exact h
  | cons o os ih => rw [runOps_cons]; exact ih (h.pres_stepSt o)

/-! ### buffer ledger -/

/-- number of element buffers of an arena, as an integer -/
def nb (a : Arena) : Int := (a.buffersPos : Nat)

/-- buffers alive = sum over the arenas of their number of buffers -/
def Led (s : St) : Prop := s.buffersLive = wsum nb s.arenas

theorem Led.init : Led St.init := rfl

theorem Led.of_upd {s s' : St} (hw' : WF s) (hl : Led s) {o : Nat} {v v' : Arena}
    (hg : get s o = some v) (hv : s'.arenas = upd s.arenas o v')
    (hL : s'.buffersLive = s.buffersLive - nb v + nb v') : Led s' := by
  unfold Led
  rw [hv, wsum_upd nb _ _ _ _ hw'.nodup hg, hL, hl]

theorem Led.of_app {s s' : St} (hl : Led s) {n : Nat} {v : Arena}
    (hv : s'.arenas = s.arenas ++ [(n, v)]) (hL : s'.buffersLive = s.buffersLive + nb v) :
    Led s' := by
  unfold Led
  rw [hv, wsum_append, wsum_single, hL, hl]

theorem Led.of_filter {s s' : St} (hw' : WF s) (hl : Led s) {o : Nat} {v : Arena}
    (hg : get s o = some v) (hv : s'.arenas = s.arenas.filter (·.1 ≠ o))
    (hL : s'.buffersLive = s.buffersLive - nb v) : Led s' := by
  unfold Led
  rw [hv, wsum_filter nb _ _ _ hw'.nodup hg, hL, hl]

@[simp] theorem nb_emptyShell : nb emptyShell = 0 := rfl

theorem Led.pres_stepSt {s : St} (hw' : WF s) (hl : Led s) (op : Op) : Led (stepSt s op) := by
  cases op with
  | mk minBuf initial =>
    simp only [stepSt]
    split
    · exact hl
    · exact Led.of_app hl (v := mk minBuf initial) rfl rfl
  | growBy o delta =>
    simp only [stepSt]
    split
    · next a ha =>
      split
      · exact hl
      · refine Led.of_upd hw' hl ha rfl ?_
        show s.buffersLive + _ = _
        have := (growBy_frame a delta).2.2.2
        simp only [nb]; omega
    · exact hl
  | set o idx v =>
    simp only [stepSt]
    split
    · next a ha =>
      split
      · refine Led.of_upd hw' hl ha rfl ?_
        show s.buffersLive = _
        simp only [nb]; omega
      · exact hl
    · exact hl
  | copyCtor src =>
    simp only [stepSt]
    split
    · next a ha => exact Led.of_app hl (v := a) rfl rfl
    · exact hl
  | moveCtor src =>
    simp only [stepSt]
    split
    · next a ha =>
      have h1 : Led ⟨upd s.arenas src emptyShell, s.next, s.buffersLive - nb a⟩ :=
        Led.of_upd hw' hl ha rfl (by simp)
      refine Led.of_app h1 (v := a) rfl ?_
      show s.buffersLive = _
      simp only []; omega
    · exact hl
  | copyAssign dst src =>
    simp only [stepSt]
    split
    · next d a hd ha =>
      refine Led.of_upd hw' hl hd rfl ?_
      show s.buffersLive + _ - _ = _
      simp only [nb]; omega
    · exact hl
  | moveAssign dst src =>
    simp only [stepSt]
    split
    · next d a hd ha =>
      split
      · exact hl
      · next hne =>
        have h1 : Led ⟨upd s.arenas dst a, s.next, s.buffersLive - nb d + nb a⟩ :=
          Led.of_upd hw' hl hd rfl rfl
        have hw1 : WF ⟨upd s.arenas dst a, s.next, s.buffersLive - nb d + nb a⟩ :=
          hw'.pres_upd _ _
        have hg : get ⟨upd s.arenas dst a, s.next, s.buffersLive - nb d + nb a⟩ src = some a := by
          rw [get_eq]; simp only []
          rw [lk_upd_ne _ _ _ _ (Ne.symm hne)]; exact ha
        refine Led.of_upd hw1 h1 hg rfl ?_
        show s.buffersLive = _
        simp only []; omega
    · exact hl
  | swap x y =>
    simp only [stepSt]
    split
    · next a b ha hb =>
      split
      · exact hl
      · next hne =>
        have h1 : Led ⟨upd s.arenas x b, s.next, s.buffersLive - nb a + nb b⟩ :=
          Led.of_upd hw' hl ha rfl rfl
        have hw1 : WF ⟨upd s.arenas x b, s.next, s.buffersLive - nb a + nb b⟩ :=
          hw'.pres_upd _ _
        have hg : get ⟨upd s.arenas x b, s.next, s.buffersLive - nb a + nb b⟩ y = some b := by
          rw [get_eq]; simp only []
          rw [lk_upd_ne _ _ _ _ (Ne.symm hne)]; exact hb
        refine Led.of_upd hw1 h1 hg rfl ?_
        show s.buffersLive = _
        simp only []; omega
    · exact hl
  | destroy o =>
    simp only [stepSt]
    split
    · next a ha => exact Led.of_filter hw' hl ha rfl rfl
    · exact hl
  | query o => exact hl

theorem Led.pres_runOps {s : St} (hw' : WF s) (hl : Led s) (ops : List Op) :
    Led (runOps s ops) := by
  induction ops generalizing s with
  | nil => exact hl
  | cons o os ih => rw [runOps_cons]; exact ih (hw'.pres_stepSt o) (hl.pres_stepSt hw' o)

/-! ### every arena of the pool satisfies the arena invariant (or is a moved-from shell) -/

/-- a live arena (`bufSize ≥ 1`, invariant holds) or the empty shell left by a move constructor -/
def AOk (a : Arena) : Prop := a = emptyShell ∨ (0 < a.bufSize ∧ AInv a)

def POk (s : St) : Prop := ∀ p ∈ s.arenas, AOk p.2

theorem POk.init : POk St.init := by simp [POk, St.init]

theorem POk.get {s : St} (h : POk s) {o : Nat} {a : Arena} (hg : get s o = some a) : AOk a :=
  h _ (lk_mem hg)

theorem pok_upd {l : Pool} (h : ∀ p ∈ l, AOk p.2) (o : Nat) {v : Arena} (hv : AOk v) :
    ∀ p ∈ upd l o v, AOk p.2 := by
  intro p hp
  obtain ⟨q, hq, e⟩ := List.mem_map.1 hp
  subst e
  split
  · exact hv
  · exact h q hq

theorem pok_app {l : Pool} (h : ∀ p ∈ l, AOk p.2) (n : Nat) {v : Arena} (hv : AOk v) :
    ∀ p ∈ l ++ [(n, v)], AOk p.2 := by
  intro p hp
  simp only [List.mem_append, List.mem_singleton] at hp
  rcases hp with hp | hp
  · exact h p hp
  · subst hp; exact hv

theorem AOk.growBy {a : Arena} (h : AOk a) (hB : a.bufSize ≠ 0) (delta : Nat) :
    AOk (growBy a delta).1 := by
  rcases h with rfl | ⟨h1, h2⟩
  · exact absurd rfl hB
  · right
    refine ⟨?_, (growBy_spec a h1 h2.tinv h2.2.2.2 delta).2.2.2⟩
    rw [(growBy_frame a delta).2.2.1]; exact h1

theorem AOk.set {a : Arena} (h : AOk a) (idx : Nat) (v : Int) :
    AOk { a with items := a.items.set idx v } := by
  rcases h with rfl | ⟨h1, h2, h3, h4, h5⟩
  · left; rfl
  · right
    exact ⟨h1, h2, h3, h4, by simp only [List.length_set]; exact h5⟩

theorem AOk.mk (minBuf initial : Nat) : AOk (mk minBuf initial) := by
  obtain ⟨h1, _, h3, _⟩ := mk_spec minBuf initial
  right
  exact ⟨by rw [h3]; exact Nat.pow_pos (by omega), h1⟩

theorem POk.pres_stepSt {s : St} (h : POk s) (op : Op) : POk (stepSt s op) := by
  unfold POk at *
  cases op with
  | mk minBuf initial =>
    simp only [stepSt]
    split
    · exact h
    · exact pok_app h _ (AOk.mk minBuf initial)
  | growBy o delta =>
    simp only [stepSt]
    split
    · next a ha =>
      split
      · exact h
      · next hB => exact pok_upd h _ ((h _ (lk_mem ha)).growBy hB delta)
    · exact h
  | set o idx v =>
    simp only [stepSt]
    split
    · next a ha =>
      split
      · exact pok_upd h _ ((h _ (lk_mem ha)).set idx v)
      · exact h
    · exact h
  | copyCtor src =>
    simp only [stepSt]
    split
    · next a ha => exact pok_app h _ (h _ (lk_mem ha))
    · exact h
  | moveCtor src =>
    simp only [stepSt]
    split
    · next a ha => exact pok_app (pok_upd h _ (Or.inl rfl)) _ (h _ (lk_mem ha))
    · exact h
  | copyAssign dst src =>
    simp only [stepSt]
    split
    · next d a hd ha => exact pok_upd h _ (h _ (lk_mem ha))
    · exact h
  | moveAssign dst src =>
    simp only [stepSt]
    split
    · next d a hd ha =>
      split
      · exact h
      · exact pok_upd (pok_upd h _ (h _ (lk_mem ha))) _ (h _ (lk_mem hd))
    · exact h
  | swap x y =>
    simp only [stepSt]
    split
    · next a b ha hb =>
      split
      · exact h
      · exact pok_upd (pok_upd h _ (h _ (lk_mem hb))) _ (h _ (lk_mem ha))
    · exact h
  | destroy o =>
    simp only [stepSt]
    split
    · exact fun p hp => h p (List.mem_filter.1 hp).1
    · exact h
  | query o => exact h

theorem POk.pres_runOps {s : St} (h : POk s) (ops : List Op) : POk (runOps s ops) := by
  induction ops generalizing s with
  | nil => exact h
  | cons o os ih => rw [runOps_cons]; exact ih (h.pres_stepSt o)

end Seq

/-! ## concurrent layer -/
open Dispenso.Conc

/-- a reducible copy of `proto B` (so that `(P B).L` is `L` for `simp`/`rw`) -/
abbrev P (B : Nat) : Proto :=
  { L := L, op := op B, cont := cont B, entry := fun l l' => idleOrDone l && isEntry l' }

theorem P_eq (B : Nat) : P B = proto B := rfl

/-- threads inside the resize section: between the successful `cas 3 0 1` and the `store 3 0` -/
def holdsLock : L → Bool
  | .gLoadAlloc2 _ _ => true
  | .gLdBP _ _ _ => true
  | .gLdBS _ _ _ _ => true
  | .gTblLoad _ _ _ _ _ => true
  | .gSetBS _ _ _ _ _ => true
  | .gIncBP _ _ _ _ _ => true
  | .gTblStore _ _ _ => true
  | .gStoreAlloc _ _ _ => true
  | .gUnlock _ _ => true
  | _ => false

/-- one atomic step of a thread in local state `l` on memory `m`: the operation, the value it
    returns, the next local state and the memory afterwards -/
def stepL (B : Nat) (m : Nat → Int) (l : L) : Option (AOp × Int × L × (Nat → Int)) :=
  match op B l with
  | none => none
  | some o =>
    match memEffect m o with
    | none => none
    | some (r, none) => some (o, r, cont B l r, m)
    | some (r, some (f, v)) => some (o, r, cont B l r, fun g => if g = f then v else m g)

theorem op_no_futex (B : Nat) (l : L) :
    (∀ f e b, op B l ≠ some (.fwait f e b)) ∧ (∀ f n, op B l ≠ some (.fwake f n)) := by
  cases l <;> simp [op]

theorem evOf_step {Q : Proto} (s : State Q) (t : TId) (o : AOp) (r : Int)
    (w : Option (Fld × Int)) (ho : Q.op (s.loc t) = some o)
    (hm : memEffect s.mem o = some (r, w)) : evOf s (.step t) = some ⟨t, o, r⟩ := by
  cases o <;> simp [evOf, ho, memEffect] at hm ⊢ <;> simp [hm]

/-- every enabled action in a state without parked threads is a client call or one `stepL` -/
theorem exec_inv {B : Nat} {s s' : State (P B)} {a : Act (P B)} (hnp : ∀ t, s.parked t = none)
    (he : exec s a = some s') :
    (∃ t l, a = .call t l ∧ idleOrDone (s.loc t) = true ∧ isEntry l = true ∧
        s'.mem = s.mem ∧ s'.parked = s.parked ∧
        s'.loc = (fun u => if u = t then l else s.loc u) ∧ evOf s a = none) ∨
    (∃ t o r l' m', a = .step t ∧ stepL B s.mem (s.loc t) = some (o, r, l', m') ∧
        s'.mem = m' ∧ s'.parked = s.parked ∧
        s'.loc = (fun u => if u = t then l' else s.loc u) ∧ evOf s a = some ⟨t, o, r⟩) := by
  cases a with
  | call t l =>
    left
    obtain ⟨_, _, h3, h4, h5, h6, _⟩ := exec_call_gen he
    have h3' : (idleOrDone (s.loc t) && isEntry l) = true := h3
    rw [Bool.and_eq_true] at h3'
    exact ⟨t, l, rfl, h3'.1, h3'.2, h4, h5, funext h6, rfl⟩
  | step t =>
    right
    obtain ⟨_, o, ho, hc⟩ := exec_step_gen he
    have ho' : op B (s.loc t) = some o := ho
    rcases hc with ⟨f, e, b, rfl, _⟩ | ⟨f, e, b, rfl, _⟩ | ⟨r, hm, rfl⟩ | ⟨r, f, v, hm, rfl⟩
    · exact absurd ho' ((op_no_futex B _).1 f e b)
    · exact absurd ho' ((op_no_futex B _).1 f e b)
    · refine ⟨t, o, r, cont B (s.loc t) r, s.mem, rfl, ?_, rfl, rfl, rfl, evOf_step s t o r _ ho hm⟩
      simp only [stepL, ho', hm]
    · refine ⟨t, o, r, cont B (s.loc t) r, _, rfl, ?_, rfl, rfl, rfl, evOf_step s t o r _ ho hm⟩
      simp only [stepL, ho', hm]
      rfl
  | wake t ws =>
    exfalso
    obtain ⟨_, f, n, ho, _⟩ := exec_wake_gen he
    exact (op_no_futex B _).2 f n ho
  | timeout t =>
    obtain ⟨f, b, r, hp, _⟩ := exec_unpark_gen (Or.inl he)
    rw [hnp] at hp; cases hp
  | spurious t =>
    obtain ⟨f, b, r, hp, _⟩ := exec_unpark_gen (Or.inr he)
    rw [hnp] at hp; cases hp

/-! ### the inductive invariant -/

/-- what a thread in local state `l` knows (`m1 = allocatedSize_`, `m4 = buffersSize_`,
    `m5 = buffersPos_`): the lock holder's copies of `allocatedSize_`/`buffersPos_`/`buffersSize_`
    are current; a thread about to CAS `pos_` has checked `old + d < allocatedSize_` -/
def LocOk (B m1 m4 m5 : Int) : L → Prop
  | .gLoadPos d => 0 ≤ d
  | .gLoadAlloc d old => 0 ≤ d ∧ 0 ≤ old
  | .gLock d old => 0 ≤ d ∧ 0 ≤ old
  | .gLoadAlloc2 d old => 0 ≤ d ∧ 0 ≤ old ∧ m1 = B * m5
  | .gLdBP d old cur => 0 ≤ d ∧ 0 ≤ old ∧ cur = m1 ∧ m1 = B * m5
  | .gLdBS d old cur bp => 0 ≤ d ∧ 0 ≤ old ∧ cur = m1 ∧ bp = m5 ∧ m1 = B * m5
  | .gTblLoad d old cur bp bs => 0 ≤ d ∧ 0 ≤ old ∧ cur = m1 ∧ bp = m5 ∧ bs = m4 ∧ m1 = B * m5
  | .gSetBS d old cur bp bs =>
    0 ≤ d ∧ 0 ≤ old ∧ cur = m1 ∧ bp = m5 ∧ bs = m4 ∧ bs ≤ bp ∧ m1 = B * m5
  | .gIncBP d old cur bp _ => 0 ≤ d ∧ 0 ≤ old ∧ cur = m1 ∧ bp = m5 ∧ bp < m4 ∧ m1 = B * m5
  | .gTblStore d old cur => 0 ≤ d ∧ 0 ≤ old ∧ cur = m1 ∧ m1 + B = B * m5
  | .gStoreAlloc d old cur => 0 ≤ d ∧ 0 ≤ old ∧ cur = m1 ∧ m1 + B = B * m5
  | .gUnlock d old => 0 ≤ d ∧ 0 ≤ old ∧ old + d < m1 ∧ m1 = B * m5
  | .gCas d old => 0 ≤ d ∧ 0 ≤ old ∧ old + d < m1
  | _ => True

structure MInv (B : Nat) (m : Nat → Int) (loc : TId → L) : Prop where
  lkv : m 3 = 0 ∨ m 3 = 1
  bp1 : 1 ≤ m 5
  bpbs : m 5 ≤ m 4
  pos0 : 0 ≤ m 0
  posLt : m 0 < m 1
  uniq : ∀ t u, holdsLock (loc t) = true → holdsLock (loc u) = true → t = u
  held : ∀ t, holdsLock (loc t) = true → m 3 = 1
  owner : m 3 = 1 → ∃ t, holdsLock (loc t) = true
  free : m 3 = 0 → m 1 = B * m 5
  locOk : ∀ t, LocOk B (m 1) (m 4) (m 5) (loc t)

/-- what a thread outside the resize section knows survives growth of `allocatedSize_` -/
theorem locOk_mono {B m1 m4 m5 m1' m4' m5' : Int} {l : L} (h : holdsLock l = false)
    (hk : LocOk B m1 m4 m5 l) (hle : m1 ≤ m1') : LocOk B m1' m4' m5' l := by
  cases l <;> simp_all [holdsLock, LocOk] <;> omega

/-- a step outside the resize section that leaves memory unchanged -/
theorem minv_local {B : Nat} {m : Nat → Int} {loc : TId → L} (hI : MInv B m loc) (t : TId)
    (l' : L) (h1 : holdsLock (loc t) = false) (h2 : holdsLock l' = false)
    (hok : LocOk B (m 1) (m 4) (m 5) l') :
    MInv B m (fun u => if u = t then l' else loc u) := by
  obtain ⟨lkv, bp1, bpbs, pos0, posLt, uniq, held, owner, free, locOk⟩ := hI
  refine ⟨lkv, bp1, bpbs, pos0, posLt, ?_, ?_, ?_, free, ?_⟩
  · intro a b ha hb
    by_cases hat : a = t
    · simp [hat, h2] at ha
    · by_cases hbt : b = t
      · simp [hbt, h2] at hb
      · simp only [hat, hbt, if_false] at ha hb; exact uniq a b ha hb
  · intro a ha
    by_cases hat : a = t
    · simp [hat, h2] at ha
    · simp only [hat, if_false] at ha; exact held a ha
  · intro h3
    obtain ⟨a, ha⟩ := owner h3
    have hat : a ≠ t := by intro e; rw [e, h1] at ha; cases ha
    exact ⟨a, by simp only [hat, if_false]; exact ha⟩
  · intro a
    by_cases hat : a = t
    · simp only [hat, if_true]; exact hok
    · simp only [hat, if_false]; exact locOk a

/-- a step of the lock holder that stays inside the resize section -/
theorem minv_holder {B : Nat} {m m' : Nat → Int} {loc : TId → L} (hI : MInv B m loc) (t : TId)
    (l' : L) (h1 : holdsLock (loc t) = true) (h2 : holdsLock l' = true)
    (e0 : m' 0 = m 0) (e3 : m' 3 = m 3) (e1 : m 1 ≤ m' 1) (hbp1 : 1 ≤ m' 5)
    (hbpbs : m' 5 ≤ m' 4) (hok : LocOk B (m' 1) (m' 4) (m' 5) l') :
    MInv B m' (fun u => if u = t then l' else loc u) := by
  obtain ⟨lkv, bp1, bpbs, pos0, posLt, uniq, held, owner, free, locOk⟩ := hI
  have h31 : m 3 = 1 := held t h1
  refine ⟨by rw [e3]; exact lkv, hbp1, hbpbs, by rw [e0]; exact pos0, by rw [e0]; omega,
    ?_, ?_, ?_, ?_, ?_⟩
  · intro a b ha hb
    have ha' : a = t := by
      by_cases hat : a = t
      · exact hat
      · simp only [hat, if_false] at ha; exact uniq a t ha h1
    have hb' : b = t := by
      by_cases hbt : b = t
      · exact hbt
      · simp only [hbt, if_false] at hb; exact uniq b t hb h1
    rw [ha', hb']
  · intro a _; rw [e3]; exact h31
  · intro _; exact ⟨t, by simp only [if_true]; exact h2⟩
  · intro h; rw [e3, h31] at h; cases h
  · intro a
    by_cases hat : a = t
    · simp only [hat, if_true]; exact hok
    · simp only [hat, if_false]
      refine locOk_mono ?_ (locOk a) e1
      cases hh : holdsLock (loc a)
      · rfl
      · exact absurd (uniq a t hh h1) hat

/-- acquiring the resize mutex -/
theorem minv_lock {B : Nat} {m : Nat → Int} {loc : TId → L} (hI : MInv B m loc) (t : TId)
    (d old : Int) (hl : loc t = .gLock d old) (h30 : m 3 = 0) :
    MInv B (fun g => if g = 3 then 1 else m g)
      (fun u => if u = t then .gLoadAlloc2 d old else loc u) := by
  obtain ⟨lkv, bp1, bpbs, pos0, posLt, uniq, held, owner, free, locOk⟩ := hI
  have hno : ∀ a, holdsLock (loc a) = false := by
    intro a
    cases hh : holdsLock (loc a)
    · rfl
    · have := held a hh; omega
  have hk := locOk t
  rw [hl] at hk
  refine ⟨Or.inr (by simp), by simpa using bp1, by simpa using bpbs, by simpa using pos0,
    by simpa using posLt, ?_, ?_, ?_, ?_, ?_⟩
  · intro a b ha hb
    have ha' : a = t := by
      by_cases hat : a = t
      · exact hat
      · simp only [hat, if_false, hno] at ha; cases ha
    have hb' : b = t := by
      by_cases hbt : b = t
      · exact hbt
      · simp only [hbt, if_false, hno] at hb; cases hb
    rw [ha', hb']
  · intro _ _; simp
  · intro _; exact ⟨t, by simp [holdsLock]⟩
  · intro h; simp at h
  · intro a
    by_cases hat : a = t
    · simp only [hat, if_true]
      simp [LocOk] at hk ⊢
      exact ⟨hk.1, hk.2, free h30⟩
    · simp only [hat, if_false]
      simpa using locOk a

/-- releasing the resize mutex -/
theorem minv_unlock {B : Nat} {m : Nat → Int} {loc : TId → L} (hI : MInv B m loc) (t : TId)
    (d old : Int) (hl : loc t = .gUnlock d old) :
    MInv B (fun g => if g = 3 then 0 else m g)
      (fun u => if u = t then .gCas d old else loc u) := by
  obtain ⟨lkv, bp1, bpbs, pos0, posLt, uniq, held, owner, free, locOk⟩ := hI
  have hh : holdsLock (loc t) = true := by rw [hl]; rfl
  have hno : ∀ a, a ≠ t → holdsLock (loc a) = false := by
    intro a hat
    cases hh' : holdsLock (loc a)
    · rfl
    · exact absurd (uniq a t hh' hh) hat
  have hk := locOk t
  rw [hl] at hk
  simp only [LocOk] at hk
  refine ⟨Or.inl (by simp), by simpa using bp1, by simpa using bpbs, by simpa using pos0,
    by simpa using posLt, ?_, ?_, ?_, ?_, ?_⟩
  · intro a b ha hb
    by_cases hat : a = t
    · simp [hat, holdsLock] at ha
    · simp only [hat, if_false, hno a hat] at ha; cases ha
  · intro a ha
    by_cases hat : a = t
    · simp [hat, holdsLock] at ha
    · simp only [hat, if_false, hno a hat] at ha; cases ha
  · intro h; simp at h
  · intro _; simpa using hk.2.2.2
  · intro a
    by_cases hat : a = t
    · simp only [hat, if_true]
      simp [LocOk]
      exact ⟨hk.1, hk.2.1, hk.2.2.1⟩
    · simp only [hat, if_false]
      simpa using locOk a

/-- a successful claim `pos_ : old → old + d` -/
theorem minv_claim {B : Nat} {m : Nat → Int} {loc : TId → L} (hI : MInv B m loc) (t : TId)
    (d old : Int) (l' : L) (hl : loc t = .gCas d old) (h2 : holdsLock l' = false)
    (hok : LocOk B (m 1) (m 4) (m 5) l') :
    MInv B (fun g => if g = 0 then old + d else m g)
      (fun u => if u = t then l' else loc u) := by
  have hk := hI.locOk t
  rw [hl] at hk
  simp only [LocOk] at hk
  have h1 : holdsLock (loc t) = false := by rw [hl]; rfl
  obtain ⟨lkv, bp1, bpbs, pos0, posLt, uniq, held, owner, free, locOk⟩ := minv_local hI t l' h1 h2 hok
  exact ⟨by simpa using lkv, by simpa using bp1, by simpa using bpbs, by simp; omega,
    by simp; omega, uniq, by simpa using held, by simpa using owner, by simpa using free,
    by simpa using locOk⟩

/-! ### preservation, one lemma per local state -/
section
variable {B : Nat} {m m' : Nat → Int} {loc : TId → L} {t : TId} {o : AOp} {r : Int} {l' : L}

theorem step_gLoadPos (hI : MInv B m loc) {d : Int} (hl : loc t = .gLoadPos d)
    (h : stepL B m (loc t) = some (o, r, l', m')) :
    MInv B m' (fun u => if u = t then l' else loc u) := by
  have hk := hI.locOk t
  rw [hl] at h hk
  simp only [stepL, op, memEffect, cont, Option.some.injEq, Prod.mk.injEq] at h
  obtain ⟨rfl, rfl, rfl, rfl⟩ := h
  exact minv_local hI t _ (by rw [hl]; rfl) rfl ⟨hk, hI.pos0⟩

theorem step_gLoadAlloc (hI : MInv B m loc) {d old : Int} (hl : loc t = .gLoadAlloc d old)
    (h : stepL B m (loc t) = some (o, r, l', m')) :
    MInv B m' (fun u => if u = t then l' else loc u) := by
  have hk := hI.locOk t
  rw [hl] at h hk
  simp only [stepL, op, memEffect, cont, Option.some.injEq, Prod.mk.injEq] at h
  obtain ⟨rfl, rfl, rfl, rfl⟩ := h
  simp only [LocOk] at hk
  by_cases hc : old + d ≥ m 1
  · rw [if_pos hc]; exact minv_local hI t _ (by rw [hl]; rfl) rfl hk
  · rw [if_neg hc]; exact minv_local hI t _ (by rw [hl]; rfl) rfl ⟨hk.1, hk.2, by omega⟩

theorem step_gLock (hI : MInv B m loc) {d old : Int} (hl : loc t = .gLock d old)
    (h : stepL B m (loc t) = some (o, r, l', m')) :
    MInv B m' (fun u => if u = t then l' else loc u) := by
  have hk := hI.locOk t
  rw [hl] at h hk
  by_cases h3 : m 3 = 0
  · simp only [stepL, op, memEffect, cont, h3, if_true, Option.some.injEq, Prod.mk.injEq] at h
    obtain ⟨rfl, rfl, rfl, rfl⟩ := h
    exact minv_lock hI t d old hl h3
  · simp only [stepL, op, memEffect, cont, h3, if_false, Option.some.injEq, Prod.mk.injEq] at h
    obtain ⟨rfl, rfl, rfl, rfl⟩ := h
    exact minv_local hI t _ (by rw [hl]; rfl) rfl hk

theorem step_gLoadAlloc2 (hI : MInv B m loc) {d old : Int} (hl : loc t = .gLoadAlloc2 d old)
    (h : stepL B m (loc t) = some (o, r, l', m')) :
    MInv B m' (fun u => if u = t then l' else loc u) := by
  have hk := hI.locOk t
  rw [hl] at h hk
  simp only [stepL, op, memEffect, cont, Option.some.injEq, Prod.mk.injEq] at h
  obtain ⟨rfl, rfl, rfl, rfl⟩ := h
  simp only [LocOk] at hk
  have hh : holdsLock (loc t) = true := by rw [hl]; rfl
  by_cases hc : old + d ≥ m 1
  · rw [if_pos hc]
    exact minv_holder hI t _ hh rfl rfl rfl (Int.le_refl _) hI.bp1 hI.bpbs
      ⟨hk.1, hk.2.1, rfl, hk.2.2⟩
  · rw [if_neg hc]
    exact minv_holder hI t _ hh rfl rfl rfl (Int.le_refl _) hI.bp1 hI.bpbs
      ⟨hk.1, hk.2.1, by omega, hk.2.2⟩

theorem step_gLdBP (hI : MInv B m loc) {d old cur : Int} (hl : loc t = .gLdBP d old cur)
    (h : stepL B m (loc t) = some (o, r, l', m')) :
    MInv B m' (fun u => if u = t then l' else loc u) := by
  have hk := hI.locOk t
  rw [hl] at h hk
  simp only [stepL, op, memEffect, cont, Option.some.injEq, Prod.mk.injEq] at h
  obtain ⟨rfl, rfl, rfl, rfl⟩ := h
  simp only [LocOk] at hk
  exact minv_holder hI t _ (by rw [hl]; rfl) rfl rfl rfl (Int.le_refl _) hI.bp1 hI.bpbs
    ⟨hk.1, hk.2.1, hk.2.2.1, rfl, hk.2.2.2⟩

theorem step_gLdBS (hI : MInv B m loc) {d old cur bp : Int} (hl : loc t = .gLdBS d old cur bp)
    (h : stepL B m (loc t) = some (o, r, l', m')) :
    MInv B m' (fun u => if u = t then l' else loc u) := by
  have hk := hI.locOk t
  rw [hl] at h hk
  simp only [stepL, op, memEffect, cont, Option.some.injEq, Prod.mk.injEq] at h
  obtain ⟨rfl, rfl, rfl, rfl⟩ := h
  simp only [LocOk] at hk
  exact minv_holder hI t _ (by rw [hl]; rfl) rfl rfl rfl (Int.le_refl _) hI.bp1 hI.bpbs
    ⟨hk.1, hk.2.1, hk.2.2.1, hk.2.2.2.1, rfl, hk.2.2.2.2⟩

theorem step_gTblLoad (hI : MInv B m loc) {d old cur bp bs : Int}
    (hl : loc t = .gTblLoad d old cur bp bs)
    (h : stepL B m (loc t) = some (o, r, l', m')) :
    MInv B m' (fun u => if u = t then l' else loc u) := by
  have hk := hI.locOk t
  rw [hl] at h hk
  simp only [stepL, op, memEffect, cont, Option.some.injEq, Prod.mk.injEq] at h
  obtain ⟨rfl, rfl, rfl, rfl⟩ := h
  simp only [LocOk] at hk
  obtain ⟨k1, k2, k3, k4, k5, k6⟩ := hk
  have hh : holdsLock (loc t) = true := by rw [hl]; rfl
  by_cases hc : bp < bs
  · rw [if_pos hc]
    exact minv_holder hI t _ hh rfl rfl rfl (Int.le_refl _) hI.bp1 hI.bpbs
      ⟨k1, k2, k3, k4, by omega, k6⟩
  · rw [if_neg hc]
    exact minv_holder hI t _ hh rfl rfl rfl (Int.le_refl _) hI.bp1 hI.bpbs
      ⟨k1, k2, k3, k4, k5, by omega, k6⟩

theorem step_gSetBS (hI : MInv B m loc) {d old cur bp bs : Int}
    (hl : loc t = .gSetBS d old cur bp bs)
    (h : stepL B m (loc t) = some (o, r, l', m')) :
    MInv B m' (fun u => if u = t then l' else loc u) := by
  have hk := hI.locOk t
  rw [hl] at h hk
  simp only [stepL, op, memEffect, cont, Option.some.injEq, Prod.mk.injEq] at h
  obtain ⟨rfl, rfl, rfl, rfl⟩ := h
  simp only [LocOk] at hk
  obtain ⟨k1, k2, k3, k4, k5, k6, k7⟩ := hk
  have b1 := hI.bp1
  have b2 := hI.bpbs
  have hne : ¬ bs = 0 := by omega
  rw [if_neg hne]
  refine minv_holder hI t _ (by rw [hl]; rfl) rfl ?_ ?_ ?_ ?_ ?_ ?_
  · simp
  · simp
  · simp
  · simpa using b1
  · simp; omega
  · simp [LocOk]
    exact ⟨k1, k2, k3, k4, by omega, k7⟩

theorem step_gIncBP (hI : MInv B m loc) {d old cur bp : Int} {grew : Bool}
    (hl : loc t = .gIncBP d old cur bp grew)
    (h : stepL B m (loc t) = some (o, r, l', m')) :
    MInv B m' (fun u => if u = t then l' else loc u) := by
  have hk := hI.locOk t
  rw [hl] at h hk
  simp only [stepL, op, memEffect, cont, Option.some.injEq, Prod.mk.injEq] at h
  obtain ⟨rfl, rfl, rfl, rfl⟩ := h
  simp only [LocOk] at hk
  obtain ⟨k1, k2, k3, k4, k5, k6⟩ := hk
  have b1 := hI.bp1
  have hmul : (B : Int) * (bp + 1) = B * bp + B := by rw [Int.mul_add, Int.mul_one]
  have hh : holdsLock (loc t) = true := by rw [hl]; rfl
  cases grew
  · refine minv_holder hI t _ hh rfl ?_ ?_ ?_ ?_ ?_ ?_
    · simp
    · simp
    · simp
    · simp; omega
    · simp; omega
    · simp [LocOk]
      refine ⟨k1, k2, k3, ?_⟩
      rw [hmul, k6, k4]
  · refine minv_holder hI t _ hh rfl ?_ ?_ ?_ ?_ ?_ ?_
    · simp
    · simp
    · simp
    · simp; omega
    · simp; omega
    · simp [LocOk]
      refine ⟨k1, k2, k3, ?_⟩
      rw [hmul, k6, k4]

theorem step_gTblStore (hI : MInv B m loc) {d old cur : Int} (hl : loc t = .gTblStore d old cur)
    (h : stepL B m (loc t) = some (o, r, l', m')) :
    MInv B m' (fun u => if u = t then l' else loc u) := by
  have hk := hI.locOk t
  rw [hl] at h hk
  simp only [stepL, op, memEffect, cont, Option.some.injEq, Prod.mk.injEq] at h
  obtain ⟨rfl, rfl, rfl, rfl⟩ := h
  simp only [LocOk] at hk
  refine minv_holder hI t _ (by rw [hl]; rfl) rfl ?_ ?_ ?_ ?_ ?_ ?_
  · simp
  · simp
  · simp
  · simpa using hI.bp1
  · simpa using hI.bpbs
  · simpa [LocOk] using hk

theorem step_gStoreAlloc (hI : MInv B m loc) {d old cur : Int}
    (hl : loc t = .gStoreAlloc d old cur)
    (h : stepL B m (loc t) = some (o, r, l', m')) :
    MInv B m' (fun u => if u = t then l' else loc u) := by
  have hk := hI.locOk t
  rw [hl] at h hk
  simp only [stepL, op, memEffect, cont, Option.some.injEq, Prod.mk.injEq] at h
  obtain ⟨rfl, rfl, rfl, rfl⟩ := h
  simp only [LocOk] at hk
  obtain ⟨k1, k2, k3, k4⟩ := hk
  have hh : holdsLock (loc t) = true := by rw [hl]; rfl
  have hB0 : (0 : Int) ≤ B := Int.natCast_nonneg B
  by_cases hc : old + d ≥ cur + B
  · rw [if_pos hc]
    refine minv_holder hI t _ hh rfl ?_ ?_ ?_ ?_ ?_ ?_
    · simp
    · simp
    · simp; omega
    · simpa using hI.bp1
    · simpa using hI.bpbs
    · simp [LocOk]
      exact ⟨k1, k2, by omega⟩
  · rw [if_neg hc]
    refine minv_holder hI t _ hh rfl ?_ ?_ ?_ ?_ ?_ ?_
    · simp
    · simp
    · simp; omega
    · simpa using hI.bp1
    · simpa using hI.bpbs
    · simp [LocOk]
      exact ⟨k1, k2, by omega, by omega⟩

theorem step_gUnlock (hI : MInv B m loc) {d old : Int} (hl : loc t = .gUnlock d old)
    (h : stepL B m (loc t) = some (o, r, l', m')) :
    MInv B m' (fun u => if u = t then l' else loc u) := by
  rw [hl] at h
  simp only [stepL, op, memEffect, cont, Option.some.injEq, Prod.mk.injEq] at h
  obtain ⟨rfl, rfl, rfl, rfl⟩ := h
  exact minv_unlock hI t d old hl

theorem step_gCas (hI : MInv B m loc) {d old : Int} (hl : loc t = .gCas d old)
    (h : stepL B m (loc t) = some (o, r, l', m')) :
    MInv B m' (fun u => if u = t then l' else loc u) := by
  have hk := hI.locOk t
  rw [hl] at h hk
  simp only [LocOk] at hk
  by_cases h0 : m 0 = old
  · simp only [stepL, op, memEffect, cont, h0, if_true, Option.some.injEq, Prod.mk.injEq] at h
    obtain ⟨rfl, rfl, rfl, rfl⟩ := h
    exact minv_claim hI t d old _ hl rfl trivial
  · simp only [stepL, op, memEffect, cont, h0, if_false, Option.some.injEq, Prod.mk.injEq] at h
    obtain ⟨rfl, rfl, rfl, rfl⟩ := h
    exact minv_local hI t _ (by rw [hl]; rfl) rfl ⟨hk.1, hI.pos0⟩

theorem step_gConstruct (hI : MInv B m loc) {old b e : Int} (hl : loc t = .gConstruct old b e)
    (h : stepL B m (loc t) = some (o, r, l', m')) :
    MInv B m' (fun u => if u = t then l' else loc u) := by
  rw [hl] at h
  simp only [stepL, op, memEffect, cont, Option.some.injEq, Prod.mk.injEq] at h
  obtain ⟨rfl, rfl, rfl, rfl⟩ := h
  by_cases hc : b < e
  · rw [if_pos hc]; exact minv_local hI t _ (by rw [hl]; rfl) rfl trivial
  · rw [if_neg hc]; exact minv_local hI t _ (by rw [hl]; rfl) rfl trivial

/-- the observers `operator[]`, `size`, `capacity` and the destructor's load -/
theorem step_observer (hI : MInv B m loc)
    (hl : loc t = .ixLoad ∨ loc t = .szLoad ∨ loc t = .cpLoad ∨ loc t = .dtLoad)
    (h : stepL B m (loc t) = some (o, r, l', m')) :
    MInv B m' (fun u => if u = t then l' else loc u) := by
  rcases hl with hl | hl | hl | hl <;>
  · rw [hl] at h
    simp only [stepL, op, memEffect, cont, Option.some.injEq, Prod.mk.injEq] at h
    obtain ⟨rfl, rfl, rfl, rfl⟩ := h
    exact minv_local hI t _ (by rw [hl]; rfl) rfl trivial

theorem minv_step (hI : MInv B m loc) (h : stepL B m (loc t) = some (o, r, l', m')) :
    MInv B m' (fun u => if u = t then l' else loc u) := by
  cases hl : loc t with
  | idle => rw [hl] at h; simp [stepL, op] at h
  | done ret => rw [hl] at h; simp [stepL, op] at h
  | gLoadPos d => exact step_gLoadPos hI hl h
  | gLoadAlloc d old => exact step_gLoadAlloc hI hl h
  | gLock d old => exact step_gLock hI hl h
  | gLoadAlloc2 d old => exact step_gLoadAlloc2 hI hl h
  | gLdBP d old cur => exact step_gLdBP hI hl h
  | gLdBS d old cur bp => exact step_gLdBS hI hl h
  | gTblLoad d old cur bp bs => exact step_gTblLoad hI hl h
  | gSetBS d old cur bp bs => exact step_gSetBS hI hl h
  | gIncBP d old cur bp grew => exact step_gIncBP hI hl h
  | gTblStore d old cur => exact step_gTblStore hI hl h
  | gStoreAlloc d old cur => exact step_gStoreAlloc hI hl h
  | gUnlock d old => exact step_gUnlock hI hl h
  | gCas d old => exact step_gCas hI hl h
  | gConstruct old b e => exact step_gConstruct hI hl h
  | ixLoad => exact step_observer hI (Or.inl hl) h
  | szLoad => exact step_observer hI (Or.inr (Or.inl hl)) h
  | cpLoad => exact step_observer hI (Or.inr (Or.inr (Or.inl hl))) h
  | dtLoad => exact step_observer hI (Or.inr (Or.inr (Or.inr hl))) h

end

/-! ### the invariant on states; reachability -/

/-- no thread is ever parked (the protocol has no futex operation) and `MInv` holds -/
structure Inv (B : Nat) (s : State (P B)) : Prop where
  np : ∀ t, s.parked t = none
  minv : MInv B s.mem s.loc

theorem minv_call {B : Nat} {m : Nat → Int} {loc : TId → L} (hI : MInv B m loc) (t : TId)
    (l : L) (hidle : idleOrDone (loc t) = true) (hent : isEntry l = true) :
    MInv B m (fun u => if u = t then l else loc u) := by
  have h1 : holdsLock (loc t) = false := by
    cases hlt : loc t <;> simp_all [idleOrDone, holdsLock]
  have h2 : holdsLock l = false ∧ LocOk B (m 1) (m 4) (m 5) l := by
    cases l <;> simp_all [isEntry, holdsLock, LocOk]
  exact minv_local hI t l h1 h2.1 h2.2

theorem inv_init (B : Nat) (hB : 1 ≤ B) : Inv B (init B) := by
  refine ⟨fun _ => rfl, ?_⟩
  refine ⟨Or.inl rfl, ?_, ?_, ?_, ?_, ?_, ?_, ?_, ?_, fun _ => trivial⟩
  · show (1 : Int) ≤ 1; omega
  · show (1 : Int) ≤ 2; omega
  · show (0 : Int) ≤ 0; omega
  · show (0 : Int) < (B : Int); omega
  · intro t u h; cases h
  · intro t h; cases h
  · intro h; cases h
  · intro _; show (B : Int) = B * 1; omega

theorem inv_step {B : Nat} {s s' : State (P B)} {a : Act (P B)} (hI : Inv B s)
    (he : exec s a = some s') : Inv B s' := by
  rcases exec_inv hI.np he with ⟨t, l, _, hidle, hent, hm, hp, hloc, _⟩ |
    ⟨t, o, r, l', m', _, hs, hm, hp, hloc, _⟩
  · refine ⟨by rw [hp]; exact hI.np, ?_⟩
    rw [hm, hloc]; exact minv_call hI.minv t l hidle hent
  · refine ⟨by rw [hp]; exact hI.np, ?_⟩
    rw [hm, hloc]; exact minv_step hI.minv hs

theorem inv_reachable {B : Nat} (hB : 1 ≤ B) {s : State (P B)} (h : Reachable (init B) s) :
    Inv B s :=
  invariant (Inv B) (inv_init B hB) (fun _ _ _ hI he => inv_step hI he) s h

/-! ### histories: successful position claims tile `[pos₀, pos)` -/

/-- the range claimed by an event: a successful `cas pos_ : old → new` with `old < new` -/
def claimOf (e : Ev) : Option (Int × Int) :=
  match e.op with
  | .cas f old new => if f = 0 ∧ e.res = old ∧ old < new then some (old, new) else none
  | _ => none

/-- the successful, non-empty position claims of a history, in history order -/
def claims (evs : List Ev) : List (Int × Int) := evs.filterMap claimOf

theorem claims_append (a b : List Ev) : claims (a ++ b) = claims a ++ claims b := by
  simp [claims, List.filterMap_append]

theorem claims_single (e : Ev) : claims [e] = (claimOf e).toList := by
  simp only [claims, List.filterMap_cons, List.filterMap_nil]
  cases claimOf e <;> rfl

/-- the events contributed by one action (as in `runEvs`) -/
def evl {Q : Proto} (s : State Q) (a : Act Q) : List Ev :=
  match evOf s a with
  | some e => [e]
  | none => []

/-- one step either claims nothing and leaves `pos_` alone, or claims exactly `[pos, pos')` -/
theorem stepL_tiles {B : Nat} {m m' : Nat → Int} {loc : TId → L} {t : TId} {o : AOp} {r : Int}
    {l' : L} (hI : MInv B m loc) (h : stepL B m (loc t) = some (o, r, l', m')) :
    Tiles (m 0) (m' 0) (claims [⟨t, o, r⟩]) := by
  have hk := hI.locOk t
  rw [claims_single]
  cases hl : loc t <;> rw [hl] at h hk
  case gCas d old =>
    simp only [LocOk] at hk
    by_cases h0 : m 0 = old
    · simp only [stepL, op, memEffect, cont, h0, if_true, Option.some.injEq, Prod.mk.injEq] at h
      obtain ⟨rfl, rfl, rfl, rfl⟩ := h
      by_cases hd : old < old + d
      · simp [claimOf, hd, Tiles, h0]
      · have : d = 0 := by omega
        simp [claimOf, Tiles, this, h0]
    · simp only [stepL, op, memEffect, cont, h0, if_false, Option.some.injEq, Prod.mk.injEq] at h
      obtain ⟨rfl, rfl, rfl, rfl⟩ := h
      simp [claimOf, h0, Tiles]
  case gLock d old =>
    by_cases h3 : m 3 = 0
    · simp only [stepL, op, memEffect, cont, h3, if_true, Option.some.injEq, Prod.mk.injEq] at h
      obtain ⟨rfl, rfl, rfl, rfl⟩ := h
      simp [claimOf, Tiles]
    · simp only [stepL, op, memEffect, cont, h3, if_false, Option.some.injEq, Prod.mk.injEq] at h
      obtain ⟨rfl, rfl, rfl, rfl⟩ := h
      simp [claimOf, Tiles]
  all_goals
    simp only [stepL, op, memEffect, cont, Option.some.injEq, Prod.mk.injEq, reduceCtorEq] at h
  all_goals
    obtain ⟨rfl, rfl, rfl, rfl⟩ := h
    simp [claimOf, Tiles]

theorem step_tiles {B : Nat} {s s' : State (P B)} {a : Act (P B)} (hI : Inv B s)
    (he : exec s a = some s') : Tiles (s.mem 0) (s'.mem 0) (claims (evl s a)) := by
  rcases exec_inv hI.np he with ⟨t, l, _, hidle, hent, hm, hp, hloc, hev⟩ |
    ⟨t, o, r, l', m', _, hs, hm, hp, hloc, hev⟩
  · simp only [evl, hev, hm, claims, List.filterMap_nil, Tiles]
  · have := stepL_tiles hI.minv hs
    simp only [evl, hev, hm]
    exact this

theorem tiles_run {B : Nat} (as : List (Act (P B))) : ∀ (s sf : State (P B)) (evs : List Ev),
    Inv B s → runEvs s as = some (sf, evs) → Tiles (s.mem 0) (sf.mem 0) (claims evs) := by
  induction as with
  | nil =>
    intro s sf evs _ h
    simp only [runEvs, Option.some.injEq, Prod.mk.injEq] at h
    obtain ⟨rfl, rfl⟩ := h
    simp [claims, Tiles]
  | cons a as ih =>
    intro s sf evs hI h
    simp only [runEvs] at h
    split at h
    · rename_i s' he
      split at h
      · rename_i sf' evs' hr
        simp only [Option.some.injEq, Prod.mk.injEq] at h
        obtain ⟨rfl, rfl⟩ := h
        rw [claims_append]
        exact Tiles.append (step_tiles hI he) (ih s' sf' evs' (inv_step hI he) hr)
      · cases h
    · cases h

/-- unpack a computed projection of a run into the existential form used by the statements -/
theorem exists_of_runEvs_map {Q : Proto} {α : Type} {s0 : State Q} {as : List (Act Q)}
    {f : State Q → List Ev → α} {x : α} (h : (runEvs s0 as).map (fun p => f p.1 p.2) = some x) :
    ∃ s evs, runEvs s0 as = some (s, evs) ∧ f s evs = x := by
  cases hr : runEvs s0 as with
  | none => simp [hr] at h
  | some p =>
    obtain ⟨s, evs⟩ := p
    simp only [hr, Option.map_some, Option.some.injEq] at h
    exact ⟨s, evs, rfl, h⟩

/-- the same for a decidable predicate of the final state and the history (evaluated by `decide`) -/
theorem exists_of_runEvs_dec {Q : Proto} {s0 : State Q} {as : List (Act Q)}
    (p : State Q → List Ev → Prop) [∀ s evs, Decidable (p s evs)]
    (h : (runEvs s0 as).map (fun x => decide (p x.1 x.2)) = some true) :
    ∃ s evs, runEvs s0 as = some (s, evs) ∧ p s evs := by
  obtain ⟨s, evs, h1, h2⟩ := exists_of_runEvs_map (f := fun s evs => decide (p s evs)) h
  exact ⟨s, evs, h1, of_decide_eq_true h2⟩

/-! ### consequences of the invariant -/

/-- threads between the increment of `buffersPos_` and the publication of `allocatedSize_` -/
def midAlloc : L → Bool
  | .gTblStore _ _ _ => true
  | .gStoreAlloc _ _ _ => true
  | _ => false

/-- `allocatedSize_ = B * buffersPos_`, except while the lock holder has added a buffer to the
    table and not yet published the new allocated size (then it is one buffer behind) -/
theorem minv_alloc {B : Nat} {m : Nat → Int} {loc : TId → L} (hI : MInv B m loc) :
    (m 1 = B * m 5 ∧ ∀ t, midAlloc (loc t) = false) ∨
    (m 1 + B = B * m 5 ∧ ∃ t, midAlloc (loc t) = true) := by
  rcases hI.lkv with h3 | h3
  · left
    refine ⟨hI.free h3, ?_⟩
    intro t
    cases hm : midAlloc (loc t)
    · rfl
    · have : holdsLock (loc t) = true := by
        cases hl : loc t <;> simp_all [midAlloc, holdsLock]
      have := hI.held t this
      omega
  · obtain ⟨t, ht⟩ := hI.owner h3
    have hk := hI.locOk t
    cases hm : midAlloc (loc t)
    · left
      constructor
      · cases hl : loc t <;> simp_all [midAlloc, holdsLock, LocOk]
      · intro u
        cases hmu : midAlloc (loc u)
        · rfl
        · have hu : holdsLock (loc u) = true := by
            cases hl : loc u <;> simp_all [midAlloc, holdsLock]
          have := hI.uniq u t hu ht
          subst this
          rw [hm] at hmu; cases hmu
    · right
      refine ⟨?_, t, hm⟩
      cases hl : loc t <;> simp_all [midAlloc, holdsLock, LocOk]

end Dispenso.Arena
