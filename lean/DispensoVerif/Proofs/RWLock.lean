import DispensoVerif.Model.RWLock
/-
Proofs for C22 (`RWLockImpl`): one inductive invariant `Inv` over the generic interleaving
semantics `Conc.exec`, for any number (< 2^30) of threads and any schedule, including spurious
wake-ups.

* `Inv0`: bookkeeping — threads outside `s.threads` are idle; the word (field 0) equals
  `#contributes + W * #bitOwner` with at most one bit owner; only a thread at `wWait cur` with
  `cur ≠ W` is ever parked (on field 0, untimed).
* `Inv`: additionally (`ex`) while the bit owner is in its *holding* phase (`done _ write`,
  `ulAnd`, `dgAdd`) no thread is a *hard* reader (`done _ read`, `usSub`, `upOr`, `upSub`,
  `dgAnd`) — optimistic increments of `lock_shared`/`try_lock_shared` that are about to be backed
  out (`lsRelease`, `tsRelease`) are allowed; and (`d`) if the word is exactly `W` then either
  nobody is parked or a wake-all is pending.

The generic lemmas about `exec`/`setLoc`/`unparkAll` are copies of those in `Proofs/Event.lean`
(kept in this namespace so that both files can be imported together).
Core Lean only.
-/
namespace Dispenso.RWLock
open Dispenso.Conc

/-! ### generic facts about `Conc.exec` -/
section generic
variable {P : Proto}

@[simp] theorem setLoc_loc (s : State P) (t : TId) (l : P.L) (u : TId) :
    (setLoc s t l).loc u = if u = t then l else s.loc u := rfl
@[simp] theorem setLoc_mem (s : State P) (t : TId) (l : P.L) : (setLoc s t l).mem = s.mem := rfl
@[simp] theorem setLoc_parked (s : State P) (t : TId) (l : P.L) :
    (setLoc s t l).parked = s.parked := rfl
@[simp] theorem setLoc_threads (s : State P) (t : TId) (l : P.L) :
    (setLoc s t l).threads = s.threads := rfl
@[simp] theorem setMem_loc (s : State P) (f : Fld) (v : Int) : (setMem s f v).loc = s.loc := rfl
@[simp] theorem setMem_mem (s : State P) (f : Fld) (v : Int) (g : Fld) :
    (setMem s f v).mem g = if g = f then v else s.mem g := rfl
@[simp] theorem setMem_parked (s : State P) (f : Fld) (v : Int) :
    (setMem s f v).parked = s.parked := rfl
@[simp] theorem setMem_threads (s : State P) (f : Fld) (v : Int) :
    (setMem s f v).threads = s.threads := rfl
@[simp] theorem setParked_loc (s : State P) (t : TId) (p : Option (Fld × Bool)) :
    (setParked s t p).loc = s.loc := rfl
@[simp] theorem setParked_mem (s : State P) (t : TId) (p : Option (Fld × Bool)) :
    (setParked s t p).mem = s.mem := rfl
@[simp] theorem setParked_parked (s : State P) (t : TId) (p : Option (Fld × Bool)) (u : TId) :
    (setParked s t p).parked u = if u = t then p else s.parked u := rfl
@[simp] theorem setParked_threads (s : State P) (t : TId) (p : Option (Fld × Bool)) :
    (setParked s t p).threads = s.threads := rfl

@[simp] theorem unparkAll_mem (s : State P) (ws : List TId) : (unparkAll s ws).mem = s.mem := by
  induction ws generalizing s with
  | nil => rfl
  | cons w ws ih => simp [unparkAll, ih]

@[simp] theorem unparkAll_threads (s : State P) (ws : List TId) :
    (unparkAll s ws).threads = s.threads := by
  induction ws generalizing s with
  | nil => rfl
  | cons w ws ih => simp [unparkAll, ih]

theorem unparkAll_parked (s : State P) (ws : List TId) (u : TId) :
    (unparkAll s ws).parked u = if u ∈ ws then none else s.parked u := by
  induction ws generalizing s with
  | nil => simp [unparkAll]
  | cons w ws ih =>
    simp only [unparkAll, ih, setLoc_parked, setParked_parked, List.mem_cons]
    by_cases h1 : u ∈ ws <;> by_cases h2 : u = w <;> simp [h1, h2]

theorem unparkAll_loc (s : State P) (ws : List TId) (hnd : ws.Nodup) (u : TId) :
    (unparkAll s ws).loc u = if u ∈ ws then P.cont (s.loc u) rWoken else s.loc u := by
  induction ws generalizing s with
  | nil => simp [unparkAll]
  | cons w ws ih =>
    have hw : w ∉ ws := (List.nodup_cons.mp hnd).1
    simp only [unparkAll, ih _ (List.nodup_cons.mp hnd).2, setLoc_loc, setParked_loc,
      List.mem_cons]
    by_cases h1 : u ∈ ws <;> by_cases h2 : u = w
    · subst h2; exact absurd h1 hw
    · simp [h1, h2]
    · subst h2; simp [h1]
    · simp [h1, h2]

theorem mem_parkedOn (s : State P) (f : Fld) (u : TId) :
    u ∈ parkedOn s f ↔ u ∈ s.threads ∧ ∃ b, s.parked u = some (f, b) := by
  unfold parkedOn
  rw [List.mem_filter]
  constructor
  · rintro ⟨h1, h2⟩
    refine ⟨h1, ?_⟩
    split at h2
    · rename_i g b hp
      have : g = f := by simpa using h2
      subst this; exact ⟨b, hp⟩
    · simp at h2
  · rintro ⟨h1, b, hb⟩
    refine ⟨h1, ?_⟩
    simp [hb]

/-- inversion of a `step` -/
theorem exec_step_inv {s s' : State P} {t : TId} (h : exec s (.step t) = some s') :
    s.parked t = none ∧ ∃ o, P.op (s.loc t) = some o ∧
      ((∃ f e b, o = .fwait f e b ∧
          ((s.mem f = e ∧ s' = setParked s t (some (f, b))) ∨
           (s.mem f ≠ e ∧ s' = setLoc s t (P.cont (s.loc t) rAgain)))) ∨
       (∃ r, memEffect s.mem o = some (r, none) ∧ s' = setLoc s t (P.cont (s.loc t) r)) ∨
       (∃ r f v, memEffect s.mem o = some (r, some (f, v)) ∧
          s' = setLoc (setMem s f v) t (P.cont (s.loc t) r))) := by
  simp only [exec] at h
  split at h
  · contradiction
  · rename_i hp
    refine ⟨by simpa using hp, ?_⟩
    split at h
    · contradiction
    · contradiction
    · rename_i f e b ho
      refine ⟨_, ho, Or.inl ⟨f, e, b, rfl, ?_⟩⟩
      split at h <;> (injection h with h; subst h)
      · exact Or.inl ⟨by assumption, rfl⟩
      · exact Or.inr ⟨by assumption, rfl⟩
    · rename_i o _ _ ho
      refine ⟨o, ho, Or.inr ?_⟩
      split at h
      · contradiction
      · rename_i r hm
        injection h with h; subst h
        exact Or.inl ⟨r, hm, rfl⟩
      · rename_i r f v hm
        injection h with h; subst h
        exact Or.inr ⟨r, f, v, hm, rfl⟩

/-- inversion of a `wake` -/
theorem exec_wake_inv {s s' : State P} {t : TId} {ws : List TId}
    (h : exec s (.wake t ws) = some s') :
    s.parked t = none ∧ ∃ f n, P.op (s.loc t) = some (.fwake f n) ∧ ws.Nodup ∧
      (∀ u ∈ ws, u ∈ parkedOn s f) ∧ (ws.length < n → ∀ u ∈ parkedOn s f, u ∈ ws) ∧ t ∉ ws ∧
      s' = setLoc (unparkAll s ws) t (P.cont (s.loc t) ws.length) := by
  simp only [exec] at h
  split at h
  · contradiction
  · rename_i hp
    have hp : s.parked t = none := by simpa using hp
    refine ⟨hp, ?_⟩
    split at h
    · rename_i f n ho
      split at h
      · rename_i hc
        obtain ⟨hnd, hsub, _, hall⟩ := hc
        injection h with h
        have htw : t ∉ ws := by
          intro htw
          have := ((mem_parkedOn s f t).mp (hsub t htw)).2
          rw [hp] at this
          simp at this
        refine ⟨f, n, ho, hnd, hsub, hall, htw, ?_⟩
        rw [← h, unparkAll_loc s ws hnd t, if_neg htw]
      · contradiction
    · contradiction

theorem exec_unpark_inv {s s' : State P} {t : TId}
    (h : exec s (.timeout t) = some s' ∨ exec s (.spurious t) = some s') :
    ∃ p r, s.parked t = some p ∧ s' = setLoc (setParked s t none) t (P.cont (s.loc t) r) := by
  rcases h with h | h
  · simp only [exec] at h
    split at h
    · rename_i f hp
      injection h with h
      exact ⟨_, _, hp, h.symm⟩
    · contradiction
  · simp only [exec] at h
    split at h
    · rename_i p hp
      injection h with h
      exact ⟨_, _, hp, h.symm⟩
    · contradiction

theorem exec_call_inv {s s' : State P} {t : TId} {l : P.L}
    (h : exec s (.call t l) = some s') :
    s.parked t = none ∧ P.op (s.loc t) = none ∧ P.entry (s.loc t) l = true ∧
      s'.mem = s.mem ∧ s'.parked = s.parked ∧ (∀ u, s'.loc u = if u = t then l else s.loc u) ∧
      s'.threads = if t ∈ s.threads then s.threads else t :: s.threads := by
  simp only [exec] at h
  split at h
  · rename_i hc
    obtain ⟨h1, h2, h3⟩ := hc
    injection h with h
    subst h
    exact ⟨h1, h2, h3, rfl, rfl, fun u => rfl, rfl⟩
  · contradiction

theorem exec_threads_length {s s' : State P} {a : Act P} (h : exec s a = some s') :
    s.threads.length ≤ s'.threads.length := by
  cases a with
  | step t =>
    obtain ⟨_, o, _, h⟩ := exec_step_inv h
    rcases h with ⟨_, _, _, _, ⟨_, rfl⟩ | ⟨_, rfl⟩⟩ | ⟨_, _, rfl⟩ | ⟨_, _, _, _, rfl⟩ <;> simp
  | wake t ws =>
    obtain ⟨_, _, _, _, _, _, _, _, rfl⟩ := exec_wake_inv h; simp
  | timeout t => obtain ⟨_, _, _, rfl⟩ := exec_unpark_inv (Or.inl h); simp
  | spurious t => obtain ⟨_, _, _, rfl⟩ := exec_unpark_inv (Or.inr h); simp
  | call t l =>
    have := (exec_call_inv h).2.2.2.2.2.2
    rw [this]; split <;> simp

/-! counting -/
theorem countP_update {ths : List TId} (hnd : ths.Nodup) {t : TId} (ht : t ∈ ths)
    (f g : TId → Bool) (h : ∀ u, u ≠ t → g u = f u) :
    ths.countP g + (f t).toNat = ths.countP f + (g t).toNat := by
  induction ths with
  | nil => cases ht
  | cons a as ih =>
    obtain ⟨ha, hnd'⟩ := List.nodup_cons.mp hnd
    simp only [List.countP_cons]
    by_cases hat : a = t
    · subst hat
      have : as.countP g = as.countP f := by
        apply List.countP_congr
        intro u hu
        have : u ≠ a := fun h => ha (h ▸ hu)
        rw [h u this]
      rw [this]
      cases f a <;> cases g a <;> simp <;> omega
    · have ht' : t ∈ as := by
        rcases List.mem_cons.mp ht with h | h
        · exact absurd h.symm hat
        · exact h
      have := ih hnd' ht'
      rw [h a hat]
      omega

end generic

/-! ### `fetch_or W` / `fetch_and R` on words `count + (bit ? W : 0)`, `0 ≤ count < W` -/

theorem nat_or_lt (y : Nat) (h : y < 2^31) : y ||| 2^31 = y + 2^31 := by
  have := Nat.two_pow_add_eq_or_of_lt (i := 31) h 1
  simp only [Nat.mul_one] at this
  rw [Nat.or_comm]; omega

theorem nat_or_ge (y : Nat) (h : y < 2^31) : (2^31 + y) ||| 2^31 = 2^31 + y := by
  have h1 := Nat.two_pow_add_eq_or_of_lt (i := 31) h 1
  simp only [Nat.mul_one] at h1
  rw [h1, Nat.or_comm, ← Nat.or_assoc, Nat.or_self]

theorem toNat_W : W.toNat = 2^31 := by decide
theorem toNat_R : R.toNat = 2^31 - 1 := by decide

theorem bor_lt {x : Int} (h0 : 0 ≤ x) (h : x < W) : bor x W = x + W := by
  obtain ⟨n, rfl⟩ := Int.eq_ofNat_of_zero_le h0
  unfold bor
  rw [toNat_W, Int.toNat_natCast, nat_or_lt n (by unfold W at h; omega)]
  unfold W; simp

theorem bor_ge {x : Int} (h0 : W ≤ x) (h : x < 2 * W) : bor x W = x := by
  obtain ⟨n, rfl⟩ := Int.eq_ofNat_of_zero_le (by unfold W at h0; omega : 0 ≤ x)
  obtain ⟨y, rfl⟩ : ∃ y, n = 2^31 + y := ⟨n - 2^31, by unfold W at h0; omega⟩
  unfold bor
  rw [toNat_W, Int.toNat_natCast, nat_or_ge y (by unfold W at h; omega)]
  rfl

theorem band_lt {x : Int} (h0 : 0 ≤ x) (h : x < W) : band x R = x := by
  obtain ⟨n, rfl⟩ := Int.eq_ofNat_of_zero_le h0
  unfold band
  rw [toNat_R, Int.toNat_natCast, Nat.and_two_pow_sub_one_eq_mod, Nat.mod_eq_of_lt (by unfold W at h; omega)]
  rfl

theorem band_ge {x : Int} (h0 : W ≤ x) (h : x < 2 * W) : band x R = x - W := by
  obtain ⟨n, rfl⟩ := Int.eq_ofNat_of_zero_le (by unfold W at h0; omega : 0 ≤ x)
  unfold band
  rw [toNat_R, Int.toNat_natCast, Nat.and_two_pow_sub_one_eq_mod]
  unfold W at *
  simp only [Int.ofNat_eq_natCast]
  omega

/-! ### the invariant -/
/-- `proto`, as a reducible definition (`proto` itself is a plain `def`, which gets in the way of
`simp`/`rw`); `proto = RW` holds by `rfl`, the property file states everything for `proto` -/
abbrev RW : Proto := { L := L, op := op, cont := cont, entry := entry }
theorem proto_eq : proto = RW := rfl


/-- the thread accounts for one unit of the reader count -/
def contributes : L → Bool
  | .done _ h => decide (h = .read)
  | .usSub | .lsRelease | .tsRelease | .upOr | .upSub | .dgAnd => true
  | _ => false

/-- the thread has set the writer bit and not yet cleared it -/
def bitOwner : L → Bool
  | .done _ h => decide (h = .write)
  | .wLoad | .wWait _ | .tlSpin _ | .tlRollback | .ulAnd | .upSub | .dgAdd | .dgAnd => true
  | _ => false

/-- the thread really holds a read lock (its unit of the count is not an optimistic increment
that is about to be backed out) -/
def hard : L → Bool
  | .done _ h => decide (h = .read)
  | .usSub | .upOr | .upSub | .dgAnd => true
  | _ => false

/-- the bit owner has finished draining the readers: it holds the write lock -/
def holding : L → Bool
  | .done _ h => decide (h = .write)
  | .ulAnd | .dgAdd => true
  | _ => false

/-- a pending wake-all -/
def isNt : L → Bool
  | .lsNotify | .tsNotify | .usNotify => true
  | _ => false

/-- number of threads whose local state satisfies `p` -/
def cnt (p : L → Bool) (s : State RW) : Nat := s.threads.countP (fun u => p (s.loc u))

theorem hard_contributes {l : L} (h : hard l = true) : contributes l = true := by
  cases l <;> simp_all [hard, contributes]
theorem holding_bitOwner {l : L} (h : holding l = true) : bitOwner l = true := by
  cases l <;> simp_all [holding, bitOwner]
theorem hard_not_holding {l : L} (h : hard l = true) : holding l = false := by
  cases l <;> simp_all [hard, holding]

structure Inv0 (s : State RW) : Prop where
  out : ∀ t, t ∉ s.threads → s.loc t = .idle ∧ s.parked t = none
  nd : s.threads.Nodup
  wfw : ∀ t cur, s.loc t = .wWait cur → cur ≠ W
  pk : ∀ u p, s.parked u = some p → p = (0, false) ∧ ∃ cur, s.loc u = .wWait cur
  word : s.mem 0 = (cnt contributes s : Int) + W * (cnt bitOwner s : Int)
  own1 : cnt bitOwner s ≤ 1

structure Inv (s : State RW) : Prop extends Inv0 s where
  ex : ∀ t u, holding (s.loc t) = true → hard (s.loc u) = true → False
  d : s.mem 0 = W → (∀ u, s.parked u = none) ∨ ∃ t, isNt (s.loc t) = true

theorem Inv0.inThreads {s : State RW} (I : Inv0 s) {t : TId} (h : s.loc t ≠ .idle) :
    t ∈ s.threads := by
  apply Classical.byContradiction
  intro hn
  exact h (I.out t hn).1

theorem Inv0.parkedLoc {s : State RW} (I : Inv0 s) {u : TId} (h : s.parked u ≠ none) :
    ∃ cur, s.loc u = .wWait cur := by
  cases hp : s.parked u with
  | none => exact absurd hp h
  | some p => exact (I.pk u p hp).2

theorem Inv0.le_cnt {s : State RW} (p : L → Bool) {t : TId} (ht : t ∈ s.threads) :
    (p (s.loc t)).toNat ≤ cnt p s := by
  cases h : p (s.loc t)
  · simp
  · have : 0 < cnt p s := List.countP_pos_iff.mpr ⟨t, ht, h⟩
    simp; omega

theorem Inv0.cnt_zero {s : State RW} (I : Inv0 s) (p : L → Bool) (hi : p .idle = false)
    (h : cnt p s = 0) (u : TId) : p (s.loc u) = false := by
  by_cases hu : u ∈ s.threads
  · have := List.countP_eq_zero.mp h u hu
    simpa using this
  · rw [(I.out u hu).1]; exact hi

theorem cnt_le_length (p : L → Bool) (s : State RW) : cnt p s ≤ s.threads.length :=
  List.countP_le_length

theorem cnt_move {s s1 : State RW} (p : L → Bool) (hnd : s.threads.Nodup) {t : TId}
    (ht : t ∈ s.threads) (h1 : s1.loc = s.loc) (h3 : s1.threads = s.threads) (l' : L) :
    cnt p (setLoc s1 t l') + (p (s.loc t)).toNat = cnt p s + (p l').toNat := by
  have := countP_update hnd ht (fun u => p (s.loc u)) (fun u => p (if u = t then l' else s.loc u))
    (fun u hu => by simp [hu])
  simpa [cnt, h1, h3] using this

theorem Inv0.unique {s : State RW} (I : Inv0 s) {t u : TId} (ht : bitOwner (s.loc t) = true)
    (hu : bitOwner (s.loc u) = true) : t = u := by
  apply Classical.byContradiction
  intro hne
  have htt : t ∈ s.threads := I.inThreads (fun h => by rw [h] at ht; cases ht)
  have hut : u ∈ s.threads := I.inThreads (fun h => by rw [h] at hu; cases hu)
  have h1 := cnt_move (s1 := s) bitOwner I.nd htt rfl rfl .idle
  have h2 : (bitOwner ((setLoc s t L.idle).loc u)).toNat ≤ cnt bitOwner (setLoc s t L.idle) :=
    Inv0.le_cnt bitOwner (by simpa using hut)
  have h3 := I.own1
  have hne' : ¬ u = t := fun h => hne h.symm
  have hi : bitOwner L.idle = false := rfl
  rw [ht, hi] at h1
  simp only [setLoc_loc, if_neg hne', hu] at h2
  simp at h1 h2
  omega

/-- numeric summary of the word decomposition -/
theorem Inv0.facts {s : State RW} (I : Inv0 s) (hlen : s.threads.length < 2 ^ 30) {t : TId}
    (ht : t ∈ s.threads) : ∃ n m : Nat, cnt contributes s = n ∧ cnt bitOwner s = m ∧
      s.mem 0 = (n : Int) + 2147483648 * (m : Int) ∧ n < 2 ^ 30 ∧ m ≤ 1 ∧
      (contributes (s.loc t)).toNat ≤ n ∧ (bitOwner (s.loc t)).toNat ≤ m := by
  refine ⟨_, _, rfl, rfl, I.word, ?_, I.own1, Inv0.le_cnt _ ht, Inv0.le_cnt _ ht⟩
  exact Nat.lt_of_le_of_lt (cnt_le_length _ _) hlen

theorem Inv0.noPark_of_lt {s : State RW} (I : Inv0 s) (hlen : s.threads.length < 2 ^ 30)
    (h : s.mem 0 < W) (u : TId) : s.parked u = none := by
  apply Classical.byContradiction
  intro hp
  obtain ⟨cur, hc⟩ := I.parkedLoc hp
  have hu : u ∈ s.threads := I.inThreads (by rw [hc]; simp)
  obtain ⟨n, m, _, _, hw, hn, hm, _, ho⟩ := I.facts hlen hu
  simp only [hc, bitOwner, W] at ho h
  simp at ho
  omega

theorem Inv0.noPark_of_owner {s : State RW} (I : Inv0 s) {t : TId}
    (ho : bitOwner (s.loc t) = true) (hp : s.parked t = none) (u : TId) : s.parked u = none := by
  apply Classical.byContradiction
  intro hpu
  obtain ⟨cur, hc⟩ := I.parkedLoc hpu
  have : t = u := I.unique ho (by rw [hc]; rfl)
  subst this
  exact hpu hp

theorem parked_self {s : State RW} {t : TId} (hp : s.parked t = none) :
    ∀ u, s.parked u = if u = t then none else s.parked u := by
  intro u
  split
  · rename_i h; rw [h, hp]
  · rfl

/-- frame lemma: thread `t` moves to `l'` and ends up unparked; the word may change -/
theorem inv_move {s s1 : State RW} {t : TId} (I : Inv s) (hlen : s.threads.length < 2 ^ 30)
    (ht : t ∈ s.threads) {l' : L}
    (h1 : s1.loc = s.loc) (h2 : ∀ u, s1.parked u = if u = t then none else s.parked u)
    (h3 : s1.threads = s.threads)
    (hwf : ∀ cur, l' = .wWait cur → cur ≠ W)
    (hword : s1.mem 0 + ((contributes (s.loc t)).toNat : Int)
          + W * ((bitOwner (s.loc t)).toNat : Int)
        = s.mem 0 + ((contributes l').toNat : Int) + W * ((bitOwner l').toNat : Int))
    (hown : (bitOwner l').toNat ≤ (bitOwner (s.loc t)).toNat ∨ s.mem 0 < W)
    (hex : ((holding l' = true → holding (s.loc t) = true) ∧
          (hard l' = true → hard (s.loc t) = true)) ∨
        (holding l' = true ∧ s1.mem 0 = W) ∨
        (hard l' = true ∧ (s1.mem 0 < W ∨ bitOwner (s.loc t) = true)))
    (hd : s1.mem 0 = W → (∀ u, u ≠ t → s.parked u = none) ∨ isNt l' = true ∨
        (isNt (s.loc t) = false ∧ s1.mem 0 = s.mem 0)) :
    Inv (setLoc s1 t l') := by
  have hcC := cnt_move contributes I.nd ht h1 h3 l'
  have hcO := cnt_move bitOwner I.nd ht h1 h3 l'
  obtain ⟨n, m, hn, hm, hw, hn30, hm1, hct, hot⟩ := I.toInv0.facts hlen ht
  have hb1 := Bool.toNat_le (bitOwner l')
  have ht' : t ∈ (setLoc s1 t l').threads := by simpa [h3] using ht
  have hlt' : (setLoc s1 t l').loc t = l' := by simp
  have I0 : Inv0 (setLoc s1 t l') := by
    refine ⟨fun u hu => ?_, ?_, fun u cur hu => ?_, fun u p hu => ?_, ?_, ?_⟩
    · simp only [setLoc_threads, h3] at hu
      have hut : u ≠ t := fun h => hu (h ▸ ht)
      simp only [setLoc_loc, if_neg hut, h1, setLoc_parked, h2]
      exact I.out u hu
    · simpa [h3] using I.nd
    · simp only [setLoc_loc, h1] at hu
      split at hu
      · exact hwf cur hu
      · exact I.wfw u cur hu
    · simp only [setLoc_parked, h2] at hu
      split at hu
      · cases hu
      · rename_i hut
        simp only [setLoc_loc, if_neg hut, h1]
        exact I.pk u p hu
    · simp only [setLoc_mem]
      simp only [W] at hword ⊢
      omega
    · simp only [W] at hown
      omega
  have hw' := I0.word
  have ho' := I0.own1
  simp only [setLoc_mem, W] at hw'
  refine ⟨I0, fun u v hu hv => ?_, fun hz => ?_⟩
  · rcases hex with ⟨hk1, hk2⟩ | ⟨hh, hmW⟩ | ⟨hh, hlt | hbo⟩
    · have hu' : holding (s.loc u) = true := by
        simp only [setLoc_loc, h1] at hu
        split at hu
        · rename_i h; rw [h]; exact hk1 hu
        · exact hu
      have hv' : hard (s.loc v) = true := by
        simp only [setLoc_loc, h1] at hv
        split at hv
        · rename_i h; rw [h]; exact hk2 hv
        · exact hv
      exact I.ex u v hu' hv'
    · have h5 := Inv0.le_cnt bitOwner ht'
      rw [hlt', holding_bitOwner hh] at h5
      simp only [W] at hmW
      simp at h5
      have hz : cnt contributes (setLoc s1 t l') = 0 := by omega
      have := I0.cnt_zero contributes rfl hz v
      rw [hard_contributes hv] at this
      cases this
    · simp only [W] at hlt
      have hz : cnt bitOwner (setLoc s1 t l') = 0 := by omega
      have := I0.cnt_zero bitOwner rfl hz u
      rw [holding_bitOwner hu] at this
      cases this
    · simp only [setLoc_loc, h1] at hu
      split at hu
      · rw [hard_not_holding hh] at hu; cases hu
      · rename_i hut
        exact hut (I.unique (holding_bitOwner hu) hbo)
  · simp only [setLoc_mem] at hz
    rcases hd hz with hnp | hnt | ⟨hnt, hme⟩
    · refine Or.inl fun u => ?_
      simp only [setLoc_parked, h2]
      split
      · rfl
      · exact hnp u ‹_›
    · exact Or.inr ⟨t, by simpa using hnt⟩
    · rcases I.d (hme ▸ hz) with hall | ⟨u, hu⟩
      · refine Or.inl fun u => ?_
        simp only [setLoc_parked, h2]
        split
        · rfl
        · exact hall u
      · refine Or.inr ⟨u, ?_⟩
        have hut : u ≠ t := fun h => by rw [h, hnt] at hu; cases hu
        simpa [hut, h1] using hu

/-! ### what `cont` does, per kind of operation -/

theorem op_cases (l : L) : op l = none ∨ op l = some (.fwake 0 intMax) ∨
    (∃ cur, op l = some (.fwait 0 cur false)) ∨ op l = some (.load 0) ∨
    op l = some (.for_ 0 W) ∨ op l = some (.fand 0 R) ∨ op l = some (.fadd 0 1) ∨
    op l = some (.fsub 0 1) := by
  cases l <;> simp [op]

theorem cont_load {l : L} (ho : op l = some (.load 0)) (r : Int) :
    contributes l = false ∧ contributes (cont l r) = false ∧ bitOwner (cont l r) = bitOwner l ∧
    (∀ cur, cont l r = .wWait cur → cur ≠ W) ∧ hard (cont l r) = false ∧
    (holding (cont l r) = true → r = W) ∧ isNt l = false ∧ isNt (cont l r) = false := by
  cases l <;> simp [op] at ho <;>
    simp only [cont] <;> (repeat' split) <;> simp_all [contributes, bitOwner, hard, holding, isNt]

theorem cont_fwait {l : L} {cur : Int} {b : Bool} (ho : op l = some (.fwait 0 cur b)) :
    l = .wWait cur ∧ b = false := by
  cases l <;> simp [op] at ho
  simp [ho]

theorem cont_for {l : L} (ho : op l = some (.for_ 0 W)) (r : Int) :
    bitOwner l = false ∧ isNt l = false ∧ contributes (cont l r) = contributes l ∧
    (∀ cur, cont l r ≠ .wWait cur) ∧ isNt (cont l r) = false ∧
    (hard (cont l r) = true → hard l = true) ∧
    (W ≤ r → bitOwner (cont l r) = false ∧ holding (cont l r) = false) ∧
    (r < W → bitOwner (cont l r) = true ∧ (holding (cont l r) = true → r = 0)) := by
  have hW0 : ¬ W ≤ 0 := by decide
  have hW1 : (0 : Int) < W := by decide
  rcases (by omega : W ≤ r ∨ r = 0 ∨ (¬ W ≤ r ∧ r ≠ 0)) with hb | h0 | ⟨hb, h0⟩
  · have h0 : r ≠ 0 := by omega
    have hb' : ¬ r < W := by omega
    cases l <;> simp [op] at ho <;>
      simp [cont, hasBit, hb, hb', h0, contributes, bitOwner, hard, holding, isNt]
  · subst h0
    cases l <;> simp [op] at ho <;>
      simp [cont, hasBit, hW0, hW1, contributes, bitOwner, hard, holding, isNt]
  · have hb' : r < W := by omega
    cases l <;> simp [op] at ho <;>
      simp [cont, hasBit, hb, hb', h0, contributes, bitOwner, hard, holding, isNt]

theorem cont_fand {l : L} (ho : op l = some (.fand 0 R)) (r : Int) :
    bitOwner l = true ∧ isNt l = false ∧ contributes (cont l r) = contributes l ∧
    bitOwner (cont l r) = false ∧ (∀ cur, cont l r ≠ .wWait cur) ∧ isNt (cont l r) = false ∧
    holding (cont l r) = false ∧ (hard (cont l r) = true → hard l = true) := by
  cases l <;> simp [op] at ho <;>
    simp_all [cont, contributes, bitOwner, hard, holding, isNt]

theorem cont_fadd {l : L} (ho : op l = some (.fadd 0 1)) (r : Int) :
    contributes l = false ∧ isNt l = false ∧ contributes (cont l r) = true ∧
    bitOwner (cont l r) = bitOwner l ∧ (∀ cur, cont l r ≠ .wWait cur) ∧
    isNt (cont l r) = false ∧ holding (cont l r) = false ∧
    (hard (cont l r) = true → r < W ∨ bitOwner l = true) := by
  by_cases hb : W ≤ r
  · cases l <;> simp [op] at ho <;>
      simp [cont, hasBit, hb, contributes, bitOwner, hard, holding, isNt]
  · have hb' : r < W := by omega
    cases l <;> simp [op] at ho <;>
      simp [cont, hasBit, hb, hb', contributes, bitOwner, hard, holding, isNt]

theorem cont_fsub {l : L} (ho : op l = some (.fsub 0 1)) (r : Int) :
    contributes l = true ∧ isNt l = false ∧ contributes (cont l r) = false ∧
    bitOwner (cont l r) = bitOwner l ∧ (∀ cur, cont l r ≠ .wWait cur) ∧
    holding (cont l r) = false ∧ hard (cont l r) = false ∧
    (r = W + 1 → isNt (cont l r) = true ∨ bitOwner l = true) ∧
    (isNt (cont l r) = true → r = W + 1) := by
  cases l <;> simp [op] at ho <;>
    simp only [cont] <;> (repeat' split) <;>
    simp_all [contributes, bitOwner, hard, holding, isNt]

theorem op_fwake {l : L} {f : Fld} {n : Nat} (h : op l = some (.fwake f n)) :
    isNt l = true ∧ f = 0 ∧ n = intMax ∧ ∀ r, (cont l r = .lsSpin ∨ cont l r = .done 0 .none) := by
  cases l <;> simp [op] at h <;> simp [h, isNt, cont]

theorem isNt_op {l : L} (h : isNt l = true) : op l = some (.fwake 0 intMax) := by
  cases l <;> simp_all [isNt, op]

theorem entry_facts {l0 l : L} (h : entry l0 l = true) :
    contributes l = contributes l0 ∧ bitOwner l = bitOwner l0 ∧ hard l = hard l0 ∧
    holding l = holding l0 ∧ isNt l = false ∧ (∀ cur, l ≠ .wWait cur) := by
  unfold entry at h
  split at h <;> simp_all [contributes, bitOwner, hard, holding, isNt]

/-! ### preservation -/

theorem op_inThreads {s : State RW} (I : Inv0 s) {t : TId} (h : op (s.loc t) ≠ none) :
    t ∈ s.threads := I.inThreads (fun hl => by rw [hl] at h; exact h rfl)

theorem inv_load {s : State RW} {t : TId} (I : Inv s) (hlen : s.threads.length < 2 ^ 30)
    (hp : s.parked t = none) (ho : op (s.loc t) = some (.load 0)) :
    Inv (setLoc s t (cont (s.loc t) (s.mem 0))) := by
  have ht := op_inThreads I.toInv0 (t := t) (by rw [ho]; simp)
  obtain ⟨c1, c2, c3, c4, c5, c6, c7, c8⟩ := cont_load ho (s.mem 0)
  refine inv_move I hlen ht rfl (parked_self hp) rfl c4 ?_ ?_ ?_ ?_
  · rw [c1, c2, c3]
  · rw [c3]; exact Or.inl (Nat.le_refl _)
  · by_cases hh : holding (cont (s.loc t) (s.mem 0)) = true
    · exact Or.inr (Or.inl ⟨hh, c6 hh⟩)
    · exact Or.inl ⟨fun h => absurd h hh, fun h => (by rw [c5] at h; cases h)⟩
  · exact fun _ => Or.inr (Or.inr ⟨c7, rfl⟩)

theorem inv_again {s : State RW} {t : TId} (I : Inv s) (hlen : s.threads.length < 2 ^ 30)
    (hp : s.parked t = none) {cur : Int} {b : Bool} (ho : op (s.loc t) = some (.fwait 0 cur b)) :
    Inv (setLoc s t (cont (s.loc t) rAgain)) := by
  have ht := op_inThreads I.toInv0 (t := t) (by rw [ho]; simp)
  obtain ⟨hl, _⟩ := cont_fwait ho
  rw [hl]
  refine inv_move I hlen ht rfl (parked_self hp) rfl ?_ ?_ ?_ ?_ ?_ <;>
    simp [hl, cont, contributes, bitOwner, hard, holding, isNt]

theorem inv_park {s : State RW} {t : TId} (I : Inv s)
    {cur : Int} {b : Bool} (ho : op (s.loc t) = some (.fwait 0 cur b)) (hm : s.mem 0 = cur) :
    Inv (setParked s t (some (0, b))) := by
  obtain ⟨hl, rfl⟩ := cont_fwait ho
  refine ⟨⟨fun u hu => ?_, I.nd, I.wfw, fun u p hu => ?_, I.word, I.own1⟩, I.ex, fun hz => ?_⟩
  · have ht := op_inThreads I.toInv0 (t := t) (by rw [ho]; simp)
    have hut : u ≠ t := fun h => hu (h ▸ ht)
    simpa [hut] using I.out u hu
  · simp only [setParked_parked] at hu
    split at hu
    · rename_i hut
      injection hu with hu
      subst hu hut
      exact ⟨rfl, cur, hl⟩
    · exact I.pk u p hu
  · exfalso
    simp only [setParked_mem] at hz
    exact I.wfw t cur hl (hm.symm.trans hz)

theorem inv_for {s : State RW} {t : TId} (I : Inv s) (hlen : s.threads.length < 2 ^ 30)
    (hp : s.parked t = none) (ho : op (s.loc t) = some (.for_ 0 W)) :
    Inv (setLoc (setMem s 0 (bor (s.mem 0) W)) t (cont (s.loc t) (s.mem 0))) := by
  have ht := op_inThreads I.toInv0 (t := t) (by rw [ho]; simp)
  obtain ⟨n, m, hn, hm, hw, hn30, hm1, hct, hot⟩ := I.toInv0.facts hlen ht
  obtain ⟨c1, c2, c3, c4, c5, c6, c7, c8⟩ := cont_for ho (s.mem 0)
  have hW : W = 2147483648 := rfl
  by_cases hb : W ≤ s.mem 0
  · obtain ⟨c7a, c7b⟩ := c7 hb
    rw [bor_ge hb (by omega)]
    refine inv_move I hlen ht rfl (parked_self hp) rfl (fun cur h => absurd h (c4 cur))
      ?_ ?_ ?_ ?_
    · simp [c1, c3, c7a] <;> omega
    · rw [c7a]; exact Or.inl (Nat.zero_le _)
    · exact Or.inl ⟨fun h => (by rw [c7b] at h; cases h), c6⟩
    · exact fun _ => Or.inr (Or.inr ⟨c2, by simp⟩)
  · have hb : s.mem 0 < W := by omega
    obtain ⟨c8a, c8b⟩ := c8 hb
    rw [bor_lt (by omega) hb]
    refine inv_move I hlen ht rfl (parked_self hp) rfl (fun cur h => absurd h (c4 cur))
      ?_ ?_ ?_ ?_
    · simp [c1, c3, c8a] <;> omega
    · exact Or.inr hb
    · by_cases hh : holding (cont (s.loc t) (s.mem 0)) = true
      · refine Or.inr (Or.inl ⟨hh, ?_⟩)
        simp [c8b hh]
      · exact Or.inl ⟨fun h => absurd h hh, c6⟩
    · exact fun _ => Or.inl fun u _ => I.toInv0.noPark_of_lt hlen hb u

theorem inv_fand {s : State RW} {t : TId} (I : Inv s) (hlen : s.threads.length < 2 ^ 30)
    (hp : s.parked t = none) (ho : op (s.loc t) = some (.fand 0 R)) :
    Inv (setLoc (setMem s 0 (band (s.mem 0) R)) t (cont (s.loc t) (s.mem 0))) := by
  have ht := op_inThreads I.toInv0 (t := t) (by rw [ho]; simp)
  obtain ⟨n, m, hn, hm, hw, hn30, hm1, hct, hot⟩ := I.toInv0.facts hlen ht
  obtain ⟨c1, c2, c3, c4, c5, c6, c7, c8⟩ := cont_fand ho (s.mem 0)
  have hW : W = 2147483648 := rfl
  rw [c1] at hot
  simp at hot
  rw [band_ge (by omega) (by omega)]
  refine inv_move I hlen ht rfl (parked_self hp) rfl (fun cur h => absurd h (c5 cur))
    ?_ ?_ ?_ ?_
  · simp [c1, c3, c4] <;> omega
  · rw [c4]; exact Or.inl (Nat.zero_le _)
  · exact Or.inl ⟨fun h => (by rw [c7] at h; cases h), c8⟩
  · intro hz
    simp at hz
    omega

theorem inv_fadd {s : State RW} {t : TId} (I : Inv s) (hlen : s.threads.length < 2 ^ 30)
    (hp : s.parked t = none) (ho : op (s.loc t) = some (.fadd 0 1)) :
    Inv (setLoc (setMem s 0 (s.mem 0 + 1)) t (cont (s.loc t) (s.mem 0))) := by
  have ht := op_inThreads I.toInv0 (t := t) (by rw [ho]; simp)
  obtain ⟨n, m, hn, hm, hw, hn30, hm1, hct, hot⟩ := I.toInv0.facts hlen ht
  obtain ⟨c1, c2, c3, c4, c5, c6, c7, c8⟩ := cont_fadd ho (s.mem 0)
  have hW : W = 2147483648 := rfl
  refine inv_move I hlen ht rfl (parked_self hp) rfl (fun cur h => absurd h (c5 cur))
    ?_ ?_ ?_ ?_
  · simp [c1, c3, c4] <;> omega
  · rw [c4]; exact Or.inl (Nat.le_refl _)
  · by_cases hh : hard (cont (s.loc t) (s.mem 0)) = true
    · refine Or.inr (Or.inr ⟨hh, ?_⟩)
      rcases c8 hh with h | h
      · left; simp; omega
      · exact Or.inr h
    · exact Or.inl ⟨fun h => (by rw [c7] at h; cases h), fun h => absurd h hh⟩
  · intro hz
    simp at hz
    omega

theorem inv_fsub {s : State RW} {t : TId} (I : Inv s) (hlen : s.threads.length < 2 ^ 30)
    (hp : s.parked t = none) (ho : op (s.loc t) = some (.fsub 0 1)) :
    Inv (setLoc (setMem s 0 (s.mem 0 - 1)) t (cont (s.loc t) (s.mem 0))) := by
  have ht := op_inThreads I.toInv0 (t := t) (by rw [ho]; simp)
  obtain ⟨c1, c2, c3, c4, c5, c6, c7, c8, _⟩ := cont_fsub ho (s.mem 0)
  refine inv_move I hlen ht rfl (parked_self hp) rfl (fun cur h => absurd h (c5 cur))
    ?_ ?_ ?_ ?_
  · simp [c1, c3, c4] <;> omega
  · rw [c4]; exact Or.inl (Nat.le_refl _)
  · exact Or.inl ⟨fun h => (by rw [c6] at h; cases h), fun h => (by rw [c7] at h; cases h)⟩
  · intro hz
    simp at hz
    rcases c8 (by omega) with h | h
    · exact Or.inr (Or.inl h)
    · exact Or.inl fun u _ => I.toInv0.noPark_of_owner h hp u

theorem inv_step {s s' : State RW} {t : TId} (I : Inv s) (hlen : s.threads.length < 2 ^ 30)
    (h : exec s (.step t) = some s') : Inv s' := by
  obtain ⟨hp, o, ho, h⟩ := exec_step_inv h
  have ho : op (s.loc t) = some o := ho
  rcases op_cases (s.loc t) with h1 | h1 | ⟨cur, h1⟩ | h1 | h1 | h1 | h1 | h1 <;>
    rw [h1] at ho
  · cases ho
  · cases ho
    simp [memEffect] at h
  · cases ho
    rcases h with ⟨f, e, b, heq, h⟩ | ⟨r, hm, _⟩ | ⟨r, f, v, hm, _⟩
    · cases heq
      rcases h with ⟨hm, rfl⟩ | ⟨_, rfl⟩
      · exact inv_park I h1 hm
      · exact inv_again I hlen hp h1
    · simp [memEffect] at hm
    · simp [memEffect] at hm
  · cases ho
    simp [memEffect] at h
    subst h
    exact inv_load I hlen hp h1
  · cases ho
    simp [memEffect] at h
    obtain ⟨r, f, v, ⟨rfl, rfl, rfl⟩, rfl⟩ := h
    exact inv_for I hlen hp h1
  · cases ho
    simp [memEffect] at h
    obtain ⟨r, f, v, ⟨rfl, rfl, rfl⟩, rfl⟩ := h
    exact inv_fand I hlen hp h1
  · cases ho
    simp [memEffect] at h
    obtain ⟨r, f, v, ⟨rfl, rfl, rfl⟩, rfl⟩ := h
    exact inv_fadd I hlen hp h1
  · cases ho
    simp [memEffect] at h
    obtain ⟨r, f, v, ⟨rfl, rfl, rfl⟩, rfl⟩ := h
    exact inv_fsub I hlen hp h1

/-- the two local states agree on every classification the invariant uses -/
def Same (a b : L) : Prop :=
  contributes a = contributes b ∧ bitOwner a = bitOwner b ∧ hard a = hard b ∧
    holding a = holding b

theorem Same.rfl' (a : L) : Same a a := ⟨rfl, rfl, rfl, rfl⟩

theorem same_of_isNt {a b : L} (ha : isNt a = true) (hb : b = .lsSpin ∨ b = .done 0 .none) :
    Same b a := by
  rcases hb with rfl | rfl <;> cases a <;> simp_all [isNt, Same, contributes, bitOwner, hard, holding]

/-- frame lemma for actions that do not touch the word and only move threads between local
states of the same class (`wake`, `timeout`, `spurious`, `call`) -/
theorem inv_relabel {s s' : State RW} (I : Inv s)
    (hth : s'.threads = s.threads ∨ ∃ t, t ∉ s.threads ∧ s'.threads = t :: s.threads)
    (hmem : s'.mem 0 = s.mem 0)
    (hsame : ∀ u, Same (s'.loc u) (s.loc u))
    (hout : ∀ u, u ∉ s'.threads → s'.loc u = s.loc u)
    (hpk : ∀ u, s'.parked u = none ∨ (s'.parked u = s.parked u ∧ s'.loc u = s.loc u))
    (hwf : ∀ u cur, s'.loc u = .wWait cur → s.loc u = .wWait cur)
    (hd : s.mem 0 = W → (∀ u, s.parked u = none) ∨ (∀ u, s'.parked u = none) ∨
       ∃ t, isNt (s.loc t) = true ∧ s'.loc t = s.loc t) : Inv s' := by
  have hsub : ∀ u, u ∉ s'.threads → u ∉ s.threads := by
    intro u hu
    rcases hth with h | ⟨t, _, h⟩ <;> rw [h] at hu
    · exact hu
    · exact fun h => hu (List.mem_cons_of_mem _ h)
  have hcnt : ∀ p : L → Bool, (∀ u, p (s'.loc u) = p (s.loc u)) → p .idle = false →
      cnt p s' = cnt p s := by
    intro p hp hi
    have hf : (fun u => p (s'.loc u)) = (fun u => p (s.loc u)) := funext hp
    unfold cnt
    rw [hf]
    rcases hth with h | ⟨t, ht, h⟩ <;> rw [h]
    rw [List.countP_cons, (I.out t ht).1, hi]
    simp
  have hcC := hcnt contributes (fun u => (hsame u).1) rfl
  have hcO := hcnt bitOwner (fun u => (hsame u).2.1) rfl
  refine ⟨⟨fun u hu => ?_, ?_, fun u cur hu => I.wfw u cur (hwf u cur hu), fun u p hu => ?_, ?_, ?_⟩,
    fun u v hu hv => ?_, fun hz => ?_⟩
  · have h1 := I.out u (hsub u hu)
    refine ⟨(hout u hu).trans h1.1, ?_⟩
    rcases hpk u with h | ⟨h, _⟩
    · exact h
    · exact h.trans h1.2
  · rcases hth with h | ⟨t, ht, h⟩ <;> rw [h]
    · exact I.nd
    · exact List.nodup_cons.mpr ⟨ht, I.nd⟩
  · rcases hpk u with h | ⟨h, hl⟩
    · rw [h] at hu; cases hu
    · rw [h] at hu; rw [hl]; exact I.pk u p hu
  · rw [hmem, hcC, hcO]; exact I.word
  · rw [hcO]; exact I.own1
  · rw [(hsame u).2.2.2] at hu
    rw [(hsame v).2.2.1] at hv
    exact I.ex u v hu hv
  · rw [hmem] at hz
    rcases hd hz with h | h | ⟨t, h, hl⟩
    · refine Or.inl fun u => ?_
      rcases hpk u with h' | ⟨h', _⟩
      · exact h'
      · exact h'.trans (h u)
    · exact Or.inl h
    · exact Or.inr ⟨t, by rw [hl]; exact h⟩

theorem inv_wake {s s' : State RW} {t : TId} {ws : List TId} (I : Inv s)
    (hlen : s.threads.length < 2 ^ 30) (h : exec s (.wake t ws) = some s') : Inv s' := by
  obtain ⟨hp, f, n, ho, hnd, hsub, hall, htw, rfl⟩ := exec_wake_inv h
  have ho : op (s.loc t) = some (.fwake f n) := ho
  obtain ⟨hnt, rfl, rfl, hc⟩ := op_fwake ho
  have hws : ∀ u ∈ ws, u ∈ s.threads ∧ ∃ cur, s.loc u = .wWait cur := by
    intro u hu
    obtain ⟨h1, b, hb⟩ := (mem_parkedOn s 0 u).mp (hsub u hu)
    exact ⟨h1, I.parkedLoc (by rw [hb]; simp)⟩
  have hloc : ∀ u, (setLoc (unparkAll s ws) t (RW.cont (s.loc t) ws.length)).loc u =
      if u = t then cont (s.loc t) ws.length else if u ∈ ws then .wLoad else s.loc u := by
    intro u
    simp only [setLoc_loc, unparkAll_loc s ws hnd]
    split
    · rfl
    · split
      · rename_i hu
        obtain ⟨_, cur, hcur⟩ := hws u hu
        rw [hcur]; rfl
      · rfl
  have hpar : ∀ u, (setLoc (unparkAll s ws) t (RW.cont (s.loc t) ws.length)).parked u =
      if u ∈ ws then none else s.parked u := by
    intro u
    simp only [setLoc_parked, unparkAll_parked]
  refine inv_relabel I (Or.inl (by simp)) (by simp) (fun u => ?_) (fun u hu => ?_) (fun u => ?_)
    (fun u cur hu => ?_) (fun hz => Or.inr (Or.inl fun u => ?_))
  · rw [hloc]
    split
    · rename_i h; subst h; exact same_of_isNt hnt (hc _)
    · split
      · rename_i hu
        obtain ⟨_, cur, hcur⟩ := hws u hu
        rw [hcur]; exact ⟨rfl, rfl, rfl, rfl⟩
      · exact Same.rfl' _
  · simp only [setLoc_threads, unparkAll_threads] at hu
    have h1 : u ≠ t := fun h => hu (h ▸ op_inThreads I.toInv0 (t := t) (by rw [ho]; simp))
    have h2 : u ∉ ws := fun h => hu (hws u h).1
    rw [hloc, if_neg h1, if_neg h2]
  · rw [hpar, hloc]
    by_cases h2 : u ∈ ws
    · exact Or.inl (if_pos h2)
    · by_cases h1 : u = t
      · subst h1; left; rw [if_neg h2]; exact hp
      · right; rw [if_neg h2, if_neg h1, if_neg h2]; exact ⟨rfl, rfl⟩
  · rw [hloc] at hu
    split at hu
    · rcases hc ws.length with h | h <;> rw [h] at hu <;> cases hu
    · split at hu
      · cases hu
      · exact hu
  · rw [hpar]
    split
    · rfl
    · rename_i h2
      apply Classical.byContradiction
      intro hpu
      obtain ⟨cur, hcur⟩ := I.parkedLoc hpu
      cases hq : s.parked u with
      | none => exact hpu hq
      | some q =>
        obtain ⟨rfl, _⟩ := I.pk u q hq
        have hut : u ∈ s.threads := I.inThreads (by rw [hcur]; simp)
        have hlen' : ws.length < intMax := by
          have := List.Nodup.length_le_of_subset hnd (fun u hu => (hws u hu).1)
          have : (2:Nat) ^ 30 < intMax := by decide
          omega
        exact h2 (hall hlen' u ((mem_parkedOn s 0 u).mpr ⟨hut, false, hq⟩))

theorem inv_unpark {s s' : State RW} {t : TId} (I : Inv s)
    (h : exec s (.timeout t) = some s' ∨ exec s (.spurious t) = some s') : Inv s' := by
  obtain ⟨p, r, hp, rfl⟩ := exec_unpark_inv h
  obtain ⟨cur, hcur⟩ := I.parkedLoc (u := t) (by rw [hp]; simp)
  have hl : RW.cont (s.loc t) r = L.wLoad := by rw [hcur]; rfl
  rw [hl]
  refine inv_relabel I (Or.inl rfl) rfl (fun u => ?_) (fun u _ => ?_) (fun u => ?_)
    (fun u c hu => ?_) (fun hz => ?_)
  · simp only [setLoc_loc, setParked_loc]
    split
    · rename_i h; subst h; rw [hcur]; exact ⟨rfl, rfl, rfl, rfl⟩
    · exact Same.rfl' _
  · simp only [setLoc_loc, setParked_loc]
    split
    · rename_i h; subst h
      exfalso
      rename_i hu
      exact hu (I.inThreads (by rw [hcur]; simp))
    · rfl
  · simp only [setLoc_loc, setParked_loc, setLoc_parked, setParked_parked]
    by_cases h1 : u = t
    · left; rw [if_pos h1]
    · right; rw [if_neg h1, if_neg h1]; exact ⟨rfl, rfl⟩
  · simp only [setLoc_loc, setParked_loc] at hu
    split at hu
    · cases hu
    · exact hu
  · rcases I.d hz with h | ⟨u, hu⟩
    · exact Or.inl h
    · refine Or.inr (Or.inr ⟨u, hu, ?_⟩)
      have h1 : u ≠ t := fun h => by rw [h, hcur] at hu; cases hu
      simp [h1]

theorem inv_call {s s' : State RW} {t : TId} {l : L} (I : Inv s)
    (h : exec s (.call t l) = some s') : Inv s' := by
  obtain ⟨hp, ho, he, hm, hpk, hloc, hth⟩ := exec_call_inv h
  have ho : op (s.loc t) = none := ho
  obtain ⟨e1, e2, e3, e4, e5, e6⟩ := entry_facts (l0 := s.loc t) (l := l) he
  refine inv_relabel I ?_ (by rw [hm]) (fun u => ?_) (fun u hu => ?_) (fun u => ?_)
    (fun u c hu => ?_) (fun hz => ?_)
  · rw [hth]
    by_cases ht : t ∈ s.threads
    · left; rw [if_pos ht]
    · right; exact ⟨t, ht, by rw [if_neg ht]⟩
  · rw [hloc]
    split
    · rename_i h; subst h; exact ⟨e1, e2, e3, e4⟩
    · exact Same.rfl' _
  · rw [hloc]
    split
    · rename_i h; subst h
      exfalso
      rw [hth] at hu
      split at hu
      · exact hu ‹_›
      · exact hu (List.mem_cons_self)
    · rfl
  · rw [hpk, hloc]
    by_cases h1 : u = t
    · left; rw [h1]; exact hp
    · right; rw [if_neg h1]; exact ⟨rfl, rfl⟩
  · rw [hloc] at hu
    split at hu
    · exact absurd hu (e6 c)
    · exact hu
  · rcases I.d hz with h | ⟨u, hu⟩
    · exact Or.inl h
    · refine Or.inr (Or.inr ⟨u, hu, ?_⟩)
      have h1 : u ≠ t := fun h => by
        rw [h] at hu
        rw [isNt_op hu] at ho
        cases ho
      rw [hloc, if_neg h1]

theorem inv_exec {s s' : State RW} (a : Act RW) (I : Inv s) (hlen : s.threads.length < 2 ^ 30)
    (h : exec s a = some s') : Inv s' := by
  cases a with
  | step t => exact inv_step I hlen h
  | wake t ws => exact inv_wake I hlen h
  | timeout t => exact inv_unpark I (Or.inl h)
  | spurious t => exact inv_unpark I (Or.inr h)
  | call t l => exact inv_call I h

theorem inv_init : Inv (initState RW L.idle (fun _ => 0)) := by
  refine ⟨⟨fun _ _ => ⟨rfl, rfl⟩, List.nodup_nil, fun _ _ h => (by cases h),
    fun _ _ h => (by cases h), ?_, ?_⟩, fun _ _ h => (by cases h), fun _ => Or.inl fun _ => rfl⟩
  · simp [cnt, initState]
  · simp [cnt, initState]

/-- the invariant holds in every reachable state with fewer than `2^30` threads -/
theorem inv_reachable (s : State RW) (h : Reachable (initState RW L.idle (fun _ => 0)) s)
    (hn : s.threads.length < 2 ^ 30) : Inv s := by
  refine invariant (fun s => s.threads.length < 2 ^ 30 → Inv s) (fun _ => inv_init)
    (fun s a s' ih he hn' => ?_) s h hn
  have hle := exec_threads_length he
  have hlen : s.threads.length < 2 ^ 30 := Nat.lt_of_le_of_lt hle hn'
  exact inv_exec a (ih hlen) hlen he

/-! ### consequences of the invariant -/

/-- an optimistic reader increment that is about to be backed out -/
def optimistic : L → Bool
  | .lsRelease | .tsRelease => true
  | _ => false

theorem contributes_eq (l : L) : contributes l = (hard l || optimistic l) := by
  cases l <;> simp [contributes, hard, optimistic]

theorem holdOf_write {l : L} (h : holdOf l = .write) : holding l = true ∧ bitOwner l = true := by
  cases l <;> simp_all [holdOf, holding, bitOwner]

theorem holdOf_read {l : L} (h : holdOf l = .read) : hard l = true ∧ contributes l = true := by
  cases l <;> simp_all [holdOf, hard, contributes]

theorem holdOf_ne_none {l : L} (h : holdOf l ≠ .none) : holdOf l = .read ∨ holdOf l = .write := by
  cases hh : holdOf l <;> simp_all

theorem Inv.exclusion {s : State RW} (I : Inv s) {t u : TId} (ht : holdOf (s.loc t) = .write)
    (hu : holdOf (s.loc u) ≠ .none) : t = u := by
  rcases holdOf_ne_none hu with h | h
  · exact (I.ex t u (holdOf_write ht).1 (holdOf_read h).1).elim
  · exact I.unique (holdOf_write ht).2 (holdOf_write h).2

/-- the word is the number of reader units plus the writer bit if some thread owns it -/
theorem Inv.word_cases {s : State RW} (I : Inv s) (hlen : s.threads.length < 2 ^ 30) :
    ((∃ t, bitOwner (s.loc t) = true) → s.mem 0 = W + (cnt contributes s : Int)) ∧
    ((∀ t, bitOwner (s.loc t) = false) → s.mem 0 = (cnt contributes s : Int)) ∧
    (cnt contributes s : Int) < W := by
  have hw := I.word
  have h1 := I.own1
  have hc : cnt contributes s < 2 ^ 30 := Nat.lt_of_le_of_lt (cnt_le_length _ _) hlen
  simp only [W] at hw ⊢
  refine ⟨fun ⟨t, ht⟩ => ?_, fun hall => ?_, by omega⟩
  · have htt : t ∈ s.threads := I.inThreads (fun h => by rw [h] at ht; cases ht)
    have := Inv0.le_cnt bitOwner htt
    rw [ht] at this
    simp at this
    omega
  · have : cnt bitOwner s = 0 := List.countP_eq_zero.mpr (fun u _ => by simp [hall u])
    rw [this] at hw
    omega

theorem Inv.write_sound {s : State RW} (I : Inv s) (hlen : s.threads.length < 2 ^ 30) {t : TId}
    (ht : holdOf (s.loc t) = .write) :
    s.mem 0 = W + (cnt optimistic s : Int) ∧ ∀ u, hard (s.loc u) = false := by
  obtain ⟨hh, hb⟩ := holdOf_write ht
  have hnh : ∀ u, hard (s.loc u) = false := fun u => by
    cases h : hard (s.loc u)
    · rfl
    · exact (I.ex t u hh h).elim
  refine ⟨?_, hnh⟩
  have : cnt contributes s = cnt optimistic s := by
    unfold cnt
    congr 1
    funext u
    rw [contributes_eq, hnh u]
    simp
  rw [← this]
  exact (I.word_cases hlen).1 ⟨t, hb⟩

theorem Inv.read_sound {s : State RW} (I : Inv s) (hlen : s.threads.length < 2 ^ 30) {t : TId}
    (ht : holdOf (s.loc t) = .read) :
    1 ≤ s.mem 0 % W ∧ ∀ u, holding (s.loc u) = false := by
  obtain ⟨hh, hc⟩ := holdOf_read ht
  have htt : t ∈ s.threads := I.inThreads (fun h => by rw [h] at hc; cases hc)
  obtain ⟨n, m, hn, hm, hw, hn30, hm1, hct, hot⟩ := I.toInv0.facts hlen htt
  rw [hc] at hct
  simp at hct
  refine ⟨?_, fun u => ?_⟩
  · simp only [W]
    omega
  · cases h : holding (s.loc u)
    · rfl
    · exact (I.ex u t h hh).elim

theorem Inv.rollback {s s' : State RW} (I : Inv s) (hlen : s.threads.length < 2 ^ 30) {t : TId}
    (hl : s.loc t = .tlRollback) (he : exec s (.step t) = some s') :
    s'.mem 0 = s.mem 0 - W ∧ W ≤ s.mem 0 ∧ s'.loc t = .done 0 .none := by
  have htt : t ∈ s.threads := I.inThreads (by rw [hl]; simp)
  obtain ⟨n, m, hn, hm, hw, hn30, hm1, hct, hot⟩ := I.toInv0.facts hlen htt
  rw [hl] at hot
  simp [bitOwner] at hot
  have hW : W = 2147483648 := rfl
  obtain ⟨hp, o, ho, h⟩ := exec_step_inv he
  have ho : op (s.loc t) = some o := ho
  rw [hl] at ho
  cases ho
  rcases h with ⟨f, e, b, heq, _⟩ | ⟨r, hm, _⟩ | ⟨r, f, v, hm, rfl⟩
  · cases heq
  · simp [memEffect] at hm
  · simp only [memEffect, Option.some.injEq, Prod.mk.injEq] at hm
    obtain ⟨rfl, rfl, rfl⟩ := hm
    refine ⟨?_, by omega, ?_⟩
    · simp [band_ge (x := s.mem 0) (by omega) (by omega)]
    · simp only [setLoc_loc, if_pos]
      rw [hl]; rfl

theorem Inv.no_lost_wakeup {s : State RW} (I : Inv s) {u : TId} (hp : s.parked u ≠ none)
    (hz : s.mem 0 = W) : ∃ t, s.loc t = .lsNotify ∨ s.loc t = .tsNotify ∨ s.loc t = .usNotify := by
  rcases I.d hz with h | ⟨t, ht⟩
  · exact absurd (h u) hp
  · refine ⟨t, ?_⟩
    generalize s.loc t = l at ht
    cases l <;> simp_all [isNt]

theorem Inv.no_deadlock {s : State RW} (I : Inv s)
    (hq : ∀ t, (holdOf (s.loc t) = .none ∧ op (s.loc t) = none) ∨ s.parked t ≠ none) :
    ∀ u, s.parked u = none := by
  intro u
  apply Classical.byContradiction
  intro hpu
  obtain ⟨cur, hcur⟩ := I.parkedLoc hpu
  have hut : u ∈ s.threads := I.inThreads (by rw [hcur]; simp)
  have hc : ∀ v, contributes (s.loc v) = false := by
    intro v
    rcases hq v with ⟨h1, h2⟩ | h
    · generalize s.loc v = l at h1 h2
      cases l <;> simp_all [holdOf, op, contributes]
    · obtain ⟨c, hc⟩ := I.parkedLoc h
      rw [hc]; rfl
  have hc0 : cnt contributes s = 0 := List.countP_eq_zero.mpr (fun v _ => by simp [hc v])
  have ho := Inv0.le_cnt bitOwner hut
  rw [hcur] at ho
  simp [bitOwner] at ho
  have hw := I.word
  have h1 := I.own1
  have hz : s.mem 0 = W := by
    simp only [W] at hw ⊢
    omega
  obtain ⟨t, ht⟩ := I.no_lost_wakeup hpu hz
  have hop : op (s.loc t) = some (.fwake 0 intMax) := by
    rcases ht with h | h | h <;> rw [h] <;> rfl
  rcases hq t with ⟨_, h2⟩ | h
  · rw [h2] at hop; cases hop
  · obtain ⟨c, hc⟩ := I.parkedLoc h
    rw [hc] at hop; cases hop
end Dispenso.RWLock
