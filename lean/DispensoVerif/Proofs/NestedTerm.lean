import DispensoVerif.Proofs.Nested
/-! Termination measure of the nested-wait model (C06): every step of `step?` strictly decreases a natural
    number, so every execution is finite with an explicit bound. -/
namespace Dispenso.Nested

/-- all task ids of the program are below the number of scripts -/
def Closed (p : Prog) : Prop :=
  (∀ r, r ∈ p.roots → r < p.scripts.length) ∧ ∀ t c S, Act.spawn c S ∈ p.script t → c < p.scripts.length

def closedCheck (p : Prog) : Bool :=
  p.roots.all (fun r => decide (r < p.scripts.length)) &&
  p.scripts.all fun sc => sc.all fun a => match a with
    | .spawn c _ => decide (c < p.scripts.length)
    | _ => true

theorem closed_of_check {p : Prog} (h : closedCheck p = true) : Closed p := by
  simp only [closedCheck, Bool.and_eq_true, List.all_eq_true, decide_eq_true_eq] at h
  refine ⟨h.1, ?_⟩
  intro t c S hm
  have ht : t < p.scripts.length :=
    Nat.lt_of_not_le (fun hge => by rw [script_nil_of_ge hge] at hm; cases hm)
  have hmem : p.script t ∈ p.scripts := by
    simp only [Prog.script, List.getD, List.getElem?_eq_getElem ht, Option.getD_some]
    exact List.getElem_mem ht
  have := h.2 _ hmem _ hm
  simpa using this

def statusRank : Status → Nat
  | .idle => 3
  | .queued _ => 2
  | .running => 1
  | .done => 0

def weight (s : St) (t : TaskId) : Nat :=
  statusRank (s.status t) + 2 * (s.rem t).length + (if (s.pend t).isSome then 1 else 0)

def measure (N : Nat) (s : St) : Nat := ((List.range N).map (weight s)).sum

theorem sum_map_lt (f g : Nat → Nat) (hle : ∀ x, g x ≤ f x) :
    ∀ N t, t < N → g t < f t → ((List.range N).map g).sum < ((List.range N).map f).sum := by
  have hsum_le : ∀ N, ((List.range N).map g).sum ≤ ((List.range N).map f).sum := by
    intro N
    induction N with
    | zero => simp
    | succ n ih =>
      simp only [List.range_succ, List.map_append, List.map_cons, List.map_nil, List.sum_append,
        List.sum_cons, List.sum_nil, Nat.add_zero]
      have := hle n
      omega
  intro N
  induction N with
  | zero => intro t ht; omega
  | succ n ih =>
    intro t ht hlt
    simp only [List.range_succ, List.map_append, List.map_cons, List.map_nil, List.sum_append,
      List.sum_cons, List.sum_nil, Nat.add_zero]
    by_cases e : t = n
    · subst e
      have := hsum_le t
      omega
    · have := ih t (by omega) hlt
      have := hle n
      omega

/-! pointwise effect of the state transformers on the weight -/
theorem weight_consume_le (s : St) (t x : TaskId) : weight (s.consume t) x ≤ weight s x := by
  unfold weight St.consume
  by_cases e : x = t
  · subst e
    simp only [upd_same]
    have : (s.rem x).tail.length ≤ (s.rem x).length := by simp
    omega
  · simp only [upd_ne _ _ e]
    exact Nat.le_refl _

theorem weight_consume_lt (s : St) (t : TaskId) (a : Act) (h : (s.rem t).head? = some a) :
    weight (s.consume t) t + 2 ≤ weight s t := by
  unfold weight St.consume
  simp only [upd_same]
  rw [head_mem h]
  simp only [List.tail_cons, List.length_cons]
  omega

theorem weight_place_le (s : St) (t c : TaskId) (S : SetId) (T : Tier) (x : TaskId) :
    weight (s.place t c S T) x ≤ weight s x := by
  unfold St.place
  split_ifs with hid
  · unfold weight
    by_cases e : x = c
    · subst e
      simp only [upd_same, hid, statusRank]
      omega
    · simp only [upd_ne _ _ e]
      exact Nat.le_refl _
  · exact Nat.le_refl _

theorem weight_start_le (s : St) (th : ThreadId) (c : TaskId) (T : Tier) (hq : s.status c = .queued T) (x : TaskId) :
    weight (s.start th c) x ≤ weight s x := by
  unfold weight St.start
  by_cases e : x = c
  · subst e
    simp only [upd_same, hq, statusRank]
    omega
  · simp only [upd_ne _ _ e]
    exact Nat.le_refl _

theorem weight_start_lt (s : St) (th : ThreadId) (c : TaskId) (T : Tier) (hq : s.status c = .queued T) :
    weight (s.start th c) c + 1 ≤ weight s c := by
  unfold weight St.start
  simp only [upd_same, hq, statusRank]
  omega

theorem weight_setPend_le (s : St) (t : TaskId) (pd : Pend) (x : TaskId) :
    weight { s with pend := upd s.pend t (some pd) } x ≤ weight s x + (if x = t then 1 else 0) := by
  unfold weight
  by_cases e : x = t
  · subst e
    simp only [upd_same, Option.isSome_some, if_true]
    split_ifs <;> omega
  · simp only [upd_ne _ _ e, if_neg e]
    exact Nat.le_refl _

theorem weight_setPend_eq (s : St) (t : TaskId) (pd : Pend) (hp : s.pend t = none) :
    weight { s with pend := upd s.pend t (some pd) } t = weight s t + 1 := by
  unfold weight
  simp [hp]

/-- Every step strictly decreases the measure (taken over all task ids below `N`, which bounds every
    task that is ever scheduled when the program is closed). -/
theorem step_measure {cfg : Cfg} {p : Prog} (hcl : Closed p) {s s' : St} {e : Ev} (h : Inv cfg p s)
    (hs : step? cfg s e = some s') : measure p.scripts.length s' < measure p.scripts.length s := by
  have bound : ∀ c, s.status c ≠ .idle → c < p.scripts.length := by
    intro c hc
    rcases h.mentioned c hc with hr | ⟨t, S, hm⟩
    · exact hcl.1 c hr
    · exact hcl.2 t c S hm
  have run_bound : ∀ th t rest, s.stack th = t :: rest → t < p.scripts.length := by
    intro th t rest hst
    have := h.stackRun th t (by rw [hst]; exact List.mem_cons_self)
    exact bound t (by rw [this]; simp)
  unfold measure
  cases e with
  | decide th c S T w =>
    simp only [step?] at hs
    cases hst : s.stack th with
    | nil => rw [hst] at hs; cases hs
    | cons t rest =>
      rw [hst] at hs
      simp only at hs
      split_ifs at hs with hg hn
      · cases hs
        obtain ⟨hh, hp, _⟩ := hg
        have hp1 : (s.consume t).pend t = none := hp
        refine sum_map_lt _ _ ?_ _ t (run_bound th t rest hst) ?_
        · intro x
          have h1 := weight_consume_le s t x
          have h3 := weight_setPend_le (s.consume t) t ⟨c, S, T, w⟩ x
          by_cases e : x = t
          · subst e
            have h2 := weight_consume_lt s x _ hh
            have h4 := weight_setPend_eq (s.consume x) x ⟨c, S, T, w⟩ hp1
            exact Nat.le_trans (Nat.le_of_eq h4) (by omega)
          · rw [if_neg e] at h3
            exact Nat.le_trans h3 h1
        · have h2 := weight_consume_lt s t _ hh
          have h4 := weight_setPend_eq (s.consume t) t ⟨c, S, T, w⟩ hp1
          exact Nat.lt_of_lt_of_le (Nat.lt_of_le_of_lt (Nat.le_of_eq h4) (by omega)) (Nat.le_refl _)
      · cases hs
        obtain ⟨hh, hp, _⟩ := hg
        refine sum_map_lt _ _ ?_ _ t (run_bound th t rest hst) ?_
        · intro x
          exact Nat.le_trans (weight_place_le _ t c S T x) (weight_consume_le s t x)
        · have h1 := weight_place_le (s.consume t) t c S T t
          have h2 := weight_consume_lt s t _ hh
          omega
  | push th T' =>
    simp only [step?] at hs
    cases hst : s.stack th with
    | nil => rw [hst] at hs; cases hs
    | cons t rest =>
      rw [hst] at hs
      simp only at hs
      cases hpd : s.pend t with
      | none => rw [hpd] at hs; cases hs
      | some pd =>
        rw [hpd] at hs
        simp only at hs
        split_ifs at hs with hg
        cases hs
        have hclr : ∀ x, weight { s with pend := upd s.pend t none } x ≤ weight s x := by
          intro x
          unfold weight
          by_cases e : x = t
          · subst e; simp
          · simp only [upd_ne _ _ e]; exact Nat.le_refl _
        have hclr_lt : weight { s with pend := upd s.pend t none } t + 1 ≤ weight s t := by
          unfold weight
          simp only [upd_same, Option.isSome_none, hpd, Option.isSome_some]
          simp
        refine sum_map_lt _ _ ?_ _ t (run_bound th t rest hst) ?_
        · intro x
          exact Nat.le_trans (weight_place_le _ t pd.c pd.S T' x) (hclr x)
        · have h1 := weight_place_le { s with pend := upd s.pend t none } t pd.c pd.S T' t
          omega
  | inline th c S =>
    simp only [step?] at hs
    cases hst : s.stack th with
    | nil => rw [hst] at hs; cases hs
    | cons t rest =>
      rw [hst] at hs
      simp only at hs
      split_ifs at hs with hg hid
      · cases hs
        obtain ⟨hh, hp⟩ := hg
        have hq : ((s.consume t).place t c S .central).status c = .queued .central := by
          have : (s.consume t).status c = .idle := hid
          simp [St.place, this]
        refine sum_map_lt _ _ ?_ _ t (run_bound th t rest hst) ?_
        · intro x
          exact Nat.le_trans (weight_start_le _ th c .central hq x)
            (Nat.le_trans (weight_place_le _ t c S .central x) (weight_consume_le s t x))
        · have h0 := weight_start_le _ th c .central hq t
          have h1 := weight_place_le (s.consume t) t c S .central t
          have h2 := weight_consume_lt s t _ hh
          omega
      · cases hs
        obtain ⟨hh, hp⟩ := hg
        refine sum_map_lt _ _ (weight_consume_le s t) _ t (run_bound th t rest hst) ?_
        have h2 := weight_consume_lt s t _ hh
        omega
  | take th c T =>
    simp only [step?] at hs
    by_cases hq' : ¬ s.status c = .queued T
    · rw [if_neg hq'] at hs; cases hs
    have hq : s.status c = .queued T := Classical.not_not.mp hq'
    rw [if_pos hq] at hs
    have hfin : measure p.scripts.length (s.start th c) < measure p.scripts.length s := by
      unfold measure
      refine sum_map_lt _ _ (weight_start_le s th c T hq) _ c (bound c (by rw [hq]; simp)) ?_
      have := weight_start_lt s th c T hq
      omega
    unfold measure at hfin
    cases hst : s.stack th with
    | nil =>
      rw [hst] at hs
      simp only at hs
      split_ifs at hs
      cases hs
      exact hfin
    | cons t rest =>
      rw [hst] at hs
      simp only at hs
      split at hs
      · split_ifs at hs
        cases hs
        exact hfin
      · cases hs
  | takeDirect th c =>
    simp only [step?] at hs
    cases hst : s.stack th with
    | nil => rw [hst] at hs; cases hs
    | cons t rest =>
      rw [hst] at hs
      simp only at hs
      split at hs
      · split_ifs at hs with hg
        cases hs
        obtain ⟨_, _, hq⟩ := hg
        cases hsc : s.status c with
        | queued T =>
          refine sum_map_lt _ _ (weight_start_le s th c T hsc) _ c (bound c (by rw [hsc]; simp)) ?_
          have := weight_start_lt s th c T hsc
          omega
        | idle => rw [hsc] at hq; cases hq
        | running => rw [hsc] at hq; cases hq
        | done => rw [hsc] at hq; cases hq
      · cases hs
  | waitRet th =>
    simp only [step?] at hs
    cases hst : s.stack th with
    | nil => rw [hst] at hs; cases hs
    | cons t rest =>
      rw [hst] at hs
      simp only at hs
      split at hs
      · rename_i S b hh
        split_ifs at hs with hg
        cases hs
        refine sum_map_lt _ _ (weight_consume_le s t) _ t (run_bound th t rest hst) ?_
        have h2 := weight_consume_lt s t _ hh
        omega
      · cases hs
  | finish th =>
    simp only [step?] at hs
    cases hst : s.stack th with
    | nil => rw [hst] at hs; cases hs
    | cons t rest =>
      rw [hst] at hs
      simp only at hs
      split_ifs at hs with hg
      cases hs
      have tRun : s.status t = .running := h.stackRun th t (by rw [hst]; exact List.mem_cons_self)
      refine sum_map_lt _ _ ?_ _ t (run_bound th t rest hst) ?_
      · intro x
        unfold weight
        by_cases e : x = t
        · subst e; simp only [upd_same, tRun, statusRank]; omega
        · simp only [upd_ne _ _ e]; exact Nat.le_refl _
      · unfold weight
        simp only [upd_same, tRun, statusRank]
        omega

/-- the length of every execution plus the measure of its final state is at most the initial measure -/
theorem run_length_bound {cfg : Cfg} {p : Prog} (hfj : ForkJoin p) (hcl : Closed p) :
    ∀ (evs : List Ev) (s s' : St), Reachable cfg p s → runEvents cfg s evs = some s' →
      evs.length + measure p.scripts.length s' ≤ measure p.scripts.length s := by
  intro evs
  induction evs with
  | nil =>
    intro s s' _ h
    simp only [runEvents, Option.some.injEq] at h
    subst h
    simp
  | cons e es ih =>
    intro s s' hr h
    simp only [runEvents] at h
    cases hs : step? cfg s e with
    | none => rw [hs] at h; cases h
    | some s1 =>
      rw [hs] at h
      have h1 := step_measure hcl (reachable_inv hfj hr) hs
      have h2 := ih s1 s' (Reachable.step e hr hs) h
      simp only [List.length_cons]
      omega

end Dispenso.Nested
