import DispensoVerif.Model.Spsc

/-! Helper lemmas for C35 (SPSC ring buffer): ghost-state invariant and its preservation. -/
namespace Dispenso.Spsc
open Dispenso.Conc

/-! ### generic facts about `exec` -/
section Generic
variable {Pr : Proto}

@[simp] theorem setLoc_mem (s : State Pr) (t : TId) (l : Pr.L) : (setLoc s t l).mem = s.mem := rfl
@[simp] theorem setLoc_parked (s : State Pr) (t : TId) (l : Pr.L) :
    (setLoc s t l).parked = s.parked := rfl
@[simp] theorem setLoc_loc (s : State Pr) (t : TId) (l : Pr.L) (u : TId) :
    (setLoc s t l).loc u = if u = t then l else s.loc u := rfl
theorem setLoc_loc_self (s : State Pr) (t : TId) (l : Pr.L) : (setLoc s t l).loc t = l := by
  simp
@[simp] theorem setMem_mem (s : State Pr) (f : Fld) (v : Int) (g : Fld) :
    (setMem s f v).mem g = if g = f then v else s.mem g := rfl
@[simp] theorem setMem_loc (s : State Pr) (f : Fld) (v : Int) : (setMem s f v).loc = s.loc := rfl
@[simp] theorem setMem_parked (s : State Pr) (f : Fld) (v : Int) :
    (setMem s f v).parked = s.parked := rfl
@[simp] theorem setParked_mem (s : State Pr) (t : TId) (p : Option (Fld × Bool)) :
    (setParked s t p).mem = s.mem := rfl
@[simp] theorem setParked_loc (s : State Pr) (t : TId) (p : Option (Fld × Bool)) :
    (setParked s t p).loc = s.loc := rfl
@[simp] theorem setParked_parked (s : State Pr) (t : TId) (p : Option (Fld × Bool)) (u : TId) :
    (setParked s t p).parked u = if u = t then p else s.parked u := rfl

/-- the singleton-or-empty history contribution of one action -/
def evl (s : State Pr) (a : Act Pr) : List Ev :=
  match evOf s a with
  | some e => [e]
  | none => []

theorem exec_step_load (s : State Pr) (t : TId) (f : Fld) (hp : s.parked t = none)
    (ho : Pr.op (s.loc t) = some (.load f)) :
    exec s (.step t) = some (setLoc s t (Pr.cont (s.loc t) (s.mem f))) ∧
    evl s (.step t) = [⟨t, .load f, s.mem f⟩] := by
  simp [exec, evl, evOf, hp, ho, memEffect]

theorem exec_step_store (s : State Pr) (t : TId) (f : Fld) (v : Int) (hp : s.parked t = none)
    (ho : Pr.op (s.loc t) = some (.store f v)) :
    exec s (.step t) = some (setLoc (setMem s f v) t (Pr.cont (s.loc t) 0)) ∧
    evl s (.step t) = [⟨t, .store f v, 0⟩] := by
  simp [exec, evl, evOf, hp, ho, memEffect]

theorem exec_step_xchg (s : State Pr) (t : TId) (f : Fld) (v : Int) (hp : s.parked t = none)
    (ho : Pr.op (s.loc t) = some (.xchg f v)) :
    exec s (.step t) = some (setLoc (setMem s f v) t (Pr.cont (s.loc t) (s.mem f))) ∧
    evl s (.step t) = [⟨t, .xchg f v, s.mem f⟩] := by
  simp [exec, evl, evOf, hp, ho, memEffect]

end Generic

/-! ### index arithmetic -/

theorem inc_cast (K a : Nat) : inc K ((a % K : Nat) : Int) = (((a + 1) % K : Nat) : Int) := by
  unfold inc
  push_cast
  exact Int.emod_add_emod _ _ _

theorem slot_cast (a : Nat) : slot (a : Int) = 2 + a := by
  simp [slot]

theorem mod_ne_of_lt {K a b : Nat} (h1 : a < b) (h2 : b < a + K) : a % K ≠ b % K := by
  intro h
  have h3 : (b - a) % K = 0 := Nat.sub_mod_eq_zero_of_mod_eq h.symm
  rw [Nat.mod_eq_of_lt (by omega)] at h3
  omega

theorem add_mod_cases (K a n : Nat) (hn : n < K) :
    ((a + n) % K = a % K + n ∧ a % K + n < K) ∨
    ((a + n) % K + K = a % K + n ∧ K ≤ a % K + n) := by
  have hK : 0 < K := by omega
  have hr := Nat.mod_lt a hK
  have e : (a + n) % K = (a % K + n) % K := by
    rw [Nat.add_mod, Nat.mod_eq_of_lt hn]
  rw [e]
  by_cases h : a % K + n < K
  · left; rw [Nat.mod_eq_of_lt h]; exact ⟨rfl, h⟩
  · right
    rw [Nat.mod_eq_sub_mod (by omega), Nat.mod_eq_of_lt (by omega)]
    omega

theorem availPush_cast {K hA tA : Nat} (h1 : hA ≤ tA) (h2 : tA + 1 ≤ hA + K) :
    availPush K ((tA % K : Nat) : Int) ((hA % K : Nat) : Int) = hA + K - 1 - tA := by
  obtain ⟨n, rfl⟩ := Nat.exists_eq_add_of_le h1
  have hr := Nat.mod_lt hA (by omega : 0 < K)
  unfold availPush
  rcases add_mod_cases K hA n (by omega) with ⟨e, h⟩ | ⟨e, h⟩ <;> split <;> omega

theorem availPop_cast {K hA tA : Nat} (h1 : hA ≤ tA) (h2 : tA + 1 ≤ hA + K) :
    availPop K ((tA % K : Nat) : Int) ((hA % K : Nat) : Int) = tA - hA := by
  obtain ⟨n, rfl⟩ := Nat.exists_eq_add_of_le h1
  have hr := Nat.mod_lt hA (by omega : 0 < K)
  unfold availPop
  rcases add_mod_cases K hA n (by omega) with ⟨e, h⟩ | ⟨e, h⟩ <;> split <;> omega

/-! ### usage contract -/

def isPushCall : L → Bool
  | .pLoadT _ => true
  | .bLoadT _ => true
  | _ => false

def isPopCall : L → Bool
  | .cLoadH => true
  | .qLoadH _ => true
  | _ => false

/-- role constraint on one action -/
def RoleAct (P C : TId) {K : Nat} (a : Act (proto K)) : Prop :=
  ∀ t l, a = Act.call t l → (isPushCall l = true → t = P) ∧ (isPopCall l = true → t = C)

/-- all producer calls are made by thread `P`, all consumer calls by thread `C` -/
def Roles (P C : TId) {K : Nat} (as : List (Act (proto K))) : Prop :=
  ∀ a ∈ as, ∀ t l, a = Act.call t l → (isPushCall l = true → t = P) ∧ (isPopCall l = true → t = C)

/-! ### ghost state -/

/-- slots written by the producer in its current call and not yet published -/
def pW : L → Nat
  | .pPub _ => 1
  | .bWrite _ _ c _ => c
  | .bPub _ c => c
  | _ => 0

/-- slots the producer has reserved in its current call (free when it read `head`) -/
def pRes : L → Nat
  | .pWrite _ _ => 1
  | .pPub _ => 1
  | .bWrite _ _ _ a => a
  | .bPub _ c => c
  | _ => 0

/-- slots the consumer has taken in its current call and not yet released -/
def cTk : L → Nat
  | .cPub _ _ => 1
  | .qTake _ _ acc => acc.length
  | .qPub _ acc => acc.length
  | _ => 0

/-- published slots the consumer has claimed in its current call -/
def cRes : L → Nat
  | .cTake _ => 1
  | .cPub _ _ => 1
  | .qTake _ left acc => acc.length + left
  | .qPub _ acc => acc.length
  | _ => 0

def isPushLoc : L → Bool
  | .pLoadT _ | .pLoadH _ _ | .pWrite _ _ | .pPub _
  | .bLoadT _ | .bLoadH _ _ | .bWrite _ _ _ _ | .bPub _ _ => true
  | _ => false

def isPopLoc : L → Bool
  | .cLoadH | .cLoadT _ | .cTake _ | .cPub _ _
  | .qLoadH _ | .qLoadT _ _ | .qTake _ _ _ | .qPub _ _ => true
  | _ => false

/-- what the producer's local variables must be, `tA` = absolute number of published pushes -/
def PGood (K tA : Nat) : L → Prop
  | .pLoadT v => 0 ≤ v
  | .pLoadH v t => 0 ≤ v ∧ t = ((tA % K : Nat) : Int)
  | .pWrite v t => 0 ≤ v ∧ t = ((tA % K : Nat) : Int)
  | .pPub t => t = ((tA % K : Nat) : Int)
  | .bLoadT vs => ∀ v ∈ vs, 0 ≤ v
  | .bLoadH vs t => (∀ v ∈ vs, 0 ≤ v) ∧ t = ((tA % K : Nat) : Int)
  | .bWrite vs pos c a =>
    (∀ v ∈ vs, 0 ≤ v) ∧ vs ≠ [] ∧ pos = (((tA + c) % K : Nat) : Int) ∧ c < a
  | .bPub pos c => pos = (((tA + c) % K : Nat) : Int)
  | _ => True

/-- what the consumer's local variables must be, `hA` = absolute number of released pops -/
def CGood (K hA : Nat) : L → Prop
  | .cLoadT h => h = ((hA % K : Nat) : Int)
  | .cTake h => h = ((hA % K : Nat) : Int)
  | .cPub h _ => h = ((hA % K : Nat) : Int)
  | .qLoadT _ h => h = ((hA % K : Nat) : Int)
  | .qTake pos left acc => pos = (((hA + acc.length) % K : Nat) : Int) ∧ 1 ≤ left
  | .qPub pos acc => pos = (((hA + acc.length) % K : Nat) : Int)
  | _ => True

/-- The invariant.  Ghost state: `hA`/`tA` count released pops / published pushes (so
`head = hA % K`, `tail = tA % K`), `q` is the pending queue: values in slots
`hA + taken … tA + written - 1` (mod K). -/
structure Inv (P C : TId) (K : Nat) (s : State (proto K)) (hA tA : Nat) (q : List Int) : Prop where
  hH : s.mem 0 = ((hA % K : Nat) : Int)
  hT : s.mem 1 = ((tA % K : Nat) : Int)
  cnt : hA + cTk (s.loc C) + q.length = tA + pW (s.loc P)
  pres : tA + pRes (s.loc P) + 1 ≤ hA + K
  cres : hA + cRes (s.loc C) ≤ tA
  pw : pW (s.loc P) ≤ pRes (s.loc P)
  ck : cTk (s.loc C) ≤ cRes (s.loc C)
  memq : ∀ j (hj : j < q.length), s.mem (2 + (hA + cTk (s.loc C) + j) % K) = q[j]
  qpos : ∀ x ∈ q, 0 ≤ x
  park : ∀ t, s.parked t = none
  roleP : ∀ t, t ≠ P → isPushLoc (s.loc t) = false
  roleC : ∀ t, t ≠ C → isPopLoc (s.loc t) = false
  pg : PGood K tA (s.loc P)
  cg : CGood K hA (s.loc C)

variable {P C : TId} {K : Nat} {s : State (proto K)} {hA tA : Nat} {q : List Int}

theorem Inv.qlen (inv : Inv P C K s hA tA q) : q.length + 1 ≤ K := by
  have := inv.cnt; have := inv.pres; have := inv.pw; omega

theorem Inv.init (hK : 1 ≤ K) : Inv P C K (init K) 0 0 [] := by
  refine ⟨?_, ?_, ?_, ?_, ?_, ?_, ?_, ?_, ?_, ?_, ?_, ?_, ?_, ?_⟩ <;>
    simp [Spsc.init, initState, cTk, pW, pRes, cRes, isPushLoc, isPopLoc, PGood, CGood]
  omega

/-- change of the producer's local state without memory effect -/
theorem Inv.locP (hPC : P ≠ C) (inv : Inv P C K s hA tA q) (l' : (proto K).L)
    (h1 : PGood K tA l') (h2 : pW l' = pW (s.loc P)) (h3 : tA + pRes l' + 1 ≤ hA + K)
    (h4 : pW l' ≤ pRes l') (h5 : isPopLoc l' = false) :
    Inv P C K (setLoc s P l') hA tA q := by
  have hCP : C ≠ P := Ne.symm hPC
  refine ⟨?_, ?_, ?_, ?_, ?_, ?_, ?_, ?_, ?_, ?_, ?_, ?_, ?_, ?_⟩
  · simpa using inv.hH
  · simpa using inv.hT
  · simpa [hCP, h2] using inv.cnt
  · simpa using h3
  · simpa [hCP] using inv.cres
  · simpa using h4
  · simpa [hCP] using inv.ck
  · simpa [hCP] using inv.memq
  · exact inv.qpos
  · simpa using inv.park
  · intro t ht; simpa [ht] using inv.roleP t ht
  · intro t ht
    by_cases h : t = P
    · subst h; simpa using h5
    · simpa [h] using inv.roleC t ht
  · simpa using h1
  · simpa [hCP] using inv.cg

/-- change of the consumer's local state without memory effect -/
theorem Inv.locC (hPC : P ≠ C) (inv : Inv P C K s hA tA q) (l' : (proto K).L)
    (h1 : CGood K hA l') (h2 : cTk l' = cTk (s.loc C)) (h3 : hA + cRes l' ≤ tA)
    (h4 : cTk l' ≤ cRes l') (h5 : isPushLoc l' = false) :
    Inv P C K (setLoc s C l') hA tA q := by
  refine ⟨?_, ?_, ?_, ?_, ?_, ?_, ?_, ?_, ?_, ?_, ?_, ?_, ?_, ?_⟩
  · simpa using inv.hH
  · simpa using inv.hT
  · simpa [hPC, h2] using inv.cnt
  · simpa [hPC] using inv.pres
  · simpa using h3
  · simpa [hPC] using inv.pw
  · simpa using h4
  · simpa [h2] using inv.memq
  · exact inv.qpos
  · simpa using inv.park
  · intro t ht
    by_cases h : t = C
    · subst h; simpa using h5
    · simpa [h] using inv.roleP t ht
  · intro t ht; simpa [ht] using inv.roleC t ht
  · simpa [hPC] using inv.pg
  · simpa using h1

/-- change of a bystander's local state -/
theorem Inv.locO (inv : Inv P C K s hA tA q) (t : TId) (l' : (proto K).L) (hP : t ≠ P) (hC : t ≠ C)
    (h1 : isPushLoc l' = false) (h2 : isPopLoc l' = false) :
    Inv P C K (setLoc s t l') hA tA q := by
  have hP' : P ≠ t := Ne.symm hP
  have hC' : C ≠ t := Ne.symm hC
  refine ⟨?_, ?_, ?_, ?_, ?_, ?_, ?_, ?_, ?_, ?_, ?_, ?_, ?_, ?_⟩
  · simpa using inv.hH
  · simpa using inv.hT
  · simpa [hP', hC'] using inv.cnt
  · simpa [hP'] using inv.pres
  · simpa [hC'] using inv.cres
  · simpa [hP'] using inv.pw
  · simpa [hC'] using inv.ck
  · simpa [hC'] using inv.memq
  · exact inv.qpos
  · simpa using inv.park
  · intro u hu
    by_cases h : u = t
    · subst h; simpa using h1
    · simpa [h] using inv.roleP u hu
  · intro u hu
    by_cases h : u = t
    · subst h; simpa using h2
    · simpa [h] using inv.roleC u hu
  · simpa [hP'] using inv.pg
  · simpa [hC'] using inv.cg

/-- the producer publishes what it wrote: `tail := (tA + written) % K` -/
theorem Inv.pubTail (hPC : P ≠ C) (inv : Inv P C K s hA tA q) (l' : (proto K).L) (v : Int)
    (hv : v = (((tA + pW (s.loc P)) % K : Nat) : Int))
    (h1 : PGood K (tA + pW (s.loc P)) l') (h2 : pW l' = 0) (h3 : pRes l' = 0)
    (h5 : isPopLoc l' = false) :
    Inv P C K (setLoc (setMem s 1 v) P l') hA (tA + pW (s.loc P)) q := by
  have hCP : C ≠ P := Ne.symm hPC
  have := inv.pw
  refine ⟨?_, ?_, ?_, ?_, ?_, ?_, ?_, ?_, ?_, ?_, ?_, ?_, ?_, ?_⟩
  · simpa using inv.hH
  · simpa using hv
  · simpa [hCP, h2] using inv.cnt
  · have := inv.pres; simp [h3]; omega
  · have := inv.cres; simp [hCP]; omega
  · simp [h2]
  · simpa [hCP] using inv.ck
  · intro j hj
    have := inv.memq j hj
    simp only [setLoc_mem, setMem_mem, setLoc_loc, setMem_loc, hCP, if_false]
    rw [if_neg (show ¬ (2 + (hA + cTk (s.loc C) + j) % K = 1) by omega)]; exact this
  · exact inv.qpos
  · simpa using inv.park
  · intro t ht; simpa [ht] using inv.roleP t ht
  · intro t ht
    by_cases h : t = P
    · subst h; simpa using h5
    · simpa [h] using inv.roleC t ht
  · simpa using h1
  · simpa [hCP] using inv.cg

/-- the consumer releases what it took: `head := (hA + taken) % K` -/
theorem Inv.pubHead (hPC : P ≠ C) (inv : Inv P C K s hA tA q) (l' : (proto K).L) (v : Int)
    (hv : v = (((hA + cTk (s.loc C)) % K : Nat) : Int))
    (h1 : CGood K (hA + cTk (s.loc C)) l') (h2 : cTk l' = 0) (h3 : cRes l' = 0)
    (h5 : isPushLoc l' = false) :
    Inv P C K (setLoc (setMem s 0 v) C l') (hA + cTk (s.loc C)) tA q := by
  have := inv.ck
  refine ⟨?_, ?_, ?_, ?_, ?_, ?_, ?_, ?_, ?_, ?_, ?_, ?_, ?_, ?_⟩
  · simpa using hv
  · simpa using inv.hT
  · simpa [hPC, h2] using inv.cnt
  · have := inv.pres; simp [hPC]; omega
  · have := inv.cres; simp [h3]; omega
  · simpa [hPC] using inv.pw
  · simp [h2]
  · intro j hj
    have := inv.memq j hj
    simp only [setLoc_mem, setMem_mem, setLoc_loc, setMem_loc, if_true, h2, Nat.add_zero]
    rw [if_neg (show ¬ (2 + (hA + cTk (s.loc C) + j) % K = 0) by omega)]; exact this
  · exact inv.qpos
  · simpa using inv.park
  · intro t ht
    by_cases h : t = C
    · subst h; simpa using h5
    · simpa [h] using inv.roleP t ht
  · intro t ht; simpa [ht] using inv.roleC t ht
  · simpa [hPC] using inv.pg
  · simpa using h1

/-- the producer writes the next reserved slot -/
theorem Inv.write (hPC : P ≠ C) (inv : Inv P C K s hA tA q) (l' : (proto K).L) (v : Int)
    (hv : 0 ≤ v) (hlt : pW (s.loc P) < pRes (s.loc P))
    (h1 : PGood K tA l') (h2 : pW l' = pW (s.loc P) + 1) (h3 : pRes l' ≤ pRes (s.loc P))
    (h4 : pW l' ≤ pRes l') (h5 : isPopLoc l' = false) :
    Inv P C K (setLoc (setMem s (2 + (tA + pW (s.loc P)) % K) v) P l') hA tA (q ++ [v]) := by
  have hCP : C ≠ P := Ne.symm hPC
  have e0 : ∀ x : Nat, ¬ (0 = 2 + x) := by omega
  have e1 : ∀ x : Nat, ¬ (1 = 2 + x) := by omega
  refine ⟨?_, ?_, ?_, ?_, ?_, ?_, ?_, ?_, ?_, ?_, ?_, ?_, ?_, ?_⟩
  · have := inv.hH; simp only [setLoc_mem, setMem_mem]; rw [if_neg (e0 _)]; exact this
  · have := inv.hT; simp only [setLoc_mem, setMem_mem]; rw [if_neg (e1 _)]; exact this
  · have := inv.cnt; simp [hCP, h2]; omega
  · have := inv.pres; simp; omega
  · simpa [hCP] using inv.cres
  · simpa using h4
  · simpa [hCP] using inv.ck
  · intro j hj
    have hc := inv.cnt
    have hp := inv.pres
    simp only [setLoc_mem, setMem_mem, setLoc_loc, setMem_loc, hCP, if_false]
    have hj2 : j < q.length + 1 := by simpa using hj
    by_cases hjq : j < q.length
    · rw [if_neg, List.getElem_append_left hjq]
      · exact inv.memq j hjq
      · have := @mod_ne_of_lt K (hA + cTk (s.loc C) + j) (tA + pW (s.loc P)) (by omega) (by omega)
        exact fun h => this (Nat.add_left_cancel h)
    · have hj' : j = q.length := by omega
      subst hj'
      rw [if_pos (by rw [hc]), List.getElem_append_right (Nat.le_refl _)]
      simp
  · intro x hx
    rcases List.mem_append.1 hx with h | h
    · exact inv.qpos x h
    · simp at h; subst h; exact hv
  · simpa using inv.park
  · intro t ht; simpa [ht] using inv.roleP t ht
  · intro t ht
    by_cases h : t = P
    · subst h; simpa using h5
    · simpa [h] using inv.roleC t ht
  · simpa using h1
  · simpa [hCP] using inv.cg

/-- the consumer takes the next claimed slot; the value is the head of the pending queue -/
theorem Inv.take (hPC : P ≠ C) (inv : Inv P C K s hA tA q) (l' : (proto K).L) (v : Int)
    (hlt : cTk (s.loc C) < cRes (s.loc C))
    (h1 : CGood K hA l') (h2 : cTk l' = cTk (s.loc C) + 1) (h3 : cRes l' ≤ cRes (s.loc C))
    (h4 : cTk l' ≤ cRes l') (h5 : isPushLoc l' = false) :
    ∃ q', q = s.mem (2 + (hA + cTk (s.loc C)) % K) :: q' ∧
      0 ≤ s.mem (2 + (hA + cTk (s.loc C)) % K) ∧
      Inv P C K (setLoc (setMem s (2 + (hA + cTk (s.loc C)) % K) v) C l') hA tA q' := by
  have hc := inv.cnt
  have hr := inv.cres
  have hql := inv.qlen
  cases q with
  | nil => simp at hc; omega
  | cons r q' =>
  have hm0 := inv.memq 0 (by simp)
  simp only [Nat.add_zero, List.getElem_cons_zero] at hm0
  refine ⟨q', by rw [hm0], by rw [hm0]; exact inv.qpos r (by simp), ?_⟩
  simp only [List.length_cons] at hc hql
  have e0 : ∀ x : Nat, ¬ (0 = 2 + x) := by omega
  have e1 : ∀ x : Nat, ¬ (1 = 2 + x) := by omega
  refine ⟨?_, ?_, ?_, ?_, ?_, ?_, ?_, ?_, ?_, ?_, ?_, ?_, ?_, ?_⟩
  · have := inv.hH; simp only [setLoc_mem, setMem_mem]; rw [if_neg (e0 _)]; exact this
  · have := inv.hT; simp only [setLoc_mem, setMem_mem]; rw [if_neg (e1 _)]; exact this
  · simp [hPC, h2]; omega
  · simpa [hPC] using inv.pres
  · have := inv.cres; simp; omega
  · simpa [hPC] using inv.pw
  · simpa using h4
  · intro j hj
    simp only [setLoc_mem, setMem_mem, setLoc_loc, setMem_loc, if_true, h2]
    rw [if_neg]
    · have := inv.memq (j + 1) (by simp; omega)
      simp only [List.getElem_cons_succ] at this
      rw [← this]
      have e : hA + (cTk (s.loc C) + 1) + j = hA + cTk (s.loc C) + (j + 1) := by omega
      rw [e]
    · have := @mod_ne_of_lt K (hA + cTk (s.loc C)) (hA + (cTk (s.loc C) + 1) + j)
        (by omega) (by omega)
      exact fun h => this (Nat.add_left_cancel h).symm
  · intro x hx; exact inv.qpos x (by simp [hx])
  · simpa using inv.park
  · intro t ht
    by_cases h : t = C
    · subst h; simpa using h5
    · simpa [h] using inv.roleP t ht
  · intro t ht; simpa [ht] using inv.roleC t ht
  · simpa [hPC] using inv.pg
  · simpa using h1

/-! ### one action preserves the invariant and extends the history consistently -/

/-- `a` from `s` preserves the invariant (for some new ghost state) and its history contribution
is consistent with the pending queue: `q ++ pushed = popped ++ q'`. -/
def StepOK (P C : TId) (K : Nat) (s : State (proto K)) (a : Act (proto K))
    (q : List Int) : Prop :=
  ∀ s', exec s a = some s' → ∃ hA' tA' q', Inv P C K s' hA' tA' q' ∧
    q ++ pushed (evl s a) = popped (evl s a) ++ q' ∧ ∀ v ∈ popped (evl s a), 0 ≤ v

/-- ghost increments of one action: a store to `head` releases the slots the storing thread took,
a store to `tail` publishes the slots it wrote (used by the happens-before proofs of C10, which need
the ghost state after the action explicitly) -/
def dH (K : Nat) (s : State (proto K)) : Act (proto K) → Nat
  | .step t => match op K (s.loc t) with
    | some (.store 0 _) => cTk (s.loc t)
    | _ => 0
  | _ => 0

def dT (K : Nat) (s : State (proto K)) : Act (proto K) → Nat
  | .step t => match op K (s.loc t) with
    | some (.store 1 _) => pW (s.loc t)
    | _ => 0
  | _ => 0

/-- `StepOK` with the ghost state after the action made explicit -/
def StepOKG (P C : TId) (K : Nat) (s : State (proto K)) (a : Act (proto K))
    (hA tA : Nat) (q : List Int) : Prop :=
  ∀ s', exec s a = some s' → ∃ q', Inv P C K s' (hA + dH K s a) (tA + dT K s a) q' ∧
    q ++ pushed (evl s a) = popped (evl s a) ++ q' ∧ ∀ v ∈ popped (evl s a), 0 ≤ v

theorem StepOKG.toStepOK {a : Act (proto K)} (h : StepOKG P C K s a hA tA q) : StepOK P C K s a q := by
  intro s' he
  obtain ⟨q', h1, h2, h3⟩ := h s' he
  exact ⟨_, _, q', h1, h2, h3⟩

theorem stepOK_load (inv : Inv P C K s hA tA q) (t : TId) (f : Fld)
    (ho : op K (s.loc t) = some (.load f))
    (H : Inv P C K (setLoc s t (cont K (s.loc t) (s.mem f))) hA tA q) :
    StepOKG P C K s (.step t) hA tA q := by
  intro s' he
  obtain ⟨e1, e2⟩ := exec_step_load s t f (inv.park t) ho
  rw [e1] at he; cases he
  have g1 : dH K s (.step t) = 0 := by simp [dH, ho]
  have g2 : dT K s (.step t) = 0 := by simp [dT, ho]
  rw [g1, g2]
  exact ⟨q, H, by simp [e2, pushed, popped], by simp [e2, popped]⟩

theorem stepOK_storeIdx (inv : Inv P C K s hA tA q) (t : TId) (f : Nat) (v : Int) (hf : f < 2)
    (ho : op K (s.loc t) = some (.store f v))
    (H : Inv P C K (setLoc (setMem s f v) t (cont K (s.loc t) 0))
      (hA + if f = 0 then cTk (s.loc t) else 0) (tA + if f = 1 then pW (s.loc t) else 0) q) :
    StepOKG P C K s (.step t) hA tA q := by
  intro s' he
  obtain ⟨e1, e2⟩ := exec_step_store s t f v (inv.park t) ho
  rw [e1] at he; cases he
  have hf' : ¬ 2 ≤ f := by omega
  have g1 : dH K s (.step t) = if f = 0 then cTk (s.loc t) else 0 := by
    simp only [dH, ho]
    rcases (by omega : f = 0 ∨ f = 1) with h | h <;> subst h <;> simp
  have g2 : dT K s (.step t) = if f = 1 then pW (s.loc t) else 0 := by
    simp only [dT, ho]
    rcases (by omega : f = 0 ∨ f = 1) with h | h <;> subst h <;> simp
  rw [g1, g2]
  exact ⟨q, H, by simp [e2, pushed, popped, hf'], by simp [e2, popped]⟩

theorem stepOK_storeSlot (inv : Inv P C K s hA tA q) (t : TId) (f : Nat) (v : Int) (hf : 2 ≤ f)
    (ho : op K (s.loc t) = some (.store f v))
    (H : Inv P C K (setLoc (setMem s f v) t (cont K (s.loc t) 0)) hA tA (q ++ [v])) :
    StepOKG P C K s (.step t) hA tA q := by
  intro s' he
  obtain ⟨e1, e2⟩ := exec_step_store s t f v (inv.park t) ho
  rw [e1] at he; cases he
  have g1 : dH K s (.step t) = 0 := by
    simp only [dH, ho]; split <;> first | rfl | (rename_i h; cases h; omega)
  have g2 : dT K s (.step t) = 0 := by
    simp only [dT, ho]; split <;> first | rfl | (rename_i h; cases h; omega)
  rw [g1, g2]
  exact ⟨q ++ [v], H, by simp [e2, pushed, popped, hf], by simp [e2, popped]⟩

theorem stepOK_xchgSlot (inv : Inv P C K s hA tA q) (t : TId) (f : Nat) (v : Int) (hf : 2 ≤ f)
    (ho : op K (s.loc t) = some (.xchg f v))
    (H : ∃ q', q = s.mem f :: q' ∧ 0 ≤ s.mem f ∧
      Inv P C K (setLoc (setMem s f v) t (cont K (s.loc t) (s.mem f))) hA tA q') :
    StepOKG P C K s (.step t) hA tA q := by
  intro s' he
  obtain ⟨e1, e2⟩ := exec_step_xchg s t f v (inv.park t) ho
  rw [e1] at he; cases he
  obtain ⟨q', hq, hr, H⟩ := H
  have g1 : dH K s (.step t) = 0 := by simp [dH, ho]
  have g2 : dT K s (.step t) = 0 := by simp [dT, ho]
  rw [g1, g2]
  exact ⟨q', H, by simp [e2, pushed, popped, hf, hq], by simp [e2, popped, hf, hr]⟩

/-- local states outside push and pop calls -/
def neutral (l : L) : Bool := !isPushLoc l && !isPopLoc l

theorem neutral_facts {l : L} (h : neutral l = true) :
    pW l = 0 ∧ pRes l = 0 ∧ cTk l = 0 ∧ cRes l = 0 ∧ isPushLoc l = false ∧ isPopLoc l = false ∧
    (∀ K tA, PGood K tA l) ∧ (∀ K hA, CGood K hA l) := by
  cases l <;> simp [neutral, isPushLoc, isPopLoc] at h <;>
    simp [pW, pRes, cTk, cRes, isPushLoc, isPopLoc, PGood, CGood]

theorem Inv.locNeutral (hPC : P ≠ C) (inv : Inv P C K s hA tA q) (t : TId) (l' : (proto K).L)
    (hn : neutral (s.loc t) = true) (hn' : neutral l' = true) :
    Inv P C K (setLoc s t l') hA tA q := by
  obtain ⟨a1, a2, a3, a4, a5, a6, a7, a8⟩ := neutral_facts hn
  obtain ⟨b1, b2, b3, b4, b5, b6, b7, b8⟩ := neutral_facts hn'
  by_cases hP : t = P
  · subst hP
    have := inv.pres
    exact inv.locP hPC l' (b7 _ _) (by rw [b1, a1]) (by rw [b2]; rw [a2] at this; exact this)
      (by rw [b1, b2]; exact Nat.le_refl _) b6
  · by_cases hC : t = C
    · subst hC
      have := inv.cres
      exact inv.locC hPC l' (b8 _ _) (by rw [b3, a3]) (by rw [b4]; rw [a4] at this; exact this)
        (by rw [b3, b4]; exact Nat.le_refl _) b5
    · exact inv.locO t l' hP hC b5 b6

/-! #### producer steps -/

theorem headD_nonneg {vs : List Int} (h : ∀ v ∈ vs, 0 ≤ v) : 0 ≤ vs.headD 0 := by
  cases vs with
  | nil => simp
  | cons a as => simpa using h a (by simp)

theorem step_pLoadT (hPC : P ≠ C) (inv : Inv P C K s hA tA q) {v : Int}
    (hl : s.loc P = L.pLoadT v) : StepOKG P C K s (.step P) hA tA q := by
  have pg := inv.pg; have pres := inv.pres
  rw [hl] at pg pres; simp only [PGood, pRes] at pg pres
  apply stepOK_load inv P 1 (by rw [hl]; rfl)
  rw [hl]
  exact inv.locP hPC (L.pLoadH v (s.mem 1)) ⟨pg, inv.hT⟩ (by rw [hl]; rfl) pres
    (Nat.le_refl _) rfl

theorem step_pLoadH (hPC : P ≠ C) (inv : Inv P C K s hA tA q) {v t0 : Int}
    (hl : s.loc P = L.pLoadH v t0) : StepOKG P C K s (.step P) hA tA q := by
  have pg := inv.pg; have pres := inv.pres
  rw [hl] at pg pres; simp only [PGood, pRes] at pg pres
  apply stepOK_load inv P 0 (by rw [hl]; rfl)
  by_cases hc : inc K t0 = s.mem 0
  · have ec : cont K (s.loc P) (s.mem 0) = L.done [0] := by rw [hl]; exact if_pos hc
    rw [ec]
    exact inv.locP hPC (L.done [0]) trivial (by rw [hl]; rfl) pres (Nat.le_refl _) rfl
  · have ec : cont K (s.loc P) (s.mem 0) = L.pWrite v t0 := by rw [hl]; exact if_neg hc
    rw [ec]
    refine inv.locP hPC (L.pWrite v t0) pg (by rw [hl]; rfl) ?_ (Nat.zero_le _) rfl
    show tA + 1 + 1 ≤ hA + K
    rw [pg.2, inc_cast, inv.hH] at hc
    have : tA + 1 ≠ hA + K := by
      intro h; apply hc; rw [h, Nat.add_mod_right]
    omega

theorem step_pWrite (hPC : P ≠ C) (inv : Inv P C K s hA tA q) {v t0 : Int}
    (hl : s.loc P = L.pWrite v t0) : StepOKG P C K s (.step P) hA tA q := by
  have pg := inv.pg
  rw [hl] at pg; simp only [PGood] at pg
  have e : slot t0 = 2 + (tA + pW (s.loc P)) % K := by rw [hl, pg.2, slot_cast]; rfl
  apply stepOK_storeSlot inv P (slot t0) v (by rw [e]; omega) (by rw [hl]; rfl)
  have ec : cont K (s.loc P) 0 = L.pPub t0 := by rw [hl]; rfl
  rw [e, ec]
  exact inv.write hPC (L.pPub t0) v pg.1 (by rw [hl]; exact Nat.zero_lt_one) pg.2
    (by rw [hl]; rfl) (by rw [hl]; exact Nat.le_refl _) (Nat.le_refl _) rfl

theorem step_pPub (hPC : P ≠ C) (inv : Inv P C K s hA tA q) {t0 : Int}
    (hl : s.loc P = L.pPub t0) : StepOKG P C K s (.step P) hA tA q := by
  have pg := inv.pg
  rw [hl] at pg; simp only [PGood] at pg
  apply stepOK_storeIdx inv P 1 (inc K t0) (by omega) (by rw [hl]; rfl)
  rw [hl]
  have H := inv.pubTail hPC (L.done [1]) (inc K t0)
    (by rw [hl, pg, inc_cast]; rfl) trivial rfl rfl rfl
  rw [hl] at H
  exact H

theorem step_bLoadT (hPC : P ≠ C) (inv : Inv P C K s hA tA q) {vs : List Int}
    (hl : s.loc P = L.bLoadT vs) : StepOKG P C K s (.step P) hA tA q := by
  have pg := inv.pg; have pres := inv.pres
  rw [hl] at pg pres; simp only [PGood, pRes] at pg pres
  apply stepOK_load inv P 1 (by rw [hl]; rfl)
  rw [hl]
  exact inv.locP hPC (L.bLoadH vs (s.mem 1)) ⟨pg, inv.hT⟩ (by rw [hl]; rfl) pres
    (Nat.le_refl _) rfl

theorem step_bLoadH (hPC : P ≠ C) (inv : Inv P C K s hA tA q) {vs : List Int} {t0 : Int}
    (hl : s.loc P = L.bLoadH vs t0) : StepOKG P C K s (.step P) hA tA q := by
  have pg := inv.pg; have pres := inv.pres; have cres := inv.cres
  rw [hl] at pg pres; simp only [PGood, pRes] at pg pres
  apply stepOK_load inv P 0 (by rw [hl]; rfl)
  have ha : availPush K t0 (s.mem 0) = hA + K - 1 - tA := by
    rw [pg.2, inv.hH]; exact availPush_cast (by omega) (by omega)
  by_cases hc : availPush K t0 (s.mem 0) = 0 ∨ vs = []
  · have ec : cont K (s.loc P) (s.mem 0) = L.done [0] := by rw [hl]; exact if_pos hc
    rw [ec]
    exact inv.locP hPC (L.done [0]) trivial (by rw [hl]; rfl) pres (Nat.le_refl _) rfl
  · have ec : cont K (s.loc P) (s.mem 0) = L.bWrite vs t0 0 (availPush K t0 (s.mem 0)) := by
      rw [hl]; exact if_neg hc
    rw [ec]
    have hc1 : availPush K t0 (s.mem 0) ≠ 0 := fun h => hc (Or.inl h)
    have hc2 : vs ≠ [] := fun h => hc (Or.inr h)
    refine inv.locP hPC (L.bWrite vs t0 0 _) ⟨pg.1, hc2, pg.2, Nat.pos_of_ne_zero hc1⟩
      (by rw [hl]; rfl) ?_ (Nat.zero_le _) rfl
    show tA + availPush K t0 (s.mem 0) + 1 ≤ hA + K
    omega

theorem step_bWrite (hPC : P ≠ C) (inv : Inv P C K s hA tA q) {vs : List Int} {pos : Int}
    {c a : Nat} (hl : s.loc P = L.bWrite vs pos c a) : StepOKG P C K s (.step P) hA tA q := by
  have pg := inv.pg
  rw [hl] at pg; simp only [PGood] at pg
  obtain ⟨pg1, pg2, pg3, pg4⟩ := pg
  have e : slot pos = 2 + (tA + pW (s.loc P)) % K := by rw [hl, pg3, slot_cast]; rfl
  apply stepOK_storeSlot inv P (slot pos) (vs.headD 0) (by rw [e]; omega) (by rw [hl]; rfl)
  rw [e]
  have hpos : inc K pos = (((tA + (c + 1)) % K : Nat) : Int) := by rw [pg3, inc_cast]; rfl
  by_cases hc : vs.tail ≠ [] ∧ c + 1 < a
  · have ec : cont K (s.loc P) 0 = L.bWrite vs.tail (inc K pos) (c + 1) a := by
      rw [hl]; exact if_pos hc
    rw [ec]
    exact inv.write hPC (L.bWrite vs.tail (inc K pos) (c + 1) a) _ (headD_nonneg pg1)
      (by rw [hl]; exact pg4)
      ⟨fun v hv => pg1 v (List.mem_of_mem_tail hv), hc.1, hpos, hc.2⟩
      (by rw [hl]; rfl) (by rw [hl]; exact Nat.le_refl _) (Nat.le_of_lt hc.2) rfl
  · have ec : cont K (s.loc P) 0 = L.bPub (inc K pos) (c + 1) := by
      rw [hl]; exact if_neg hc
    rw [ec]
    exact inv.write hPC (L.bPub (inc K pos) (c + 1)) _ (headD_nonneg pg1)
      (by rw [hl]; exact pg4) hpos
      (by rw [hl]; rfl) (by rw [hl]; exact pg4) (Nat.le_refl _) rfl

theorem step_bPub (hPC : P ≠ C) (inv : Inv P C K s hA tA q) {pos : Int} {c : Nat}
    (hl : s.loc P = L.bPub pos c) : StepOKG P C K s (.step P) hA tA q := by
  have pg := inv.pg
  rw [hl] at pg; simp only [PGood] at pg
  apply stepOK_storeIdx inv P 1 pos (by omega) (by rw [hl]; rfl)
  rw [hl]
  have H := inv.pubTail hPC (L.done [(c : Int)]) pos
    (by rw [hl, pg]; rfl) trivial rfl rfl rfl
  rw [hl] at H
  exact H

/-! #### consumer steps -/

theorem step_cLoadH (hPC : P ≠ C) (inv : Inv P C K s hA tA q)
    (hl : s.loc C = L.cLoadH) : StepOKG P C K s (.step C) hA tA q := by
  have cres := inv.cres
  rw [hl] at cres; simp only [cRes] at cres
  apply stepOK_load inv C 0 (by rw [hl]; rfl)
  rw [hl]
  exact inv.locC hPC (L.cLoadT (s.mem 0)) inv.hH (by rw [hl]; rfl) cres (Nat.le_refl _) rfl

theorem step_cLoadT (hPC : P ≠ C) (inv : Inv P C K s hA tA q) {h : Int}
    (hl : s.loc C = L.cLoadT h) : StepOKG P C K s (.step C) hA tA q := by
  have cg := inv.cg; have cres := inv.cres
  rw [hl] at cg cres; simp only [CGood, cRes] at cg cres
  apply stepOK_load inv C 1 (by rw [hl]; rfl)
  by_cases hc : h = s.mem 1
  · have ec : cont K (s.loc C) (s.mem 1) = L.done [0] := by rw [hl]; exact if_pos hc
    rw [ec]
    exact inv.locC hPC (L.done [0]) trivial (by rw [hl]; rfl) cres (Nat.le_refl _) rfl
  · have ec : cont K (s.loc C) (s.mem 1) = L.cTake h := by rw [hl]; exact if_neg hc
    rw [ec]
    refine inv.locC hPC (L.cTake h) cg (by rw [hl]; rfl) ?_ (Nat.zero_le _) rfl
    show hA + 1 ≤ tA
    rw [cg, inv.hT] at hc
    have : hA ≠ tA := by
      intro e; apply hc; rw [e]
    omega

theorem step_cTake (hPC : P ≠ C) (inv : Inv P C K s hA tA q) {h : Int}
    (hl : s.loc C = L.cTake h) : StepOKG P C K s (.step C) hA tA q := by
  have cg := inv.cg
  rw [hl] at cg; simp only [CGood] at cg
  have e : slot h = 2 + (hA + cTk (s.loc C)) % K := by rw [hl, cg, slot_cast]; rfl
  apply stepOK_xchgSlot inv C (slot h) movedFrom (by rw [e]; omega) (by rw [hl]; rfl)
  have ec : ∀ r, cont K (s.loc C) r = L.cPub h r := by intro r; rw [hl]; rfl
  rw [e, ec]
  exact inv.take hPC (L.cPub h _) movedFrom (by rw [hl]; exact Nat.zero_lt_one) cg
    (by rw [hl]; rfl) (by rw [hl]; exact Nat.le_refl _) (Nat.le_refl _) rfl

theorem step_cPub (hPC : P ≠ C) (inv : Inv P C K s hA tA q) {h v : Int}
    (hl : s.loc C = L.cPub h v) : StepOKG P C K s (.step C) hA tA q := by
  have cg := inv.cg
  rw [hl] at cg; simp only [CGood] at cg
  apply stepOK_storeIdx inv C 0 (inc K h) (by omega) (by rw [hl]; rfl)
  rw [hl]
  have H := inv.pubHead hPC (L.done [1, v]) (inc K h)
    (by rw [hl, cg, inc_cast]; rfl) trivial rfl rfl rfl
  rw [hl] at H
  exact H

theorem step_qLoadH (hPC : P ≠ C) (inv : Inv P C K s hA tA q) {m : Nat}
    (hl : s.loc C = L.qLoadH m) : StepOKG P C K s (.step C) hA tA q := by
  have cres := inv.cres
  rw [hl] at cres; simp only [cRes] at cres
  apply stepOK_load inv C 0 (by rw [hl]; rfl)
  rw [hl]
  exact inv.locC hPC (L.qLoadT m (s.mem 0)) inv.hH (by rw [hl]; rfl) cres (Nat.le_refl _) rfl

theorem step_qLoadT (hPC : P ≠ C) (inv : Inv P C K s hA tA q) {m : Nat} {h : Int}
    (hl : s.loc C = L.qLoadT m h) : StepOKG P C K s (.step C) hA tA q := by
  have cg := inv.cg; have cres := inv.cres; have pres := inv.pres
  rw [hl] at cg cres; simp only [CGood, cRes] at cg cres
  apply stepOK_load inv C 1 (by rw [hl]; rfl)
  have ha : availPop K (s.mem 1) h = tA - hA := by
    rw [cg, inv.hT]; exact availPop_cast (by omega) (by omega)
  by_cases hc : availPop K (s.mem 1) h = 0 ∨ m = 0
  · have ec : cont K (s.loc C) (s.mem 1) = L.done [0] := by rw [hl]; exact if_pos hc
    rw [ec]
    exact inv.locC hPC (L.done [0]) trivial (by rw [hl]; rfl) cres (Nat.le_refl _) rfl
  · have ec : cont K (s.loc C) (s.mem 1) = L.qTake h (min (availPop K (s.mem 1) h) m) [] := by
      rw [hl]; exact if_neg hc
    rw [ec]
    have hc1 : availPop K (s.mem 1) h ≠ 0 := fun h => hc (Or.inl h)
    have hc2 : m ≠ 0 := fun h => hc (Or.inr h)
    refine inv.locC hPC (L.qTake h _ []) ⟨cg, ?_⟩ (by rw [hl]; rfl) ?_ (Nat.zero_le _) rfl
    · omega
    · show hA + (0 + min (availPop K (s.mem 1) h) m) ≤ tA
      omega

theorem step_qTake (hPC : P ≠ C) (inv : Inv P C K s hA tA q) {pos : Int} {left : Nat}
    {acc : List Int} (hl : s.loc C = L.qTake pos left acc) : StepOKG P C K s (.step C) hA tA q := by
  have cg := inv.cg
  rw [hl] at cg; simp only [CGood] at cg
  obtain ⟨cg1, cg2⟩ := cg
  have e : slot pos = 2 + (hA + cTk (s.loc C)) % K := by rw [hl, cg1, slot_cast]; rfl
  apply stepOK_xchgSlot inv C (slot pos) movedFrom (by rw [e]; omega) (by rw [hl]; rfl)
  have hpos : inc K pos = (((hA + (acc.length + 1)) % K : Nat) : Int) := by
    rw [cg1, inc_cast]; rfl
  rw [e]
  by_cases hc : left ≤ 1
  · have ec : ∀ r, cont K (s.loc C) r = L.qPub (inc K pos) (acc ++ [r]) := by
      intro r; rw [hl]; exact if_pos hc
    rw [ec]
    exact inv.take hPC (L.qPub (inc K pos) (acc ++ [_])) movedFrom
      (by rw [hl]; show acc.length < acc.length + left; omega)
      (by show inc K pos = _; rw [hpos]; simp)
      (by rw [hl]; show (acc ++ [_]).length = acc.length + 1; simp)
      (by rw [hl]; show (acc ++ [_]).length ≤ acc.length + left; simp; omega)
      (Nat.le_refl _) rfl
  · have ec : ∀ r, cont K (s.loc C) r = L.qTake (inc K pos) (left - 1) (acc ++ [r]) := by
      intro r; rw [hl]; exact if_neg hc
    rw [ec]
    exact inv.take hPC (L.qTake (inc K pos) (left - 1) (acc ++ [_])) movedFrom
      (by rw [hl]; show acc.length < acc.length + left; omega)
      ⟨by show inc K pos = _; rw [hpos]; simp, by omega⟩
      (by rw [hl]; show (acc ++ [_]).length = acc.length + 1; simp)
      (by rw [hl]; show (acc ++ [_]).length + (left - 1) ≤ acc.length + left; simp; omega)
      (by show (acc ++ [_]).length ≤ (acc ++ [_]).length + (left - 1); omega) rfl

theorem step_qPub (hPC : P ≠ C) (inv : Inv P C K s hA tA q) {pos : Int} {acc : List Int}
    (hl : s.loc C = L.qPub pos acc) : StepOKG P C K s (.step C) hA tA q := by
  have cg := inv.cg
  rw [hl] at cg; simp only [CGood] at cg
  apply stepOK_storeIdx inv C 0 pos (by omega) (by rw [hl]; rfl)
  rw [hl]
  have H := inv.pubHead hPC (L.done ((acc.length : Int) :: acc)) pos
    (by rw [hl, cg]; rfl) trivial rfl rfl rfl
  rw [hl] at H
  exact H

/-! #### the other actions, and the dispatcher -/

theorem op_ne_fwake (l : L) (f : Fld) (n : Nat) : op K l ≠ some (.fwake f n) := by
  cases l <;> simp [op]

theorem op_none {l : L} (h : op K l = none) : neutral l = true := by
  cases l <;> simp [op] at h <;> rfl

theorem entry_facts {l : L} (h : isEntry l = true) (K hA tA : Nat) :
    pW l = 0 ∧ pRes l = 0 ∧ cTk l = 0 ∧ cRes l = 0 ∧ isPushLoc l = isPushCall l ∧
    isPopLoc l = isPopCall l ∧ PGood K tA l ∧ CGood K hA l := by
  cases l <;> simp [isEntry] at h <;>
    simp [pW, pRes, cTk, cRes, isPushLoc, isPopLoc, isPushCall, isPopCall, PGood, CGood, h]
  exact h

theorem Inv.threads (inv : Inv P C K s hA tA q) (ts : List TId) :
    Inv P C K { s with threads := ts } hA tA q :=
  ⟨inv.hH, inv.hT, inv.cnt, inv.pres, inv.cres, inv.pw, inv.ck, inv.memq, inv.qpos, inv.park,
    inv.roleP, inv.roleC, inv.pg, inv.cg⟩

theorem step_call (hPC : P ≠ C) (inv : Inv P C K s hA tA q) (t : TId) (l : (proto K).L)
    (hrole : (isPushCall l = true → t = P) ∧ (isPopCall l = true → t = C)) :
    StepOKG P C K s (.call t l) hA tA q := by
  intro s' he
  simp only [exec] at he
  split at he
  · rename_i hc
    obtain ⟨-, hop, hent⟩ := hc
    cases he
    refine ⟨q, ?_, by simp [evl, evOf, pushed, popped], by simp [evl, evOf, popped]⟩
    show Inv P C K _ hA tA q
    apply Inv.threads
    have hn : neutral (s.loc t) = true := op_none hop
    have hent' : isEntry l = true := by
      have : (idleOrDone (s.loc t) && isEntry l) = true := hent
      simp at this; exact this.2
    obtain ⟨b1, b2, b3, b4, b5, b6, b7, b8⟩ := entry_facts hent' K hA tA
    obtain ⟨a1, a2, a3, a4, -, -, -, -⟩ := neutral_facts hn
    by_cases hP : t = P
    · subst hP
      have := inv.pres
      refine inv.locP hPC l b7 (by rw [b1, a1]) (by rw [b2]; rw [a2] at this; exact this)
        (by rw [b1, b2]; exact Nat.le_refl _) ?_
      rw [b6]
      cases h : isPopCall l
      · rfl
      · exact absurd (hrole.2 h) hPC
    · by_cases hC : t = C
      · subst hC
        have := inv.cres
        refine inv.locC hPC l b8 (by rw [b3, a3]) (by rw [b4]; rw [a4] at this; exact this)
          (by rw [b3, b4]; exact Nat.le_refl _) ?_
        rw [b5]
        cases h : isPushCall l
        · rfl
        · exact absurd (hrole.1 h) hP
      · refine inv.locO t l hP hC ?_ ?_
        · rw [b5]
          cases h : isPushCall l
          · rfl
          · exact absurd (hrole.1 h) hP
        · rw [b6]
          cases h : isPopCall l
          · rfl
          · exact absurd (hrole.2 h) hC
  · cases he

theorem step_step (hPC : P ≠ C) (inv : Inv P C K s hA tA q) (t : TId) :
    StepOKG P C K s (.step t) hA tA q := by
  have hpush : isPushLoc (s.loc t) = true → t = P := by
    intro h; apply Classical.byContradiction; intro hne
    have := inv.roleP t hne; rw [h] at this; cases this
  have hpop : isPopLoc (s.loc t) = true → t = C := by
    intro h; apply Classical.byContradiction; intro hne
    have := inv.roleC t hne; rw [h] at this; cases this
  cases hl : s.loc t with
  | idle => intro s' he; simp [exec, hl, proto, op] at he
  | done r => intro s' he; simp [exec, hl, proto, op] at he
  | pLoadT v => obtain rfl := hpush (by rw [hl]; rfl); exact step_pLoadT hPC inv hl
  | pLoadH v t0 => obtain rfl := hpush (by rw [hl]; rfl); exact step_pLoadH hPC inv hl
  | pWrite v t0 => obtain rfl := hpush (by rw [hl]; rfl); exact step_pWrite hPC inv hl
  | pPub t0 => obtain rfl := hpush (by rw [hl]; rfl); exact step_pPub hPC inv hl
  | bLoadT vs => obtain rfl := hpush (by rw [hl]; rfl); exact step_bLoadT hPC inv hl
  | bLoadH vs t0 => obtain rfl := hpush (by rw [hl]; rfl); exact step_bLoadH hPC inv hl
  | bWrite vs pos c a => obtain rfl := hpush (by rw [hl]; rfl); exact step_bWrite hPC inv hl
  | bPub pos c => obtain rfl := hpush (by rw [hl]; rfl); exact step_bPub hPC inv hl
  | cLoadH => obtain rfl := hpop (by rw [hl]; rfl); exact step_cLoadH hPC inv hl
  | cLoadT h => obtain rfl := hpop (by rw [hl]; rfl); exact step_cLoadT hPC inv hl
  | cTake h => obtain rfl := hpop (by rw [hl]; rfl); exact step_cTake hPC inv hl
  | cPub h v => obtain rfl := hpop (by rw [hl]; rfl); exact step_cPub hPC inv hl
  | qLoadH m => obtain rfl := hpop (by rw [hl]; rfl); exact step_qLoadH hPC inv hl
  | qLoadT m h => obtain rfl := hpop (by rw [hl]; rfl); exact step_qLoadT hPC inv hl
  | qTake pos left acc => obtain rfl := hpop (by rw [hl]; rfl); exact step_qTake hPC inv hl
  | qPub pos acc => obtain rfl := hpop (by rw [hl]; rfl); exact step_qPub hPC inv hl
  | eLoadH =>
    exact stepOK_load inv t 0 (by rw [hl]; rfl)
      (inv.locNeutral hPC t _ (by rw [hl]; rfl) (by rw [hl]; rfl))
  | eLoadT h =>
    exact stepOK_load inv t 1 (by rw [hl]; rfl)
      (inv.locNeutral hPC t _ (by rw [hl]; rfl) (by rw [hl]; rfl))
  | fLoadT =>
    exact stepOK_load inv t 1 (by rw [hl]; rfl)
      (inv.locNeutral hPC t _ (by rw [hl]; rfl) (by rw [hl]; rfl))
  | fLoadH t0 =>
    exact stepOK_load inv t 0 (by rw [hl]; rfl)
      (inv.locNeutral hPC t _ (by rw [hl]; rfl) (by rw [hl]; rfl))
  | sLoadH =>
    exact stepOK_load inv t 0 (by rw [hl]; rfl)
      (inv.locNeutral hPC t _ (by rw [hl]; rfl) (by rw [hl]; rfl))
  | sLoadT h =>
    exact stepOK_load inv t 1 (by rw [hl]; rfl)
      (inv.locNeutral hPC t _ (by rw [hl]; rfl) (by rw [hl]; rfl))
  | dLoadH =>
    exact stepOK_load inv t 0 (by rw [hl]; rfl)
      (inv.locNeutral hPC t _ (by rw [hl]; rfl) (by rw [hl]; rfl))
  | dLoadT =>
    exact stepOK_load inv t 1 (by rw [hl]; rfl)
      (inv.locNeutral hPC t _ (by rw [hl]; rfl) (by rw [hl]; rfl))

/-- every enabled action that respects the roles preserves the invariant -/
theorem step_invG (hPC : P ≠ C) (inv : Inv P C K s hA tA q) (a : Act (proto K))
    (hrole : RoleAct P C a) : StepOKG P C K s a hA tA q := by
  cases a with
  | step t => exact step_step hPC inv t
  | call t l => exact step_call hPC inv t l (hrole t l rfl)
  | wake t ws =>
    intro s' he
    simp only [exec] at he
    split at he
    · cases he
    · split at he
      · rename_i f n ho
        exact absurd ho (op_ne_fwake _ f n)
      · cases he
  | timeout t =>
    intro s' he
    simp [exec, inv.park t] at he
  | spurious t =>
    intro s' he
    simp [exec, inv.park t] at he

theorem step_inv (hPC : P ≠ C) (inv : Inv P C K s hA tA q) (a : Act (proto K))
    (hrole : RoleAct P C a) : StepOK P C K s a q :=
  (step_invG hPC inv a hrole).toStepOK

/-! ### histories along a run -/

theorem pushed_append (a b : List Ev) : pushed (a ++ b) = pushed a ++ pushed b := by
  simp [pushed, List.filterMap_append]

theorem popped_append (a b : List Ev) : popped (a ++ b) = popped a ++ popped b := by
  simp [popped, List.filterMap_append]

theorem runEvs_cons (s : State (proto K)) (a : Act (proto K)) (as : List (Act (proto K))) :
    runEvs s (a :: as) = match exec s a with
      | some s' => match runEvs s' as with
        | some (sf, evs) => some (sf, evl s a ++ evs)
        | none => none
      | none => none := by
  simp only [runEvs, evl]
  cases exec s a with
  | none => rfl
  | some s1 =>
    simp only
    cases runEvs s1 as with
    | none => rfl
    | some p => rfl

/-- generalised history lemma: from any state satisfying the invariant with pending queue `q`,
a role-respecting run ends in a state satisfying the invariant with some pending queue `q'`,
and `q ++ pushed = popped ++ q'`. -/
theorem run_inv (hPC : P ≠ C) (as : List (Act (proto K))) :
    ∀ (s : State (proto K)) (hA tA : Nat) (q : List Int), Inv P C K s hA tA q → Roles P C as →
    ∀ s' evs, runEvs s as = some (s', evs) →
    ∃ hA' tA' q', Inv P C K s' hA' tA' q' ∧ q ++ pushed evs = popped evs ++ q' ∧
      ∀ v ∈ popped evs, 0 ≤ v := by
  induction as with
  | nil =>
    intro s hA tA q inv _ s' evs h
    simp only [runEvs, Option.some.injEq, Prod.mk.injEq] at h
    obtain ⟨rfl, rfl⟩ := h
    exact ⟨hA, tA, q, inv, by simp [pushed, popped], by simp [popped]⟩
  | cons a as ih =>
    intro s hA tA q inv hr s' evs h
    rw [runEvs_cons] at h
    split at h
    · rename_i s1 he
      split at h
      · rename_i sf evs1 hrun
        simp only [Option.some.injEq, Prod.mk.injEq] at h
        obtain ⟨rfl, rfl⟩ := h
        obtain ⟨hA1, tA1, q1, inv1, hq1, hp1⟩ :=
          step_inv hPC inv a (fun t l e => hr a (List.mem_cons_self) t l e) s1 he
        obtain ⟨hA2, tA2, q2, inv2, hq2, hp2⟩ :=
          ih s1 hA1 tA1 q1 inv1 (fun b hb => hr b (List.mem_cons_of_mem _ hb)) _ _ hrun
        refine ⟨hA2, tA2, q2, inv2, ?_, ?_⟩
        · rw [pushed_append, popped_append, ← List.append_assoc, hq1, List.append_assoc, hq2,
            List.append_assoc]
        · intro v hv
          rw [popped_append] at hv
          rcases List.mem_append.1 hv with h | h
          · exact hp1 v h
          · exact hp2 v h
      · cases h
    · cases h

/-! ### role-free facts: the indices stay in range whatever the threads do -/

def locOK (K : Nat) : L → Prop
  | .bPub pos _ => 0 ≤ pos ∧ pos < K
  | .qPub pos _ => 0 ≤ pos ∧ pos < K
  | _ => True

structure Inv0 (K : Nat) (s : State (proto K)) : Prop where
  h0 : 0 ≤ s.mem 0 ∧ s.mem 0 < K
  h1 : 0 ≤ s.mem 1 ∧ s.mem 1 < K
  park : ∀ t, s.parked t = none
  lok : ∀ t, locOK K (s.loc t)

theorem inc_range (hK : 1 ≤ K) (i : Int) : 0 ≤ inc K i ∧ inc K i < K := by
  unfold inc
  exact ⟨Int.emod_nonneg _ (by omega), Int.emod_lt_of_pos _ (by omega)⟩

theorem locOK_cont (hK : 1 ≤ K) (l : L) (r : Int) : locOK K (cont K l r) := by
  cases l <;> simp only [cont] <;> (try split) <;> simp only [locOK] <;>
    first | trivial | exact inc_range hK _

theorem Inv0.setLoc {s : State (proto K)} (inv : Inv0 K s) (t : TId) (l' : (proto K).L)
    (h : locOK K l') : Inv0 K (setLoc s t l') := by
  refine ⟨inv.h0, inv.h1, inv.park, ?_⟩
  intro u
  by_cases hu : u = t
  · subst hu; simpa using h
  · simpa [hu] using inv.lok u

theorem Inv0.setMem {s : State (proto K)} (inv : Inv0 K s) (f : Nat) (v : Int)
    (h : f < 2 → 0 ≤ v ∧ v < K) : Inv0 K (setMem s f v) := by
  refine ⟨?_, ?_, inv.park, inv.lok⟩
  · by_cases hf : f = 0
    · subst hf; simpa using h (by omega)
    · have : ¬ (0 = f) := fun e => hf e.symm
      simpa [this] using inv.h0
  · by_cases hf : f = 1
    · subst hf; simpa using h (by omega)
    · have : ¬ (1 = f) := fun e => hf e.symm
      simpa [this] using inv.h1

theorem op_store_ok (hK : 1 ≤ K) {l : L} (hl : locOK K l) {f : Nat} {v : Int}
    (ho : op K l = some (.store f v)) : f < 2 → 0 ≤ v ∧ v < K := by
  cases l <;> simp [op] at ho
  all_goals obtain ⟨rfl, rfl⟩ := ho
  all_goals intro hf
  all_goals first
    | exact inc_range hK _
    | exact hl
    | (simp [slot] at hf; done)
    | (exfalso; simp [slot] at hf; omega)

theorem op_xchg_ok {l : L} {f : Nat} {v : Int}
    (ho : op K l = some (.xchg f v)) : 2 ≤ f := by
  cases l <;> simp [op] at ho
  all_goals obtain ⟨rfl, rfl⟩ := ho
  all_goals simp [slot]

theorem op_kinds (l : L) : op K l = none ∨ (∃ f, op K l = some (.load f)) ∨
    (∃ f v, op K l = some (.store f v)) ∨ (∃ f v, op K l = some (.xchg f v)) := by
  cases l <;> simp [op]

theorem Inv0.step (hK : 1 ≤ K) {s s' : State (proto K)} (inv : Inv0 K s) (a : Act (proto K))
    (he : exec s a = some s') : Inv0 K s' := by
  cases a with
  | step t =>
    rcases op_kinds (K := K) (s.loc t) with ho | ⟨f, ho⟩ | ⟨f, v, ho⟩ | ⟨f, v, ho⟩
    · have ho' : (proto K).op (s.loc t) = none := ho
      simp [exec, ho'] at he
    · rw [(exec_step_load s t f (inv.park t) ho).1] at he; cases he
      exact inv.setLoc t _ (locOK_cont hK _ _)
    · rw [(exec_step_store s t f v (inv.park t) ho).1] at he; cases he
      exact (inv.setMem f v (op_store_ok hK (inv.lok t) ho)).setLoc t _ (locOK_cont hK _ _)
    · rw [(exec_step_xchg s t f v (inv.park t) ho).1] at he; cases he
      have := op_xchg_ok ho
      exact (inv.setMem f v (by omega)).setLoc t _ (locOK_cont hK _ _)
  | call t l =>
    simp only [exec] at he
    split at he
    · rename_i hc
      cases he
      have hent : isEntry l = true := by
        have : (idleOrDone (s.loc t) && isEntry l) = true := hc.2.2
        simp at this; exact this.2
      have hl : locOK K l := by
        cases l <;> simp [isEntry] at hent <;> trivial
      have := inv.setLoc t l hl
      exact ⟨this.h0, this.h1, this.park, this.lok⟩
    · cases he
  | wake t ws =>
    simp only [exec] at he
    split at he
    · cases he
    · split at he
      · rename_i f n ho
        exact absurd ho (op_ne_fwake _ f n)
      · cases he
  | timeout t => simp [exec, inv.park t] at he
  | spurious t => simp [exec, inv.park t] at he

theorem Inv0.init (hK : 1 ≤ K) : Inv0 K (init K) := by
  refine ⟨?_, ?_, ?_, ?_⟩ <;> simp [Spsc.init, initState, locOK] <;> omega

end Dispenso.Spsc
