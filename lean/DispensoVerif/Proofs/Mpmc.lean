import DispensoVerif.Model.Mpmc
import Mathlib.Tactic.Linarith
import Mathlib.Tactic.SplitIfs

/-!
Helper lemmas for C34 (`MpmcRingBuffer`): the per-position life-cycle invariant of the Vyukov
ring and its preservation by every atomic step of the model.
-/
namespace Dispenso.Mpmc
open Dispenso.Conc

/-! ### slot arithmetic -/

theorem wrap_inj {K : Nat} (hK : 1 ≤ K) {p q : Int} (h : wrapIdx K p = wrapIdx K q)
    (hpq : p - q < K) (hqp : q - p < K) : p = q := by
  unfold wrapIdx at h
  have hK0 : (K : Int) ≠ 0 := by omega
  have hp := Int.emod_nonneg p hK0
  have hq := Int.emod_nonneg q hK0
  have e : p % (K : Int) = q % (K : Int) := by omega
  rw [Int.emod_eq_emod_iff_emod_sub_eq_zero] at e
  obtain ⟨c, hc⟩ := Int.dvd_of_emod_eq_zero e
  have : c = 0 := by
    rcases Int.lt_trichotomy c 0 with h | h | h
    · have : (K : Int) * c ≤ (K : Int) * (-1) :=
        Int.mul_le_mul_of_nonneg_left (by omega) (by omega)
      omega
    · exact h
    · have : (K : Int) * 1 ≤ (K : Int) * c :=
        Int.mul_le_mul_of_nonneg_left (by omega) (by omega)
      omega
  subst this
  omega

@[simp] theorem wrap_add_K (K : Nat) (p : Int) : wrapIdx K (p + K) = wrapIdx K p := by
  simp [wrapIdx]
@[simp] theorem wrap_sub_K (K : Nat) (p : Int) : wrapIdx K (p - K) = wrapIdx K p := by
  simp [wrapIdx]

@[simp] theorem seqF_ne_zero (K p) : seqF K p ≠ 0 := by
  show (2 + 2 * wrapIdx K p : Nat) ≠ 0; omega
@[simp] theorem seqF_ne_one (K p) : seqF K p ≠ 1 := by
  show (2 + 2 * wrapIdx K p : Nat) ≠ 1; omega
@[simp] theorem dataF_ne_zero (K p) : dataF K p ≠ 0 := by
  show (3 + 2 * wrapIdx K p : Nat) ≠ 0; omega
@[simp] theorem dataF_ne_one (K p) : dataF K p ≠ 1 := by
  show (3 + 2 * wrapIdx K p : Nat) ≠ 1; omega
@[simp] theorem zero_ne_seqF (K p) : 0 ≠ seqF K p := fun h => seqF_ne_zero K p h.symm
@[simp] theorem one_ne_seqF (K p) : 1 ≠ seqF K p := fun h => seqF_ne_one K p h.symm
@[simp] theorem zero_ne_dataF (K p) : 0 ≠ dataF K p := fun h => dataF_ne_zero K p h.symm
@[simp] theorem one_ne_dataF (K p) : 1 ≠ dataF K p := fun h => dataF_ne_one K p h.symm
@[simp] theorem seqF_ne_dataF (K p q) : seqF K p ≠ dataF K q := by
  show (2 + 2 * wrapIdx K p : Nat) ≠ 3 + 2 * wrapIdx K q; omega
@[simp] theorem dataF_ne_seqF (K p q) : dataF K p ≠ seqF K q := fun h => seqF_ne_dataF K q p h.symm
@[simp] theorem seqF_eq_iff (K p q) : seqF K p = seqF K q ↔ wrapIdx K p = wrapIdx K q := by
  show (2 + 2 * wrapIdx K p : Nat) = 2 + 2 * wrapIdx K q ↔ _; omega
@[simp] theorem dataF_eq_iff (K p q) : dataF K p = dataF K q ↔ wrapIdx K p = wrapIdx K q := by
  show (3 + 2 * wrapIdx K p : Nat) = 3 + 2 * wrapIdx K q ↔ _; omega

/-- memory update, exactly the function `Conc.setMem` builds -/
def updM (mem : Fld → Int) (f : Fld) (v : Int) : Fld → Int := fun g => if g = f then v else mem g

/-- local-state update, exactly the function `Conc.setLoc` builds -/
def updL (loc : TId → L) (t : TId) (l : L) : TId → L := fun u => if u = t then l else loc u

@[simp] theorem updM_same (mem f v) : updM mem f v f = v := by simp [updM]
theorem updM_ne {mem f v g} (h : g ≠ f) : updM mem f v g = mem g := by simp [updM, h]
@[simp] theorem updL_same (loc t l) : updL loc t l t = l := by simp [updL]
theorem updL_ne {loc t l u} (h : u ≠ t) : updL loc t l u = loc u := by simp [updL, h]

/-! ### ownership of positions by local states -/

/-- the thread has won the tail CAS for position `p` and not yet published it -/
def ownsPush : L → Int → Prop
  | .eWrite _ t, p => p = t
  | .ePub t, p => p = t
  | .bWrite _ t i a, p => t + i ≤ p ∧ p < t + a
  | .bPub _ t i a, p => t + i ≤ p ∧ p < t + a
  | _, _ => False

/-- the thread has won the head CAS for position `p` and not yet released the slot -/
def ownsPop : L → Int → Prop
  | .oTake h, p => p = h
  | .oPub h _, p => p = h
  | _, _ => False

def vsOK (K : Nat) (vs : List Int) : Prop := (∀ v ∈ vs, 0 ≤ v) ∧ 0 < vs.length ∧ vs.length ≤ K

/-- what a thread in local state `l` knows about shared memory -/
def locInv (K : Nat) (mem : Fld → Int) : L → Prop
  | .eLoadT v => 0 ≤ v
  | .eLoadSeq v t => 0 ≤ v ∧ t ≤ mem 1
  | .eCas v t => 0 ≤ v ∧ t ≤ mem 1 ∧ (mem 1 = t → mem (seqF K t) = t)
  | .eWrite v _ => 0 ≤ v
  | .ePub t => 0 ≤ mem (dataF K t)
  | .oLoadT h => h ≤ mem 0
  | .oLoadSeq h => h ≤ mem 0
  | .oCas h => h ≤ mem 0 ∧ (mem 0 = h → mem (seqF K h) = h + 1)
  | .oTake h => 0 ≤ mem (dataF K h)
  | .oPub h v => mem (dataF K h) = -1 ∧ 0 ≤ v
  | .bLoadT vs => vsOK K vs
  | .bSeq vs t i => vsOK K vs ∧ i < vs.length ∧ t ≤ mem 1 ∧
      (mem 1 = t → ∀ p, t ≤ p → p < t + i → mem (seqF K p) = p)
  | .bCas vs t a => vsOK K vs ∧ 0 < a ∧ a ≤ vs.length ∧ t ≤ mem 1 ∧
      (mem 1 = t → ∀ p, t ≤ p → p < t + a → mem (seqF K p) = p)
  | .bWrite vs _ i a => vsOK K vs ∧ i < a ∧ a ≤ vs.length
  | .bPub vs t i a => vsOK K vs ∧ i < a ∧ a ≤ vs.length ∧ 0 ≤ mem (dataF K (t + i))
  | _ => True

/-! ### the position life-cycle invariant, abstract in the ownership relations -/

structure Core (K : Nat) (mem : Fld → Int) (OP OQ : TId → Int → Prop) : Prop where
  bnd : 0 ≤ mem 0 ∧ mem 0 ≤ mem 1 ∧ mem 1 ≤ mem 0 + K
  /-- slots never claimed yet -/
  neg : ∀ p, mem 1 - K ≤ p → p < 0 → mem (seqF K p) = p + K ∧ mem (dataF K p) = -1
  /-- claimed by a push, not yet by a pop: Writing or Full -/
  live : ∀ p, mem 0 ≤ p → p < mem 1 →
    mem (seqF K p) = p ∨ (mem (seqF K p) = p + 1 ∧ 0 ≤ mem (dataF K p))
  /-- claimed by a pop, slot not yet claimed again: Reading or Ready for `p + K` -/
  old : ∀ p, mem 1 - K ≤ p → 0 ≤ p → p < mem 0 →
    mem (seqF K p) = p + 1 ∨ (mem (seqF K p) = p + K ∧ mem (dataF K p) = -1)
  opush : ∀ t p, OP t p → mem 0 ≤ p ∧ p < mem 1 ∧ mem (seqF K p) = p
  opop : ∀ t p, OQ t p → mem 1 - K ≤ p ∧ 0 ≤ p ∧ p < mem 0 ∧ mem (seqF K p) = p + 1
  upush : ∀ t u p, OP t p → OP u p → t = u
  upop : ∀ t u p, OQ t p → OQ u p → t = u
  epush : ∀ p, mem 0 ≤ p → p < mem 1 → mem (seqF K p) = p → ∃ t, OP t p
  epop : ∀ p, mem 1 - K ≤ p → 0 ≤ p → p < mem 0 → mem (seqF K p) = p + 1 → ∃ t, OQ t p

section core
variable {K : Nat} {mem mem' : Fld → Int} {OP OQ OP' OQ' : TId → Int → Prop}

theorem Core.congr (c : Core K mem OP OQ) (h1 : ∀ u p, OP' u p ↔ OP u p)
    (h2 : ∀ u p, OQ' u p ↔ OQ u p) : Core K mem OP' OQ' := by
  have e1 : OP' = OP := by funext u p; exact propext (h1 u p)
  have e2 : OQ' = OQ := by funext u p; exact propext (h2 u p)
  subst e1 e2; exact c

theorem Core.own_win (c : Core K mem OP OQ) {t p} (h : OP t p ∨ OQ t p) :
    mem 1 - K ≤ p ∧ p < mem 1 ∧ 0 ≤ p := by
  have b := c.bnd
  rcases h with h | h
  · have := c.opush t p h; omega
  · have := c.opop t p h; omega

/-- two owned positions never share a slot -/
theorem Core.own_slot_unique (c : Core K mem OP OQ) (hK : 1 ≤ K) {t u p q}
    (h1 : OP t p ∨ OQ t p) (h2 : OP u q ∨ OQ u q) (hw : wrapIdx K p = wrapIdx K q) :
    p = q ∧ t = u := by
  have w1 := c.own_win h1
  have w2 := c.own_win h2
  have e : p = q := wrap_inj (K := K) hK hw (by omega) (by omega)
  subst e
  refine ⟨rfl, ?_⟩
  rcases h1 with h1 | h1 <;> rcases h2 with h2 | h2
  · exact c.upush _ _ _ h1 h2
  · have := c.opush _ _ h1; have := c.opop _ _ h2; omega
  · have := c.opush _ _ h2; have := c.opop _ _ h1; omega
  · exact c.upop _ _ _ h1 h2

/-- a slot that looks Ready for a position in `[tail, tail + K)` is Ready: the previous position of
that slot is completely finished and nobody owns the slot -/
theorem Core.ready_ahead (c : Core K mem OP OQ) (hK : 2 ≤ K) {p : Int} (h1 : mem 1 ≤ p)
    (h2 : p < mem 1 + K) (hs : mem (seqF K p) = p) :
    p - K < mem 0 ∧ ∀ t q, (OP t q ∨ OQ t q) → wrapIdx K q ≠ wrapIdx K p := by
  have b := c.bnd
  have e : seqF K (p - K) = seqF K p := by simp
  have hlt : p - K < mem 0 := by
    by_contra hge
    have := c.live (p - K) (by omega) (by omega)
    rw [e] at this
    omega
  refine ⟨hlt, ?_⟩
  intro t q ho hw
  have w := c.own_win ho
  have e2 : q = p - K := wrap_inj (K := K) (by omega) (by simpa using hw) (by omega) (by omega)
  subst e2
  rcases ho with ho | ho
  · have := c.opush _ _ ho; rw [e] at this; omega
  · have := c.opop _ _ ho; rw [e] at this; omega

/-- if the slot of `head` looks Full for `head`, it is: non-empty queue, real value, no owner -/
theorem Core.full_head (c : Core K mem OP OQ) (hK : 2 ≤ K)
    (hs : mem (seqF K (mem 0)) = mem 0 + 1) :
    mem 0 < mem 1 ∧ 0 ≤ mem (dataF K (mem 0)) ∧
      ∀ t q, (OP t q ∨ OQ t q) → wrapIdx K q ≠ wrapIdx K (mem 0) := by
  have b := c.bnd
  have e : seqF K (mem 0 - K) = seqF K (mem 0) := by simp
  have hlt : mem 0 < mem 1 := by
    by_contra hge
    have hT : mem 1 = mem 0 := by omega
    by_cases hn : mem 0 - K < 0
    · have := (c.neg (mem 0 - K) (by omega) hn).1
      rw [e] at this; omega
    · have := c.old (mem 0 - K) (by omega) (by omega) (by omega)
      rw [e] at this; omega
  have hl := c.live (mem 0) (by omega) hlt
  refine ⟨hlt, by omega, ?_⟩
  intro t q ho hw
  have w := c.own_win ho
  have e2 : q = mem 0 := wrap_inj (K := K) (by omega) hw (by omega) (by omega)
  rcases ho with ho | ho
  · have := c.opush _ _ ho; rw [e2] at this; omega
  · have := c.opop _ _ ho; omega

end core

/-! ### preservation of the life-cycle invariant by the five kinds of memory-changing steps -/
section coresteps
variable {K : Nat} {mem mem' : Fld → Int} {OP OQ OP' OQ' : TId → Int → Prop}

/-- a successful `CAS(tail: T → T + n)` after all `n` slots were seen Ready -/
theorem Core.pushClaim (c : Core K mem OP OQ) (hK : 2 ≤ K) (t : TId) (n : Nat)
    (hn1 : 1 ≤ n) (hnK : n ≤ K)
    (hv : ∀ p, mem 1 ≤ p → p < mem 1 + n → mem (seqF K p) = p)
    (m0 : mem' 0 = mem 0) (m1 : mem' 1 = mem 1 + n)
    (ms : ∀ p, mem' (seqF K p) = mem (seqF K p)) (md : ∀ p, mem' (dataF K p) = mem (dataF K p))
    (hO : ∀ u p, OP' u p ↔ OP u p ∨ (u = t ∧ mem 1 ≤ p ∧ p < mem 1 + n)) :
    Core K mem' OP' OQ := by
  have b := c.bnd
  have hr := fun p h1 h2 => c.ready_ahead hK (p := p) h1 (by omega) (hv p h1 h2)
  have hlast := (hr (mem 1 + n - 1) (by omega) (by omega)).1
  constructor
  · rw [m0, m1]; omega
  · intro p h1 h2; rw [ms, md]; rw [m1] at h1; exact c.neg p (by omega) h2
  · intro p h1 h2; rw [ms, md]; rw [m0] at h1; rw [m1] at h2
    by_cases hp : p < mem 1
    · exact c.live p h1 hp
    · left; exact hv p (by omega) h2
  · intro p h1 h2 h3; rw [ms, md]; rw [m1] at h1; rw [m0] at h3
    exact c.old p (by omega) h2 h3
  · intro u p ho; rw [m0, m1, ms]
    rcases (hO u p).1 ho with ho | ⟨_, h1, h2⟩
    · have := c.opush u p ho; omega
    · have := hv p h1 h2; omega
  · intro u p ho; rw [m0, m1, ms]
    have := c.opop u p ho
    refine ⟨?_, by omega, by omega, by omega⟩
    by_contra hlt
    have := (hr (p + K) (by omega) (by omega)).2 u p (Or.inr ho)
    simp at this
  · intro u w p h1 h2
    rcases (hO u p).1 h1 with h1 | ⟨e1, a1, b1⟩ <;> rcases (hO w p).1 h2 with h2 | ⟨e2, a2, b2⟩
    · exact c.upush _ _ _ h1 h2
    · have := c.opush _ _ h1; omega
    · have := c.opush _ _ h2; omega
    · exact e1.trans e2.symm
  · exact c.upop
  · intro p h1 h2 h3; rw [m0] at h1; rw [m1] at h2; rw [ms] at h3
    by_cases hp : p < mem 1
    · obtain ⟨u, hu⟩ := c.epush p h1 hp h3; exact ⟨u, (hO u p).2 (Or.inl hu)⟩
    · exact ⟨t, (hO t p).2 (Or.inr ⟨rfl, by omega, h2⟩)⟩
  · intro p h1 h2 h3 h4; rw [m1] at h1; rw [m0] at h3; rw [ms] at h4
    exact c.epop p (by omega) h2 h3 h4

/-- a successful `CAS(head: H → H + 1)` after the slot was seen Full -/
theorem Core.popClaim (c : Core K mem OP OQ) (hK : 2 ≤ K) (t : TId)
    (hs : mem (seqF K (mem 0)) = mem 0 + 1)
    (m0 : mem' 0 = mem 0 + 1) (m1 : mem' 1 = mem 1)
    (ms : ∀ p, mem' (seqF K p) = mem (seqF K p)) (md : ∀ p, mem' (dataF K p) = mem (dataF K p))
    (hO : ∀ u p, OQ' u p ↔ OQ u p ∨ (u = t ∧ p = mem 0)) :
    Core K mem' OP OQ' := by
  have b := c.bnd
  obtain ⟨hlt, hd, hno⟩ := c.full_head hK hs
  constructor
  · rw [m0, m1]; omega
  · intro p h1 h2; rw [ms, md]; rw [m1] at h1; exact c.neg p h1 h2
  · intro p h1 h2; rw [ms, md]; rw [m0] at h1; rw [m1] at h2; exact c.live p (by omega) h2
  · intro p h1 h2 h3; rw [ms, md]; rw [m1] at h1; rw [m0] at h3
    by_cases hp : p < mem 0
    · exact c.old p h1 h2 hp
    · have e : p = mem 0 := by omega
      left; rw [e]; exact hs
  · intro u p ho; rw [m0, m1, ms]
    have h := c.opush u p ho
    have : p ≠ mem 0 := by intro e; rw [e] at h; omega
    omega
  · intro u p ho; rw [m0, m1, ms]
    rcases (hO u p).1 ho with ho | ⟨_, e⟩
    · have := c.opop u p ho; omega
    · rw [e]; omega
  · exact c.upush
  · intro u w p h1 h2
    rcases (hO u p).1 h1 with h1 | ⟨e1, a1⟩ <;> rcases (hO w p).1 h2 with h2 | ⟨e2, a2⟩
    · exact c.upop _ _ _ h1 h2
    · have := c.opop _ _ h1; omega
    · have := c.opop _ _ h2; omega
    · exact e1.trans e2.symm
  · intro p h1 h2 h3; rw [m0] at h1; rw [m1] at h2; rw [ms] at h3
    exact c.epush p (by omega) h2 h3
  · intro p h1 h2 h3 h4; rw [m1] at h1; rw [m0] at h3; rw [ms] at h4
    by_cases hp : p < mem 0
    · obtain ⟨u, hu⟩ := c.epop p h1 h2 hp h4; exact ⟨u, (hO u p).2 (Or.inl hu)⟩
    · exact ⟨t, (hO t p).2 (Or.inr ⟨rfl, by omega⟩)⟩

/-- the owner of position `q` writes the element of its slot -/
theorem Core.dataWrite (c : Core K mem OP OQ) (hK : 1 ≤ K) (t : TId) (q : Int)
    (ho : OP t q ∨ OQ t q)
    (m0 : mem' 0 = mem 0) (m1 : mem' 1 = mem 1)
    (ms : ∀ p, mem' (seqF K p) = mem (seqF K p))
    (md : ∀ p, wrapIdx K p ≠ wrapIdx K q → mem' (dataF K p) = mem (dataF K p)) :
    Core K mem' OP OQ := by
  have b := c.bnd
  have w := c.own_win ho
  constructor
  · rw [m0, m1]; exact b
  · intro p h1 h2; rw [m1] at h1
    have hw : wrapIdx K p ≠ wrapIdx K q := fun hw => by
      have := wrap_inj (K := K) hK hw (by omega) (by omega); omega
    rw [ms, md p hw]; exact c.neg p h1 h2
  · intro p h1 h2; rw [m0] at h1; rw [m1] at h2; rw [ms]
    by_cases hw : wrapIdx K p = wrapIdx K q
    · have e : p = q := wrap_inj (K := K) hK hw (by omega) (by omega)
      rcases ho with ho | ho
      · left; rw [e]; exact (c.opush _ _ ho).2.2
      · have := c.opop _ _ ho; omega
    · rw [md p hw]; exact c.live p h1 h2
  · intro p h1 h2 h3; rw [m1] at h1; rw [m0] at h3; rw [ms]
    by_cases hw : wrapIdx K p = wrapIdx K q
    · have e : p = q := wrap_inj (K := K) hK hw (by omega) (by omega)
      rcases ho with ho | ho
      · have := c.opush _ _ ho; omega
      · left; rw [e]; exact (c.opop _ _ ho).2.2.2
    · rw [md p hw]; exact c.old p h1 h2 h3
  · intro u p h; rw [m0, m1, ms]; exact c.opush u p h
  · intro u p h; rw [m0, m1, ms]; exact c.opop u p h
  · exact c.upush
  · exact c.upop
  · intro p h1 h2 h3; rw [m0] at h1; rw [m1] at h2; rw [ms] at h3; exact c.epush p h1 h2 h3
  · intro p h1 h2 h3 h4; rw [m1] at h1; rw [m0] at h3; rw [ms] at h4; exact c.epop p h1 h2 h3 h4

/-- the push owner of `q` publishes it: `seq := q + 1` -/
theorem Core.pushPub (c : Core K mem OP OQ) (hK : 2 ≤ K) (t : TId) (q : Int)
    (ho : OP t q) (hd : 0 ≤ mem (dataF K q))
    (m0 : mem' 0 = mem 0) (m1 : mem' 1 = mem 1)
    (ms1 : mem' (seqF K q) = q + 1)
    (ms : ∀ p, wrapIdx K p ≠ wrapIdx K q → mem' (seqF K p) = mem (seqF K p))
    (md : ∀ p, mem' (dataF K p) = mem (dataF K p))
    (hO : ∀ u p, OP' u p ↔ OP u p ∧ ¬(u = t ∧ p = q)) :
    Core K mem' OP' OQ := by
  have b := c.bnd
  have w := c.opush _ _ ho
  have hne : ∀ p, mem 1 - K ≤ p → p < mem 1 → p ≠ q → mem' (seqF K p) = mem (seqF K p) :=
    fun p h1 h2 h3 => ms p fun hw => h3 (wrap_inj (K := K) (by omega) hw (by omega) (by omega))
  constructor
  · rw [m0, m1]; exact b
  · intro p h1 h2; rw [m1] at h1; rw [hne p h1 (by omega) (by omega), md]; exact c.neg p h1 h2
  · intro p h1 h2; rw [m0] at h1; rw [m1] at h2; rw [md]
    by_cases e : p = q
    · right; rw [e]; exact ⟨ms1, hd⟩
    · rw [hne p (by omega) h2 e]; exact c.live p h1 h2
  · intro p h1 h2 h3; rw [m1] at h1; rw [m0] at h3
    rw [hne p h1 (by omega) (by omega), md]; exact c.old p h1 h2 h3
  · intro u p h; rw [m0, m1]
    obtain ⟨h, hn⟩ := (hO u p).1 h
    have := c.opush u p h
    have e : p ≠ q := fun e => hn ⟨c.upush _ _ _ (e ▸ h) ho, e⟩
    rw [hne p (by omega) (by omega) e]; exact this
  · intro u p h; rw [m0, m1]
    have := c.opop u p h
    rw [hne p (by omega) (by omega) (by omega)]; exact this
  · intro u w p h1 h2; exact c.upush _ _ _ ((hO u p).1 h1).1 ((hO w p).1 h2).1
  · exact c.upop
  · intro p h1 h2 h3; rw [m0] at h1; rw [m1] at h2
    by_cases e : p = q
    · rw [e, ms1] at h3; omega
    · rw [hne p (by omega) h2 e] at h3
      obtain ⟨u, hu⟩ := c.epush p h1 h2 h3
      exact ⟨u, (hO u p).2 ⟨hu, fun h => e h.2⟩⟩
  · intro p h1 h2 h3 h4; rw [m1] at h1; rw [m0] at h3
    rw [hne p h1 (by omega) (by omega)] at h4
    exact c.epop p h1 h2 h3 h4

/-- the pop owner of `q` releases the slot: `seq := q + K` -/
theorem Core.popPub (c : Core K mem OP OQ) (hK : 2 ≤ K) (t : TId) (q : Int)
    (ho : OQ t q) (hd : mem (dataF K q) = -1)
    (m0 : mem' 0 = mem 0) (m1 : mem' 1 = mem 1)
    (ms1 : mem' (seqF K q) = q + K)
    (ms : ∀ p, wrapIdx K p ≠ wrapIdx K q → mem' (seqF K p) = mem (seqF K p))
    (md : ∀ p, mem' (dataF K p) = mem (dataF K p))
    (hO : ∀ u p, OQ' u p ↔ OQ u p ∧ ¬(u = t ∧ p = q)) :
    Core K mem' OP OQ' := by
  have b := c.bnd
  have w := c.opop _ _ ho
  have hne : ∀ p, mem 1 - K ≤ p → p < mem 1 → p ≠ q → mem' (seqF K p) = mem (seqF K p) :=
    fun p h1 h2 h3 => ms p fun hw => h3 (wrap_inj (K := K) (by omega) hw (by omega) (by omega))
  constructor
  · rw [m0, m1]; exact b
  · intro p h1 h2; rw [m1] at h1; rw [hne p h1 (by omega) (by omega), md]; exact c.neg p h1 h2
  · intro p h1 h2; rw [m0] at h1; rw [m1] at h2
    rw [hne p (by omega) h2 (by omega), md]; exact c.live p h1 h2
  · intro p h1 h2 h3; rw [m1] at h1; rw [m0] at h3; rw [md]
    by_cases e : p = q
    · right; rw [e]; exact ⟨ms1, hd⟩
    · rw [hne p h1 (by omega) e]; exact c.old p h1 h2 h3
  · intro u p h; rw [m0, m1]
    have := c.opush u p h
    rw [hne p (by omega) (by omega) (by omega)]; exact this
  · intro u p h; rw [m0, m1]
    obtain ⟨h, hn⟩ := (hO u p).1 h
    have := c.opop u p h
    have e : p ≠ q := fun e => hn ⟨c.upop _ _ _ (e ▸ h) ho, e⟩
    rw [hne p (by omega) (by omega) e]; exact this
  · exact c.upush
  · intro u w p h1 h2; exact c.upop _ _ _ ((hO u p).1 h1).1 ((hO w p).1 h2).1
  · intro p h1 h2 h3; rw [m0] at h1; rw [m1] at h2
    rw [hne p (by omega) h2 (by omega)] at h3
    exact c.epush p h1 h2 h3
  · intro p h1 h2 h3 h4; rw [m1] at h1; rw [m0] at h3
    by_cases e : p = q
    · rw [e, ms1] at h4; omega
    · rw [hne p h1 (by omega) e] at h4
      obtain ⟨u, hu⟩ := c.epop p h1 h2 h3 h4
      exact ⟨u, (hO u p).2 ⟨hu, fun h => e h.2⟩⟩

end coresteps

/-! ### thread-local knowledge is stable under the steps of other threads -/

theorem locInv_frame {K : Nat} {mem mem' : Fld → Int} {l : L} (hK : 1 ≤ K)
    (m0 : mem 0 ≤ mem' 0) (m1 : mem 1 ≤ mem' 1)
    (hs : mem' 1 = mem 1 → ∀ p, mem 1 ≤ p → p < mem 1 + K → mem (seqF K p) = p →
      mem' (seqF K p) = p)
    (hf : mem' 0 = mem 0 → mem (seqF K (mem 0)) = mem 0 + 1 →
      mem' (seqF K (mem 0)) = mem 0 + 1)
    (hd : ∀ p, ownsPush l p ∨ ownsPop l p → mem' (dataF K p) = mem (dataF K p))
    (h : locInv K mem l) : locInv K mem' l := by
  cases l with
  | eLoadT v => exact h
  | eLoadSeq v t => exact ⟨h.1, Int.le_trans h.2 m1⟩
  | eCas v t =>
    simp only [locInv] at h ⊢
    obtain ⟨a, b, c⟩ := h
    refine ⟨a, Int.le_trans b m1, fun e => ?_⟩
    have e1 : mem' 1 = mem 1 := by omega
    exact hs e1 t (by omega) (by omega) (c (by omega))
  | eWrite v t => exact h
  | ePub t =>
    show 0 ≤ mem' (dataF K t)
    rw [hd t (Or.inl (by simp [ownsPush]))]; exact h
  | oLoadT x => exact Int.le_trans h m0
  | oLoadSeq x => exact Int.le_trans h m0
  | oCas x =>
    simp only [locInv] at h ⊢
    obtain ⟨a, b⟩ := h
    refine ⟨Int.le_trans a m0, fun e => ?_⟩
    have e1 : mem' 0 = mem 0 := by omega
    have e2 : mem 0 = x := by omega
    have := hf e1 (by rw [e2]; exact b e2)
    rw [e2] at this; exact this
  | oTake x =>
    show 0 ≤ mem' (dataF K x)
    rw [hd x (Or.inr (by simp [ownsPop]))]; exact h
  | oPub x v =>
    show mem' (dataF K x) = -1 ∧ 0 ≤ v
    rw [hd x (Or.inr (by simp [ownsPop]))]; exact h
  | bLoadT vs => exact h
  | bSeq vs t i =>
    simp only [locInv] at h ⊢
    obtain ⟨a, b, c, d⟩ := h
    refine ⟨a, b, Int.le_trans c m1, fun e p h1 h2 => ?_⟩
    have e1 : mem' 1 = mem 1 := by omega
    have := a.2.2
    exact hs e1 p (by omega) (by omega) (d (by omega) p h1 h2)
  | bCas vs t n =>
    simp only [locInv] at h ⊢
    obtain ⟨a, b, b', c, d⟩ := h
    refine ⟨a, b, b', Int.le_trans c m1, fun e p h1 h2 => ?_⟩
    have e1 : mem' 1 = mem 1 := by omega
    have := a.2.2
    exact hs e1 p (by omega) (by omega) (d (by omega) p h1 h2)
  | bWrite vs t i n => exact h
  | bPub vs t i n =>
    simp only [locInv] at h ⊢
    obtain ⟨a, b, c, d⟩ := h
    refine ⟨a, b, c, ?_⟩
    rw [hd (t + i) (Or.inl (by simp only [ownsPush]; omega))]; exact d
  | idle => trivial
  | done r => trivial
  | oLoadH => trivial
  | qLoadH w => trivial
  | qLoadT w x => trivial

/-! ### the invariant on (memory, local states) -/

def Inv (K : Nat) (mem : Fld → Int) (loc : TId → L) : Prop :=
  Core K mem (fun t p => ownsPush (loc t) p) (fun t p => ownsPop (loc t) p) ∧
    ∀ t, locInv K mem (loc t)

section invsteps
variable {K : Nat} {mem : Fld → Int} {loc : TId → L}

/-- steps that change neither memory nor ownership -/
theorem Inv.frame (h : Inv K mem loc) (t : TId) (l' : L)
    (hp : ∀ p, ownsPush l' p ↔ ownsPush (loc t) p) (hq : ∀ p, ownsPop l' p ↔ ownsPop (loc t) p)
    (hl : locInv K mem l') : Inv K mem (updL loc t l') := by
  refine ⟨h.1.congr (fun u p => ?_) (fun u p => ?_), fun u => ?_⟩
  · by_cases e : u = t
    · subst e; simp [hp]
    · simp [updL_ne e]
  · by_cases e : u = t
    · subst e; simp [hq]
    · simp [updL_ne e]
  · by_cases e : u = t
    · subst e; simpa using hl
    · rw [updL_ne e]; exact h.2 u

theorem Inv.pushClaim (h : Inv K mem loc) (hK : 2 ≤ K) (t : TId) (l' : L) (n : Nat)
    (hn1 : 1 ≤ n) (hnK : n ≤ K)
    (hv : ∀ p, mem 1 ≤ p → p < mem 1 + n → mem (seqF K p) = p)
    (h0 : ∀ p, ¬ ownsPush (loc t) p) (h0' : ∀ p, ¬ ownsPop (loc t) p)
    (hp : ∀ p, ownsPush l' p ↔ mem 1 ≤ p ∧ p < mem 1 + n) (hq : ∀ p, ¬ ownsPop l' p)
    (hl : locInv K (updM mem 1 (mem 1 + n)) l') :
    Inv K (updM mem 1 (mem 1 + n)) (updL loc t l') := by
  refine ⟨(h.1.pushClaim hK t n hn1 hnK hv (by simp [updM]) (by simp [updM])
    (by simp [updM]) (by simp [updM]) (fun u p => ?_)).congr (fun _ _ => Iff.rfl)
    (fun u p => ?_), fun u => ?_⟩
  · by_cases e : u = t
    · subst e; simp [hp, h0]
    · simp [updL_ne e, e]
  · by_cases e : u = t
    · subst e; simp [hq, h0']
    · simp [updL_ne e]
  · by_cases e : u = t
    · subst e; simpa using hl
    · rw [updL_ne e]
      refine locInv_frame (by omega) (by simp [updM]) (by simp [updM]) (fun e1 => ?_) (by simp [updM])
        (by simp [updM]) (h.2 u)
      simp [updM] at e1; omega

theorem Inv.popClaim (h : Inv K mem loc) (hK : 2 ≤ K) (t : TId) (l' : L)
    (hs : mem (seqF K (mem 0)) = mem 0 + 1)
    (h0 : ∀ p, ¬ ownsPush (loc t) p) (h0' : ∀ p, ¬ ownsPop (loc t) p)
    (hp : ∀ p, ¬ ownsPush l' p) (hq : ∀ p, ownsPop l' p ↔ p = mem 0)
    (hl : locInv K (updM mem 0 (mem 0 + 1)) l') :
    Inv K (updM mem 0 (mem 0 + 1)) (updL loc t l') := by
  refine ⟨(h.1.popClaim hK t hs (by simp [updM]) (by simp [updM])
    (by simp [updM]) (by simp [updM]) (fun u p => ?_)).congr (fun u p => ?_)
    (fun _ _ => Iff.rfl), fun u => ?_⟩
  · by_cases e : u = t
    · subst e; simp [hq, h0']
    · simp [updL_ne e, e]
  · by_cases e : u = t
    · subst e; simp [hp, h0]
    · simp [updL_ne e]
  · by_cases e : u = t
    · subst e; simpa using hl
    · rw [updL_ne e]
      refine locInv_frame (by omega) (by simp [updM]) (by simp [updM]) (by simp [updM]) (fun e1 => ?_)
        (by simp [updM]) (h.2 u)
      simp [updM] at e1

/-- the owner of `q` stores to `data[q % K]`; ownership unchanged -/
theorem Inv.dataWrite (h : Inv K mem loc) (hK : 2 ≤ K) (t : TId) (l' : L) (q v : Int)
    (ho : ownsPush (loc t) q ∨ ownsPop (loc t) q)
    (hp : ∀ p, ownsPush l' p ↔ ownsPush (loc t) p) (hq : ∀ p, ownsPop l' p ↔ ownsPop (loc t) p)
    (hl : locInv K (updM mem (dataF K q) v) l') :
    Inv K (updM mem (dataF K q) v) (updL loc t l') := by
  refine ⟨(h.1.dataWrite (by omega) t q ho (by simp [updM]) (by simp [updM])
    (by simp [updM]) (fun p hw => by simp [updM, hw])).congr (fun u p => ?_)
    (fun u p => ?_), fun u => ?_⟩
  · by_cases e : u = t
    · subst e; simp [hp]
    · simp [updL_ne e]
  · by_cases e : u = t
    · subst e; simp [hq]
    · simp [updL_ne e]
  · by_cases e : u = t
    · subst e; simpa using hl
    · rw [updL_ne e]
      refine locInv_frame (by omega) (by simp [updM]) (by simp [updM]) (by simp [updM]) (by simp [updM])
        (fun p hop => ?_) (h.2 u)
      have hw : wrapIdx K p ≠ wrapIdx K q := fun hw =>
        e (h.1.own_slot_unique (by omega) hop ho hw).2
      simp [updM, hw]

theorem Inv.pushPub (h : Inv K mem loc) (hK : 2 ≤ K) (t : TId) (l' : L) (q : Int)
    (ho : ownsPush (loc t) q) (hd : 0 ≤ mem (dataF K q))
    (hp : ∀ p, ownsPush l' p ↔ ownsPush (loc t) p ∧ p ≠ q)
    (hq : ∀ p, ownsPop l' p ↔ ownsPop (loc t) p)
    (hl : locInv K (updM mem (seqF K q) (q + 1)) l') :
    Inv K (updM mem (seqF K q) (q + 1)) (updL loc t l') := by
  refine ⟨(h.1.pushPub hK t q ho hd (by simp [updM]) (by simp [updM]) (by simp [updM])
    (fun p hw => by simp [updM, hw]) (by simp [updM]) (fun u p => ?_)).congr
    (fun _ _ => Iff.rfl) (fun u p => ?_), fun u => ?_⟩
  · by_cases e : u = t
    · subst e; simp [hp]
    · simp [updL_ne e, e]
  · by_cases e : u = t
    · subst e; simp [hq]
    · simp [updL_ne e]
  · by_cases e : u = t
    · subst e; simpa using hl
    · rw [updL_ne e]
      refine locInv_frame (by omega) (by simp [updM]) (by simp [updM]) (fun _ p h1 h2 h3 => ?_)
        (fun _ h3 => ?_) (by simp [updM]) (h.2 u)
      · have := (h.1.ready_ahead hK h1 h2 h3).2 t q (Or.inl ho)
        simp [updM, Ne.symm this, h3]
      · have := (h.1.full_head hK h3).2.2 t q (Or.inl ho)
        simp [updM, Ne.symm this, h3]

theorem Inv.popPub (h : Inv K mem loc) (hK : 2 ≤ K) (t : TId) (l' : L) (q : Int)
    (ho : ownsPop (loc t) q) (hd : mem (dataF K q) = -1)
    (hp : ∀ p, ownsPush l' p ↔ ownsPush (loc t) p)
    (hq : ∀ p, ownsPop l' p ↔ ownsPop (loc t) p ∧ p ≠ q)
    (hl : locInv K (updM mem (seqF K q) (q + K)) l') :
    Inv K (updM mem (seqF K q) (q + K)) (updL loc t l') := by
  refine ⟨(h.1.popPub hK t q ho hd (by simp [updM]) (by simp [updM]) (by simp [updM])
    (fun p hw => by simp [updM, hw]) (by simp [updM]) (fun u p => ?_)).congr
    (fun u p => ?_) (fun _ _ => Iff.rfl), fun u => ?_⟩
  · by_cases e : u = t
    · subst e; simp [hq]
    · simp [updL_ne e, e]
  · by_cases e : u = t
    · subst e; simp [hp]
    · simp [updL_ne e]
  · by_cases e : u = t
    · subst e; simpa using hl
    · rw [updL_ne e]
      refine locInv_frame (by omega) (by simp [updM]) (by simp [updM]) (fun _ p h1 h2 h3 => ?_)
        (fun _ h3 => ?_) (by simp [updM]) (h.2 u)
      · have := (h.1.ready_ahead hK h1 h2 h3).2 t q (Or.inr ho)
        simp [updM, Ne.symm this, h3]
      · have := (h.1.full_head hK h3).2.2 t q (Or.inr ho)
        simp [updM, Ne.symm this, h3]

end invsteps

/-! ### the invariant on states of `Conc.exec` and its preservation by every action -/

def SInv (K : Nat) (s : State (proto K)) : Prop :=
  (∀ t, s.parked t = none) ∧ Inv K s.mem s.loc

theorem getD_nonneg {vs : List Int} (h : ∀ v ∈ vs, 0 ≤ v) (i : Nat) : 0 ≤ vs.getD i 0 := by
  rw [List.getD_eq_getElem?_getD]
  cases h' : vs[i]? with
  | none => simp
  | some v => simpa using h v (List.mem_of_getElem? h')

theorem cont_qLoadT (K : Nat) (w : Nat) (h r : Int) : ∃ x, cont K (.qLoadT w h) r = .done x := by
  simp only [cont]; split <;> exact ⟨_, rfl⟩

section steps
variable {K : Nat} {s : State (proto K)} {t : TId}

theorem step_plain (h : SInv K s) (l' : L) (h1 : ∀ p, ¬ ownsPush (s.loc t) p)
    (h2 : ∀ p, ¬ ownsPop (s.loc t) p) (h3 : ∀ p, ¬ ownsPush l' p) (h4 : ∀ p, ¬ ownsPop l' p)
    (hl : locInv K s.mem l') : SInv K (setLoc s t l') :=
  ⟨h.1, h.2.frame t l' (fun p => by simp [h1, h3]) (fun p => by simp [h2, h4]) hl⟩

theorem step_eLoadT (h : SInv K s) {v} (hl : s.loc t = .eLoadT v) :
    SInv K (setLoc s t (.eLoadSeq v (s.mem 1))) := by
  have hi := h.2.2 t; rw [hl] at hi
  exact step_plain h _ (by simp [hl, ownsPush]) (by simp [hl, ownsPop]) (by simp [ownsPush])
    (by simp [ownsPop]) ⟨hi, Int.le_refl _⟩

theorem step_eLoadSeq (h : SInv K s) {v p} (hl : s.loc t = .eLoadSeq v p) :
    SInv K (setLoc s t (if s.mem (seqF K p) - p = 0 then .eCas v p else .done [0] : L)) := by
  have hi := h.2.2 t; rw [hl] at hi
  split_ifs with hc
  · exact step_plain h _ (by simp [hl, ownsPush]) (by simp [hl, ownsPop]) (by simp [ownsPush])
      (by simp [ownsPop]) ⟨hi.1, hi.2, fun _ => by omega⟩
  · exact step_plain h _ (by simp [hl, ownsPush]) (by simp [hl, ownsPop]) (by simp [ownsPush])
      (by simp [ownsPop]) trivial

theorem step_fail (h : SInv K s) (h1 : ∀ p, ¬ ownsPush (s.loc t) p)
    (h2 : ∀ p, ¬ ownsPop (s.loc t) p) (r : List Int) : SInv K (setLoc s t (.done r)) :=
  step_plain h _ h1 h2 (by simp [ownsPush]) (by simp [ownsPop]) trivial

theorem step_eCas_ok (h : SInv K s) (hK : 2 ≤ K) {v p} (hl : s.loc t = .eCas v p)
    (hc : s.mem 1 = p) : SInv K (setLoc (setMem s 1 (p + 1)) t (.eWrite v p)) := by
  have hi := h.2.2 t; rw [hl] at hi
  obtain ⟨a, b, c⟩ := hi
  have e : p + 1 = s.mem 1 + ((1 : Nat) : Int) := by omega
  have := h.2.pushClaim hK t (.eWrite v p) 1 (by omega) (by omega)
    (fun q h1 h2 => by have : q = p := by omega
                       rw [this]; exact c hc)
    (by simp [hl, ownsPush]) (by simp [hl, ownsPop])
    (fun q => by simp only [ownsPush]; omega) (by simp [ownsPop]) a
  rw [← e] at this
  exact ⟨h.1, this⟩

theorem step_eWrite (h : SInv K s) (hK : 2 ≤ K) {v p} (hl : s.loc t = .eWrite v p) :
    SInv K (setLoc (setMem s (dataF K p) v) t (.ePub p)) := by
  have hi := h.2.2 t; rw [hl] at hi
  exact ⟨h.1, h.2.dataWrite hK t (.ePub p) p v (Or.inl (by simp [hl, ownsPush]))
    (by simp [hl, ownsPush]) (by simp [hl, ownsPop]) (by simpa [locInv] using hi)⟩

theorem step_ePub (h : SInv K s) (hK : 2 ≤ K) {p} (hl : s.loc t = .ePub p) :
    SInv K (setLoc (setMem s (seqF K p) (p + 1)) t (.done [1])) := by
  have hi := h.2.2 t; rw [hl] at hi
  exact ⟨h.1, h.2.pushPub hK t (.done [1]) p (by simp [hl, ownsPush]) hi
    (by simp [hl, ownsPush]) (by simp [hl, ownsPop]) trivial⟩

theorem step_oLoadH (h : SInv K s) (hl : s.loc t = .oLoadH) :
    SInv K (setLoc s t (.oLoadT (s.mem 0))) :=
  step_plain h _ (by simp [hl, ownsPush]) (by simp [hl, ownsPop]) (by simp [ownsPush])
    (by simp [ownsPop]) (Int.le_refl _)

theorem step_oLoadT (h : SInv K s) {x} (hl : s.loc t = .oLoadT x) :
    SInv K (setLoc s t (if x = s.mem 1 then .done [0] else .oLoadSeq x : L)) := by
  have hi := h.2.2 t; rw [hl] at hi
  split_ifs
  · exact step_fail h (by simp [hl, ownsPush]) (by simp [hl, ownsPop]) _
  · exact step_plain h _ (by simp [hl, ownsPush]) (by simp [hl, ownsPop]) (by simp [ownsPush])
      (by simp [ownsPop]) hi

theorem step_oLoadSeq (h : SInv K s) {x} (hl : s.loc t = .oLoadSeq x) :
    SInv K (setLoc s t (if s.mem (seqF K x) - (x + 1) = 0 then .oCas x else .done [0] : L)) := by
  have hi := h.2.2 t; rw [hl] at hi
  split_ifs
  · exact step_plain h _ (by simp [hl, ownsPush]) (by simp [hl, ownsPop]) (by simp [ownsPush])
      (by simp [ownsPop]) ⟨hi, fun _ => by omega⟩
  · exact step_fail h (by simp [hl, ownsPush]) (by simp [hl, ownsPop]) _

theorem step_oCas_ok (h : SInv K s) (hK : 2 ≤ K) {x} (hl : s.loc t = .oCas x)
    (hc : s.mem 0 = x) : SInv K (setLoc (setMem s 0 (x + 1)) t (.oTake x)) := by
  have hi := h.2.2 t; rw [hl] at hi
  obtain ⟨a, b⟩ := hi
  subst hc
  have hs := b rfl
  have hf := h.2.1.full_head hK hs
  exact ⟨h.1, h.2.popClaim hK t (.oTake (s.mem 0)) hs (by simp [hl, ownsPush])
    (by simp [hl, ownsPop]) (by simp [ownsPush]) (by simp [ownsPop])
    (by simpa [locInv, updM] using hf.2.1)⟩

theorem step_oTake (h : SInv K s) (hK : 2 ≤ K) {x} (hl : s.loc t = .oTake x) :
    SInv K (setLoc (setMem s (dataF K x) movedFrom) t (.oPub x (s.mem (dataF K x)))) := by
  have hi := h.2.2 t; rw [hl] at hi
  exact ⟨h.1, h.2.dataWrite hK t _ x movedFrom (Or.inr (by simp [hl, ownsPop]))
    (by simp [hl, ownsPush]) (by simp [hl, ownsPop]) (by simpa [locInv, movedFrom] using hi)⟩

theorem step_oPub (h : SInv K s) (hK : 2 ≤ K) {x v} (hl : s.loc t = .oPub x v) :
    SInv K (setLoc (setMem s (seqF K x) (x + K)) t (.done [1, v])) := by
  have hi := h.2.2 t; rw [hl] at hi
  exact ⟨h.1, h.2.popPub hK t _ x (by simp [hl, ownsPop]) hi.1
    (by simp [hl, ownsPush]) (by simp [hl, ownsPop]) trivial⟩

theorem step_bLoadT (h : SInv K s) {vs} (hl : s.loc t = .bLoadT vs) :
    SInv K (setLoc s t (.bSeq vs (s.mem 1) 0)) := by
  have hi := h.2.2 t; rw [hl] at hi
  exact step_plain h _ (by simp [hl, ownsPush]) (by simp [hl, ownsPop]) (by simp [ownsPush])
    (by simp [ownsPop]) ⟨hi, hi.2.1, Int.le_refl _, fun _ p h1 h2 => by omega⟩

theorem step_bSeq (h : SInv K s) {vs p i} (hl : s.loc t = .bSeq vs p i) :
    SInv K (setLoc s t (if s.mem (seqF K (p + i)) - (p + i) = 0 then
      (if i + 1 < vs.length then .bSeq vs p (i + 1) else .bCas vs p (i + 1))
      else if i = 0 then .done [0] else .bCas vs p i : L)) := by
  have hi := h.2.2 t; rw [hl] at hi
  obtain ⟨a, b, c, d⟩ := hi
  have key : s.mem (seqF K (p + i)) - (p + i) = 0 → s.mem 1 = p →
      ∀ q, p ≤ q → q < p + ((i + 1 : Nat) : Int) → s.mem (seqF K q) = q := by
    intro h0 e q h1 h2
    by_cases hq : q < p + i
    · exact d e q h1 hq
    · have : q = p + i := by omega
      rw [this]; omega
  split_ifs with h0 h1 h2
  · exact step_plain h _ (by simp [hl, ownsPush]) (by simp [hl, ownsPop]) (by simp [ownsPush])
      (by simp [ownsPop]) ⟨a, h1, c, key h0⟩
  · exact step_plain h _ (by simp [hl, ownsPush]) (by simp [hl, ownsPop]) (by simp [ownsPush])
      (by simp [ownsPop]) ⟨a, by omega, by omega, c, key h0⟩
  · exact step_fail h (by simp [hl, ownsPush]) (by simp [hl, ownsPop]) _
  · exact step_plain h _ (by simp [hl, ownsPush]) (by simp [hl, ownsPop]) (by simp [ownsPush])
      (by simp [ownsPop]) ⟨a, by omega, by omega, c, d⟩

theorem step_bCas_ok (h : SInv K s) (hK : 2 ≤ K) {vs p n} (hl : s.loc t = .bCas vs p n)
    (hc : s.mem 1 = p) : SInv K (setLoc (setMem s 1 (p + n)) t (.bWrite vs p 0 n)) := by
  have hi := h.2.2 t; rw [hl] at hi
  obtain ⟨a, b, b', c, d⟩ := hi
  subst hc
  have := a.2.2
  exact ⟨h.1, h.2.pushClaim hK t (.bWrite vs (s.mem 1) 0 n) n (by omega) (by omega) (d rfl)
    (by simp [hl, ownsPush]) (by simp [hl, ownsPop])
    (fun q => by simp only [ownsPush]; omega) (by simp [ownsPop]) ⟨a, b, b'⟩⟩

theorem step_bWrite (h : SInv K s) (hK : 2 ≤ K) {vs p i n} (hl : s.loc t = .bWrite vs p i n) :
    SInv K (setLoc (setMem s (dataF K (p + i)) (vs.getD i 0)) t (.bPub vs p i n)) := by
  have hi := h.2.2 t; rw [hl] at hi
  obtain ⟨a, b, c⟩ := hi
  exact ⟨h.1, h.2.dataWrite hK t (.bPub vs p i n) (p + i) _
    (Or.inl (by simp only [hl, ownsPush]; omega))
    (by simp [hl, ownsPush]) (by simp [hl, ownsPop])
    ⟨a, b, c, by simpa using getD_nonneg a.1 i⟩⟩

theorem step_bPub (h : SInv K s) (hK : 2 ≤ K) {vs p i n} (hl : s.loc t = .bPub vs p i n) :
    SInv K (setLoc (setMem s (seqF K (p + i)) (p + i + 1)) t
      (if i + 1 < n then .bWrite vs p (i + 1) n else .done [(n : Int)] : L)) := by
  have hi := h.2.2 t; rw [hl] at hi
  obtain ⟨a, b, c, d⟩ := hi
  refine ⟨h.1, h.2.pushPub hK t _ (p + i) (by simp only [hl, ownsPush]; omega) d ?_ ?_ ?_⟩
  · intro q
    split_ifs
    · simp only [hl, ownsPush]; omega
    · simp only [hl, ownsPush]; exact ⟨False.elim, fun hx => by omega⟩
  · intro q; split_ifs <;> simp [hl, ownsPop]
  · split_ifs with h1
    · exact ⟨a, h1, c⟩
    · trivial

theorem step_qLoadH (h : SInv K s) {w} (hl : s.loc t = .qLoadH w) :
    SInv K (setLoc s t (.qLoadT w (s.mem 0))) :=
  step_plain h _ (by simp [hl, ownsPush]) (by simp [hl, ownsPop]) (by simp [ownsPush])
    (by simp [ownsPop]) trivial

theorem step_qLoadT (h : SInv K s) {w x} (hl : s.loc t = .qLoadT w x) (r : Int) :
    SInv K (setLoc s t (cont K (.qLoadT w x) r)) := by
  obtain ⟨y, hy⟩ := cont_qLoadT K w x r
  rw [hy]
  exact step_fail h (by simp [hl, ownsPush]) (by simp [hl, ownsPop]) _

end steps

@[simp] theorem init_mem (K : Nat) : (init K).mem = initMem K := rfl
@[simp] theorem init_loc (K : Nat) (t : TId) : (init K).loc t = L.idle := rfl
@[simp] theorem initMem_zero (K : Nat) : initMem K 0 = 0 := by simp [initMem]
@[simp] theorem initMem_one (K : Nat) : initMem K 1 = 0 := by simp [initMem]
theorem initMem_even (K n : Nat) : initMem K (2 + 2 * n) = (n : Int) := by
  show (if (2 + 2 * n : Nat) < 2 then (0 : Int) else
    if (2 + 2 * n : Nat) % 2 = 0 then (((2 + 2 * n - 2) / 2 : Nat) : Int) else -1) = n
  rw [if_neg (by omega), if_pos (by omega)]
  congr 1; omega
theorem initMem_odd (K n : Nat) : initMem K (3 + 2 * n) = -1 := by
  show (if (3 + 2 * n : Nat) < 2 then (0 : Int) else
    if (3 + 2 * n : Nat) % 2 = 0 then (((3 + 2 * n - 2) / 2 : Nat) : Int) else -1) = -1
  rw [if_neg (by omega), if_neg (by omega)]
theorem initMem_seq (K : Nat) (p : Int) : initMem K (seqF K p) = (wrapIdx K p : Nat) :=
  initMem_even K _
theorem initMem_data (K : Nat) (p : Int) : initMem K (dataF K p) = -1 :=
  initMem_odd K _

theorem SInv.init (K : Nat) : SInv K (init K) := by
  refine ⟨fun _ => rfl, ⟨?_, ?_, ?_, ?_, ?_, ?_, ?_, ?_, ?_, ?_⟩, fun _ => trivial⟩
  · simp
  · intro p h1 h2
    simp only [init_mem, initMem_one] at h1
    rw [init_mem, initMem_seq, initMem_data]
    refine ⟨?_, rfl⟩
    have e : p % (K : Int) = p + K := by
      rw [← Int.add_emod_right p K]
      exact Int.emod_eq_of_lt (by omega) (by omega)
    simp only [wrapIdx, e]; omega
  · intro p h1 h2; simp at h1 h2; omega
  · intro p h1 h2 h3; simp at h3; omega
  · intro _ _ h; simp [ownsPush] at h
  · intro _ _ h; simp [ownsPop] at h
  · intro _ _ _ h; simp [ownsPush] at h
  · intro _ _ _ h; simp [ownsPop] at h
  · intro p h1 h2; simp at h1 h2; omega
  · intro p h1 h2 h3; simp at h3; omega

theorem SInv.step {K : Nat} (hK : 2 ≤ K) {s s' : State (proto K)} {a : Act (proto K)}
    (h : SInv K s) (he : exec s a = some s') : SInv K s' := by
  cases a with
  | step t =>
    have hp := h.1 t
    cases hl : s.loc t <;> simp [exec, hp, proto, op, cont, memEffect, hl] at he
    case eLoadT v => cases he; exact step_eLoadT h hl
    case eLoadSeq v p => cases he; exact step_eLoadSeq h hl
    case eCas v p =>
      by_cases hc : s.mem 1 = p
      · simp [hc] at he; cases he; exact step_eCas_ok h hK hl hc
      · simp [hc] at he; cases he
        exact step_fail h (by simp [hl, ownsPush]) (by simp [hl, ownsPop]) _
    case eWrite v p => cases he; exact step_eWrite h hK hl
    case ePub p => cases he; exact step_ePub h hK hl
    case oLoadH => cases he; exact step_oLoadH h hl
    case oLoadT x => cases he; exact step_oLoadT h hl
    case oLoadSeq x => cases he; exact step_oLoadSeq h hl
    case oCas x =>
      by_cases hc : s.mem 0 = x
      · simp [hc] at he; cases he; exact step_oCas_ok h hK hl hc
      · simp [hc] at he; cases he
        exact step_fail h (by simp [hl, ownsPush]) (by simp [hl, ownsPop]) _
    case oTake x => cases he; exact step_oTake h hK hl
    case oPub x v => cases he; exact step_oPub h hK hl
    case bLoadT vs => cases he; exact step_bLoadT h hl
    case bSeq vs p i => cases he; exact step_bSeq h hl
    case bCas vs p n =>
      by_cases hc : s.mem 1 = p
      · simp [hc] at he; cases he; exact step_bCas_ok h hK hl hc
      · simp [hc] at he; cases he
        exact step_fail h (by simp [hl, ownsPush]) (by simp [hl, ownsPop]) _
    case bWrite vs p i n => cases he; exact step_bWrite h hK hl
    case bPub vs p i n => cases he; exact step_bPub h hK hl
    case qLoadH w => cases he; exact step_qLoadH h hl
    case qLoadT w x => cases he; exact step_qLoadT h hl _
  | wake t ws =>
    exfalso
    have hp := h.1 t
    cases hl : s.loc t <;> simp [exec, hp, proto, op, hl] at he
  | timeout t => simp [exec, h.1 t] at he
  | spurious t => simp [exec, h.1 t] at he
  | call t l =>
    simp only [exec] at he
    split at he
    · rename_i hc
      obtain ⟨_, h2, h3⟩ := hc
      cases he
      have hidle : ∀ p, ¬ ownsPush (s.loc t) p ∧ ¬ ownsPop (s.loc t) p := by
        intro p
        cases hl : s.loc t <;> simp [proto, op, hl] at h2 <;> simp [ownsPush, ownsPop]
      have h3' : isEntry K l = true := by
        simp [proto] at h3; exact h3.2
      have : SInv K (setLoc s t l) := by
        cases l <;> simp [isEntry] at h3'
        case eLoadT v =>
          exact step_plain h _ (fun p => (hidle p).1) (fun p => (hidle p).2) (by simp [ownsPush])
            (by simp [ownsPop]) h3'
        case bLoadT vs =>
          exact step_plain h _ (fun p => (hidle p).1) (fun p => (hidle p).2) (by simp [ownsPush])
            (by simp [ownsPop]) ⟨h3'.1.1, h3'.1.2, h3'.2⟩
        case oLoadH =>
          exact step_plain h _ (fun p => (hidle p).1) (fun p => (hidle p).2) (by simp [ownsPush])
            (by simp [ownsPop]) trivial
        case qLoadH w =>
          exact step_plain h _ (fun p => (hidle p).1) (fun p => (hidle p).2) (by simp [ownsPush])
            (by simp [ownsPop]) trivial
      exact this
    · contradiction

theorem SInv.reachable {K : Nat} (hK : 2 ≤ K) {s : State (proto K)}
    (h : Reachable (Mpmc.init K) s) : SInv K s :=
  invariant (SInv K) (SInv.init K) (fun _ _ _ hi he => hi.step hK he) s h

/-! ### sequential execution of one call (used for the quiescent-state consequences) -/
section seqrun
variable {K : Nat} {s : State (proto K)} {t : TId}

theorem run_cons {P : Proto} {s s1 : State P} {a : Act P} (as : List (Act P))
    (h : exec s a = some s1) : run s (a :: as) = run s1 as := by
  simp [run, h]

/-- `s'` is the result of action `a` of thread `t`, leaving it at `l'` with memory `m'` -/
def Next (s : State (proto K)) (a : Act (proto K)) (t : TId) (l' : L) (m' : Fld → Int)
    (s' : State (proto K)) : Prop :=
  exec s a = some s' ∧ s'.parked t = none ∧ s'.loc t = l' ∧ s'.mem = m'

theorem ex_call (l : L) (hp : s.parked t = none) (ho : (proto K).op (s.loc t) = none)
    (he : isEntry K l = true) : ∃ s', Next s (.call t l) t l s.mem s' := by
  have hidle : idleOrDone (s.loc t) = true := by
    cases hl : s.loc t <;> simp [proto, op, hl] at ho <;> rfl
  refine ⟨{ setLoc s t l with threads := if t ∈ s.threads then s.threads else t :: s.threads },
    ?_, hp, ?_, rfl⟩
  · simp only [exec]; rw [if_pos ⟨hp, ho, by simp [proto, hidle, he]⟩]
  · exact if_pos rfl

theorem ex_eLoadT {v} (hp : s.parked t = none) (hl : s.loc t = .eLoadT v) :
    ∃ s', Next s (.step t) t (.eLoadSeq v (s.mem 1)) s.mem s' :=
  ⟨setLoc s t (L.eLoadSeq v (s.mem 1)), by simp [exec, hp, proto, op, cont, memEffect, hl], hp,
    if_pos rfl, rfl⟩

theorem ex_eLoadSeq {v p} (hp : s.parked t = none) (hl : s.loc t = .eLoadSeq v p) :
    ∃ s', Next s (.step t) t (if s.mem (seqF K p) - p = 0 then .eCas v p else .done [0])
      s.mem s' :=
  ⟨setLoc s t (if s.mem (seqF K p) - p = 0 then .eCas v p else .done [0] : L),
    by simp [exec, hp, proto, op, cont, memEffect, hl], hp, if_pos rfl, rfl⟩

theorem ex_eCas {v p} (hp : s.parked t = none) (hl : s.loc t = .eCas v p) (hc : s.mem 1 = p) :
    ∃ s', Next s (.step t) t (.eWrite v p) (updM s.mem 1 (p + 1)) s' :=
  ⟨setLoc (setMem s 1 (p + 1)) t (L.eWrite v p),
    by simp [exec, hp, proto, op, cont, memEffect, hl, hc], hp, if_pos rfl, rfl⟩

theorem ex_eWrite {v p} (hp : s.parked t = none) (hl : s.loc t = .eWrite v p) :
    ∃ s', Next s (.step t) t (.ePub p) (updM s.mem (dataF K p) v) s' :=
  ⟨setLoc (setMem s (dataF K p) v) t (L.ePub p),
    by simp [exec, hp, proto, op, cont, memEffect, hl], hp, if_pos rfl, rfl⟩

theorem ex_ePub {p} (hp : s.parked t = none) (hl : s.loc t = .ePub p) :
    ∃ s', Next s (.step t) t (.done [1]) (updM s.mem (seqF K p) (p + 1)) s' :=
  ⟨setLoc (setMem s (seqF K p) (p + 1)) t (L.done [1]),
    by simp [exec, hp, proto, op, cont, memEffect, hl], hp, if_pos rfl, rfl⟩

theorem ex_oLoadH (hp : s.parked t = none) (hl : s.loc t = .oLoadH) :
    ∃ s', Next s (.step t) t (.oLoadT (s.mem 0)) s.mem s' :=
  ⟨setLoc s t (L.oLoadT (s.mem 0)), by simp [exec, hp, proto, op, cont, memEffect, hl], hp,
    if_pos rfl, rfl⟩

theorem ex_oLoadT {x} (hp : s.parked t = none) (hl : s.loc t = .oLoadT x) :
    ∃ s', Next s (.step t) t (if x = s.mem 1 then .done [0] else .oLoadSeq x) s.mem s' :=
  ⟨setLoc s t (if x = s.mem 1 then .done [0] else .oLoadSeq x : L),
    by simp [exec, hp, proto, op, cont, memEffect, hl], hp, if_pos rfl, rfl⟩

theorem ex_oLoadSeq {x} (hp : s.parked t = none) (hl : s.loc t = .oLoadSeq x) :
    ∃ s', Next s (.step t) t (if s.mem (seqF K x) - (x + 1) = 0 then .oCas x else .done [0])
      s.mem s' :=
  ⟨setLoc s t (if s.mem (seqF K x) - (x + 1) = 0 then .oCas x else .done [0] : L),
    by simp [exec, hp, proto, op, cont, memEffect, hl], hp, if_pos rfl, rfl⟩

theorem ex_oCas {x} (hp : s.parked t = none) (hl : s.loc t = .oCas x) (hc : s.mem 0 = x) :
    ∃ s', Next s (.step t) t (.oTake x) (updM s.mem 0 (x + 1)) s' :=
  ⟨setLoc (setMem s 0 (x + 1)) t (L.oTake x),
    by simp [exec, hp, proto, op, cont, memEffect, hl, hc], hp, if_pos rfl, rfl⟩

theorem ex_oTake {x} (hp : s.parked t = none) (hl : s.loc t = .oTake x) :
    ∃ s', Next s (.step t) t (.oPub x (s.mem (dataF K x))) (updM s.mem (dataF K x) (-1)) s' :=
  ⟨setLoc (setMem s (dataF K x) (-1)) t (L.oPub x (s.mem (dataF K x))),
    by simp [exec, hp, proto, op, cont, memEffect, hl, movedFrom], hp, if_pos rfl, rfl⟩

theorem ex_oPub {x v} (hp : s.parked t = none) (hl : s.loc t = .oPub x v) :
    ∃ s', Next s (.step t) t (.done [1, v]) (updM s.mem (seqF K x) (x + K)) s' :=
  ⟨setLoc (setMem s (seqF K x) (x + K)) t (L.done [1, v]),
    by simp [exec, hp, proto, op, cont, memEffect, hl], hp, if_pos rfl, rfl⟩

end seqrun

/-! ### histories: the claim/value logs read off the event list of a run -/

/-- positions `e, e+1, …, e+n-1` -/
def posRange (e : Int) (n : Nat) : List Int := (List.range n).map fun (i : Nat) => e + (i : Int)

/-- what is read off a history: per thread the positions claimed by a successful tail CAS whose
element has not been stored yet (in order) and the position claimed by a successful head CAS whose
element has not been taken yet; the (position, value) pairs of all element stores; the
(position, value) pairs of all element takes. -/
structure Logs where
  pendPush : TId → List Int
  pendPop : TId → Option Int
  pushLog : List (Int × Int)
  popLog : List (Int × Int)

def Logs.empty : Logs := ⟨fun _ => [], fun _ => none, [], []⟩

/-- element fields are the odd fields ≥ 3 -/
def isData (f : Nat) : Bool := decide (3 ≤ f) && decide (f % 2 = 1)

def Logs.setPend (g : Logs) (t : TId) (l : List Int) : Logs :=
  { g with pendPush := fun u => if u = t then l else g.pendPush u }
def Logs.setPP (g : Logs) (t : TId) (o : Option Int) : Logs :=
  { g with pendPop := fun u => if u = t then o else g.pendPop u }
def Logs.addPush (g : Logs) (p v : Int) : Logs := { g with pushLog := g.pushLog ++ [(p, v)] }
def Logs.addPop (g : Logs) (p v : Int) : Logs := { g with popLog := g.popLog ++ [(p, v)] }

/-- a `cas f e d` event succeeded iff its result (the observed value) is `e`.
tail CAS `e → d`: the thread claims positions `e … d-1`; head CAS: it claims `e`;
element store: value of the thread's oldest claimed position without a value;
element exchange: value taken for the thread's claimed pop position. -/
def logStep (g : Logs) (ev : Ev) : Logs :=
  match ev.op with
  | .cas f e d =>
    if ev.res = e then
      if f = 1 then g.setPend ev.tid (g.pendPush ev.tid ++ posRange e (d - e).toNat)
      else if f = 0 then g.setPP ev.tid (some e)
      else g
    else g
  | .store f v =>
    if isData f then
      match g.pendPush ev.tid with
      | p :: ps => (g.setPend ev.tid ps).addPush p v
      | [] => g
    else g
  | .xchg f _ =>
    if isData f then
      match g.pendPop ev.tid with
      | some h => (g.setPP ev.tid none).addPop h ev.res
      | none => g
    else g
  | _ => g

def logsOf (evs : List Ev) : Logs := evs.foldl logStep Logs.empty

theorem isData_odd (n : Nat) : isData (3 + 2 * n) = true := by
  simp only [isData, Bool.and_eq_true, decide_eq_true_eq]; omega
theorem isData_even (n : Nat) : isData (2 + 2 * n) = false := by
  simp only [isData, Bool.and_eq_false_iff, decide_eq_false_iff_not]; omega
@[simp] theorem isData_dataF (K p) : isData (dataF K p) = true := isData_odd _
@[simp] theorem isData_seqF (K p) : isData (seqF K p) = false := isData_even _

theorem mem_posRange {e : Int} {n : Nat} {q : Int} : q ∈ posRange e n ↔ e ≤ q ∧ q < e + n := by
  unfold posRange
  rw [List.mem_map]
  constructor
  · rintro ⟨i, hi, rfl⟩; rw [List.mem_range] at hi; omega
  · intro h; exact ⟨(q - e).toNat, by rw [List.mem_range]; omega, by omega⟩

theorem posRange_succ (e : Int) (n : Nat) : posRange e (n + 1) = e :: posRange (e + 1) n := by
  unfold posRange
  rw [List.range_succ_eq_map, List.map_cons, List.map_map]
  congr 1
  · simp
  · apply List.map_congr_left
    intro i _
    simp only [Function.comp]; omega

theorem posRange_nodup (e : Int) (n : Nat) : (posRange e n).Nodup := by
  induction n generalizing e with
  | zero => simp [posRange]
  | succ n ih =>
    rw [posRange_succ]
    refine List.nodup_cons.2 ⟨fun h => ?_, ih _⟩
    have := (mem_posRange.1 h).1; omega

/-- positions claimed by the thread whose element is not stored yet -/
def pendOf : L → List Int
  | .eWrite _ p => [p]
  | .bWrite _ p i n => posRange (p + i) (n - i)
  | .bPub _ p i n => posRange (p + i + 1) (n - i - 1)
  | _ => []

/-- position claimed by the thread whose element is not taken yet -/
def ppOf : L → Option Int
  | .oTake h => some h
  | _ => none

theorem pendOf_owns {l : L} {q : Int} (h : q ∈ pendOf l) : ownsPush l q := by
  cases l <;> simp only [pendOf, List.not_mem_nil, List.mem_singleton] at h
  case eWrite v p => exact h
  case bWrite vs p i n => have := mem_posRange.1 h; simp only [ownsPush]; omega
  case bPub vs p i n => have := mem_posRange.1 h; simp only [ownsPush]; omega

theorem ppOf_owns {l : L} {q : Int} (h : ppOf l = some q) : ownsPop l q := by
  cases l <;> simp [ppOf] at h
  case oTake x => simp [ownsPop, h]

theorem pendOf_nodup (l : L) : (pendOf l).Nodup := by
  cases l <;> simp [pendOf, posRange_nodup]

/-! ### the ghost invariant linking a state with the logs of the history that led to it -/

structure Hist (K : Nat) (mem : Fld → Int) (PD : TId → List Int) (PP : TId → Option Int)
    (g : Logs) : Prop where
  pend : ∀ t, g.pendPush t = PD t
  ppend : ∀ t, g.pendPop t = PP t
  nodupPush : (g.pushLog.map Prod.fst).Nodup
  logged : ∀ p v, (p, v) ∈ g.pushLog → 0 ≤ p ∧ p < mem 1 ∧ ∀ t, p ∉ PD t
  val : ∀ p v, (p, v) ∈ g.pushLog → (mem 0 ≤ p ∨ ∃ t, PP t = some p) → mem (dataF K p) = v
  complete : ∀ p, 0 ≤ p → p < mem 1 → (∀ t, p ∉ PD t) → ∃ v, (p, v) ∈ g.pushLog
  nodupPop : (g.popLog.map Prod.fst).Nodup
  popped : ∀ p v, (p, v) ∈ g.popLog → (p, v) ∈ g.pushLog ∧ p < mem 0 ∧ ∀ t, PP t ≠ some p
  pcomplete : ∀ p, 0 ≤ p → p < mem 0 → (∀ t, PP t ≠ some p) → ∃ v, (p, v) ∈ g.popLog

section hist
variable {K : Nat} {mem mem' : Fld → Int} {PD PD' : TId → List Int} {PP PP' : TId → Option Int}
  {OP OQ : TId → Int → Prop} {g : Logs}

theorem Hist.frame (j : Hist K mem PD PP g) (m0 : mem' 0 = mem 0) (m1 : mem' 1 = mem 1)
    (md : ∀ p, mem' (dataF K p) = mem (dataF K p)) (h1 : ∀ t, PD' t = PD t)
    (h2 : ∀ t, PP' t = PP t) : Hist K mem' PD' PP' g := by
  have e1 : PD' = PD := funext h1
  have e2 : PP' = PP := funext h2
  subst e1 e2
  constructor
  · exact j.pend
  · exact j.ppend
  · exact j.nodupPush
  · intro p v h; rw [m1]; exact j.logged p v h
  · intro p v h; rw [m0, md]; exact j.val p v h
  · intro p h1 h2; rw [m1] at h2; exact j.complete p h1 h2
  · exact j.nodupPop
  · intro p v h; rw [m0]; exact j.popped p v h
  · intro p h1 h2; rw [m0] at h2; exact j.pcomplete p h1 h2

theorem Hist.pushClaim (j : Hist K mem PD PP g) (t : TId) (n : Nat)
    (hPDt : PD t = []) (m0 : mem' 0 = mem 0) (m1 : mem' 1 = mem 1 + n)
    (md : ∀ p, mem' (dataF K p) = mem (dataF K p))
    (hPD' : ∀ u, PD' u = if u = t then posRange (mem 1) n else PD u) :
    Hist K mem' PD' PP (g.setPend t (g.pendPush t ++ posRange (mem 1) n)) := by
  constructor
  · intro u; simp only [hPD', Logs.setPend]
    split
    · rename_i e; subst e; rw [j.pend, hPDt]; rfl
    · exact j.pend u
  · exact j.ppend
  · exact j.nodupPush
  · intro p v h
    obtain ⟨a, b, c⟩ := j.logged p v h
    refine ⟨a, by rw [m1]; omega, fun u => ?_⟩
    rw [hPD']; split
    · intro hm; have := (mem_posRange.1 hm).1; omega
    · exact c u
  · intro p v h; rw [m0, md]; exact j.val p v h
  · intro p h1 h2 h3
    rw [m1] at h2
    have ht := h3 t
    rw [hPD', if_pos rfl, mem_posRange] at ht
    refine j.complete p h1 (by omega) fun u => ?_
    by_cases e : u = t
    · subst e; rw [hPDt]; simp
    · have := h3 u; rw [hPD', if_neg e] at this; exact this
  · exact j.nodupPop
  · intro p v h; rw [m0]; exact j.popped p v h
  · intro p h1 h2; rw [m0] at h2; exact j.pcomplete p h1 h2

theorem Hist.popClaim (j : Hist K mem PD PP g) (t : TId) (hPPt : PP t = none)
    (m0 : mem' 0 = mem 0 + 1) (m1 : mem' 1 = mem 1)
    (md : ∀ p, mem' (dataF K p) = mem (dataF K p))
    (hPP' : ∀ u, PP' u = if u = t then some (mem 0) else PP u) :
    Hist K mem' PD PP' (g.setPP t (some (mem 0))) := by
  constructor
  · exact j.pend
  · intro u; simp only [hPP', Logs.setPP]
    split
    · rfl
    · exact j.ppend u
  · exact j.nodupPush
  · intro p v h; rw [m1]; exact j.logged p v h
  · intro p v h hn; rw [md]
    refine j.val p v h ?_
    rcases hn with hn | ⟨u, hu⟩
    · left; rw [m0] at hn; omega
    · rw [hPP'] at hu
      split at hu
      · left; have := Option.some.inj hu; omega
      · exact Or.inr ⟨u, hu⟩
  · intro p h1 h2; rw [m1] at h2; exact j.complete p h1 h2
  · exact j.nodupPop
  · intro p v h
    obtain ⟨a, b, c⟩ := j.popped p v h
    refine ⟨a, by rw [m0]; omega, fun u => ?_⟩
    rw [hPP']; split
    · intro hu; have := Option.some.inj hu; omega
    · exact c u
  · intro p h1 h2 h3
    rw [m0] at h2
    have ht := h3 t
    rw [hPP', if_pos rfl] at ht
    have hne : p ≠ mem 0 := fun e => ht (by rw [e])
    refine j.pcomplete p h1 (by omega) fun u => ?_
    by_cases e : u = t
    · subst e; rw [hPPt]; simp
    · have := h3 u; rw [hPP', if_neg e] at this; exact this

theorem Hist.pushStore (j : Hist K mem PD PP g) (c : Core K mem OP OQ) (hK : 1 ≤ K)
    (hPD : ∀ t q, q ∈ PD t → OP t q) (hPP : ∀ t q, PP t = some q → OQ t q)
    (hnd : ∀ t, (PD t).Nodup) (t : TId) (q v : Int) (rest : List Int)
    (hq : PD t = q :: rest) (m0 : mem' 0 = mem 0) (m1 : mem' 1 = mem 1)
    (md1 : mem' (dataF K q) = v)
    (md : ∀ p, wrapIdx K p ≠ wrapIdx K q → mem' (dataF K p) = mem (dataF K p))
    (hPD' : ∀ u, PD' u = if u = t then rest else PD u) :
    Hist K mem' PD' PP ((g.setPend t rest).addPush q v) := by
  have b := c.bnd
  have oq : OP t q := hPD t q (by rw [hq]; simp)
  have wq := c.own_win (Or.inl oq)
  have hnl : ∀ w, (q, w) ∉ g.pushLog := fun w hw => (j.logged q w hw).2.2 t (by rw [hq]; simp)
  have hndt := hnd t
  rw [hq, List.nodup_cons] at hndt
  constructor
  · intro u; simp only [hPD', Logs.setPend, Logs.addPush]
    split
    · rfl
    · exact j.pend u
  · exact j.ppend
  · simp only [Logs.setPend, Logs.addPush, List.map_append, List.map_cons, List.map_nil]
    rw [List.nodup_append]
    refine ⟨j.nodupPush, by simp, ?_⟩
    intro a ha b' hb'
    simp only [List.mem_singleton] at hb'
    subst hb'
    rintro rfl
    obtain ⟨⟨p, w⟩, hpw, rfl⟩ := List.mem_map.1 ha
    exact hnl w hpw
  · intro p w h
    rw [m1]
    rcases List.mem_append.1 h with h | h
    · obtain ⟨a, b', c'⟩ := j.logged p w h
      refine ⟨a, b', fun u => ?_⟩
      rw [hPD']; split
      · rename_i e; subst e
        intro hm; exact c' u (by rw [hq]; exact List.mem_cons_of_mem _ hm)
      · exact c' u
    · simp only [List.mem_singleton, Prod.mk.injEq] at h
      obtain ⟨rfl, rfl⟩ := h
      refine ⟨by omega, by omega, fun u => ?_⟩
      rw [hPD']; split
      · exact hndt.1
      · rename_i e
        intro hm; exact e (c.upush _ _ _ (hPD u p hm) oq)
  · intro p w h hn
    rw [m0] at hn
    rcases List.mem_append.1 h with h | h
    · have hw : wrapIdx K p ≠ wrapIdx K q := by
        intro hw
        have lg := j.logged p w h
        have win : mem 1 - K ≤ p ∧ p < mem 1 := by
          rcases hn with hn | ⟨u, hu⟩
          · omega
          · have := c.own_win (Or.inr (hPP u p hu)); omega
        have e : p = q := wrap_inj (K := K) hK hw (by omega) (by omega)
        rw [e] at h; exact hnl w h
      rw [md p hw]; exact j.val p w h hn
    · simp only [List.mem_singleton, Prod.mk.injEq] at h
      obtain ⟨rfl, rfl⟩ := h
      exact md1
  · intro p h1 h2 h3
    rw [m1] at h2
    by_cases e : p = q
    · subst e; exact ⟨v, List.mem_append.2 (Or.inr (by simp))⟩
    · obtain ⟨w, hw⟩ := j.complete p h1 h2 fun u => by
        by_cases eu : u = t
        · subst eu
          have := h3 u; rw [hPD', if_pos rfl] at this
          rw [hq]; simp only [List.mem_cons, not_or]; exact ⟨e, this⟩
        · have := h3 u; rw [hPD', if_neg eu] at this; exact this
      exact ⟨w, List.mem_append.2 (Or.inl hw)⟩
  · exact j.nodupPop
  · intro p w h
    obtain ⟨a, b', c'⟩ := j.popped p w h
    exact ⟨List.mem_append.2 (Or.inl a), by rw [m0]; exact b', c'⟩
  · intro p h1 h2; rw [m0] at h2; exact j.pcomplete p h1 h2

theorem Hist.popTake (j : Hist K mem PD PP g) (c : Core K mem OP OQ) (hK : 1 ≤ K)
    (hPD : ∀ t q, q ∈ PD t → OP t q) (hPP : ∀ t q, PP t = some q → OQ t q)
    (t : TId) (x : Int) (hx : PP t = some x)
    (m0 : mem' 0 = mem 0) (m1 : mem' 1 = mem 1)
    (md : ∀ p, wrapIdx K p ≠ wrapIdx K x → mem' (dataF K p) = mem (dataF K p))
    (hPP' : ∀ u, PP' u = if u = t then none else PP u) :
    Hist K mem' PD PP' ((g.setPP t none).addPop x (mem (dataF K x))) := by
  have b := c.bnd
  have ox : OQ t x := hPP t x hx
  have wx := c.opop _ _ ox
  have hnl : ∀ w, (x, w) ∉ g.popLog := fun w hw => (j.popped x w hw).2.2 t hx
  have hPPu : ∀ u p, PP' u = some p → u ≠ t ∧ PP u = some p := by
    intro u p hu
    rw [hPP'] at hu
    split at hu
    · cases hu
    · rename_i e; exact ⟨e, hu⟩
  constructor
  · exact j.pend
  · intro u; simp only [hPP', Logs.setPP, Logs.addPop]
    split
    · rfl
    · exact j.ppend u
  · exact j.nodupPush
  · intro p v h; rw [m1]; exact j.logged p v h
  · intro p w h hn
    rw [m0] at hn
    have hn' : mem 0 ≤ p ∨ ∃ u, PP u = some p := by
      rcases hn with hn | ⟨u, hu⟩
      · exact Or.inl hn
      · exact Or.inr ⟨u, (hPPu u p hu).2⟩
    have hw : wrapIdx K p ≠ wrapIdx K x := by
      intro hw
      have lg := j.logged p w h
      have win : mem 1 - K ≤ p ∧ p < mem 1 := by
        rcases hn' with hn' | ⟨u, hu⟩
        · omega
        · have := c.own_win (Or.inr (hPP u p hu)); omega
      have e : p = x := wrap_inj (K := K) hK hw (by omega) (by omega)
      subst e
      rcases hn with hn | ⟨u, hu⟩
      · omega
      · obtain ⟨e1, e2⟩ := hPPu u p hu
        exact e1 (c.upop _ _ _ (hPP u p e2) ox)
    rw [md p hw]; exact j.val p w h hn'
  · intro p h1 h2; rw [m1] at h2; exact j.complete p h1 h2
  · simp only [Logs.setPP, Logs.addPop, List.map_append, List.map_cons, List.map_nil]
    rw [List.nodup_append]
    refine ⟨j.nodupPop, by simp, ?_⟩
    intro a ha b' hb'
    simp only [List.mem_singleton] at hb'
    subst hb'
    rintro rfl
    obtain ⟨⟨p, w⟩, hpw, rfl⟩ := List.mem_map.1 ha
    exact hnl w hpw
  · intro p w h
    rw [m0]
    rcases List.mem_append.1 h with h | h
    · obtain ⟨a, b', c'⟩ := j.popped p w h
      refine ⟨a, b', fun u hu => ?_⟩
      exact c' u (hPPu u p hu).2
    · simp only [List.mem_singleton, Prod.mk.injEq] at h
      obtain ⟨rfl, rfl⟩ := h
      obtain ⟨w, hw⟩ := j.complete p (by omega) (by omega) fun u hm => by
        have := c.opush _ _ (hPD u p hm); omega
      have := j.val p w hw (Or.inr ⟨t, hx⟩)
      rw [this]
      refine ⟨hw, by omega, fun u hu => ?_⟩
      obtain ⟨e1, e2⟩ := hPPu u p hu
      exact e1 (c.upop _ _ _ (hPP u p e2) ox)
  · intro p h1 h2 h3
    rw [m0] at h2
    by_cases e : p = x
    · exact ⟨mem (dataF K x), List.mem_append.2 (Or.inr (by simp [e]))⟩
    · obtain ⟨w, hw⟩ := j.pcomplete p h1 h2 fun u => by
        by_cases eu : u = t
        · subst eu; rw [hx]; intro h; exact e (Option.some.inj h).symm
        · have := h3 u; rw [hPP', if_neg eu] at this; exact this
      exact ⟨w, List.mem_append.2 (Or.inl hw)⟩

end hist
/-! ### the ghost invariant on local states, and its preservation along `runEvs` -/

def HInv (K : Nat) (mem : Fld → Int) (loc : TId → L) (g : Logs) : Prop :=
  Hist K mem (fun t => pendOf (loc t)) (fun t => ppOf (loc t)) g

theorem posRange_zero (e : Int) : posRange e 0 = [] := rfl
theorem posRange_one (e : Int) : posRange e 1 = [e] := by simp [posRange]

section hinv
variable {K : Nat} {mem mem' : Fld → Int} {loc : TId → L} {g : Logs}

theorem updL_apply_eq {α : Type} (f : L → α) (loc : TId → L) (t : TId) (l' : L)
    (h : f l' = f (loc t)) (u : TId) : f (updL loc t l' u) = f (loc u) := by
  by_cases e : u = t
  · subst e; simp [h]
  · rw [updL_ne e]

theorem updL_apply_if {α : Type} (f : L → α) (loc : TId → L) (t : TId) (l' : L) (u : TId) :
    f (updL loc t l' u) = if u = t then f l' else f (loc u) := by
  by_cases e : u = t
  · subst e; simp
  · rw [updL_ne e, if_neg e]

theorem HInv.frame (j : HInv K mem loc g) (t : TId) (l' : L)
    (hpd : pendOf l' = pendOf (loc t)) (hpp : ppOf l' = ppOf (loc t))
    (m0 : mem' 0 = mem 0) (m1 : mem' 1 = mem 1)
    (md : ∀ p, mem' (dataF K p) = mem (dataF K p)) : HInv K mem' (updL loc t l') g :=
  Hist.frame j m0 m1 md (updL_apply_eq pendOf loc t l' hpd) (updL_apply_eq ppOf loc t l' hpp)

theorem HInv.pushClaim (j : HInv K mem loc g) (t : TId) (l' : L) (n : Nat)
    (hpd0 : pendOf (loc t) = []) (hpd : pendOf l' = posRange (mem 1) n)
    (hpp : ppOf l' = ppOf (loc t)) :
    HInv K (updM mem 1 (mem 1 + n)) (updL loc t l')
      (g.setPend t (g.pendPush t ++ posRange (mem 1) n)) :=
  (Hist.pushClaim j t n hpd0 (by simp [updM]) (by simp [updM]) (by simp [updM])
    (fun u => by rw [updL_apply_if pendOf, hpd])).frame rfl rfl (fun _ => rfl) (fun _ => rfl)
    (updL_apply_eq ppOf loc t l' hpp)

theorem HInv.popClaim (j : HInv K mem loc g) (t : TId) (l' : L) (hpp0 : ppOf (loc t) = none)
    (hpd : pendOf l' = pendOf (loc t)) (hpp : ppOf l' = some (mem 0)) :
    HInv K (updM mem 0 (mem 0 + 1)) (updL loc t l') (g.setPP t (some (mem 0))) :=
  (Hist.popClaim j t hpp0 (by simp [updM]) (by simp [updM]) (by simp [updM])
    (fun u => by rw [updL_apply_if ppOf, hpp])).frame rfl rfl (fun _ => rfl)
    (updL_apply_eq pendOf loc t l' hpd) (fun _ => rfl)

theorem HInv.pushStore (j : HInv K mem loc g) (i : Inv K mem loc) (hK : 1 ≤ K) (t : TId)
    (l' : L) (q v : Int) (hpd0 : pendOf (loc t) = q :: pendOf l') (hpp : ppOf l' = ppOf (loc t)) :
    HInv K (updM mem (dataF K q) v) (updL loc t l') ((g.setPend t (pendOf l')).addPush q v) :=
  (Hist.pushStore j i.1 hK (fun _ _ h => pendOf_owns h) (fun _ _ h => ppOf_owns h)
    (fun u => pendOf_nodup _) t q v (pendOf l') hpd0 (by simp [updM]) (by simp [updM])
    (by simp [updM]) (fun p hw => by simp [updM, hw])
    (fun u => by rw [updL_apply_if pendOf])).frame rfl rfl (fun _ => rfl) (fun _ => rfl)
    (updL_apply_eq ppOf loc t l' hpp)

theorem HInv.popTake (j : HInv K mem loc g) (i : Inv K mem loc) (hK : 1 ≤ K) (t : TId)
    (l' : L) (x v : Int) (hpp0 : ppOf (loc t) = some x) (hpp : ppOf l' = none)
    (hpd : pendOf l' = pendOf (loc t)) :
    HInv K (updM mem (dataF K x) v) (updL loc t l')
      ((g.setPP t none).addPop x (mem (dataF K x))) :=
  (Hist.popTake j i.1 hK (fun _ _ h => pendOf_owns h) (fun _ _ h => ppOf_owns h)
    t x hpp0 (by simp [updM]) (by simp [updM]) (fun p hw => by simp [updM, hw])
    (fun u => by rw [updL_apply_if ppOf, hpp])).frame rfl rfl (fun _ => rfl)
    (updL_apply_eq pendOf loc t l' hpd) (fun _ => rfl)

theorem HInv.seqStore (j : HInv K mem loc g) (t : TId) (l' : L) (q v : Int)
    (hpd : pendOf l' = pendOf (loc t)) (hpp : ppOf l' = ppOf (loc t)) :
    HInv K (updM mem (seqF K q) v) (updL loc t l') g :=
  j.frame t l' hpd hpp (by simp [updM]) (by simp [updM]) (fun _ => by simp [updM])

theorem HInv.plain (j : HInv K mem loc g) (t : TId) (l' : L)
    (hpd : pendOf l' = pendOf (loc t)) (hpp : ppOf l' = ppOf (loc t)) :
    HInv K mem (updL loc t l') g :=
  j.frame t l' hpd hpp rfl rfl (fun _ => rfl)

end hinv

theorem HInv.init (K : Nat) : HInv K (init K).mem (init K).loc Logs.empty := by
  constructor
  · intro t; rfl
  · intro t; rfl
  · exact List.nodup_nil
  · intro p v h; cases h
  · intro p v h; cases h
  · intro p h1 h2; simp at h2; omega
  · exact List.nodup_nil
  · intro p v h; cases h
  · intro p h1 h2; simp at h2; omega

/-- the logs after one more action -/
def logAct {K : Nat} (s : State (proto K)) (a : Act (proto K)) (g : Logs) : Logs :=
  match evOf s a with
  | some e => logStep g e
  | none => g

theorem logAct_of {K : Nat} {s : State (proto K)} {a : Act (proto K)} {g : Logs} {e : Ev}
    (h : evOf s a = some e) : logAct s a g = logStep g e := by
  simp [logAct, h]

theorem hist_step {K : Nat} (hK : 2 ≤ K) {s s' : State (proto K)} {a : Act (proto K)} {g : Logs}
    (hs : SInv K s) (j : HInv K s.mem s.loc g) (he : exec s a = some s') :
    HInv K s'.mem s'.loc (logAct s a g) := by
  have hK1 : 1 ≤ K := by omega
  cases a with
  | step t =>
    have hp := hs.1 t
    have hli := hs.2.2 t
    have jp : g.pendPush t = pendOf (s.loc t) := j.pend t
    have jpp : g.pendPop t = ppOf (s.loc t) := j.ppend t
    cases hl : s.loc t <;> simp [exec, hp, proto, op, cont, memEffect, hl] at he <;>
      rw [hl] at hli jp jpp
    case eLoadT v =>
      cases he
      rw [logAct_of (e := ⟨t, .load 1, s.mem 1⟩) (by simp [evOf, proto, op, memEffect, hl])]
      exact j.plain t _ (by simp [pendOf, hl]) (by simp [ppOf, hl])
    case eLoadSeq v p =>
      cases he
      rw [logAct_of (e := ⟨t, .load (seqF K p), s.mem (seqF K p)⟩)
        (by simp [evOf, proto, op, memEffect, hl])]
      refine j.plain t _ ?_ ?_ <;> split_ifs <;> simp [pendOf, ppOf, hl]
    case eCas v p =>
      have hev : evOf s (.step t) = some ⟨t, .cas 1 p (p + 1), s.mem 1⟩ := by
        simp [evOf, proto, op, memEffect, hl]
      rw [logAct_of hev]
      by_cases hc : s.mem 1 = p
      · simp [hc] at he; cases he
        have e1 : (p + 1 - p).toNat = 1 := by omega
        have := j.pushClaim t (.eWrite v p) 1 (by simp [pendOf, hl])
          (by simp [pendOf, posRange_one, hc]) (by simp [ppOf, hl])
        simp only [logStep, hc, if_pos, e1]
        rw [hc] at this
        exact this
      · simp [hc] at he; cases he
        simp only [logStep, if_neg hc]
        exact j.plain t _ (by simp [pendOf, hl]) (by simp [ppOf, hl])
    case eWrite v p =>
      cases he
      rw [logAct_of (e := ⟨t, .store (dataF K p) v, 0⟩) (by simp [evOf, proto, op, memEffect, hl])]
      simp only [logStep, isData_dataF, if_pos, jp, pendOf]
      exact j.pushStore hs.2 hK1 t (.ePub p) p v (by simp [pendOf, hl]) (by simp [ppOf, hl])
    case ePub p =>
      cases he
      rw [logAct_of (e := ⟨t, .store (seqF K p) (p + 1), 0⟩)
        (by simp [evOf, proto, op, memEffect, hl])]
      simp only [logStep, isData_seqF]
      exact j.seqStore t _ _ _ (by simp [pendOf, hl]) (by simp [ppOf, hl])
    case oLoadH =>
      cases he
      rw [logAct_of (e := ⟨t, .load 0, s.mem 0⟩) (by simp [evOf, proto, op, memEffect, hl])]
      exact j.plain t _ (by simp [pendOf, hl]) (by simp [ppOf, hl])
    case oLoadT x =>
      cases he
      rw [logAct_of (e := ⟨t, .load 1, s.mem 1⟩) (by simp [evOf, proto, op, memEffect, hl])]
      refine j.plain t _ ?_ ?_ <;> split_ifs <;> simp [pendOf, ppOf, hl]
    case oLoadSeq x =>
      cases he
      rw [logAct_of (e := ⟨t, .load (seqF K x), s.mem (seqF K x)⟩)
        (by simp [evOf, proto, op, memEffect, hl])]
      refine j.plain t _ ?_ ?_ <;> split_ifs <;> simp [pendOf, ppOf, hl]
    case oCas x =>
      have hev : evOf s (.step t) = some ⟨t, .cas 0 x (x + 1), s.mem 0⟩ := by
        simp [evOf, proto, op, memEffect, hl]
      rw [logAct_of hev]
      by_cases hc : s.mem 0 = x
      · simp [hc] at he; cases he
        have := j.popClaim t (.oTake x) (by simp [ppOf, hl]) (by simp [pendOf, hl]) (by simp [ppOf, hc])
        simp only [logStep, hc, if_pos]
        rw [hc] at this
        exact this
      · simp [hc] at he; cases he
        simp only [logStep, if_neg hc]
        exact j.plain t _ (by simp [pendOf, hl]) (by simp [ppOf, hl])
    case oTake x =>
      cases he
      rw [logAct_of (e := ⟨t, .xchg (dataF K x) movedFrom, s.mem (dataF K x)⟩)
        (by simp [evOf, proto, op, memEffect, hl])]
      simp only [logStep, isData_dataF, if_pos, jpp, ppOf]
      exact j.popTake hs.2 hK1 t (.oPub x (s.mem (dataF K x))) x movedFrom (by simp [ppOf, hl])
        (by simp [ppOf]) (by simp [pendOf, hl])
    case oPub x v =>
      cases he
      rw [logAct_of (e := ⟨t, .store (seqF K x) (x + K), 0⟩)
        (by simp [evOf, proto, op, memEffect, hl])]
      simp only [logStep, isData_seqF]
      exact j.seqStore t _ _ _ (by simp [pendOf, hl]) (by simp [ppOf, hl])
    case bLoadT vs =>
      cases he
      rw [logAct_of (e := ⟨t, .load 1, s.mem 1⟩) (by simp [evOf, proto, op, memEffect, hl])]
      exact j.plain t _ (by simp [pendOf, hl]) (by simp [ppOf, hl])
    case bSeq vs p i =>
      cases he
      rw [logAct_of (e := ⟨t, .load (seqF K (p + i)), s.mem (seqF K (p + i))⟩)
        (by simp [evOf, proto, op, memEffect, hl])]
      refine j.plain t _ ?_ ?_ <;> split_ifs <;> simp [pendOf, ppOf, hl]
    case bCas vs p n =>
      have hev : evOf s (.step t) = some ⟨t, .cas 1 p (p + n), s.mem 1⟩ := by
        simp [evOf, proto, op, memEffect, hl]
      rw [logAct_of hev]
      by_cases hc : s.mem 1 = p
      · simp [hc] at he; cases he
        have e1 : (p + (n : Int) - p).toNat = n := by omega
        have := j.pushClaim t (.bWrite vs p 0 n) n (by simp [pendOf, hl])
          (by simp [pendOf, hc]) (by simp [ppOf, hl])
        simp only [logStep, hc, if_pos, e1]
        rw [hc] at this
        exact this
      · simp [hc] at he; cases he
        simp only [logStep, if_neg hc]
        exact j.plain t _ (by simp [pendOf, hl]) (by simp [ppOf, hl])
    case bWrite vs p i n =>
      cases he
      rw [logAct_of (e := ⟨t, .store (dataF K (p + i)) (vs.getD i 0), 0⟩)
        (by simp [evOf, proto, op, memEffect, hl])]
      have hin : i < n := hli.2.1
      have e1 : pendOf (L.bWrite vs p i n) = (p + i) :: pendOf (L.bPub vs p i n) := by
        simp only [pendOf]
        have : n - i = (n - i - 1) + 1 := by omega
        rw [this, posRange_succ]
        simp
      simp only [logStep, isData_dataF, if_pos, jp, e1]
      exact j.pushStore hs.2 hK1 t (.bPub vs p i n) (p + i) _ (by rw [hl, e1])
        (by simp [ppOf, hl])
    case bPub vs p i n =>
      cases he
      rw [logAct_of (e := ⟨t, .store (seqF K (p + i)) (p + i + 1), 0⟩)
        (by simp [evOf, proto, op, memEffect, hl])]
      simp only [logStep, isData_seqF]
      refine j.seqStore t _ _ _ ?_ ?_
      · split_ifs with h1
        · simp only [pendOf, hl]
          have e1 : p + ((i + 1 : Nat) : Int) = p + i + 1 := by omega
          have e2 : n - (i + 1) = n - i - 1 := by omega
          rw [e1, e2]
        · simp only [pendOf, hl]
          have e2 : n - i - 1 = 0 := by omega
          rw [e2]; rfl
      · split_ifs <;> simp [ppOf, hl]
    case qLoadH w =>
      cases he
      rw [logAct_of (e := ⟨t, .load 0, s.mem 0⟩) (by simp [evOf, proto, op, memEffect, hl])]
      exact j.plain t _ (by simp [pendOf, hl]) (by simp [ppOf, hl])
    case qLoadT w x =>
      cases he
      rw [logAct_of (e := ⟨t, .load 1, s.mem 1⟩) (by simp [evOf, proto, op, memEffect, hl])]
      obtain ⟨y, hy⟩ := cont_qLoadT K w x (s.mem 1)
      have := j.plain t (.done y) (by simp [pendOf, hl]) (by simp [ppOf, hl])
      rw [← hy] at this
      exact this
  | wake t ws =>
    exfalso
    have hp := hs.1 t
    cases hl : s.loc t <;> simp [exec, hp, proto, op, hl] at he
  | timeout t => simp [exec, hs.1 t] at he
  | spurious t => simp [exec, hs.1 t] at he
  | call t l =>
    simp only [exec] at he
    split at he
    · rename_i hc
      obtain ⟨_, h2, h3⟩ := hc
      cases he
      have hidle : pendOf (s.loc t) = [] ∧ ppOf (s.loc t) = none := by
        cases hl : s.loc t <;> simp [proto, op, hl] at h2 <;> simp [pendOf, ppOf]
      have h3' : isEntry K l = true := by
        simp [proto] at h3; exact h3.2
      have hent : pendOf l = [] ∧ ppOf l = none := by
        cases l <;> simp [isEntry] at h3' <;> simp [pendOf, ppOf]
      have : logAct s (.call t l) g = g := rfl
      rw [this]
      exact j.plain t l (by rw [hent.1, hidle.1]) (by rw [hent.2, hidle.2])
    · contradiction


/-- the ghost invariant as a predicate on states -/
def HSt (K : Nat) (s : State (proto K)) (g : Logs) : Prop := HInv K s.mem s.loc g

theorem hist_run {K : Nat} (hK : 2 ≤ K) (as : List (Act (proto K))) :
    ∀ (s : State (proto K)) (g : Logs) (sf : State (proto K)) (evs : List Ev),
      Reachable (init K) s → HSt K s g → runEvs s as = some (sf, evs) →
      Reachable (init K) sf ∧ HSt K sf (evs.foldl logStep g) := by
  induction as with
  | nil =>
    intro s g sf evs hr j h
    simp only [runEvs, Option.some.injEq, Prod.mk.injEq] at h
    obtain ⟨rfl, rfl⟩ := h
    exact ⟨hr, j⟩
  | cons a as ih =>
    intro s g sf evs hr j h
    simp only [runEvs] at h
    split at h
    · rename_i s' he
      split at h
      · rename_i sf' evs' hrun
        simp only [Option.some.injEq, Prod.mk.injEq] at h
        obtain ⟨rfl, rfl⟩ := h
        have j' : HSt K s' (logAct s a g) := hist_step hK (SInv.reachable hK hr) j he
        have := ih s' (logAct s a g) sf' evs' (.step a hr he) j' hrun
        rw [List.foldl_append]
        unfold logAct at this
        cases hev : evOf s a <;> simp only [hev] at this ⊢ <;> exact this
      · cases h
    · cases h

end Dispenso.Mpmc
