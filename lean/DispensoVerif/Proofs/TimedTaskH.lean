import DispensoVerif.Proofs.TimedTask

/-! C26: with an inline schedulable the invocations are sequential, and an unpublished `false`
    return is held by a wrap that is not yet done -/
namespace Dispenso.TimedTask
set_option linter.unusedSimpArgs false

theorem countP_disjoint_le {p q r : W → Bool} (hp : ∀ w, p w = true → r w = true)
    (hq : ∀ w, q w = true → r w = true) (hd : ∀ w, p w = true → q w = false) (l : List W) :
    cnt p l + cnt q l ≤ cnt r l := by
  unfold cnt
  induction l with
  | nil => simp
  | cons x xs ih =>
    simp only [List.countP_cons]
    have h1 := hp x; have h2 := hq x; have h3 := hd x
    cases hpx : p x <;> cases hqx : q x <;> cases hrx : r x <;> simp_all <;> omega

structure InvH (c : Cfg) (s : St) : Prop where
  seq : c.inl = true → s.k.isInl = true ∨ cnt notDone s.wraps = 0
  one : c.inl = true → cnt notDone s.wraps ≤ 1
  mid : s.falseRet = true → s.cancelled = true ∨ 1 ≤ cnt midFalse s.wraps

theorem invH_init (c : Cfg) : InvH c (init c) := by
  constructor <;> simp [init, cnt_nil, K.isInl]

set_option maxHeartbeats 1000000 in
theorem invH_step {c : Cfg} {s s' : St} {a : Act} (hA : InvA c s) (h : InvH c s)
    (hs : step c s a = some s') : InvH c s' := by
  obtain ⟨h1, h2, h3⟩ := h
  have a1 := hA.created
  tt_steps s a hs => (constructor <;> tt_close)

end Dispenso.TimedTask
