import DispensoVerif.Proofs.Future
/-
Proofs for C20: the timed layer `texec` (a timed futex wait can time out only when its deadline
`clock-at-park + timespec` has passed; the clock, field 8, only moves forward).

`TInv`: every thread inside a timed wait carries a lower bound `lb` of the time at which it may
report a timeout: `lb ≤ clock + rel` while it is running, `lb ≤ deadline ≤ clock + rel` while it is
parked, `lb ≤ clock` once it has returned "timeout".  For `wait_for(rel)` / `waitFor(rel)` the bound
is `clock-at-call + rel`, for `wait_until(abs)` / `waitUntil(abs)` it is `abs`.
Holds for every client contract whose entry points carry no bound of their own (`EntryT`), in
particular for `futEntry cfg` and `evtEntry`.  Core Lean only.
-/
namespace Dispenso.Future
open Dispenso.Conc Dispenso.ConcL

def kT (now : Int) : K → Prop
  | .timed rel lb => lb ≤ now + rel
  | _ => True

/-- the timing facts a control state carries (`parked`: the thread is parked in the futex wait) -/
def TIpc (now dl : Int) (parked : Bool) : PC → Prop
  | .wfWait rel lb _ => if parked then lb ≤ dl ∧ dl ≤ now + rel else lb ≤ now + rel
  | .wfLoad0 rel lb => lb ≤ now + rel
  | .wfLoad rel lb => lb ≤ now + rel
  | .tdone r lb => r = 0 → lb ≤ now
  | .tick n => 0 ≤ n
  | .rnCas k | .fnInc k | .fnStore k | .fnThrow k | .ntStore k | .ntWake k | .tsSub k => kT now k
  | .wcLoad k _ | .evLoad k | .evWait k _ => kT now k
  | _ => True

theorem kT_mono {now now' : Int} (h : now ≤ now') {k : K} (hk : kT now k) : kT now' k := by
  cases k <;> simp only [kT] at hk ⊢ <;> omega

theorem TIpc_mono {now now' dl : Int} {p : Bool} (h : now ≤ now') {pc : PC}
    (hk : TIpc now dl p pc) : TIpc now' dl p pc := by
  cases pc <;> simp only [TIpc] at hk ⊢ <;> first
    | exact kT_mono h hk
    | (split at hk <;> simp_all <;> omega)
    | (intro h0; have := hk h0; omega)
    | omega
    | trivial

/-- dropping the `parked` flag of a thread that is not in a timed futex wait changes nothing -/
theorem TIpc_unparked_of_not_wfWait {now dl dl' : Int} {p p' : Bool} {pc : PC}
    (hn : ∀ rel lb cur, pc ≠ .wfWait rel lb cur) (hk : TIpc now dl p pc) : TIpc now dl' p' pc := by
  cases pc <;> simp only [TIpc] at hk ⊢ <;> first | exact hk | (exact absurd rfl (hn _ _ _))

structure TInv {cfg e} (ts : TState (mkP cfg e)) : Prop where
  pk : ∀ u f b, ts.st.parked u = some (f, b) →
    f = 0 ∧ ∃ cur, opPC cfg (ts.st.loc u).pc = some (.fwait 0 cur b)
  ti : ∀ t, TIpc (ts.st.mem 8) (ts.dl t) (ts.st.parked t).isSome (ts.st.loc t).pc

/-- entry points carry no timing facts (a `tick` must not go backwards) -/
def EntryT (e : L → L → Bool) : Prop :=
  ∀ l l', e l l' = true → ∀ now dl p, TIpc now dl p l'.pc

theorem futEntry_T (cfg : Cfg) : EntryT (futEntry cfg) := by
  intro l l' h now dl p
  obtain ⟨h0, pc⟩ := l
  obtain ⟨h1, pc'⟩ := l'
  simp only [futEntry, Bool.and_eq_true, Bool.or_eq_true, decide_eq_true_eq] at h
  obtain ⟨_, hc⟩ := h
  rcases hc with (⟨_, hf⟩ | ⟨_, hf⟩) | ⟨_, rfl⟩
  · cases pc' <;> simp_all [freeEntry, TIpc]
  · cases pc' <;> simp_all [handleEntry, TIpc]
    rename_i k a
    cases k <;> simp_all [handleEntry, kT]
  · simp [TIpc]

theorem evtEntry_T : EntryT evtEntry := by
  intro l l' h now dl p
  obtain ⟨h0, pc⟩ := l
  obtain ⟨h1, pc'⟩ := l'
  simp only [evtEntry, Bool.and_eq_true, decide_eq_true_eq] at h
  obtain ⟨_, hf⟩ := h
  cases pc' <;> simp_all [evtEntryPC, TIpc]
  all_goals (rename_i k; cases k <;> simp_all [evtEntryPC, kT])

/-- the clock only moves forward, by the amount of a `tick` -/
theorem stepM_clock {cfg : Cfg} {m m' : Fld → Int} {pc : PC} {r : Int} (h : StepM cfg m pc r m') :
    (∀ n, pc = .tick n → m' 8 = m 8 + n) ∧ ((∀ n, pc ≠ .tick n) → m' 8 = m 8) := by
  cases pc <;> step_norm <;> simp [upd]

/-- the timing facts of the control state reached by a non-parking step -/
theorem stepM_T {cfg : Cfg} {m m' : Fld → Int} {h0 : Nat} {pc : PC} {r : Int} {dl dl' : Int}
    (h : StepM cfg m pc r m') (hk : TIpc (m 8) dl false pc) :
    TIpc (m' 8) dl' false (cont cfg ⟨h0, pc⟩ r).pc := by
  have hfin : ∀ k now, TIpc now dl' false (fin k) := by
    intro k now; cases k <;> simp [fin, TIpc]
  have hslow : ∀ k now, kT now k → TIpc now dl' false (slow k) := by
    intro k now hk; cases k <;> simp_all [slow, TIpc, kT]
  cases pc <;> step_norm <;> simp only [cont, contPC] <;> simp only [TIpc] at hk <;>
    (try simp only [upd, if_neg (by decide : ¬ (8 : Nat) = 0), if_neg (by decide : ¬ (8 : Nat) = 1),
      if_neg (by decide : ¬ (8 : Nat) = 2), if_neg (by decide : ¬ (8 : Nat) = 3),
      if_neg (by decide : ¬ (8 : Nat) = 4), if_neg (by decide : ¬ (8 : Nat) = 5),
      if_neg (by decide : ¬ (8 : Nat) = 6), if_neg (by decide : ¬ (8 : Nat) = 7)]) <;>
    (try (repeat' split)) <;>
    first
      | exact hfin _ _
      | exact hslow _ _ hk
      | (simp only [TIpc, kT] <;> first | exact hk | omega | trivial | (intro _; omega))
      | (simp [TIpc, kT, rAgain, rTimedOut] at * <;> omega)

theorem unpark_T {cfg : Cfg} {l : L} {cur : Int} {b : Bool} {now dl dl' : Int}
    (ho : opPC cfg l.pc = some (.fwait 0 cur b)) (r : Int) (hk : TIpc now dl true l.pc)
    (hto : r = rTimedOut → dl ≤ now) : TIpc now dl' false (cont cfg l r).pc := by
  obtain ⟨hh, pc⟩ := l
  cases pc <;> simp only [opPC, reduceCtorEq, Option.some.injEq] at ho
  case evWait k c => simpa [cont, contPC, TIpc] using hk
  case wfWait rel lb c =>
    simp only [TIpc, if_true] at hk
    simp only [cont, contPC]
    split
    · rename_i hr
      have := hto hr
      simp only [TIpc]; intro _; omega
    · simp only [TIpc]; omega

theorem tinv_texec {cfg e} (hE : EntryT e) {ts ts' : TState (mkP cfg e)} (a : Act (mkP cfg e))
    (I : TInv ts) (h : texec pcOfL ts a = some ts') : TInv ts' := by
  cases a with
  | step t =>
    simp only [texec, Option.map_eq_some_iff] at h
    obtain ⟨st', hx, rfl⟩ := h
    obtain ⟨hp, hcs⟩ := exec_step hx
    rcases hcs with ⟨cur, b, ho, hm, rfl⟩ | ⟨r, m', hs, rfl⟩
    · -- the thread parks: its deadline is clock + timespec
      refine ⟨fun u f b' hu => ?_, fun u => ?_⟩
      · simp only [setParked_parked] at hu
        split at hu
        · rename_i hut
          subst hut
          injection hu with hu
          injection hu with h1 h2
          subst h1 h2
          exact ⟨rfl, cur, ho⟩
        · exact I.pk u f b' hu
      · simp only [setParked_parked, setParked_mem, setParked_loc]
        split
        · rename_i hut
          subst hut
          have hk := I.ti u
          rw [hp] at hk
          simp only [Option.isSome_none] at hk
          simp only [Option.isSome_some, pcOfL]
          generalize (ts.st.loc u).pc = pc at ho hk ⊢
          cases pc <;> simp only [opPC, reduceCtorEq, Option.some.injEq] at ho
          case evWait k c => simpa [TIpc] using hk
          case wfWait rel lb c =>
            simp only [TIpc, Bool.false_eq_true, if_false] at hk
            simp only [TIpc, if_true, relOf]
            omega
        · exact I.ti u
    · have hclk := stepM_clock hs
      have hk := I.ti t
      rw [hp] at hk
      simp only [Option.isSome_none] at hk
      have hmono : ts.st.mem 8 ≤ m' 8 := by
        by_cases hn : ∃ n, (ts.st.loc t).pc = .tick n
        · obtain ⟨n, hn⟩ := hn
          have := hclk.1 n hn
          rw [hn] at hk
          simp only [TIpc] at hk
          omega
        · have := hclk.2 (fun n hn' => hn ⟨n, hn'⟩)
          omega
      refine ⟨fun u f b hu => ?_, fun u => ?_⟩
      · simp only [setLoc_parked] at hu
        have hut : u ≠ t := fun h' => by rw [h', hp] at hu; cases hu
        simpa [hut] using I.pk u f b hu
      · simp only [setLoc_parked, setLoc_mem, setLoc_loc]
        split
        · rename_i hut
          subst hut
          rw [hp]
          simp only [Option.isSome_none]
          have : (ts.st.loc u) = ⟨(ts.st.loc u).h, (ts.st.loc u).pc⟩ := rfl
          rw [this]
          exact stepM_T hs hk
        · exact TIpc_mono hmono (I.ti u)
  | wake t ws =>
    simp only [texec, Option.map_eq_some_iff] at h
    obtain ⟨st', hx, rfl⟩ := h
    obtain ⟨hp, f, n, ho, hnd, hsub, hall, htw, rfl⟩ := exec_wake_inv hx
    have ho' : opPC cfg (ts.st.loc t).pc = some (.fwake f n) := ho
    refine ⟨fun u g b hu => ?_, fun u => ?_⟩
    · simp only [setLoc_parked, unparkAll_parked] at hu
      split at hu
      · cases hu
      · rename_i huw
        have hut : u ≠ t := fun h' => by rw [h', hp] at hu; cases hu
        simpa [hut, huw, unparkAll_loc _ ws hnd] using I.pk u g b hu
    · simp only [setLoc_parked, setLoc_mem, setLoc_loc, unparkAll_parked, unparkAll_mem,
        unparkAll_loc _ ws hnd]
      by_cases hut : u = t
      · subst hut
        simp only [if_neg htw, hp, Option.isSome_none, if_true]
        have hk := I.ti u
        rw [hp] at hk
        generalize (ts.st.loc u) = l at ho' hk ⊢
        obtain ⟨hh, pc⟩ := l
        cases pc <;> simp only [opPC, reduceCtorEq, Option.some.injEq] at ho'
        case ntWake k =>
          simp only [TIpc] at hk
          show TIpc _ _ false (cont cfg ⟨hh, .ntWake k⟩ _).pc
          simp only [cont, contPC]
          split
          · simpa [TIpc] using hk
          · cases k <;> simp [fin, TIpc]
      · by_cases huw : u ∈ ws
        · simp only [if_pos huw, if_neg hut, Option.isSome_none]
          obtain ⟨_, b, hb⟩ := (mem_parkedOn ts.st f u).mp (hsub u huw)
          obtain ⟨rfl, cur, hcur⟩ := I.pk u f b hb
          have hk := I.ti u
          rw [hb] at hk
          simp only [Option.isSome_some] at hk
          exact unpark_T hcur rWoken hk (fun h' => by simp [rWoken, rTimedOut] at h')
        · simp only [if_neg huw, if_neg hut]
          exact I.ti u
  | timeout t =>
    simp only [texec] at h
    split at h
    · rename_i hdl
      simp only [Option.map_eq_some_iff] at h
      obtain ⟨st', hx, rfl⟩ := h
      obtain ⟨p, r, hp, rfl⟩ := exec_unpark_inv (Or.inl hx)
      have hr : r = rTimedOut ∨ True := Or.inr trivial
      obtain ⟨f, b⟩ := p
      obtain ⟨rfl, cur, hcur⟩ := I.pk t f b hp
      refine ⟨fun u g b' hu => ?_, fun u => ?_⟩
      · simp only [setLoc_parked, setParked_parked] at hu
        split at hu
        · cases hu
        · rename_i hut
          simpa [hut] using I.pk u g b' hu
      · simp only [setLoc_parked, setParked_parked, setLoc_mem, setParked_mem, setLoc_loc,
          setParked_loc]
        split
        · rename_i hut
          subst hut
          simp only [Option.isSome_none]
          have hk := I.ti u
          rw [hp] at hk
          simp only [Option.isSome_some] at hk
          exact unpark_T hcur r hk (fun _ => hdl)
        · exact I.ti u
    · cases h
  | spurious t =>
    simp only [texec, Option.map_eq_some_iff] at h
    obtain ⟨st', hx, rfl⟩ := h
    have hx' := hx
    simp only [exec] at hx'
    split at hx'
    · rename_i p hp
      injection hx' with hx'
      subst hx'
      obtain ⟨f, b⟩ := p
      obtain ⟨rfl, cur, hcur⟩ := I.pk t f b hp
      refine ⟨fun u g b' hu => ?_, fun u => ?_⟩
      · simp only [setLoc_parked, setParked_parked] at hu
        split at hu
        · cases hu
        · rename_i hut
          simpa [hut] using I.pk u g b' hu
      · simp only [setLoc_parked, setParked_parked, setLoc_mem, setParked_mem, setLoc_loc,
          setParked_loc]
        split
        · rename_i hut
          subst hut
          simp only [Option.isSome_none]
          have hk := I.ti u
          rw [hp] at hk
          simp only [Option.isSome_some] at hk
          exact unpark_T hcur rWoken hk (fun h' => by simp [rWoken, rTimedOut] at h')
        · exact I.ti u
    · cases hx'
  | call t l =>
    simp only [texec, Option.map_eq_some_iff] at h
    obtain ⟨st', hx, rfl⟩ := h
    obtain ⟨hp, ho, he, hm, hpk, hloc, hth⟩ := exec_call_inv hx
    refine ⟨fun u g b hu => ?_, fun u => ?_⟩
    · rw [hpk] at hu
      have hut : u ≠ t := fun h' => by rw [h', hp] at hu; cases hu
      rw [hloc, if_neg hut]
      exact I.pk u g b hu
    · rw [hloc, hm, hpk]
      split
      · exact hE _ _ he _ _ _
      · exact I.ti u

theorem tinv_reachable {cfg e} (hE : EntryT e) {ts0 ts : TState (mkP cfg e)} (h0 : TInv ts0)
    (h : TReachable pcOfL ts0 ts) : TInv ts := by
  induction h with
  | init => exact h0
  | step a _ he ih => exact tinv_texec hE a ih he

/-- the timed semantics refines the untimed one: every timed run is a run of `Conc.exec` -/
theorem treachable_reachable {P : Proto} {pcOf : P.L → PC} {ts0 ts : TState P}
    (h : TReachable pcOf ts0 ts) : Reachable ts0.st ts.st := by
  induction h with
  | init => exact .init
  | step a _ he ih =>
    refine .step a ih ?_
    cases a <;> simp only [texec] at he
    case timeout t =>
      split at he
      · simp only [Option.map_eq_some_iff] at he
        obtain ⟨st', hx, rfl⟩ := he; exact hx
      · cases he
    all_goals
      simp only [Option.map_eq_some_iff] at he
      obtain ⟨st', hx, rfl⟩ := he; exact hx

end Dispenso.Future
