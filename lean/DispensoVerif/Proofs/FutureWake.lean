import DispensoVerif.Proofs.FutureRun
import DispensoVerif.Proofs.FutureEvt
/-
Proofs for C18, layer W: no waiter of a Future is left behind.  A thread parks in a futex wait on
the status word only with an expected value different from `kReady`, so nobody can park once the
status is `kReady`; the thread that stored `kReady` wakes all parked threads next.  Hence: status
`kReady` ⇒ nobody is parked, or a wake-all is still pending.  Core Lean only.
-/
namespace Dispenso.Future
open Dispenso.Conc Dispenso.ConcL

/-- a futex wait is only started with an expected value that is not the completed status -/
def LocW (cfg : Cfg) : PC → Prop
  | .evWait _ cur => cur ≠ cfg.c
  | .wfWait _ _ cur => cur ≠ cfg.c
  | _ => True

def isWake : PC → Bool
  | .ntWake _ => true
  | _ => false

/-- status completed ⇒ nobody is parked, or an unparked thread is about to wake everybody -/
def WakeOK {cfg e} (s : State (mkP cfg e)) : Prop :=
  s.threads.length < intMax → s.mem 0 = cfg.c →
    (∀ u, s.parked u = none) ∨ ∃ t, isWake (s.loc t).pc = true ∧ s.parked t = none

theorem LocW_cont (cfg : Cfg) (l : L) (r : Int) (h : LocW cfg l.pc) : LocW cfg (cont cfg l r).pc := by
  obtain ⟨h0, pc⟩ := l
  have hfin : ∀ k, LocW cfg (fin k) := by intro k; cases k <;> simp [fin, LocW]
  have hslow : ∀ k, LocW cfg (slow k) := by intro k; cases k <;> simp [slow, LocW]
  cases pc <;> simp only [cont, contPC] <;> (try (repeat' split)) <;>
    first
      | exact hfin _
      | exact hslow _
      | (simp only [LocW] <;> first | assumption | trivial)

theorem LocW_entry (cfg : Cfg) (l l' : L) (h : futEntry cfg l l' = true) : LocW cfg l'.pc := by
  obtain ⟨h0, pc⟩ := l
  obtain ⟨h1, pc'⟩ := l'
  simp only [futEntry, Bool.and_eq_true, Bool.or_eq_true, decide_eq_true_eq] at h
  obtain ⟨_, hc⟩ := h
  rcases hc with (⟨_, hf⟩ | ⟨_, hf⟩) | ⟨_, rfl⟩
  · cases pc' <;> simp_all [freeEntry, LocW]
  · cases pc' <;> simp_all [handleEntry, LocW]
  · simp [LocW]

theorem locW_reachable {cfg : Cfg} {hs : List Nat} {now : Int} {s : State (futProto cfg)}
    (h : Reachable (futInit cfg hs now) s) (t : TId) : LocW cfg (s.loc t).pc :=
  local_invariant (cfg := cfg) (e := futEntry cfg) (fun l => LocW cfg l.pc) (LocW_cont cfg)
    (LocW_entry cfg) (s0 := futInit cfg hs now) (fun _ => trivial) h t

/-- the status word is written only by the winning CAS (0 → 1) and by `notify` (→ completed) -/
theorem stepM_W {cfg : Cfg} {m m' : Fld → Int} {pc : PC} {r : Int}
    (h : StepM cfg m pc r m') :
    (m' 0 = m 0 ∨ (m 0 = 0 ∧ m' 0 = 1) ∨ (∃ k, pc = .ntStore k ∧ m' 0 = cfg.c)) ∧ isWake pc = false := by
  cases pc <;> step_norm <;> simp [upd, isWake] <;> (try omega)

theorem wakeOK_exec {cfg} (hc : cfg.c = 2) {s s' : State (mkP cfg (futEntry cfg))}
    (a : Act (mkP cfg (futEntry cfg))) (I : WakeOK s) (LW : ∀ t, LocW cfg (s.loc t).pc) (R : InvR s)
    (h : exec s a = some s') : WakeOK s' := by
  have hlen := exec_threads_length h
  intro hn hz
  have hn' : s.threads.length < intMax := Nat.lt_of_le_of_lt hlen hn
  cases a with
  | step t =>
    obtain ⟨hp, hcs⟩ := exec_step h
    rcases hcs with ⟨cur, b, ho, hm, rfl⟩ | ⟨r, m', hs, rfl⟩
    · -- parking with the status completed is impossible
      exfalso
      have hl := LW t
      generalize (s.loc t).pc = pc at ho hl
      cases pc <;> simp only [opPC, reduceCtorEq, Option.some.injEq] at ho
      · obtain ⟨_, rfl, _⟩ := ho
        simp only [LocW] at hl
        exact hl (hm.symm.trans hz)
      · obtain ⟨_, rfl, _⟩ := ho
        simp only [LocW] at hl
        exact hl (hm.symm.trans hz)
    · obtain ⟨hm0, hnw⟩ := stepM_W hs
      have hz' : m' 0 = cfg.c := hz
      rcases hm0 with h0 | ⟨h0, h1⟩ | ⟨k, hk, _⟩
      · rcases I hn' (by rw [← h0]; exact hz') with hall | ⟨u, hu, hpu⟩
        · exact Or.inl (by simpa using hall)
        · have hut : u ≠ t := fun h' => by rw [h', hnw] at hu; cases hu
          exact Or.inr ⟨u, by simpa [hut] using hu, by simpa using hpu⟩
      · exfalso; omega
      · refine Or.inr ⟨t, ?_, by simpa using hp⟩
        simp only [setLoc_loc, if_true]
        have : (s.loc t) = ⟨(s.loc t).h, (s.loc t).pc⟩ := rfl
        rw [this, hk]
        rfl
  | wake t ws =>
    obtain ⟨hp, f, n, ho, hnd, hsub, hall, htw, rfl⟩ := exec_wake_inv h
    have ho' : opPC cfg (s.loc t).pc = some (.fwake f n) := ho
    have hfn : f = 0 ∧ n = intMax := by
      generalize (s.loc t).pc = pc at ho'
      cases pc <;> simp only [opPC, reduceCtorEq, Option.some.injEq] at ho'
      obtain ⟨rfl, rfl⟩ := ho'; exact ⟨rfl, rfl⟩
    obtain ⟨rfl, rfl⟩ := hfn
    left
    intro u
    simp only [setLoc_parked, unparkAll_parked]
    split
    · rfl
    · rename_i huw
      cases hpu : s.parked u with
      | none => rfl
      | some p =>
        exfalso
        obtain ⟨g, b⟩ := p
        obtain ⟨rfl, _⟩ := R.pk u g b hpu
        have hlen' : ws.length < intMax :=
          Nat.lt_of_le_of_lt (List.Nodup.length_le_of_subset hnd
            (fun v hv => ((mem_parkedOn s 0 v).mp (hsub v hv)).1)) hn'
        have hut : u ∈ s.threads := by
          apply Classical.byContradiction
          intro hnu
          rw [(R.out u hnu).2] at hpu; cases hpu
        exact huw (hall hlen' u ((mem_parkedOn s 0 u).mpr ⟨hut, b, hpu⟩))
  | timeout t =>
    obtain ⟨p, r, hp, rfl⟩ := exec_unpark_inv (Or.inl h)
    rcases I hn' hz with hall | ⟨u, hu, hpu⟩
    · rw [hall t] at hp; cases hp
    · have hut : u ≠ t := fun h' => by rw [h', hp] at hpu; cases hpu
      exact Or.inr ⟨u, by simpa [hut] using hu, by simpa [hut] using hpu⟩
  | spurious t =>
    obtain ⟨p, r, hp, rfl⟩ := exec_unpark_inv (Or.inr h)
    rcases I hn' hz with hall | ⟨u, hu, hpu⟩
    · rw [hall t] at hp; cases hp
    · have hut : u ≠ t := fun h' => by rw [h', hp] at hpu; cases hpu
      exact Or.inr ⟨u, by simpa [hut] using hu, by simpa [hut] using hpu⟩
  | call t l =>
    obtain ⟨hp, ho, he, hm, hpk, hloc, hth⟩ := exec_call_inv h
    rw [hm] at hz
    rcases I hn' hz with hall | ⟨u, hu, hpu⟩
    · exact Or.inl (by rw [hpk]; exact hall)
    · have hut : u ≠ t := fun h' => by
        subst h'
        have ho' : opPC cfg (s.loc u).pc = none := ho
        generalize (s.loc u).pc = pc at hu ho'
        cases pc <;> simp [isWake] at hu
        simp [opPC] at ho'
      exact Or.inr ⟨u, by rw [hloc, if_neg hut]; exact hu, by rw [hpk]; exact hpu⟩

theorem wakeOK_reachable {cfg : Cfg} (hc : cfg.c = 2) {hs : List Nat} {now : Int}
    {s : State (futProto cfg)} (h : Reachable (futInit cfg hs now) s) :
    WakeOK (cfg := cfg) (e := futEntry cfg) s := by
  induction h with
  | init => intro _ _; exact Or.inl (fun _ => rfl)
  | step a hr he ih =>
    exact wakeOK_exec hc a ih (fun t => locW_reachable hr t) (invR_reachable hr) he

end Dispenso.Future
