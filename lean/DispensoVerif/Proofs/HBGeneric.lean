import DispensoVerif.Core.HB
import DispensoVerif.Proofs.Event
/-
Inversion of `Conc.exec` for the happens-before proofs of protocols that park threads (futex):
an action is a memory operation of one thread (the only kind that has a memory event), a
scheduling action (park, wake, time-out, spurious wake-up: memory unchanged, threads continue from
a futex operation), or a client call.  Core Lean only.
-/
namespace Dispenso.HB
open Dispenso.Conc

def isFutexOp : Option AOp → Bool
  | some (.fwait _ _ _) => true
  | some (.fwake _ _) => true
  | _ => false

def applyEff (mem : Fld → Int) : Option (Fld × Int) → (Fld → Int)
  | none => mem
  | some (f, v) => fun g => if g = f then v else mem g

def evl1 {P : Proto} (S : Spec P) (t : TId) (l : P.L) (mem : Fld → Int) (o : AOp) : Trace :=
  match evOfOp S t l mem o with
  | some e => [e]
  | none => []

theorem hevl_step {P : Proto} (S : Spec P) (s : State P) (t : TId) (o : AOp)
    (ho : P.op (s.loc t) = some o) : hevl S s (.step t) = evl1 S t (s.loc t) s.mem o := by
  simp only [hevl, hevOf, ho, evl1]
  cases evOfOp S t (s.loc t) s.mem o <;> rfl

inductive ExecKind {P : Proto} (S : Spec P) (s s' : State P) (a : Act P) : Prop where
  /-- a non-futex operation `o` of thread `t` returning `r` -/
  | op (t : TId) (o : AOp) (r : Int) (eff : Option (Fld × Int)) :
      a = .step t → P.op (s.loc t) = some o → isFutexOp (some o) = false →
      memEffect s.mem o = some (r, eff) → s'.mem = applyEff s.mem eff →
      (s'.loc = fun u => if u = t then P.cont (s.loc t) r else s.loc u) →
      hevl S s a = evl1 S t (s.loc t) s.mem o →
      ExecKind S s s' a
  /-- park / wake / time-out / spurious wake-up -/
  | sched : s'.mem = s.mem → hevl S s a = [] →
      (∀ u, s'.loc u = s.loc u ∨
        (isFutexOp (P.op (s.loc u)) = true ∧ ∃ r, s'.loc u = P.cont (s.loc u) r)) →
      ExecKind S s s' a
  /-- a client starts a call -/
  | call (t : TId) (l : P.L) : a = .call t l → P.op (s.loc t) = none →
      P.entry (s.loc t) l = true → s'.mem = s.mem → hevl S s a = [] →
      (s'.loc = fun u => if u = t then l else s.loc u) → ExecKind S s s' a

/-- parked threads are at a futex operation (an invariant of `exec`, see `parkedFutex_exec`) -/
def ParkedFutex {P : Proto} (s : State P) : Prop :=
  ∀ u, s.parked u ≠ none → isFutexOp (P.op (s.loc u)) = true

theorem exec_kind {P : Proto} (S : Spec P) {s s' : State P} {a : Act P}
    (hpk : ParkedFutex s) (h : exec s a = some s') : ExecKind S s s' a := by
  cases a with
  | step t =>
    simp only [exec] at h
    split at h
    · contradiction
    · cases ho : P.op (s.loc t) with
      | none => simp [ho] at h
      | some o =>
        rw [ho] at h
        cases o with
        | fwake f n => simp at h
        | fwait f e timed =>
          simp only at h
          refine .sched ?_ (by simp [hevl, hevOf, ho, evOfOp]) ?_
          · split at h <;> (cases h; rfl)
          · intro u
            split at h
            · cases h; left; rfl
            · cases h
              by_cases e1 : u = t
              · subst e1; right; exact ⟨by simp [isFutexOp, ho], rAgain, by simp⟩
              · left; simp [e1]
        | load f =>
          simp only [memEffect] at h; cases h
          exact .op t _ _ none rfl ho rfl rfl rfl rfl (hevl_step S s t _ ho)
        | store f v =>
          simp only [memEffect] at h; cases h
          exact .op t _ _ (some (f, v)) rfl ho rfl rfl rfl rfl (hevl_step S s t _ ho)
        | xchg f v =>
          simp only [memEffect] at h; cases h
          exact .op t _ _ (some (f, v)) rfl ho rfl rfl rfl rfl (hevl_step S s t _ ho)
        | fadd f v =>
          simp only [memEffect] at h; cases h
          exact .op t _ _ (some (f, _)) rfl ho rfl rfl rfl rfl (hevl_step S s t _ ho)
        | fsub f v =>
          simp only [memEffect] at h; cases h
          exact .op t _ _ (some (f, _)) rfl ho rfl rfl rfl rfl (hevl_step S s t _ ho)
        | for_ f v =>
          simp only [memEffect] at h; cases h
          exact .op t _ _ (some (f, _)) rfl ho rfl rfl rfl rfl (hevl_step S s t _ ho)
        | fand f v =>
          simp only [memEffect] at h; cases h
          exact .op t _ _ (some (f, _)) rfl ho rfl rfl rfl rfl (hevl_step S s t _ ho)
        | cas f e dd =>
          simp only [memEffect] at h
          by_cases hc : s.mem f = e
          · simp only [hc, if_true] at h; cases h
            exact .op t _ _ (some (f, dd)) rfl ho rfl (by simp [memEffect, hc]) rfl rfl
              (hevl_step S s t _ ho)
          · simp only [hc, if_false] at h; cases h
            exact .op t _ _ none rfl ho rfl (by simp [memEffect, hc]) rfl rfl
              (hevl_step S s t _ ho)
        | fence =>
          simp only [memEffect] at h; cases h
          exact .op t _ _ none rfl ho rfl rfl rfl rfl (hevl_step S s t _ ho)
        | yield =>
          simp only [memEffect] at h; cases h
          exact .op t _ _ none rfl ho rfl rfl rfl rfl (hevl_step S s t _ ho)
        | silent =>
          simp only [memEffect] at h; cases h
          exact .op t _ _ none rfl ho rfl rfl rfl rfl (hevl_step S s t _ ho)
  | wake t ws =>
    have hnp : s.parked t = none := by
      cases hp : s.parked t with
      | none => rfl
      | some x => simp [exec, hp] at h
    simp only [exec] at h
    split at h
    · contradiction
    · split at h
      · rename_i f n ho
        split at h
        · rename_i hc
          cases h
          refine .sched (by simp) (by simp [hevl, hevOf]) ?_
          intro u
          simp only [setLoc_loc, unparkAll_loc _ _ hc.1]
          by_cases e1 : u = t
          · subst e1
            right
            refine ⟨by simp [isFutexOp, ho], ?_⟩
            by_cases e2 : u ∈ ws
            · -- a thread cannot wake itself: it is not parked
              have := (mem_parkedOn s f u).1 (hc.2.1 u e2)
              obtain ⟨_, b, hb⟩ := this
              rw [hnp] at hb; cases hb
            · simp [e2]
              exact ⟨_, rfl⟩
          · simp only [if_neg e1]
            by_cases e2 : u ∈ ws
            · right
              have := (mem_parkedOn s f u).1 (hc.2.1 u e2)
              simp only [if_pos e2]
              obtain ⟨_, b, hb⟩ := this
              exact ⟨hpk u (by simp [hb]), rWoken, rfl⟩
            · left; simp [e2]
        · contradiction
      · contradiction
  | timeout t =>
    simp only [exec] at h
    split at h
    · cases h
      refine .sched (by simp) (by simp [hevl, hevOf]) ?_
      intro u
      by_cases e1 : u = t
      · subst e1; right
        rename_i hb
        exact ⟨hpk u (by simp [hb]), rTimedOut, by simp⟩
      · left; simp [e1]
    · contradiction
  | spurious t =>
    simp only [exec] at h
    split at h
    · cases h
      refine .sched (by simp) (by simp [hevl, hevOf]) ?_
      intro u
      by_cases e1 : u = t
      · subst e1; right
        rename_i hb
        exact ⟨hpk u (by simp [hb]), rWoken, by simp⟩
      · left; simp [e1]
    · contradiction
  | call t l =>
    simp only [exec] at h
    split at h
    · rename_i hc
      cases h
      exact .call t l rfl hc.2.1 hc.2.2 rfl (by simp [hevl, hevOf]) rfl
    · contradiction

theorem parkedFutex_init {P : Proto} (idle : P.L) (mem : Fld → Int) :
    ParkedFutex (initState P idle mem) := fun _ h => absurd rfl h

theorem parkedFutex_exec {P : Proto} {s s' : State P} {a : Act P} (hpk : ParkedFutex s)
    (h : exec s a = some s') : ParkedFutex s' := by
  intro u hu
  cases a with
  | step t =>
    have hnp : s.parked t = none := by
      cases hp : s.parked t with
      | none => rfl
      | some x => simp [exec, hp] at h
    simp only [exec, hnp, ne_eq, not_true_eq_false, if_false] at h
    cases ho : P.op (s.loc t) with
    | none => simp [ho] at h
    | some o =>
      rw [ho] at h
      have other : ∀ l', u ≠ t → (setLoc s t l').parked u ≠ none →
          isFutexOp (P.op ((setLoc s t l').loc u)) = true := by
        intro l' e1 h1
        simp only [setLoc_loc, if_neg e1]
        exact hpk u h1
      have self : ∀ l', (setLoc s t l').parked t = none := fun _ => hnp
      cases o with
      | fwake f n => simp at h
      | fwait f e timed =>
        simp only at h
        split at h
        · cases h
          by_cases e1 : u = t
          · subst e1; simp [isFutexOp, ho]
          · simp only [setParked_parked, if_neg e1] at hu
            exact hpk u hu
        · cases h
          by_cases e1 : u = t
          · subst e1; exact absurd (self _) hu
          · exact other _ e1 hu
      | load f =>
        simp only [memEffect] at h; cases h
        by_cases e1 : u = t
        · subst e1; exact absurd (self _) hu
        · exact other _ e1 hu
      | store f v =>
        simp only [memEffect] at h; cases h
        by_cases e1 : u = t
        · subst e1; exact absurd hnp hu
        · simp only [setLoc_loc, if_neg e1, setMem_loc]; exact hpk u hu
      | xchg f v =>
        simp only [memEffect] at h; cases h
        by_cases e1 : u = t
        · subst e1; exact absurd hnp hu
        · simp only [setLoc_loc, if_neg e1, setMem_loc]; exact hpk u hu
      | fadd f v =>
        simp only [memEffect] at h; cases h
        by_cases e1 : u = t
        · subst e1; exact absurd hnp hu
        · simp only [setLoc_loc, if_neg e1, setMem_loc]; exact hpk u hu
      | fsub f v =>
        simp only [memEffect] at h; cases h
        by_cases e1 : u = t
        · subst e1; exact absurd hnp hu
        · simp only [setLoc_loc, if_neg e1, setMem_loc]; exact hpk u hu
      | for_ f v =>
        simp only [memEffect] at h; cases h
        by_cases e1 : u = t
        · subst e1; exact absurd hnp hu
        · simp only [setLoc_loc, if_neg e1, setMem_loc]; exact hpk u hu
      | fand f v =>
        simp only [memEffect] at h; cases h
        by_cases e1 : u = t
        · subst e1; exact absurd hnp hu
        · simp only [setLoc_loc, if_neg e1, setMem_loc]; exact hpk u hu
      | cas f e dd =>
        simp only [memEffect] at h
        by_cases hc : s.mem f = e
        · simp only [hc, if_true] at h
          cases h
          by_cases e1 : u = t
          · subst e1; exact absurd hnp hu
          · simp only [setLoc_loc, if_neg e1, setMem_loc]; exact hpk u hu
        · simp only [hc, if_false] at h
          cases h
          by_cases e1 : u = t
          · subst e1; exact absurd (self _) hu
          · exact other _ e1 hu
      | fence =>
        simp only [memEffect] at h; cases h
        by_cases e1 : u = t
        · subst e1; exact absurd (self _) hu
        · exact other _ e1 hu
      | yield =>
        simp only [memEffect] at h; cases h
        by_cases e1 : u = t
        · subst e1; exact absurd (self _) hu
        · exact other _ e1 hu
      | silent =>
        simp only [memEffect] at h; cases h
        by_cases e1 : u = t
        · subst e1; exact absurd (self _) hu
        · exact other _ e1 hu
  | wake t ws =>
    have hnp : s.parked t = none := by
      cases hp : s.parked t with
      | none => rfl
      | some x => simp [exec, hp] at h
    simp only [exec] at h
    split at h
    · contradiction
    · split at h
      · rename_i f n ho
        split at h
        · rename_i hc
          cases h
          simp only [setLoc_parked, unparkAll_parked] at hu
          by_cases e2 : u ∈ ws
          · simp [e2] at hu
          · simp only [if_neg e2] at hu
            have e1 : u ≠ t := fun e => hu (e ▸ hnp)
            simp only [setLoc_loc, if_neg e1, unparkAll_loc _ _ hc.1, if_neg e2]
            exact hpk u hu
        · contradiction
      · contradiction
  | timeout t =>
    simp only [exec] at h
    split at h
    · cases h
      by_cases e1 : u = t
      · subst e1; simp at hu
      · simp only [setLoc_parked, setParked_parked, if_neg e1] at hu
        simp only [setLoc_loc, if_neg e1, setParked_loc]
        exact hpk u hu
    · contradiction
  | spurious t =>
    simp only [exec] at h
    split at h
    · cases h
      by_cases e1 : u = t
      · subst e1; simp at hu
      · simp only [setLoc_parked, setParked_parked, if_neg e1] at hu
        simp only [setLoc_loc, if_neg e1, setParked_loc]
        exact hpk u hu
    · contradiction
  | call t l =>
    simp only [exec] at h
    split at h
    · rename_i hc
      cases h
      have hu' : s.parked u ≠ none := hu
      by_cases e1 : u = t
      · subst e1; exact absurd hc.1 hu'
      · show isFutexOp (P.op ((setLoc s t l).loc u)) = true
        simp only [setLoc_loc, if_neg e1]
        exact hpk u hu'
    · contradiction

end Dispenso.HB
