import DispensoVerif.Proofs.SchedStep

/-!
Definitions for the invariants of the scheduling ledger: frame measures, per-frame and per-stack
well-formedness, and the finishing tactic of the counting proofs.
-/
set_option linter.unusedSimpArgs false

namespace Dispenso.Sched

/-! ## frame measures -/
def mCredit (f : Frame) : Nat := f.credit
def mUnacc (f : Frame) : Nat := f.unacc
def mTook (f : Frame) : Nat := if f.pend = .took then 1 else 0
def mTs (S : Nat) (f : Frame) : Nat := if f.set = S then f.tsCredit else 0
def mGuarded (S : Nat) (f : Frame) : Nat := if f.pend = .guarded S then 1 else 0
def mRunPk (S : Nat) (f : Frame) : Nat :=
  if f.kind = .run ∧ f.packaged = true ∧ f.set = S then 1 else 0
def mPendDec (S : Nat) (f : Frame) : Nat := if f.pendDec = some S then 1 else 0
def mRun (id : Nat) (f : Frame) : Nat := if f.kind = .run ∧ f.id = id then 1 else 0
def mResv (S : Nat) (f : Frame) : Nat := (f.resv.filter (fun p => p.2 = S)).length

instance : Z0 mCredit := ⟨rfl⟩
instance : Z0 mUnacc := ⟨rfl⟩
instance : Z0 mTook := ⟨rfl⟩
instance (S) : Z0 (mTs S) := ⟨by simp [mTs]⟩
instance (S) : Z0 (mGuarded S) := ⟨rfl⟩
instance (S) : Z0 (mRunPk S) := ⟨rfl⟩
instance (S) : Z0 (mPendDec S) := ⟨rfl⟩
instance (id) : Z0 (mRun id) := ⟨rfl⟩
instance (S) : Z0 (mResv S) := ⟨rfl⟩

/-- total of a measure over all frames of a state -/
def tot (m : Frame → Nat) (s : St) : Nat := totalT m s.tids s.thr

/-! ## per-frame and per-stack well-formedness -/

def FrameOK (sub : List (Nat × Nat)) (f : Frame) : Prop :=
  (∀ p ∈ f.resv, p ∈ sub ∧ p.2 = f.set) ∧
  (f.kind = .cancel → f.unacc = 0 ∧ f.pend = .none ∧ f.pendDec = none) ∧
  (f.kind ≠ .sched → f.kind ≠ .bulk → f.credit = 0 ∧ f.tsCredit = 0 ∧ f.resv = [] ∧
      f.pend ≠ .inlPool ∧ (∀ S, f.pend ≠ .inlGuarded S) ∧ f.pend ≠ .inlTs) ∧
  (f.kind = .sched ∨ f.kind = .bulk → f.pend ≠ .took ∧ ∀ S, f.pend ≠ .guarded S) ∧
  (f.kind = .run → (f.id, f.set) ∈ sub)

def Link (f g : Frame) : Prop :=
  f.kind = .run → g.kind ≠ .cancel ∧
    (f.packaged = false → f.set ≠ 0 → (g.kind = .sched ∨ g.kind = .bulk) ∧ g.set = f.set)

def StackOK (sub : List (Nat × Nat)) : List Frame → Prop
  | [] => True
  | f :: rest => FrameOK sub f ∧ Link f (rest.headD {}) ∧ StackOK sub rest

section
variable {s s' : St} {t : Nat} {f : Frame} {rest : List Frame} {e : Ev}

theorem FrameOK_base (sub) : FrameOK sub {} := by simp [FrameOK]

theorem FrameOK_mono {sub sub' : List (Nat × Nat)} (h : ∀ p ∈ sub, p ∈ sub') {f : Frame}
    (hf : FrameOK sub f) : FrameOK sub' f := by
  obtain ⟨h1, h2, h3, h4, h5⟩ := hf
  exact ⟨fun p hp => ⟨h _ (h1 p hp).1, (h1 p hp).2⟩, h2, h3, h4, fun hk => h _ (h5 hk)⟩

theorem StackOK_mono {sub sub' : List (Nat × Nat)} (h : ∀ p ∈ sub, p ∈ sub') :
    ∀ {l : List Frame}, StackOK sub l → StackOK sub' l
  | [], _ => trivial
  | _ :: _, ⟨h1, h2, h3⟩ => ⟨FrameOK_mono h h1, h2, StackOK_mono h h3⟩

theorem StackOK_norm {sub : List (Nat × Nat)} {l : List Frame} (h : StackOK sub l) :
    StackOK sub (norm l) := by
  cases l with
  | nil => exact ⟨FrameOK_base sub, by simp [Link], trivial⟩
  | cons a l => exact h

theorem StackOK_mem {sub : List (Nat × Nat)} : ∀ {l : List Frame}, StackOK sub l →
    ∀ f ∈ l, FrameOK sub f
  | [], _, _, hf => by cases hf
  | a :: l, ⟨h1, _, h3⟩, f, hf => by
    rcases List.mem_cons.1 hf with rfl | hf
    · exact h1
    · exact StackOK_mem h3 f hf

theorem stk_upd {sub sub' : List (Nat × Nat)} {thr : Nat → List Frame}
    (hall : AllStk (StackOK sub) thr) (hsub : ∀ p ∈ sub, p ∈ sub') (t : Nat) {l : List Frame}
    (hl : StackOK sub' l) : AllStk (StackOK sub') (upd thr t l) :=
  AllStk_upd (AllStk_mono hall (fun _ => StackOK_mono hsub)) t l (StackOK_norm hl)

theorem sub_unique {sub : List (Nat × Nat)} (h : (sub.map Prod.fst).Nodup) {id a b : Nat}
    (ha : (id, a) ∈ sub) (hb : (id, b) ∈ sub) : a = b := by
  induction sub with
  | nil => cases ha
  | cons p sub ih =>
    obtain ⟨p1, p2⟩ := p
    simp only [List.map_cons, List.nodup_cons, List.mem_map, not_exists, not_and] at h
    simp only [List.mem_cons, Prod.mk.injEq] at ha hb
    rcases ha with ha | ha <;> rcases hb with hb | hb
    · rw [ha.2, hb.2]
    · exact absurd ha.1 (h.1 _ hb)
    · exact absurd hb.1 (h.1 _ ha)
    · exact ih h.2 ha hb

theorem FrameOK_run {sub : List (Nat × Nat)} {id st : Nat} (b : Bool) (h : (id, st) ∈ sub) :
    FrameOK sub { kind := .run, set := st, id := id, packaged := b } := by
  simp [FrameOK, h]

theorem kind_split {P : Prop} (f : Frame)
    (h1 : f.kind = .sched ∨ f.kind = .bulk → P)
    (h2 : f.kind = .cancel → P)
    (h3 : f.kind ≠ .sched → f.kind ≠ .bulk → f.kind ≠ .cancel → P) : P := by
  cases hk : f.kind
  case sched => exact h1 (Or.inl hk)
  case bulk => exact h1 (Or.inr hk)
  case cancel => exact h2 hk
  all_goals exact h3 (by simp [hk]) (by simp [hk]) (by simp [hk])

theorem call_ne {f : Frame} (hk : f.kind = .sched ∨ f.kind = .bulk) :
    f.kind ≠ .cancel ∧ f.kind ≠ .run ∧ ¬ (f.kind ≠ .sched ∧ f.kind ≠ .bulk) := by
  rcases hk with hk | hk <;> simp [hk]

/-- `FrameOK` for a frame of a submission call -/
theorem FrameOK_call {sub : List (Nat × Nat)} {f' : Frame} (hk : f'.kind = .sched ∨ f'.kind = .bulk)
    (c1 : ∀ p ∈ f'.resv, p ∈ sub ∧ p.2 = f'.set)
    (c4 : f'.pend ≠ .took ∧ ∀ S, f'.pend ≠ .guarded S) : FrameOK sub f' :=
  ⟨c1, fun hc => absurd hc (call_ne hk).1, fun h1 h2 => absurd ⟨h1, h2⟩ (call_ne hk).2.2,
    fun _ => c4, fun hr => absurd hr (call_ne hk).2.1⟩

/-- `FrameOK` for a frame that is neither a submission call nor a cancel call -/
theorem FrameOK_other {sub : List (Nat × Nat)} {f' : Frame} (h1 : f'.kind ≠ .sched)
    (h2 : f'.kind ≠ .bulk) (h3 : f'.kind ≠ .cancel)
    (c3 : f'.credit = 0 ∧ f'.tsCredit = 0 ∧ f'.resv = [] ∧ f'.pend ≠ .inlPool ∧
      (∀ S, f'.pend ≠ .inlGuarded S) ∧ f'.pend ≠ .inlTs)
    (c5 : f'.kind = .run → (f'.id, f'.set) ∈ sub) : FrameOK sub f' :=
  ⟨by simp [c3.2.2.1], fun hc => absurd hc h3, fun _ _ => c3,
    fun hk => by rcases hk with hk | hk <;> first | exact absurd hk h1 | exact absurd hk h2, c5⟩

theorem kind_of_took {sub : List (Nat × Nat)} {f : Frame} (hf : FrameOK sub f)
    (hp : f.pend = .took ∨ ∃ S, f.pend = .guarded S) :
    f.kind ≠ .sched ∧ f.kind ≠ .bulk ∧ f.kind ≠ .cancel := by
  obtain ⟨_, f2, _, f4, _⟩ := hf
  refine kind_split f (fun hk => ?_) (fun hc => ?_) (fun h1 h2 h3 => ⟨h1, h2, h3⟩)
  · have := f4 hk
    rcases hp with hp | ⟨S, hp⟩
    · exact absurd hp this.1
    · exact absurd hp (this.2 S)
  · have := (f2 hc).2.1
    rcases hp with hp | ⟨S, hp⟩ <;> simp [hp] at this

theorem kind_of_inl {sub : List (Nat × Nat)} {f : Frame} (hf : FrameOK sub f)
    (hp : f.pend = .inlPool ∨ (∃ S, f.pend = .inlGuarded S) ∨ f.pend = .inlTs) :
    f.kind = .sched ∨ f.kind = .bulk := by
  obtain ⟨_, f2, f3, _, _⟩ := hf
  refine kind_split f (fun h => h) (fun hc => ?_) (fun h1 h2 _ => ?_)
  · have := (f2 hc).2.1
    rcases hp with hp | ⟨S, hp⟩ | hp <;> simp [hp] at this
  · have := f3 h1 h2
    rcases hp with hp | ⟨S, hp⟩ | hp
    · exact absurd hp this.2.2.2.1
    · exact absurd hp (this.2.2.2.2.1 S)
    · exact absurd hp this.2.2.2.2.2

theorem count_moved {l : List Nat} {a S : Nat} (hall : ∀ x ∈ l, x = 0 ∨ x = a) (hS : S ≠ 0) :
    l.count S = if a = S then (l.filter (· ≠ 0)).length else 0 := by
  induction l with
  | nil => simp
  | cons x l ih =>
    have ih' := ih (fun y hy => hall y (List.mem_cons_of_mem _ hy))
    have hx := hall x List.mem_cons_self
    simp only [List.count_cons, ih', List.filter_cons]
    by_cases hx0 : x = 0
    · subst hx0
      have : ¬ (0 = S) := fun e => hS e.symm
      simp [this]
    · have hxa : x = a := by rcases hx with h | h; exact absurd h hx0; exact h
      subst hxa
      by_cases hxs : x = S
      · simp [hxs, hx0, hS]
      · simp [hxs, hx0]

theorem filter_single_len (x : Nat × Nat) (S : Nat) :
    ([x].filter (fun p => decide (p.2 = S))).length = if x.2 = S then 1 else 0 := by
  by_cases h : x.2 = S <;> simp [List.filter_cons, h]

macro "meas_fin " hw:term : tactic =>
  `(tactic| (
      (try simp only [settled_iff] at *)
      (try simp [tot, totalT_upd $hw:term, mTs, mGuarded, mRunPk, mPendDec, mRun, mResv, placed,
        upd_apply, List.count_cons, List.count_append, List.count_erase, filter_single_len, *])
      all_goals first | omega | (split_ifs at * <;> (try subst_vars) <;> omega) | skip))

end
end Dispenso.Sched
