/-
C43: `parseLinuxCpuList` accepts exactly the cpu-list grammar: for every comma separated list of
`N` / `N-M` items rendered in decimal the parser returns `denote items`.
-/
import DispensoVerif.Model.CpuSet

namespace Dispenso.CpuSet

/-! ### characters of a decimal number -/

theorem natToChars_eq (n : Nat) : natToChars n = Nat.toDigits 10 n := by
  simp [natToChars]

theorem isDigit_eq (c : Char) : isDigit c = c.isDigit := by
  simp [isDigit, Char.isDigit, Char.le_def, Bool.decide_and]

theorem isDigit_of_mem_natToChars {n : Nat} {c : Char} (h : c ∈ natToChars n) :
    isDigit c = true := by
  rw [natToChars_eq] at h
  rw [isDigit_eq]
  exact Nat.isDigit_of_mem_toDigits (by decide) (by decide) h

theorem natToChars_ne_nil (n : Nat) : natToChars n ≠ [] := by
  rw [natToChars_eq]; exact Nat.toDigits_ne_nil

theorem isDigit_facts {c : Char} (h : isDigit c = true) :
    isSpace c = false ∧ c ≠ '-' ∧ c ≠ '+' ∧ c ≠ ',' ∧ c ≠ '\x00' := by
  refine ⟨?_, ?_, ?_, ?_, ?_⟩
  · cases hs : isSpace c with
    | false => rfl
    | true =>
      simp only [isSpace, Bool.decide_or, Bool.or_eq_true, decide_eq_true_eq] at hs
      rcases hs with rfl | rfl | rfl | rfl | rfl | rfl <;> exact absurd h (by decide)
  all_goals (rintro rfl; exact absurd h (by decide))

/-! ### `strtol` on a decimal number -/

theorem digitsVal_digits (ds : List Char) (acc : Nat) (hds : ∀ c ∈ ds, isDigit c = true) :
    digitsVal ds acc = (Nat.ofDigitChars 10 ds acc, ds.length) := by
  induction ds generalizing acc with
  | nil => simp [digitsVal]
  | cons c cs ih =>
    have hc := hds c (by simp)
    have := ih (acc * 10 + (c.toNat - '0'.toNat)) (fun d hd => hds d (by simp [hd]))
    rw [digitsVal, if_pos hc]
    simp only []
    rw [this, Nat.ofDigitChars_cons, Nat.mul_comm 10 acc]
    rfl

theorem digitsVal_natToChars (n : Nat) :
    digitsVal (natToChars n) 0 = (n, (natToChars n).length) := by
  rw [digitsVal_digits _ _ (fun c hc => isDigit_of_mem_natToChars hc), natToChars_eq]
  simp

theorem parseIntClamped_natToChars (n : Nat) :
    parseIntClamped (natToChars n) = if (n : Int) ≤ kMaxReasonableCpuId then (n : Int) else -1 := by
  have hv := digitsVal_natToChars n
  have hne := natToChars_ne_nil n
  have hd : ∀ c ∈ natToChars n, isDigit c = true := fun c hc => isDigit_of_mem_natToChars hc
  generalize natToChars n = ds at *
  cases ds with
  | nil => exact absurd rfl hne
  | cons c cs =>
    obtain ⟨hsp, hm, hp, -, -⟩ := isDigit_facts (hd c (by simp))
    unfold parseIntClamped
    have hmatch : parseIntClamped.match_1 (fun _ => Bool × List Char) (c :: cs)
        (fun r => (true, r)) (fun r => (false, r)) (fun r => (false, r)) = (false, c :: cs) := by
      split
      · rename_i h; exact absurd (List.cons.inj h).1 hm
      · rename_i h; exact absurd (List.cons.inj h).1 hp
      · rfl
    simp only [List.dropWhile_cons, hsp, Bool.false_eq_true, if_false, hmatch, hv]
    have h0 : ¬ ((c :: cs).length = 0) := by simp
    rw [if_neg h0]
    unfold kMaxReasonableCpuId
    split <;> split <;> omega

/-! ### `strchr` splitting -/

theorem splitFirst_none {c : Char} {a : List Char} (h : c ∉ a) : splitFirst c a = none := by
  induction a with
  | nil => rfl
  | cons x xs ih =>
    have hx : x ≠ c := fun e => h (by simp [e])
    have := ih (fun m => h (by simp [m]))
    simp [splitFirst, hx, this]

theorem splitFirst_append {c : Char} {a : List Char} (b : List Char) (h : c ∉ a) :
    splitFirst c (a ++ c :: b) = some (a, b) := by
  induction a with
  | nil => simp [splitFirst]
  | cons x xs ih =>
    have hx : x ≠ c := fun e => h (by simp [e])
    have := ih (fun m => h (by simp [m]))
    simp [splitFirst, hx, this]

/-! ### one item -/

def renderItem : Item → List Char
  | .single n => natToChars n
  | .range lo hi => natToChars lo ++ ['-'] ++ natToChars hi

def denoteStep (s : Set) : Item → Set
  | .single n => if (n : Int) ≤ kMaxReasonableCpuId then add s n else s
  | .range lo hi =>
    if (lo : Int) ≤ kMaxReasonableCpuId ∧ (hi : Int) ≤ kMaxReasonableCpuId
    then addRange s lo ((hi : Int) + 1) else s

theorem denote_eq_foldl (items : List Item) : denote items = items.foldl denoteStep [] := by
  rfl

theorem render_single (it : Item) : render [it] = renderItem it := by
  cases it <;> rfl

theorem render_cons_cons (it it2 : Item) (rest : List Item) :
    render (it :: it2 :: rest) = renderItem it ++ ',' :: render (it2 :: rest) := by
  cases it <;> simp [render, renderItem]

theorem not_mem_natToChars {c : Char} (hc : isDigit c = false) (n : Nat) : c ∉ natToChars n :=
  fun h => by simp [isDigit_of_mem_natToChars h] at hc

theorem not_mem_renderItem {c : Char} (hc : isDigit c = false) (hm : c ≠ '-') (it : Item) :
    c ∉ renderItem it := by
  cases it <;> simp [renderItem, not_mem_natToChars hc, hm]

theorem renderItem_ne_nil (it : Item) : renderItem it ≠ [] := by
  cases it <;> simp [renderItem, natToChars_ne_nil]

theorem parseAndAddRange_renderItem (it : Item) (s : Set) :
    parseAndAddRange (renderItem it) s = denoteStep s it := by
  unfold parseAndAddRange
  rw [if_neg (renderItem_ne_nil it)]
  cases it with
  | single n =>
    simp only [renderItem, denoteStep]
    rw [splitFirst_none (not_mem_natToChars (by decide) n)]
    simp only [parseIntClamped_natToChars]
    split <;> simp
  | range lo hi =>
    simp only [renderItem, denoteStep, List.append_assoc, List.singleton_append]
    rw [splitFirst_append _ (not_mem_natToChars (by decide) lo)]
    simp only [parseIntClamped_natToChars]
    by_cases h1 : (lo : Int) ≤ kMaxReasonableCpuId <;>
      by_cases h2 : (hi : Int) ≤ kMaxReasonableCpuId <;> simp [h1, h2]

/-! ### the whole list -/

theorem length_le_length_render (items : List Item) : items.length ≤ (render items).length := by
  induction items with
  | nil => simp
  | cons it rest ih =>
    cases rest with
    | nil =>
      rw [render_single]
      have := List.length_pos_iff.mpr (renderItem_ne_nil it)
      simp only [List.length_cons, List.length_nil]
      omega
    | cons it2 rest =>
      rw [render_cons_cons]
      simp only [List.length_cons, List.length_append] at ih ⊢
      omega

theorem nul_not_mem_render (items : List Item) : '\x00' ∉ render items := by
  induction items with
  | nil => simp [render]
  | cons it rest ih =>
    have hit : '\x00' ∉ renderItem it := not_mem_renderItem (by decide) (by decide) it
    cases rest with
    | nil => rwa [render_single]
    | cons it2 rest =>
      rw [render_cons_cons]
      simp only [List.mem_append, List.mem_cons, not_or]
      exact ⟨hit, by decide, ih⟩

theorem parseLoop_render (items : List Item) (fuel : Nat) (s : Set)
    (hfuel : items.length ≤ fuel) :
    parseLoop fuel (render items) s = items.foldl denoteStep s := by
  induction items generalizing fuel s with
  | nil =>
    cases fuel with
    | zero => rfl
    | succ f => simp [parseLoop, render, splitFirst, parseAndAddRange]
  | cons it rest ih =>
    cases fuel with
    | zero => simp at hfuel
    | succ f =>
      have hcomma : ',' ∉ renderItem it := not_mem_renderItem (by decide) (by decide) it
      cases rest with
      | nil =>
        rw [render_single, parseLoop, splitFirst_none hcomma]
        simp [parseAndAddRange_renderItem]
      | cons it2 rest =>
        rw [render_cons_cons, parseLoop, splitFirst_append _ hcomma]
        simp only [parseAndAddRange_renderItem]
        rw [ih f _ (by simpa using hfuel)]
        rfl

theorem takeWhile_eq_self {α : Type} (p : α → Bool) (l : List α) (h : ∀ x ∈ l, p x = true) :
    l.takeWhile p = l := by
  induction l with
  | nil => rfl
  | cons x xs ih =>
    rw [List.takeWhile_cons, h x (by simp), if_pos rfl, ih (fun y hy => h y (by simp [hy]))]

/-- The parser accepts the cpu-list grammar and computes its denotation. -/
theorem parse_grammar (items : List Item) (_hne : items ≠ []) :
    parseLinuxCpuList (render items) = denote items := by
  unfold parseLinuxCpuList
  have htw : (render items).takeWhile (· ≠ '\x00') = render items := by
    apply takeWhile_eq_self
    intro c hc
    have : c ≠ '\x00' := fun e => nul_not_mem_render items (e ▸ hc)
    simpa using this
  simp only [htw]
  rw [parseLoop_render _ _ _ (Nat.le_succ_of_le (length_le_length_render items)), denote_eq_foldl]

theorem parse_single (n : Nat) : parseLinuxCpuList (natToChars n) = denote [.single n] :=
  parse_grammar [.single n] (by simp)

theorem parse_range (lo hi : Nat) :
    parseLinuxCpuList (natToChars lo ++ ['-'] ++ natToChars hi) = denote [.range lo hi] :=
  parse_grammar [.range lo hi] (by simp)

example : parseLinuxCpuList "0-3,8,10-11".toList = [0, 1, 2, 3, 8, 10, 11] := by decide
example : parseLinuxCpuList "5".toList = [5] := by decide
example : render [.range 0 3, .single 8] = "0-3,8".toList := by decide
example : denote [.range 0 3, .single 8, .single 2000, .range 1048577 2] = [0, 1, 2, 3, 8] := by decide
